import Uflow.Lemmas.EpPeerConn2Ex

/-!
# C01 — the sends queued during the handshake reach the half connection, in order; so does every later send

Model: `Uflow.Endpoint` (`Client::handle_handshake_syn_ack`, Pending arm; `Client::send`); every theorem holds
for every half connection `hc : HC H`. Helper lemmas: `Uflow/Lemmas/EpPeerConn2*.lean` (and `EpPeer*.lean`).

Vocabulary: `SendRec = (data, channel, mode)`; `sendsOfOps ops` — the `COp.send` calls of a run, in order;
`hcStart hc cfg now sq` — `sq.foldl (fun h (d, ch, m) => hc.send h d ch m) (hc.new cfg now)`;
`HCall`, `replay`, `dispatched`, `recvOf`, `trafficOf`, `trafficOfOps` as in `Props/C09Peer.lean`;
`sendsOf calls` — the `(data, channel, mode)` of the `send` calls of a trace; `decodesTo b f`.
-/

namespace Uflow.Props.C01

open Uflow.Endpoint Uflow.Codec Uflow.Gen Uflow.HalfConn

variable {H : Type}

/-- `C01_client_initial_sends_in_order` (single transition): a SYN-ACK handled while `pending` with queue
`snds` is accepted iff it acknowledges the client's nonce. Then the new half connection is exactly
`hc.new (hcConfig …) nowNs` followed by one `hc.send` per queued packet — each exactly once, in submission
order, with its own channel and mode, nothing else; the client is `active` (no disconnect signalled), exactly
one `connect` event is appended, and the reply is exactly the handshake ACK. Otherwise nothing changes. -/
theorem C01_client_initial_sends_in_order (hc : HC H) (c c' : Client H) (ln : Nat) (req : List Nat) (rt rc : Nat)
    (snds : List (List Nat × Nat × SendMode)) (na n r p a nowMs nowNs : Nat) (out : List (List Nat))
    (hs : c.state = .pending ln req rt rc snds)
    (h : c.handleFrame hc (.synAck na n r p a) nowMs nowNs = .ok (c', out)) :
    (na = ln ∧
      c'.state = .active ln
        (snds.foldl (fun h (e : List Nat × Nat × SendMode) => hc.send h e.1 e.2.1 e.2.2)
          (hc.new (hcConfig c.ep ln n r a) nowNs)) c.ep.activeTimeoutMs none ∧
      c'.eventsOut = c.eventsOut ++ [CEvent.connect] ∧ out = [encode (.hsAck n)] ∧
      c'.ep = c.ep ∧ c'.timeBase = c.timeBase ∧ c'.rng = c.rng) ∨
    (na ≠ ln ∧ c' = c ∧ out = []) := by
  rcases Client.handleFrame_synAck_pending hc c c' ln req rt rc snds na n r p a nowMs nowNs out hs h with
    ⟨e, rfl, ho⟩ | hx
  · exact Or.inl ⟨e, rfl, rfl, ho, rfl, rfl, rfl⟩
  · exact Or.inr hx

/-- Run-level companion: in every run from a `pending` state with queue `sq` (empty buffer) that is still
`pending` at the end, the queue is `sq` followed by exactly the `(data, channel, mode)` of the `send` calls
of the run, in order; nothing has been delivered. -/
theorem C01_client_pending_queue (hc : HC H) (ops : List COp) (c c' : Client H) (sent : List (List Nat))
    (evs : List CEvent) (ln : Nat) (req : List Nat) (rt rc : Nat) (sq : List (List Nat × Nat × SendMode))
    (hs : c.state = .pending ln req rt rc sq) (he : c.eventsOut = [])
    (h : Client.run hc c ops = .ok (c', sent, evs))
    (ln' : Nat) (req' : List Nat) (rt' rc' : Nat) (sq' : List (List Nat × Nat × SendMode))
    (hs' : c'.state = .pending ln' req' rt' rc' sq') : sq' = sq ++ sendsOfOps ops ∧ ln' = ln ∧ req' = req ∧ evs = [] := by
  obtain ⟨-, hcase⟩ := Client.run_pending_trace hc ops c c' sent evs ln req rt rc sq hs he h
  rcases hcase with ⟨rt2, rc2, z1, z2⟩ | ⟨z1, -⟩ | ⟨_, _, _, _, _, _, _, _, _, _, _, _, _, _, _, _, t⟩
  · rw [z1] at hs'; cases hs'; exact ⟨rfl, rfl, rfl, z2⟩
  · rw [z1] at hs'; cases hs'
  · have := t.tr.np; rw [hs'] at this; cases this

/-- … for `Client.connect`: while `pending`, the queue is exactly the application's sends so far, in order. -/
theorem C01_client_pending_queue_from_connect (hc : HC H) (ep : EpConfig) (now : Nat) (rng : Rng) (ops : List COp)
    (c' : Client H) (sent : List (List Nat)) (evs : List CEvent)
    (h : Client.run hc (Client.connect ep now rng).1 ops = .ok (c', sent, evs))
    (ln' : Nat) (req' : List Nat) (rt' rc' : Nat) (sq' : List (List Nat × Nat × SendMode))
    (hs' : c'.state = .pending ln' req' rt' rc' sq') : sq' = sendsOfOps ops := by
  have := (C01_client_pending_queue hc ops _ c' sent evs _ _ _ _ [] rfl rfl h ln' req' rt' rc' sq' hs').1
  simpa using this

/-- `C01_client_sends_reach_hc` = the exact `C09_peer_client_trace_from_connect`: every run from a `pending`
state `(ln, …, sq)` with an empty buffer — in particular from `Client.connect` — ends in one of three ways.
* Still `pending`: nothing delivered, the queue is `sq ++ sendsOfOps ops`.
* `fin` without ever connecting: no `connect`, no `receive` event.
* Connected: the run is `ops1 ++ step nowNs (pre ++ b :: post) :: ops2` where `b` decodes to the SYN-ACK
  `(ln, n, r, p, a)` that was accepted; the half connection was created as
  `hcStart hc (hcConfig c.ep ln n r a) nowNs (sq ++ sendsOfOps ops1)` — `hc.new` at that step's time with the
  handshake's parameters, then exactly the sends queued so far, in order; the events are `connect :: new`; and
  there is a call list `calls` whose replay from that half connection succeeds with the `receive` payloads of
  `new` as the concatenated outputs of its `receive` calls, whose `dispatch` calls are a prefix of exactly the
  traffic frames that arrived after that SYN-ACK (`trafficOf post ++ trafficOfOps ops2`), and whose `send`
  calls are a prefix of exactly the application's later sends (`sendsOfOps ops2`); if the client is still
  `active`, its half connection is the result of the replay and both prefixes are the whole lists.
Hence the COMPLETE sequence of `hc.send` calls on the connection's half connection is
`sq ++ sendsOfOps ops1 ++ sendsOf calls`, a prefix of `sq ++ sendsOfOps ops` (all of it while `active`):
the application's sends, each once, in order, with their channel and mode (last conjunct). -/
theorem C01_client_sends_reach_hc (hc : HC H) (ops : List COp) (c c' : Client H) (sent : List (List Nat))
    (evs : List CEvent) (ln : Nat) (req : List Nat) (rt rc : Nat) (sq : List (List Nat × Nat × SendMode))
    (hs : c.state = .pending ln req rt rc sq) (he : c.eventsOut = [])
    (h : Client.run hc c ops = .ok (c', sent, evs)) :
    (∃ rt' rc', c'.state = .pending ln req rt' rc' (sq ++ sendsOfOps ops) ∧ evs = []) ∨
    (c'.state = .fin ∧ CEvent.connect ∉ evs ∧ recvOf evs = []) ∨
    ∃ (ops1 : List COp) (nowNs : Nat) (pre : List (List Nat)) (b : List Nat) (post : List (List Nat)) (ops2 : List COp)
      (n r p a : Nat) (calls : List HCall) (new : List CEvent) (hf : H),
      ops = ops1 ++ COp.step nowNs (pre ++ b :: post) :: ops2 ∧ decodesTo b (.synAck ln n r p a) ∧
      evs = CEvent.connect :: new ∧
      replay hc (hcStart hc (hcConfig c.ep ln n r a) nowNs (sq ++ sendsOfOps ops1)) calls = .ok (hf, recvOf new) ∧
      dispatched calls <+: trafficOf post ++ trafficOfOps ops2 ∧
      sendsOf calls <+: sendsOfOps ops2 ∧
      (∀ ln' h' t' sig', c'.state = .active ln' h' t' sig' →
        h' = hf ∧ dispatched calls = trafficOf post ++ trafficOfOps ops2 ∧ sendsOf calls = sendsOfOps ops2) ∧
      (sq ++ sendsOfOps ops1 ++ sendsOf calls <+: sq ++ sendsOfOps ops ∧
        (∀ ln' h' t' sig', c'.state = .active ln' h' t' sig' →
          sq ++ sendsOfOps ops1 ++ sendsOf calls = sq ++ sendsOfOps ops)) := by
  obtain ⟨-, hcase⟩ := Client.run_pending_trace hc ops c c' sent evs ln req rt rc sq hs he h
  rcases hcase with z | z | ⟨ops1, nowNs, pre, b, post, ops2, n, r, p, a, cs, new, t0, z1, z2, z3, t⟩
  · exact Or.inl z
  · exact Or.inr (Or.inl z)
  · obtain ⟨hf, rp, pf, ef⟩ := t.tr.act _ rfl
    obtain ⟨ps, es⟩ := t.sp (by simp [CState.hcOf])
    have hall : sendsOfOps ops = sendsOfOps ops1 ++ sendsOfOps ops2 := by
      rw [z1, sendsOfOps_append, sendsOfOps_cons]; rfl
    refine Or.inr (Or.inr ⟨ops1, nowNs, pre, b, post, ops2, n, r, p, a, cs, new, hf, z1, z2, z3, rp, pf, ps,
      fun ln' h' t' sig' hs' => ?_, ?_, fun ln' h' t' sig' hs' => ?_⟩)
    · obtain ⟨e1, e2⟩ := ef h' (by rw [hs']; rfl)
      exact ⟨e1, e2, es (by rw [hs']; simp [CState.hcOf])⟩
    · rw [hall, ← List.append_assoc]
      exact (List.prefix_append_right_inj _).mpr ps
    · rw [hall, ← List.append_assoc, es (by rw [hs']; simp [CState.hcOf])]

/-- The same for `Client.connect ep now rng`: nonce and endpoint configuration are those of `connect`, the queue
starts empty. -/
theorem C09_peer_client_trace_from_connect (hc : HC H) (ep : EpConfig) (now : Nat) (rng : Rng) (ops : List COp)
    (c' : Client H) (sent : List (List Nat)) (evs : List CEvent)
    (h : Client.run hc (Client.connect ep now rng).1 ops = .ok (c', sent, evs)) :
    (∃ req rt' rc', c'.state = .pending (rng.next.1 % 2^32) req rt' rc' (sendsOfOps ops) ∧ evs = []) ∨
    (c'.state = .fin ∧ CEvent.connect ∉ evs ∧ recvOf evs = []) ∨
    ∃ (ops1 : List COp) (nowNs : Nat) (pre : List (List Nat)) (b : List Nat) (post : List (List Nat)) (ops2 : List COp)
      (n r p a : Nat) (calls : List HCall) (new : List CEvent) (hf : H),
      ops = ops1 ++ COp.step nowNs (pre ++ b :: post) :: ops2 ∧ decodesTo b (.synAck (rng.next.1 % 2^32) n r p a) ∧
      evs = CEvent.connect :: new ∧
      replay hc (hcStart hc (hcConfig ep (rng.next.1 % 2^32) n r a) nowNs (sendsOfOps ops1)) calls = .ok (hf, recvOf new) ∧
      dispatched calls <+: trafficOf post ++ trafficOfOps ops2 ∧
      sendsOf calls <+: sendsOfOps ops2 ∧
      (∀ ln' h' t' sig', c'.state = .active ln' h' t' sig' →
        h' = hf ∧ dispatched calls = trafficOf post ++ trafficOfOps ops2 ∧ sendsOf calls = sendsOfOps ops2 ∧
        sendsOfOps ops1 ++ sendsOf calls = sendsOfOps ops) := by
  rcases C01_client_sends_reach_hc hc ops _ c' sent evs _ _ _ _ [] rfl rfl h with
    ⟨rt', rc', z1, z2⟩ | z | ⟨ops1, nowNs, pre, b, post, ops2, n, r, p, a, cs, new, hf, z1, z2, z3, z4, z5, z6, z7, -, z9⟩
  · exact Or.inl ⟨_, rt', rc', by rw [List.nil_append] at z1; exact z1, z2⟩
  · exact Or.inr (Or.inl z)
  · refine Or.inr (Or.inr ⟨ops1, nowNs, pre, b, post, ops2, n, r, p, a, cs, new, hf, z1, z2, z3, by rw [List.nil_append] at z4; exact z4, z5, z6,
      fun ln' h' t' sig' hs' => ?_⟩)
    obtain ⟨e1, e2, e3⟩ := z7 ln' h' t' sig' hs'
    have z := z9 ln' h' t' sig' hs'
    rw [List.nil_append, List.nil_append] at z
    exact ⟨e1, e2, e3, z⟩

/-! ### Non-vacuity -/

/-- Three sends on the same channel while `pending`, then the SYN-ACK: the half connection (`logHC` records its
`send` calls) has seen exactly `[0], [1], [2]` in that order; a later send follows them. -/
example : okAnd (Client.run logHC exClientL
      [.send [0] 0 .reliable, .send [1] 0 .reliable, .send [2] 0 .reliable, .step 1000000 [exSynAck], .send [3] 1 .unreliable])
    (fun r => match r.1.state with
      | .active _ h _ _ => decide (h = [([0], 0, .reliable), ([1], 0, .reliable), ([2], 0, .reliable), ([3], 1, .unreliable)])
      | _ => false) = true := by
  decide +kernel

/-- The single transition on the concrete client: queue `[0], [1], [2]`, matching SYN-ACK. -/
example : okAnd ((Client.send logHC (Client.send logHC (Client.send logHC exClientL [0] 0 .reliable) [1] 0 .reliable) [2] 0 .reliable).handleFrame
      logHC (.synAck 7 9 500000 10000 100000) 1 1000000)
    (fun r => (match r.1.state with
      | .active _ h _ _ => decide (h = [([0], 0, .reliable), ([1], 0, .reliable), ([2], 0, .reliable)])
      | _ => false) && decide (r.1.eventsOut = [CEvent.connect] ∧ r.2 = [encode (.hsAck 9)])) = true := by
  decide +kernel

/-- While `pending` the queue is the list of sends (hypothesis of `C01_client_pending_queue_from_connect`). -/
example : okAnd (Client.run logHC exClientL [.send [0] 0 .reliable, .step 1000 [], .send [1] 0 .reliable])
    (fun r => match r.1.state with
      | .pending _ _ _ _ sq => decide (sq = [([0], 0, .reliable), ([1], 0, .reliable)])
      | _ => false) = true := by
  decide +kernel

/-! ## Server (`RemoteClient::send`), single call -/

/-- `C01_server_send_reaches_hc` (single call; the run-level server analogue is not stated): `send` to an address
whose entry is `active` is exactly one `hc.send` with the same data, channel and mode on that entry's half
connection (deadline and signal unchanged); every other entry and the event buffer are untouched. For an
address without an `active` entry the call does nothing (the packet is dropped — there is no pre-handshake
queue on the server side). -/
theorem C01_server_send_reaches_hc (hc : HC H) (s : Server H) (hw : s.WF) (addr : Nat) (d : List Nat) (ch : Nat)
    (m : SendMode) :
    (∀ c h t sig, s.find addr = some c → c.state = .active h t sig →
      (∀ a, (s.send hc addr d ch m).find a =
        if a = addr then some { c with state := .active (hc.send h d ch m) t sig } else s.find a) ∧
      (s.send hc addr d ch m).eventsOut = s.eventsOut) ∧
    ((∀ c h t sig, s.find addr = some c → c.state ≠ .active h t sig) → s.send hc addr d ch m = s) := by
  constructor
  · intro c h t sig hf hst
    obtain ⟨hcm, hca⟩ := Server.find_some hf
    have e : s.send hc addr d ch m = s.put { c with state := .active (hc.send h d ch m) t sig } := by
      unfold Server.send; rw [hf]; simp only [hst]
    rw [e]
    refine ⟨fun a => ?_, ?_⟩
    · rw [Server.find_put (c' := { c with state := .active (hc.send h d ch m) t sig }) hw hcm rfl rfl, hca]
    · unfold Server.put; split <;> rfl
  · intro hna
    unfold Server.send
    split
    · next c hf =>
      split
      · next h t sig hst => exact absurd hst (hna c h t sig hf)
      · rfl
    · rfl

/-- A server-side example: two sends to the `active` address 5 reach its half connection in order. -/
example : okAnd (Server.run logHC (Server.init exCfg 0 exRng)
      [.step 1000000 [(5, exSyn)], .step 2000000 [(5, exHsAck)], .send 5 [1] 0 .reliable, .send 5 [2] 3 .unreliable])
    (fun r => match r.1.find 5 with
      | some c => (match c.state with
        | .active h _ _ => decide (h = [([1], 0, .reliable), ([2], 3, .unreliable)])
        | _ => false)
      | none => false) = true := by
  decide +kernel

end Uflow.Props.C01
