import Uflow.Model.HalfConn
import Uflow.Props.C01

/-!
# C02 — a Reliable packet is never overtaken on its channel (receiver side, safety)

Every datagram carries `channelParentLead` (`cpl`): the distance back to the latest Reliable packet of
the same channel (0 = none the receiver still has to wait for), and `windowParentLead` (`wpl`): the
same over all channels. The receiver (`Uflow.PRecv`, `packet_receiver/mod.rs`) delivers a packet with
`cpl = k > 0` only if `k > pidSub seq channel_base`, i.e. its channel parent lies behind the channel's
base id, which is either one past the last packet taken from the channel or the window base.

Vocabulary as in `Props/C01.lean`: instrumented run `runT`, log entries `LogE` with unwrapped id
`uid` and unwrapped window base `wb` at the time of the delivering `receive` call. The unwrapped id
of the channel parent of `e` is `e.uid - e.cpl`.

What is true for ALL runs (`C02_no_overtake`): when a packet naming a channel parent is taken out of
the window, the parent's position is (a) at or before a packet taken from the same channel earlier,
or (b) behind the window base. The receiver trusts the leads: it never checks that the packet at the
parent position was Reliable or was the one delivered, and the window base moves either by
`resynchronize` or in `receive` because received entries' `wpl` claim there is nothing Reliable to
wait for (`C02_window_advance_justified`). A peer that sends inconsistent leads, or a
`resynchronize`, can therefore make the receiver deliver a packet whose stated channel parent was
never delivered: `C02_overtake_witness_hostile_lead`, `C02_overtake_witness_resync`. Excluding (b),
i.e. as long as the window base has not been moved past the parent, the parent position is covered
by an earlier delivery of the channel: `C02_no_overtake_partial`.

A packet "taken from the channel" includes the packets passed over because they exceeded the receive
allocation limit (`data = none`): the channel moves past them without a delivery. An honest sender
never exceeds the limit (C06).
-/

namespace Uflow.Props.C02Recv

open Uflow Uflow.PRecv

/-- `pidSub` yields a 20-bit value. -/
theorem C02_pidSub_lt (a b : Nat) : pidSub a b < 2^20 := by
  unfold pidSub
  simp only [Uflow.Gen.PACKET_ID_SPAN]
  omega

/-- C02, all hostile runs: if `e` is taken out of the window with `channelParentLead = e.cpl > 0`,
then its channel parent (unwrapped id `e.uid - e.cpl`) is behind the window base of that moment
(`e.uid - e.cpl < e.wb`; initially `wb = 0`, so this also covers a parent from before the run), or
some packet taken earlier from the same channel is at or beyond the parent
(`e.uid - e.cpl ≤ e'.uid`). -/
theorem C02_no_overtake (k : Nat) (hk : k ≤ 19) (b m : Nat) (hb : b < 2^20) (ops : List Op) (g' : G)
    (h : runT (initG (2^k) b m) ops = .ok g') (l1 : List LogE) (e : LogE) (l2 : List LogE)
    (hl : g'.log = l1 ++ e :: l2) (hcpl : e.cpl ≠ 0) :
    e.uid < e.wb + e.cpl ∨ ∃ e' ∈ l1, e'.chan = e.chan ∧ e.uid ≤ e'.uid + e.cpl := by
  have hp := (C01.C01_reach k hk b m hb ops g' h).gi.gpar
  rw [hl, List.reverse_append, List.reverse_cons, List.append_assoc] at hp
  have := parOkR_split l2.reverse e l1.reverse hp hcpl
  rcases this with h1 | ⟨e', he', h2, h3⟩
  · exact Or.inl h1
  · exact Or.inr ⟨e', List.mem_reverse.mp he', h2, h3⟩

/-- C02 under the hypothesis that excludes the hostile situations: if, when `e` is taken out, the
window base has not been moved past `e`'s channel parent (`e.wb ≤ e.uid - e.cpl`, true in particular
while the window has not advanced at all), then a packet at or beyond the parent position was taken
from the same channel earlier, and it lies strictly before `e`. -/
theorem C02_no_overtake_partial (k : Nat) (hk : k ≤ 19) (b m : Nat) (hb : b < 2^20) (ops : List Op) (g' : G)
    (h : runT (initG (2^k) b m) ops = .ok g') (l1 : List LogE) (e : LogE) (l2 : List LogE)
    (hl : g'.log = l1 ++ e :: l2) (hcpl : e.cpl ≠ 0) (hwin : e.wb + e.cpl ≤ e.uid) :
    ∃ e' ∈ l1, e'.chan = e.chan ∧ e.uid - e.cpl ≤ e'.uid ∧ e'.uid < e.uid := by
  rcases C02_no_overtake k hk b m hb ops g' h l1 e l2 hl hcpl with h1 | ⟨e', he', h2, h3⟩
  · omega
  · refine ⟨e', he', h2, by omega, ?_⟩
    have hord := C01.C01_channel_ids_increase k hk b m hb ops g' h
    rw [hl, List.pairwise_append] at hord
    exact hord.2.2 e' he' e List.mem_cons_self h2

/-- How `receive` moves the window base (the only other way is `resynchronize`): if a `recv` step
advances the base by `δ = g'.adv - g.adv`, then for every id `p` it passes (offset `< δ` from the old
base) there is a received entry `v` (its `entry_flag` set), at or after `p` and also passed, whose
`window_parent_lead` is 0 or reaches back beyond `p` — i.e. `v` claims that no Reliable packet lies in
`[p, v)`, or `v = p` is itself received. So the base passes a never-received Reliable packet only if a
later datagram's `wpl` denies its existence. -/
theorem C02_window_advance_justified (k : Nat) (hk : k ≤ 19) (b m : Nat) (hb : b < 2^20) (ops : List Op)
    (g : G) (h : runT (initG (2^k) b m) ops = .ok g) (g' : G) (hs : stepT g .recv = .ok g') :
    g'.adv = g.adv + pidSub g'.st.baseId g.st.baseId ∧
    ∀ p, p < 2^20 → pidSub p g.st.baseId < pidSub g'.st.baseId g.st.baseId →
      ∃ v, v < 2^20 ∧ pidSub p g.st.baseId ≤ pidSub v g.st.baseId ∧
        pidSub v g.st.baseId < pidSub g'.st.baseId g.st.baseId ∧
        (lget g.st.slots (wi (2^k) v)).entryFlag = true ∧
        ((lget g.st.slots (wi (2^k) v)).wpl = 0 ∨
          pidSub v g.st.baseId - pidSub p g.st.baseId < (lget g.st.slots (wi (2^k) v)).wpl) := by
  have hg := C01.C01_reach k hk b m hb ops g h
  rw [stepT_recv] at hs
  cases hr : receiveT g.st with
  | error t => rw [hr] at hs; cases hs
  | ok p =>
    rw [hr, bindR_ok] at hs
    cases hs
    exact ⟨rfl, receiveT_just (wOk_pow k hk) hg.inv hg.ord hg.gi (show receiveT g.st = .ok (p.1, p.2) from hr)⟩

/-! ## Witnesses: the receiver trusts the leads and `resynchronize` -/

/-- Hostile leads, no `resynchronize`: packet 1 (channel 1) claims `wpl = 0` although packet 0 (a
Reliable packet of channel 0) was sent and lost; the window moves to 2; packet 2 of channel 0 names
packet 0 as its channel parent (`cpl = 2`). -/
def hostileLeadScript : List Op :=
  [ C01.mk 1 1 0 0 [1], .recv, C01.mk 2 0 2 2 [2], .recv ]

/-- … the child (channel 0, unwrapped id 2, `cpl = 2`) is delivered although nothing with unwrapped id 0
was ever taken from channel 0: clause (b) of `C02_no_overtake` (`uid - cpl = 0 < wb = 2`). -/
theorem C02_overtake_witness_hostile_lead :
    (match runT (initG 8 0 6000) hostileLeadScript with
    | .ok g => decide ((g.log.map fun e => (e.chan, e.uid, e.wb, e.cpl, e.data)) =
        [(1, 1, 0, 0, some [1]), (0, 2, 2, 2, some [2])])
    | .error _ => false) = true := by decide +kernel

/-- `resynchronize`: the child of the lost packet 0 waits (first `recv` delivers nothing) until
`resynchronize(3)` moves the base to the first received entry, id 2; the next datagram of the
channel makes it ready and the child is delivered. -/
def resyncScript : List Op :=
  [ C01.mk 2 0 2 2 [2], .recv, .resync 3, C01.mk 3 0 0 0 [3], .recv ]

theorem C02_overtake_witness_resync :
    (match runT (initG 8 0 6000) (resyncScript.take 2), runT (initG 8 0 6000) resyncScript with
    | .ok g1, .ok g => decide (g1.log = [] ∧ (g.log.map fun e => (e.chan, e.uid, e.wb, e.cpl, e.data)) =
        [(0, 2, 2, 2, some [2]), (0, 3, 2, 0, some [3])])
    | _, _ => false) = true := by decide +kernel

/-! ## Non-vacuity -/

/-- An honest exchange on one channel: Reliable packet 0, then packet 1 naming it as channel parent,
arriving in the wrong order. Packet 1 waits; after packet 0 both are delivered in order. Here the
hypotheses of `C02_no_overtake_partial` hold for the second log entry (`cpl = 1`, `wb + cpl ≤ uid`)
and the parent is the first. -/
example : (match runT (initG 8 C01.exBase 6000)
      [C01.mk (2^20-1) 0 1 1 [21], .recv, C01.mk (2^20-2) 0 0 0 [20], .recv] with
    | .ok g => decide ((g.log.map fun e => (e.chan, e.uid, e.wb, e.cpl, e.data)) =
        [(0, 0, 0, 0, some [20]), (0, 1, 0, 1, some [21])])
    | .error _ => false) = true := by decide +kernel

/-- The window advance of the honest `exScript` of C01 (hypotheses of `C02_window_advance_justified`:
a reachable state followed by a `recv` that moves the base by 2). -/
example : (match runT (initG 8 C01.exBase 6000) (C01.exScript.take 3) with
    | .ok g => (match stepT g .recv with
      | .ok g' => decide (g.adv = 0 ∧ g'.adv = 2)
      | .error _ => false)
    | .error _ => false) = true := by decide +kernel

end Uflow.Props.C02Recv
