import Uflow.Model.HalfConn

/-! # C01 (theorems are being added) -/

namespace Uflow.Props.C01

open Uflow

/-- `pidSub` yields a 20-bit value. -/
theorem C01_pidSub_lt (a b : Nat) : pidSub a b < 2^20 := by
  unfold pidSub
  simp only [Uflow.Gen.PACKET_ID_SPAN]
  omega

end Uflow.Props.C01
