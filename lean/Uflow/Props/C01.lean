import Uflow.Model.HalfConn
import Uflow.Lemmas.PRecvOrdRun

/-!
# C01 — per-channel delivery in order, at most once (receiver side, safety)

Model: `Uflow.PRecv` (`src/half_connection/packet_receiver/mod.rs` and its assembly window). The
receiver is driven by an arbitrary (hostile) list of `PRecv.Op` from `PRecv.init W b m`: datagrams
with ANY field values in any order, `recv` = `receive`, `resync id` = `resynchronize` with any id.

`receive` returns only the payloads, so the theorems are stated on an instrumented copy
(`Uflow/Lemmas/PRecvOrdDefs.lean`):

* `receiveT` = `receive`, reporting for every packet taken out of the window an `Ev`
  (channel, sequence id, the two parent leads, payload; `data = none` for a packet that exceeded the
  receive allocation limit — the code passes over it without calling the sink). `C01_receiveT_erase`:
  forgetting the extra fields gives exactly `receive`.
* `runT` = `run` on `G = (st, adv, log)`: `adv` is the ghost total distance the window base has moved
  (sum of `pidSub newBase oldBase`), `log` the list of all delivery events, oldest first, each with
  `uid = adv_at_that_receive + pidSub seq base_at_that_receive` (the unwrapped id: number of ids
  between the initial base and the packet) and `wb = adv_at_that_receive` (unwrapped window base).
  `C01_runT_erase`: the state component is `run`.

Window size: the theorems need `W` to divide `2^20` and `2·W ≤ 2^20` (`PRecv.WOk`), stated here as
`W = 2^k`, `k ≤ 19`. The library asserts `W` is a power of two `≤ 4096 = 2^12`. (For other `W` the
masked window index `id % W` is not consecutive across the 20-bit wrap; nothing is claimed then.)
-/

namespace Uflow.Props.C01

open Uflow Uflow.PRecv

/-- `pidSub` yields a 20-bit value. -/
theorem C01_pidSub_lt (a b : Nat) : pidSub a b < 2^20 := by
  unfold pidSub
  simp only [Uflow.Gen.PACKET_ID_SPAN]
  omega

/-! ## The instrumentation is faithful -/

/-- `receiveT` is `receive` with more detailed output: same traps, same final state, and the payload
list `receive` hands to the sink is the list of `data` fields of the events, in order. -/
theorem C01_receiveT_erase (s : State) : (receiveT s).map eraseP = receive s := receiveT_erase s

/-- The state component of the instrumented run is the plain hostile run `PRecv.run`. -/
theorem C01_runT_erase (g : G) (ops : List Op) : (runT g ops).map G.st = run g.st ops := runT_erase ops g

/-- The instrumented run never traps (as `run`, C03). -/
theorem C01_runT_total (W b m : Nat) (hW : 0 < W) (hb : b < 2^20) (ops : List Op) :
    ∃ g', runT (initG W b m) ops = .ok g' := runT_ok W b m hW hb ops

/-- What a `recv` step appends to the log is what `receive` returned: the payloads handed to the
sink by this call are the `data` fields of the new log entries, in order. -/
theorem C01_log_is_receive_output (g g' : G) (h : stepT g .recv = .ok g') :
    ∃ out, receive g.st = .ok (g'.st, out) ∧
      out = (g'.log.drop g.log.length).filterMap LogE.data ∧ g.log = g'.log.take g.log.length := by
  obtain ⟨s', evs, hr, hs, hl⟩ := stepT_recv_log g g' h
  refine ⟨erase evs, ?_, ?_, ?_⟩
  · rw [← receiveT_erase, hr, hs]; rfl
  · rw [hl, List.drop_left, List.filterMap_map]
    rfl
  · rw [hl, List.take_left]

/-- Every state of an instrumented hostile run satisfies the receiver invariant `Inv`, the ordering
invariant `Ord` and the ghost invariant `GI` (`Uflow/Lemmas/PRecvOrdInv.lean`). -/
theorem C01_reach (k : Nat) (hk : k ≤ 19) (b m : Nat) (hb : b < 2^20) (ops : List Op) (g' : G)
    (h : runT (initG (2^k) b m) ops = .ok g') : GInv (2^k) (allocCeil m) b g' :=
  runT_ginv (wOk_pow k hk) ops (ginv_init (2^k) b m (Nat.two_pow_pos k) hb) h

/-- The ghost `adv` is the unwrapped window base: `base_id = (b + adv) mod 2^20`. -/
theorem C01_base_tracks_adv (k : Nat) (hk : k ≤ 19) (b m : Nat) (hb : b < 2^20) (ops : List Op) (g' : G)
    (h : runT (initG (2^k) b m) ops = .ok g') : g'.st.baseId = (b + g'.adv) % 2^20 :=
  (C01_reach k hk b m hb ops g' h).gi.gbase

/-! ## 1. Delivered packets are inside the window; data flags come from accepted datagrams -/

/-- C01 (1a): every packet `receive` takes out of the window is on a real channel, its unwrapped id
determines its sequence id (`seq = (b + uid) mod 2^20`), and at the time of that `receive` call it was
inside the receive window: `wb ≤ uid < wb + W`, i.e. `pidSub seq base_id < W` for the `base_id` of
that moment (`(b + wb) mod 2^20`). -/
theorem C01_delivered_in_window (k : Nat) (hk : k ≤ 19) (b m : Nat) (hb : b < 2^20) (ops : List Op) (g' : G)
    (h : runT (initG (2^k) b m) ops = .ok g') :
    ∀ e ∈ g'.log, e.chan < 64 ∧ e.seq = (b + e.uid) % 2^20 ∧ e.wb ≤ e.uid ∧ e.uid < e.wb + 2^k ∧
      e.wb ≤ g'.adv ∧ pidSub e.seq ((b + e.wb) % 2^20) = e.uid - e.wb ∧
      pidSub e.seq ((b + e.wb) % 2^20) < 2^k := by
  intro e he
  have gi := (C01_reach k hk b m hb ops g' h).gi
  obtain ⟨h1, h2, h3⟩ := gi.gwin e he
  have hs := gi.gseq e he
  have hW : 2^k ≤ 2^19 := Nat.pow_le_pow_right (by decide) hk
  have hsub : pidSub e.seq ((b + e.wb) % 2^20) = e.uid - e.wb := by
    rw [hs, pidSub_def]; omega
  exact ⟨gi.gchan e he, hs, h1, h2, h3, hsub, by rw [hsub]; omega⟩

/-- C01 (1b): the only operation that sets a slot's data flag (makes a packet deliverable) is
`handle_datagram` on a datagram that passes `datagram_is_valid`, whose sequence id is inside the
receive window (`pidSub seq base_id < W`) and not behind its channel's base id, and whose
`AssemblyWindow::try_add` returned the completed packet (so all its fragments are in: `try_add`
returns a packet only for a single-fragment datagram or when the fragment buffer's `remaining`
reaches 0, see C04); the slot then carries that datagram's channel and parent leads and that
packet's data. `receive` and `resynchronize` never set a data flag. Delivery (`receiveT`) only takes
packets from flagged slots. -/
theorem C01_data_flag_only_from_accepted_datagram (k : Nat) (hk : k ≤ 19) (b m : Nat) (hb : b < 2^20)
    (ops : List Op) (g : G) (h : runT (initG (2^k) b m) ops = .ok g) (op : Op) (g' : G)
    (hs : stepT g op = .ok g') (i : Nat) (h0 : (lget g.st.slots i).dataFlag = false)
    (h1 : (lget g'.st.slots i).dataFlag = true) :
    ∃ d, op = .dg d ∧ datagramIsValid d = true ∧ pidSub d.sequenceId g.st.baseId < 2^k ∧
      pidSub ((cbase g.st d.channelId).getD g.st.baseId) g.st.baseId ≤ pidSub d.sequenceId g.st.baseId ∧
      i = wi (2^k) d.sequenceId ∧
      (lget g'.st.slots i).chan = d.channelId ∧ (lget g'.st.slots i).cpl = d.channelParentLead ∧
      (lget g'.st.slots i).wpl = d.windowParentLead ∧
      ∃ s1 p, tryAdd g.st i d = .ok (s1, some p) ∧ (lget g'.st.slots i).data = p.data := by
  have hg := C01_reach k hk b m hb ops g h
  have hW := wOk_pow k hk
  cases op with
  | dg d =>
    rw [stepT_dg] at hs
    cases hd : handleDatagram g.st d with
    | error t => rw [hd] at hs; cases hs
    | ok s' =>
      rw [hd, bindR_ok] at hs
      cases hs
      exact ⟨d, rfl, handleDatagram_flag hg.inv d hd i h0 h1⟩
  | recv =>
    rw [stepT_recv] at hs
    cases hr : receiveT g.st with
    | error t => rw [hr] at hs; cases hs
    | ok p =>
      rw [hr, bindR_ok] at hs
      cases hs
      have := receiveT_flags hW hg.inv hg.ord hg.gi (show receiveT g.st = .ok (p.1, p.2) from hr) i h1
      rw [h0] at this; cases this
  | resync id =>
    rw [stepT_resync] at hs
    cases hr : resynchronize g.st id with
    | error t => rw [hr] at hs; cases hs
    | ok s' =>
      rw [hr, bindR_ok] at hs
      cases hs
      have := resynchronize_flags hW hg.inv hg.ord id hr i h1
      rw [h0] at this; cases this

/-! ## 2. Per channel, unwrapped ids strictly increase -/

/-- C01 (2): along any hostile run, the packets taken out of the window on one channel have strictly
increasing unwrapped ids: for log entries `a` before `b` with the same channel, `a.uid < b.uid`.
Since the sender assigns consecutive sequence ids in submission order, this is "in submission order,
no duplicates". (The log also contains the packets passed over for exceeding the allocation limit;
the delivered ones are a sublist, so the statement holds for them a fortiori.) -/
theorem C01_channel_ids_increase (k : Nat) (hk : k ≤ 19) (b m : Nat) (hb : b < 2^20) (ops : List Op) (g' : G)
    (h : runT (initG (2^k) b m) ops = .ok g') :
    g'.log.Pairwise (fun a b => a.chan = b.chan → a.uid < b.uid) :=
  (C01_reach k hk b m hb ops g' h).gi.gord

/-- The same by positions in the log. -/
theorem C01_channel_ids_increase_idx (k : Nat) (hk : k ≤ 19) (b m : Nat) (hb : b < 2^20) (ops : List Op)
    (g' : G) (h : runT (initG (2^k) b m) ops = .ok g') (i j : Nat) (hij : i < j) (hj : j < g'.log.length)
    (hc : (g'.log[i]'(by omega)).chan = (g'.log[j]).chan) : (g'.log[i]'(by omega)).uid < (g'.log[j]).uid :=
  List.pairwise_iff_getElem.mp (C01_channel_ids_increase k hk b m hb ops g' h) i j (by omega) hj hij hc

/-- The same for the packets actually handed to the sink (`data ≠ none`). -/
theorem C01_channel_ids_increase_delivered (k : Nat) (hk : k ≤ 19) (b m : Nat) (hb : b < 2^20)
    (ops : List Op) (g' : G) (h : runT (initG (2^k) b m) ops = .ok g') :
    (g'.log.filter fun e => e.data.isSome).Pairwise (fun a b => a.chan = b.chan → a.uid < b.uid) :=
  (C01_channel_ids_increase k hk b m hb ops g' h).filter _

/-- Every delivery of a channel is behind the channel's current base id
(`channel.base_id.unwrap_or(base_id)`), unwrapped — the invariant that makes (2) inductive: a later
datagram of that channel is only accepted at or beyond the channel base. -/
theorem C01_delivered_behind_channel_base (k : Nat) (hk : k ≤ 19) (b m : Nat) (hb : b < 2^20)
    (ops : List Op) (g' : G) (h : runT (initG (2^k) b m) ops = .ok g') :
    ∀ e ∈ g'.log, e.uid < g'.adv + pidSub ((cbase g'.st e.chan).getD g'.st.baseId) g'.st.baseId :=
  (C01_reach k hk b m hb ops g' h).gi.glt

/-! ## 3. At most once -/

/-- C01 (3): no (channel, unwrapped id) is taken out of the window twice. With
`C01_delivered_in_window` (`seq = (b + uid) mod 2^20`): the same 20-bit sequence id can reappear on a
channel only after the window has moved a full `2^20` ids further. -/
theorem C01_at_most_once (k : Nat) (hk : k ≤ 19) (b m : Nat) (hb : b < 2^20) (ops : List Op) (g' : G)
    (h : runT (initG (2^k) b m) ops = .ok g') :
    g'.log.Pairwise (fun a b => ¬ (a.chan = b.chan ∧ a.uid = b.uid)) :=
  (C01_channel_ids_increase k hk b m hb ops g' h).imp (fun hab hc => by
    have := hab hc.1
    omega)

/-- The same by positions: two different log positions never carry the same (channel, unwrapped id). -/
theorem C01_at_most_once_idx (k : Nat) (hk : k ≤ 19) (b m : Nat) (hb : b < 2^20) (ops : List Op) (g' : G)
    (h : runT (initG (2^k) b m) ops = .ok g') (i j : Nat) (hi : i < g'.log.length) (hj : j < g'.log.length)
    (hc : (g'.log[i]).chan = (g'.log[j]).chan) (hu : (g'.log[i]).uid = (g'.log[j]).uid) : i = j := by
  rcases Nat.lt_trichotomy i j with hlt | heq | hgt
  · have := C01_channel_ids_increase_idx k hk b m hb ops g' h i j hlt hj hc
    omega
  · exact heq
  · have := C01_channel_ids_increase_idx k hk b m hb ops g' h j i hgt hi hc.symm
    omega

/-! ## Non-vacuity -/

def mk (seq chan wpl cpl : Nat) (data : List Nat) : Op :=
  .dg { sequenceId := seq, channelId := chan, windowParentLead := wpl, channelParentLead := cpl,
        fragmentId := 0, fragmentIdLast := 0, data := data }

/-- The window starts two ids before the 20-bit wrap-around. -/
def exBase : Nat := 2^20 - 2

/-- Two channels; the packet of channel 1 arrives before the earlier packet of channel 0 and is
duplicated; after the first `recv` the window has wrapped to id 0 and a stale duplicate arrives;
then packet 1 of channel 0 (whose channel parent is packet 0) arrives before packet 0. -/
def exScript : List Op :=
  [ mk (2^20-1) 1 0 0 [11], mk (2^20-2) 0 0 0 [10], mk (2^20-1) 1 0 0 [11], .recv,
    mk (2^20-1) 1 0 0 [11], mk 1 0 1 1 [21], .recv, mk 0 0 0 0 [20], .recv ]

/-- The script runs to the expected log: (channel, sequence id, unwrapped id, unwrapped window base,
payload); the duplicates are delivered once, channel 0 gets 10, 20, 21 in order across the wrap. -/
example : (match runT (initG 8 exBase 6000) exScript with
    | .ok g => decide ((g.log.map fun e => (e.chan, e.seq, e.uid, e.wb, e.data)) =
        [(0, 2^20-2, 0, 0, some [10]), (1, 2^20-1, 1, 0, some [11]), (0, 0, 2, 2, some [20]),
         (0, 1, 3, 2, some [21])] ∧ g.adv = 4 ∧ g.st.baseId = 2)
    | .error _ => false) = true := by decide +kernel

/-- The plain `run` hands the sink the same payloads (second `recv` returns nothing, the third
`[20], [21]`). -/
example : (match run (init 8 exBase 6000) (exScript.take 8) with
    | .ok s => (match receive s with
      | .ok (_, out) => decide (out = [[20], [21]])
      | .error _ => false)
    | .error _ => false) = true := by decide +kernel

/-- The hypotheses of the theorems are satisfiable: `8 = 2^3`, `exBase < 2^20`, the run exists. -/
example : ∃ g', runT (initG (2^3) exBase 6000) exScript = .ok g' ∧ (3 : Nat) ≤ 19 ∧ exBase < 2^20 := by
  obtain ⟨g', h⟩ := C01_runT_total (2^3) exBase 6000 (by decide) (by decide) exScript
  exact ⟨g', h, by decide, by decide⟩

/-- A `recv` step from a reachable state (hypothesis of `C01_log_is_receive_output`): it appends the two
deliveries of the first `recv` of the script. -/
example : (match runT (initG 8 exBase 6000) (exScript.take 3) with
    | .ok g => (match stepT g .recv with
      | .ok g' => decide (g.log.length = 0 ∧ g'.log.length = 2)
      | .error _ => false)
    | .error _ => false) = true := by decide +kernel

/-- A data flag is indeed set by an accepted datagram in the script (hypotheses of (1b)). -/
example : (match runT (initG 8 exBase 6000) (exScript.take 1) with
    | .ok g => decide ((lget (initG 8 exBase 6000).st.slots 7).dataFlag = false ∧
        (lget g.st.slots 7).dataFlag = true)
    | .error _ => false) = true := by decide +kernel

end Uflow.Props.C01
