import Uflow.Props.C07SrvInit

/-!
# C07 / C09 — the server call trace from the handshake, from a well-formed start state only

`C09_peer_server_trace_from_handshake` (`Props/C07SrvInit.lean`) with its derived hypotheses discharged: only the
step's start state is assumed well-formed; the state `xa` reached by the datagram loop before the ACK datagram is
defined by `h1` / `hpre`, its well-formedness and configuration are derived (`Server.flushActive_STr`,
`Server.handleFrames_STr`), and the half-connection configuration is stated with the server's own `s.cfg.ep`.
-/

namespace Uflow.Props.C07

open Uflow.Endpoint Uflow.Codec Uflow.Gen Uflow.HalfConn

variable {H : Type}

/-- `C09_peer_server_trace_from_handshake_wf`: `s` is well-formed; the step's arrivals are `pre ++ (a, b) :: post`,
`b` decoding to `hsAck ln`; `xa` is the state the datagram loop has reached before that datagram (`h1`: the step's
flush, `hpre`: the datagrams `pre`), and in it the entry of `a` is `pending ln rn r al _`. Then `xa` is well-formed
with the configuration of `s`, the events of the step are `xa.eventsOut ++ connect a :: after`, and — provided no
other `connect a` is delivered, neither in `after` nor in the following run `ops` — there is a call list whose replay
from the fresh half connection `hc.new (hcConfig s.cfg.ep ln rn r al) nowNs` yields exactly the `receive a` payloads
delivered after the `connect a`, whose `dispatch` calls are a prefix of the traffic frames from `a` after the ACK
(rest of the step, later steps), whose `send` calls are a prefix of the application's `send a …` calls; all of them,
and the entry's half connection is the replay result, while the entry is still `active`. -/
theorem C09_peer_server_trace_from_handshake_wf (hc : HC H) (a : Nat) (s s' s'' : Server H) (hw : s.WF) (nowNs : Nat)
    (pre : List (Nat × List Nat)) (b : List Nat) (post sent : List (Nat × List Nat)) (evs : List SEvent)
    (h : s.step hc nowNs (pre ++ (a, b) :: post) = .ok (s', sent, evs))
    (s1 : Server H) (o1 : List (Nat × List Nat)) (xa : Server H) (oa : List (Nat × List Nat))
    (h1 : s.flushActive hc = .ok (s1, o1))
    (hpre : pre.foldlM (Server.frameStep hc (s.nowMs nowNs) nowNs) (s1, []) = .ok (xa, oa))
    (c : RClient H) (ln rn r al : Nat) (rb : List Nat) (hf : xa.find a = some c)
    (hst : c.state = .pending ln rn r al rb) (hb : decodesTo b (.hsAck ln))
    (ops : List SOp) (sent2 : List (Nat × List Nat)) (ls : List SLabel)
    (h2 : Server.run hc s' ops = .ok (s'', sent2, ls)) (hnc2 : SLabel.ev (.connect a) ∉ ls) :
    xa.WF ∧ xa.cfg = s.cfg ∧
    ∃ (after : List SEvent), evs = xa.eventsOut ++ SEvent.connect a :: after ∧
      (SEvent.connect a ∉ after →
        ∃ (calls : List HCall) (hf : H),
          replay hc (hc.new (hcConfig s.cfg.ep ln rn r al) nowNs) calls = .ok (hf, recvAt a after ++ recvAtL a ls) ∧
          dispatched calls <+: trafficAt a post ++ trafficAtOps a ops ∧
          sendsOf calls <+: sendsAtOps a ops ∧
          (∀ c' h' t' sig', s''.find a = some c' → c'.state = .active h' t' sig' →
            h' = hf ∧ dispatched calls = trafficAt a post ++ trafficAtOps a ops ∧ sendsOf calls = sendsAtOps a ops)) := by
  have t1 := Server.flushActive_STr hc s s1 hw o1 h1
  have hpre' : s1.handleFrames hc pre (s.nowMs nowNs) nowNs = .ok (xa, oa) := hpre
  obtain ⟨e2, t2, -⟩ := Server.handleFrames_STr hc s1 xa t1.wf pre (s.nowMs nowNs) nowNs oa hpre'
  have hcfg : xa.cfg = s.cfg := t2.cfg.trans t1.cfg
  refine ⟨t2.wf, hcfg, ?_⟩
  have := C09_peer_server_trace_from_handshake hc a s s' s'' nowNs pre b post sent evs h s1 o1 xa oa h1 hpre t2.wf
    c ln rn r al rb hf hst hb ops sent2 ls h2 hnc2
  rw [hcfg] at this
  exact this

end Uflow.Props.C07
