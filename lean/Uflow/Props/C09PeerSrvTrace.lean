import Uflow.Lemmas.EpPeerSrv3d

/-!
# C09 — the peer endpoint's part, server: per-address call trace along runs

Model: `Uflow.Endpoint`; every theorem holds for every half connection `hc : HC H`. Helper lemmas:
`Uflow/Lemmas/EpPeerSrv3*.lean` (relation `OT` on the half connection of one entry, `AT` its server-level form;
per-datagram, per-iteration and per-call lemmas `Server.*_AT`).

Vocabulary: `HCall`, `replay`, `dispatched`, `sendsOf` as for the client (`Props/C09Peer.lean`, `Props/C01Init.lean`);
`recvAt a evs` / `recvAtL a ls` — the payloads of the `receive a` events among events / labels, in order;
`trafficAt a arr` / `trafficAtOps a ops` — the decoded data/sync/ack frames from `a` among the arrivals of a step /
of all steps of a run, in arrival order; `sendsAtOps a ops` — the `(data, channel, mode)` of the `SOp.send a …`
calls of a run, in order. The flush calls of the trace carry the value the shared server generator had at that
call (`HCall.flush rng`, existential).
-/

namespace Uflow.Props.C09

open Uflow.Endpoint Uflow.Codec Uflow.Gen Uflow.HalfConn

variable {H : Type}

/-- `C09_peer_server_trace`: a well-formed server with an empty event buffer in which the entry of `a` is `active`
with half connection `hh`; any run (steps with arbitrary arrivals from any addresses, `send` / `disconnect` /
`drop` / `flush` for any addresses) during which no new `connect a` is delivered (i.e. up to the next handshake of
`a`). Then there is a list `calls` of half-connection calls such that
* replaying `calls` from `hh` succeeds and the payloads of all `receive a` events delivered by the run are exactly
  the concatenated outputs of the `receive` calls, in order;
* the `dispatch` calls are a prefix of the traffic frames from `a` among the arrivals of the run, in arrival order;
* the `send` calls are a prefix of the `send a …` calls of the run, in order, with their channel and mode;
* if the entry of `a` is still `active`, its half connection is the result of the replay and both prefixes are the
  whole lists.
Operations and datagrams of other addresses contribute no call. -/
theorem C09_peer_server_trace (hc : HC H) (a : Nat) (ops : List SOp) (s s' : Server H) (sent : List (Nat × List Nat))
    (ls : List SLabel) (hw : s.WF) (he : s.eventsOut = []) (c : RClient H) (hh : H) (t : Nat)
    (sig : Option DisconnectMode) (hf : s.find a = some c) (hst : c.state = .active hh t sig)
    (h : Server.run hc s ops = .ok (s', sent, ls)) (hnc : SLabel.ev (.connect a) ∉ ls) :
    ∃ (calls : List HCall) (hf : H),
      replay hc hh calls = .ok (hf, recvAtL a ls) ∧
      dispatched calls <+: trafficAtOps a ops ∧ sendsOf calls <+: sendsAtOps a ops ∧
      (∀ c' h' t' sig', s'.find a = some c' → c'.state = .active h' t' sig' →
        h' = hf ∧ dispatched calls = trafficAtOps a ops ∧ sendsOf calls = sendsAtOps a ops) ∧
      s'.WF ∧ s'.eventsOut = [] := by
  obtain ⟨w, e, cs, tr⟩ := Server.run_AT hc a ops s s' sent ls hw he h hnc
  obtain ⟨hf', r, d, sd, ex⟩ := tr.act hh (Server.hcAt_active hf hst)
  exact ⟨cs, hf', r, d, sd, fun c' h' t' sig' hf2 hst2 => ex h' (Server.hcAt_active hf2 hst2), w, e⟩

/-- `C09_peer_server_trace_step`: the same for a single `Server.step`. -/
theorem C09_peer_server_trace_step (hc : HC H) (a : Nat) (s s' : Server H) (hw : s.WF) (he : s.eventsOut = [])
    (nowNs : Nat) (arr sent : List (Nat × List Nat)) (evs : List SEvent) (c : RClient H) (hh : H) (t : Nat)
    (sig : Option DisconnectMode) (hf : s.find a = some c) (hst : c.state = .active hh t sig)
    (h : s.step hc nowNs arr = .ok (s', sent, evs)) (hnc : SEvent.connect a ∉ evs) :
    ∃ (calls : List HCall) (hf : H),
      replay hc hh calls = .ok (hf, recvAt a evs) ∧
      dispatched calls <+: trafficAt a arr ∧ sendsOf calls = [] ∧
      (∀ c' h' t' sig', s'.find a = some c' → c'.state = .active h' t' sig' →
        h' = hf ∧ dispatched calls = trafficAt a arr) ∧
      s'.WF ∧ s'.eventsOut = [] := by
  obtain ⟨w, e, cs, tr⟩ := Server.step_AT hc a s s' hw he nowNs arr sent evs h
  rcases tr with tr | tr
  · exact absurd tr hnc
  · obtain ⟨hf', r, d, sd, ex⟩ := tr.act hh (Server.hcAt_active hf hst)
    exact ⟨cs, hf', r, d, List.prefix_nil.mp sd,
      fun c' h' t' sig' hf2 hst2 => ⟨(ex h' (Server.hcAt_active hf2 hst2)).1, (ex h' (Server.hcAt_active hf2 hst2)).2.1⟩, w, e⟩

/-- While no entry of `a` is `active` and no `connect a` is delivered, no `receive a` is delivered either
(the `off` side of the trace relation). -/
theorem C09_peer_server_no_receive_without_connection (hc : HC H) (a : Nat) (ops : List SOp) (s s' : Server H)
    (sent : List (Nat × List Nat)) (ls : List SLabel) (hw : s.WF) (he : s.eventsOut = [])
    (hna : ∀ c hh t sig, s.find a = some c → c.state ≠ .active hh t sig)
    (h : Server.run hc s ops = .ok (s', sent, ls)) (hnc : SLabel.ev (.connect a) ∉ ls) :
    recvAtL a ls = [] ∧ ∀ c hh t sig, s'.find a = some c → c.state ≠ .active hh t sig := by
  obtain ⟨-, -, cs, tr⟩ := Server.run_AT hc a ops s s' sent ls hw he h hnc
  have h0 : s.hcAt a = none := by
    cases ho : s.hcAt a with
    | none => rfl
    | some hh => obtain ⟨c, t, sig, hf, hst⟩ := Server.hcAt_some ho; exact absurd hst (hna c hh t sig hf)
  obtain ⟨-, q2, q3⟩ := tr.off h0
  exact ⟨q2, fun c hh t sig hf hst => by rw [Server.hcAt_active hf hst] at q3; cases q3⟩

/-! ### Non-vacuity -/

/-- Two addresses: after both handshakes (first run), a second run in which 5 and 6 interleave data frames, the
application sends to both, 5 disconnects: no new `connect 5`, the `receive 5` payloads are `[9], [10]` (`rxHC`: one
packet per dispatched data frame of that address), those of 6 are `[20], [1], [21], [22]` (`rxHC` also echoes what the application sends); 5 was `active` at the start of
the second run. -/
example : (match Server.run rxHC exServerE
      [.step 1000000 [(5, exSyn), (6, exSyn)], .step 2000000 [(5, exHsAck), (6, encode (.hsAck 9))]] with
    | .ok (s, _, _) =>
      (match s.find 5 with
        | some c => c.state.isActive
        | none => false) && s.eventsOut.isEmpty &&
      okAnd (Server.run rxHC s
        [.step 3000000 [(5, exData 9), (6, exData 20), (5, exData 10)], .send 6 [1] 0 .reliable,
         .step 4000000 [(6, exData 21), (5, encode .disconnect), (6, exData 22), (5, exData 11)]])
        (fun r => decide (SLabel.ev (.connect 5) ∉ r.2.2 ∧ recvAtL 5 r.2.2 = [[9], [10]] ∧
          recvAtL 6 r.2.2 = [[20], [1], [21], [22]]))
    | .error _ => false) = true := by
  decide +kernel

/-- `trafficAtOps` / `sendsAtOps` on a concrete run. -/
example : trafficAtOps 5 [.step 3000000 [(5, exData 9), (6, exData 20), (5, exData 10)], .send 6 [1] 0 .reliable,
      .send 5 [2] 1 .unreliable] = [.data 9 false [], .data 10 false []] ∧
    sendsAtOps 5 [.step 3000000 [(5, exData 9)], .send 6 [1] 0 .reliable, .send 5 [2] 1 .unreliable] =
      [([2], 1, .unreliable)] := by
  refine ⟨by decide +kernel, by decide +kernel⟩

end Uflow.Props.C09
