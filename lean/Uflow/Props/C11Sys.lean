import Uflow.Lemmas.SysRecoverOps

/-!
# C11Sys — after a blackout the windows reopen and new packets of every mode are delivered

C11: "No pattern of frame loss or delay - including the loss of entire transfer windows of frames or
packets, of all acknowledgements for a period, or a lasting change of the round-trip time - leaves a
connection permanently stalled or pinned at its minimum rate: once frames flow again, the sender's
windows reopen and newly submitted packets of every mode are delivered without any action by the
application beyond calling `step()`."

This file proves the packet-layer content of that sentence on the composed system `Uflow.Sys`
(`Lemmas/SysDefs.lean`: `PacketSender` + ghost datagram network + `PacketReceiver`; steps
`enq | emit | deliver k | recv | ack k | sync | resync k`, so a schedule is an arbitrary pattern of
loss, duplication, reordering and delay of datagrams, of acknowledgements AND of sync frames). The blackout is the arbitrary schedule
`ops` that leads to the state `s`: every theorem below quantifies over EVERY reachable `s` — full
packet window, exhausted allocation counter, every datagram lost, every acknowledgement lost, any
mix of modes in flight, any id wrap position.

* `recoverRound s` — "frames flow again", once: each datagram emitted so far gets through, the
  receiving application calls `receive`, the acknowledgement of the new base gets through.
  `C11_sys_recover_round`: from every reachable state this round runs without a trap and leaves the
  send window EMPTY and the allocation counter 0 (C02Live), every emitted Reliable packet delivered.
* `C11_sys_window_reopens`: after it, `emit_packet` returns the head of the send queue whatever its
  mode; it returns `None` only if there is nothing to send. Neither "window full" nor "allocation
  exhausted" can block the head of the queue after recovery.
* `C11_sys_new_packets_delivered` (headline): the explicit continuation `recoverSchedule s f news`
  — the recovery round, the new submissions, then one `emit` + recovery round per queued packet —
  delivers every packet that was waiting in the send queue and every new packet, of all four modes,
  byte-exact, exactly once, in submission order, in `queue length + news.length + 1` rounds, and
  leaves the sender with nothing pending and `send_buffer_size() = 0`.
* `C11_sys_no_permanent_stall`: the property form — there is no reachable state from which this
  continuation fails.

Scope. This is the PACKET layer: the `deliver`, `recv` and `ack` steps of the schedules are steps of
the environment. That the real half connection produces them by itself once frames flow again — the
resend timers retransmit the fragments of unacknowledged Persistent / Reliable packets, the sync
frame is emitted when the frame window is exhausted and answered, acknowledgement frames carry the
receiver's base, the flush loop calls `emit_packet` while credit allows, the send rate leaves its
minimum — is NOT claimed here. It is covered by the per-step theorems of `Props/C11.lean` (sync
mechanism, `C11_window_reopens_frames`, `C11_window_reopens_packets`, `C11_full_window_cycle`) and
`Props/C12.lean` (resend timers), and by the generated blackout scenarios run against the Rust code.
In particular Unreliable / TimeSensitive packets are sent once by the real sender, so a datagram of
theirs that is lost during the blackout is not in the network any more; the model's `net` keeps every
datagram, which is the right reading for Persistent / Reliable packets only. The statements below
about NEW packets and packets still in the send queue are not affected: their datagrams are emitted
after frames flow again.

Parameters as in C02Live: send window `0 < w ≤ 2^16`, `w ≤ 2^k` = receive window, `k ≤ 19`,
`b < 2^20`, `allocCeil a ≤ allocCeil m`. Packets obey the `debug_assert!`s of `enqueue_packet`
(`data.len() <= max_alloc`, `channel_id < CHANNEL_COUNT`; the public `send` functions `assert!` the
configured `max_packet_size` and the channel); they are needed:
`C11_sys_oversized_blocks_witness`, `C11_sys_bad_channel_traps_witness`.
-/

namespace Uflow.Props.C11

open Uflow Uflow.Gen Uflow.Codec Uflow.PSend Uflow.PRecv Uflow.Frag Uflow.Sys
open Uflow.Props.C02 (redeliverAll queuedBytes)

/-- The packets the sender still owes in state `s` when the application then submits `news` under
flush id `f`, in sending order: the packets waiting in the send queue that are not stale
TimeSensitive ones (`live f q = ¬ (mode = TimeSensitive ∧ flush_id ≠ f)`; the stale ones are dropped
by `emit_packet(f)`), then the new submissions. -/
def sendOrder (s : Sys) (f : Nat) (news : List NewPkt) : List QEntry :=
  s.snd.queue.filter (live f) ++ news.map (newQ f)

/-- **One recovery round from every reachable state** (C02Live restated for `recoverRound`). Let `s`
be reachable from `PacketSender::new(w, b, a)` / `PacketReceiver::new(2^k, b, m)` by ANY schedule.
Then `recoverRound s` — every emitted datagram handed over once, `receive`, the acknowledgement of
the base that `receive` recorded — runs without a trap and ends in a state where
* the send window is empty (`win = []`, `base_id = next_id`) and the allocation counter is 0;
* the send queue is untouched and `send_buffer_size` is down to the bytes waiting in it;
* the receive window base has passed every emitted packet; the log (what `receive` returned so far)
  has only grown, and contains every emitted Reliable packet, byte-exact. -/
theorem C11_sys_recover_round (w k b a m : Nat) (hwk : w ≤ 2^k) (hw : w ≤ 2^16) (hk : k ≤ 19)
    (hb : b < 2^20) (ham : allocCeil a ≤ allocCeil m) (ops : List SOp) (s : Sys)
    (h : runS (initS w (2^k) b a m) ops = .ok s) :
    ∃ s₁, runS s (recoverRound s) = .ok s₁ ∧
      s₁.snd.win = [] ∧ s₁.snd.baseId = s₁.snd.nextId ∧ s₁.snd.alloc = 0 ∧
      s₁.snd.queue = s.snd.queue ∧ s₁.snd.totalSize = queuedBytes s ∧ s₁.hist = s.hist ∧
      s₁.rcv.adv = s.hist.emitted.length ∧
      (∃ new, s₁.rcv.log = s.rcv.log ++ new) ∧
      (∀ j x, s.hist.emitted[j]? = some x → x.mode = .reliable →
        ∃ e ∈ s₁.rcv.log, e.uid = j ∧ e.data = some x.data) := by
  obtain ⟨s₁, hrun, -, rc, q1, q2, ⟨new, hlog, -⟩, hrel, -⟩ :=
    recover_round ⟨hwk, hw, hk, hb, ham⟩ (s := s) ⟨ops, h⟩
  refine ⟨s₁, hrun, rc.win, rc.base, rc.alloc, q1, ?_, q2, by rw [rc.adv, q2], ⟨new, hlog⟩, hrel⟩
  rw [rc.total, q1]; rfl

/-- **The windows reopen.** Let `s₁` be the state after the recovery round from ANY reachable state `s`
(`0 < w`). For every flush id `f`:
* if the send queue is `dropped ++ q :: rest` where the packets of `dropped` are stale TimeSensitive
  packets (`Stale f`: mode TimeSensitive and queued for another flush) and `q` is not — `q` of ANY
  mode: Unreliable, Persistent, Reliable, or TimeSensitive queued for this flush — and `q` obeys the
  asserts of `enqueue_packet` (`alloc_size(len) ≤ max_alloc`, which follows from `len ≤ max_alloc`,
  `allocSize_le_ceil`; channel `< 64`), then `emit_packet(f)` does not trap, drops `dropped` and
  RETURNS `q`: a pending packet with the payload, channel and next sequence id, `resend = true` iff the
  mode is Persistent or Reliable, expiry set iff TimeSensitive; `rest` stays queued; in the system the
  fragment datagrams of the packet enter the network. Neither the window test
  (`sub(next_id, base_id) >= window_size`) nor the allocation test (`alloc + size > max_alloc`) can
  fail, whatever the state before the round was;
* if every queued packet is stale (or the queue is empty), `emit_packet(f)` drops them all and
  returns `None`, leaving `send_buffer_size() = 0`;
* conversely `emit_packet(f) = None` ONLY in that case: after recovery the sender is never blocked
  while it has something to send. -/
theorem C11_sys_window_reopens (w k b a m : Nat) (hw0 : 0 < w) (hwk : w ≤ 2^k) (hw : w ≤ 2^16)
    (hk : k ≤ 19) (hb : b < 2^20) (ham : allocCeil a ≤ allocCeil m) (ops : List SOp) (s : Sys)
    (h : runS (initS w (2^k) b a m) ops = .ok s) :
    ∃ s₁, runS s (recoverRound s) = .ok s₁ ∧ s₁.snd.queue = s.snd.queue ∧
      (∀ f dropped q rest, s₁.snd.queue = dropped ++ q :: rest → (∀ d ∈ dropped, Stale f d) →
        ¬ Stale f q → allocSize q.data.length ≤ allocCeil a → q.channelId < CHANNEL_COUNT →
        ∃ s₂ p x, emit s₁.snd f = .ok (s₂.snd, some (p, decide (q.mode = .persistent ∨ q.mode = .reliable))) ∧
          stepS s₁ (.emit f) = .ok s₂ ∧
          p.data = q.data ∧ p.channelId = q.channelId ∧ p.sequenceId = s₁.snd.nextId ∧
          p.expiry = (if q.mode = .timeSensitive then some q.flushId else none) ∧
          s₂.snd.queue = rest ∧ s₂.snd.win.length = 1 ∧
          s₂.hist.emitted = s₁.hist.emitted ++ [x] ∧ x.toQ = q ∧
          s₂.net = s₁.net ++ dgsOf s₁.pend.length p) ∧
      (∀ f, (∀ d ∈ s₁.snd.queue, Stale f d) →
        ∃ snd', emit s₁.snd f = .ok (snd', none) ∧ snd'.queue = [] ∧ snd'.totalSize = 0) ∧
      (∀ f snd', emit s₁.snd f = .ok (snd', none) →
        (∀ q ∈ s₁.snd.queue, ¬ Stale f q → allocSize q.data.length ≤ allocCeil a ∧ q.channelId < CHANNEL_COUNT) →
        ∀ d ∈ s₁.snd.queue, Stale f d) := by
  have H : Hyp w k b a m := ⟨hwk, hw, hk, hb, ham⟩
  obtain ⟨s₁, hrun, hr1, rc, q1, -, -, -, -⟩ := recover_round H (s := s) ⟨ops, h⟩
  have hsome : ∀ f dropped q rest, s₁.snd.queue = dropped ++ q :: rest → (∀ d ∈ dropped, Stale f d) →
      ¬ Stale f q → allocSize q.data.length ≤ allocCeil a → q.channelId < CHANNEL_COUNT →
      ∃ s₂ p x, emit s₁.snd f = .ok (s₂.snd, some (p, decide (q.mode = .persistent ∨ q.mode = .reliable))) ∧
        stepS s₁ (.emit f) = .ok s₂ ∧
        p.data = q.data ∧ p.channelId = q.channelId ∧ p.sequenceId = s₁.snd.nextId ∧
        p.expiry = (if q.mode = .timeSensitive then some q.flushId else none) ∧
        s₂.snd.queue = rest ∧ s₂.snd.win.length = 1 ∧
        s₂.hist.emitted = s₁.hist.emitted ++ [x] ∧ x.toQ = q ∧
        s₂.net = s₁.net ++ dgsOf s₁.pend.length p := by
    intro f dropped q rest hq hd hn hal hch
    obtain ⟨s₂, p, x, e1, e2, e3, e4, e5, e6, e7, -, -, -, -, e12⟩ :=
      emit_step_some H hw0 hr1 rc f dropped q rest hq hd hn hal hch
    refine ⟨s₂, p, x, e2, e1, ?_, ?_, ?_, ?_, e4, e5, e6, e7, e12⟩ <;> rw [e3] <;> rfl
  refine ⟨s₁, hrun, q1, hsome, ?_, ?_⟩
  · intro f hd
    refine ⟨_, emit_all_stale s₁.snd f hd (by rw [rc.total]; exact Nat.le_refl _), rfl, ?_⟩
    show s₁.snd.totalSize - qBytes s₁.snd.queue = 0
    rw [rc.total]; exact Nat.sub_self _
  · intro f snd' hnone hgood
    rcases stale_split f s₁.snd.queue with hall | ⟨dropped, q, rest, hq, hd, hn⟩
    · exact hall
    · exfalso
      obtain ⟨hal, hch⟩ := hgood q (by rw [hq]; simp) hn
      obtain ⟨s₂, p, x, he, -⟩ := hsome f dropped q rest hq hd hn hal hch
      rw [he] at hnone
      cases hnone

/-- **C11, packet layer (headline): after ANY blackout, new packets of every mode are delivered.**
Let `s` be reachable by any schedule `ops` (`0 < w`). The application submits the packets
`news = [(data, channel, mode), …]` of arbitrary modes under the current flush id `f` (so new
TimeSensitive packets are not stale); they and the packets still waiting in the send queue obey the
asserts of `enqueue_packet`. Then the explicit schedule `recoverSchedule s f news` —
`recoverRound s`, the `enq` steps, then `queue length + news.length` rounds
`emit_packet(f)` + `recoverRound` — runs from `s` without a trap (so `ops` followed by it is a run of
the system, and all C01Sys safety theorems apply to its end state `s'`), takes
`queue length + news.length + 1` `receive` calls, and
* leaves the sender idle: send window empty, send queue empty, allocation 0, `send_buffer_size() = 0`,
  `pending_count() = 0`;
* has emitted, after the packets emitted before, exactly `sendOrder s f news`: the packets that were
  waiting in the send queue (FIFO; the stale TimeSensitive ones dropped, as `emit_packet` does),
  then `news`, with their modes and flush ids;
* has DELIVERED exactly these packets after the recovery round: the log of the end state (the
  concatenated outputs of `receive`) is the log `s₁.rcv.log` after the first round followed by one
  entry per packet of `sendOrder s f news`, in this order, with consecutive unwrapped ids starting at
  the number of packets emitted before, on the packet's channel, with its payload byte-exact
  (`data = some payload`; so the sink sees exactly these payloads, in submission order, each once) —
  for ALL FOUR modes;
* the first round had already delivered every Reliable packet emitted before (`s₁.rcv.log` extends
  `s.rcv.log` and contains each of them byte-exact). -/
theorem C11_sys_new_packets_delivered (w k b a m : Nat) (hw0 : 0 < w) (hwk : w ≤ 2^k) (hw : w ≤ 2^16)
    (hk : k ≤ 19) (hb : b < 2^20) (ham : allocCeil a ≤ allocCeil m) (ops : List SOp) (s : Sys)
    (h : runS (initS w (2^k) b a m) ops = .ok s) (f : Nat) (news : List NewPkt)
    (hnews : ∀ n ∈ news, n.1.length ≤ MAX_PACKET_SIZE ∧ n.1.length ≤ allocCeil a ∧ n.2.1 < CHANNEL_COUNT)
    (hqueue : ∀ q ∈ s.snd.queue, ¬ Stale f q → q.data.length ≤ allocCeil a ∧ q.channelId < CHANNEL_COUNT) :
    ∃ s₁ s' new,
      runS s (recoverRound s) = .ok s₁ ∧
      runS s (recoverSchedule s f news) = .ok s' ∧
      runS (initS w (2^k) b a m) (ops ++ recoverSchedule s f news) = .ok s' ∧
      recvCount (recoverSchedule s f news) = s.snd.queue.length + news.length + 1 ∧
      (s'.snd.win = [] ∧ s'.snd.queue = [] ∧ s'.snd.alloc = 0 ∧ s'.snd.totalSize = 0 ∧
        s'.snd.pendingCount = 0) ∧
      s'.hist.emitted.map Emitted.toQ = s.hist.emitted.map Emitted.toQ ++ sendOrder s f news ∧
      s'.hist.enqueued = s.hist.enqueued ++ news.map (newQ f) ∧
      s'.rcv.log = s₁.rcv.log ++ new ∧
      new.map LogE.uid = List.range' s.hist.emitted.length (sendOrder s f news).length ∧
      new.map (fun e => (e.chan, e.data)) = (sendOrder s f news).map (fun q => (q.channelId, some q.data)) ∧
      (∃ old, s₁.rcv.log = s.rcv.log ++ old) ∧
      (∀ j x, s.hist.emitted[j]? = some x → x.mode = .reliable →
        ∃ e ∈ s₁.rcv.log, e.uid = j ∧ e.data = some x.data) := by
  have H : Hyp w k b a m := ⟨hwk, hw, hk, hb, ham⟩
  have hr : Reach w k b a m s := ⟨ops, h⟩
  obtain ⟨s₁, s', es, new, r1, r2, -, rc, r4, r5, r6, r7, r8, r9, r10, r11⟩ :=
    recover_schedule H hw0 hr f news
      (fun n hn => ⟨(hnews n hn).1, allocSize_le_ceil _ _ (hnews n hn).2.1, (hnews n hn).2.2⟩)
      (fun q hq hn => ⟨allocSize_le_ceil _ _ (hqueue q hq hn).1, (hqueue q hq hn).2⟩)
  obtain ⟨t₁, t1, -, -, -, -, ⟨old, hold, -⟩, hrel, -⟩ := recover_round H hr
  have : t₁ = s₁ := by
    have := t1.symm.trans r1
    cases this; rfl
  subst this
  have hlen : es.length = (sendOrder s f news).length := by
    rw [sendOrder, ← r6, List.length_map]
  refine ⟨t₁, s', new, r1, r2, ?_, r11, ⟨rc.win, r4, rc.alloc, ?_, ?_⟩, ?_, r7, r8, ?_, ?_,
    ⟨old, hold⟩, hrel⟩
  · rw [runS_append _ _ _ s h]; exact r2
  · rw [rc.total, r4]; rfl
  · show s'.snd.queue.length = 0
    rw [r4]; rfl
  · rw [r5, List.map_append, r6]; rfl
  · rw [r9, hlen]
  · rw [r10, chan_data_toQ, r6]; rfl

/-- **C11, packet layer, in the form of the property: no reachable state is a permanent stall.**
Let `s` be reachable by a schedule `ops` in which the application respected the asserts of
`enqueue_packet` (`hasserts`; nothing else is assumed about `ops`: any loss, duplication and
reordering of datagrams and acknowledgements, any fill level of the windows). For any further
submissions `news` (any modes) there is a continuation `cont` of `queue length + news.length + 1`
rounds after which
* the sender has nothing in flight and nothing pending (`win = []`, `queue = []`, counters 0),
* every Reliable packet ever emitted before is in the receiver's log, byte-exact,
* every packet that was waiting in the send queue (except TimeSensitive packets of an older flush,
  which `emit_packet` drops by design) has been delivered AFTER `s` (unwrapped id ≥ the number of
  packets emitted before), on its channel, byte-exact,
* every new packet of `news` has been delivered likewise.
(Order, exactly-once and the explicit schedule: `C11_sys_new_packets_delivered`.) -/
theorem C11_sys_no_permanent_stall (w k b a m : Nat) (hw0 : 0 < w) (hwk : w ≤ 2^k) (hw : w ≤ 2^16)
    (hk : k ≤ 19) (hb : b < 2^20) (ham : allocCeil a ≤ allocCeil m) (ops : List SOp) (s : Sys)
    (h : runS (initS w (2^k) b a m) ops = .ok s)
    (hasserts : ∀ d c md fl, SOp.enq d c md fl ∈ ops → d.length ≤ allocCeil a ∧ c < CHANNEL_COUNT)
    (f : Nat) (news : List NewPkt)
    (hnews : ∀ n ∈ news, n.1.length ≤ MAX_PACKET_SIZE ∧ n.1.length ≤ allocCeil a ∧ n.2.1 < CHANNEL_COUNT) :
    ∃ cont s', runS s cont = .ok s' ∧ recvCount cont = s.snd.queue.length + news.length + 1 ∧
      s'.snd.win = [] ∧ s'.snd.queue = [] ∧ s'.snd.alloc = 0 ∧ s'.snd.totalSize = 0 ∧
      (∀ j x, s.hist.emitted[j]? = some x → x.mode = .reliable →
        ∃ e ∈ s'.rcv.log, e.uid = j ∧ e.data = some x.data) ∧
      (∀ q ∈ s.snd.queue, ¬ Stale f q →
        ∃ e ∈ s'.rcv.log, e.chan = q.channelId ∧ e.data = some q.data ∧ s.hist.emitted.length ≤ e.uid) ∧
      (∀ n ∈ news,
        ∃ e ∈ s'.rcv.log, e.chan = n.2.1 ∧ e.data = some n.1 ∧ s.hist.emitted.length ≤ e.uid) := by
  have H : Hyp w k b a m := ⟨hwk, hw, hk, hb, ham⟩
  have hq := queue_from_ops H ops s h
  obtain ⟨s₁, s', new, -, r2, -, r4, ⟨a1, a2, a3, a4, -⟩, r6, -, r8, r9, r10, -, hrel⟩ :=
    C11_sys_new_packets_delivered w k b a m hw0 hwk hw hk hb ham ops s h f news hnews
      (fun q hqm _ => hasserts _ _ _ _ (hq q hqm))
  have hdel : ∀ q ∈ sendOrder s f news,
      ∃ e ∈ new, e.chan = q.channelId ∧ e.data = some q.data ∧ s.hist.emitted.length ≤ e.uid := by
    intro q hqm
    have hmem : (q.channelId, some q.data) ∈ new.map (fun e => (e.chan, e.data)) := by
      rw [r10]; exact List.mem_map.mpr ⟨q, hqm, rfl⟩
    obtain ⟨e, he, hpair⟩ := List.mem_map.mp hmem
    simp only [Prod.mk.injEq] at hpair
    have hu : e.uid ∈ List.range' s.hist.emitted.length (sendOrder s f news).length := by
      rw [← r9]; exact List.mem_map.mpr ⟨e, he, rfl⟩
    rw [List.mem_range'_1] at hu
    exact ⟨e, he, hpair.1, hpair.2, hu.1⟩
  refine ⟨recoverSchedule s f news, s', r2, r4, a1, a2, a3, a4, ?_, ?_, ?_⟩
  · intro j x hx hm
    obtain ⟨e, he, h1, h2⟩ := hrel j x hx hm
    exact ⟨e, by rw [r8]; exact List.mem_append.mpr (Or.inl he), h1, h2⟩
  · intro q hqm hn
    obtain ⟨e, he, h1⟩ := hdel q (by
      rw [sendOrder]
      refine List.mem_append.mpr (Or.inl (List.mem_filter.mpr ⟨hqm, ?_⟩))
      simp [live, hn])
    exact ⟨e, by rw [r8]; exact List.mem_append.mpr (Or.inr he), h1⟩
  · intro n hn
    obtain ⟨e, he, h1⟩ := hdel (newQ f n) (by
      rw [sendOrder]
      exact List.mem_append.mpr (Or.inr (List.mem_map.mpr ⟨n, hn, rfl⟩)))
    exact ⟨e, by rw [r8]; exact List.mem_append.mpr (Or.inr he), h1⟩

/-! ## Witnesses and non-vacuity -/

/-- A blackout with a completely full packet window: send window 2 = receive window `2^1`, initial id
`2^20 - 1` (the ids wrap after one packet). Submitted: Reliable `[1, 1]` (channel 0), Unreliable `[2]`
(channel 1), TimeSensitive `[9]` (channel 0, flush 0), Persistent `[3]` (channel 2). Two packets are
emitted and fill the window; the third `emit` returns nothing. No datagram and no acknowledgement
gets through. -/
def blackoutOps : List SOp :=
  [ .enq [1, 1] 0 .reliable 0, .enq [2] 1 .unreliable 0, .enq [9] 0 .timeSensitive 0, .enq [3] 2 .persistent 0,
    .emit 0, .emit 0, .emit 0 ]

/-- The new submissions used in the witnesses: one packet of each of three modes (the fourth mode,
Persistent, is in the queue of the blackout state). -/
def blackoutNews : List NewPkt := [([4], 3, .reliable), ([5, 5], 0, .timeSensitive), ([6], 0, .unreliable)]

/-- The blackout state is stalled: the send window is full (2 of 2), two packets wait in the send
queue, the receiver has seen nothing, and `emit_packet` returns `None` for every flush id tried. -/
theorem C11_sys_blackout_state :
    (match runS (initS 2 (2^1) (2^20 - 1) 100000 100000) blackoutOps with
     | .ok s => decide (s.snd.win.length = 2 ∧ s.snd.windowSize = 2 ∧ s.snd.alloc = 3 ∧ s.snd.totalSize = 5 ∧
         (s.snd.queue.map fun q => (q.data, q.mode, q.flushId)) = [([9], .timeSensitive, 0), ([3], .persistent, 0)] ∧
         s.rcv.log = [] ∧ s.rcv.adv = 0 ∧ s.seen = [(0, 2^20 - 1)] ∧ s.net.length = 2 ∧
         emitted? s.snd 0 = none ∧ emitted? s.snd 1 = none)
     | .error _ => false) = true := by decide +kernel

/-- The hypotheses of `C11_sys_new_packets_delivered` and `C11_sys_no_permanent_stall` hold for the
blackout state, flush id 1 and `blackoutNews`. -/
example : ∃ s, runS (initS 2 (2^1) (2^20 - 1) 100000 100000) blackoutOps = .ok s ∧
    (0 : Nat) < 2 ∧ (2 : Nat) ≤ 2^1 ∧ (2 : Nat) ≤ 2^16 ∧ (1 : Nat) ≤ 19 ∧ 2^20 - 1 < 2^20 ∧
    allocCeil 100000 ≤ allocCeil 100000 ∧
    (∀ n ∈ blackoutNews, n.1.length ≤ MAX_PACKET_SIZE ∧ n.1.length ≤ allocCeil 100000 ∧ n.2.1 < CHANNEL_COUNT) ∧
    (∀ q ∈ s.snd.queue, ¬ Stale 1 q → q.data.length ≤ allocCeil 100000 ∧ q.channelId < CHANNEL_COUNT) ∧
    (∀ d c md fl, SOp.enq d c md fl ∈ blackoutOps → d.length ≤ allocCeil 100000 ∧ c < CHANNEL_COUNT) := by
  have hq : (match runS (initS 2 (2^1) (2^20 - 1) 100000 100000) blackoutOps with
      | .ok s => decide (∀ q ∈ s.snd.queue, ¬ Stale 1 q →
          q.data.length ≤ allocCeil 100000 ∧ q.channelId < CHANNEL_COUNT)
      | .error _ => false) = true := by decide +kernel
  cases hr : runS (initS 2 (2^1) (2^20 - 1) 100000 100000) blackoutOps with
  | error t => rw [hr] at hq; cases hq
  | ok s =>
    rw [hr] at hq
    refine ⟨s, rfl, by decide, by decide, by decide, by decide, by decide, Nat.le_refl _, by decide +kernel,
      of_decide_eq_true hq, ?_⟩
    intro d c md fl hm
    simp only [blackoutOps, List.mem_cons, SOp.enq.injEq, List.mem_nil_iff, reduceCtorEq, or_false] at hm
    rcases hm with ⟨rfl, rfl, -, -⟩ | ⟨rfl, rfl, -, -⟩ | ⟨rfl, rfl, -, -⟩ | ⟨rfl, rfl, -, -⟩ <;> decide +kernel

/-- **The recovery schedule on the blackout state**, computed: `recoverSchedule s 1 blackoutNews` has
`2 + 3 + 1 = 6` rounds; afterwards the log is: the two packets that were in flight (delivered by the
first round), then Persistent `[3]` from the send queue (the stale TimeSensitive `[9]` of flush 0 is
dropped), then the three new packets Reliable `[4]`, TimeSensitive `[5, 5]`, Unreliable `[6]`, in
submission order, with unwrapped ids 0 … 5 (sequence ids across the wrap); the sender is idle. -/
theorem C11_sys_blackout_recovery :
    (match runS (initS 2 (2^1) (2^20 - 1) 100000 100000) blackoutOps with
     | .ok s =>
       (match runS s (recoverSchedule s 1 blackoutNews) with
        | .ok s' => decide (recvCount (recoverSchedule s 1 blackoutNews) = 6 ∧
            (s'.rcv.log.map fun e => (e.uid, e.seq, e.chan, e.data)) =
              [(0, 2^20 - 1, 0, some [1, 1]), (1, 0, 1, some [2]), (2, 1, 2, some [3]), (3, 2, 3, some [4]),
               (4, 3, 0, some [5, 5]), (5, 4, 0, some [6])] ∧
            (s'.hist.emitted.map fun x => x.mode) =
              [.reliable, .unreliable, .persistent, .reliable, .timeSensitive, .unreliable] ∧
            (sendOrder s 1 blackoutNews).map QEntry.data = [[3], [4], [5, 5], [6]] ∧
            s'.snd.win = [] ∧ s'.snd.queue = [] ∧ s'.snd.alloc = 0 ∧ s'.snd.totalSize = 0)
        | .error _ => false)
     | .error _ => false) = true := by decide +kernel

/-- **The acknowledgement is what reopens the window.** From the blackout state let every datagram get
through and the application call `receive` (`redeliverAll`, both packets are delivered), but let the
acknowledgement be lost: the send window is still full and `emit_packet` still returns `None`;
`recoverRound` (the same steps plus the acknowledgement) empties it and `emit_packet(1)` returns the
Persistent packet. -/
theorem C11_sys_needs_ack_witness :
    (match runS (initS 2 (2^1) (2^20 - 1) 100000 100000) blackoutOps with
     | .ok s =>
       (match runS s (redeliverAll s), runS s (recoverRound s) with
        | .ok s', .ok s₁ => decide (s'.rcv.adv = 2 ∧ s'.rcv.log.length = 2 ∧ s'.snd.win.length = 2 ∧
            emitted? s'.snd 1 = none ∧
            s₁.snd.win = [] ∧ ((emitted? s₁.snd 1).map fun p => (p.data, p.sequenceId)) = some ([3], 1))
        | _, _ => false)
     | .error _ => false) = true := by decide +kernel

/-- **Frames must flow.** From the blackout state, acknowledgements alone (of every base the receiver
has recorded, after further `receive` calls) with no datagram getting through leave the window full:
the stall lasts as long as the blackout. -/
theorem C11_sys_needs_frames_witness :
    (match runS (initS 2 (2^1) (2^20 - 1) 100000 100000) blackoutOps with
     | .ok s =>
       (match runS s [.ack 0, .recv, .ack 1, .recv, .ack 2, .emit 1] with
        | .ok s' => decide (s'.snd.win.length = 2 ∧ emitted? s'.snd 1 = none ∧ s'.rcv.log = [])
        | .error _ => false)
     | .error _ => false) = true := by decide +kernel

/-- **Exhausted allocation** (limits `a = m = 1448`, one fragment): a Reliable packet of 1448 bytes is
emitted and uses up the allocation limit; the window has room (1 of 2) but the next packet is blocked
by `alloc + size > max_alloc`; everything is lost. The recovery schedule delivers both and a new
Persistent packet; allocation is back to 0. -/
theorem C11_sys_alloc_exhausted_witness :
    (match runS (initS 2 (2^1) 5 1448 1448)
        [.enq (List.replicate 1448 7) 0 .reliable 0, .enq [2] 1 .unreliable 0, .emit 0, .emit 0] with
     | .ok s =>
       (match runS s (recoverSchedule s 1 [([4], 3, .persistent)]) with
        | .ok s' => decide (s.snd.win.length = 1 ∧ s.snd.alloc = 1448 ∧ s.snd.maxAlloc = 1448 ∧
            s.snd.queue.length = 1 ∧ emitted? s.snd 0 = none ∧
            (s'.rcv.log.map fun e => (e.uid, e.chan, e.data)) =
              [(0, 0, some (List.replicate 1448 7)), (1, 1, some [2]), (2, 3, some [4])] ∧
            s'.snd.win = [] ∧ s'.snd.queue = [] ∧ s'.snd.alloc = 0 ∧ s'.snd.totalSize = 0)
        | .error _ => false)
     | .error _ => false) = true := by decide +kernel

/-- **`alloc_size(len) ≤ max_alloc` is needed** (the `debug_assert!(data.len() <= self.max_alloc)` of
`enqueue_packet`): limit 1000 (ceiling 1448), a packet of 1500 bytes (`alloc_size = 2896`) can never
be emitted — even on the empty window after a recovery round `emit_packet` returns `None`, and the
packet blocks the queue for good. -/
theorem C11_sys_oversized_blocks_witness :
    (match runS (initS 2 (2^1) 5 1000 1000) [.enq (List.replicate 1500 7) 0 .reliable 0, .enq [1] 0 .reliable 0, .emit 0] with
     | .ok s =>
       (match runS s (recoverRound s ++ [SOp.emit 0]) with
        | .ok s' => decide (s'.snd.win = [] ∧ s'.snd.alloc = 0 ∧ s'.snd.queue.length = 2 ∧
            emitted? s'.snd 0 = none ∧ s'.snd.maxAlloc = 1448 ∧ allocSize 1500 = 2896)
        | .error _ => false)
     | .error _ => false) = true := by decide +kernel

/-- **`channel_id < CHANNEL_COUNT` is needed** (`debug_assert!` of `enqueue_packet`): with channel 64
`emit_packet` indexes `self.channels` out of bounds. -/
theorem C11_sys_bad_channel_traps_witness :
    (match runS (initS 2 (2^1) 5 1000 1000) [.enq [1] 64 .reliable 0, .emit 0] with
     | .error .index => true
     | _ => false) = true := by decide +kernel

/-- **`0 < w` is needed** (`debug_assert!(window_size > 0)` of `PacketSender::new`): with window size
0 nothing is ever emitted. -/
theorem C11_sys_zero_window_witness :
    (match runS (initS 0 (2^1) 5 1000 1000) [.enq [1] 0 .reliable 0, .emit 0] with
     | .ok s =>
       (match runS s (recoverRound s ++ [SOp.emit 0]) with
        | .ok s' => decide (s'.snd.win = [] ∧ s'.snd.queue.length = 1 ∧ emitted? s'.snd 0 = none)
        | .error _ => false)
     | .error _ => false) = true := by decide +kernel

end Uflow.Props.C11
