import Uflow.Model.Basic
import Uflow.Model.Codec
import Uflow.Model.Rate

/-!
M6 — model of `src/half_connection/{frame_queue.rs, reorder_buffer.rs, loss_rate.rs,
frame_ack_queue.rs}`. Frame ids are u32 with wrapping arithmetic (`wadd32`, `wsub32`).
-/

namespace Uflow.FrameQ

open Uflow.Gen Uflow.Codec Uflow.Rate

/-! ### reorder buffer -/

structure Reorder where
  f0 : Nat
  f1 : Nat
  count : Nat
  baseId : Nat
  maxSpan : Nat
  deriving Repr, DecidableEq, Inhabited

def Reorder.canPut (r : Reorder) (id : Nat) : Bool := wsub32 id r.baseId < r.maxSpan

abbrev Cb := List (Nat × Bool)   -- callback invocations `(frame_id, was_seen)` in order

/-- `while self.base_id != target { callback(base_id, false); base_id += 1 }` -/
def nackRun : Nat → Nat → Nat → Cb → R (Nat × Cb)
  | 0, _, _, _ => .error .hang
  | fuel+1, base, target, cb =>
    if base = target then .ok (base, cb) else nackRun fuel (wadd32 base 1) target (cb ++ [(base, false)])

def spanFuel : Nat := 2^32 + 2

/-- `ReorderBuffer::put`. -/
def Reorder.put (r : Reorder) (id : Nat) : R (Reorder × Cb) :=
  match r.count with
  | 0 =>
    if id = r.baseId then .ok ({ r with baseId := wadd32 r.baseId 1 }, [(id, true)])
    else .ok ({ r with f0 := id, count := 1 }, [])
  | 1 =>
    if id = r.baseId then
      let b := wadd32 r.baseId 1
      if r.f0 = b then .ok ({ r with baseId := wadd32 b 1, count := 0 }, [(id, true), (r.f0, true)])
      else .ok ({ r with baseId := b }, [(id, true)])
    else
      if wsub32 id r.baseId < wsub32 r.f0 r.baseId then .ok ({ r with f1 := r.f0, f0 := id, count := 2 }, [])
      else .ok ({ r with f1 := id, count := 2 }, [])
  | 2 =>
    -- three candidates: the minimum (by distance from base) is released, the others are kept in order
    let dn := wsub32 id r.baseId
    let d1 := wsub32 r.f1 r.baseId
    let (f1, mn, dmin) := if d1 < dn then (id, r.f1, d1) else (r.f1, id, dn)
    let d0 := wsub32 r.f0 r.baseId
    let (f0, mn) := if d0 < dmin then (mn, r.f0) else (r.f0, mn)
    match nackRun (r.maxSpan + 2) r.baseId mn [] with
    | .error t => .error t
    | .ok (_, cb) =>
      let cb := cb ++ [(mn, true)]
      let b := wadd32 mn 1
      if f0 = b then
        let b := wadd32 b 1
        if f1 = b then .ok ({ r with f0 := f0, f1 := f1, baseId := wadd32 b 1, count := 0 }, cb ++ [(f0, true), (f1, true)])
        else .ok ({ r with f0 := f1, f1 := f1, baseId := b, count := 1 }, cb ++ [(f0, true)])
      else .ok ({ r with f0 := f0, f1 := f1, baseId := b, count := 2 }, cb)
  | _ => .ok (r, [])

def Reorder.canAdvance (r : Reorder) (nb : Nat) : Bool :=
  let d := wsub32 nb r.baseId
  d ≥ 1 ∧ d ≤ r.maxSpan

/-- `ReorderBuffer::advance`. -/
def Reorder.advance (r : Reorder) (nb : Nat) : R (Reorder × Cb) :=
  -- first loop (at most two buffered frames)
  let step1 (r : Reorder) (cb : Cb) : R (Reorder × Cb) :=
    if r.count > 0 ∧ wsub32 r.f0 r.baseId < wsub32 nb r.baseId then
      match nackRun (r.maxSpan + 2) r.baseId r.f0 cb with
      | .error t => .error t
      | .ok (_, cb) =>
        .ok ({ r with baseId := wadd32 r.f0 1, f0 := if r.count = 2 then r.f1 else r.f0, count := r.count - 1 }, cb ++ [(r.f0, true)])
    else .ok (r, cb)
  match step1 r [] with
  | .error t => .error t
  | .ok (r, cb) =>
    match step1 r cb with
    | .error t => .error t
    | .ok (r, cb) =>
      match nackRun (r.maxSpan + 2) r.baseId nb cb with
      | .error t => .error t
      | .ok (b, cb) =>
        let r := { r with baseId := b }
        match r.count with
        | 1 =>
          if r.f0 = r.baseId then .ok ({ r with baseId := wadd32 r.baseId 1, count := 0 }, cb ++ [(r.f0, true)])
          else .ok (r, cb)
        | 2 =>
          if r.f0 = r.baseId then
            let b := wadd32 r.baseId 1
            if r.f1 = b then .ok ({ r with baseId := wadd32 b 1, count := 0 }, cb ++ [(r.f0, true), (r.f1, true)])
            else .ok ({ r with baseId := b, f0 := r.f1, count := 1 }, cb ++ [(r.f0, true)])
          else .ok (r, cb)
        | _ => .ok (r, cb)

/-! ### loss intervals -/

structure Interval where
  endTime : Nat
  length : Nat
  deriving Repr, DecidableEq, Inhabited

def satAdd1 (x : Nat) : Nat := min (x + 1) (2^32 - 1)

def pushAck : List Interval → List Interval
  | [] => []
  | i :: rest => { i with length := satAdd1 i.length } :: rest

def pushNack (l : List Interval) (sendTime rtt : Nat) : List Interval :=
  match l with
  | [] => [{ endTime := sendTime + rtt, length := 1 }]
  | i :: rest =>
    if sendTime ≥ i.endTime then ({ endTime := sendTime + rtt, length := 1 } :: i :: rest).take LOSS_INTERVAL_MAX
    else { i with length := satAdd1 i.length } :: rest

/-! ### frame log and feedback -/

structure Entry where
  size : Nat
  sendTime : Nat
  /-- `(packet uid, fragment id)` of the resendable fragments carried -/
  refs : List (Nat × Nat)
  nonce : Bool
  rateLimited : Bool
  acked : Bool
  deriving Repr, DecidableEq, Inhabited

structure AckData where
  lastSendTime : Nat
  totalAckSize : Nat
  rateLimited : Bool
  deriving Repr, DecidableEq, Inhabited

structure State where
  -- FrameLog
  logNext : Nat
  logBase : Nat
  frames : List Entry
  -- FeedbackGen
  lastFeedback : Option Nat
  ackData : Option AckData
  reorder : Reorder
  intervals : List Interval
  -- TransferWindow
  winBase : Nat
  winSize : Nat
  tailSize : Nat
  rateLimited : Bool
  deriving Repr, DecidableEq, Inhabited

def init (size tail base : Nat) : State :=
  { logNext := base, logBase := base, frames := [], lastFeedback := none, ackData := none,
    reorder := { f0 := 0, f1 := 0, count := 0, baseId := base, maxSpan := (size + tail) % 2^32 },
    intervals := [], winBase := base, winSize := size, tailSize := tail, rateLimited := false }

def canPush (s : State) : Bool := wsub32 s.logNext s.winBase < s.winSize

def getFrame (s : State) (id : Nat) : Option Entry := s.frames[wsub32 id s.logBase]?

/-- `FrameQueue::push`. -/
def push (s : State) (size now : Nat) (refs : List (Nat × Nat)) (nonce : Bool) : State :=
  if canPush s then
    { s with frames := s.frames ++ [{ size := size % 2^32, sendTime := now, refs := refs, nonce := nonce,
                                      rateLimited := s.rateLimited, acked := false }],
             logNext := wadd32 s.logNext 1, rateLimited := false }
  else s

/-- Applies reorder-buffer callbacks to the loss interval queue (`notify_ack` / `notify_advancement`). -/
def applyCb (s : State) (rtt : Option Nat) : Cb → List Interval → R (List Interval)
  | [], l => .ok l
  | (id, seen) :: rest, l =>
    match getFrame s id with
    | none => .error .unwrap
    | some e =>
      if seen then applyCb s rtt rest (pushAck l)
      else applyCb s rtt rest (pushNack l e.sendTime (rtt.getD FEEDBACK_INITIAL_RTT_MS))   -- `rtt_ms.unwrap_or(INITIAL_RTT_MS)`

/-- `FeedbackGen::notify_ack`. -/
def notifyAck (s : State) (id : Nat) (rtt : Option Nat) : R State :=
  if s.reorder.canPut id then
    match s.reorder.put id with
    | .error t => .error t
    | .ok (r, cb) =>
      match applyCb s rtt cb s.intervals with
      | .error t => .error t
      | .ok l => .ok { s with reorder := r, intervals := l }
  else .ok s

/-- `cull_log_entries`: `notify_advancement` then `FrameLog::drain`. -/
def cull (s : State) (newBase : Nat) (rtt : Option Nat) : R State :=
  let r : R State :=
    if s.reorder.canAdvance newBase then
      match s.reorder.advance newBase with
      | .error t => .error t
      | .ok (r, cb) =>
        match applyCb s rtt cb s.intervals with
        | .error t => .error t
        | .ok l => .ok { s with reorder := r, intervals := l }
    else .ok s
  match r with
  | .error t => .error t
  | .ok s =>
    let k := wsub32 newBase s.logBase
    if k > s.frames.length then .error .index else     -- `drain(..idx)` out of range panics
    .ok { s with frames := s.frames.drop k, logBase := newBase }

/-- `forget_frames`. -/
def forgetFrames (s : State) (thresh : Nat) (rtt : Option Nat) : R State :=
  let k := (s.frames.takeWhile (fun e => e.sendTime < thresh)).length
  let maxBase := wadd32 s.logBase k
  if wsub32 maxBase s.logBase ≠ 0 then cull s maxBase rtt else .ok s

def bitfieldSize (bits : Nat) : Nat :=
  match (List.range 32).reverse.find? (fun i => bits / 2^i % 2 = 1) with
  | some i => i + 1
  | none => 0

/-- Second loop of `acknowledge_group`. -/
def ackLoop (ack : AckGroup) (rtt : Option Nat) : List Nat → State → Nat → Nat → Bool → List (Nat × Nat) →
    R (State × Nat × Nat × Bool × List (Nat × Nat))
  | [], s, lst, tot, rl, fr => .ok (s, lst, tot, rl, fr)
  | i :: rest, s, lst, tot, rl, fr =>
    let id := wadd32 ack.baseId i
    let k := wsub32 id s.logBase
    match s.frames[k]? with
    | none => .error .unwrap
    | some e =>
      let rl := rl || e.rateLimited
      if ack.bitfield / 2^i % 2 = 1 ∧ ¬ e.acked then
        let s := { s with frames := s.frames.set k { e with acked := true, refs := [] } }
        match notifyAck s id rtt with
        | .error t => .error t
        | .ok s => ackLoop ack rtt rest s (max lst e.sendTime) (tot + e.size) rl (fr ++ e.refs)
      else ackLoop ack rtt rest s lst tot rl fr

/-- `acknowledge_group`: returns the fragments to mark acknowledged. -/
def acknowledgeGroup (s : State) (ack : AckGroup) (rtt : Option Nat) : R (State × List (Nat × Nat)) :=
  let n := bitfieldSize ack.bitfield
  if n = 0 then .ok (s, []) else
  let idx := List.range n
  -- first loop: every covered frame must be in the log; accumulate the nonce of the claimed ones
  match idx.foldl (fun (acc : Option Bool) i =>
      match acc, getFrame s (wadd32 ack.baseId i) with
      | some nz, some e => some (if ack.bitfield / 2^i % 2 = 1 then (nz != e.nonce) else nz)
      | _, _ => none) (some false) with
  | none => .ok (s, [])
  | some trueNonce =>
    if ack.nonce ≠ trueNonce then .ok (s, []) else
    match ackLoop ack rtt idx s 0 0 false [] with
    | .error t => .error t
    | .ok (s, lst, tot, rl, fr) =>
      if tot = 0 then .ok (s, fr) else       -- nothing newly acknowledged: no feedback
      let ad : AckData := match s.ackData with
        | some d => { lastSendTime := max d.lastSendTime lst, totalAckSize := d.totalAckSize + tot, rateLimited := d.rateLimited || rl }
        | none => { lastSendTime := lst, totalAckSize := tot, rateLimited := rl }
      .ok ({ s with ackData := some ad }, fr)

def canAdvanceTransferWindow (s : State) (nb : Nat) : Bool :=
  let nextDelta := wsub32 s.logNext s.winBase
  let delta := wsub32 nb s.winBase
  delta ≠ 0 ∧ delta ≤ nextDelta

/-- `advance_transfer_window`. -/
def advanceTransferWindow (s : State) (nb : Nat) (rtt : Option Nat) : R State :=
  if canAdvanceTransferWindow s nb then
    let s := { s with winBase := nb }
    let maxBase := wsub32 nb s.tailSize
    let delta := wsub32 maxBase s.logBase
    if delta ≠ 0 ∧ delta ≤ s.frames.length % 2^32 then cull s maxBase rtt else .ok s
  else .ok s

variable {F : Type}

/-- `get_feedback`. -/
def getFeedback (ops : FloatOps F) (s : State) (now : Nat) : R (State × Option (Feedback F)) :=
  match s.ackData with
  | none => .ok (s, none)
  | some d =>
    if now < d.lastSendTime then .error .overflow else
    let rttMs := now - d.lastSendTime
    match (match s.lastFeedback with
           | some lf => if now < lf then Except.error Trap.overflow else Except.ok (ops.recvRate d.totalAckSize (now - lf))
           | none => Except.ok 0) with
    | .error t => .error t
    | .ok rr =>
      .ok ({ s with ackData := none, lastFeedback := some now },
           some { rttMs := rttMs, receiveRate := rr, lossRate := ops.lossRate (s.intervals.map (·.length)), rateLimited := d.rateLimited })

/-- `reset_loss_rate`: `truncate(1); entries[0].length = …` (index panic when empty). -/
def resetLossRate (ops : FloatOps F) (s : State) (p : F) : R State :=
  match s.intervals with
  | [] => .error .index
  | i :: _ => .ok { s with intervals := [{ i with length := ops.lossResetLen p }] }

/-! ### frame ack queue (receiver side) -/

structure AckQ where
  entries : List AckGroup
  baseId : Nat
  size : Nat
  deriving Repr, DecidableEq, Inhabited

def AckQ.init (size base : Nat) : AckQ := { entries := [], baseId := base, size := size }

def AckQ.contains (q : AckQ) (id : Nat) : Bool := wsub32 id q.baseId < q.size

def AckQ.advance (q : AckQ) (nb : Nat) : AckQ :=
  let d := wsub32 nb q.baseId
  if d > 0 ∧ d ≤ q.size then { q with baseId := nb } else q

def AckQ.resynchronize (q : AckQ) (senderNext : Nat) : AckQ := q.advance senderNext

/-- The `while let Some(first_entry) = self.entries.front()` loop of `mark_seen`: pending groups a whole
window or more behind the newest frame are dropped from the front. -/
def dropOld (size id : Nat) : List AckGroup → List AckGroup
  | [] => []
  | g :: rest => if wsub32 id g.baseId ≥ size then dropOld size id rest else g :: rest

/-- `mark_seen`. -/
def AckQ.markSeen (q : AckQ) (id : Nat) (nonce : Bool) : AckQ :=
  if q.contains id then
    let q := q.advance (wadd32 id 1)
    let q := { q with entries := dropOld q.size id q.entries }
    match q.entries.getLast? with
    | some last =>
      let bit := wsub32 id last.baseId
      if bit < 32 then
        if last.bitfield / 2^bit % 2 = 0 then
          { q with entries := q.entries.dropLast ++ [{ last with bitfield := last.bitfield + 2^bit, nonce := (last.nonce != nonce) }] }
        else q
      else { q with entries := q.entries ++ [{ baseId := id, bitfield := 1, nonce := nonce }] }
    | none => { q with entries := q.entries ++ [{ baseId := id, bitfield := 1, nonce := nonce }] }
  else q

end Uflow.FrameQ
