import Uflow.Model.Basic
import Uflow.Model.Codec

/-!
M4 — model of `src/half_connection/packet_sender.rs` and `pending_packet.rs`.

Representation choices (behaviour preserving, see DESIGN.md 3.1):
* the ring buffer `window: Box<[Option<WindowEntry>]>` is the FIFO `win` of the entries for ids
  `base_id .. next_id` (slot `id & mask` is `Some` exactly for those ids; `unwrap()` on an empty
  slot is `Trap.unwrap` on an empty FIFO);
* `Rc<RefCell<PendingPacket>>` is the entry itself, identified by a unique, never reused `uid`;
  a `Weak` reference is the `uid`; `upgrade() = None` iff no entry with that `uid` is in `win`.
-/

namespace Uflow.PSend

open Uflow.Gen Uflow.Codec

/-- `alloc_size(packet_size)`. -/
def allocSize (n : Nat) : Nat :=
  if n > MAX_FRAGMENT_SIZE then ((n + MAX_FRAGMENT_SIZE - 1) / MAX_FRAGMENT_SIZE) * MAX_FRAGMENT_SIZE else n

/-- `PendingPacket::new`: number of fragments. -/
def numFragments (n : Nat) : Nat :=
  (n + MAX_FRAGMENT_SIZE - 1) / MAX_FRAGMENT_SIZE + (if n = 0 then 1 else 0)

structure Pending where
  uid : Nat
  data : List Nat
  channelId : Nat
  sequenceId : Nat
  windowParentLead : Nat
  channelParentLead : Nat
  lastFragmentId : Nat
  /-- fragment ids acknowledged so far (the `ack_flags` bit set) -/
  acked : List Nat
  /-- `expiry_flush_id`: the flush a TimeSensitive packet was queued for -/
  expiry : Option Nat := none
  deriving Repr, DecidableEq, Inhabited

/-- `PendingPacket::expired(flush_id)`. -/
def Pending.expired (p : Pending) (flushId : Nat) : Bool :=
  match p.expiry with
  | some f => f != flushId
  | none => false

/-- `PendingPacket::datagram(fragment_id)`; slicing out of range is a Rust panic. -/
def Pending.datagram (p : Pending) (fid : Nat) : R Datagram :=
  let lo := fid * MAX_FRAGMENT_SIZE
  if fid = p.lastFragmentId then
    if lo > p.data.length then .error .index else
    .ok { sequenceId := p.sequenceId, channelId := p.channelId, windowParentLead := p.windowParentLead,
          channelParentLead := p.channelParentLead, fragmentId := fid, fragmentIdLast := p.lastFragmentId,
          data := p.data.drop lo }
  else
    if lo + MAX_FRAGMENT_SIZE > p.data.length then .error .index else
    .ok { sequenceId := p.sequenceId, channelId := p.channelId, windowParentLead := p.windowParentLead,
          channelParentLead := p.channelParentLead, fragmentId := fid, fragmentIdLast := p.lastFragmentId,
          data := (p.data.drop lo).take MAX_FRAGMENT_SIZE }

structure WEntry where
  packet : Pending
  allocSize : Nat
  channelId : Nat
  deriving Repr, DecidableEq, Inhabited

structure QEntry where
  data : List Nat
  channelId : Nat
  mode : SendMode
  flushId : Nat
  deriving Repr, DecidableEq, Inhabited

structure State where
  queue : List QEntry
  baseId : Nat
  nextId : Nat
  win : List WEntry
  windowSize : Nat
  windowParentId : Option Nat
  /-- `channels[c].parent_id`, 64 entries -/
  chanParent : List (Option Nat)
  maxAlloc : Nat
  alloc : Nat
  totalSize : Nat
  /-- ghost: next unique packet identity -/
  nextUid : Nat
  deriving Repr, DecidableEq, Inhabited

def init (windowSize baseId maxAlloc : Nat) : State :=
  { queue := [], baseId := baseId, nextId := baseId, win := [], windowSize := windowSize,
    windowParentId := none, chanParent := List.replicate CHANNEL_COUNT none,
    maxAlloc := allocCeil maxAlloc, alloc := 0, totalSize := 0, nextUid := 0 }

def State.pendingCount (s : State) : Nat := s.queue.length

/-- `enqueue_packet`. -/
def enqueue (s : State) (data : List Nat) (chan : Nat) (mode : SendMode) (flushId : Nat) : State :=
  { s with totalSize := s.totalSize + data.length,
           queue := s.queue ++ [{ data := data, channelId := chan, mode := mode, flushId := flushId }] }

/-- The `while let Some(packet) = front` loop dropping stale TimeSensitive packets. -/
def dropStale (flushId : Nat) : List QEntry → Nat → R (List QEntry × Nat)
  | [], total => .ok ([], total)
  | q :: rest, total =>
    if q.mode = .timeSensitive ∧ q.flushId ≠ flushId then
      if total < q.data.length then .error .overflow else dropStale flushId rest (total - q.data.length)
    else .ok (q :: rest, total)

/-- `emit_packet(flush_id)`: returns the new state and, if a packet was assigned an id, the
packet and its `resend` flag. -/
def emit (s : State) (flushId : Nat) : R (State × Option (Pending × Bool)) :=
  match dropStale flushId s.queue s.totalSize with
  | .error t => .error t
  | .ok (queue, total) =>
    let s := { s with queue := queue, totalSize := total }
    match queue with
    | [] => .ok (s, none)
    | q :: rest =>
      if pidSub s.nextId s.baseId ≥ s.windowSize then .ok (s, none) else
      let pa := allocSize q.data.length
      if s.alloc + pa > s.maxAlloc then .ok (s, none) else
      let seq := s.nextId
      match s.chanParent[q.channelId]? with
      | none => .error .index
      | some chanPar =>
        let wpl := match s.windowParentId with
          | some pid => pidSub seq pid % 2^16
          | none => 0
        let cpl := match chanPar with
          | some pid => pidSub seq pid % 2^16
          | none => 0
        let p : Pending := { uid := s.nextUid, data := q.data, channelId := q.channelId, sequenceId := seq,
                             windowParentLead := wpl, channelParentLead := cpl,
                             lastFragmentId := (numFragments q.data.length - 1) % 2^16, acked := [],
                             expiry := if q.mode = .timeSensitive then some q.flushId else none }
        let rel := q.mode = .reliable
        let s' : State := { s with
          queue := rest,
          win := s.win ++ [{ packet := p, allocSize := pa, channelId := q.channelId }],
          nextId := pidAdd s.nextId 1,
          alloc := s.alloc + pa,
          windowParentId := if rel then some seq else s.windowParentId,
          chanParent := if rel then s.chanParent.set q.channelId (some seq) else s.chanParent,
          nextUid := s.nextUid + 1 }
        let resend := q.mode = .persistent ∨ q.mode = .reliable
        .ok (s', some (p, resend))

/-- Body of the `while self.base_id != receiver_base_id` loop, `fuel` bounds the iterations by
the id space: if the exit test is not met after 2^32 increments of a 20-bit counter it never is. -/
def ackLoop : Nat → State → Nat → R State
  | 0, _, _ => .error .hang
  | fuel+1, s, rb =>
    if s.baseId = rb then .ok s else
    match s.win with
    | [] => .error .unwrap
    | e :: rest =>
      match s.chanParent[e.channelId]? with
      | none => .error .index
      | some cp =>
        if s.alloc < e.allocSize then .error .overflow else
        if s.totalSize < e.packet.data.length then .error .overflow else
        let s' : State := { s with
          windowParentId := if s.windowParentId = some s.baseId then none else s.windowParentId,
          chanParent := if cp = some s.baseId then s.chanParent.set e.channelId none else s.chanParent,
          alloc := s.alloc - e.allocSize,
          totalSize := s.totalSize - e.packet.data.length,
          win := rest,
          baseId := pidAdd s.baseId 1 }
        ackLoop fuel s' rb

/-- `acknowledge(receiver_base_id)`. -/
def acknowledge (s : State) (rb : Nat) : R State :=
  if rb % 2^32 % PACKET_ID_SPAN ≠ rb then .ok s else     -- `!packet_id::is_valid(..)`
  let delta := pidSub rb s.baseId
  let span := pidSub s.nextId s.baseId
  if delta > span then .ok s else
  -- at most `span` iterations can succeed before the FIFO is empty
  ackLoop (s.win.length + 2) s rb

/-- `Weak::upgrade()` + `fragment_acknowledged`. -/
def findPacket (s : State) (uid : Nat) : Option Pending :=
  (s.win.find? (fun e => e.packet.uid = uid)).map (·.packet)

/-- `acknowledge_fragment` through a `Weak`. -/
def ackFragment (s : State) (uid fid : Nat) : State :=
  { s with win := s.win.map fun e =>
      if e.packet.uid = uid ∧ ¬ (fid ∈ e.packet.acked) then { e with packet := { e.packet with acked := fid :: e.packet.acked } } else e }

end Uflow.PSend
