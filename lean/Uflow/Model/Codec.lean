import Uflow.Model.Crc

/-!
M1 — model of `src/frame/mod.rs`, `src/frame/serial/mod.rs` and `src/frame/serial/build.rs`:
`Frame::write` (`encode`) and `Frame::read` (`decode`) over byte lists (`List Nat`, bytes on the
wire are `< 256`).

Integer fields are `Nat`; every Rust truncation (`as u8`, `as u16`, `>> k`) is written out as
`/ 2^k % 256`.  Bit masks on header bytes are written as the equal div/mod expressions (`x & 0x3F`
is `x % 64`, `x & 0x80 == 0` is `x / 128 % 2 = 0`, a disjoint `|` is `+`); the correspondence
check compares the resulting bytes with the implementation's.
-/

namespace Uflow.Codec

open Uflow.Gen

structure Datagram where
  sequenceId : Nat
  channelId : Nat
  windowParentLead : Nat
  channelParentLead : Nat
  fragmentId : Nat
  fragmentIdLast : Nat
  data : List Nat
  deriving Repr, DecidableEq, Inhabited

structure AckGroup where
  baseId : Nat
  bitfield : Nat
  nonce : Bool
  deriving Repr, DecidableEq, Inhabited

/-- `HandshakeErrorType` as its wire value: 0 Version, 1 Config, 2 ServerFull. -/
inductive HsError where
  | version | config | serverFull
  deriving Repr, DecidableEq, Inhabited

def HsError.toNat : HsError → Nat
  | .version => 0 | .config => 1 | .serverFull => 2

inductive Frame where
  | syn (version nonce maxReceiveRate maxPacketSize maxReceiveAlloc : Nat)
  | synAck (nonceAck nonce maxReceiveRate maxPacketSize maxReceiveAlloc : Nat)
  | hsAck (nonceAck : Nat)
  | hsError (nonceAck : Nat) (error : HsError)
  | disconnect
  | disconnectAck
  | data (sequenceId : Nat) (nonce : Bool) (datagrams : List Datagram)
  | sync (nextFrameId nextPacketId : Option Nat)
  | ack (frameWindowBaseId packetWindowBaseId : Nat) (frameAcks : List AckGroup)
  deriving Repr, DecidableEq, Inhabited

/-! ### primitive field codecs -/

/-- Big-endian bytes of the low 32 bits. -/
def be32 (x : Nat) : List Nat :=
  [x / 2^24 % 256, x / 2^16 % 256, x / 2^8 % 256, x % 256]

/-- Big-endian bytes of the low 16 bits. -/
def be16 (x : Nat) : List Nat :=
  [x / 2^8 % 256, x % 256]

def rd32 (b0 b1 b2 b3 : Nat) : Nat := b0 * 2^24 + b1 * 2^16 + b2 * 2^8 + b3

def rd16 (b0 b1 : Nat) : Nat := b0 * 2^8 + b1

def zeros (n : Nat) : List Nat := List.replicate n 0

/-- Appends the 4 CRC bytes of everything before them. -/
def withCrc (body : List Nat) : List Nat := body ++ be32 (Crc.compute body)

/-! ### encoding (`Frame::write`) -/

/-- `DataFrameBuilder::add`: header selection and layout for one datagram. -/
def encodeDatagram (d : Datagram) : List Nat :=
  let len := d.data.length % 2^16           -- `data.len() as u16`
  if d.fragmentIdLast = 0 ∧ len < 64 ∧ d.windowParentLead < 128 ∧ d.channelParentLead < 256 then
    -- micro
    [ len % 256 + (d.channelId / 16 % 2) * 64
    , (d.sequenceId / 2^12 % 256) / 16 * 16 + d.channelId % 16
    , d.sequenceId / 2^8 % 256
    , d.sequenceId % 256
    , d.windowParentLead % 256 + (d.channelId / 32 % 2) * 128
    , d.channelParentLead % 256 ] ++ d.data
  else if d.fragmentIdLast = 0 ∧ len < 256 then
    -- small
    [ d.channelId % 128 + 128, len % 256
    , d.sequenceId / 2^16 % 256, d.sequenceId / 2^8 % 256, d.sequenceId % 256 ]
    ++ be16 d.windowParentLead ++ be16 d.channelParentLead ++ d.data
  else
    -- large
    [ d.channelId % 64 + 192 ] ++ be16 len
    ++ [ d.sequenceId / 2^16 % 256, d.sequenceId / 2^8 % 256, d.sequenceId % 256 ]
    ++ be16 d.windowParentLead ++ be16 d.channelParentLead
    ++ be16 d.fragmentId ++ be16 d.fragmentIdLast ++ d.data

/-- `DataFrameBuilder::encoded_size`. -/
def encodedSize (d : Datagram) : Nat :=
  let len := d.data.length
  if d.fragmentIdLast = 0 ∧ len < 64 ∧ d.windowParentLead < 128 ∧ d.channelParentLead < 256 then
    DATAGRAM_HEADER_SIZE_MICRO + len
  else if d.fragmentIdLast = 0 ∧ len < 256 then
    DATAGRAM_HEADER_SIZE_SMALL + len
  else
    DATAGRAM_HEADER_SIZE_LARGE + len

def encodeAckGroup (a : AckGroup) : List Nat :=
  be32 a.baseId ++ be32 a.bitfield ++ [if a.nonce then 1 else 0]

def encodeBody : Frame → List Nat
  | .syn v n r p a =>
      [HANDSHAKE_SYN_FRAME_ID, v % 256] ++ be32 n ++ be32 r ++ be32 p ++ be32 a
        ++ zeros (MAX_FRAME_SIZE - FRAME_CRC_SIZE - 18)
  | .synAck na n r p a =>
      [HANDSHAKE_SYN_ACK_FRAME_ID] ++ be32 na ++ be32 n ++ be32 r ++ be32 p ++ be32 a
  | .hsAck na => [HANDSHAKE_ACK_FRAME_ID] ++ be32 na
  | .hsError na e => [HANDSHAKE_ERROR_FRAME_ID] ++ be32 na ++ [e.toNat]
  | .disconnect => [DISCONNECT_FRAME_ID]
  | .disconnectAck => [DISCONNECT_ACK_FRAME_ID]
  | .data sid nonce dgs =>
      -- count byte: `(nonce as u8) << 7 | count as u8`
      let cnt := dgs.length % 256
      let b := if nonce then (if cnt / 128 % 2 = 1 then cnt else cnt + 128) else cnt
      [DATA_FRAME_ID] ++ be32 sid ++ [b] ++ dgs.flatMap encodeDatagram
  | .sync fid pid =>
      let mode := (if fid.isSome then 1 else 0) + (if pid.isSome then 2 else 0)
      [SYNC_FRAME_ID, mode] ++ be32 (fid.getD 0) ++ be32 (pid.getD 0)
  | .ack fb pb acks =>
      [ACK_FRAME_ID] ++ be32 fb ++ be32 pb ++ be16 acks.length ++ acks.flatMap encodeAckGroup

/-- `Frame::write`. -/
def encode (f : Frame) : List Nat := withCrc (encodeBody f)

/-! ### decoding (`Frame::read`) -/

/-- `read_datagram`: returns the datagram and the remaining bytes. -/
def readDatagram (bs : List Nat) : Option (Datagram × List Nat) :=
  if bs.length < DATAGRAM_HEADER_SIZE_MIN then none else
  match bs with
  | b0 :: b1 :: b2 :: b3 :: b4 :: b5 :: r6 =>
    if b0 / 128 % 2 = 0 then
      -- micro
      let len := b0 % 64
      if r6.length < len then none else
      some ({ channelId := (b4 / 128 % 2) * 32 + (b0 / 64 % 2) * 16 + b1 % 16
              sequenceId := (b1 / 16 % 16) * 2^16 + b2 * 2^8 + b3
              windowParentLead := b4 % 128
              channelParentLead := b5
              fragmentId := 0
              fragmentIdLast := 0
              data := r6.take len }, r6.drop len)
    else if b0 / 64 % 2 = 0 then
      -- small
      match r6 with
      | b6 :: b7 :: b8 :: r9 =>
        let len := b1
        if r9.length < len then none else
        some ({ channelId := b0 % 64
                sequenceId := (b2 % 16) * 2^16 + b3 * 2^8 + b4
                windowParentLead := rd16 b5 b6
                channelParentLead := rd16 b7 b8
                fragmentId := 0
                fragmentIdLast := 0
                data := r9.take len }, r9.drop len)
      | _ => none
    else
      -- large
      match r6 with
      | b6 :: b7 :: b8 :: b9 :: b10 :: b11 :: b12 :: b13 :: r14 =>
        let len := rd16 b1 b2
        if r14.length < len then none else
        some ({ channelId := b0 % 64
                sequenceId := (b3 % 16) * 2^16 + b4 * 2^8 + b5
                windowParentLead := rd16 b6 b7
                channelParentLead := rd16 b8 b9
                fragmentId := rd16 b10 b11
                fragmentIdLast := rd16 b12 b13
                data := r14.take len }, r14.drop len)
      | _ => none
  | _ => none

/-- The `for _ in 0 .. datagram_num` loop of `read_data_payload`. -/
def readDatagrams : Nat → List Nat → Option (List Datagram × List Nat)
  | 0, bs => some ([], bs)
  | n+1, bs =>
    match readDatagram bs with
    | none => none
    | some (d, rest) =>
      match readDatagrams n rest with
      | none => none
      | some (ds, rest') => some (d :: ds, rest')

def readAckGroup (bs : List Nat) : Option (AckGroup × List Nat) :=
  match bs with
  | b0 :: b1 :: b2 :: b3 :: b4 :: b5 :: b6 :: b7 :: b8 :: r =>
    some ({ baseId := rd32 b0 b1 b2 b3, bitfield := rd32 b4 b5 b6 b7, nonce := b8 ≠ 0 }, r)
  | _ => none

def readAckGroups : Nat → List Nat → Option (List AckGroup × List Nat)
  | 0, bs => some ([], bs)
  | n+1, bs =>
    match readAckGroup bs with
    | none => none
    | some (a, rest) =>
      match readAckGroups n rest with
      | none => none
      | some (as, rest') => some (a :: as, rest')

/-- Dispatch on the type byte, `payload` is everything between the type byte and the CRC. -/
def readPayload (ty : Nat) (p : List Nat) : Option Frame :=
  if ty = HANDSHAKE_SYN_FRAME_ID then
    if p.length ≠ HANDSHAKE_SYN_FRAME_PAYLOAD_SIZE then none else
    match p with
    | v :: n0 :: n1 :: n2 :: n3 :: r0 :: r1 :: r2 :: r3 :: p0 :: p1 :: p2 :: p3 :: a0 :: a1 :: a2 :: a3 :: _ =>
      some (.syn v (rd32 n0 n1 n2 n3) (rd32 r0 r1 r2 r3) (rd32 p0 p1 p2 p3) (rd32 a0 a1 a2 a3))
    | _ => none
  else if ty = HANDSHAKE_SYN_ACK_FRAME_ID then
    match p with
    | [k0, k1, k2, k3, n0, n1, n2, n3, r0, r1, r2, r3, p0, p1, p2, p3, a0, a1, a2, a3] =>
      some (.synAck (rd32 k0 k1 k2 k3) (rd32 n0 n1 n2 n3) (rd32 r0 r1 r2 r3) (rd32 p0 p1 p2 p3) (rd32 a0 a1 a2 a3))
    | _ => none
  else if ty = HANDSHAKE_ACK_FRAME_ID then
    match p with
    | [k0, k1, k2, k3] => some (.hsAck (rd32 k0 k1 k2 k3))
    | _ => none
  else if ty = HANDSHAKE_ERROR_FRAME_ID then
    match p with
    | [k0, k1, k2, k3, e] =>
      if e = 0 then some (.hsError (rd32 k0 k1 k2 k3) .version)
      else if e = 1 then some (.hsError (rd32 k0 k1 k2 k3) .config)
      else if e = 2 then some (.hsError (rd32 k0 k1 k2 k3) .serverFull)
      else none
    | _ => none
  else if ty = DISCONNECT_FRAME_ID then
    match p with
    | [] => some .disconnect
    | _ => none
  else if ty = DISCONNECT_ACK_FRAME_ID then
    match p with
    | [] => some .disconnectAck
    | _ => none
  else if ty = DATA_FRAME_ID then
    match p with
    | s0 :: s1 :: s2 :: s3 :: c :: rest =>
      match readDatagrams (c % 128) rest with
      | some (dgs, []) => some (.data (rd32 s0 s1 s2 s3) (c / 128 % 2 = 1) dgs)
      | _ => none
    | _ => none
  else if ty = SYNC_FRAME_ID then
    match p with
    | [m, f0, f1, f2, f3, q0, q1, q2, q3] =>
      some (.sync (if m % 2 = 1 then some (rd32 f0 f1 f2 f3) else none)
                  (if m / 2 % 2 = 1 then some (rd32 q0 q1 q2 q3) else none))
    | _ => none
  else if ty = ACK_FRAME_ID then
    match p with
    | f0 :: f1 :: f2 :: f3 :: q0 :: q1 :: q2 :: q3 :: c0 :: c1 :: rest =>
      match readAckGroups (rd16 c0 c1) rest with
      | some (acks, []) => some (.ack (rd32 f0 f1 f2 f3) (rd32 q0 q1 q2 q3) acks)
      | _ => none
    | _ => none
  else none

/-- `Frame::read`. -/
def decode (bs : List Nat) : Option Frame :=
  if bs.length < 5 then none else
  let body := bs.take (bs.length - 4)
  match bs.drop (bs.length - 4) with
  | [c0, c1, c2, c3] =>
    if Crc.compute body ≠ rd32 c0 c1 c2 c3 then none else
    match body with
    | ty :: payload => readPayload ty payload
    | [] => none
  | _ => none

/-! ### bit errors (used to state the CRC guarantee) -/

/-- Flips bit `p % 8` of byte `p / 8` (no effect if `p / 8` is out of range). -/
def flipBit (bs : List Nat) (p : Nat) : List Nat :=
  match bs[p / 8]? with
  | some b => bs.set (p / 8) (b ^^^ 2 ^ (p % 8))
  | none => bs

end Uflow.Codec
