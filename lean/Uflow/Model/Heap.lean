import Uflow.Model.PRecv

/-!
M10 — the allocator's view of the one place where the library builds a heap object by hand
(`FragmentBuffer::new` / `finalize`, `fragment_buffer.rs`). Everything else is safe Rust, where the
compiler pairs every deallocation with the layout of its allocation.

A `Box<[u8]>` is a pointer to a block plus a length; dropping it calls
`dealloc(ptr, Layout::array::<u8>(len))`, which the allocator contract only permits if `len` is the
size the block currently has.
-/

namespace Uflow.Heap

open Uflow.Gen Uflow.PRecv

/-- A heap block as the allocator knows it. -/
structure Block where
  size : Nat
  align : Nat
  deriving Repr, DecidableEq, Inhabited

/-- `Box<[u8]>`. -/
structure BoxU8 where
  block : Block
  len : Nat
  deriving Repr, DecidableEq, Inhabited

/-- The layout `drop` hands to `dealloc` is the layout of the block. -/
def BoxU8.dropOk (b : BoxU8) : Bool := b.len == b.block.size && b.block.align == 1

/-- `vec![0; n].into_boxed_slice()`. -/
def allocBox (n : Nat) : BoxU8 := { block := { size := n, align := 1 }, len := n }

/-- `FragmentBuffer::finalize` as the code has it now: `into_vec()`, `truncate(total_size)`,
`into_boxed_slice()` — the block is shrunk (`realloc`) to the new length. Truncating to more than
the length is a no-op. -/
def finalizeBox (b : BoxU8) (total : Nat) : BoxU8 :=
  let n := min total b.len
  { block := { size := n, align := b.block.align }, len := n }

/-- The unsafe re-boxing `Box::from_raw(slice::from_raw_parts_mut(ptr, total_size))` the code had
before (known_findings F11): same block, shorter slice. -/
def finalizeRaw (b : BoxU8) (total : Nat) : BoxU8 := { block := b.block, len := total }

/-- The box handed to the application for an assembled packet. -/
def deliveredBox (buf : FragBuf) : BoxU8 := finalizeBox (allocBox (buf.numFragments * MAX_FRAGMENT_SIZE)) buf.totalSize

/-- Ledger used by the driver: the box a delivered multi-fragment packet of `len` bytes arrives in. -/
def boxOfDelivered (len : Nat) : BoxU8 :=
  let n := (len + MAX_FRAGMENT_SIZE - 1) / MAX_FRAGMENT_SIZE
  finalizeBox (allocBox (n * MAX_FRAGMENT_SIZE)) len

end Uflow.Heap
