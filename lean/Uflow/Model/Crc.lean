import Uflow.Gen.Consts
import Uflow.Gen.CrcTable

/-!
M2 — model of `src/frame/serial/crc.rs`.

`ext` is the table-driven `extend` (what the code runs); `bitStep`/`slowByte` is the bitwise LFSR
of `extend_slow` (what the table is supposed to contain).  Bytes are `Nat`; only the low 8 bits of
`crc ^ byte` select the table entry, exactly like `(crc as u8 ^ byte) as usize`.
-/

namespace Uflow.Crc

open Uflow.Gen

theorem table_length : crcTableList.length = 256 := by decide +kernel

/-- `PARTIAL_RESULTS[i]` for `i < 256`. -/
def tableAt (i : Nat) (h : i < 256) : BitVec 32 :=
  BitVec.ofNat 32 (crcTableList[i]'(by rw [table_length]; exact h))

/-- One iteration of the loop in `extend`. -/
def step (crc : BitVec 32) (byte : Nat) : BitVec 32 :=
  (crc >>> 8) ^^^ tableAt ((crc.toNat ^^^ byte) % 256) (Nat.mod_lt _ (by decide))

/-- `extend(initial_crc, data)`. -/
def ext (crc : BitVec 32) (bs : List Nat) : BitVec 32 :=
  bs.foldl step crc

/-- `compute(data)`. -/
def compute (bs : List Nat) : Nat :=
  (ext (BitVec.ofNat 32 CRC_INITIAL_CRC) bs).toNat

/-- The reflected generator polynomial used by `extend_slow` (x^32 term implicit). -/
def poly : BitVec 32 := BitVec.ofNat 32 CRC_POLY_REFLECTED

/-- One shift of the reflected LFSR (inner loop body of `extend_slow`). -/
def bitStep (r : BitVec 32) : BitVec 32 :=
  if r.getLsbD 0 then (r >>> 1) ^^^ poly else r >>> 1

def bitSteps : Nat → BitVec 32 → BitVec 32
  | 0, r => r
  | n+1, r => bitSteps n (bitStep r)

/-- `extend_slow(0, &[b])`: what entry `b` of the table must be. -/
def slowByte (b : Nat) : BitVec 32 :=
  ~~~ (bitSteps 8 ((~~~ (0 : BitVec 32)) ^^^ BitVec.ofNat 32 (b % 256)))

/-- `extend_slow(initial, data)`. -/
def extSlow (crc : BitVec 32) (bs : List Nat) : BitVec 32 :=
  ~~~ (bs.foldl (fun reg b => bitSteps 8 (reg ^^^ BitVec.ofNat 32 (b % 256))) (~~~ crc))

end Uflow.Crc
