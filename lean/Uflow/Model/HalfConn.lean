import Uflow.Model.PSend
import Uflow.Model.PRecv
import Uflow.Model.FrameQ
import Uflow.Model.Rate

/-!
M7 — model of `src/half_connection/mod.rs`, `emit.rs`, `resend_queue.rs`, `pending_queue.rs`.

* Time: `now` is virtual nanoseconds; `now_ms = (now - time_base).as_millis()`.
* Randomness: the per-frame nonce is the low bit of the next value of the script-fed source
  (`rng`), falling back to the same splitmix64 stream as the `vrand` hook.
* `BinaryHeap<resend_queue::Entry>`: the std binary heap algorithm (sift-up on push,
  sift-down-to-bottom then sift-up on pop) is reproduced on a list, so that the order in which
  fragments with equal resend times are re-sent is the implementation's.
* Emitted frames are returned as byte lists (what `FrameSink::send` receives), delivered packets
  as payloads (what `PacketSink::send` receives).
-/

namespace Uflow.HalfConn

open Uflow.Gen Uflow.Codec Uflow.Rate

structure Config where
  txFrameBaseId : Nat
  rxFrameBaseId : Nat
  txFrameWindowSize : Nat
  rxFrameWindowSize : Nat
  txPacketBaseId : Nat
  rxPacketBaseId : Nat
  txPacketWindowSize : Nat
  rxPacketWindowSize : Nat
  txBandwidthLimit : Nat
  txAllocLimit : Nat
  rxAllocLimit : Nat
  keepaliveIntervalMs : Option Nat
  deriving Repr, DecidableEq, Inhabited

/-! ### the std binary heap on `resend_queue::Entry` (max-heap on reversed `resend_time`) -/

structure REntry where
  uid : Nat
  fid : Nat
  resendTime : Nat
  sendCount : Nat
  deriving Repr, DecidableEq, Inhabited

/-- `a <= b` in the `Ord` of `resend_queue::Entry` (reversed comparison of `resend_time`). -/
def REntry.le (a b : REntry) : Bool := a.resendTime ≥ b.resendTime

/-- `sift_up(start, pos)`: moves the element at `pos` towards the root. -/
def siftUp (h : Array REntry) (start pos : Nat) : Array REntry :=
  match h[pos]? with
  | none => h
  | some elt =>
    let rec go (fuel : Nat) (h : Array REntry) (pos : Nat) : Array REntry × Nat :=
      match fuel with
      | 0 => (h, pos)
      | fuel+1 =>
        if pos > start then
          let parent := (pos - 1) / 2
          match h[parent]? with
          | none => (h, pos)
          | some p =>
            if elt.le p then (h, pos)
            else go fuel (h.setIfInBounds pos p) parent
        else (h, pos)
    let (h, pos) := go (h.size + 1) h pos
    h.setIfInBounds pos elt

/-- `sift_down_to_bottom(0)` followed by `sift_up(0, pos)`. -/
def siftDownToBottom (h : Array REntry) : Array REntry :=
  let endI := h.size
  match h[0]? with
  | none => h
  | some elt =>
    let rec go (fuel : Nat) (h : Array REntry) (pos child : Nat) : Array REntry × Nat :=
      match fuel with
      | 0 => (h, pos)
      | fuel+1 =>
        if child ≤ endI - 2 ∧ endI ≥ 2 then
          match h[child]?, h[child + 1]? with
          | some a, some b =>
            let child := if a.le b then child + 1 else child
            match h[child]? with
            | some c => go fuel (h.setIfInBounds pos c) child (2 * child + 1)
            | none => (h, pos)
          | _, _ => (h, pos)
        else if child = endI - 1 ∧ endI ≥ 1 then
          match h[child]? with
          | some c => (h.setIfInBounds pos c, child)
          | none => (h, pos)
        else (h, pos)
    let (h, pos) := go (h.size + 1) h 0 1
    siftUp (h.setIfInBounds pos elt) 0 pos

def heapPush (h : Array REntry) (e : REntry) : Array REntry :=
  let h := h.push e
  siftUp h 0 (h.size - 1)

/-- `BinaryHeap::pop`. -/
def heapPop (h : Array REntry) : Option (REntry × Array REntry) :=
  match h.back? with
  | none => none
  | some last =>
    let h := h.pop
    match h[0]? with
    | none => some (last, h)
    | some top => some (top, siftDownToBottom (h.setIfInBounds 0 last))

/-! ### state -/

structure PEntry where
  uid : Nat
  fid : Nat
  resend : Bool
  deriving Repr, DecidableEq, Inhabited

structure Rng where
  fifo : List Nat
  state : Nat
  deriving Repr, DecidableEq, Inhabited

def Rng.next (r : Rng) : Nat × Rng :=
  match r.fifo with
  | v :: rest => (v % 2^64, { r with fifo := rest })
  | [] =>
    let s := (r.state + 0x9E3779B97F4A7C15) % 2^64
    let z := s
    let z := ((z ^^^ (z / 2^30)) * 0xBF58476D1CE4E5B9) % 2^64
    let z := ((z ^^^ (z / 2^27)) * 0x94D049BB133111EB) % 2^64
    (z ^^^ (z / 2^31), { r with state := s })

structure State (F : Type) where
  ps : PSend.State
  pending : List PEntry
  resend : Array REntry
  fq : FrameQ.State
  pr : PRecv.State
  aq : FrameQ.AckQ
  rate : Rate.State F
  nowMs : Nat
  rttMs : Nat
  rtoMs : Nat
  timeBase : Nat
  timeLastFlushed : Option Nat
  syncTimeoutBase : Nat
  flushAlloc : Int
  flushFrac : F
  flushId : Nat
  syncReply : Bool
  keepalive : Option Nat
  rng : Rng

variable {F : Type}

def init (ops : FloatOps F) (c : Config) (now : Nat) (rng : Rng) : State F :=
  { ps := PSend.init c.txPacketWindowSize c.txPacketBaseId c.txAllocLimit,
    pending := [], resend := #[],
    fq := FrameQ.init c.txFrameWindowSize c.txFrameWindowSize c.txFrameBaseId,
    pr := PRecv.init c.rxPacketWindowSize c.rxPacketBaseId c.rxAllocLimit,
    aq := FrameQ.AckQ.init c.rxFrameWindowSize c.rxFrameBaseId,
    rate := Rate.init ops c.txBandwidthLimit,
    nowMs := 0, rttMs := 0, rtoMs := 0, timeBase := now, timeLastFlushed := none, syncTimeoutBase := 0,
    flushAlloc := 0, flushFrac := ops.zero, flushId := 0, syncReply := false, keepalive := c.keepaliveIntervalMs, rng := rng }

def isSendPending (s : State F) : Bool :=
  s.ps.pendingCount ≠ 0 ∨ s.pending.length ≠ 0 ∨ s.resend.size ≠ 0

def sendBufferSize (s : State F) : Nat := s.ps.totalSize

def send (s : State F) (data : List Nat) (chan : Nat) (mode : SendMode) : State F :=
  { s with ps := PSend.enqueue s.ps data chan mode s.flushId }

def receive (s : State F) : R (State F × List (List Nat)) :=
  match PRecv.receive s.pr with
  | .error t => .error t
  | .ok (pr, out) => .ok ({ s with pr := pr }, out)

def handleDataFrame (s : State F) (id : Nat) (nonce : Bool) (dgs : List Datagram) : R (State F) :=
  if s.aq.contains id then
    let s := { s with aq := s.aq.markSeen id nonce }
    dgs.foldlM (fun (s : State F) d => (PRecv.handleDatagram s.pr d).map fun pr => { s with pr := pr }) s
  else .ok s

def handleSyncFrame (s : State F) (nextFrame nextPacket : Option Nat) : R (State F) :=
  let s := match nextFrame with
    | some id => { s with aq := s.aq.resynchronize id }
    | none => s
  let r : R (State F) := match nextPacket with
    | some id => (PRecv.resynchronize s.pr id).map fun pr => { s with pr := pr }
    | none => .ok s
  r.map fun s => { s with syncReply := true }

def handleAckFrame (s : State F) (fb pb : Nat) (acks : List AckGroup) : R (State F) :=
  let rtt := s.rate.rttMs
  let r : R (State F) := acks.foldlM (fun (s : State F) a =>
    match FrameQ.acknowledgeGroup s.fq a rtt with
    | .error t => .error t
    | .ok (fq, frs) => .ok { s with fq := fq, ps := frs.foldl (fun ps (uid, fid) => PSend.ackFragment ps uid fid) s.ps }) s
  match r with
  | .error t => .error t
  | .ok s =>
    match FrameQ.advanceTransferWindow s.fq fb rtt with
    | .error t => .error t
    | .ok fq =>
      match PSend.acknowledge s.ps pb with
      | .error t => .error t
      | .ok ps => .ok { s with fq := fq, ps := ps }

def isizeMax : Int := 2^63 - 1
def isizeMin : Int := -(2^63)

def satAdd (a b : Int) : Int := max isizeMin (min isizeMax (a + b))

/-- `fill_flush_alloc`. -/
def fillFlushAlloc (ops : FloatOps F) (s : State F) (now : Nat) : State F :=
  let s := match s.timeLastFlushed with
    | some last =>
      let (newBytes, frac) := ops.fillBytes s.rate.sendRate (now - last) s.flushFrac
      let allocMax := ops.fillMax s.rate.sendRate s.rate.rttS
      { s with flushAlloc := min (satAdd s.flushAlloc newBytes) allocMax, flushFrac := frac }
    | none => s
  { s with timeLastFlushed := some now }

/-- `HalfConnection::step`. -/
def step (ops : FloatOps F) (s : State F) (now : Nat) : R (State F) :=
  let nowMs := (now - s.timeBase) / 1000000
  let rttMs := s.rate.rttMs.getD INITIAL_RTT_ESTIMATE_MS      -- `unwrap_or(INITIAL_RTT_ESTIMATE_MS)`
  let rtoMs := s.rate.rtoMs.getD INITIAL_RTO_ESTIMATE_MS      -- `unwrap_or(INITIAL_RTO_ESTIMATE_MS)`
  let s := { s with nowMs := nowMs, rttMs := rttMs, rtoMs := rtoMs }
  match FrameQ.forgetFrames s.fq (nowMs - max (rttMs * FORGET_RTT_MULT) rtoMs) s.rate.rttMs with   -- saturating_sub
  | .error t => .error t
  | .ok fq =>
    let s := fillFlushAlloc ops { s with fq := fq } now
    let s := { s with flushId := wadd32 s.flushId 1 }
    match FrameQ.getFeedback ops s.fq nowMs with
    | .error t => .error t
    | .ok (fq, fb) =>
      match Rate.step ops s.rate nowMs fb with
      | .error t => .error t
      | .ok (rate, reset) =>
        match reset with
        | none => .ok { s with fq := fq, rate := rate }
        | some p =>
          match FrameQ.resetLossRate ops fq p with
          | .error t => .error t
          | .ok fq => .ok { s with fq := fq, rate := rate }

/-! ### emission -/

/-- An in-progress data frame of the `DataFrameEmitter`. -/
structure InProg where
  frameId : Nat
  nonce : Bool
  dgs : List Datagram
  size : Nat                  -- `fbuilder.size()`
  refs : List (Nat × Nat)
  deriving Repr, DecidableEq, Inhabited

inductive PushErr where
  | sizeLimited | windowLimited
  deriving Repr, DecidableEq, Inhabited

/-- Emitter context threaded through `emit_data_frames`: the half connection state, the
in-progress frame and the frames sent so far. -/
structure Emit (F : Type) where
  s : State F
  inProg : Option InProg
  out : List (List Nat)

def maxPacketCount : Nat := min (PACKET_ID_SPAN / (MAX_FRAME_WINDOW_SIZE * 2)) DATA_FRAME_MAX_DATAGRAM_COUNT

/-- `DataFrameEmitter::finalize` together with the `emit_cb` of `emit_data_frames`. -/
def dfeFinalize (e : Emit F) : Emit F :=
  match e.inProg with
  | none => e
  | some ip =>
    let bytes := encode (.data ip.frameId ip.nonce ip.dgs)
    let s := e.s
    let s := { s with fq := FrameQ.push s.fq bytes.length s.nowMs ip.refs ip.nonce,
                      rate := Rate.notifyFrameSent s.rate s.nowMs,
                      flushAlloc := s.flushAlloc - bytes.length,
                      syncTimeoutBase := s.nowMs }
    { s := s, inProg := none, out := e.out ++ [bytes] }

/-- `DataFrameEmitter::push`. -/
def dfePush (e : Emit F) (p : PSend.Pending) (fid : Nat) (resend : Bool) : R (Emit F × Option PushErr) :=
  match p.datagram fid with
  | .error t => .error t
  | .ok dg =>
    let startNew (e : Emit F) : R (Emit F × Option PushErr) :=
      if e.s.flushAlloc < 0 then
        .ok ({ e with s := { e.s with fq := { e.s.fq with rateLimited := true } } }, some .sizeLimited)
      else if ¬ FrameQ.canPush e.s.fq then .ok (e, some .windowLimited)
      else
        let (v, rng) := e.s.rng.next
        let nonce := v % 2 = 1
        let ip : InProg := { frameId := e.s.fq.logNext, nonce := nonce, dgs := [dg],
                             size := DATA_FRAME_OVERHEAD + encodedSize dg,
                             refs := if resend then [(p.uid, fid)] else [] }
        .ok ({ e with s := { e.s with rng := rng }, inProg := some ip }, none)
    match e.inProg with
    | some ip =>
      let potential := ip.size + encodedSize dg
      if e.s.flushAlloc - ip.size < 0 then
        let e := dfeFinalize e
        .ok ({ e with s := { e.s with fq := { e.s.fq with rateLimited := true } } }, some .sizeLimited)
      else if potential > MAX_FRAME_SIZE ∨ ip.dgs.length ≥ maxPacketCount then
        startNew (dfeFinalize e)
      else
        .ok ({ e with inProg := some { ip with dgs := ip.dgs ++ [dg], size := potential,
                                               refs := if resend then ip.refs ++ [(p.uid, fid)] else ip.refs } }, none)
    | none => startNew e

/-- Outcome of a stage of `emit_frames`. -/
inductive Stage where
  | cont      -- `Ok(())`: go on with the next stage
  | stop      -- `Err(())`: out of credit, `emit_frames` returns
  deriving Repr, DecidableEq, Inhabited

/-- The `while let Some(entry) = self.resend_queue.peek()` loop. `done = true` means
`emit_data_frames` returns `Ok(())` immediately (window limited). -/
def resendLoop : Nat → Emit F → R (Emit F × Option Stage)
  | 0, _ => .error .hang
  | fuel+1, e =>
    match e.s.resend[0]? with
    | none => .ok (e, none)
    | some entry =>
      let popped : Emit F := match heapPop e.s.resend with
        | some (_, h) => { e with s := { e.s with resend := h } }
        | none => e
      match PSend.findPacket e.s.ps entry.uid with
      | none => resendLoop fuel popped
      | some p =>
        if entry.fid ∈ p.acked then resendLoop fuel popped
        else if entry.resendTime > e.s.nowMs then .ok (e, none)
        else
          match dfePush e p entry.fid true with
          | .error t => .error t
          | .ok (e, some .windowLimited) => .ok (e, some .cont)
          | .ok (e, some .sizeLimited) => .ok (e, some .stop)
          | .ok (e, none) =>
            match heapPop e.s.resend with
            | none => .error .unwrap
            | some (ent, h) =>
              let ne : REntry := { uid := ent.uid, fid := ent.fid,
                                   resendTime := e.s.nowMs + e.s.rttMs * 2^ent.sendCount,
                                   sendCount := min (ent.sendCount + 1) MAX_SEND_COUNT }
              resendLoop fuel { e with s := { e.s with resend := heapPush h ne } }

/-- The inner `while let Some(entry) = self.pending_queue.front()` loop. -/
def pendingInner : Nat → Emit F → R (Emit F × Option Stage)
  | 0, _ => .error .hang
  | fuel+1, e =>
    match e.s.pending with
    | [] => .ok (e, none)
    | entry :: rest =>
      match PSend.findPacket e.s.ps entry.uid with
      | none =>
        -- the packet is gone (window acknowledged past it): `self.pending_queue.pop_front(); continue;`
        pendingInner fuel { e with s := { e.s with pending := rest } }
      | some p =>
        if entry.fid ∈ p.acked then pendingInner fuel { e with s := { e.s with pending := rest } }
        else if entry.fid = 0 ∧ p.expired e.s.flushId then
          -- a TimeSensitive packet none of which was sent in the flush it was queued for: `self.pending_queue.clear()`
          pendingInner fuel { e with s := { e.s with pending := [] } }
        else
          match dfePush e p entry.fid entry.resend with
          | .error t => .error t
          | .ok (e, some .windowLimited) => .ok (e, some .cont)
          | .ok (e, some .sizeLimited) => .ok (e, some .stop)
          | .ok (e, none) =>
            let s := { e.s with pending := rest }
            let s := if entry.resend then
              { s with resend := heapPush s.resend { uid := entry.uid, fid := entry.fid, resendTime := s.nowMs + s.rttMs, sendCount := 1 } }
              else s
            pendingInner fuel { e with s := s }

/-- The outer `loop` of `emit_data_frames`. -/
def pendingOuter : Nat → Emit F → R (Emit F × Option Stage)
  | 0, _ => .error .hang
  | fuel+1, e =>
    let refill : R (Emit F × Bool) :=
      if e.s.pending.isEmpty then
        match PSend.emit e.s.ps e.s.flushId with
        | .error t => .error t
        | .ok (ps, none) => .ok ({ e with s := { e.s with ps := ps } }, false)
        | .ok (ps, some (p, resend)) =>
          let entries := (List.range (p.lastFragmentId + 1)).map fun i => ({ uid := p.uid, fid := i, resend := resend } : PEntry)
          .ok ({ e with s := { e.s with ps := ps, pending := entries } }, true)
      else .ok (e, true)
    match refill with
    | .error t => .error t
    | .ok (e, false) => .ok (e, none)
    | .ok (e, true) =>
      match pendingInner (e.s.pending.length + 2) e with
      | .error t => .error t
      | .ok (e, some st) => .ok (e, some st)
      | .ok (e, none) => pendingOuter fuel e

/-- `emit_data_frames`. -/
def emitDataFrames (s : State F) : R (State F × List (List Nat) × Stage) :=
  let e : Emit F := { s := s, inProg := none, out := [] }
  match resendLoop (2 * s.resend.size + 16 + s.flushAlloc.toNat) e with
  | .error t => .error t
  | .ok (e, some st) => .ok (e.s, e.out, st)
  | .ok (e, none) =>
    match pendingOuter (e.s.ps.queue.length + e.s.pending.length + 4) e with
    | .error t => .error t
    | .ok (e, some st) => .ok (e.s, e.out, st)
    | .ok (e, none) =>
      let e := dfeFinalize e
      .ok (e.s, e.out, .cont)

/-- In-progress ack frame of the `AckFrameEmitter`. -/
structure AckProg where
  groups : List AckGroup
  deriving Repr, DecidableEq, Inhabited

def AckProg.size (a : AckProg) : Nat :=
  FRAME_OVERHEAD + ACK_FRAME_PAYLOAD_HEADER_SIZE + ACK_GROUP_SIZE * a.groups.length

/-- `emit_ack_frames`. -/
def emitAckFrames (s : State F) : State F × List (List Nat) × Stage :=
  let fbase := s.aq.baseId
  let pbase := s.pr.baseId
  let fin (s : State F) (ip : Option AckProg) (out : List (List Nat)) : State F × List (List Nat) :=
    match ip with
    | none => (s, out)
    | some a =>
      let bytes := encode (.ack fbase pbase a.groups)
      ({ s with flushAlloc := s.flushAlloc - bytes.length, syncReply := false }, out ++ [bytes])
  -- push_dud
  if s.syncReply ∧ s.flushAlloc < 0 then (s, [], .stop) else
  let ip0 : Option AckProg := if s.syncReply then some { groups := [] } else none
  let rec loop (fuel : Nat) (s : State F) (ip : Option AckProg) (out : List (List Nat)) : State F × List (List Nat) × Stage :=
    match fuel with
    | 0 => (s, out, .stop)
    | fuel+1 =>
      match s.aq.entries with
      | [] => let (s, out) := fin s ip out; (s, out, .cont)
      | g :: rest =>
        let pop (s : State F) : State F := { s with aq := { s.aq with entries := rest } }
        match ip with
        | some a =>
          if s.flushAlloc - a.size < 0 then
            let (s, out) := fin s ip out; (s, out, .stop)
          else if a.size + ACK_GROUP_SIZE > MAX_FRAME_SIZE then
            let (s, out) := fin s ip out
            if s.flushAlloc < 0 then (s, out, .stop)
            else loop fuel (pop s) (some { groups := [g] }) out
          else loop fuel (pop s) (some { groups := a.groups ++ [g] }) out
        | none =>
          if s.flushAlloc < 0 then (s, out, .stop)
          else loop fuel (pop s) (some { groups := [g] }) out
  loop (s.aq.entries.length + 2) s ip0 []

/-- `emit_sync_frame`. -/
def emitSyncFrame (s : State F) : R (State F × List (List Nat) × Stage) :=
  if s.nowMs < s.syncTimeoutBase then .error .overflow else
  let elapsed := s.nowMs - s.syncTimeoutBase
  let timeout := max s.rtoMs MIN_SYNC_TIMEOUT_MS
  if elapsed ≥ timeout then
    let nextFrame := if s.fq.logNext ≠ s.fq.winBase then some s.fq.logNext else none
    let nextPacket := if s.ps.nextId ≠ s.ps.baseId ∧ s.resend.size = 0 ∧ s.pending.length = 0 then some s.ps.nextId else none
    let quiet : Bool := nextFrame.isNone && nextPacket.isNone
    let idle : Bool := match s.keepalive with
      | some k => decide (elapsed < k)
      | none => true
    if quiet && idle then .ok (s, [], .cont) else
    if s.flushAlloc < 0 then .ok (s, [], .stop) else
    let bytes := encode (.sync nextFrame nextPacket)
    .ok ({ s with flushAlloc := s.flushAlloc - bytes.length, syncTimeoutBase := s.nowMs }, [bytes], .cont)
  else .ok (s, [], .cont)

/-- `HalfConnection::flush`: returns the frames handed to the sink, in order. -/
def flush (s : State F) : R (State F × List (List Nat)) :=
  let (s, out1, st) := emitAckFrames s
  if st = .stop then .ok (s, out1) else
  match emitDataFrames s with
  | .error t => .error t
  | .ok (s, out2, st) =>
    if st = .stop then .ok (s, out1 ++ out2) else
    match emitSyncFrame s with
    | .error t => .error t
    | .ok (s, out3, _) => .ok (s, out1 ++ out2 ++ out3)

end Uflow.HalfConn
