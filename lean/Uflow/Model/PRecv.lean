import Uflow.Model.Basic
import Uflow.Model.Codec

/-!
M3 + M5 — model of `src/half_connection/packet_receiver/{mod.rs, assembly_window/mod.rs,
assembly_window/fragment_buffer.rs}`.

The parallel arrays indexed by `sequence_id & mask` (channel/window/data entries, the two flag
bit sets, the channel base markers, the assembly window) are one finite map `slots` from window
index to a `Slot` record; absent keys are the initial values. `FragmentBuffer` is the map from
fragment index to the bytes written there (first write wins) plus the two counters the code keeps.
-/

namespace Uflow.PRecv

open Uflow.Gen Uflow.Codec

/-- `datagram_is_valid`. -/
def datagramIsValid (d : Datagram) : Bool :=
  if d.channelId ≥ CHANNEL_COUNT then false
  else if d.channelParentLead ≠ 0 ∧ (d.windowParentLead = 0 ∨ d.channelParentLead < d.windowParentLead) then false
  else if d.fragmentId > d.fragmentIdLast then false
  else if d.fragmentId < d.fragmentIdLast ∧ d.data.length ≠ MAX_FRAGMENT_SIZE then false
  else if d.data.length > MAX_FRAGMENT_SIZE then false
  else true

/-- `FragmentBuffer`. -/
structure FragBuf where
  numFragments : Nat
  /-- (fragment index, bytes) in order of first write -/
  frags : List (Nat × List Nat)
  remaining : Nat
  totalSize : Nat
  deriving Repr, DecidableEq, Inhabited

def FragBuf.new (n : Nat) : FragBuf := { numFragments := n, frags := [], remaining := n, totalSize := 0 }

def FragBuf.has (b : FragBuf) (i : Nat) : Bool := b.frags.any (·.1 = i)

/-- `FragmentBuffer::write`: first write wins; writing outside the buffer is a slice panic. -/
def FragBuf.write (b : FragBuf) (i : Nat) (data : List Nat) : R FragBuf :=
  if i / 64 ≥ (b.numFragments + 63) / 64 then .error .index else
  if b.has i then .ok b else
  if i * MAX_FRAGMENT_SIZE + data.length > b.numFragments * MAX_FRAGMENT_SIZE then .error .index else
  if b.remaining = 0 then .error .overflow else
  .ok { b with frags := b.frags ++ [(i, data)], remaining := b.remaining - 1, totalSize := b.totalSize + data.length }

/-- Contents of the backing buffer, lazily: fragment `i` occupies `[i*F, i*F + len)`, the rest is 0. -/
def FragBuf.chunk (b : FragBuf) (i : Nat) : List Nat :=
  match b.frags.find? (·.1 = i) with
  | some (_, d) => d ++ List.replicate (MAX_FRAGMENT_SIZE - d.length) 0
  | none => List.replicate MAX_FRAGMENT_SIZE 0

/-- `FragmentBuffer::finalize`: the first `total_size` bytes of the backing buffer. -/
def FragBuf.finalize (b : FragBuf) : List Nat :=
  ((List.range b.numFragments).flatMap b.chunk).take b.totalSize

/-- `assembly_window::WindowEntry`. -/
inductive Asm where
  | opened
  | closed (alloc : Nat)
  | active (alloc chan wpl cpl last : Nat) (buf : FragBuf)
  deriving Repr, DecidableEq, Inhabited

/-- `assembly_window::Packet`. -/
structure Packet where
  channelId : Nat
  sequenceId : Nat
  windowParentLead : Nat
  channelParentLead : Nat
  data : Option (List Nat)
  deriving Repr, DecidableEq, Inhabited

def packetAllocSize (d : Datagram) : Nat :=
  if d.fragmentIdLast + 1 > 1 then (d.fragmentIdLast + 1) * MAX_FRAGMENT_SIZE else d.data.length

structure Slot where
  chan : Nat := 0
  cpl : Nat := 0
  wpl : Nat := 0
  data : Option (List Nat) := none
  entryFlag : Bool := false
  dataFlag : Bool := false
  marker : Option Nat := none
  asm : Asm := .opened
  deriving Repr, DecidableEq, Inhabited

structure Chan where
  base : Option Nat := none
  count : Nat := 0
  deriving Repr, DecidableEq, Inhabited

structure State where
  baseId : Nat
  endId : Nat
  windowSize : Nat
  slots : List (Nat × Slot)
  chans : List Chan
  readyFlags : List Bool      -- `channel_ready_flags`, one per channel
  windowReady : Bool
  alloc : Nat
  maxAlloc : Nat
  deriving Repr, DecidableEq, Inhabited

def init (windowSize baseId maxAlloc : Nat) : State :=
  { baseId := baseId, endId := baseId, windowSize := windowSize, slots := [],
    chans := List.replicate CHANNEL_COUNT {}, readyFlags := List.replicate CHANNEL_COUNT false,
    windowReady := false, alloc := 0, maxAlloc := allocCeil maxAlloc }

def getSlot (s : State) (i : Nat) : Slot :=
  match s.slots.find? (·.1 = i) with
  | some (_, x) => x
  | none => {}

def setSlot (s : State) (i : Nat) (x : Slot) : State :=
  { s with slots := (i, x) :: s.slots.filter (·.1 ≠ i) }

def widx (s : State) (seq : Nat) : Nat := seq % 2^32 % s.windowSize

def anyReady (s : State) : Bool := s.readyFlags.any id

/-- `AssemblyWindow::try_add` (on a datagram that passed `datagram_is_valid`). -/
def tryAdd (s : State) (i : Nat) (d : Datagram) : R (State × Option Packet) :=
  let sl := getSlot s i
  let pk (data : Option (List Nat)) : Packet :=
    { channelId := d.channelId, sequenceId := d.sequenceId, windowParentLead := d.windowParentLead,
      channelParentLead := d.channelParentLead, data := data }
  match sl.asm with
  | .opened =>
    let a := packetAllocSize d
    if s.alloc + a > s.maxAlloc then
      .ok (setSlot s i { sl with asm := .closed 0 }, some (pk none))
    else if d.fragmentIdLast = 0 then
      .ok ({ setSlot s i { sl with asm := .closed a } with alloc := s.alloc + a }, some (pk (some d.data)))
    else
      match (FragBuf.new (d.fragmentIdLast + 1)).write d.fragmentId d.data with
      | .error t => .error t
      | .ok buf =>
        .ok ({ setSlot s i { sl with asm := .active a d.channelId d.windowParentLead d.channelParentLead d.fragmentIdLast buf }
               with alloc := s.alloc + a }, none)
  | .closed _ => .ok (s, none)
  | .active a chan wpl cpl last buf =>
    if d.channelId ≠ chan ∨ d.windowParentLead ≠ wpl ∨ d.channelParentLead ≠ cpl ∨ d.fragmentIdLast ≠ last then .ok (s, none) else
    match buf.write d.fragmentId d.data with
    | .error t => .error t
    | .ok buf' =>
      if buf'.remaining = 0 then
        .ok (setSlot s i { sl with asm := .closed a }, some (pk (some buf'.finalize)))
      else
        .ok (setSlot s i { sl with asm := .active a chan wpl cpl last buf' }, none)

/-- `AssemblyWindow::clear`. -/
def clearAsm (s : State) (i : Nat) : R State :=
  let sl := getSlot s i
  match sl.asm with
  | .opened => .ok s
  | .closed a => if s.alloc < a then .error .overflow else .ok { setSlot s i { sl with asm := .opened } with alloc := s.alloc - a }
  | .active a _ _ _ _ _ => if s.alloc < a then .error .overflow else .ok { setSlot s i { sl with asm := .opened } with alloc := s.alloc - a }

def chanBase (s : State) (c : Nat) (base : Nat) : R Nat :=
  match s.chans[c]? with
  | none => .error .index
  | some ch => .ok (ch.base.getD base)   -- `channel.base_id.unwrap_or(base_id)`

/-- `handle_datagram`. -/
def handleDatagram (s : State) (d : Datagram) : R State :=
  if ¬ datagramIsValid d then .ok s else
  let base := s.baseId
  match chanBase s d.channelId base with
  | .error t => .error t
  | .ok cb =>
    let channelLead := pidSub cb base
    let packetLead := pidSub d.sequenceId base
    if packetLead ≥ s.windowSize then .ok s else
    if packetLead < channelLead then .ok s else
    let i := widx s d.sequenceId
    match tryAdd s i d with
    | .error t => .error t
    | .ok (s, none) => .ok s
    | .ok (s, some p) =>
      let sl := getSlot s i
      let s := setSlot s i { sl with chan := p.channelId, cpl := p.channelParentLead, wpl := p.windowParentLead,
                                     data := p.data, entryFlag := true, dataFlag := true }
      let s := if pidSub d.sequenceId s.endId < s.windowSize then { s with endId := pidAdd d.sequenceId 1 } else s
      let s := { s with chans := s.chans.modify d.channelId fun ch => { ch with count := ch.count + 1 } }
      let s := if p.channelParentLead = 0 ∨ p.channelParentLead > pidSub d.sequenceId cb
               then { s with readyFlags := s.readyFlags.set d.channelId true } else s
      let s := if p.windowParentLead = 0 ∨ p.windowParentLead > pidSub d.sequenceId base
               then { s with windowReady := true } else s
      .ok s

/-- `set_channel_base_id`. -/
def setChannelBase (s : State) (c : Nat) (newId : Nat) : R State :=
  match s.chans[c]? with
  | none => .error .index
  | some ch =>
    let s := match ch.base with
      | some b => let i := widx s b; setSlot s i { getSlot s i with marker := none }
      | none => s
    let j := widx s newId
    let s := setSlot s j { getSlot s j with marker := some c }
    .ok { s with chans := s.chans.set c { ch with base := some newId } }

/-- `try_unset_channel_base_id`. -/
def tryUnsetChannelBase (s : State) (seq : Nat) : R State :=
  let i := widx s seq
  let sl := getSlot s i
  match sl.marker with
  | none => .ok s
  | some c =>
    let s := setSlot s i { sl with marker := none }
    match s.chans[c]? with
    | none => .error .index
    | some ch => .ok { s with chans := s.chans.set c { ch with base := none } }

/-- A `while id != target { body(id); id = add(id, 1) }` loop over 20-bit ids. If `target` is
not reached within `SPAN + 1` increments it never is (the ids cycle): `Trap.hang`. -/
def idLoop (body : State → Nat → R State) : Nat → State → Nat → Nat → R State
  | 0, _, _, _ => .error .hang
  | fuel+1, s, id, target =>
    if id = target then .ok s else
    match body s id with
    | .error t => .error t
    | .ok s' => idLoop body fuel s' (pidAdd id 1) target

def loopFuel : Nat := PACKET_ID_SPAN + 2

/-- `advance_window`. -/
def advanceWindow (s : State) (newBase : Nat) : R State :=
  let delta := pidSub newBase s.baseId
  let s := if pidSub s.endId s.baseId < delta then { s with endId := newBase } else s
  let base := s.baseId
  match idLoop (fun s id =>
      let i := widx s id
      let sl := getSlot s i
      if sl.dataFlag then
        -- the window moves past a packet that was never delivered: release its data, fix the channel count
        match s.chans[sl.chan]? with
        | none => .error .index
        | some ch =>
          if ch.count = 0 then .error .overflow else
          let s := setSlot s i { sl with entryFlag := false, dataFlag := false, data := none }
          .ok { s with chans := s.chans.set sl.chan { ch with count := ch.count - 1 } }
      else .ok (setSlot s i { sl with entryFlag := false })) loopFuel s base newBase with
  | .error t => .error t
  | .ok s =>
    match idLoop (fun s id => clearAsm s (widx s id)) loopFuel s base newBase with
    | .error t => .error t
    | .ok s =>
      match idLoop (fun s id => tryUnsetChannelBase s (pidAdd id 1)) loopFuel s base newBase with
      | .error t => .error t
      | .ok s => .ok { s with baseId := newBase }

/-- Delivery pass of `receive`: returns the delivered payloads in order. -/
def deliverLoop (base : Nat) : Nat → State → Nat → Nat → List (List Nat) → R (State × List (List Nat))
  | 0, _, _, _, _ => .error .hang
  | fuel+1, s, seq, endId, out =>
    if seq = endId then .ok (s, out) else
    if ¬ anyReady s then .ok (s, out) else
    let i := widx s seq
    let sl := getSlot s i
    if sl.dataFlag then
      match s.readyFlags[sl.chan]? with
      | none => .error .overflow    -- `1u64 << channel_id` with channel_id ≥ 64
      | some false => deliverLoop base fuel s (pidAdd seq 1) endId out
      | some true =>
        match chanBase s sl.chan base with
        | .error t => .error t
        | .ok cb =>
          let delta := pidSub seq cb
          if sl.cpl = 0 ∨ sl.cpl > delta then
            -- a packet which exceeded the receive allocation has no data: passed over, not delivered
            let out := match sl.data with
              | none => out
              | some data => out ++ [data]
            let s := setSlot s i { sl with data := none, dataFlag := false }
            match s.chans[sl.chan]? with
            | none => .error .index
            | some ch =>
              if ch.count = 0 then .error .overflow else
              let s := { s with chans := s.chans.set sl.chan { ch with count := ch.count - 1 } }
              let s := if ch.count - 1 = 0 then { s with readyFlags := s.readyFlags.set sl.chan false } else s
              match setChannelBase s sl.chan (pidAdd seq 1) with
              | .error t => .error t
              | .ok s => deliverLoop base fuel s (pidAdd seq 1) endId out
          else
            deliverLoop base fuel { s with readyFlags := s.readyFlags.set sl.chan false } (pidAdd seq 1) endId out
    else deliverLoop base fuel s (pidAdd seq 1) endId out

/-- Window pass of `receive`: computes the new base id. -/
def windowLoop : Nat → State → Nat → Nat → Nat → R Nat
  | 0, _, _, _, _ => .error .hang
  | fuel+1, s, seq, endId, newBase =>
    if seq = endId then .ok newBase else
    let next := pidAdd seq 1
    let sl := getSlot s (widx s seq)
    if sl.entryFlag then
      if sl.wpl = 0 ∨ sl.wpl > pidSub seq newBase then windowLoop fuel s next endId next
      else .ok newBase
    else windowLoop fuel s next endId newBase

/-- `receive(sink)`. -/
def receive (s : State) : R (State × List (List Nat)) :=
  let base := s.baseId
  let endId := s.endId
  match deliverLoop base loopFuel s base endId [] with
  | .error t => .error t
  | .ok (s, out) =>
    if s.windowReady then
      let s := { s with windowReady := false }
      match windowLoop loopFuel s base endId base with
      | .error t => .error t
      | .ok nb =>
        match advanceWindow s nb with
        | .error t => .error t
        | .ok s => .ok (s, out)
    else .ok (s, out)

/-- Search loop of `resynchronize`. -/
def resyncLoop : Nat → State → Nat → Nat → R Nat
  | 0, _, _, _ => .error .hang
  | fuel+1, s, seq, target =>
    if seq = target then .ok seq else
    if (getSlot s (widx s seq)).entryFlag then .ok seq else
    resyncLoop fuel s (pidAdd seq 1) target

/-- `resynchronize(sender_next_id)`. -/
def resynchronize (s : State) (senderNext : Nat) : R State :=
  if senderNext % 2^32 % PACKET_ID_SPAN ≠ senderNext then .ok s else     -- `!packet_id::is_valid(..)`
  if pidSub senderNext s.baseId > s.windowSize then .ok s else
  match resyncLoop loopFuel s s.baseId senderNext with
  | .error t => .error t
  | .ok seq => advanceWindow s seq

/-- Bytes of packet data the receiver holds: assembly buffers at their allocated size plus
completed payloads not yet handed to the application (in or outside the window). -/
def held (s : State) : Nat :=
  (s.slots.map fun (_, sl) =>
    (match sl.data with | some d => d.length | none => 0) +
    (match sl.asm with | .active _ _ _ _ last _ => (last + 1) * MAX_FRAGMENT_SIZE | _ => 0)).sum

end Uflow.PRecv
