import Uflow.Model.Basic

/-!
M8 — model of `src/half_connection/send_rate.rs` and `recv_rate_set.rs` (TFRC sender).

Floating point (DESIGN.md 3.4): every place where the code computes with `f64` is one field of
`FloatOps F`. The executable instance (`Uflow/Driver/FloatInst.lean`) implements each field with
the same IEEE expression as the Rust code and is compared bit-for-bit by the correspondence
check; theorems quantify over *every* `FloatOps`, hence hold in particular for that instance.
-/

namespace Uflow.Rate

open Uflow.Gen

structure FloatOps (F : Type) where
  zero : F
  one : F
  /-- `(a + b) / 2.0` -/
  mid : F → F → F
  /-- `ms as f64 / 1000.0` -/
  msToS : Nat → F
  /-- `(v * 1000.0).max(0.0).round() as u64` -/
  sToMs : F → Nat
  /-- `a > b` -/
  gt : F → F → Bool
  /-- `a == b` (IEEE equality) -/
  feq : F → F → Bool
  /-- `(1.0 - 0.1) * rtt + 0.1 * sample` -/
  ewma : F → F → F
  /-- `(4.0 * rtt).max((2*MSS) as f64 / send_rate.max(1) as f64)` -/
  rto : F → Nat → F
  /-- `eval_tcp_throughput(rtt, p)` -/
  tcpRate : F → F → Nat
  /-- `(INITIAL_TCP_WINDOW as f64 / rtt) as u32` -/
  initRate : F → Nat
  /-- `((MSS/2) as f64 / rtt) as u32` -/
  initLossRate : F → Nat
  /-- `(x as f64 * 0.85) as u32` -/
  mul085 : Nat → Nat
  /-- `(x as f64 * 0.05) as u32` -/
  mul005 : Nat → Nat
  /-- `(total as f64 / ms_to_s(dt_ms)).clamp(0.0, u32::MAX as f64) as u32` -/
  recvRate : Nat → Nat → Nat
  /-- `compute_loss_rate` on the interval lengths, most recent first -/
  lossRate : List Nat → F
  /-- `(1.0 / p).clamp(0.0, u32::MAX as f64).round() as u32` -/
  lossResetLen : F → Nat
  /-- `let x = send_rate as f64 * dt.as_secs_f64() + frac; (x.floor() as isize, x - x.floor())`, dt in nanoseconds -/
  fillBytes : Nat → Nat → F → Int × F
  /-- `(send_rate as f64 * rtt_s.unwrap_or(0.0)).round() as isize` -/
  fillMax : Nat → Option F → Int

/-- `FeedbackData`. -/
structure Feedback (F : Type) where
  rttMs : Nat
  receiveRate : Nat
  lossRate : F
  rateLimited : Bool

structure RecvEntry where
  value : Nat
  ts : Nat
  isInitial : Bool
  deriving Repr, DecidableEq, Inhabited

inductive Mode where
  | awaitSend
  | slowStart (lastDoubled : Option Nat)
  | eqn (sendRateTcp : Nat)
  deriving Repr, DecidableEq, Inhabited

structure State (F : Type) where
  prevLossRate : F
  nofeedbackExp : Option Nat
  nofeedbackIdle : Bool
  mode : Mode
  sendRate : Nat
  maxSendRate : Nat
  recvSet : List RecvEntry
  rttS : Option F
  rttMs : Option Nat
  rtoMs : Option Nat

variable {F : Type}

def init (ops : FloatOps F) (maxSendRate : Nat) : State F :=
  { prevLossRate := ops.zero, nofeedbackExp := none, nofeedbackIdle := false, mode := .awaitSend,
    sendRate := MSS, maxSendRate := maxSendRate, recvSet := [], rttS := none, rttMs := none, rtoMs := none }

def u32max : Nat := 2^32 - 1

def satMul2 (x : Nat) : Nat := min (2 * x) u32max

/-- `RecvRateSet::max`: `first().unwrap()` panics on an empty set. -/
def setMax : List RecvEntry → R Nat
  | [] => .error .unwrap
  | e :: rest => .ok (rest.foldl (fun m x => if x.value > m then x.value else m) e.value)

/-- `replace_max`. -/
def replaceMax (set : List RecvEntry) (now recv : Nat) : R (List RecvEntry × Nat) :=
  let set := set.filter (fun e => ¬ e.isInitial)
  match set with
  | [] => .ok ([{ value := recv, ts := now, isInitial := false }], recv)
  | _ =>
    match setMax set with
    | .error t => .error t
    | .ok m => let mx := max m recv; .ok ([{ value := mx, ts := now, isInitial := false }], mx)

/-- `rate_limited_update`. -/
def rateLimitedUpdate (set : List RecvEntry) (now recv rttMs : Nat) : R (List RecvEntry × Nat) :=
  let set := set ++ [{ value := recv, ts := now, isInitial := false }]
  -- `now_ms - e.timestamp_ms` is a u64 subtraction
  if set.any (fun e => e.ts > now) then .error .overflow else
  let set := set.filter (fun e => now - e.ts ≤ 2 * rttMs)
  match setMax set with
  | .error t => .error t
  | .ok m => .ok (set, m)

/-- `loss_increase_update`. -/
def lossIncreaseUpdate (ops : FloatOps F) (set : List RecvEntry) (now recv : Nat) : R (List RecvEntry × Nat) :=
  replaceMax (set.map fun e => { e with value := e.value / 2 }) now (ops.mul085 recv)

/-- `notify_frame_sent`. -/
def notifyFrameSent (s : State F) (now : Nat) : State F :=
  match s.mode with
  | .awaitSend =>
    { s with nofeedbackExp := some (now + NOFEEDBACK_INITIAL_MS), mode := .slowStart none,
             recvSet := [{ value := u32max, ts := now, isInitial := true }], nofeedbackIdle := false }
  | _ => { s with nofeedbackIdle := false }

/-- `eval_tcp_throughput_inv`: bisection on `[0,1]`. The Rust loop has no iteration bound; after
`bisectFuel` halvings of a binary64 interval the midpoint no longer changes, so a run that has not
returned by then never returns (`Trap.hang`). -/
def bisectFuel : Nat := 2200

def tcpInv (ops : FloatOps F) (rtt : F) (target : Nat) : Nat → F → F → R F
  | 0, _, _ => .error .hang
  | fuel+1, a, b =>
    let delta := ops.mul005 target
    let c := ops.mid b a
    if ops.feq c a || ops.feq c b then .ok c else      -- the interval cannot be narrowed any further
    let rate := ops.tcpRate rtt c
    if rate > target then
      if rate - target ≤ delta then .ok c else tcpInv ops rtt target fuel c b
    else if rate < target then
      if target - rate ≤ delta then .ok c else tcpInv ops rtt target fuel a c
    else .ok c

/-- `update_rtt`. -/
def updateRtt (ops : FloatOps F) (s : State F) (sample : F) : State F × F × Nat :=
  let r := match s.rttS with
    | some r => ops.ewma r sample
    | none => sample
  let ms := ops.sToMs r
  ({ s with rttS := some r, rttMs := some ms }, r, ms)

/-- `update_rto`. -/
def updateRto (ops : FloatOps F) (s : State F) (rtt : F) (sendRate : Nat) : State F × F :=
  let rto := ops.rto rtt sendRate
  ({ s with rtoMs := some (ops.sToMs rto) }, rto)

/-- `handle_feedback`; the second component is the argument of the `reset_loss_rate` callback
if it was invoked. -/
def handleFeedback (ops : FloatOps F) (s : State F) (now : Nat) (fb : Feedback F) : R (State F × Option F) :=
  let (s, rttS, rttMs) := updateRtt ops s (ops.msToS fb.rttMs)
  let (s, rtoS) := updateRto ops s rttS s.sendRate
  let lossIncrease := ops.gt fb.lossRate s.prevLossRate
  let upd : R (List RecvEntry × Nat) :=
    if fb.rateLimited then
      (rateLimitedUpdate s.recvSet now fb.receiveRate rttMs).map fun (set, m) => (set, satMul2 m)
    else if lossIncrease then
      lossIncreaseUpdate ops s.recvSet now fb.receiveRate
    else
      (replaceMax s.recvSet now fb.receiveRate).map fun (set, m) => (set, satMul2 m)
  match upd with
  | .error t => .error t
  | .ok (set, recvLimit) =>
    let s := { s with recvSet := set, prevLossRate := fb.lossRate }
    let finish (s : State F) (reset : Option F) : R (State F × Option F) :=
      .ok ({ s with sendRate := min s.sendRate s.maxSendRate,
                    nofeedbackExp := some (now + ops.sToMs rtoS), nofeedbackIdle := true }, reset)
    match s.mode with
    | .slowStart lastDoubled =>
      if lossIncrease then
        let target := match lastDoubled with
          | none => ops.initLossRate rttS
          | some _ => s.sendRate / 2
        match tcpInv ops rttS target bisectFuel ops.zero ops.one with
        | .error t => .error t
        | .ok p =>
          finish { s with sendRate := max (min target recvLimit) MINIMUM_RATE, mode := .eqn target } (some p)
      else
        let initialRate := ops.initRate rttS
        match lastDoubled with
        | some t =>
          if now < t then .error .overflow else
          if now - t ≥ rttMs then
            finish { s with mode := .slowStart (some now), sendRate := max (min (satMul2 s.sendRate) recvLimit) initialRate } none
          else finish s none
        | none => finish { s with mode := .slowStart (some now), sendRate := initialRate } none
    | .eqn _ =>
      let tcp := ops.tcpRate rttS fb.lossRate
      finish { s with mode := .eqn tcp, sendRate := max (min tcp recvLimit) MINIMUM_RATE } none
    | .awaitSend => .error .panic

/-- `nofeedback_expired`. -/
def nofeedbackExpired (ops : FloatOps F) (s : State F) (now : Nat) : R (State F) :=
  let halve (s : State F) : State F := { s with sendRate := max (s.sendRate / 2) MINIMUM_RATE }
  let r : R (State F) :=
    match s.mode with
    | .slowStart _ =>
      match s.rttS with
      | some rtt =>
        let recover := ops.initRate rtt
        if s.nofeedbackIdle ∧ s.sendRate < satMul2 recover then .ok s else .ok (halve s)
      | none => .ok (halve s)
    | .eqn tcp =>
      match s.rttS with
      | none => .error .unwrap
      | some rtt =>
        let recover := ops.initRate rtt
        match setMax s.recvSet with
        | .error t => .error t
        | .ok recv =>
          if s.nofeedbackIdle ∧ recv < recover then .ok s else
          let cur := min tcp (satMul2 recv)
          let newLimit := max (cur / 2) MINIMUM_RATE
          .ok { s with recvSet := [{ value := newLimit / 2, ts := now, isInitial := false }],
                       sendRate := min (max (min tcp newLimit) MINIMUM_RATE) s.maxSendRate }
    | .awaitSend => .error .panic
  match r with
  | .error t => .error t
  | .ok s =>
    let (s, rto) := updateRto ops s (s.rttS.getD ops.zero) s.sendRate   -- `self.rtt_s.unwrap_or(0.0)`
    .ok { s with nofeedbackExp := some (now + ops.sToMs rto), nofeedbackIdle := true }

/-- `SendRateComp::step`. -/
def step (ops : FloatOps F) (s : State F) (now : Nat) (fb : Option (Feedback F)) : R (State F × Option F) :=
  match s.mode with
  | .awaitSend => .ok (s, none)
  | _ =>
    match fb with
    | some fb => handleFeedback ops s now fb
    | none =>
      match s.nofeedbackExp with
      | some exp => if now ≥ exp then (nofeedbackExpired ops s now).map (·, none) else .ok (s, none)
      | none => .ok (s, none)

end Uflow.Rate
