import Uflow.Gen.Consts

/-!
Shared vocabulary of the half-connection models: traps (3.2 of DESIGN.md), packet-id arithmetic
(`src/packet_id.rs`), send modes.
-/

namespace Uflow

open Uflow.Gen

/-- A Rust panic or non-termination, made an explicit outcome of the model. -/
inductive Trap where
  | unwrap      -- `Option::unwrap()` on `None`
  | index       -- slice / array / VecDeque index out of bounds
  | overflow    -- arithmetic overflow (the harness builds with overflow-checks = true)
  | assert      -- `debug_assert!` / `assert!` (only in the dbgassert profile)
  | panic       -- explicit `panic!()`
  | hang        -- a loop whose exit condition can never become true
  deriving Repr, DecidableEq, Inhabited

def Trap.name : Trap → String
  | .unwrap => "unwrap" | .index => "index" | .overflow => "overflow"
  | .assert => "assert" | .panic => "panic" | .hang => "hang"

abbrev R (α : Type) := Except Trap α

/-- `packet_id::add`. Arguments are u32; the wrapping add is then masked to 20 bits. -/
def pidAdd (a b : Nat) : Nat := (a + b) % 2^32 % PACKET_ID_SPAN

/-- `packet_id::sub`: `a.wrapping_sub(b) & MASK`. -/
def pidSub (a b : Nat) : Nat := (a + 2^32 - b % 2^32) % 2^32 % PACKET_ID_SPAN

/-- `u32::wrapping_sub`. -/
def wsub32 (a b : Nat) : Nat := (a % 2^32 + 2^32 - b % 2^32) % 2^32

/-- `u32::wrapping_add`. -/
def wadd32 (a b : Nat) : Nat := (a + b) % 2^32

inductive SendMode where
  | timeSensitive | unreliable | persistent | reliable
  deriving Repr, DecidableEq, Inhabited

def SendMode.ofNat? : Nat → Option SendMode
  | 0 => some .timeSensitive | 1 => some .unreliable | 2 => some .persistent | 3 => some .reliable
  | _ => none

def SendMode.toNat : SendMode → Nat
  | .timeSensitive => 0 | .unreliable => 1 | .persistent => 2 | .reliable => 3

/-- ⌈n / MAX_FRAGMENT_SIZE⌉ · MAX_FRAGMENT_SIZE, the rounding applied to allocation limits. -/
def allocCeil (n : Nat) : Nat :=
  ((n + MAX_FRAGMENT_SIZE - 1) / MAX_FRAGMENT_SIZE) * MAX_FRAGMENT_SIZE

end Uflow
