import Uflow.Model.Basic
import Uflow.Model.Codec
import Uflow.Model.HalfConn

/-!
M9 — model of `src/server/{mod,remote_client,event_queue}.rs` and `src/client/mod.rs` as pure step
functions over (virtual time, datagrams read from the socket in arrival order, API calls, nonce
draws). The half connection is an abstract parameter (`HC H`): every theorem about the endpoints
holds for any half-connection behaviour; the driver instantiates it with `Uflow.HalfConn`.

Addresses are `Nat`s. A datagram sent is `(destination address, bytes)`.
-/

namespace Uflow.Endpoint

open Uflow.Gen Uflow.Codec Uflow.HalfConn

/-- The operations the endpoints perform on a half connection. -/
structure HC (H : Type) where
  new : Config → Nat → H
  send : H → List Nat → Nat → SendMode → H
  dispatch : H → Frame → R H
  step : H → Nat → R H
  flush : H → Rng → R (H × Rng × List (List Nat))
  receive : H → R (H × List (List Nat))
  isSendPending : H → Bool
  sendBufferSize : H → Nat

/-- `EndpointConfig`. -/
structure EpConfig where
  maxSendRate : Nat
  maxReceiveRate : Nat
  maxPacketSize : Nat
  maxReceiveAlloc : Nat
  keepalive : Bool
  keepaliveIntervalMs : Nat
  activeTimeoutMs : Nat
  deriving Repr, DecidableEq, Inhabited

def u32 (x : Nat) : Nat := min x (2^32 - 1)      -- `.min(u32::MAX as usize) as u32`

inductive ErrorType where
  | timeout | version | config | serverFull
  deriving Repr, DecidableEq, Inhabited

inductive DisconnectMode where
  | now | flush
  deriving Repr, DecidableEq, Inhabited

/-! ## Server -/

structure SrvConfig where
  maxTotalConnections : Nat
  maxActiveConnections : Nat
  enableHandshakeErrors : Bool
  ep : EpConfig
  deriving Repr, DecidableEq, Inhabited

inductive SEvent where
  | connect (addr : Nat)
  | disconnect (addr : Nat)
  | receive (addr : Nat) (data : List Nat)
  | error (addr : Nat) (e : ErrorType)
  deriving Repr, DecidableEq, Inhabited

inductive RState (H : Type) where
  | pending (localNonce remoteNonce remoteMaxReceiveRate remoteMaxReceiveAlloc : Nat) (replyBytes : List Nat)
  | active (hc : H) (timeoutTimeMs : Nat) (signal : Option DisconnectMode)
  | closing
  | closed
  | fin

/-- A `RemoteClient` object. `cid` is its identity (`Rc` pointer): a new object for the same
address gets a new `cid`. -/
structure RClient (H : Type) where
  cid : Nat
  address : Nat
  state : RState H

inductive TimerKind where
  | resendSynAck | resendDisconnect | closedTimeout
  deriving Repr, DecidableEq, Inhabited

/-- `event_queue::Event` (ordered by `time`, reversed: a min-heap). -/
structure Timer where
  cid : Nat
  kind : TimerKind
  time : Nat
  count : Nat
  deriving Repr, DecidableEq, Inhabited

/-! The std binary heap (same algorithm as for the resend queue), on `Timer`. -/
def Timer.le (a b : Timer) : Bool := a.time ≥ b.time

def tSiftUp (h : Array Timer) (start pos : Nat) : Array Timer :=
  match h[pos]? with
  | none => h
  | some elt =>
    let rec go (fuel : Nat) (h : Array Timer) (pos : Nat) : Array Timer × Nat :=
      match fuel with
      | 0 => (h, pos)
      | fuel+1 =>
        if pos > start then
          let parent := (pos - 1) / 2
          match h[parent]? with
          | none => (h, pos)
          | some p => if elt.le p then (h, pos) else go fuel (h.setIfInBounds pos p) parent
        else (h, pos)
    let (h, pos) := go (h.size + 1) h pos
    h.setIfInBounds pos elt

def tSiftDown (h : Array Timer) : Array Timer :=
  let endI := h.size
  match h[0]? with
  | none => h
  | some elt =>
    let rec go (fuel : Nat) (h : Array Timer) (pos child : Nat) : Array Timer × Nat :=
      match fuel with
      | 0 => (h, pos)
      | fuel+1 =>
        if child ≤ endI - 2 ∧ endI ≥ 2 then
          match h[child]?, h[child + 1]? with
          | some a, some b =>
            let child := if a.le b then child + 1 else child
            match h[child]? with
            | some c => go fuel (h.setIfInBounds pos c) child (2 * child + 1)
            | none => (h, pos)
          | _, _ => (h, pos)
        else if child = endI - 1 ∧ endI ≥ 1 then
          match h[child]? with
          | some c => (h.setIfInBounds pos c, child)
          | none => (h, pos)
        else (h, pos)
    let (h, pos) := go (h.size + 1) h 0 1
    tSiftUp (h.setIfInBounds pos elt) 0 pos

def tPush (h : Array Timer) (e : Timer) : Array Timer :=
  let h := h.push e
  tSiftUp h 0 (h.size - 1)

def tPop (h : Array Timer) : Option (Timer × Array Timer) :=
  match h.back? with
  | none => none
  | some last =>
    let h := h.pop
    match h[0]? with
    | none => some (last, h)
    | some top => some (top, tSiftDown (h.setIfInBounds 0 last))

structure Server (H : Type) where
  cfg : SrvConfig
  /-- `clients: HashMap<SocketAddr, Rc<RefCell<RemoteClient>>>` (only get / insert / remove / len are used) -/
  clients : List (RClient H)
  /-- `active_clients: Vec<Rc<..>>`, by identity; an entry may outlive its removal from `clients` until the next `retain` -/
  active : List Nat
  /-- objects no longer in `clients` but still referenced from `active` or a timer -/
  detached : List (RClient H)
  timers : Array Timer
  timeBase : Nat
  nextCid : Nat
  eventsOut : List SEvent
  rng : Rng

/-- Everything an operation produces: datagrams sent and (for `step`) the events. -/
structure Out where
  sent : List (Nat × List Nat) := []

variable {H : Type}

def Server.init (cfg : SrvConfig) (now : Nat) (rng : Rng) : Server H :=
  { cfg := cfg, clients := [], active := [], detached := [], timers := #[], timeBase := now, nextCid := 0,
    eventsOut := [], rng := rng }

def Server.find (s : Server H) (addr : Nat) : Option (RClient H) := s.clients.find? (·.address = addr)

/-- Looks an object up by identity, in the map or among the detached ones. -/
def Server.byCid (s : Server H) (cid : Nat) : Option (RClient H) :=
  match s.clients.find? (·.cid = cid) with
  | some c => some c
  | none => s.detached.find? (·.cid = cid)

/-- Writes an object back wherever it lives. -/
def Server.put (s : Server H) (c : RClient H) : Server H :=
  if s.clients.any (·.cid = c.cid) then { s with clients := s.clients.map fun x => if x.cid = c.cid then c else x }
  else { s with detached := s.detached.map fun x => if x.cid = c.cid then c else x }

/-- `state = Fin; clients.remove(addr)`: the object stays reachable through `active`/timers. -/
def Server.finish (s : Server H) (c : RClient H) : Server H :=
  let c' : RClient H := { c with state := .fin }
  if s.clients.any (·.cid = c.cid) then
    -- `self.clients.remove(&client.address)` removes whatever object is mapped at that address
    { s with clients := s.clients.filter (·.address ≠ c.address), detached := c' :: s.detached }
  else
    { s with clients := s.clients.filter (·.address ≠ c.address), detached := s.detached.map fun x => if x.cid = c.cid then c' else x }

/-- Entries of the map that are active or may still become active (pending handshakes). -/
def Server.activeCount (s : Server H) : Nat :=
  (s.clients.filter fun c => match c.state with
    | .pending .. => true
    | .active .. => true
    | _ => false).length

def errFrame (nonce : Nat) (e : HsError) : List Nat := encode (.hsError nonce e)

/-- `handle_handshake_syn`. -/
def Server.handleSyn (s : Server H) (addr : Nat) (version nonce maxRecvRate maxPacketSize maxRecvAlloc : Nat) (nowMs : Nat) :
    Server H × List (Nat × List Nat) :=
  match s.find addr with
  | some _ => (s, [])
  | none =>
    let refuse (e : HsError) (ev : ErrorType) : Server H × List (Nat × List Nat) :=
      ({ s with eventsOut := if s.cfg.enableHandshakeErrors then s.eventsOut ++ [SEvent.error addr ev] else s.eventsOut },
       [(addr, errFrame nonce e)])
    if version ≠ PROTOCOL_VERSION then refuse .version .version
    else if s.clients.length ≥ s.cfg.maxTotalConnections ∨ s.activeCount ≥ s.cfg.maxActiveConnections then refuse .serverFull .serverFull
    else if maxRecvAlloc < s.cfg.ep.maxPacketSize then refuse .config .config
    else if maxPacketSize > s.cfg.ep.maxReceiveAlloc then refuse .config .config
    else
      let (v, rng) := s.rng.next
      let localNonce := v % 2^32
      let reply := encode (.synAck nonce localNonce (u32 s.cfg.ep.maxReceiveRate) (u32 s.cfg.ep.maxPacketSize) (u32 s.cfg.ep.maxReceiveAlloc))
      let c : RClient H := { cid := s.nextCid, address := addr,
                             state := .pending localNonce nonce maxRecvRate maxRecvAlloc reply }
      ({ s with rng := rng, nextCid := s.nextCid + 1, clients := s.clients ++ [c],
                timers := tPush s.timers { cid := c.cid, kind := .resendSynAck, time := nowMs + SERVER_HANDSHAKE_RESEND_INTERVAL_MS,
                                           count := SERVER_HANDSHAKE_RESEND_COUNT } },
       [(addr, reply)])

/-- The half-connection configuration both sides derive from the handshake. -/
def hcConfig (ep : EpConfig) (localNonce remoteNonce remoteMaxRecvRate remoteMaxRecvAlloc : Nat) : Config :=
  { txFrameWindowSize := MAX_FRAME_WINDOW_SIZE, rxFrameWindowSize := MAX_FRAME_WINDOW_SIZE,
    txFrameBaseId := localNonce, rxFrameBaseId := remoteNonce,
    txPacketWindowSize := MAX_PACKET_WINDOW_SIZE, rxPacketWindowSize := MAX_PACKET_WINDOW_SIZE,
    txPacketBaseId := localNonce % PACKET_ID_SPAN, rxPacketBaseId := remoteNonce % PACKET_ID_SPAN,
    txBandwidthLimit := min (ep.maxSendRate % 2^32) remoteMaxRecvRate,      -- `(max_send_rate as u32).min(..)`
    txAllocLimit := remoteMaxRecvAlloc, rxAllocLimit := ep.maxReceiveAlloc,
    keepaliveIntervalMs := if ep.keepalive then some ep.keepaliveIntervalMs else none }

/-- `handle_handshake_ack`. -/
def Server.handleHsAck (hc : HC H) (s : Server H) (addr nonceAck nowMs nowNs : Nat) : Server H :=
  match s.find addr with
  | none => s
  | some c =>
    match c.state with
    | .pending localNonce remoteNonce rate alloc _ =>
      if nonceAck = localNonce then
        let h := hc.new (hcConfig s.cfg.ep localNonce remoteNonce rate alloc) nowNs
        let s := s.put { c with state := .active h (nowMs + s.cfg.ep.activeTimeoutMs) none }
        { s with active := s.active ++ [c.cid], eventsOut := s.eventsOut ++ [SEvent.connect addr] }
      else s
    | _ => s

def discAck : List Nat := encode .disconnectAck
def discReq : List Nat := encode .disconnect

/-- `handle_disconnect`. -/
def Server.handleDisconnect (hc : HC H) (s : Server H) (addr nowMs : Nat) : R (Server H × List (Nat × List Nat)) :=
  match s.find addr with
  | none => .ok (s, [])
  | some c =>
    let close (s : Server H) : Server H :=
      let s := s.put { c with state := .closed }
      { s with eventsOut := s.eventsOut ++ [SEvent.disconnect addr],
               timers := tPush s.timers { cid := c.cid, kind := .closedTimeout, time := nowMs + SERVER_CLOSED_TIMEOUT_MS, count := 0 } }
    match c.state with
    | .pending .. => .ok (s, [])
    | .active h _ _ =>
      match hc.receive h with
      | .error t => .error t
      | .ok (_, pkts) =>
        let s := { s with eventsOut := s.eventsOut ++ pkts.map (SEvent.receive addr) }
        .ok (close s, [(addr, discAck)])
    | .closing => .ok (close s, [(addr, discAck)])
    | .closed => .ok (s, [(addr, discAck)])
    | .fin => .ok (s, [])

/-- `handle_disconnect_ack`. -/
def Server.handleDisconnectAck (s : Server H) (addr : Nat) : Server H :=
  match s.find addr with
  | none => s
  | some c =>
    match c.state with
    | .closing =>
      let s := { s with eventsOut := s.eventsOut ++ [SEvent.disconnect addr] }
      s.finish c
    | _ => s

/-- `handle_data` / `handle_ack` / `handle_sync`. -/
def Server.handleTraffic (hc : HC H) (s : Server H) (addr : Nat) (f : Frame) (nowMs : Nat) : R (Server H) :=
  match s.find addr with
  | none => .ok s
  | some c =>
    match c.state with
    | .active h _ sig =>
      match hc.dispatch h f with
      | .error t => .error t
      | .ok h' => .ok (s.put { c with state := .active h' (nowMs + s.cfg.ep.activeTimeoutMs) sig })
    | _ => .ok s

/-- `handle_frame`. -/
def Server.handleFrame (hc : HC H) (s : Server H) (addr : Nat) (f : Frame) (nowMs nowNs : Nat) : R (Server H × List (Nat × List Nat)) :=
  match f with
  | .syn v n r p a => .ok (s.handleSyn addr v n r p a nowMs)
  | .hsAck na => .ok (s.handleHsAck hc addr na nowMs nowNs, [])
  | .synAck .. => .ok (s, [])
  | .hsError .. => .ok (s, [])
  | .disconnect => s.handleDisconnect hc addr nowMs
  | .disconnectAck => .ok (s.handleDisconnectAck addr, [])
  | .data .. => (s.handleTraffic hc addr f nowMs).map (·, [])
  | .sync .. => (s.handleTraffic hc addr f nowMs).map (·, [])
  | .ack .. => (s.handleTraffic hc addr f nowMs).map (·, [])

/-- `handle_frames`: every datagram read from the socket, in arrival order. -/
def Server.handleFrames (hc : HC H) (s : Server H) (arrivals : List (Nat × List Nat)) (nowMs nowNs : Nat) : R (Server H × List (Nat × List Nat)) :=
  arrivals.foldlM (fun (acc : Server H × List (Nat × List Nat)) (a : Nat × List Nat) =>
    -- the receive buffer is MAX_FRAME_SIZE bytes: longer datagrams are truncated by `recv_from`
    let bytes := a.2.take MAX_FRAME_SIZE
    match decode bytes with
    | none => .ok acc
    | some f =>
      match acc.1.handleFrame hc a.1 f nowMs nowNs with
      | .error t => .error t
      | .ok (s', sent) => .ok (s', acc.2 ++ sent)) (s, [])

/-- `handle_event`. -/
def Server.handleTimer (s : Server H) (t : Timer) (nowMs : Nat) : Server H × List (Nat × List Nat) :=
  match s.byCid t.cid with
  | none => (s, [])
  | some c =>
    match c.state with
    | .pending _ _ _ _ reply =>
      if t.kind = .resendSynAck then
        if t.count > 0 then
          ({ s with timers := tPush s.timers { t with count := t.count - 1, time := nowMs + SERVER_HANDSHAKE_RESEND_INTERVAL_MS } },
           [(c.address, reply)])
        else
          let s := { s with eventsOut := if s.cfg.enableHandshakeErrors then s.eventsOut ++ [SEvent.error c.address .timeout] else s.eventsOut }
          (s.finish c, [])
      else (s, [])
    | .closing =>
      if t.kind = .resendDisconnect then
        if t.count > 0 then
          ({ s with timers := tPush s.timers { t with count := t.count - 1, time := nowMs + SERVER_DISCONNECT_RESEND_INTERVAL_MS } },
           [(c.address, discReq)])
        else
          let s := { s with eventsOut := s.eventsOut ++ [SEvent.error c.address .timeout] }
          (s.finish c, [])
      else (s, [])
    | .closed =>
      if t.kind = .closedTimeout then (s.finish c, []) else (s, [])
    | _ => (s, [])

/-- The `while let Some(event) = self.client_events.peek()` loop of `handle_events`. -/
def Server.runTimers : Nat → Server H → Nat → List (Nat × List Nat) → Server H × List (Nat × List Nat)
  | 0, s, _, sent => (s, sent)
  | fuel+1, s, nowMs, sent =>
    match s.timers[0]? with
    | none => (s, sent)
    | some top =>
      if top.time > nowMs then (s, sent) else
      match tPop s.timers with
      | none => (s, sent)
      | some (t, h) =>
        let (s', out) := ({ s with timers := h } : Server H).handleTimer t nowMs
        Server.runTimers fuel s' nowMs (sent ++ out)

/-- Second half of `handle_events`: active timeouts. -/
def Server.activeTimeouts (hc : HC H) (s : Server H) (nowMs : Nat) : R (Server H) :=
  s.active.foldlM (fun (s : Server H) cid =>
    match s.byCid cid with
    | none => .ok s
    | some c =>
      match c.state with
      | .active h timeout _ =>
        if nowMs ≥ timeout then
          match hc.receive h with
          | .error t => .error t
          | .ok (_, pkts) =>
            let s := { s with eventsOut := s.eventsOut ++ pkts.map (SEvent.receive c.address) ++ [SEvent.error c.address .timeout] }
            .ok (s.finish c)
        else .ok s
      | _ => .ok s) s

/-- `step_active_clients`. -/
def Server.stepActive (hc : HC H) (s : Server H) (nowMs nowNs : Nat) : R (Server H × List (Nat × List Nat)) :=
  s.active.foldlM (fun (acc : Server H × List (Nat × List Nat)) cid =>
    let s := acc.1
    match s.byCid cid with
    | none => .ok acc
    | some c =>
      match c.state with
      | .active h timeout sig =>
        let disconnectNow := match sig with
          | some .now => true
          | some .flush => !hc.isSendPending h
          | none => false
        if disconnectNow then
          match hc.receive h with
          | .error t => .error t
          | .ok (_, pkts) =>
            let s := { s with eventsOut := s.eventsOut ++ pkts.map (SEvent.receive c.address) }
            let s := s.put { c with state := .closing }
            .ok ({ s with timers := tPush s.timers { cid := c.cid, kind := .resendDisconnect,
                                                     time := nowMs + SERVER_DISCONNECT_RESEND_INTERVAL_MS, count := SERVER_DISCONNECT_RESEND_COUNT } },
                 acc.2 ++ [(c.address, discReq)])
        else
          match hc.step h nowNs with
          | .error t => .error t
          | .ok h =>
            match hc.receive h with
            | .error t => .error t
            | .ok (h, pkts) =>
              let s := s.put { c with state := .active h timeout sig }
              .ok ({ s with eventsOut := s.eventsOut ++ pkts.map (SEvent.receive c.address) }, acc.2)
      | _ => .ok acc) (s, [])

/-- `flush_active_clients`. -/
def Server.flushActive (hc : HC H) (s : Server H) : R (Server H × List (Nat × List Nat)) :=
  s.active.foldlM (fun (acc : Server H × List (Nat × List Nat)) cid =>
    let s := acc.1
    match s.byCid cid with
    | none => .ok acc
    | some c =>
      match c.state with
      | .active h timeout sig =>
        match hc.flush h s.rng with
        | .error t => .error t
        | .ok (h, rng, frames) =>
          let s := ({ s with rng := rng } : Server H).put { c with state := .active h timeout sig }
          .ok (s, acc.2 ++ frames.map fun f => (c.address, f))
      | _ => .ok acc) (s, [])

def RState.isActive : RState H → Bool
  | .active .. => true
  | _ => false

/-- `Server::step`: returns the new state, the datagrams sent (in order) and the events. -/
def Server.step (hc : HC H) (s : Server H) (nowNs : Nat) (arrivals : List (Nat × List Nat)) :
    R (Server H × List (Nat × List Nat) × List SEvent) :=
  let nowMs := (nowNs - s.timeBase) / 1000000
  match s.flushActive hc with
  | .error t => .error t
  | .ok (s, sent1) =>
    match s.handleFrames hc arrivals nowMs nowNs with
    | .error t => .error t
    | .ok (s, sent2) =>
      let (s, sent3) := Server.runTimers (s.timers.size * 12 + 16) s nowMs []
      match s.activeTimeouts hc nowMs with
      | .error t => .error t
      | .ok s =>
        -- `self.active_clients.retain(|client| client.borrow().is_active())`
        let act := s.active.filter fun cid => match s.byCid cid with
          | some c => c.state.isActive
          | none => false
        -- objects referenced by nobody any more can be forgotten
        let s := { s with active := act,
                          detached := s.detached.filter fun c => act.contains c.cid || s.timers.any (·.cid = c.cid) }
        match s.stepActive hc nowMs nowNs with
        | .error t => .error t
        | .ok (s, sent4) =>
          .ok ({ s with eventsOut := [] }, sent1 ++ sent2 ++ sent3 ++ sent4, s.eventsOut)

/-- `Server::flush`. -/
def Server.flush (hc : HC H) (s : Server H) : R (Server H × List (Nat × List Nat)) := s.flushActive hc

/-- `Server::drop(addr)`. -/
def Server.drop (s : Server H) (addr : Nat) : Server H :=
  match s.find addr with
  | some c => s.finish c
  | none => s

/-- `RemoteClient::send` (the size/channel assertions are the caller's obligation). -/
def Server.send (hc : HC H) (s : Server H) (addr : Nat) (data : List Nat) (chan : Nat) (mode : SendMode) : Server H :=
  match s.find addr with
  | some c =>
    match c.state with
    | .active h t sig => s.put { c with state := .active (hc.send h data chan mode) t sig }
    | _ => s
  | none => s

def Server.disconnect (s : Server H) (addr : Nat) (m : DisconnectMode) : Server H :=
  match s.find addr with
  | some c =>
    match c.state with
    | .active h t _ => s.put { c with state := .active h t (some m) }
    | _ => s
  | none => s

/-! ## Client -/

inductive CEvent where
  | connect
  | disconnect
  | receive (data : List Nat)
  | error (e : ErrorType)
  deriving Repr, DecidableEq, Inhabited

inductive CState (H : Type) where
  | pending (localNonce : Nat) (requestBytes : List Nat) (resendTimeMs resendCount : Nat) (initialSends : List (List Nat × Nat × SendMode))
  | active (localNonce : Nat) (hc : H) (timeoutTimeMs : Nat) (signal : Option DisconnectMode)
  | closing (requestBytes : List Nat) (resendTimeMs resendCount : Nat)
  | closed (timeoutTimeMs : Nat)
  | fin

structure Client (H : Type) where
  ep : EpConfig
  timeBase : Nat
  state : CState H
  eventsOut : List CEvent
  rng : Rng

/-- `Client::connect`: returns the client and the SYN it sends. -/
def Client.connect (ep : EpConfig) (now : Nat) (rng : Rng) : Client H × List (List Nat) :=
  let (v, rng) := rng.next
  let nonce := v % 2^32
  let req := encode (.syn PROTOCOL_VERSION nonce (u32 ep.maxReceiveRate) (u32 ep.maxPacketSize) (u32 ep.maxReceiveAlloc))
  ({ ep := ep, timeBase := now, eventsOut := [], rng := rng,
     state := .pending nonce req CLIENT_HANDSHAKE_RESEND_INTERVAL_MS CLIENT_HANDSHAKE_RESEND_COUNT [] }, [req])

def errOfHs : HsError → ErrorType
  | .version => .version | .config => .config | .serverFull => .serverFull

/-- `handle_frame` of the client. -/
def Client.handleFrame (hc : HC H) (c : Client H) (f : Frame) (nowMs nowNs : Nat) : R (Client H × List (List Nat)) :=
  match f with
  | .syn .. => .ok (c, [])
  | .hsAck _ => .ok (c, [])
  | .synAck nonceAck nonce maxRecvRate _ maxRecvAlloc =>
    match c.state with
    | .pending localNonce _ _ _ sends =>
      if nonceAck = localNonce then
        let h := hc.new (hcConfig c.ep localNonce nonce maxRecvRate maxRecvAlloc) nowNs
        let h := sends.foldl (fun h (e : List Nat × Nat × SendMode) => hc.send h e.1 e.2.1 e.2.2) h
        .ok ({ c with eventsOut := c.eventsOut ++ [CEvent.connect],
                      -- `timeout_time_ms: self.config.endpoint_config.active_timeout_ms`: absolute, as written in
                      -- the code (known finding F9: the deadline should be `now_ms + active_timeout_ms`)
                      state := .active localNonce h c.ep.activeTimeoutMs none },
             [encode (.hsAck nonce)])
      else .ok (c, [])
    | .active localNonce _ _ _ =>
      if nonceAck = localNonce then .ok (c, [encode (.hsAck nonce)]) else .ok (c, [])
    | _ => .ok (c, [])
  | .hsError nonceAck e =>
    match c.state with
    | .pending localNonce _ _ _ _ =>
      if nonceAck = localNonce then .ok ({ c with eventsOut := c.eventsOut ++ [CEvent.error (errOfHs e)], state := .fin }, [])
      else .ok (c, [])
    | _ => .ok (c, [])
  | .disconnect =>
    match c.state with
    | .pending .. => .ok (c, [])
    | .active _ h _ _ =>
      match hc.receive h with
      | .error t => .error t
      | .ok (_, pkts) =>
        .ok ({ c with eventsOut := c.eventsOut ++ pkts.map CEvent.receive ++ [CEvent.disconnect],
                      state := .closed (nowMs + CLIENT_CLOSED_TIMEOUT_MS) }, [discAck])
    | .closing .. =>
      .ok ({ c with eventsOut := c.eventsOut ++ [CEvent.disconnect], state := .closed (nowMs + CLIENT_CLOSED_TIMEOUT_MS) }, [discAck])
    | .closed _ => .ok (c, [discAck])
    | .fin => .ok (c, [])
  | .disconnectAck =>
    match c.state with
    | .closing .. => .ok ({ c with eventsOut := c.eventsOut ++ [CEvent.disconnect], state := .fin }, [])
    | _ => .ok (c, [])
  | f =>
    match c.state with
    | .active ln h _ sig =>
      match hc.dispatch h f with
      | .error t => .error t
      | .ok h' => .ok ({ c with state := .active ln h' (nowMs + c.ep.activeTimeoutMs) sig }, [])
    | _ => .ok (c, [])

/-- `handle_events` of the client. -/
def Client.handleEvents (c : Client H) (nowMs : Nat) : Client H × List (List Nat) :=
  match c.state with
  | .pending ln req resendTime resendCount sends =>
    if nowMs ≥ resendTime then
      if resendCount > 0 then
        ({ c with state := .pending ln req (nowMs + CLIENT_HANDSHAKE_RESEND_INTERVAL_MS) (resendCount - 1) sends }, [req])
      else ({ c with eventsOut := c.eventsOut ++ [CEvent.error .timeout], state := .fin }, [])
    else (c, [])
  | .active _ _ timeout _ =>
    if nowMs ≥ timeout then ({ c with eventsOut := c.eventsOut ++ [CEvent.error .timeout], state := .fin }, []) else (c, [])
  | .closing req resendTime resendCount =>
    if nowMs ≥ resendTime then
      if resendCount > 0 then
        ({ c with state := .closing req (nowMs + CLIENT_DISCONNECT_RESEND_INTERVAL_MS) (resendCount - 1) }, [req])
      else ({ c with eventsOut := c.eventsOut ++ [CEvent.error .timeout], state := .fin }, [])
    else (c, [])
  | .closed timeout => if nowMs ≥ timeout then ({ c with state := .fin }, []) else (c, [])
  | .fin => (c, [])

/-- `Client::step`. -/
def Client.step (hc : HC H) (c : Client H) (nowNs : Nat) (arrivals : List (List Nat)) : R (Client H × List (List Nat) × List CEvent) :=
  let nowMs := (nowNs - c.timeBase) / 1000000
  -- flush_if_active
  let r1 : R (Client H × List (List Nat)) := match c.state with
    | .active ln h t sig =>
      match hc.flush h c.rng with
      | .error e => .error e
      | .ok (h, rng, frames) => .ok ({ c with rng := rng, state := .active ln h t sig }, frames)
    | _ => .ok (c, [])
  match r1 with
  | .error e => .error e
  | .ok (c, sent1) =>
    let r2 : R (Client H × List (List Nat)) := arrivals.foldlM (fun (acc : Client H × List (List Nat)) bytes =>
      match decode (bytes.take MAX_FRAME_SIZE) with
      | none => .ok acc
      | some f =>
        match acc.1.handleFrame hc f nowMs nowNs with
        | .error e => .error e
        | .ok (c', out) => .ok (c', acc.2 ++ out)) (c, [])
    match r2 with
    | .error e => .error e
    | .ok (c, sent2) =>
      let (c, sent3) := c.handleEvents nowMs
      -- step_if_active
      let r4 : R (Client H × List (List Nat)) := match c.state with
        | .active ln h t sig =>
          let disconnectNow := match sig with
            | some .now => true
            | some .flush => !hc.isSendPending h
            | none => false
          if disconnectNow then
            match hc.receive h with
            | .error e => .error e
            | .ok (_, pkts) =>
              .ok ({ c with eventsOut := c.eventsOut ++ pkts.map CEvent.receive,
                            state := .closing discReq (nowMs + CLIENT_DISCONNECT_RESEND_INTERVAL_MS) CLIENT_DISCONNECT_RESEND_COUNT }, [discReq])
          else
            match hc.step h nowNs with
            | .error e => .error e
            | .ok h =>
              match hc.receive h with
              | .error e => .error e
              | .ok (h, pkts) => .ok ({ c with eventsOut := c.eventsOut ++ pkts.map CEvent.receive, state := .active ln h t sig }, [])
        | _ => .ok (c, [])
      match r4 with
      | .error e => .error e
      | .ok (c, sent4) => .ok ({ c with eventsOut := [] }, sent1 ++ sent2 ++ sent3 ++ sent4, c.eventsOut)

def Client.flush (hc : HC H) (c : Client H) : R (Client H × List (List Nat)) :=
  match c.state with
  | .active ln h t sig =>
    match hc.flush h c.rng with
    | .error e => .error e
    | .ok (h, rng, frames) => .ok ({ c with rng := rng, state := .active ln h t sig }, frames)
  | _ => .ok (c, [])

def Client.send (hc : HC H) (c : Client H) (data : List Nat) (chan : Nat) (mode : SendMode) : Client H :=
  match c.state with
  | .pending ln req rt rc sends => { c with state := .pending ln req rt rc (sends ++ [(data, chan, mode)]) }
  | .active ln h t sig => { c with state := .active ln (hc.send h data chan mode) t sig }
  | _ => c

def Client.disconnect (c : Client H) (m : DisconnectMode) : Client H :=
  match c.state with
  | .pending .. => { c with state := .fin }
  | .active ln h t _ => { c with state := .active ln h t (some m) }
  | _ => c

end Uflow.Endpoint
