import Uflow.Props.C01AgeFrames

open Uflow.Props.C01

#print axioms C01_hc_link_fails_witness
#print axioms C01_hc_ids_consumed_without_data_frames_witness
#print axioms C01_hc_link_witness_hyps
#print axioms C01_hc_full_window_without_data_frames_witness
