import Uflow.Props.C05Sys
open Uflow.Props.C05
#print axioms C05_sys_ideal_spec
#print axioms C05_sys_ideal_reach
#print axioms C05_sys_ideal_fresh
#print axioms C05_sys_ideal_prefix
#print axioms C05_sys_ideal_complete
#print axioms C05_sys_ideal
#print axioms C05_sys_reorder_witness
#print axioms C05_sys_late_witness
#print axioms C05_sys_window_witness
#print axioms C05_sys_alloc_witness
#print axioms C05_sys_ideal_example
