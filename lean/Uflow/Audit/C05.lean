import Uflow.Props.C05
open Uflow.Props.C05
#print axioms C05_pidSub_lt
