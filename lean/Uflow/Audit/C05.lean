import Uflow.Props.C05
open Uflow.Props.C05
#print axioms C05_pidSub_lt
#print axioms C05_ghost_run_state
#print axioms C05_ghost_entry_sound
#print axioms C05_emit_order
#print axioms C05_emitted_sublist
#print axioms C05_ids_consecutive
#print axioms C05_ids_distinct
#print axioms C05_ids_consecutive_needs_valid_base
#print axioms C05_window_bound
#print axioms C05_alloc_bound
#print axioms Uflow.PSend.histOps_run
