import Uflow.Props.C01Age

open Uflow.Props.C01

#print axioms C01_hc_guarded_of_age
#print axioms C01_hc_guarded_of_age_2_18
#print axioms C01_hc_age_stamps
#print axioms C01_hc_delivery_aged
#print axioms C01_hc_sync_ok_aged
#print axioms C01_hc_age_checker
#print axioms C01_hc_age_erase
#print axioms C01_hc_guarded_of_frame_age_partial
#print axioms C01_hc_age_examples
#print axioms C01_hc_age_example_stamps
#print axioms C01_hc_age_example_hyps
#print axioms C01_hc_frame_age_examples
