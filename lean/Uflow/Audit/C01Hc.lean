import Uflow.Props.C01Hc
open Uflow.Props.C01
#print axioms C01_hc_reach
#print axioms C01_hc_pend_is_emit_history
#print axioms C01_hc_dispatch
#print axioms C01_hc_datagrams_genuine
#print axioms C01_hc_wire_genuine
#print axioms C01_hc_acks_genuine
#print axioms C01_hc_ack_wire_genuine
#print axioms C01_hc_refines_sys
#print axioms C01_hc_guarded_checker
#print axioms C01_hc_guarded_of_few
#print axioms C01_hc_emitted_pend
#print axioms C01_hc_in_order
#print axioms C01_hc_at_most_once
#print axioms C01_hc_byte_exact
#print axioms C02_hc_no_skip
#print axioms C01_hc_delivery
#print axioms C01_hc_example
#print axioms C01_hc_example_hyps
#print axioms C01_hc_resync_witness
