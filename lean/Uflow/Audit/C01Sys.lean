import Uflow.Props.C01Sys
open Uflow.Props.C01Sys
#print axioms C01_sys_projects
#print axioms C01_sys_reach
#print axioms C01_sys_log_is_receive_output
#print axioms C01_sys_link
#print axioms C01_sys_delivered_is_emitted
#print axioms C01_sys_at_most_once
#print axioms C01_sys_in_order
#print axioms C02_sys_no_skip
#print axioms C02_sys_window_waits_for_reliable
#print axioms C02_sys_reach_delivery
#print axioms C02_sys_reliable_taken_before_passed
#print axioms C02_sys_no_skip_full
#print axioms C02_sys_reach_alloc
#print axioms C01_sys_delivered_payload
#print axioms C02_sys_reliable_delivered_before_passed
#print axioms C02_sys_refused_witness
#print axioms C01_sys_fresh_of_recent
#print axioms C01_sys_fresh_automatic_noack
#print axioms C01_sys_example
#print axioms C01_sys_syncs_genuine
#print axioms C02_sys_synced_reliable_received
#print axioms C02_sys_resync_keeps_reliable
#print axioms C01_sys_syncfresh_of_recent
#print axioms C01_sys_sync_example
