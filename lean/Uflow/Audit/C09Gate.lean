import Uflow.Props.C09Gate

open Uflow.Props.C09

#print axioms C09_sys_receive_delivers_complete_reliable
#print axioms C09_hc_gate_then_receive
#print axioms C09_hc_gate_then_receive_run
#print axioms C09_gate_open_then_receive_client
#print axioms C09_gate_open_then_receive_server
#print axioms C09_hc_gate_example
#print axioms C09_hc_gate_example_hyps
#print axioms C09_hc_gate_base_not_passed_witness
