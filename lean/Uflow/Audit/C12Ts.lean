import Uflow.Props.C12Ts

open Uflow.Props.C12

#print axioms C12_ack_reports_logged_refs
#print axioms C12_dfePush_refs
#print axioms C12_runInv_init
#print axioms C12_runInv_event
#print axioms C12_runInv_run
#print axioms C12_refs_pushed
#print axioms C12_runT_erase
#print axioms C12_ts_drop_from
#print axioms C12_ts_drop
#print axioms C12_ts_drop_append
#print axioms C12_stale_distance
#print axioms exEvsTs_run
#print axioms C12_ts_drop_wrap_witness
#print axioms C12_ts_drop_wrap_reachable_witness
