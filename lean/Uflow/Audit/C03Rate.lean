import Uflow.Props.C03Rate
open Uflow.Props.C03
#print axioms C03_rate_notrap
#print axioms C03_rate_notrap_conv
#print axioms C03_rate_error_cases
#print axioms C03_rate_inv_init
#print axioms C03_rate_inv_sent
#print axioms C03_rate_inv_step
#print axioms C03_rate_run_notrap
#print axioms C03_rate_run_only_hang
#print axioms C03_rate_run_inv
#print axioms C03_tcpInv_terminates
#print axioms C03_tcpInv_terminates_path
#print axioms C03_tcpInv_only_hang
#print axioms C03_rate_saturate_example
#print axioms C03_rate_time_witness
#print axioms C03_rate_hang_witness
