import Uflow.Props.C17Timeout
open Uflow.Props.C17
#print axioms C17_timeout_releases_slot
#print axioms C17_timeout_ignores_signal
#print axioms C17_timeout_loop_releases
#print axioms C17_timeout_release_counts
#print axioms C17_slot_reusable
