import Uflow.Props.C01
open Uflow.Props.C01
#print axioms C01_pidSub_lt
#print axioms C01_receiveT_erase
#print axioms C01_runT_erase
#print axioms C01_runT_total
#print axioms C01_log_is_receive_output
#print axioms C01_reach
#print axioms C01_base_tracks_adv
#print axioms C01_delivered_in_window
#print axioms C01_data_flag_only_from_accepted_datagram
#print axioms C01_channel_ids_increase
#print axioms C01_channel_ids_increase_idx
#print axioms C01_channel_ids_increase_delivered
#print axioms C01_delivered_behind_channel_base
#print axioms C01_at_most_once
#print axioms C01_at_most_once_idx
