import Uflow.Props.C01
open Uflow.Props.C01
#print axioms C01_pidSub_lt
