import Uflow.Props.C13Ep
open Uflow.Props.C13
#print axioms C13_ep_server_ceiling
#print axioms C13_ep_client_ceiling
#print axioms C13_ep_advertised
#print axioms C13_ep_syn_accepted
#print axioms C13_ep_negotiated
#print axioms C13_ep_connection_projects
#print axioms C13_ep_client_projects_partial
#print axioms C13_ep_gwire_bound
#print axioms C13_ep_gwire_bound_from
#print axioms C13_ep_binv
#print axioms C13_ep_server_wire_bound
#print axioms C13_ep_client_wire_bound_partial
#print axioms C13_ep_client_hsack_witness
#print axioms C13_ep_example_server
#print axioms C13_ep_example_client
