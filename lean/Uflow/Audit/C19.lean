import Uflow.Props.C19
open Uflow.Props.C19
#print axioms C19_wf_new
#print axioms C19_wf_write
#print axioms C19_wf_writes
#print axioms C19_finalize_layout
#print axioms C19_boxOfDelivered_ok
#print axioms C19_raw_mismatch
#print axioms C19_raw_mismatch_witness
#print axioms write_numFragments
#print axioms C19_layout_example
