import Uflow.Props.C20Hc

open Uflow.Props.C20

#print axioms C20_hc_projects
#print axioms C20_hc
#print axioms C20_hc_exact
#print axioms C20_hc_no_underflow
#print axioms C20_hc_zero
#print axioms C20_hc_idle
#print axioms C20_hc_pair
#print axioms C20_hc_zero_witness
#print axioms C20_hc_example
#print axioms C20_hc_zero_example
