import Uflow.Props.C03Recv
open Uflow.Props.C03
#print axioms C03_precv_notrap
#print axioms C03_precv_no_trap_kind
#print axioms C03_precv_step
#print axioms C03_precv_handleDatagram
#print axioms C03_precv_receive
#print axioms C03_precv_resynchronize
