import Uflow.Props.C15Hc

open Uflow.Props.C15

#print axioms C15_hc_ack_frame_noop
#print axioms C15_hc_ack_frame_sound
#print axioms C15_hc_feedback_only_fresh
#print axioms C15_hc_replay_idempotent
#print axioms C15_hc_replay_idempotent_inv
#print axioms C15_hc_run_replay
#print axioms exHcUnknown_dead
#print axioms exHcForged_dead
#print axioms exHcGood_fresh
