import Uflow.Props.C06
open Uflow.Props.C06
#print axioms C06_emit_alloc_le
#print axioms C06_recv_alloc
#print axioms C06_recv_held
#print axioms C06_recv_state_bounded
#print axioms C06_ackq_ghost_erase
#print axioms C06_ackq_bounded
#print axioms C06_ackq_bounded_sync_budget
#print axioms C06_ackq_unbounded_without_drop_witness
#print axioms C06_ackq_unbounded_under_wrap_witness
