import Uflow.Props.C06
open Uflow.Props.C06
#print axioms C06_emit_alloc_le
