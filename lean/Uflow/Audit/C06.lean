import Uflow.Props.C06
open Uflow.Props.C06
#print axioms C06_emit_alloc_le
#print axioms C06_recv_alloc
#print axioms C06_recv_held
#print axioms C06_recv_state_bounded
