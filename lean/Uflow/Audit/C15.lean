import Uflow.Props.C15
open Uflow.Props.C15
#print axioms C15_empty_group_noop
