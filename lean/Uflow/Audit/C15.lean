import Uflow.Props.C15
open Uflow.Props.C15
#print axioms C15_empty_group_noop
#print axioms C15_unknown_frame_noop
#print axioms C15_bad_nonce_noop
#print axioms C15_accept_sound
#print axioms C15_acked_fragments_sound
#print axioms C15_replay_noop
#print axioms C15_log_preserved
#print axioms C15_accept_marks_acked
#print axioms C15_idempotent
#print axioms C15_window_stale_noop
#print axioms C15_no_trap_partial
#print axioms C15_ackInv_init
#print axioms C15_ackInv_push
#print axioms C15_winv_reachable
#print axioms C15_no_trap
#print axioms C15_run_no_trap
#print axioms C15_ackInv_cull_ops
