import Uflow.Props.C02Live
open Uflow.Props.C02
#print axioms C02_sys_reach_live
#print axioms C02_sys_deliverable
#print axioms C02_sys_quiescent
#print axioms C02_sys_deliverable_needs_alloc_witness
#print axioms C02_sys_deliverable_needs_window_witness
#print axioms C02_live_example_state
#print axioms C02_live_example_round
#print axioms C02_live_example_skipped
#print axioms C02_sys_resync_passes_no_reliable
