import Uflow.Props.C06NoDud

open Uflow.Props.C06

#print axioms C06_hc_recv_alloc_le_send_alloc
#print axioms C06_hc_no_discard
#print axioms C06_hc_no_discard_aged
#print axioms C06_hc_discard_needs_limit_witness
#print axioms C06_hc_discard_witness_hyps
#print axioms C06_hc_no_discard_example_hyps
