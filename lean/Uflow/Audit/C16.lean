import Uflow.Props.C16
open Uflow.Props.C16
#print axioms C16_roundtrip
#print axioms C16_decode_total
#print axioms C16_accept_shape
#print axioms C16_no_trailing
#print axioms C16_no_truncation
#print axioms C16_short_rejected
#print axioms C16_unknown_type
#print axioms C16_unknown_error_enum
#print axioms C16_syn_full_size
#print axioms C16_crc_table
