import Uflow.Props.C07Refuse

open Uflow.Props.C07

#print axioms C07_connect_implies_compatible
#print axioms C07_connect_implies_compatible_run
#print axioms C07_synOkAt_spelled
#print axioms C07_refusalOf_none_iff
#print axioms C07_refusal_frame
#print axioms C07_refusal_reasons
#print axioms C07_refused_stays_unknown
#print axioms C07_unknown_until_accepted_syn
#print axioms C07_client_error_only_for_own_nonce
#print axioms C07_client_error_only_for_own_nonce_datagrams
#print axioms C07_client_error_then_never_connects
#print axioms RefuseEx.runS_append
#print axioms RefuseEx.refused_run
