import Uflow.Props.C07
open Uflow.Props.C07
#print axioms C07_u32_lt
