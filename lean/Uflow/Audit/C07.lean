import Uflow.Props.C07
open Uflow.Props.C07
#print axioms C07_u32_lt
#print axioms C07_server_connect_sound_frame
#print axioms C07_server_connect_sound
#print axioms C07_server_reachable_ok
#print axioms C07_server_no_connect_elsewhere
#print axioms C07_server_nonce_origin
#print axioms C07_server_pending_origin
#print axioms C07_server_nonce_provenance
#print axioms C07_server_connect_once
#print axioms C07_forged_noop_server
#print axioms C07_forged_ack_cases
#print axioms C07_undecodable_noop
#print axioms C07_refusal_server
#print axioms C07_accept_only_if
#print axioms C07_agreement
#print axioms C07_agreement_frames
#print axioms C07_agreement_exchange
