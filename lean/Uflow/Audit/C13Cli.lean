import Uflow.Props.C13Cli

open Uflow.Props.C13

#print axioms C13_ep_client_projects
#print axioms C13_ep_client_acks_spec
#print axioms C13_ep_client_bytes
#print axioms C13_ep_client_wire_bound
#print axioms C13_ep_client_wire_bound_honest
#print axioms C13_ep_client_hsack_attained
#print axioms C13_ep_client_honest_example
