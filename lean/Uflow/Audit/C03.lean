import Uflow.Props.C03
open Uflow.Props.C03
#print axioms C03_codec_total
