import Uflow.Props.C07SrvInit2
open Uflow.Props.C07
#print axioms C09_peer_server_trace_from_handshake_wf
