import Uflow.Props.C11
open Uflow.Props.C11
#print axioms C11_sync_timeout_ge
