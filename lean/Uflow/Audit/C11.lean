import Uflow.Props.C11
open Uflow.Props.C11
#print axioms C11_sync_timeout_ge
#print axioms C11_sync_emitted
#print axioms C11_sync_frame_content
#print axioms C11_sync_clock_trap
#print axioms C11_sync_handled
#print axioms C11_sync_handled_total
#print axioms C11_ackq_resynchronize
#print axioms C11_sync_answered
#print axioms C11_ack_frame_content
#print axioms C11_sync_answer_postponed
#print axioms C11_sync_answered_flush
#print axioms C11_ack_advances
#print axioms C11_window_reopens_frames
#print axioms C11_window_reopens_packets
#print axioms C11_ack_stale_noop
#print axioms C11_sync_rearmed_data
#print axioms C11_sync_rearmed_sync
#print axioms C11_sync_rearmed
#print axioms C11_only_flush_touches_sync
#print axioms C11_sync_becomes_due
#print axioms C11_sync_emitted_flush
#print axioms C11_full_window_unacked
#print axioms C11_full_window_cycle
