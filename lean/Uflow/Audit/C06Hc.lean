import Uflow.Props.C06Hc

open Uflow.Props.C06

#print axioms C06_hc_recv_projection
#print axioms recvBounded_of_inv
#print axioms recvBounded_of_run
#print axioms C06_hc_recv_bounded
#print axioms C06_hc_recv_held_le
#print axioms C06_hc_ackq_projection
#print axioms C06_hc_ackq_bounded
#print axioms C06_hc_ackq_bounded_sync
#print axioms C06_hc_send_projection
#print axioms C06_hc_send_respects_limit
#print axioms hcOf_newAgrees
#print axioms srvRecvBounded_of_inv
#print axioms C06_server_recv_bounded_from
#print axioms C06_server_recv_bounded
#print axioms C06_server_recv_held_le
#print axioms connect_ep
#print axioms C06_client_recv_bounded
