import Uflow.Props.C11Credit

open Uflow.Props.C11

#print axioms C11_fillLo_exact
#print axioms C11_credit_recurrence
#print axioms C11_credit_recovers
#print axioms C11_credit_recovers_flush
#print axioms C11_credit_recovers_total
#print axioms C11_exact_recovers_every_cadence
#print axioms C11_rounding_fill_violates
#print axioms C11_rounding_fill_starves
#print axioms C11_rounding_fill_starves_forever
