import Uflow.Props.C02Prog

open Uflow.Props.C02

#print axioms C02_ack_passed_idle
#print axioms C02_flush_sends_due_resend
#print axioms C02_flush_sends_pending
#print axioms C02_flush_emits_new_packet
#print axioms C02_emit_refuses
#print axioms C02_flush_progress
#print axioms C02_flush_progress_total
#print axioms C02_flush_silent_cases_partial
#print axioms C02_no_credit_silent
