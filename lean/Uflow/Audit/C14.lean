import Uflow.Props.C14
open Uflow.Props.C14
#print axioms C14_satMul2_le
