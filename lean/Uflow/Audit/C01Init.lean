import Uflow.Props.C01Init
open Uflow.Props.C01
#print axioms C01_client_initial_sends_in_order
#print axioms C01_client_pending_queue
#print axioms C01_client_pending_queue_from_connect
#print axioms C01_client_sends_reach_hc
#print axioms C09_peer_client_trace_from_connect
#print axioms C01_server_send_reaches_hc
