import Uflow.Props.C09
open Uflow.Props.C09
#print axioms C09_u32_lt
#print axioms C09_discGate_iff
#print axioms C09_flush_gate_client
#print axioms C09_only_step_enters_closing
#print axioms C09_flush_gate_client_active
#print axioms C09_retry_budget_client
#print axioms C09_retry_budget_client_entered
#print axioms C09_sDiscGate_iff
#print axioms C09_flush_gate_server
#print axioms C09_retry_budget_server_partial
#print axioms C09_stale_timer_noop
#print axioms C09_closing_terminal_event_server
#print axioms C09_server_timer_invariant
#print axioms C09_enter_closing_server
#print axioms C09_retry_budget_server
#print axioms C09_left_forever_server
#print axioms C09_timer_firing_server
