import Uflow.Props.C09
open Uflow.Props.C09
#print axioms C09_u32_lt
