import Uflow.Props.C11Sys
open Uflow.Props.C11
#print axioms C11_sys_recover_round
#print axioms C11_sys_window_reopens
#print axioms C11_sys_new_packets_delivered
#print axioms C11_sys_no_permanent_stall
#print axioms C11_sys_blackout_state
#print axioms C11_sys_blackout_recovery
#print axioms C11_sys_needs_ack_witness
#print axioms C11_sys_needs_frames_witness
#print axioms C11_sys_alloc_exhausted_witness
#print axioms C11_sys_oversized_blocks_witness
#print axioms C11_sys_bad_channel_traps_witness
#print axioms C11_sys_zero_window_witness
