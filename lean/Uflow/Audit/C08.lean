import Uflow.Props.C08
open Uflow.Props.C08
#print axioms C08_u32_lt
