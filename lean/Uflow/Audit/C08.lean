import Uflow.Props.C08
open Uflow.Props.C08
#print axioms C08_u32_lt
#print axioms C08_client_stream_monitor
#print axioms C08_client_stream
#print axioms C08_client_quiet_after_terminal
#print axioms C08_client_handleFrame_cases
#print axioms C08_client_handleEvents_cases
#print axioms C08_client_stepPhase_cases
#print axioms C08_server_phase_conn_iff
#print axioms C08_server_wf_init
#print axioms C08_server_stream
#print axioms C08_server_stream_general
#print axioms C08_server_step
#print axioms C08_server_handleSyn
#print axioms C08_server_handleHsAck
#print axioms C08_server_handleDisconnect
#print axioms C08_server_handleDisconnectAck
#print axioms C08_server_handleTraffic
#print axioms C08_server_handleFrame
#print axioms C08_server_handleTimer
#print axioms C08_server_activeTimeoutStep
#print axioms C08_server_stepActiveStep
#print axioms C08_server_drop
