import Uflow.Props.C16Flips
open Uflow.Props.C16
#print axioms C16_reject_flips3
#print axioms C16_reject_flips
#print axioms Uflow.Props.C16.reject_of_syndrome
#print axioms Uflow.Props.C16.qpos_ne
