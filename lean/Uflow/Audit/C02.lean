import Uflow.Props.C02
open Uflow.Props.C02
#print axioms C02_pidSub_lt
