import Uflow.Props.C02
open Uflow.Props.C02
#print axioms C02_pidSub_lt
#print axioms C02_leads_correct
#print axioms C02_leads_exact
#print axioms C02_emitted_channel_lt
