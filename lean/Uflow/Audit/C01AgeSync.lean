import Uflow.Props.C01AgeSync

open Uflow.Props.C01

#print axioms C01_hc_guarded_of_frame_age
#print axioms C01_hc_guarded_of_frame_age_lib
#print axioms C01_hc_guarded_of_frame_age_any
#print axioms C01_hc_delivery_frame_aged
#print axioms C01_hc_frame_stamps
#print axioms C01_hc_frames_checker
#print axioms C01_hc_frames_examples
#print axioms C01_hc_frames_example_hyps
