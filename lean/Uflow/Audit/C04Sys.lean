import Uflow.Props.C04Sys
open Uflow.Props.C04Sys
#print axioms C04_sys_whole_packet
#print axioms C04_sys_delivered_was_submitted
#print axioms C04_sys_fragments_genuine
#print axioms C04_sys_once
