import Uflow.Props.C18
open Uflow.Props.C18
#print axioms C18_u32_lt
#print axioms C18_ratio_owed
#print axioms C18_ratio
#print axioms C18_ratio_strict
#print axioms C18_frame_lengths
#print axioms C18_syn_datagram_full
#print axioms C18_only_syn_triggers
#print axioms C18_syn_outcomes
#print axioms C18_accept_owed
#print axioms C18_timer_accounting
#print axioms C18_other_sends
#print axioms C18_undersized_ignored
