import Uflow.Props.C18
open Uflow.Props.C18
#print axioms C18_u32_lt
