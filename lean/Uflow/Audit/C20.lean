import Uflow.Props.C20
open Uflow.Props.C20
#print axioms stepOp_inv
#print axioms stepOp_no_overflow
#print axioms C20_inv
#print axioms C20_no_underflow
#print axioms C20_zero
