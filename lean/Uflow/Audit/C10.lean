import Uflow.Props.C10
open Uflow.Props.C10
#print axioms C10_u32_lt
