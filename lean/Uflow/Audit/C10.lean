import Uflow.Props.C10
open Uflow.Props.C10
#print axioms C10_u32_lt
#print axioms C10_timeout_sound_client_witness
#print axioms C10_timeout_sound_client_step
#print axioms C10_deadline_step_client
#print axioms C10_timeout_sound_client_partial
#print axioms C10_timeout_sound_client_partial_sound
#print axioms C10_timeout_origin_client
#print axioms C10_timeout_prompt_client
#print axioms C10_timeout_prompt_client'
#print axioms C10_handshake_budget
#print axioms C10_handshake_budget_general
#print axioms C10_deadline_handleTraffic_server
#print axioms C10_deadline_handleHsAck_server
#print axioms C10_deadline_invariant_server
#print axioms C10_timeout_sound_server
#print axioms C10_timeout_sound_server_loop
#print axioms C10_timeout_prompt_server
#print axioms C10_timeout_prompt_server_loop
