import Uflow.Props.C13
open Uflow.Props.C13
#print axioms C13_satMul2_le
#print axioms C13_fill_cap
#print axioms C13_step_fill
#print axioms C13_frame_needs_credit
#print axioms C13_credit_floor
#print axioms C13_emitters
#print axioms C13_psOk_init
#print axioms C13_psOk_exec
#print axioms C13_flush_idempotent_credit
#print axioms C13_interval
#print axioms C13_interval_between_steps
