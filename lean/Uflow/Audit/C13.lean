import Uflow.Props.C13
open Uflow.Props.C13
#print axioms C13_satMul2_le
