import Uflow.Props.C09Hc

open Uflow.Props.C09

#print axioms C09_hc_not_pending_iff
#print axioms C09_hc_sender_history
#print axioms C09_hc_not_pending_means_acked_partial
#print axioms C09_hc_not_pending_resent_acked
#print axioms C09_hc_left_window_delivered
#print axioms C09_hc_flush_complete_partial
#print axioms C09_hc_flush_complete_witness
#print axioms C09_hc_not_pending_means_acked_witness
#print axioms SameTx.isSendPending
#print axioms gateDelivered_of_not_pending
#print axioms C09_gate_open_means_delivered_client
#print axioms C09_gate_open_means_delivered_server
#print axioms C09_hc_example
#print axioms C09_hc_example_hyps
#print axioms C09_gate_example_client
#print axioms C09_gate_example_server
#print axioms SameTx.isSendPending
