import Uflow.Props.C09PeerSrvTrace
open Uflow.Props.C09
#print axioms C09_peer_server_trace
#print axioms C09_peer_server_trace_step
#print axioms C09_peer_server_no_receive_without_connection
