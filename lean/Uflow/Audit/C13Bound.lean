import Uflow.Props.C13Bound
open Uflow.Props.C13
#print axioms C13_fillOk_exact
#print axioms C13_binv_init
#print axioms C13_credit_sum_le
#print axioms C13_wire_bound
#print axioms C13_wire_bound_fresh
#print axioms C13_wire_bound_from
#print axioms C13_wire_bound_total
#print axioms C13_flush_cadence_irrelevant
#print axioms C13_wire_bound_witness
