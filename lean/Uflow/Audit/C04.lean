import Uflow.Props.C04
open Uflow.Props.C04
#print axioms C04_emit_wf
#print axioms C04_slices
#print axioms C04_fragbuf
#print axioms C04_first_write_wins
#print axioms C04_tryAdd_forged
#print axioms C04_tryAdd_closed
#print axioms C04_tryAdd
#print axioms C04_tryAdd_once
#print axioms C04_tryAdd_single
#print axioms C04_tryAdd_single_genuine
#print axioms C04_frame_size
#print axioms C04_dfePush
#print axioms C04_dfeFinalize
