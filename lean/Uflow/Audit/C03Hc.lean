import Uflow.Props.C03Hc

open Uflow.Props.C03

#print axioms C03_hc_init
#print axioms C03_hc_cfg_endpoint
#print axioms C03_hc_handleDataFrame
#print axioms C03_hc_handleAckFrame
#print axioms C03_hc_handleSyncFrame
#print axioms C03_hc_send
#print axioms C03_hc_receive
#print axioms C03_hc_flush
#print axioms C03_hc_step
#print axioms C03_hc_exec
#print axioms C03_hc_run_no_trap
#print axioms C03_hc_run_no_trap_kind
#print axioms C03_hc_creditRun_no_trap
#print axioms exOps_converges
#print axioms exOps_lossOk
#print axioms C03_hc_step_reset_witness
#print axioms C03_hc_clock_witness
#print axioms C03_hc_channel_witness
#print axioms C03_hc_bandwidth_example
