import Uflow.Props.C17
open Uflow.Props.C17
#print axioms C17_u32_lt
