import Uflow.Props.C17
open Uflow.Props.C17
#print axioms C17_u32_lt
#print axioms C17_inv
#print axioms C17_syn_adds_only_below
#print axioms C17_frame_counts
#print axioms C17_hsAck_counts
#print axioms C17_other_ops_counts
#print axioms C17_refuse
#print axioms C17_refuse_frame
#print axioms C17_release
#print axioms C17_release_drop
