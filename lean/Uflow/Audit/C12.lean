import Uflow.Props.C12
open Uflow.Props.C12
#print axioms C12_dropStale_head
