import Uflow.Props.C12
open Uflow.Props.C12
#print axioms C12_emit_resend_flag
#print axioms C12_refill
#print axioms C12_pendingInner_push
#print axioms C12_pending_once_flush
#print axioms C12_pending_once
#print axioms C12_ginv_init
#print axioms C12_dropStale_head
#print axioms C12_dropStale
#print axioms C12_ts_drop_queue
#print axioms C12_ts_stale_after_step
#print axioms C12_pendingInner_expired
#print axioms C12_ts_wire_flush
#print axioms C12_ts_wire
#print axioms C12_ts_drop_partial
#print axioms C12_resendLoop_skip
#print axioms C12_pendingInner_skip
#print axioms C12_dead
#print axioms C12_flush_pushes_live
#print axioms C12_no_resend_after_ack
#print axioms C12_resendLoop_push
#print axioms C12_heap
#print axioms C12_resend_until_ack_flush
#print axioms C12_resend_until_ack
#print axioms Uflow.Wire.flushT_erase
#print axioms Uflow.Wire.flush_iff_flushT
#print axioms Uflow.Modes.execT_erase
