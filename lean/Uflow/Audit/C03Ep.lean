import Uflow.Props.C03Ep

open Uflow.Props.C03

#print axioms C03_ep_hcOf_ok
#print axioms C03_server_init
#print axioms C03_server_step_no_trap
#print axioms C03_server_handleFrame_no_trap
#print axioms C03_server_flush_no_trap
#print axioms C03_server_send
#print axioms C03_server_disconnect
#print axioms C03_server_drop
#print axioms C03_server_apply_no_trap
#print axioms C03_server_run_from
#print axioms C03_server_run_no_trap_of
#print axioms C03_server_run_no_trap
#print axioms C03_server_run_no_trap_kind
#print axioms C03_server_timers_complete
#print axioms C03_server_timers_fuel_irrelevant
#print axioms C03_server_timers_heap_witness
#print axioms C03_server_frame_isolated
#print axioms C03_server_frames_isolated
#print axioms C03_server_junk_discarded
#print axioms C03_server_unknown_discarded
#print axioms C03_client_connect
#print axioms C03_client_step_no_trap
#print axioms C03_client_handleFrame_no_trap
#print axioms C03_client_flush_no_trap
#print axioms C03_client_send
#print axioms C03_client_disconnect
#print axioms C03_client_run_from
#print axioms C03_client_run_no_trap_of
#print axioms C03_client_run_no_trap
#print axioms C03_client_run_no_trap_kind
#print axioms C03_server_example_state
#print axioms C03_server_example_run
#print axioms C03_client_example_run
#print axioms C03_server_clock_witness
#print axioms C03_server_channel_witness
#print axioms C03_client_clock_witness
#print axioms C03_client_channel_witness
