import Uflow.Props.C03EpInst

open Uflow.Props.C03

#print axioms C03_ep_hcInst_eq
