import Uflow.Props.C11NoStall

open Uflow.Props.C11

#print axioms C02_flush_silent_cases
#print axioms C02_sendable_not_quiet
#print axioms C11_no_credit_stall
#print axioms C11_no_credit_stall_sends
#print axioms C11_exact_transmits_within
