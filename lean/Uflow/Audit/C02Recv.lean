import Uflow.Props.C02Recv
open Uflow.Props.C02Recv
#print axioms C02_pidSub_lt
#print axioms C02_no_overtake
#print axioms C02_no_overtake_partial
#print axioms C02_window_advance_justified
#print axioms C02_overtake_witness_hostile_lead
#print axioms C02_overtake_witness_resync
