import Uflow.Lemmas.EndpointServerFrames
import Uflow.Props.C16

/-!
No amplification (C18): the accounting invariant
`1472 * tx a + 36800 * (SYN-ACK resends still owed to a) ≤ 275 * rx a`
for every address `a` that never got a `connect` event.
-/

namespace Uflow.Endpoint

open Uflow.Gen Uflow.Codec Uflow.HalfConn

variable {H : Type}

/-- `foldlM` invariant that also sees the prefix processed so far. -/
theorem foldlM_ok_inv_pre {α β ε : Type} (P : β → List α → Prop) (f : β → α → Except ε β)
    (hf : ∀ b pre a b', P b pre → f b a = .ok b' → P b' (pre ++ [a])) :
    ∀ (l pre : List α) (b b' : β), P b pre → l.foldlM f b = .ok b' → P b' (pre ++ l) := by
  intro l
  induction l with
  | nil =>
    intro pre b b' hb h
    simp only [List.foldlM_nil, pure, Except.pure, Except.ok.injEq] at h
    subst h; simpa using hb
  | cons a l ih =>
    intro pre b b' hb h
    rw [List.foldlM_cons] at h
    cases hfa : f b a with
    | error e => rw [hfa] at h; simp [bind, Except.bind] at h
    | ok b1 =>
      rw [hfa] at h
      have := ih (pre ++ [a]) b1 b' (hf b pre a b1 hb hfa) h
      simpa using this

/-! ### accounting relation -/

/-- Accounting of one transition w.r.t. address `a`, during which `δ` bytes arrived from `a`:
provided `a` has no (formerly) active object, what is sent to `a` is paid for by owed resends or by
the bytes received. -/
def Acc (a : Nat) (s s' : Server H) (sent : List (Nat × List Nat)) (δ : Nat) : Prop :=
  s.NoAct a → 1472 * bytesOf a sent + 36800 * s'.phi a ≤ 36800 * s.phi a + 275 * δ

theorem Acc.of_quiet {a : Nat} {s s' : Server H} {sent : List (Nat × List Nat)} (q : Quiet s s')
    (h0 : s.NoAct a → bytesOf a sent = 0) (δ : Nat) : Acc a s s' sent δ := by
  intro hna
  have := q.phi a
  rw [h0 hna]
  omega

theorem Acc.trans {a : Nat} {s s1 s2 : Server H} {o1 o2 : List (Nat × List Nat)} {d1 d2 : Nat}
    (a1 : Acc a s s1 o1 d1) (q : Quiet s s1) (a2 : Acc a s1 s2 o2 d2) : Acc a s s2 (o1 ++ o2) (d1 + d2) := by
  intro hna
  have h1 := a1 hna
  have h2 := a2 (hna.quiet q)
  rw [bytesOf_append]
  omega

/-- The invariant: well-formed, and either `a` got a `connect` event, or `a` has no (formerly) active
object and the bytes sent to `a` plus the owed resends are covered by the bytes received from `a`. -/
def G (a : Nat) (s : Server H) (evs : List SEvent) (tx rx : Nat) : Prop :=
  s.WF ∧ (SEvent.connect a ∈ evs ++ s.eventsOut ∨
    (s.NoAct a ∧ 1472 * tx + 36800 * s.phi a ≤ 275 * rx))

theorem G.quiet {a : Nat} {s s' : Server H} {evs : List SEvent} {tx rx : Nat} {sent : List (Nat × List Nat)} {δ : Nat}
    (g : G a s evs tx rx) (w : WQ s s') (acc : Acc a s s' sent δ) :
    G a s' evs (tx + bytesOf a sent) (rx + δ) := by
  refine ⟨w.1, ?_⟩
  rcases g.2 with hin | ⟨hna, hineq⟩
  · left
    obtain ⟨new, e, _⟩ := w.2.ev
    rw [e, ← List.append_assoc]
    exact List.mem_append_left _ hin
  · right
    refine ⟨hna.quiet w.2, ?_⟩
    have := acc hna
    omega

theorem G.mono_rx {a : Nat} {s : Server H} {evs : List SEvent} {tx rx rx' : Nat}
    (g : G a s evs tx rx) (h : rx ≤ rx') : G a s evs tx rx' := by
  refine ⟨g.1, ?_⟩
  rcases g.2 with hin | ⟨hna, hineq⟩
  · exact Or.inl hin
  · exact Or.inr ⟨hna, by omega⟩

/-! ### what a frame sends to an address without (formerly) active object -/

theorem Server.handleFrame_sent (hc : HC H) {s : Server H} (a : Nat) (hna : s.NoAct a) (addr : Nat) (f : Frame)
    (nowMs nowNs : Nat) {s' : Server H} {sent : List (Nat × List Nat)}
    (hr : s.handleFrame hc addr f nowMs nowNs = .ok (s', sent)) :
    bytesOf a sent = 0 ∨ ((∃ v n r p al, f = .syn v n r p al) ∧ addr = a ∧ bytesOf a sent ≤ 25) := by
  cases f with
  | syn v n r p al =>
    simp only [Server.handleFrame, Except.ok.injEq] at hr
    by_cases haddr : addr = a
    · right
      refine ⟨⟨v, n, r, p, al, rfl⟩, haddr, ?_⟩
      subst haddr
      rcases s.handleSyn_cases addr v n r p al nowMs with ⟨_, he⟩ | ⟨_, e, ev, he⟩ | ⟨_, _, _, _, _, he⟩
      · rw [he] at hr; cases hr; simp [bytesOf_nil]
      · rw [he] at hr; cases hr
        rw [bytesOf_single_eq, errFrame, encode_hsError_length]; decide
      · rw [he] at hr; cases hr
        rw [bytesOf_single_eq, Server.synAckBytes, encode_synAck_length]; decide
    · left
      rcases s.handleSyn_cases addr v n r p al nowMs with ⟨_, he⟩ | ⟨_, e, ev, he⟩ | ⟨_, _, _, _, _, he⟩
      · rw [he] at hr; cases hr; rfl
      · rw [he] at hr; cases hr; exact bytesOf_single_ne _ _ _ haddr
      · rw [he] at hr; cases hr; exact bytesOf_single_ne _ _ _ haddr
  | hsAck na =>
    simp only [Server.handleFrame, Except.ok.injEq, Prod.mk.injEq] at hr
    left; rw [← hr.2]; rfl
  | synAck _ _ _ _ _ =>
    simp only [Server.handleFrame, Except.ok.injEq, Prod.mk.injEq] at hr
    left; rw [← hr.2]; rfl
  | hsError _ _ =>
    simp only [Server.handleFrame, Except.ok.injEq, Prod.mk.injEq] at hr
    left; rw [← hr.2]; rfl
  | disconnect =>
    left
    simp only [Server.handleFrame] at hr
    unfold Server.handleDisconnect at hr
    split at hr
    · cases hr; rfl
    · rename_i c hf
      obtain ⟨hcm, hca⟩ := Server.find_some hf
      have hne : c.state.wasActive = true → addr ≠ a := by
        intro hw
        rw [← hca]
        exact hna.addr_ne (List.mem_append_left _ hcm) hw
      split at hr
      · cases hr; rfl
      · rename_i hst
        split at hr
        · cases hr
        · cases hr
          exact bytesOf_single_ne _ _ _ (hne (by rw [hst]; rfl))
      · rename_i hst
        cases hr
        exact bytesOf_single_ne _ _ _ (hne (by rw [hst]; rfl))
      · rename_i hst
        cases hr
        exact bytesOf_single_ne _ _ _ (hne (by rw [hst]; rfl))
      · cases hr; rfl
  | disconnectAck =>
    simp only [Server.handleFrame, Except.ok.injEq, Prod.mk.injEq] at hr
    left; rw [← hr.2]; rfl
  | data x y z =>
    simp only [Server.handleFrame] at hr
    cases ht : s.handleTraffic hc addr (.data x y z) nowMs with
    | error e => rw [ht] at hr; cases hr
    | ok s1 => rw [ht] at hr; cases hr; left; rfl
  | sync x y =>
    simp only [Server.handleFrame] at hr
    cases ht : s.handleTraffic hc addr (.sync x y) nowMs with
    | error e => rw [ht] at hr; cases hr
    | ok s1 => rw [ht] at hr; cases hr; left; rfl
  | ack x y z =>
    simp only [Server.handleFrame] at hr
    cases ht : s.handleTraffic hc addr (.ack x y z) nowMs with
    | error e => rw [ht] at hr; cases hr
    | ok s1 => rw [ht] at hr; cases hr; left; rfl

/-! ### an accepted SYN -/

theorem Server.accept_pendAt (s : Server H) (addr n r al nowMs a cid : Nat) (hcid : cid < s.nextCid) :
    (s.accept addr n r al nowMs).pendAt a cid = s.pendAt a cid := by
  rw [Bool.eq_iff_iff, Server.pendAt_iff, Server.pendAt_iff]
  constructor
  · rintro ⟨c, hc, h1, h2, h3⟩
    have hc' : c ∈ (s.clients ++ [s.newEntry addr n r al]) ++ s.detached := hc
    rcases List.mem_append.1 hc' with hc' | hc'
    · rcases List.mem_append.1 hc' with hc' | hc'
      · exact ⟨c, List.mem_append_left _ hc', h1, h2, h3⟩
      · have : c = s.newEntry addr n r al := by simpa using hc'
        subst this
        simp only [Server.newEntry] at h1
        omega
    · exact ⟨c, List.mem_append_right _ hc', h1, h2, h3⟩
  · rintro ⟨c, hc, h1, h2, h3⟩
    refine ⟨c, ?_, h1, h2, h3⟩
    show c ∈ (s.clients ++ [s.newEntry addr n r al]) ++ s.detached
    rcases List.mem_append.1 hc with hc | hc
    · exact List.mem_append_left _ (List.mem_append_left _ hc)
    · exact List.mem_append_right _ hc

theorem Server.accept_pendAt_new {s : Server H} (hw : s.WF) (addr n r al nowMs a : Nat) :
    (s.accept addr n r al nowMs).pendAt a s.nextCid = decide (addr = a) := by
  rw [Bool.eq_iff_iff, Server.pendAt_iff, decide_eq_true_eq]
  constructor
  · rintro ⟨c, hc, h1, h2, h3⟩
    have hc' : c ∈ (s.clients ++ [s.newEntry addr n r al]) ++ s.detached := hc
    rcases List.mem_append.1 hc' with hc' | hc'
    · rcases List.mem_append.1 hc' with hc' | hc'
      · have := hw.cidLt c (List.mem_append_left _ hc'); omega
      · have : c = s.newEntry addr n r al := by simpa using hc'
        subst this
        exact h2
    · have := hw.cidLt c (List.mem_append_right _ hc'); omega
  · intro ha
    refine ⟨s.newEntry addr n r al, ?_, rfl, ha, rfl⟩
    show _ ∈ (s.clients ++ [s.newEntry addr n r al]) ++ s.detached
    exact List.mem_append_left _ (List.mem_append_right _ List.mem_cons_self)

/-- An accepted SYN from `addr` adds exactly 10 owed resends for `addr` and nothing for others. -/
theorem Server.phi_accept {s : Server H} (hw : s.WF) (addr n r al nowMs a : Nat) :
    (s.accept addr n r al nowMs).phi a = (if addr = a then 10 else 0) + s.phi a := by
  unfold Server.phi
  rw [show (s.accept addr n r al nowMs).timers = tPush s.timers _ from rfl, Server.owedSum_tPush]
  congr 1
  · unfold Server.owed
    simp only [Server.accept_pendAt_new hw, decide_eq_true_eq, true_and, SERVER_HANDSHAKE_RESEND_COUNT]
  · unfold Server.owedSum
    congr 1
    apply List.map_congr_left
    intro t ht
    unfold Server.owed
    rw [Server.accept_pendAt s addr n r al nowMs a t.cid (hw.timersLt t ht)]

theorem Server.NoAct.accept {s : Server H} {a : Nat} (h : s.NoAct a) (addr n r al nowMs : Nat) :
    (s.accept addr n r al nowMs).NoAct a := by
  intro c hc ha
  have hc' : c ∈ (s.clients ++ [s.newEntry addr n r al]) ++ s.detached := hc
  rcases List.mem_append.1 hc' with hc' | hc'
  · rcases List.mem_append.1 hc' with hc' | hc'
    · exact h c (List.mem_append_left _ hc') ha
    · have : c = s.newEntry addr n r al := by simpa using hc'
      subst this
      rfl
  · exact h c (List.mem_append_right _ hc') ha

theorem G.accept {a : Nat} {s : Server H} {evs : List SEvent} {tx rx : Nat} (g : G a s evs tx rx)
    {addr : Nat} (hf : s.find addr = none) (n r al nowMs δ : Nat) (hδ : addr = a → 1472 ≤ δ) :
    G a (s.accept addr n r al nowMs) evs (tx + bytesOf a [(addr, s.synAckBytes n)]) (rx + δ) := by
  refine ⟨g.1.accept hf n r al nowMs, ?_⟩
  rcases g.2 with hin | ⟨hna, hineq⟩
  · exact Or.inl hin
  · right
    refine ⟨hna.accept addr n r al nowMs, ?_⟩
    rw [Server.phi_accept g.1]
    by_cases ha : addr = a
    · subst ha
      have := hδ rfl
      rw [bytesOf_single_eq, Server.synAckBytes, encode_synAck_length, if_pos rfl]
      omega
    · rw [bytesOf_single_ne _ _ _ ha, if_neg ha]
      omega

/-! ### activation -/

theorem G.activate (hc : HC H) {a : Nat} {s : Server H} {evs : List SEvent} {tx rx : Nat} (g : G a s evs tx rx)
    {addr : Nat} {c : RClient H} (hfind : s.find addr = some c) (ln rn rate alloc nowMs nowNs : Nat) :
    G a (s.activate hc c ln rn rate alloc nowMs nowNs) evs tx rx := by
  obtain ⟨hcm, hca⟩ := Server.find_some hfind
  refine ⟨g.1.activate hc hcm .., ?_⟩
  rw [Server.activate_eventsOut]
  rcases g.2 with hin | ⟨hna, hineq⟩
  · left
    rw [← List.append_assoc]
    exact List.mem_append_left _ hin
  · by_cases ha : c.address = a
    · left
      rw [ha, ← List.append_assoc]
      exact List.mem_append_right _ List.mem_cons_self
    · right
      obtain ⟨l1, l2, e1, e2⟩ := g.1.put_shape (c' := RClient.mk c.cid c.address
        (RState.active (hc.new (hcConfig s.cfg.ep ln rn rate alloc) nowNs) (nowMs + s.cfg.ep.activeTimeoutMs) none)) hcm rfl
      have hcl : (s.activate hc c ln rn rate alloc nowMs nowNs).clients = l1 ++ RClient.mk c.cid c.address
          (RState.active (hc.new (hcConfig s.cfg.ep ln rn rate alloc) nowNs) (nowMs + s.cfg.ep.activeTimeoutMs) none) :: l2 := by
        unfold Server.activate; simp only [e2]
      have hdet : (s.activate hc c ln rn rate alloc nowMs nowNs).detached = s.detached := by
        unfold Server.activate; simp only [e2]
      have htim : (s.activate hc c ln rn rate alloc nowMs nowNs).timers = s.timers := by
        unfold Server.activate; simp only [e2]
      have hmem : ∀ x ∈ (s.activate hc c ln rn rate alloc nowMs nowNs).clients ++
          (s.activate hc c ln rn rate alloc nowMs nowNs).detached,
          x ∈ s.clients ++ s.detached ∨ (x.address = c.address ∧ x.state.isPending = false) := by
        intro x hx
        rw [hcl, hdet] at hx
        rcases List.mem_append.1 hx with hx | hx
        · rcases List.mem_append.1 hx with hx | hx
          · exact Or.inl (List.mem_append_left _ (by rw [e1]; exact List.mem_append_left _ hx))
          · rcases List.mem_cons.1 hx with hx | hx
            · subst hx; exact Or.inr ⟨rfl, rfl⟩
            · exact Or.inl (List.mem_append_left _ (by rw [e1]; exact List.mem_append_right _ (List.mem_cons_of_mem _ hx)))
        · exact Or.inl (List.mem_append_right _ hx)
      refine ⟨?_, ?_⟩
      · intro x hx hxa
        rcases hmem x hx with h1 | ⟨h1, _⟩
        · exact hna x h1 hxa
        · exact absurd (h1.symm.trans hxa) ha
      · have : (s.activate hc c ln rn rate alloc nowMs nowNs).phi a ≤ s.phi a := by
          apply Server.phi_le_of _ htim
          intro x hx hp
          rcases hmem x hx with h1 | ⟨_, h1⟩
          · exact h1
          · rw [h1] at hp; cases hp
        omega

/-! ### one datagram -/

theorem syn_datagram_length {bytes : List Nat} {v n r p al : Nat}
    (hd : decode (bytes.take MAX_FRAME_SIZE) = some (.syn v n r p al)) : 1472 ≤ bytes.length := by
  have := Uflow.Props.C16.C16_syn_full_size _ _ _ _ _ _ hd
  rw [List.length_take] at this
  simp only [MAX_FRAME_SIZE] at this
  omega

theorem G.frame (hc : HC H) {a : Nat} {s : Server H} {evs : List SEvent} {tx rx : Nat} (g : G a s evs tx rx)
    (addr : Nat) (bytes : List Nat) (f : Frame) (hd : decode (bytes.take MAX_FRAME_SIZE) = some f)
    (nowMs nowNs : Nat) {s' : Server H} {sent : List (Nat × List Nat)}
    (hr : s.handleFrame hc addr f nowMs nowNs = .ok (s', sent)) :
    G a s' evs (tx + bytesOf a sent) (rx + bytesOf a [(addr, bytes)]) := by
  have hδ : (∃ v n r p al, f = .syn v n r p al) → addr = a → 1472 ≤ bytesOf a [(addr, bytes)] := by
    rintro ⟨v, n, r, p, al, rfl⟩ ha
    subst ha
    rw [bytesOf_single_eq]
    exact syn_datagram_length hd
  obtain ⟨hw', hq | ⟨v, n, r, p, al, hf, hfind, _, hs', hsent⟩ | ⟨c, na, rn, rate, alloc, reply, _, hfind, hst, hs', hsent⟩⟩ :=
    Server.handleFrame_wq hc g.1 addr f nowMs nowNs hr
  · apply g.quiet ⟨hw', hq⟩
    intro hna
    have hphi := hq.phi a
    rcases Server.handleFrame_sent hc a hna addr f nowMs nowNs hr with h0 | ⟨hsyn, ha, h25⟩
    · rw [h0]; omega
    · have := hδ hsyn ha
      omega
  · subst hs' hsent
    exact g.accept hfind n r al nowMs _ (hδ ⟨v, n, r, p, al, hf⟩)
  · subst hs' hsent
    have := g.activate hc hfind na rn rate alloc nowMs nowNs
    have h2 := this.mono_rx (Nat.le_add_right rx (bytesOf a [(addr, bytes)]))
    simpa [bytesOf_nil] using h2

theorem G.frames (hc : HC H) {a : Nat} {s : Server H} {evs : List SEvent} {tx rx : Nat} (g : G a s evs tx rx)
    (arrivals : List (Nat × List Nat)) (nowMs nowNs : Nat) {s' : Server H} {sent : List (Nat × List Nat)}
    (hr : s.handleFrames hc arrivals nowMs nowNs = .ok (s', sent)) :
    G a s' evs (tx + bytesOf a sent) (rx + bytesOf a arrivals) := by
  unfold Server.handleFrames at hr
  have := foldlM_ok_inv_pre
    (fun (x : Server H × List (Nat × List Nat)) (pre : List (Nat × List Nat)) =>
      G a x.1 evs (tx + bytesOf a x.2) (rx + bytesOf a pre)) _ ?_ arrivals [] (s, []) (s', sent)
    (by simpa [bytesOf_nil] using g) hr
  · simpa using this
  · intro b pre x b' hb hf
    simp only at hf
    obtain ⟨addr, bytes⟩ := x
    split at hf
    · cases hf
      refine hb.mono_rx ?_
      rw [bytesOf_append]; omega
    · rename_i f hdec
      split at hf
      · cases hf
      · rename_i s1 sent1 hfr
        cases hf
        have := hb.frame hc addr bytes f hdec nowMs nowNs hfr
        simp only [bytesOf_append]
        simpa [Nat.add_assoc] using this

/-! ### timers -/

theorem Server.popTimer_acc {s : Server H} (hw : s.WF) {t : Timer} {hp : Array Timer}
    (hpop : tPop s.timers = some (t, hp)) (nowMs a : Nat) :
    Acc a s (({ s with timers := hp } : Server H).handleTimer t nowMs).1
      (({ s with timers := hp } : Server H).handleTimer t nowMs).2 0 := by
  have hq := (Server.popTimer_wq hw hpop nowMs).2
  have hw0 : ({ s with timers := hp } : Server H).WF :=
    hw.set_timers hp (fun x hx => hw.timersLt x ((mem_tPop _ _ _ x hpop).2 (Or.inr hx)))
  rcases Server.handleTimer_cases ({ s with timers := hp } : Server H) t nowMs with
    he | ⟨c, ln, rn, r, al, reply, hb, hst, hk, hcnt, he⟩ | ⟨c, hb, hwa, _, _, he⟩ | ⟨c, evs, hb, hn, he⟩
  · apply Acc.of_quiet hq; intro _; rw [he]; rfl
  · by_cases ha : c.address = a
    · intro hna
      rw [he]
      have hcm : c ∈ s.clients := hw0.byCid_mem hb (by rw [hst]; rfl)
      obtain ⟨_, hreply⟩ := hw.replyOk c hcm _ _ _ _ _ hst
      have hpa : s.pendAt a t.cid = true := by
        rw [Server.pendAt_iff]
        exact ⟨c, List.mem_append_left _ hcm, (Server.byCid_some hb).2, ha, by rw [hst]; rfl⟩
      have h1 : s.phi a = t.count + s.owedSum a hp.toList := by
        unfold Server.phi
        rw [Server.owedSum_tPop s a hpop]
        congr 1
        unfold Server.owed
        rw [if_pos ⟨hk, hpa⟩]
      have h2 : ({ s with timers := tPush hp { t with count := t.count - 1, time := nowMs + SERVER_HANDSHAKE_RESEND_INTERVAL_MS } } :
          Server H).phi a = (t.count - 1) + s.owedSum a hp.toList := by
        show s.owedSum a (tPush hp _).toList = _
        rw [Server.owedSum_tPush]
        congr 1
        unfold Server.owed
        rw [if_pos ⟨hk, hpa⟩]
      simp only
      rw [h2, h1, ← ha, bytesOf_single_eq, hreply, encode_synAck_length]
      omega
    · apply Acc.of_quiet hq; intro _; rw [he]; exact bytesOf_single_ne _ _ _ ha
  · apply Acc.of_quiet hq
    intro hna
    rw [he]
    exact bytesOf_single_ne _ _ _ (hna.addr_ne (Server.byCid_some hb).1 hwa)
  · apply Acc.of_quiet hq; intro _; rw [he]; rfl

theorem Server.runTimers_acc (fuel : Nat) : ∀ {s : Server H} (_ : s.WF) (nowMs : Nat) (sent0 : List (Nat × List Nat)) (a : Nat),
    ∃ out, (Server.runTimers fuel s nowMs sent0).2 = sent0 ++ out ∧ Acc a s (Server.runTimers fuel s nowMs sent0).1 out 0 := by
  induction fuel with
  | zero =>
    intro s h nowMs sent0 a
    exact ⟨[], by simp [Server.runTimers], Acc.of_quiet (Quiet.refl s) (fun _ => rfl) 0⟩
  | succ fuel ih =>
    intro s h nowMs sent0 a
    have hrefl : ∃ out, (s, sent0).2 = sent0 ++ out ∧ Acc a s (s, sent0).1 out 0 :=
      ⟨[], by simp, Acc.of_quiet (Quiet.refl s) (fun _ => rfl) 0⟩
    unfold Server.runTimers
    split
    · exact hrefl
    · split
      · exact hrefl
      · split
        · exact hrefl
        · rename_i t hp hpop
          have h2 := Server.popTimer_wq h hpop nowMs
          have a1 := Server.popTimer_acc h hpop nowMs a
          obtain ⟨out, e, a2⟩ := ih h2.1 nowMs (sent0 ++ (({ s with timers := hp } : Server H).handleTimer t nowMs).2) a
          refine ⟨(({ s with timers := hp } : Server H).handleTimer t nowMs).2 ++ out, ?_, ?_⟩
          · rw [e, List.append_assoc]
          · exact a1.trans h2.2 a2

/-! ### a step, an operation, a run -/

theorem G.step (hc : HC H) {a : Nat} {s : Server H} {evl : List SEvent} {tx rx : Nat} (g : G a s evl tx rx)
    (nowNs : Nat) (arrivals : List (Nat × List Nat))
    {s' : Server H} {sent : List (Nat × List Nat)} {evs : List SEvent}
    (hr : s.step hc nowNs arrivals = .ok (s', sent, evs)) :
    G a s' (evl ++ evs) (tx + bytesOf a sent) (rx + bytesOf a arrivals) := by
  obtain ⟨ph⟩ := Server.step_phases hc hr
  obtain ⟨s1, sent1, s2, sent2, s4, s6, sent4, hflush, hframes, htimeouts, hstep, hs', hsent, hevs⟩ := ph
  have w1 := Server.flushActive_wqs hc g.1 hflush
  have g1 := g.quiet w1.1 (Acc.of_quiet w1.1.2 (w1.2 a) 0)
  have g2 := g1.frames hc arrivals _ nowNs hframes
  have w3 := Server.runTimers_wq (s2.timers.size * 12 + 16) g2.1 ((nowNs - s.timeBase) / 1000000) []
  obtain ⟨out, eout, a3⟩ := Server.runTimers_acc (s2.timers.size * 12 + 16) g2.1 ((nowNs - s.timeBase) / 1000000) [] a
  have g3 := g2.quiet w3 a3
  have w4 := Server.activeTimeouts_wq hc w3.1 _ htimeouts
  have g4 := g3.quiet w4 (Acc.of_quiet w4.2 (sent := []) (fun _ => rfl) 0)
  have w5 := Server.retain_wq w4.1
  have g5 := g4.quiet w5 (Acc.of_quiet w5.2 (sent := []) (fun _ => rfl) 0)
  have w6 := Server.stepActive_wqs hc w5.1 _ nowNs hstep
  have g6 := g5.quiet w6.1 (Acc.of_quiet w6.1.2 (w6.2 a) 0)
  simp only [List.nil_append] at eout
  rw [eout] at hsent
  subst hs' hsent hevs
  refine ⟨g6.1.of_eq rfl rfl rfl rfl rfl, ?_⟩
  rcases g6.2 with hin | ⟨hna, hineq⟩
  · left
    simpa using hin
  · right
    refine ⟨hna, ?_⟩
    show 1472 * (tx + bytesOf a (sent1 ++ sent2 ++ out ++ sent4)) + 36800 * s6.phi a ≤ _
    simp only [bytesOf_nil, Nat.add_zero, bytesOf_append] at hineq ⊢
    omega

/-- The invariant along a run. -/
theorem SRun.G {hc : HC H} {cfg : SrvConfig} {s : Server H} {rx tx : List (Nat × List Nat)} {ev : List SEvent}
    (hr : SRun hc cfg s rx tx ev) (a : Nat) : G a s ev (bytesOf a tx) (bytesOf a rx) := by
  induction hr with
  | init now rng =>
    refine ⟨Server.init_WF cfg now rng, Or.inr ⟨?_, ?_⟩⟩
    · intro c hc; simp [Server.init] at hc
    · simp [bytesOf_nil, Server.phi, Server.owedSum, Server.init]
  | @op s s' rx tx sent ev evs o hrun hap ih =>
    cases o with
    | step nowNs arr =>
      rw [bytesOf_append, bytesOf_append]
      exact ih.step hc nowNs arr hap
    | flush =>
      simp only [Server.apply, Server.flush] at hap
      split at hap
      · cases hap
      · rename_i s1 sent1 hfl
        cases hap
        have w1 := Server.flushActive_wqs hc ih.1 hfl
        have := ih.quiet w1.1 (Acc.of_quiet w1.1.2 (w1.2 a) 0)
        simpa [bytesOf_append, SOp.arrivals, bytesOf_nil] using this
    | drop addr =>
      simp only [Server.apply, Except.ok.injEq, Prod.mk.injEq] at hap
      obtain ⟨rfl, rfl, rfl⟩ := hap
      have w := Server.drop_wq ih.1 addr
      have := ih.quiet w (Acc.of_quiet w.2 (sent := []) (fun _ => rfl) 0)
      simpa [bytesOf_append, SOp.arrivals, bytesOf_nil] using this
    | disconnect addr m =>
      simp only [Server.apply, Except.ok.injEq, Prod.mk.injEq] at hap
      obtain ⟨rfl, rfl, rfl⟩ := hap
      have w := Server.disconnect_wq ih.1 addr m
      have := ih.quiet w (Acc.of_quiet w.2 (sent := []) (fun _ => rfl) 0)
      simpa [bytesOf_append, SOp.arrivals, bytesOf_nil] using this
    | send addr data chan mode =>
      simp only [Server.apply, Except.ok.injEq, Prod.mk.injEq] at hap
      obtain ⟨rfl, rfl, rfl⟩ := hap
      have w := Server.send_wq hc ih.1 addr data chan mode
      have := ih.quiet w (Acc.of_quiet w.2 (sent := []) (fun _ => rfl) 0)
      simpa [bytesOf_append, SOp.arrivals, bytesOf_nil] using this

/-! ### undersized datagrams -/

theorem Server.handleFrame_unknown_nonsyn (hc : HC H) {s : Server H} {addr : Nat} (hf : s.find addr = none)
    (f : Frame) (hns : ∀ v n r p al, f ≠ .syn v n r p al) (nowMs nowNs : Nat) :
    s.handleFrame hc addr f nowMs nowNs = .ok (s, []) := by
  cases f with
  | syn v n r p al => exact absurd rfl (hns v n r p al)
  | hsAck na => simp only [Server.handleFrame, Server.handleHsAck, hf]
  | synAck _ _ _ _ _ => rfl
  | hsError _ _ => rfl
  | disconnect => simp only [Server.handleFrame, Server.handleDisconnect, hf]
  | disconnectAck => simp only [Server.handleFrame, Server.handleDisconnectAck, hf]
  | data x y z => simp only [Server.handleFrame, Server.handleTraffic, hf, Except.map]
  | sync x y => simp only [Server.handleFrame, Server.handleTraffic, hf, Except.map]
  | ack x y z => simp only [Server.handleFrame, Server.handleTraffic, hf, Except.map]

end Uflow.Endpoint
