import Uflow.Lemmas.EpPeerCli

/-!
C09, the peer endpoint's part (server model): a Disconnect frame from an address whose entry is `active`
drains that entry's half connection (`hc.receive`), reports the drained packets, then `disconnect`.
-/

namespace Uflow.Endpoint

open Uflow.Gen Uflow.Codec Uflow.HalfConn

variable {H : Type}

/-- The state `handle_disconnect` produces from an `active` entry `c` of `addr` after `hc.receive` returned `pkts`. -/
def Server.afterDisconnect (s : Server H) (c : RClient H) (addr nowMs : Nat) (pkts : List (List Nat)) : Server H :=
  let s1 : Server H := { s with eventsOut := s.eventsOut ++ pkts.map (SEvent.receive addr) }
  let s2 := s1.put { c with state := .closed }
  { s2 with eventsOut := s2.eventsOut ++ [SEvent.disconnect addr],
            timers := tPush s2.timers { cid := c.cid, kind := .closedTimeout, time := nowMs + SERVER_CLOSED_TIMEOUT_MS, count := 0 } }

/-- Single transition: a Disconnect frame from an address whose entry is `active`. -/
theorem Server.handleDisconnect_active (hc : HC H) (s s' : Server H) (addr nowMs : Nat)
    (out : List (Nat × List Nat)) (c : RClient H) (hh : H) (t : Nat) (sig : Option DisconnectMode)
    (hf : s.find addr = some c) (hst : c.state = .active hh t sig)
    (h : s.handleDisconnect hc addr nowMs = .ok (s', out)) :
    ∃ h' pkts, hc.receive hh = .ok (h', pkts) ∧ s' = s.afterDisconnect c addr nowMs pkts ∧
      s'.eventsOut = s.eventsOut ++ pkts.map (SEvent.receive addr) ++ [SEvent.disconnect addr] ∧
      out = [(addr, discAck)] := by
  unfold Server.handleDisconnect at h
  rw [hf] at h
  simp only [hst] at h
  split at h
  · cases h
  · next h' pkts hr =>
    cases h
    refine ⟨h', pkts, hr, rfl, ?_, rfl⟩
    have hp : ∀ (x : Server H) (y : RClient H), (x.put y).eventsOut = x.eventsOut := by
      intro x y; unfold Server.put; split <;> rfl
    show (Server.put _ _).eventsOut ++ _ = _
    rw [hp]

/-- … and, in a well-formed state, the entry of `addr` is afterwards the same object, `closed`; the entries
of the other addresses are untouched. -/
theorem Server.find_afterDisconnect (s : Server H) (hw : s.WF) (c : RClient H) (addr nowMs : Nat)
    (pkts : List (List Nat)) (hf : s.find addr = some c) (a : Nat) :
    (s.afterDisconnect c addr nowMs pkts).find a = if a = addr then some { c with state := .closed } else s.find a := by
  obtain ⟨hcm, hca⟩ := Server.find_some hf
  have hw1 : ({ s with eventsOut := s.eventsOut ++ pkts.map (SEvent.receive addr) } : Server H).WF :=
    hw.congr rfl rfl rfl (fun _ h => h)
  have h1 : (s.afterDisconnect c addr nowMs pkts).find a =
      (({ s with eventsOut := s.eventsOut ++ pkts.map (SEvent.receive addr) } : Server H).put { c with state := .closed }).find a := rfl
  rw [h1, Server.find_put (c' := { c with state := .closed }) hw1 hcm rfl rfl, hca]
  rfl

end Uflow.Endpoint
