import Uflow.Lemmas.EpPeerSrv3b

/-!
C09, the peer endpoint's part (server model), per-address call trace: the loops of `Server.step`.
-/

namespace Uflow.Endpoint

open Uflow.Gen Uflow.Codec Uflow.HalfConn

variable {H : Type}

theorem Server.put_eventsOut' (x : Server H) (y : RClient H) : (x.put y).eventsOut = x.eventsOut := by
  unfold Server.put; split <;> rfl

theorem Server.hcAt_closing {s : Server H} {a : Nat} {c : RClient H} (hf : s.find a = some c) (hst : c.state = .closing) :
    s.hcAt a = none := by
  unfold Server.hcAt; rw [hf]; simp only [hst]

/-- `handle_frames` from any accumulator, seen from `a`. -/
theorem Server.frames_AT (hc : HC H) (a : Nat) (nowMs nowNs : Nat) : ∀ (arr : List (Nat × List Nat)) (x : Server H)
    (o : List (Nat × List Nat)) (x' : Server H) (o' : List (Nat × List Nat)), x.WF →
    arr.foldlM (Server.frameStep hc nowMs nowNs) (x, o) = .ok (x', o') → ∃ cs, AT hc a x x' cs (trafficAt a arr) [] := by
  intro arr
  induction arr with
  | nil =>
    intro x o x' o' hw h
    simp only [List.foldlM_nil, pure, Except.pure] at h; cases h
    exact ⟨[], AT.refl hc a hw⟩
  | cons y ys ih =>
    intro x o x' o' hw h
    simp only [List.foldlM_cons, bind, Except.bind] at h
    split at h
    · cases h
    · next acc hacc =>
      obtain ⟨x1, o1⟩ := acc
      rw [trafficAt_cons]
      unfold Server.frameStep at hacc
      split at hacc
      · next hd =>
        cases hacc
        obtain ⟨cs, t⟩ := ih x o x' o' hw h
        have : (if y.1 = a then trafficOf [y.2] else []) = [] := by
          split
          · exact trafficOf_single_none y.2 hd
          · rfl
        rw [this]; exact ⟨cs, t⟩
      · next f hd =>
        split at hacc
        · cases hacc
        · next x2 out hfr =>
          cases hacc
          obtain ⟨cs1, t1⟩ := Server.handleFrame_AT hc x x1 hw a y.1 f nowMs nowNs out hfr
          obtain ⟨cs2, t2⟩ := ih x1 _ x' o' t1.1 h
          have : (if y.1 = a then trafficOf [y.2] else []) = offerAt a y.1 f := by
            unfold offerAt; rw [trafficOf_single_some y.2 f hd]
          rw [this]
          exact ⟨cs1 ++ cs2, by simpa using t1.trans t2⟩

/-- One iteration of `flush_active_clients`, seen from `a`. -/
theorem Server.flushActiveStep_AT (hc : HC H) (a : Nat) (acc acc' : Server H × List (Nat × List Nat)) (hw : acc.1.WF)
    (cid : Nat) (h : Server.flushActiveStep hc acc cid = .ok acc') : ∃ cs, AT hc a acc.1 acc'.1 cs [] [] := by
  have tr := Server.flushActiveStep_STr hc acc acc' hw cid h
  obtain ⟨x, o⟩ := acc
  unfold Server.flushActiveStep at h
  simp only at h hw tr ⊢
  split at h
  · cases h; exact ⟨[], AT.refl hc a hw⟩
  · next c2 hb =>
    split at h
    · next h2 t2 sig2 hst2 =>
      split at h
      · cases h
      · next h' rng' frames hflush =>
        cases h
        obtain ⟨hcm, -⟩ := Server.byCid_clients hw hb (by rw [hst2]; intro e; cases e)
        have hwr : ({ x with rng := rng' } : Server H).WF := hw.congr rfl rfl rfl (fun _ h => h)
        have hcm' : c2 ∈ ({ x with rng := rng' } : Server H).clients := hcm
        have hfp := Server.find_put (c' := { c2 with state := .active h' t2 sig2 }) hwr hcm' rfl rfl a
        have hfr : ({ x with rng := rng' } : Server H).find a = x.find a := rfl
        by_cases hca : a = c2.address
        · rw [if_pos hca] at hfp
          have hfa := Server.find_of_mem hw hcm
          rw [← hca] at hfa
          refine ⟨[.flush x.rng], tr.wf, [], tr.events, Or.inr ?_⟩
          rw [Server.hcAt_active hfa hst2, Server.hcAt_active hfp rfl]
          refine OT.some1 hc h' ?_ (Or.inr rfl) rfl rfl
          simp [replay, HCall.exec, hflush, recvAt, evsOf]
        · rw [if_neg hca, hfr] at hfp
          exact ⟨[], AT.same hc tr.wf ⟨[], tr.events, rfl⟩ hfp⟩
    · cases h; exact ⟨[], AT.refl hc a hw⟩

theorem Server.flushActive_AT (hc : HC H) (a : Nat) (s s1 : Server H) (hw : s.WF) (o1 : List (Nat × List Nat))
    (h : s.flushActive hc = .ok (s1, o1)) : ∃ cs, AT hc a s s1 cs [] [] := by
  rw [Server.flushActive_eq] at h
  refine foldlM_induct (Server.flushActiveStep hc) (fun x => ∃ cs, AT hc a s x.1 cs [] []) ?_ s.active (s, []) (s1, o1)
    ⟨[], AT.refl hc a hw⟩ h
  intro acc cid acc' ⟨cs, t⟩ hstep
  obtain ⟨cs2, t2⟩ := Server.flushActiveStep_AT hc a acc acc' t.1 cid hstep
  exact ⟨cs ++ cs2, by simpa using t.trans t2⟩

/-- The timer loop, seen from `a`: no call on the half connection of `a`. -/
theorem Server.runTimers_AT (hc : HC H) (a : Nat) (nowMs : Nat) (fuel : Nat) : ∀ (s : Server H) (sent : List (Nat × List Nat)),
    s.WF → AT hc a s (Server.runTimers fuel s nowMs sent).1 [] [] [] := by
  induction fuel with
  | zero => intro s sent hw; exact AT.refl hc a hw
  | succ k ih =>
    intro s sent hw
    unfold Server.runTimers
    split
    · exact AT.refl hc a hw
    · split
      · exact AT.refl hc a hw
      · split
        · exact AT.refl hc a hw
        · next t h hp =>
          have h0 : STr s [] ({ s with timers := h } : Server H) :=
            STr.of_same hw rfl rfl rfl (fun _ h => h) rfl rfl rfl
          have a0 : AT hc a s ({ s with timers := h } : Server H) [] [] [] :=
            AT.same hc h0.wf ⟨[], by simp, rfl⟩ rfl
          obtain ⟨e1, h1, hsh⟩ := Server.handleTimer_STr _ h0.wf t nowMs
          have hloc := Server.handleTimer_LocalAt _ h0.wf t nowMs
          have hd := Server.handleTimer_DSub ({ s with timers := h } : Server H) t nowMs
          have hnr : recvAt a e1 = [] := by
            rcases hsh with rfl | ⟨c', _, _, rfl, _⟩
            · rfl
            · exact recvAt_single_nonrecv _ _ (by intro _ _ e; cases e)
          have a1 : AT hc a ({ s with timers := h } : Server H) (({ s with timers := h } : Server H).handleTimer t nowMs).1 [] [] [] := by
            cases ho : ({ s with timers := h } : Server H).hcAt a with
            | none => exact AT.noHc hc _ _ h1.wf e1 h1.events hnr ho (Server.hcAt_none_of_DSub hd ho)
            | some hh =>
              obtain ⟨ca, ta, siga, hfa, hsa⟩ := Server.hcAt_some ho
              rcases hloc with hl | ⟨c, hb, hcm, -, hl, -⟩
              · rw [hl]; exact AT.refl hc a h0.wf
              · by_cases hca : a = c.address
                · have hfc := Server.find_of_mem h0.wf hcm
                  rw [← hca, hfa] at hfc; cases hfc
                  have : ({ s with timers := h } : Server H).handleTimer t nowMs = (({ s with timers := h } : Server H), []) := by
                    unfold Server.handleTimer; rw [hb]; simp only [hsa]
                  rw [this]; exact AT.refl hc a h0.wf
                · refine AT.same hc h1.wf ⟨e1, h1.events, ?_⟩ (hl.find a hca)
                  rcases hsh with rfl | ⟨c', hb', _, rfl, _⟩
                  · rfl
                  · rw [hb] at hb'; cases hb'
                    exact evsOf_none (b := c.address) (by simp [SEvent.addr]) hca
          rcases hx : ({ s with timers := h } : Server H).handleTimer t nowMs with ⟨s1, o1⟩
          rw [hx] at a1 h1
          have a2 := ih s1 (sent ++ o1) h1.wf
          simpa using (a0.trans a1).trans a2

/-- One iteration of the active-timeout loop, seen from `a`. -/
theorem Server.activeTimeoutStep_AT (hc : HC H) (a : Nat) (nowMs : Nat) (x x' : Server H) (hw : x.WF) (cid : Nat)
    (h : Server.activeTimeoutStep hc nowMs x cid = .ok x') : ∃ cs, AT hc a x x' cs [] [] := by
  obtain ⟨evs, tr, hcase⟩ := Server.activeTimeoutStep_STr hc nowMs x x' hw cid h
  rcases hcase with ⟨rfl, rfl⟩ | ⟨c, hh, t, sig, h', pkts, _, hcm, hst, _, hr, rfl, hcl⟩
  · exact ⟨[], AT.refl hc a hw⟩
  · have hff := Server.find_filter_of x x' c.address hcl a
    have hall : ∀ e ∈ pkts.map (SEvent.receive c.address) ++ [SEvent.error c.address .timeout], e.addr = c.address := by
      intro e he
      simp only [List.mem_append, List.mem_map, List.mem_singleton] at he
      rcases he with ⟨_, _, rfl⟩ | rfl <;> rfl
    by_cases hca : a = c.address
    · rw [if_pos hca] at hff
      have hfa := Server.find_of_mem hw hcm
      refine ⟨[.receive], tr.wf, _, tr.events, Or.inr ?_⟩
      have h1 : x'.hcAt a = none := by unfold Server.hcAt; rw [hff]
      rw [hca, Server.hcAt_active hfa hst, ← hca, h1, recvAt_append, hca, recvAt_map,
        recvAt_single_nonrecv _ _ (by intro _ _ e; cases e), List.append_nil]
      exact OT.some1 hc h' (replay_receive hc hr) (Or.inl rfl) rfl rfl
    · rw [if_neg hca] at hff
      exact ⟨[], AT.same hc tr.wf (QuietAt.of_STr tr hall hca) hff⟩

theorem Server.activeTimeouts_AT (hc : HC H) (a : Nat) (s s' : Server H) (hw : s.WF) (nowMs : Nat)
    (h : s.activeTimeouts hc nowMs = .ok s') : ∃ cs, AT hc a s s' cs [] [] := by
  rw [Server.activeTimeouts_eq] at h
  refine foldlM_induct (Server.activeTimeoutStep hc nowMs) (fun x => ∃ cs, AT hc a s x cs [] []) ?_ s.active s s'
    ⟨[], AT.refl hc a hw⟩ h
  intro x cid x' ⟨cs, t⟩ hstep
  obtain ⟨cs2, t2⟩ := Server.activeTimeoutStep_AT hc a nowMs x x' t.1 cid hstep
  exact ⟨cs ++ cs2, by simpa using t.trans t2⟩

/-- One iteration of `step_active_clients`, seen from `a`. -/
theorem Server.stepActiveStep_AT (hc : HC H) (a : Nat) (nowMs nowNs : Nat) (acc acc' : Server H × List (Nat × List Nat))
    (hw : acc.1.WF) (cid : Nat) (h : Server.stepActiveStep hc nowMs nowNs acc cid = .ok acc') :
    ∃ cs, AT hc a acc.1 acc'.1 cs [] [] := by
  obtain ⟨evs0, tr, -⟩ := Server.stepActiveStep_STr hc nowMs nowNs acc acc' hw cid h
  obtain ⟨x, o⟩ := acc
  unfold Server.stepActiveStep at h
  simp only at h hw tr ⊢
  split at h
  · cases h; exact ⟨[], AT.refl hc a hw⟩
  · next c2 hb =>
    split at h
    · next h2 t2 sig2 hst2 =>
      obtain ⟨hcm, -⟩ := Server.byCid_clients hw hb (by rw [hst2]; intro e; cases e)
      have hfa := Server.find_of_mem hw hcm
      have hall : ∀ pkts : List (List Nat), ∀ e ∈ pkts.map (SEvent.receive c2.address), e.addr = c2.address := by
        intro pkts e he
        simp only [List.mem_map] at he
        obtain ⟨_, _, rfl⟩ := he; rfl
      split at h
      · split at h
        · cases h
        · next hx pkts hr =>
          cases h
          have hwe : ({ x with eventsOut := x.eventsOut ++ pkts.map (SEvent.receive c2.address) } : Server H).WF :=
            hw.congr rfl rfl rfl (fun _ h => h)
          have hfp := Server.find_put (c' := { c2 with state := .closing }) hwe hcm rfl rfl a
          have hev : ∀ y : Server H, y = ({ (({ x with eventsOut := x.eventsOut ++ pkts.map (SEvent.receive c2.address) } : Server H).put
              { c2 with state := .closing }) with timers := tPush (({ x with eventsOut := x.eventsOut ++ pkts.map (SEvent.receive c2.address) } : Server H).put
              { c2 with state := .closing }).timers (discTimer c2.cid nowMs) } : Server H) →
              y.eventsOut = x.eventsOut ++ pkts.map (SEvent.receive c2.address) ∧
              y.find a = if a = c2.address then some { c2 with state := .closing } else x.find a := by
            intro y e; subst e
            exact ⟨Server.put_eventsOut' _ _, hfp⟩
          obtain ⟨e1, e2⟩ := hev _ rfl
          by_cases hca : a = c2.address
          · rw [if_pos hca] at e2
            refine ⟨[.receive], tr.wf, _, e1, Or.inr ?_⟩
            rw [Server.hcAt_closing e2 rfl, hca, Server.hcAt_active hfa hst2, recvAt_map]
            exact OT.some1 hc hx (replay_receive hc hr) (Or.inl rfl) rfl rfl
          · rw [if_neg hca] at e2
            exact ⟨[], AT.same hc tr.wf ⟨_, e1, evsOf_none (hall pkts) hca⟩ e2⟩
      · split at h
        · cases h
        · next h1 hstp =>
          split at h
          · cases h
          · next h3 pkts hr =>
            cases h
            have hfp := Server.find_put (c' := { c2 with state := .active h3 t2 sig2 }) hw hcm rfl rfl a
            have e1 : ∀ y : Server H, y = ({ (x.put { c2 with state := .active h3 t2 sig2 }) with
                eventsOut := (x.put { c2 with state := .active h3 t2 sig2 }).eventsOut ++ pkts.map (SEvent.receive c2.address) } : Server H) →
                y.eventsOut = x.eventsOut ++ pkts.map (SEvent.receive c2.address) ∧
                y.find a = if a = c2.address then some { c2 with state := .active h3 t2 sig2 } else x.find a := by
              intro y e; subst e
              exact ⟨by rw [Server.put_eventsOut'], hfp⟩
            obtain ⟨e1, e2⟩ := e1 _ rfl
            by_cases hca : a = c2.address
            · rw [if_pos hca] at e2
              refine ⟨[.step nowNs, .receive], tr.wf, _, e1, Or.inr ?_⟩
              rw [Server.hcAt_active e2 rfl, hca, Server.hcAt_active hfa hst2, recvAt_map]
              refine OT.some1 hc h3 ?_ (Or.inr rfl) rfl rfl
              simp [replay, HCall.exec, hstp, hr]
            · rw [if_neg hca] at e2
              exact ⟨[], AT.same hc tr.wf ⟨_, e1, evsOf_none (hall pkts) hca⟩ e2⟩
    · cases h; exact ⟨[], AT.refl hc a hw⟩

theorem Server.stepActive_AT (hc : HC H) (a : Nat) (s s' : Server H) (hw : s.WF) (nowMs nowNs : Nat)
    (o : List (Nat × List Nat)) (h : s.stepActive hc nowMs nowNs = .ok (s', o)) : ∃ cs, AT hc a s s' cs [] [] := by
  rw [Server.stepActive_eq] at h
  refine foldlM_induct (Server.stepActiveStep hc nowMs nowNs) (fun x => ∃ cs, AT hc a s x.1 cs [] []) ?_ s.active (s, []) (s', o)
    ⟨[], AT.refl hc a hw⟩ h
  intro acc cid acc' ⟨cs, t⟩ hstep
  obtain ⟨cs2, t2⟩ := Server.stepActiveStep_AT hc a nowMs nowNs acc acc' t.1 cid hstep
  exact ⟨cs ++ cs2, by simpa using t.trans t2⟩

end Uflow.Endpoint
