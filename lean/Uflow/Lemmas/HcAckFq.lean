import Uflow.Lemmas.FrameQCullRun

/-!
C15 (half connection), part 2: frame-queue facts about sequences of ack groups followed by a
transfer-window advance: how the log evolves (`LogLe`, `Sub`), which groups are dead (`GroupDead`)
and that dead groups stay dead.
-/

namespace Uflow.FrameQ

open Uflow Uflow.Codec

/-! ### vocabulary -/

/-- Every frame the group covers is in the log. -/
def AllLogged (s : State) (g : AckGroup) : Prop :=
  ∀ i, i < bitfieldSize g.bitfield → getFrame s (wadd32 g.baseId i) ≠ none

/-- The group covers only logged frames and carries the XOR of the nonces of the frames it claims:
what a peer that received those frames sends. -/
def AckGenuine (s : State) (g : AckGroup) : Prop := AllLogged s g ∧ g.nonce = claimedNonce s g

/-- A genuine group claiming at least one logged frame that has not been acknowledged yet. -/
def AckFresh (s : State) (g : AckGroup) : Prop :=
  AckGenuine s g ∧ ∃ i e, i < bitfieldSize g.bitfield ∧ g.bitfield / 2^i % 2 = 1 ∧
    getFrame s (wadd32 g.baseId i) = some e ∧ e.acked = false

/-- The group names a frame that is not in the log (never sent, or forgotten), or carries the wrong
nonce (forged), or claims only frames already acknowledged (replayed). -/
def GroupDead (s : State) (g : AckGroup) : Prop :=
  (∃ i, i < bitfieldSize g.bitfield ∧ getFrame s (wadd32 g.baseId i) = none) ∨
  (AllLogged s g ∧ g.nonce ≠ claimedNonce s g) ∨
  (∀ i, i < bitfieldSize g.bitfield → g.bitfield / 2^i % 2 = 1 →
    ∀ e, getFrame s (wadd32 g.baseId i) = some e → e.acked = true)

theorem groupDead_noop (s : State) (g : AckGroup) (rtt : Option Nat) (h : GroupDead s g) :
    acknowledgeGroup s g rtt = .ok (s, []) := by
  rcases h with ⟨i, hi, hn⟩ | ⟨hall, hn⟩ | hr
  · exact acknowledgeGroup_unknown s g rtt i hi hn
  · exact acknowledgeGroup_bad_nonce s g rtt hall hn
  · exact acknowledgeGroup_replay s g rtt hr

theorem groupDead_of_not_fresh (s : State) (g : AckGroup) (h : ¬ AckFresh s g) : GroupDead s g := by
  by_cases hall : AllLogged s g
  · by_cases hn : g.nonce = claimedNonce s g
    · right; right
      intro i hi hb e he
      cases ha : e.acked with
      | true => rfl
      | false => exact absurd ⟨⟨hall, hn⟩, i, e, hi, hb, he, ha⟩ h
    · exact .inr (.inl ⟨hall, hn⟩)
  · left
    apply Classical.byContradiction
    intro hne
    apply hall
    intro i hi hnone
    exact hne ⟨i, hi, hnone⟩

theorem not_fresh_of_groupDead (s : State) (g : AckGroup) (h : GroupDead s g) : ¬ AckFresh s g := by
  intro ⟨⟨hall, hn⟩, i, e, hi, hb, he, ha⟩
  rcases h with ⟨j, hj, hnone⟩ | ⟨_, hn'⟩ | hr
  · exact hall j hj hnone
  · exact hn' hn
  · have := hr i hi hb e he
    rw [ha] at this; cases this

/-! ### the log under ack groups -/

/-- What ack groups may do to the log: entries are only marked acknowledged (`EntryLe`); window and
log bounds do not move. (`ackData`, `reorder`, `intervals` are not constrained.) -/
structure LogLe (a b : State) : Prop where
  logNext : b.logNext = a.logNext
  logBase : b.logBase = a.logBase
  lastFeedback : b.lastFeedback = a.lastFeedback
  winBase : b.winBase = a.winBase
  winSize : b.winSize = a.winSize
  tailSize : b.tailSize = a.tailSize
  rateLimited : b.rateLimited = a.rateLimited
  len : b.frames.length = a.frames.length
  frames : ∀ (k : Nat) (e : Entry), a.frames[k]? = some e → ∃ e', b.frames[k]? = some e' ∧ EntryLe e e'

theorem LogLe.refl (s : State) : LogLe s s :=
  ⟨rfl, rfl, rfl, rfl, rfl, rfl, rfl, rfl, fun _ e h => ⟨e, h, EntryLe.refl e⟩⟩

theorem LogLe.trans {a b c : State} (h1 : LogLe a b) (h2 : LogLe b c) : LogLe a c where
  logNext := h2.logNext.trans h1.logNext
  logBase := h2.logBase.trans h1.logBase
  lastFeedback := h2.lastFeedback.trans h1.lastFeedback
  winBase := h2.winBase.trans h1.winBase
  winSize := h2.winSize.trans h1.winSize
  tailSize := h2.tailSize.trans h1.tailSize
  rateLimited := h2.rateLimited.trans h1.rateLimited
  len := h2.len.trans h1.len
  frames := fun k e h => by
    obtain ⟨e1, he1, hl1⟩ := h1.frames k e h
    obtain ⟨e2, he2, hl2⟩ := h2.frames k e1 he1
    exact ⟨e2, he2, hl1.trans hl2⟩

theorem LogLe.of_ackRel {a b : State} (d : Option AckData) (h : AckRel a { b with ackData := d }) :
    LogLe a b :=
  ⟨h.logNext, h.logBase, h.lastFeedback, h.winBase, h.winSize, h.tailSize, h.rateLimited, h.len,
    h.frames⟩

theorem acknowledgeGroup_logLe {s s1 : State} {g : AckGroup} {rtt : Option Nat}
    {f1 : List (Nat × Nat)} (h : acknowledgeGroup s g rtt = .ok (s1, f1)) : LogLe s s1 :=
  LogLe.of_ackRel _ (acknowledgeGroup_rel h)

theorem LogLe.frames_back {a b : State} (h : LogLe a b) (k : Nat) (e' : Entry)
    (hk : b.frames[k]? = some e') : ∃ e, a.frames[k]? = some e ∧ EntryLe e e' := by
  have hlt : k < a.frames.length := by
    have := (List.getElem?_eq_some_iff.mp hk).1
    rw [h.len] at this; exact this
  have hs : a.frames[k]? = some a.frames[k] := List.getElem?_eq_getElem hlt
  obtain ⟨e2, he2, hl⟩ := h.frames k _ hs
  rw [hk] at he2; cases he2
  exact ⟨_, hs, hl⟩

/-- `b`'s log is a part of `a`'s log, entries possibly marked acknowledged since. -/
def Sub (a b : State) : Prop :=
  ∀ id e2, getFrame b id = some e2 → ∃ e, getFrame a id = some e ∧ EntryLe e e2

theorem Sub.refl (s : State) : Sub s s := fun _ e h => ⟨e, h, EntryLe.refl e⟩

theorem Sub.trans {a b c : State} (h1 : Sub a b) (h2 : Sub b c) : Sub a c := by
  intro id e3 h3
  obtain ⟨e2, he2, hl2⟩ := h2 id e3 h3
  obtain ⟨e1, he1, hl1⟩ := h1 id e2 he2
  exact ⟨e1, he1, hl1.trans hl2⟩

theorem LogLe.sub {a b : State} (h : LogLe a b) : Sub a b := by
  intro id e2 h2
  unfold getFrame at h2 ⊢
  rw [h.logBase] at h2
  exact h.frames_back _ e2 h2

/-- Under `LogLe` the same ids are logged. -/
theorem LogLe.getFrame_some {a b : State} (h : LogLe a b) (id : Nat) (e : Entry)
    (he : getFrame a id = some e) : ∃ e', getFrame b id = some e' ∧ EntryLe e e' := by
  unfold getFrame at he ⊢
  rw [h.logBase]
  exact h.frames _ e he

theorem Sub.getFrame_none {a b : State} (h : Sub a b) (id : Nat) (hn : getFrame a id = none) :
    getFrame b id = none := by
  cases hb : getFrame b id with
  | none => rfl
  | some e2 =>
    obtain ⟨e, he, _⟩ := h id e2 hb
    rw [hn] at he; cases he

theorem Sub.nonceAt_eq {a b : State} (h : Sub a b) (id : Nat) (hk : getFrame b id ≠ none) :
    FrameQ.nonceAt b id = FrameQ.nonceAt a id := by
  unfold FrameQ.nonceAt
  cases hb : getFrame b id with
  | none => exact absurd hb hk
  | some e2 =>
    obtain ⟨e, he, hl⟩ := h id e2 hb
    rw [he]
    exact hl.fields.2.2.1

theorem foldl_congr_mem {α β : Type} (f g : β → α → β) (l : List α)
    (h : ∀ acc, ∀ i ∈ l, f acc i = g acc i) (acc : β) : l.foldl f acc = l.foldl g acc := by
  induction l generalizing acc with
  | nil => rfl
  | cons i l ih =>
    rw [List.foldl_cons, List.foldl_cons, h acc i List.mem_cons_self]
    exact ih (fun acc j hj => h acc j (List.mem_cons_of_mem _ hj)) _

theorem foldl_nonce_congr (a b : State) (base : Nat) (l : List Nat)
    (h : ∀ i ∈ l, nonceAt b (wadd32 base i) = nonceAt a (wadd32 base i)) (acc : Bool) :
    l.foldl (fun acc i => acc != nonceAt b (wadd32 base i)) acc =
      l.foldl (fun acc i => acc != nonceAt a (wadd32 base i)) acc := by
  apply foldl_congr_mem
  intro acc i hi
  exact congrArg (fun x => acc != x) (h i hi)

/-- The nonce a group should carry does not change while all frames it covers stay logged. -/
theorem Sub.claimedNonce_eq {a b : State} (h : Sub a b) (g : AckGroup) (hall : AllLogged b g) :
    FrameQ.claimedNonce b g = FrameQ.claimedNonce a g := by
  unfold FrameQ.claimedNonce
  apply foldl_nonce_congr
  intro i hi
  have hi' := (List.mem_filter.mp hi).1
  exact h.nonceAt_eq _ (hall i (List.mem_range.mp hi'))

/-- A dead group stays dead in every later log. -/
theorem GroupDead.sub {a b : State} {g : AckGroup} (hd : GroupDead a g) (h : Sub a b) :
    GroupDead b g := by
  rcases hd with ⟨i, hi, hn⟩ | ⟨hall, hn⟩ | hr
  · exact .inl ⟨i, hi, h.getFrame_none _ hn⟩
  · by_cases hb : AllLogged b g
    · refine .inr (.inl ⟨hb, ?_⟩)
      rw [h.claimedNonce_eq g hb]; exact hn
    · left
      apply Classical.byContradiction
      intro hne
      apply hb
      intro i hi hnone
      exact hne ⟨i, hi, hnone⟩
  · right; right
    intro i hi hb e2 he2
    obtain ⟨e, he, hl⟩ := h _ e2 he2
    exact hl.acked_mono (hr i hi hb e he)

/-- After `acknowledge_group` has processed a group, the group is dead. -/
theorem acknowledgeGroup_dead {s s1 : State} {g : AckGroup} {rtt : Option Nat}
    {f1 : List (Nat × Nat)} (h : acknowledgeGroup s g rtt = .ok (s1, f1)) : GroupDead s1 g := by
  have hsub := (acknowledgeGroup_logLe h).sub
  by_cases hall : AllLogged s g
  · by_cases hn : g.nonce = claimedNonce s g
    · right; right
      intro i hi hb e he
      obtain ⟨e', he', ha⟩ := acknowledgeGroup_marks h hall hn i hi hb
      rw [he] at he'; cases he'; exact ha
    · exact GroupDead.sub (.inr (.inl ⟨hall, hn⟩)) hsub
  · have : ∃ i, i < bitfieldSize g.bitfield ∧ getFrame s (wadd32 g.baseId i) = none := by
      apply Classical.byContradiction
      intro hne
      apply hall
      intro i hi hnone
      exact hne ⟨i, hi, hnone⟩
    exact GroupDead.sub (.inl this) hsub

/-- Soundness of one group in terms of an earlier log `s0`. -/
theorem acknowledgeGroup_sound_from {s0 s s1 : State} {g : AckGroup} {rtt : Option Nat}
    {f1 : List (Nat × Nat)} (h0 : LogLe s0 s) (h : acknowledgeGroup s g rtt = .ok (s1, f1)) :
    ∀ p ∈ f1, AckGenuine s0 g ∧ ∃ i e, i < bitfieldSize g.bitfield ∧ g.bitfield / 2^i % 2 = 1 ∧
      getFrame s0 (wadd32 g.baseId i) = some e ∧ e.acked = false ∧ p ∈ e.refs := by
  intro p hp
  rcases acknowledgeGroup_inv h with ⟨_, h2⟩ | ⟨hall, hn, s2, lst, tot, rl, hl, _⟩
  · subst h2; cases hp
  · obtain ⟨_, _, hmem⟩ := ackLoop_spec g rtt _ _ _ _ _ _ _ _ _ _ _ hl
    have hall0 : AllLogged s0 g := by
      intro i hi hnone
      exact hall i hi (h0.sub.getFrame_none _ hnone)
    refine ⟨⟨hall0, ?_⟩, ?_⟩
    · rw [hn]; exact h0.sub.claimedNonce_eq g hall
    · rcases hmem p hp with hp' | ⟨i, hi, hb, e, he, ha, hpe⟩
      · cases hp'
      · have he' : getFrame s (wadd32 g.baseId i) = some e := he
        obtain ⟨e0, he0, hle⟩ := h0.sub _ e he'
        have : e = e0 := by
          rcases hle with hle | ⟨_, hle⟩
          · exact hle
          · rw [hle] at ha; cases ha
        subst this
        exact ⟨i, e, List.mem_range.mp hi, hb, he0, ha, hpe⟩

/-! ### `cull_log_entries`, `advance_transfer_window` -/

/-- What `cull` does to the log: a prefix of `d nb logBase` entries is dropped. -/
theorem cullG_drop (ac : State → Option Nat → Cb → List Interval → R (List Interval))
    (adv : Reorder → Nat → R (Reorder × Cb)) (can : Reorder → Nat → Bool) (d : Nat → Nat → Nat)
    (s s' : State) (nb : Nat) (rtt : Option Nat) (h : cullG ac adv can d s nb rtt = .ok s') :
    s'.frames = s.frames.drop (d nb s.logBase) ∧ s'.logBase = nb ∧ d nb s.logBase ≤ s.frames.length ∧
      s'.winBase = s.winBase ∧ s'.logNext = s.logNext ∧ s'.ackData = s.ackData ∧
      s'.lastFeedback = s.lastFeedback := by
  unfold cullG at h
  by_cases hcan : can s.reorder nb = true
  · rw [if_pos hcan] at h
    cases hadv : adv s.reorder nb with
    | error t => rw [hadv] at h; cases h
    | ok v =>
      obtain ⟨r', cb⟩ := v
      rw [hadv] at h
      simp only [] at h
      cases hl : ac s rtt cb s.intervals with
      | error t => rw [hl] at h; cases h
      | ok l =>
        rw [hl] at h
        simp only [] at h
        split at h
        · cases h
        · rename_i hk
          simp only [Except.ok.injEq] at h
          subst h
          exact ⟨rfl, rfl, by omega, rfl, rfl, rfl, rfl⟩
  · rw [if_neg hcan] at h
    simp only [] at h
    split at h
    · cases h
    · rename_i hk
      simp only [Except.ok.injEq] at h
      subst h
      exact ⟨rfl, rfl, by omega, rfl, rfl, rfl, rfl⟩

theorem cull_drop (s s' : State) (nb : Nat) (rtt : Option Nat) (h : cull s nb rtt = .ok s') :
    s'.frames = s.frames.drop (wsub32 nb s.logBase) ∧ s'.logBase = nb ∧
      wsub32 nb s.logBase ≤ s.frames.length ∧ s'.winBase = s.winBase ∧ s'.logNext = s.logNext ∧
      s'.ackData = s.ackData ∧ s'.lastFeedback = s.lastFeedback := by
  rw [cull_eq_G] at h
  exact cullG_drop _ _ _ _ s s' nb rtt h

theorem wsub32_chain (a b c : Nat) (h : wsub32 b c + wsub32 a b < 2^32) :
    wsub32 b c + wsub32 a b = wsub32 a c := by
  unfold wsub32 at *; omega

/-- Dropping a prefix of the log and moving the log base accordingly keeps the remaining entries under
their ids (log no longer than the id space). -/
theorem sub_of_drop (s s' : State) (nb : Nat) (hlen : s.frames.length ≤ 2^32)
    (hf : s'.frames = s.frames.drop (wsub32 nb s.logBase)) (hb : s'.logBase = nb) : Sub s s' := by
  intro id e2 h2
  unfold getFrame at h2 ⊢
  rw [hf, hb, List.getElem?_drop] at h2
  have hlt := (List.getElem?_eq_some_iff.mp h2).1
  rw [wsub32_chain id nb s.logBase (by omega)] at h2
  exact ⟨e2, h2, EntryLe.refl e2⟩

/-- The three outcomes of `advance_transfer_window`. -/
theorem atwG_shape (can : State → Nat → Bool) (cl : State → Nat → Option Nat → R State)
    (d : Nat → Nat → Nat) (s s' : State) (nb : Nat) (rtt : Option Nat)
    (h : atwG can cl d s nb rtt = .ok s') :
    (¬ can s nb = true ∧ s' = s) ∨
    (can s nb = true ∧ (s' = { s with winBase := nb } ∨
      cl { s with winBase := nb } (d nb s.tailSize) rtt = .ok s')) := by
  by_cases hcan : can s nb = true
  · right
    refine ⟨hcan, ?_⟩
    by_cases hd : d (d nb s.tailSize) s.logBase ≠ 0 ∧ d (d nb s.tailSize) s.logBase ≤ s.frames.length % 2^32
    · rw [atwG_cull _ _ _ s nb rtt hcan hd] at h
      exact .inr h
    · rw [atwG_keep _ _ _ s nb rtt hcan hd] at h
      simp only [Except.ok.injEq] at h
      exact .inl h.symm
  · left
    rw [atwG_no _ _ _ s nb rtt hcan] at h
    simp only [Except.ok.injEq] at h
    exact ⟨hcan, h.symm⟩

/-- `advance_transfer_window` keeps the surviving log entries, never touches the feedback accumulator,
and either ignores the new base or adopts it. -/
theorem atw_spec (s s' : State) (nb : Nat) (rtt : Option Nat) (hlen : s.frames.length ≤ 2^32)
    (h : advanceTransferWindow s nb rtt = .ok s') :
    Sub s s' ∧ s'.ackData = s.ackData ∧ s'.lastFeedback = s.lastFeedback ∧ s'.logNext = s.logNext ∧
      ((canAdvanceTransferWindow s nb = false ∧ s' = s) ∨
       (canAdvanceTransferWindow s nb = true ∧ s'.winBase = nb)) := by
  rw [atw_eq_G] at h
  rcases atwG_shape _ _ _ s s' nb rtt h with ⟨hc, rfl⟩ | ⟨hc, rfl | hcl⟩
  · refine ⟨Sub.refl _, rfl, rfl, rfl, .inl ⟨?_, rfl⟩⟩
    cases hx : canAdvanceTransferWindow s' nb with
    | false => rfl
    | true => exact absurd hx hc
  · exact ⟨fun id e h => ⟨e, h, EntryLe.refl e⟩, rfl, rfl, rfl, .inr ⟨hc, rfl⟩⟩
  · obtain ⟨c1, c2, c3, c4, c5, c6, c7⟩ := cull_drop _ s' _ rtt hcl
    refine ⟨?_, c6, c7, c5, .inr ⟨hc, c4⟩⟩
    have := sub_of_drop { s with winBase := nb } s' (wsub32 nb s.tailSize) hlen c1 c2
    intro id e2 h2
    exact this id e2 h2

/-- A second `advance_transfer_window` with the same base does nothing. -/
theorem atw_idem (s s' : State) (nb : Nat) (rtt : Option Nat) (hlen : s.frames.length ≤ 2^32)
    (h : advanceTransferWindow s nb rtt = .ok s') : advanceTransferWindow s' nb rtt = .ok s' := by
  obtain ⟨_, _, _, hn, hcase⟩ := atw_spec s s' nb rtt hlen h
  rw [atw_eq_G]
  apply atwG_no
  rcases hcase with ⟨hc, rfl⟩ | ⟨_, hw⟩
  · rw [hc]; exact Bool.false_ne_true
  · intro hcan
    unfold canAdvanceTransferWindow at hcan
    have := of_decide_eq_true hcan
    rw [hw] at this
    have h0 : wsub32 nb nb = 0 := by unfold wsub32; omega
    exact this.1 h0

end Uflow.FrameQ
