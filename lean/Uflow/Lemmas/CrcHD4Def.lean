import Std.Data.HashSet
import Uflow.Lemmas.CrcHD

/-!
The executable weight-4 search and its soundness proof (no `native_decide` in this file; the
search is *run* in `Uflow/Lemmas/CrcHD4.lean`).

`hd4Slice lo hi = true` means: for every `x` with `lo ≤ x < hi` and every `y` with `x < y < hdBits`
the register `u0 ^^^ u x ^^^ u y` is not among `u 0, …, u (hdBits-1)`.
-/

namespace Uflow.Crc

/-- `[r, σ r, …, σ^(n-1) r]`. -/
def orbit : Nat → BitVec 32 → List (BitVec 32)
  | 0, _ => []
  | n+1, r => r :: orbit n (bitStep r)

theorem orbit_getElem? : ∀ n r i, i < n → (orbit n r)[i]? = some (bitSteps i r)
  | 0, _, i, h => absurd h (by omega)
  | n+1, r, 0, _ => rfl
  | n+1, r, i+1, h => by
    show (orbit n (bitStep r))[i]? = _
    exact orbit_getElem? n (bitStep r) i (by omega)

/-- All `u z`, `z < hdBits`, in order. -/
def uAll : List (BitVec 32) := orbit hdBits u0

theorem uAll_getElem? (z : Nat) (h : z < hdBits) : uAll[z]? = some (u z) :=
  orbit_getElem? hdBits u0 z h

/-- The set of all `u z`, `z < hdBits`. -/
def uSet : Std.HashSet (BitVec 32) := Std.HashSet.ofList uAll

theorem uSet_contains (z : Nat) (h : z < hdBits) : uSet.contains (u z) = true := by
  unfold uSet
  rw [Std.HashSet.contains_ofList, List.contains_iff_mem]
  exact List.mem_of_getElem? (uAll_getElem? z h)

/-- One row of the search: `a` against all later elements `t`. -/
def hd4Row (S : Std.HashSet (BitVec 32)) (a : BitVec 32) (t : List (BitVec 32)) : Bool :=
  let c := u0 ^^^ a
  t.all fun b => !S.contains (c ^^^ b)

/-- The first `k` rows of the list `l`. -/
def hd4Rows (S : Std.HashSet (BitVec 32)) : Nat → List (BitVec 32) → Bool
  | 0, _ => true
  | _+1, [] => true
  | k+1, a :: t => hd4Row S a t && hd4Rows S k t

theorem hd4Rows_spec (S : Std.HashSet (BitVec 32)) : ∀ (k : Nat) (l : List (BitVec 32)),
    hd4Rows S k l = true → ∀ (i j : Nat) (a b : BitVec 32), i < k → i < j →
      l[i]? = some a → l[j]? = some b → S.contains (u0 ^^^ a ^^^ b) = false
  | 0, _, _, i, _, _, _, hi, _, _, _ => absurd hi (by omega)
  | _+1, [], _, _, _, _, _, _, _, ha, _ => by simp at ha
  | k+1, x :: t, h, i, j, a, b, hi, hij, ha, hb => by
    simp only [hd4Rows, Bool.and_eq_true] at h
    obtain ⟨j', rfl⟩ : ∃ j', j = j' + 1 := ⟨j - 1, by omega⟩
    rw [List.getElem?_cons_succ] at hb
    cases i with
    | zero =>
      rw [List.getElem?_cons_zero] at ha
      cases ha
      have hr := h.1
      unfold hd4Row at hr
      rw [List.all_eq_true] at hr
      have := hr b (List.mem_of_getElem? hb)
      simpa using this
    | succ i' =>
      rw [List.getElem?_cons_succ] at ha
      exact hd4Rows_spec S k t h.2 i' j' a b (by omega) (by omega) ha hb

/-- The slice `lo ≤ x < hi` of the weight-4 search. -/
def hd4Slice (lo hi : Nat) : Bool := hd4Rows uSet (hi - lo) (uAll.drop lo)

theorem hd4Slice_sound (lo hi : Nat) (h : hd4Slice lo hi = true)
    (x y z : Nat) (hlo : lo ≤ x) (hhi : x < hi) (hxy : x < y) (hy : y < hdBits) (hz : z < hdBits) :
    u0 ^^^ u x ^^^ u y ≠ u z := by
  intro e
  have hx : x < hdBits := by omega
  have hxa : (uAll.drop lo)[x - lo]? = some (u x) := by
    rw [List.getElem?_drop, ← uAll_getElem? x hx]; congr 1; omega
  have hya : (uAll.drop lo)[y - lo]? = some (u y) := by
    rw [List.getElem?_drop, ← uAll_getElem? y hy]; congr 1; omega
  have := hd4Rows_spec uSet _ _ h (x - lo) (y - lo) (u x) (u y) (by omega) (by omega) hxa hya
  rw [e, uSet_contains z hz] at this
  exact absurd this (by decide)

end Uflow.Crc
