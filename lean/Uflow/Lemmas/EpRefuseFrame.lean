import Uflow.Lemmas.EpRefuseConn
import Uflow.Lemmas.HcSysCodec

/-!
C07 (refusals), part 4: the refusal reason of `handle_handshake_syn` as a function of the SYN and
the server state, and the error frame on the wire.
-/

namespace Uflow.EpRefuse

open Uflow Uflow.Gen Uflow.Codec Uflow.HalfConn Uflow.Endpoint Uflow.EpNoTrap

variable {H : Type}

theorem encode_hsError_mod (n : Nat) (e : HsError) : encode (.hsError (n % 2^32) e) = encode (.hsError n e) := by
  unfold encode
  simp only [encodeBody]
  rw [be32_mod]

/-- What the error datagram parses to (the nonce field is 32 bits wide; a SYN read from the wire
always carries `n < 2^32`). -/
theorem decode_errFrame (n : Nat) (e : HsError) :
    decode ((errFrame n e).take MAX_FRAME_SIZE) = some (.hsError (n % 2^32) e) := by
  unfold errFrame
  rw [← encode_hsError_mod]
  exact decode_hsError _ _ (Nat.mod_lt _ (by decide))

/-- The refusal reason of `handle_handshake_syn` for a SYN (`version`, `max_packet_size = p`,
`max_receive_alloc = al`) from an address without an entry, in the order the code tests them;
`none`: the SYN is accepted. -/
def refusalOf (s : Server H) (v p al : Nat) : Option HsError :=
  if v ≠ PROTOCOL_VERSION then some .version
  else if s.clients.length ≥ s.cfg.maxTotalConnections ∨ s.activeCount ≥ s.cfg.maxActiveConnections then some .serverFull
  else if al < s.cfg.ep.maxPacketSize ∨ p > s.cfg.ep.maxReceiveAlloc then some .config
  else none

theorem refusalOf_none_iff (s : Server H) (v p al : Nat) :
    refusalOf s v p al = none ↔ v = PROTOCOL_VERSION ∧ Room s ∧ s.cfg.ep.maxPacketSize ≤ al ∧ p ≤ s.cfg.ep.maxReceiveAlloc := by
  unfold refusalOf Room
  split
  · simp; omega
  · split
    · simp; omega
    · split
      · simp; omega
      · simp; omega

theorem handleSyn_refusal (s : Server H) (addr v n r p al nowMs : Nat) (hf : s.find addr = none) (e : HsError)
    (he : refusalOf s v p al = some e) :
    s.handleSyn addr v n r p al nowMs = (s.refuse addr (errOfHs e), [(addr, errFrame n e)]) := by
  unfold refusalOf at he
  split at he
  · rename_i hv
    cases he
    exact Server.handleSyn_version hf v n r p al nowMs hv
  · rename_i hv
    have hv : v = PROTOCOL_VERSION := Decidable.of_not_not hv
    subst hv
    split at he
    · rename_i hfull
      cases he
      exact Server.handleSyn_full hf n r p al nowMs hfull
    · rename_i hfull
      split at he
      · rename_i hcfg
        cases he
        exact Server.handleSyn_config hf n r p al nowMs hfull hcfg
      · cases he

end Uflow.EpRefuse
