import Uflow.Lemmas.SyncData
import Uflow.Lemmas.SyncEmit

/-!
Helper lemmas for C11, part 5: a stage of `flush` that stops (`Err(())` of `emit_frames`) either has
sent a frame or leaves negative credit.
-/

namespace Uflow.SyncCycle

open Uflow Uflow.Gen Uflow.Codec Uflow.HalfConn Uflow.Credit

variable {F : Type}

/-- Why an emitter stage may stop: it has sent something, or the credit is negative. -/
def StopOk (e : Emit F) : Prop := e.out ≠ [] ∨ e.s.flushAlloc < 0

theorem dfeFinalize_out_ne (e : Emit F) (ip : InProg) (h : e.inProg = some ip) :
    (dfeFinalize e).out ≠ [] := by
  rw [(dfeFinalize_some e ip h).2.2.1]
  exact List.append_ne_nil_of_right_ne_nil _ (List.cons_ne_nil _ _)

theorem dfePush_limited (e e' : Emit F) (p : PSend.Pending) (fid : Nat) (resend : Bool)
    (h : dfePush e p fid resend = .ok (e', some .sizeLimited)) : StopOk e' := by
  simp only [dfePush] at h
  split at h
  · cases h
  · split at h
    · rename_i ip hip
      have hne := dfeFinalize_out_ne e ip hip
      split at h
      · cases h
        exact Or.inl hne
      · split at h
        · split at h
          · cases h
            exact Or.inl hne
          · split at h
            · cases h
            · cases h
        · cases h
    · split at h
      · rename_i hneg
        cases h
        exact Or.inr hneg
      · split at h
        · cases h
        · cases h

theorem resendLoop_stop (fuel : Nat) (e e' : Emit F)
    (h : resendLoop fuel e = .ok (e', some .stop)) : StopOk e' := by
  induction fuel generalizing e with
  | zero => simp [resendLoop] at h
  | succ n ih =>
    unfold resendLoop at h
    split at h
    · cases h
    · simp only at h
      split at h
      · exact ih _ h
      · split at h
        · exact ih _ h
        · split at h
          · cases h
          · split at h
            · cases h
            · cases h
            · rename_i e1 hpush
              cases h
              exact dfePush_limited _ _ _ _ _ hpush
            · split at h
              · cases h
              · exact ih _ h

theorem pendingInner_stop (fuel : Nat) (e e' : Emit F)
    (h : pendingInner fuel e = .ok (e', some .stop)) : StopOk e' := by
  induction fuel generalizing e with
  | zero => simp [pendingInner] at h
  | succ n ih =>
    unfold pendingInner at h
    split at h
    · cases h
    · split at h
      · exact ih _ h
      · split at h
        · exact ih _ h
        · split at h
          · exact ih _ h
          · split at h
            · cases h
            · cases h
            · rename_i e1 hpush
              cases h
              exact dfePush_limited _ _ _ _ _ hpush
            · exact ih _ h

theorem pendingOuter_stop (fuel : Nat) (e e' : Emit F)
    (h : pendingOuter fuel e = .ok (e', some .stop)) : StopOk e' := by
  induction fuel generalizing e with
  | zero => simp [pendingOuter] at h
  | succ n ih =>
    unfold pendingOuter at h
    simp only at h
    split at h
    · cases h
    · cases h
    · split at h
      · cases h
      · rename_i e2 st2 hin
        simp only [Except.ok.injEq, Prod.mk.injEq, Option.some.injEq] at h
        obtain ⟨rfl, rfl⟩ := h
        exact pendingInner_stop _ _ _ hin
      · exact ih _ h

/-- A stopping `emitDataFrames` has sent a frame or leaves negative credit. -/
theorem emitDataFrames_stop (s s' : State F) (out : List (List Nat))
    (h : emitDataFrames s = .ok (s', out, .stop)) : out ≠ [] ∨ s'.flushAlloc < 0 := by
  unfold emitDataFrames at h
  simp only at h
  split at h
  · cases h
  · rename_i e1 st1 hr
    simp only [Except.ok.injEq, Prod.mk.injEq] at h
    obtain ⟨rfl, rfl, rfl⟩ := h
    exact resendLoop_stop _ _ _ hr
  · split at h
    · cases h
    · rename_i e2 st2 hp
      simp only [Except.ok.injEq, Prod.mk.injEq] at h
      obtain ⟨rfl, rfl, rfl⟩ := h
      exact pendingOuter_stop _ _ _ hp
    · cases h

/-- The ack loop only stops with negative credit (given enough fuel, which `emitAckFrames` provides). -/
theorem ackLoop_stop (fb pb : Nat) (fuel : Nat) (s : State F) (ip : Option AckProg)
    (out : List (List Nat)) (hfuel : s.aq.entries.length + 1 ≤ fuel)
    (h : (emitAckFrames.loop (ackFin fb pb) fuel s ip out).2.2 = .stop) :
    (emitAckFrames.loop (ackFin fb pb) fuel s ip out).1.flushAlloc < 0 := by
  revert h
  induction fuel generalizing s ip out with
  | zero => omega
  | succ n ih =>
    simp only [emitAckFrames.loop]
    split
    · intro h; cases h
    · rename_i g rest hent
      have hf : rest.length + 1 ≤ n := by
        rw [hent] at hfuel; simp only [List.length_cons] at hfuel; omega
      split
      · rename_i a
        split
        · rename_i hneg
          intro _
          simp only [ackFin_some, length_encode_ack]
          rw [ackProg_size] at hneg
          omega
        · split
          · split
            · rename_i hneg
              intro _
              exact hneg
            · exact ih _ _ _ hf
          · exact ih _ _ _ hf
      · split
        · rename_i hneg
          intro _
          exact hneg
        · exact ih _ _ _ hf

/-- A stopping `emitAckFrames` leaves negative credit. -/
theorem emitAckFrames_stop (s : State F) (h : (emitAckFrames s).2.2 = .stop) :
    (emitAckFrames s).1.flushAlloc < 0 := by
  rw [emitAckFrames_eq] at h ⊢
  split at h
  · rename_i hc
    rw [if_pos hc]
    exact hc.2
  · rename_i hc
    rw [if_neg hc]
    exact ackLoop_stop _ _ _ _ _ _ (by omega) h

end Uflow.SyncCycle
