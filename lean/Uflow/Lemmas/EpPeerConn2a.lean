import Uflow.Lemmas.EpPeerConn

/-!
C01 / C09 (client model): the ghost call trace with the `send` calls tracked. `sendsOf calls` are the
`(data, channel, mode)` of the `send` calls of a trace; `PT2` / `CP2` extend `PTr` / `CPTr` by: the `send` calls
are a prefix of the sends the application made (`sd`), exactly those while the connection is still `active`.
The transition lemmas `*_CS` are `*_CPTr` of `EpPeerTrace.lean` with the additional fact that the calls of that
transition contain no `send`.
-/

namespace Uflow.Endpoint

open Uflow.Gen Uflow.Codec Uflow.HalfConn

variable {H : Type}

/-- A `send` of the application: data, channel, mode. -/
abbrev SendRec := List Nat × Nat × SendMode

/-- The `(data, channel, mode)` of the `send` calls, in order. -/
def sendsOf (cs : List HCall) : List SendRec :=
  cs.filterMap fun | .send d ch m => some (d, ch, m) | _ => none

theorem sendsOf_append (a b : List HCall) : sendsOf (a ++ b) = sendsOf a ++ sendsOf b := by
  unfold sendsOf; exact List.filterMap_append ..

/-- The sends of the application in a run, in order. -/
def sendsOfOps : List COp → List SendRec
  | [] => []
  | .send d ch m :: ops => (d, ch, m) :: sendsOfOps ops
  | _ :: ops => sendsOfOps ops

theorem Client.handleFrame_CS (hc : HC H) (c c' : Client H) (f : Frame) (nowMs nowNs : Nat)
    (out : List (List Nat)) (hnp : c.state.isPending = false)
    (h : c.handleFrame hc f nowMs nowNs = .ok (c', out)) :
    ∃ cs, sendsOf cs = [] ∧ CPTr hc c c' cs (if isTraffic f then [f] else []) := by
  cases hs : c.state with
  | pending ln req rt rc sends => rw [hs] at hnp; cases hnp
  | fin =>
    rw [Client.handleFrame_fin hc c f nowMs nowNs hs] at h
    cases h
    exact ⟨[], rfl, [], by simp, PTr.idle hc _ (by rw [hs]; rfl) (by rw [hs]; rfl) (by rw [hs]; rfl) rfl⟩
  | closed t =>
    rw [Client.handleFrame_closed hc c f nowMs nowNs t hs] at h
    cases h
    exact ⟨[], rfl, [], by simp, PTr.idle hc _ (by rw [hs]; rfl) (by rw [hs]; rfl) (by rw [hs]; rfl) rfl⟩
  | closing req rt rc =>
    rw [Client.handleFrame_closing hc c f nowMs nowNs req rt rc hs] at h
    cases f <;> cases h
    all_goals first
      | exact ⟨[], rfl, [], by simp, PTr.idle hc _ (by rw [hs]; rfl) (by rw [hs]; rfl) (by rw [hs]; rfl) rfl⟩
      | exact ⟨[], rfl, [CEvent.disconnect], rfl, PTr.idle hc _ rfl (by rw [hs]; rfl) rfl rfl⟩
  | active ln hh t sig =>
    rw [Client.handleFrame_active hc c f nowMs nowNs ln hh t sig hs] at h
    have same : ∀ fr : List Frame, fr = [] → (Except.ok (c, []) : R (Client H × List (List Nat))) = .ok (c', out) →
        ∃ cs, sendsOf cs = [] ∧ CPTr hc c c' cs fr := by
      intro fr hfr e; cases e; subst hfr
      exact ⟨[], rfl, CPTr.refl hc c (by rw [hs]; rfl)⟩
    have traffic : ∀ f', isTraffic f' = true → ((match hc.dispatch hh f' with
        | .error e => .error e
        | .ok h'' => .ok ({ c with state := .active ln h'' (nowMs + c.ep.activeTimeoutMs) sig }, [])) : R (Client H × List (List Nat)))
          = .ok (c', out) → ∃ cs, sendsOf cs = [] ∧ CPTr hc c c' cs (if isTraffic f' then [f'] else []) := by
      intro f' hf' h
      split at h
      · cases h
      · next h'' hdp =>
        cases h
        refine ⟨[.dispatch f'], rfl, [], by simp, ?_⟩
        rw [hs, if_pos hf']
        refine PTr.ofActive hc h'' rfl ?_ (List.prefix_refl _) (fun h' e => by cases e; exact ⟨rfl, rfl⟩)
        simp only [replay, HCall.exec, hdp]; rfl
    cases f with
    | disconnect =>
      simp only at h
      split at h
      · cases h
      · next h' pk hr =>
        cases h
        refine ⟨[.receive], rfl, pk.map CEvent.receive ++ [CEvent.disconnect], by simp, ?_⟩
        rw [hs]
        refine PTr.ofActive hc h' rfl ?_ (List.prefix_refl _) (fun h' e => by cases e)
        rw [recvOf_recv_disc]; exact replay_receive hc hr
    | data sid nn dgs => exact traffic _ rfl h
    | sync a b => exact traffic _ rfl h
    | ack a b c => exact traffic _ rfl h
    | synAck na n r p a =>
      simp only at h
      cases h
      exact ⟨[], rfl, CPTr.refl hc c (by rw [hs]; rfl)⟩
    | syn => exact same _ rfl h
    | hsAck => exact same _ rfl h
    | hsError => exact same _ rfl h
    | disconnectAck => exact same _ rfl h

theorem Client.stepPhase_CS (hc : HC H) (c c' : Client H) (nowMs nowNs : Nat) (out : List (List Nat))
    (hnp : c.state.isPending = false) (h : c.stepPhase hc nowMs nowNs = .ok (c', out)) :
    ∃ cs, sendsOf cs = [] ∧ CPTr hc c c' cs [] := by
  rcases CState.active_or_not c.state with ⟨ln, hh, t, sig, hs⟩ | hna
  · rw [Client.stepPhase_active hc c nowMs nowNs ln hh t sig hs] at h
    split at h
    · split at h
      · cases h
      · next h' pk hr =>
        cases h
        refine ⟨[.receive], rfl, pk.map CEvent.receive, rfl, ?_⟩
        rw [hs]
        refine PTr.ofActive hc h' rfl ?_ (List.prefix_refl _) (fun h' e => by cases e)
        rw [recvOf_map]; exact replay_receive hc hr
    · split at h
      · cases h
      · next h1 hst =>
        split at h
        · cases h
        · next h2 pk hr =>
          cases h
          refine ⟨[.step nowNs, .receive], rfl, pk.map CEvent.receive, rfl, ?_⟩
          rw [hs]
          refine PTr.ofActive hc h2 rfl ?_ (List.prefix_refl _) (fun h' e => by cases e; exact ⟨rfl, rfl⟩)
          simp [replay, HCall.exec, hst, hr, recvOf_map]
  · rw [Client.stepPhase_not_active hc c nowMs nowNs hna] at h
    cases h
    exact ⟨[], rfl, CPTr.refl hc c hnp⟩

theorem Client.flush_CS (hc : HC H) (c c' : Client H) (out : List (List Nat))
    (hnp : c.state.isPending = false) (h : c.flush hc = .ok (c', out)) :
    ∃ cs, sendsOf cs = [] ∧ CPTr hc c c' cs [] := by
  rcases CState.active_or_not c.state with ⟨ln, hh, t, sig, hs⟩ | hna
  · rw [Client.flush_active hc c ln hh t sig hs] at h
    split at h
    · cases h
    · next h1 rng1 fr hfl =>
      cases h
      refine ⟨[.flush c.rng], rfl, [], by simp, ?_⟩
      rw [hs]
      refine PTr.ofActive hc h1 rfl ?_ (List.prefix_refl _) (fun h' e => by cases e; exact ⟨rfl, rfl⟩)
      simp only [replay, HCall.exec, hfl]; rfl
  · rw [Client.flush_not_active hc c hna] at h
    cases h
    exact ⟨[], rfl, CPTr.refl hc c hnp⟩


end Uflow.Endpoint
