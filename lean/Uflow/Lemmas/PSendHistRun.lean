import Uflow.Lemmas.PSendHistInv

/-!
Preservation of the history invariant `HInv` by `acknowledge`, `ackFragment` and whole runs.
-/

namespace Uflow.PSend

open Uflow Uflow.Gen
open Uflow.Props.C20 (Op)

/-- One iteration of the `acknowledge` loop: the oldest window entry leaves the window. -/
theorem hinv_pop (b0 W : Nat) (hW : W < 2^20) (s : State) (h : Hist) (hi : HInv b0 W s h)
    (e : WEntry) (rest : List WEntry) (cp : Option Nat)
    (hw : s.win = e :: rest) (hcp : s.chanParent[e.channelId]? = some cp) :
    HInv b0 W { s with
      windowParentId := if s.windowParentId = some s.baseId then none else s.windowParentId,
      chanParent := if cp = some s.baseId then s.chanParent.set e.channelId none else s.chanParent,
      alloc := s.alloc - e.allocSize,
      totalSize := s.totalSize - e.packet.data.length,
      win := rest,
      baseId := pidAdd s.baseId 1 } h := by
  obtain ⟨old, wl, wi⟩ := hi.win
  have hwlen := wi.wlen
  have hwle := wi.wle
  rw [hw] at hwlen
  cases wl with
  | nil => simp at hwlen
  | cons y wl' =>
    simp only [List.length_cons] at hwlen hwle
    have hch := wi.chans
    rw [hw] at hch
    simp only [List.map_cons, List.cons.injEq] at hch
    obtain ⟨hchy, hchr⟩ := hch
    have hy : h.emitted[old.length]? = some y := by
      rw [wi.em_eq, List.getElem?_append_right (Nat.le_refl _), Nat.sub_self]; rfl
    have hyseq : y.sequenceId = s.baseId := by rw [wi.base]; exact (hi.ids _ _ hy).2.1
    have hdist : ∀ x ∈ wl', x.sequenceId ≠ y.sequenceId := by
      intro x hx heq
      obtain ⟨k, hk⟩ := List.getElem?_of_mem hx
      have hkl : k < wl'.length := (List.getElem?_eq_some_iff.mp hk).1
      have hxe : h.emitted[old.length + (k + 1)]? = some x := by
        rw [wi.em_eq, List.getElem?_append_right (by omega)]
        have : old.length + (k + 1) - old.length = k + 1 := by omega
        rw [this, List.getElem?_cons_succ]; exact hk
      have h1 := (hi.ids _ _ hxe).2.1
      have h2 := (hi.ids _ _ hy).2.1
      rw [h1, h2] at heq
      have := pidAdd_inj b0 old.length (old.length + (k + 1)) (by omega) (by omega) heq.symm
      omega
    refine ⟨hi.wsz, ⟨old ++ [y], wl', ⟨?_, ?_, by omega, ?_, hchr, ?_, ?_⟩⟩, ?_, hi.nuid, hi.nid,
      hi.ids, hi.leads, hi.order, ?_⟩
    · rw [wi.em_eq]; simp
    · simp only; omega
    · simp only [List.length_append, List.length_cons, List.length_nil]
      rw [wi.base, pidAdd_succ]
    · -- window parent
      simp only
      by_cases hp : s.windowParentId = some s.baseId
      · rw [if_pos hp]
        have := wi.wpar
        rw [hp, ← hyseq] at this
        exact (lastIn_head _ _ _ this hdist).2
      · rw [if_neg hp]
        exact lastIn_tail _ _ _ _ wi.wpar (by rw [hyseq]; exact hp)
    · -- channel parents
      intro c par hc
      simp only at hc
      -- the old pointer of channel `c`
      have hold : ∀ par0, s.chanParent[c]? = some par0 → par0 ≠ some s.baseId →
          LastIn (relChanP c) wl' par0 := by
        intro par0 h0 hne
        exact lastIn_tail _ _ _ _ (wi.cpar c par0 h0) (by rw [hyseq]; exact hne)
      have hhead : ∀ c', s.chanParent[c']? = some (some s.baseId) →
          y.channelId = c' ∧ LastIn (relChanP c') wl' none := by
        intro c' h0
        have := wi.cpar c' _ h0
        rw [← hyseq] at this
        have := lastIn_head _ _ _ this hdist
        exact ⟨this.1.2, this.2⟩
      by_cases hcb : cp = some s.baseId
      · rw [if_pos hcb, List.getElem?_set] at hc
        by_cases hcc : e.channelId = c
        · rw [if_pos hcc] at hc
          split at hc
          · cases hc
            rw [hcb, hcc] at hcp
            exact (hhead c hcp).2
          · cases hc
        · rw [if_neg hcc] at hc
          by_cases hpb : par = some s.baseId
          · rw [hpb] at hc
            exact absurd (by rw [hchy]; exact (hhead c hc).1) hcc
          · exact hold par hc hpb
      · rw [if_neg hcb] at hc
        by_cases hpb : par = some s.baseId
        · rw [hpb] at hc
          have h1 := (hhead c hc).1
          rw [← hchy] at h1
          rw [h1, hc] at hcp
          cases hcp
          exact absurd rfl hcb
        · exact hold par hc hpb
    · simp only
      split
      · rw [List.length_set]; exact hi.clen
      · exact hi.clen
    · have := hi.alloc
      simp only
      omega

theorem hinv_ackLoop (b0 W : Nat) (hW : W < 2^20) (h : Hist) (fuel : Nat) (s : State) (rb : Nat)
    (hi : HInv b0 W s h) : ∀ s', ackLoop fuel s rb = .ok s' → HInv b0 W s' h := by
  induction fuel generalizing s with
  | zero => intro s' he; simp [ackLoop] at he
  | succ n ih =>
    intro s' he
    unfold ackLoop at he
    split at he
    · cases he; exact hi
    · split at he
      · cases he
      · rename_i e rest hw
        split at he
        · cases he
        · rename_i cp hcp
          split at he
          · cases he
          · split at he
            · cases he
            · exact ih _ (hinv_pop b0 W hW s h hi e rest cp hw hcp) s' he

theorem hinv_acknowledge (b0 W : Nat) (hW : W < 2^20) (h : Hist) (s : State) (rb : Nat)
    (hi : HInv b0 W s h) : ∀ s', acknowledge s rb = .ok s' → HInv b0 W s' h := by
  intro s' he
  unfold acknowledge at he
  simp only at he
  split at he
  · cases he; exact hi
  · split at he
    · cases he; exact hi
    · exact hinv_ackLoop b0 W hW h _ s rb hi s' he

theorem hinv_ackFragment (b0 W : Nat) (h : Hist) (s : State) (u fid : Nat) (hi : HInv b0 W s h) :
    HInv b0 W (ackFragment s u fid) h := by
  obtain ⟨old, wl, wi⟩ := hi.win
  refine ⟨hi.wsz, ⟨old, wl, ⟨wi.em_eq, ?_, wi.wle, wi.base, ?_, wi.wpar, wi.cpar⟩⟩, hi.clen, hi.nuid,
    hi.nid, hi.ids, hi.leads, hi.order, hi.alloc⟩
  · simp only [ackFragment, List.length_map]; exact wi.wlen
  · rw [← wi.chans]
    simp only [ackFragment, List.map_map]
    apply List.map_congr_left
    intro e _
    simp only [Function.comp]
    split <;> rfl

theorem hinv_stepH (b0 W : Nat) (hW : W < 2^20) (s : State) (h : Hist) (op : Op)
    (hi : HInv b0 W s h) : ∀ s' h', stepH s h op = .ok (s', h') → HInv b0 W s' h' := by
  intro s' h' he
  cases op with
  | enq d c m f =>
    simp only [stepH, Except.ok.injEq, Prod.mk.injEq] at he
    obtain ⟨rfl, rfl⟩ := he
    exact hinv_enqueue b0 W s h d c m f hi
  | emit f =>
    simp only [stepH] at he
    cases hr : emit s f with
    | error t => rw [hr] at he; cases he
    | ok r =>
      obtain ⟨s1, o⟩ := r
      rw [hr] at he
      obtain ⟨dropped, queue, total, hq, hd, hcase⟩ := emit_spec s s1 f o hr
      rcases hcase with ⟨rfl, rfl⟩ | ⟨q, rest, p, resend, chanPar, rfl, rfl, hns, hwin, hal, hcp, hpu, hpd,
        hpc, hps, hpw, hpcl, _, _, rfl⟩
      · simp only [Except.ok.injEq, Prod.mk.injEq] at he
        obtain ⟨rfl, rfl⟩ := he
        exact hinv_emit_none b0 W s h f hi dropped queue total hq hd
      · simp only [Except.ok.injEq, Prod.mk.injEq] at he
        obtain ⟨rfl, rfl⟩ := he
        exact hinv_emit_some b0 W hW s h f hi dropped q rest total p chanPar hq hd hns hwin hal hcp hpu
          hpd hpc hps hpw hpcl
  | ack rb =>
    simp only [stepH] at he
    cases hr : acknowledge s rb with
    | error t => rw [hr] at he; cases he
    | ok s1 =>
      rw [hr] at he
      simp only [Except.ok.injEq, Prod.mk.injEq] at he
      obtain ⟨rfl, rfl⟩ := he
      exact hinv_acknowledge b0 W hW h s rb hi _ hr
  | ackFrag u fid =>
    simp only [stepH, Except.ok.injEq, Prod.mk.injEq] at he
    obtain ⟨rfl, rfl⟩ := he
    exact hinv_ackFragment b0 W h s u fid hi

theorem hinv_runH (b0 W : Nat) (hW : W < 2^20) (ops : List Op) (s : State) (h : Hist)
    (hi : HInv b0 W s h) : ∀ s' h', runH s h ops = .ok (s', h') → HInv b0 W s' h' := by
  induction ops generalizing s h with
  | nil =>
    intro s' h' he
    simp only [runH, Except.ok.injEq, Prod.mk.injEq] at he
    obtain ⟨rfl, rfl⟩ := he
    exact hi
  | cons op rest ih =>
    intro s' h' he
    simp only [runH] at he
    cases hs : stepH s h op with
    | error t => rw [hs] at he; cases he
    | ok r =>
      obtain ⟨s1, h1⟩ := r
      rw [hs] at he
      exact ih s1 h1 (hinv_stepH b0 W hW s h op hi s1 h1 hs) s' h' he

/-- Every run from the initial state satisfies the history invariant. -/
theorem hinv_run_init (w b a : Nat) (hw : w < 2^20) (hb : b < 2^20) (ops : List Op) (s' : State)
    (h' : Hist) (he : runH (init w b a) {} ops = .ok (s', h')) : HInv b w s' h' :=
  hinv_runH b w hw ops _ _ (hinv_init b w a hb) s' h' he

end Uflow.PSend
