import Uflow.Lemmas.EpCeilHc

/-!
C13 (endpoints), part 4: the numeric bound of `CreditBoundSum.lean` / `CreditBoundWire.lean` for event
lists with generator replacements (`GEv`, `grun`). Replacing the generator touches none of the fields
the bound depends on, so the per-event lemmas `exec_bound` / `exec_credit` carry over and the two
telescoping sums are re-assembled for `grun`.
-/

namespace Uflow.EpCeil

open Uflow Uflow.Gen Uflow.Codec Uflow.HalfConn Uflow.Endpoint Uflow.HcInv Uflow.Credit Uflow.CreditBound
open Uflow.Rate (FloatOps BisectConverges)

variable {F : Type}

theorem binv_set_rng {ops : FloatOps F} {eps : Nat} {K : FillOk ops eps} {m : Nat} {s : State F} (r : Rng)
    (hi : BInv K m s) : BInv K m { s with rng := r } :=
  ⟨hi.pok, hi.le, hi.max, hi.good, hi.idle⟩

/-- One event: `exec_bound` and `exec_credit` together. -/
theorem gexec_bound (ops : FloatOps F) {eps : Nat} (K : FillOk ops eps) (m : Nat)
    (hmin : MINIMUM_RATE ≤ m) (hR : m ≤ K.maxRate) (s s1 : State F) (g : GEv)
    (out : List (List Nat)) (hi : BInv K m s) (hok : ∀ ev ∈ erase [g], ev.Ok)
    (ht : stepsOk K.maxDt (lastNow s) (erase [g]) = true)
    (h : gexec ops s g = .ok (s1, out)) :
    BInv K m s1 ∧ lastNow s1 = endTime (lastNow s) (erase [g]) ∧ lastNow s ≤ lastNow s1 ∧
    gcredit ops s g * (G : Int) + (K.v s1.flushFrac : Int) ≤
      ((m * (lastNow s1 - lastNow s) + K.v s.flushFrac + nSteps (erase [g]) * eps : Nat) : Int) ∧
    (bytes out : Int) + max s1.flushAlloc (-(MAX_FRAME_SIZE : Int)) ≤
      max s.flushAlloc (-(MAX_FRAME_SIZE : Int)) + gcredit ops s g := by
  cases g with
  | rng r =>
    simp only [gexec, Except.ok.injEq, Prod.mk.injEq] at h
    obtain ⟨rfl, rfl⟩ := h
    refine ⟨binv_set_rng r hi, rfl, Nat.le_refl _, ?_, ?_⟩
    · show (0 : Int) * (G : Int) + (K.v s.flushFrac : Int) ≤
        ((m * (lastNow s - lastNow s) + K.v s.flushFrac + nSteps [] * eps : Nat) : Int)
      simp only [Nat.sub_self, Nat.mul_zero, nSteps, Nat.zero_mul, G]
      omega
    · show ((bytes [] : Nat) : Int) + max s.flushAlloc (-(MAX_FRAME_SIZE : Int)) ≤
        max s.flushAlloc (-(MAX_FRAME_SIZE : Int)) + 0
      simp only [bytes_nil]
      omega
  | ev e =>
    simp only [gexec] at h
    have hoke : e.Ok := hok e (by simp [erase])
    obtain ⟨ht1, _⟩ := stepsOk_cons _ _ e [] (by simpa [erase] using ht)
    obtain ⟨hi1, hl1, hle1, hb1⟩ := exec_bound ops K m hmin hR s s1 e out hi hoke ht1 h
    have hcr := exec_credit ops s s1 e out hoke hi.pok h
    exact ⟨hi1, by simpa [erase, endTime] using hl1, hle1, by simpa [erase, gcredit] using hb1, hcr.2⟩

theorem erase_cons (g : GEv) (rest : List GEv) : erase (g :: rest) = erase [g] ++ erase rest := by
  rw [← erase_append]; rfl

/-- **The two sums over a run** from a state satisfying `BInv`: the credit granted is at most
`ceiling × elapsed time` (as `run_bound`), and the bytes handed to the sink are at most the credit
consumed (as `run_credit`). -/
theorem grun_bound (ops : FloatOps F) {eps : Nat} (K : FillOk ops eps) (m : Nat)
    (hmin : MINIMUM_RATE ≤ m) (hR : m ≤ K.maxRate) (gevs : List GEv) (s s' : State F)
    (out : List (List Nat)) (c : Int) (hi : BInv K m s) (hok : ∀ ev ∈ erase gevs, ev.Ok)
    (ht : stepsOk K.maxDt (lastNow s) (erase gevs) = true) (h : grun ops s gevs = .ok (s', out, c)) :
    BInv K m s' ∧ lastNow s' = endTime (lastNow s) (erase gevs) ∧ lastNow s ≤ lastNow s' ∧
    c * (G : Int) + (K.v s'.flushFrac : Int) ≤
      ((m * (lastNow s' - lastNow s) + K.v s.flushFrac + nSteps (erase gevs) * eps : Nat) : Int) ∧
    (bytes out : Int) + max s'.flushAlloc (-(MAX_FRAME_SIZE : Int)) ≤
      max s.flushAlloc (-(MAX_FRAME_SIZE : Int)) + c := by
  induction gevs generalizing s out c with
  | nil =>
    simp only [grun, Except.ok.injEq, Prod.mk.injEq] at h
    obtain ⟨rfl, rfl, rfl⟩ := h
    refine ⟨hi, rfl, Nat.le_refl _, ?_, ?_⟩
    · simp only [erase, nSteps, Nat.sub_self, Nat.mul_zero, Nat.zero_mul, G]
      omega
    · simp only [bytes_nil]; omega
  | cons g rest ih =>
    obtain ⟨s1, o1, o2, c2, hex, hrun, rfl, rfl⟩ := grun_cons_inv ops s s' g rest out c h
    rw [erase_cons] at hok ht ⊢
    rw [stepsOk_append, Bool.and_eq_true] at ht
    obtain ⟨hi1, hl1, hle1, hb1, hc1⟩ := gexec_bound ops K m hmin hR s s1 g o1 hi
      (fun e he => hok e (List.mem_append_left _ he)) ht.1 hex
    obtain ⟨hi2, hl2, hle2, hb2, hc2⟩ := ih s1 o2 c2 hi1 (fun e he => hok e (List.mem_append_right _ he))
      (by rw [hl1]; exact ht.2) hrun
    refine ⟨hi2, by rw [hl2, hl1, endTime_append], Nat.le_trans hle1 hle2, ?_, ?_⟩
    · have hmul := mul_sub_add m _ _ _ hle1 hle2
      rw [nSteps_append, Nat.add_mul]
      generalize m * (lastNow s1 - lastNow s) = X1 at hmul hb1
      generalize m * (lastNow s' - lastNow s1) = X2 at hmul hb2
      generalize m * (lastNow s' - lastNow s) = X at hmul ⊢
      generalize nSteps (erase [g]) * eps = E1 at hb1 ⊢
      generalize nSteps (erase rest) * eps = E2 at hb2 ⊢
      generalize gcredit ops s g = c1 at hb1 ⊢
      simp only [G] at hb1 hb2 ⊢
      omega
    · rw [bytes_append, Int.natCast_add]
      omega

/-- Bytes on the wire from an arbitrary state satisfying `BInv` (as `wire_from`). -/
theorem gwire_from (ops : FloatOps F) {eps : Nat} (K : FillOk ops eps) (m : Nat)
    (hmin : MINIMUM_RATE ≤ m) (hR : m ≤ K.maxRate) (gevs : List GEv) (s s' : State F)
    (out : List (List Nat)) (c : Int) (hi : BInv K m s) (hok : ∀ ev ∈ erase gevs, ev.Ok)
    (ht : stepsOk K.maxDt (lastNow s) (erase gevs) = true) (h : grun ops s gevs = .ok (s', out, c)) :
    (bytes out : Int) * (G : Int) ≤
      (max s.flushAlloc (-(MAX_FRAME_SIZE : Int)) + (MAX_FRAME_SIZE : Int)) * (G : Int) +
      ((m * (endTime (lastNow s) (erase gevs) - lastNow s) + K.v s.flushFrac +
        nSteps (erase gevs) * eps : Nat) : Int) := by
  obtain ⟨_, hl, _, hb, hcr⟩ := grun_bound ops K m hmin hR gevs s s' out c hi hok ht h
  rw [hl] at hb
  generalize m * (endTime (lastNow s) (erase gevs) - lastNow s) = X at hb ⊢
  generalize nSteps (erase gevs) * eps = E at hb ⊢
  simp only [G, MAX_FRAME_SIZE] at hb hcr ⊢
  omega

/-- The credit granted by a run without `step` is zero. -/
theorem grun_noStep_credit (ops : FloatOps F) (gevs : List GEv) (s s' : State F) (out : List (List Nat))
    (c : Int) (hns : ∀ ev ∈ erase gevs, ∀ now, ev ≠ .step now) (h : grun ops s gevs = .ok (s', out, c)) :
    c = 0 := by
  induction gevs generalizing s out c with
  | nil =>
    simp only [grun, Except.ok.injEq, Prod.mk.injEq] at h
    exact h.2.2.symm
  | cons g rest ih =>
    obtain ⟨s1, o1, o2, c2, hex, hrun, rfl, rfl⟩ := grun_cons_inv ops s s' g rest out c h
    rw [erase_cons] at hns
    have h2 := ih s1 o2 c2 (fun e he => hns e (List.mem_append_right _ he)) hrun
    have h1 : gcredit ops s g = 0 := by
      cases g with
      | rng r => rfl
      | ev e =>
        cases e with
        | step now => exact absurd rfl (hns _ (List.mem_append_left _ (by simp [erase])) now)
        | _ => rfl
    omega

/-- A run without `step` (as `run_noStep`). -/
theorem grun_noStep (ops : FloatOps F) {eps : Nat} (K : FillOk ops eps) (m : Nat)
    (hmin : MINIMUM_RATE ≤ m) (hR : m ≤ K.maxRate) (gevs : List GEv) (s s' : State F)
    (out : List (List Nat)) (c : Int) (hi : BInv K m s) (hok : ∀ ev ∈ erase gevs, ev.Ok)
    (hns : ∀ ev ∈ erase gevs, ∀ now, ev ≠ .step now) (h : grun ops s gevs = .ok (s', out, c)) :
    BInv K m s' ∧ lastNow s' = lastNow s ∧
    max s'.flushAlloc (-(MAX_FRAME_SIZE : Int)) ≤ max s.flushAlloc (-(MAX_FRAME_SIZE : Int)) := by
  obtain ⟨hi', hl, _, _, hcr⟩ := grun_bound ops K m hmin hR gevs s s' out c hi hok
    (stepsOk_noStep _ _ _ hns) h
  have hc := grun_noStep_credit ops gevs s s' out c hns h
  refine ⟨hi', by rw [hl, endTime_noStep _ _ hns], ?_⟩
  subst hc
  omega

/-- **The interval bound from any state satisfying `BInv`** (as `wire_split`, which starts from a
fresh half connection): `p --step t0--> q --pre2 (no step)--> s --gevs--> s'`. -/
theorem gwire_split (ops : FloatOps F) {eps : Nat} (K : FillOk ops eps) (M : FillMaxOk ops) (m : Nat)
    (hmin : MINIMUM_RATE ≤ m) (hR : m ≤ K.maxRate) (pre2 gevs : List GEv) (t0 : Nat)
    (hok2 : ∀ ev ∈ erase pre2, ev.Ok) (hok3 : ∀ ev ∈ erase gevs, ev.Ok)
    (p q s s' : State F) (hip : BInv K m p)
    (ht0 : lastNow p ≤ t0 ∧ t0 - lastNow p ≤ K.maxDt)
    (ht3 : stepsOk K.maxDt t0 (erase gevs) = true)
    (hns : ∀ ev ∈ erase pre2, ∀ t, ev ≠ .step t)
    (o2 out : List (List Nat)) (c2 c : Int)
    (h2 : step ops p t0 = .ok q)
    (h3 : grun ops q pre2 = .ok (s, o2, c2))
    (h4 : grun ops s gevs = .ok (s', out, c)) :
    bytes out * 1000000000 ≤
      m * ((endTime t0 (erase gevs) - t0) + M.rttNs p.rate.rttS) + 1472500000000 +
        K.v s.flushFrac + nSteps (erase gevs) * eps ∧
    K.v s.flushFrac < 1000000000 ∧ BInv K m s' := by
  obtain ⟨hiq, hlq, _, _⟩ := exec_bound ops K _ hmin hR p q (.step t0) [] hip trivial
    (fun n hn => by cases hn; exact ht0) (exec_step_eq ops p q t0 h2)
  simp only [evTime] at hlq
  obtain ⟨his, hls, hAs⟩ := grun_noStep ops K _ hmin hR pre2 q s o2 c2 hiq hok2 hns h3
  rw [hlq] at hls
  have hcap := cap_after_step ops K M _ p q t0 hip h2
  have hw := gwire_from ops K _ hmin hR gevs s s' out c his hok3 (by rw [hls]; exact ht3) h4
  have his' := (grun_bound ops K _ hmin hR gevs s s' out c his hok3 (by rw [hls]; exact ht3) h4).1
  rw [hls] at hw
  have hv := K.v_lt _ his.good
  refine ⟨?_, hv, his'⟩
  rw [Nat.mul_add]
  generalize m * (endTime t0 (erase gevs) - t0) = X at hw ⊢
  generalize m * M.rttNs p.rate.rttS = Y at hcap ⊢
  generalize nSteps (erase gevs) * eps = E at hw ⊢
  simp only [G, MAX_FRAME_SIZE] at hw hcap hAs
  omega

/-- `BInv` holds along every projected run whose ceiling is at least one frame per second. -/
theorem Proj.binv {ops : FloatOps F} {ep : EpConfig} {h : State F} {ln n r al t0 : Nat}
    {gevs : List GEv} {out : List (List Nat)} {c : Int} (p : Proj ops ep h ln n r al t0 gevs out c)
    {eps : Nat} (K : FillOk ops eps) (hm : MSS ≤ min (ep.maxSendRate % 2^32) r)
    (hR : min (ep.maxSendRate % 2^32) r ≤ K.maxRate)
    (ht : stepsOk K.maxDt t0 (erase gevs) = true) :
    BInv K (min (ep.maxSendRate % 2^32) r) h := by
  have hmin : MINIMUM_RATE ≤ min (ep.maxSendRate % 2^32) r := by
    simp only [MSS] at hm; simp only [MINIMUM_RATE]; omega
  have hi0 : BInv K (min (ep.maxSendRate % 2^32) r) (init ops (hcConfig ep ln n r al) t0 rng0) :=
    binv_init ops K (hcConfig ep ln n r al) t0 rng0 hm
  exact (grun_bound ops K _ hmin hR gevs _ h out c hi0 (evsOk_ok _ _ p.ok) ht p.run).1

/-- **The interval bound for a half connection created by an endpoint** (as `C13_wire_bound`): the run
`pre1 ++ step t1 :: pre2 ++ evs` from `HalfConn.init ops (hcConfig ep ln n r al) t0 rng0` splits at
the states `p`, `q`, `s`, and the frames `o3` handed to the sink during `evs` obey the bound with the
ceiling `min (ep.maxSendRate % 2^32) r`. -/
theorem gwire_init (ops : FloatOps F) {eps : Nat} (K : FillOk ops eps) (M : FillMaxOk ops) (ep : EpConfig)
    (ln n r al t0 : Nat) (hm : MSS ≤ min (ep.maxSendRate % 2^32) r)
    (hR : min (ep.maxSendRate % 2^32) r ≤ K.maxRate) (pre1 pre2 evs : List GEv) (t1 : Nat)
    (h : State F) (out : List (List Nat)) (c : Int)
    (hrun : grun ops (init ops (hcConfig ep ln n r al) t0 rng0) (pre1 ++ .ev (.step t1) :: pre2 ++ evs) =
      .ok (h, out, c))
    (hok : ∀ ev ∈ erase (pre1 ++ .ev (.step t1) :: pre2 ++ evs), ev.Ok)
    (ht : stepsOk K.maxDt t0 (erase (pre1 ++ .ev (.step t1) :: pre2 ++ evs)) = true)
    (hns : ∀ ev ∈ erase pre2, ∀ t, ev ≠ .step t) :
    ∃ (p q s : State F) (o1 o2 o3 : List (List Nat)) (c1 c2 c3 : Int),
      grun ops (init ops (hcConfig ep ln n r al) t0 rng0) pre1 = .ok (p, o1, c1) ∧ step ops p t1 = .ok q ∧
      grun ops q pre2 = .ok (s, o2, c2) ∧ grun ops s evs = .ok (h, o3, c3) ∧ out = o1 ++ o2 ++ o3 ∧
      bytes o3 * 1000000000 ≤
        min (ep.maxSendRate % 2^32) r * ((endTime t1 (erase evs) - t1) + M.rttNs p.rate.rttS) + 1472500000000 +
          K.v s.flushFrac + nSteps (erase evs) * eps ∧
      K.v s.flushFrac < 1000000000 := by
  have hmin : MINIMUM_RATE ≤ min (ep.maxSendRate % 2^32) r := by
    simp only [MSS] at hm; simp only [MINIMUM_RATE]; omega
  obtain ⟨s, o12, c12, o3, c3, hr12, hr3, rfl, rfl⟩ := grun_append_split ops _ evs _ h out c hrun
  obtain ⟨p, o1, c1, o2', c2', hr1, hr2, rfl, rfl⟩ := grun_append_split ops pre1 _ _ s o12 c12 hr12
  obtain ⟨q, oq, o2, c2, hex, hrq, rfl, rfl⟩ := grun_cons_inv ops p s _ pre2 o2' c2' hr2
  have hstep : step ops p t1 = .ok q := exec_step_inv ops p q t1 oq hex
  have hoq : oq = [] := by
    have := exec_step_eq ops p q t1 hstep
    simp only [gexec] at hex
    rw [this] at hex
    simp only [Except.ok.injEq, Prod.mk.injEq] at hex
    exact hex.2.symm
  subst hoq
  rw [erase_append, erase_append] at hok ht
  have he : erase (GEv.ev (.step t1) :: pre2) = Ev.step t1 :: erase pre2 := rfl
  rw [he] at hok ht
  rw [stepsOk_append, stepsOk_append, endTime_append] at ht
  simp only [Bool.and_eq_true] at ht
  obtain ⟨⟨ht1, ht0⟩, ht3⟩ := ht
  obtain ⟨ht0, _⟩ := stepsOk_cons _ _ _ _ ht0
  simp only [endTime, evTime] at ht3
  rw [endTime_noStep _ _ hns] at ht3
  have hi0 : BInv K (min (ep.maxSendRate % 2^32) r) (init ops (hcConfig ep ln n r al) t0 rng0) :=
    binv_init ops K (hcConfig ep ln n r al) t0 rng0 hm
  obtain ⟨hip, hlp, _, _, _⟩ := grun_bound ops K _ hmin hR pre1 _ p o1 c1 hi0
    (fun e he => hok e (by simp [he])) ht1 hr1
  have hl0 : lastNow (init ops (hcConfig ep ln n r al) t0 rng0) = t0 := rfl
  rw [hl0] at hlp
  obtain ⟨hb, hv, _⟩ := gwire_split ops K M _ hmin hR pre2 evs t1
    (fun e he => hok e (by simp [he])) (fun e he => hok e (by simp [he])) p q s h hip
    (by rw [hlp]; exact ht0 t1 rfl) ht3 hns o2 o3 c2 c3 hstep hrq hr3
  exact ⟨p, q, s, o1, o2, o3, c1, c2, c3, hr1, hstep, hrq, hr3, by simp, hb, hv⟩

end Uflow.EpCeil
