import Uflow.Lemmas.CrcLinear

/-!
Hamming-distance facts about the LFSR orbit `u q = bitSteps q 0x80000000` (the syndrome of a
single flipped bit at "distance" `q` from the end of the frame): no 1, 2 or 3 distinct `u q`
with `q < 11776` xor to zero.  Everything here is checked by the kernel (no `native_decide`).
-/

namespace Uflow.Crc

/-- Number of bit positions of a maximal frame: `8 * MAX_FRAME_SIZE`. -/
def hdBits : Nat := 11776

/-- The register with only the top bit set. -/
def u0 : BitVec 32 := BitVec.twoPow 32 31

/-- Syndrome of a single bit error `q` LFSR shifts before the end. -/
def u (q : Nat) : BitVec 32 := bitSteps q u0

theorem u_add (a b : Nat) : u (a + b) = bitSteps b (u a) := bitSteps_add a b u0

/-- The one-hot registers are the first 32 elements of the orbit. -/
theorem twoPow_eq_u : ∀ k, k < 32 → BitVec.twoPow 32 k = u (31 - k) := by decide +kernel

/-! ### odd weights: parity -/

theorem par_u (q : Nat) : par (u q) = true := by
  unfold u
  rw [par_bitSteps]
  decide

theorem u_ne_zero (a : Nat) : u a ≠ 0#32 := by
  intro h
  have := par_u a
  rw [h, par_zero] at this
  exact absurd this (by decide)

theorem u_xor3_ne_zero (a b c : Nat) : u a ^^^ u b ^^^ u c ≠ 0#32 := by
  intro h
  have : par (u a ^^^ u b ^^^ u c) = true := by
    rw [par_xor, par_xor, par_u, par_u, par_u]; rfl
  rw [h, par_zero] at this
  exact absurd this (by decide)

/-! ### weight 2: the orbit of `u0` does not return within `hdBits` steps -/

/-- `noReturn n r`: none of `r, σ r, …, σ^(n-1) r` equals `u0`. -/
def noReturn : Nat → BitVec 32 → Bool
  | 0, _ => true
  | n+1, r => r != u0 && noReturn n (bitStep r)

theorem noReturn_spec : ∀ n r, noReturn n r = true → ∀ i, i < n → bitSteps i r ≠ u0
  | 0, _, _, i, hi => absurd hi (by omega)
  | n+1, r, h, i, hi => by
    simp only [noReturn, Bool.and_eq_true, bne_iff_ne, ne_eq] at h
    cases i with
    | zero => exact h.1
    | succ j => exact noReturn_spec n (bitStep r) h.2 j (by omega)

theorem noReturn_true : noReturn (hdBits - 1) (bitStep u0) = true := by decide +kernel

theorem u_ne_u0 (m : Nat) (h0 : 0 < m) (hm : m < hdBits) : u m ≠ u0 := by
  obtain ⟨j, rfl⟩ : ∃ j, m = j + 1 := ⟨m - 1, by omega⟩
  have := noReturn_spec _ _ noReturn_true j (by omega)
  exact this

theorem u_ne_of_lt (a b : Nat) (hab : a < b) (hb : b < hdBits) : u a ≠ u b := by
  intro h
  have hb' : b = (b - a) + a := by omega
  have h0 : u a = bitSteps a (u 0) := by rw [← u_add]; simp
  rw [hb', u_add, h0] at h
  have := bitSteps_inj a _ _ h
  exact u_ne_u0 (b - a) (by omega) (by omega) this.symm

theorem u_xor2_ne_zero (a b : Nat) (hab : a ≠ b) (ha : a < hdBits) (hb : b < hdBits) :
    u a ^^^ u b ≠ 0#32 := by
  rw [Ne, xor_eq_zero_iff]
  rcases Nat.lt_or_gt_of_ne hab with h | h
  · exact u_ne_of_lt a b h hb
  · exact fun e => u_ne_of_lt b a h ha e.symm

end Uflow.Crc
