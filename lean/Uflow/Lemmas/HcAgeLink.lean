import Uflow.Lemmas.HcAgeFrames
import Uflow.Lemmas.CreditEx

/-!
C01AgeFrames, helper definitions: the witness schedules showing that the link `HcAge.LinkOp` from the
number of DATA frames sent to the number of packets emitted is NOT an invariant of the half connection.

The mechanism (`HalfConn.pendingInner`, third drop case, `src/half_connection/emit.rs`: "a TimeSensitive
packet none of which was sent in the flush it was queued for: `pending_queue.clear()`"): `PSend.emit`
gives a packet its sequence id as soon as the pending queue is empty — without looking at the flush
allocation. If the allocation is exhausted, `dfePush` answers `sizeLimited` and nothing is transmitted;
after the next `step` (new `flush_id`) the packet has expired, its pending entries are cleared, and the
next `emit` assigns the next id. So sequence ids are consumed, one per flush, with no data frame at all.
The untransmitted packets stay in `A`'s send window; a sync frame (`next_packet_id`, sent when the
pending and resend queues are empty) then moves `B`'s window base past all of them, the acknowledgement
empties `A`'s send window, and the cycle can start again.
-/

namespace Uflow.HcAge

open Uflow Uflow.Gen Uflow.Codec Uflow.HalfConn Uflow.PSend Uflow.HcSys

/-- A TimeSensitive packet of 1400 bytes on channel 0. -/
def tsSend : POp := .sendA (List.replicate 1400 7) 0 .timeSensitive

/-- One round: submit a TimeSensitive packet, `flush` (the packet gets its id; nothing is transmitted:
the flush allocation is exhausted), `step` at the same time (new `flush_id`, no new allocation). -/
def tsRound : List POp := [tsSend, .flushA, .stepA 0]

/-- `A` sends Reliable `[1]` (frame 0: the only data frame of the whole run); then four rounds of
`tsRound`, the last without its `step`. -/
def linkWitSched : List POp :=
  [.sendA [1] 0 .reliable, .stepA 0, .stepB 0, .flushA] ++ tsRound ++ tsRound ++ tsRound ++ [tsSend, .flushA]

/-- Frame 0 is delivered, its packet returned by `B.receive`, acknowledged: `A`'s send window is empty,
`B`'s base is 1. -/
def cyclePre : List POp :=
  [.sendA [1] 0 .reliable, .stepA 0, .stepB 0, .flushA, .deliverAB 0, .recvB, .stepB 1000000000, .flushB,
   .deliverBA 0]

/-- A full cycle without a data frame: after `cyclePre`, four rounds consume the ids 1 … 4; one more
`flush` clears the last expired packet; five seconds later `A.flush` emits a sync frame carrying
`next_packet_id = 5` (frame 1 of `wireAB`); it is delivered, `B` resynchronizes, acknowledges (frame 1 of
`wireBA`), `A`'s send window is empty again. -/
def cycleSched : List POp :=
  cyclePre ++ tsRound ++ tsRound ++ tsRound ++ tsRound ++
    [.flushA, .stepA 6000000000, .flushA, .deliverAB 1, .recvB, .stepB 7000000000, .flushB, .deliverBA 1]

end Uflow.HcAge
