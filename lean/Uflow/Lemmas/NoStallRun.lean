import Uflow.Lemmas.NoStall
import Uflow.Lemmas.CreditLiveEx

/-!
C11 (no stall), part 2: runs. The flushes of a run that are called with non-negative credit
(`okFlushStates`), what each of them does (`NoStall.flush_cases`), and the composition with the
credit recovery of `CreditLiveRun`.
-/

namespace Uflow.NoStall

open Uflow Uflow.Gen Uflow.Codec Uflow.HalfConn Uflow.Wire Uflow.Modes Uflow.Credit Uflow.Heap
open Uflow.FlushProg Uflow.CreditLive Uflow.CreditBound
open Uflow.Rate (FloatOps)
open Uflow.HcInv (lastNow evTime runEvs evsOk)

variable {F : Type}

/-- The states in which a `flush` of the run is called with non-negative credit, in order. -/
def okFlushStates (ops : FloatOps F) : State F → List Ev → List (State F)
  | _, [] => []
  | s, ev :: rest =>
    (if ev = .flush ∧ 0 ≤ s.flushAlloc then [s] else []) ++
    match exec ops s ev with
    | .ok (s1, _) => okFlushStates ops s1 rest
    | .error _ => []

theorem someFlushOk_iff (ops : FloatOps F) (evs : List Ev) (s : State F) :
    someFlushOk ops s evs = true ↔ okFlushStates ops s evs ≠ [] := by
  induction evs generalizing s with
  | nil => simp [someFlushOk, okFlushStates]
  | cons ev rest ih =>
    by_cases hf : ev = .flush ∧ 0 ≤ s.flushAlloc
    · simp [someFlushOk, okFlushStates, hf.1, hf.2]
    · have hb : (decide (ev = .flush) && decide (0 ≤ s.flushAlloc)) = false := by
        simp only [Bool.and_eq_false_iff, decide_eq_false_iff_not]
        exact Classical.not_and_iff_not_or_not.mp hf
      simp only [someFlushOk, okFlushStates, hb, Bool.false_or, hf, if_false, List.nil_append]
      cases exec ops s ev with
      | error t => simp
      | ok v => exact ih v.1

theorem someFlushOk_append (ops : FloatOps F) (a b : List Ev) (s s1 : State F) (b1 : Nat) (c1 : Int)
    (hr : run ops s a = .ok (s1, b1, c1)) :
    someFlushOk ops s (a ++ b) = (someFlushOk ops s a || someFlushOk ops s1 b) := by
  induction a generalizing s b1 c1 with
  | nil =>
    simp only [run, Except.ok.injEq, Prod.mk.injEq] at hr
    obtain ⟨rfl, _, _⟩ := hr
    simp [someFlushOk]
  | cons ev rest ih =>
    simp only [run] at hr
    generalize hex : exec ops s ev = r1 at hr
    cases r1 with
    | error t => cases hr
    | ok v1 =>
      obtain ⟨sa, out⟩ := v1
      simp only at hr
      generalize hrun : run ops sa rest = r2 at hr
      cases r2 with
      | error t => cases hr
      | ok v2 =>
        obtain ⟨sb, bb, cb⟩ := v2
        simp only [Except.ok.injEq, Prod.mk.injEq] at hr
        obtain ⟨rfl, _, _⟩ := hr
        simp only [List.cons_append, someFlushOk, hex, ih sa bb cb hrun, Bool.or_assoc]

theorem someFlushOk_flush (ops : FloatOps F) (s : State F) (h : 0 ≤ s.flushAlloc) :
    someFlushOk ops s [.flush] = true := by
  simp [someFlushOk, h]

/-- **Walking a run** under the half-connection invariant: it does not trap, `Credit.run` agrees
with `HcInv.runEvs`, and either some data frame is handed to the sink or every flush called with
non-negative credit was blocked by the ack stage, a full frame window, or a `Quiet` data stage. -/
theorem runEvs_walk (ops : FloatOps F) (hconv : Rate.BisectConverges ops) (hloss : HcInv.LossOk ops)
    (evs : List Ev) (s : State F) (hinv : HcInv.HcInv s) (hok : evsOk (lastNow s) evs = true) :
    ∃ s' outs c, runEvs ops s evs = .ok (s', outs) ∧ run ops s evs = .ok (s', bytes outs, c) ∧
      ((∃ dg, DataIn dg outs) ∨ ∀ sf ∈ okFlushStates ops s evs,
        ¬ AckPassed sf ∨ FrameQ.canPush sf.fq = false ∨ Quiet sf) := by
  induction evs generalizing s with
  | nil => exact ⟨s, [], 0, rfl, rfl, .inr (fun sf hsf => by cases hsf)⟩
  | cons ev rest ih =>
    simp only [evsOk, Bool.and_eq_true] at hok
    obtain ⟨s1, out, he, hi1, hl1⟩ := HcInv.exec_ok ops hconv hloss s ev hinv hok.1
    obtain ⟨s2, outs2, c2, hr2, hrun2, hd2⟩ := ih s1 hi1 (by rw [hl1]; exact hok.2)
    refine ⟨s2, out ++ outs2, evCredit ops s ev + c2, by simp only [runEvs, he, hr2],
      by simp only [run, he, hrun2, bytes_append], ?_⟩
    have hhere : (∃ dg, DataIn dg out) ∨ ∀ sf ∈ (if ev = .flush ∧ 0 ≤ s.flushAlloc then [s] else []),
        ¬ AckPassed sf ∨ FrameQ.canPush sf.fq = false ∨ Quiet sf := by
      by_cases hf : ev = .flush ∧ 0 ≤ s.flushAlloc
      · obtain ⟨rfl, hA0⟩ := hf
        have hfl : flush s = .ok (s1, out) := he
        have hmem : ∀ sf, sf ∈ (if Ev.flush = Ev.flush ∧ 0 ≤ s.flushAlloc then [s] else []) →
            sf = s := by
          intro sf hm
          simpa [hA0] using hm
        by_cases hack : AckPassed s
        · cases hcp : FrameQ.canPush s.fq with
          | false =>
            refine .inr (fun sf hsf => ?_)
            obtain rfl := hmem sf hsf
            exact .inr (.inl hcp)
          | true =>
            rcases flush_cases s s1 out hack hcp hinv.uid hfl with hdin | hq
            · exact .inl hdin
            · refine .inr (fun sf hsf => ?_)
              obtain rfl := hmem sf hsf
              exact .inr (.inr hq)
        · refine .inr (fun sf hsf => ?_)
          obtain rfl := hmem sf hsf
          exact .inl hack
      · exact .inr (fun sf hsf => by simp only [hf, if_false] at hsf; cases hsf)
    rcases hhere with ⟨dg, hdin⟩ | hall1
    · exact .inl ⟨dg, hdin.append_left _⟩
    · rcases hd2 with ⟨dg, hdin⟩ | hall2
      · exact .inl ⟨dg, DataIn.append_right _ hdin⟩
      · refine .inr (fun sf hsf => ?_)
        simp only [okFlushStates, he, List.mem_append] at hsf
        rcases hsf with hsf | hsf
        · exact hall1 sf hsf
        · exact hall2 sf hsf

/-- `Sendable` and `Quiet` exclude each other. -/
theorem sendable_not_quiet (s : State F) (hw : Sendable s) : ¬ Quiet s := by
  rintro ⟨hrq, hpq, hen⟩
  have idle_pop : ∀ entry p, s.resend[0]? = some entry →
      PSend.findPacket s.ps entry.uid = some p → entry.fid ∉ p.acked →
      ¬ Skipped s.ps entry.uid entry.fid := by
    intro entry p _ h1 h2 hsk
    rcases hsk with hn | ⟨p', hp', ha⟩
    · rw [h1] at hn; cases hn
    · rw [h1] at hp'; cases hp'; exact h2 ha
  rcases hw with ⟨entry, p, h0, h1, h2, h3⟩ | ⟨_, entry, rest, p, h0, h1, h2, h3⟩ |
    ⟨_, _, ps', p, resend, hem⟩
  · cases hrq with
    | empty _ hn => rw [h0] at hn; cases hn
    | notDue _ entry' p' h0' _ _ hlt =>
      rw [h0] at h0'; cases h0'
      omega
    | dead _ h' entry' h0' hsk _ _ =>
      rw [h0] at h0'; cases h0'
      exact idle_pop entry p h0 h1 h2 hsk
  · rw [h0] at hpq
    cases hpq with
    | dead _ _ hsk _ =>
      rcases hsk with hn | ⟨p', hp', ha⟩
      · rw [h1] at hn; cases hn
      · rw [h1] at hp'; cases hp'; exact h2 ha
    | expired _ _ p' h1' _ hz hexp =>
      rw [h1] at h1'; cases h1'
      exact h3 ⟨hz, hexp⟩
  · exact hen ps' p resend hem

/-- **Composition with the credit recovery.** -/
theorem no_credit_stall (ops : FloatOps F) (hconv : Rate.BisectConverges ops)
    (hloss : HcInv.LossOk ops) {eps : Nat} (L : FillLo ops eps) (m : Nat)
    (hmin : MINIMUM_RATE ≤ m) (hR : m ≤ L.maxRate) (hinit : ∀ rtt, MINIMUM_RATE ≤ ops.initRate rtt)
    (evs : List Ev) (s : State F) (hinv : HcInv.HcInv s) (hi : LInv L m s)
    (hA : -(MAX_FRAME_SIZE : Int) ≤ s.flushAlloc)
    (hok : evsOk (lastNow s) (evs ++ [.flush]) = true)
    (ht : stepsOk L.maxDt (lastNow s) evs = true)
    (hT : (MAX_FRAME_SIZE + 1) * G + nSteps evs * eps ≤
      MINIMUM_RATE * (endTime (lastNow s) evs - lastNow s)) :
    ∃ s' outs, runEvs ops s (evs ++ [.flush]) = .ok (s', outs) ∧
      someFlushOk ops s (evs ++ [.flush]) = true ∧
      okFlushStates ops s (evs ++ [.flush]) ≠ [] ∧
      ((∃ dg, DataIn dg outs) ∨ ∀ sf ∈ okFlushStates ops s (evs ++ [.flush]),
        ¬ AckPassed sf ∨ FrameQ.canPush sf.fq = false ∨ Quiet sf) := by
  obtain ⟨s', outs, c, hre, hrun, hd⟩ := runEvs_walk ops hconv hloss (evs ++ [.flush]) s hinv hok
  obtain ⟨s1, b1, c1, b2, c2, hr1, _, _, _⟩ := run_append_split ops evs [.flush] s s' _ _ hrun
  have hsome : someFlushOk ops s (evs ++ [.flush]) = true := by
    rw [someFlushOk_append ops evs [.flush] s s1 b1 c1 hr1]
    cases hsf : someFlushOk ops s evs with
    | true => rfl
    | false =>
      have := run_recovers ops L m hmin hR hinit evs s s1 b1 c1 hi hA ht hT hr1 hsf
      simp [someFlushOk_flush ops s1 this]
  exact ⟨s', outs, hre, hsome, (someFlushOk_iff ops _ s).mp hsome, hd⟩

/-! ### a flush after every step -/

/-- `n` rounds of `step` then `flush`, the steps `dt` ns apart, the first at `t + dt`. -/
def cadenceF (dt : Nat) : Nat → Nat → List Ev
  | _, 0 => []
  | t, n+1 => .step (t + dt) :: .flush :: cadenceF dt (t + dt) n

theorem cadenceF_stepsOk (D dt t n : Nat) (h : dt ≤ D) : stepsOk D t (cadenceF dt t n) = true := by
  induction n generalizing t with
  | zero => rfl
  | succ n ih =>
    simp only [cadenceF, stepsOk, Bool.and_eq_true, decide_eq_true_eq]
    exact ⟨⟨by omega, by omega⟩, ih _⟩

theorem cadenceF_evsOk (dt t n : Nat) (tail : List Ev) (ht : ∀ t', evsOk t' tail = true) :
    evsOk t (cadenceF dt t n ++ tail) = true := by
  induction n generalizing t with
  | zero => exact ht t
  | succ n ih =>
    simp only [cadenceF, List.cons_append, evsOk, HcInv.evOk, HcInv.evTime, Bool.and_eq_true,
      decide_eq_true_eq, Bool.true_and]
    exact ⟨by omega, ih _⟩

theorem cadenceF_endTime (dt t n : Nat) : endTime t (cadenceF dt t n) = t + n * dt := by
  induction n generalizing t with
  | zero => simp [cadenceF, endTime]
  | succ n ih =>
    simp only [cadenceF, endTime, HcInv.evTime, ih, Nat.add_mul]
    omega

theorem cadenceF_nSteps (dt t n : Nat) : nSteps (cadenceF dt t n) = n := by
  induction n generalizing t with
  | zero => rfl
  | succ n ih => simp only [cadenceF, nSteps, ih]

end Uflow.NoStall
