import Uflow.Lemmas.HcCovPair

/-!
C01Hc (sync frames), sender side, part 4: the send window holds exactly the last `win.length` emitted
packets: the identities of its entries are `nextUid - win.length, …, nextUid - 1` (`WinUids`), for every
reachable state of the pair.
-/

namespace Uflow.HcCov

open Uflow Uflow.Gen Uflow.Codec Uflow.HalfConn Uflow.PSend Uflow.HcSys Uflow.HcFrame
open Uflow.PRecv (bindR bindR_ok)
open Uflow.Rate (FloatOps)

variable {F : Type}

def WinUids (ps : PSend.State) : Prop :=
  ps.win.length ≤ ps.nextUid ∧
  ps.win.map (·.packet.uid) = List.range' (ps.nextUid - ps.win.length) ps.win.length

theorem winUids_init (w b a : Nat) : WinUids (PSend.init w b a) := ⟨Nat.zero_le _, rfl⟩

theorem winUids_emit {ps ps' : PSend.State} (h : WinUids ps) (f : Nat) (r : Option (Pending × Bool))
    (he : emit ps f = .ok (ps', r)) : WinUids ps' := by
  obtain ⟨_, _, _, _, _, _, hc⟩ := emit_cases ps ps' f r he
  rcases hc with ⟨_, rfl⟩ | ⟨_, _, p, _, w0, _, _, _, hpu, _, _, _, _, _, _, hwp, _, hwin, hn, _⟩
  · exact h
  · refine ⟨by rw [hwin, hn, List.length_append, List.length_singleton]; have := h.1; omega, ?_⟩
    rw [hwin, hn, List.map_append, h.2, List.length_append, List.length_singleton]
    simp only [List.map_cons, List.map_nil, hwp, hpu]
    have h1 := h.1
    rw [show ps.nextUid + 1 - (ps.win.length + 1) = ps.nextUid - ps.win.length by omega]
    rw [List.range'_concat]
    congr 2
    omega

theorem winUids_emits {f : Nat} {ps ps' : PSend.State} {l : List Pending} (hem : Emits f ps ps' l)
    (h : WinUids ps) : WinUids ps' := by
  induction hem with
  | nil => exact h
  | cons he _ ih => exact ih (winUids_emit h f _ he)

theorem winUids_frag {ps : PSend.State} (h : WinUids ps) (uid fid : Nat) : WinUids (ackFragment ps uid fid) := by
  have hmap : (ackFragment ps uid fid).win.map (fun w => w.packet.uid) = ps.win.map (fun w => w.packet.uid) := by
    simp only [ackFragment, List.map_map]
    apply List.map_congr_left
    intro e _
    simp only [Function.comp]
    split <;> rfl
  have hlen : (ackFragment ps uid fid).win.length = ps.win.length := by
    simp only [ackFragment, List.length_map]
  exact ⟨by rw [hlen]; exact h.1, by rw [hmap, hlen]; exact h.2⟩

theorem winUids_ack {ps1 ps2 : PSend.State} (h : WinUids ps1) (rb : Nat)
    (hack : acknowledge ps1 rb = .ok ps2) : WinUids ps2 := by
  obtain ⟨⟨dr, hwd⟩, hn, _⟩ := acknowledge_suffix ps1 ps2 rb hack
  have hl : ps1.win.length = dr.length + ps2.win.length := by rw [hwd, List.length_append]
  have h1 := h.1
  refine ⟨by rw [hn]; omega, ?_⟩
  have h2 := h.2
  rw [hwd, List.map_append] at h2
  have h3 := congrArg (List.drop dr.length) h2
  rw [List.drop_left' (by simp), List.drop_range'] at h3
  rw [h3, hn]
  have hl2 : (dr ++ ps2.win).length = dr.length + ps2.win.length := List.length_append
  rw [hwd] at h1
  congr 1
  · omega
  · omega

theorem winUids_ackSteps {ps ps' : PSend.State} (ha : AckSteps ps ps') (h : WinUids ps) : WinUids ps' := by
  induction ha with
  | refl => exact h
  | frag uid fid _ ih => exact winUids_frag ih uid fid
  | ack rb _ hack ih => exact winUids_ack ih rb hack

/-- **`WinUids` is kept by every step of the pair.** -/
theorem winUids_step (ops : FloatOps F) {h h' : HcPair F} (hi : PairInv h) (hw : WinUids h.A.ps) (op : POp)
    (hs : HcSys.stepP ops h op = .ok h') : WinUids h'.A.ps := by
  cases op with
  | sendA d c m =>
    simp only [HcSys.stepP] at hs
    split at hs
    · cases hs; exact hw
    · cases hs; exact hw
  | flushA =>
    simp only [HcSys.stepP] at hs
    cases hfl : flush h.A with
    | error t => rw [hfl] at hs; cases hs
    | ok r =>
      obtain ⟨a', out⟩ := r
      rw [hfl, bindR_ok] at hs
      cases hs
      obtain ⟨l, hem, _⟩ := flush_spec h.A a' out hi.a hfl
      exact winUids_emits hem hw
  | stepA now =>
    simp only [HcSys.stepP] at hs
    cases hst : step ops h.A now with
    | error t => rw [hst] at hs; cases hs
    | ok a' =>
      rw [hst, bindR_ok] at hs
      cases hs
      show WinUids a'.ps
      rw [(step_spec ops h.A a' now hst).1]; exact hw
  | stepB now =>
    simp only [HcSys.stepP] at hs
    cases hst : step ops h.B now with
    | error t => rw [hst] at hs; cases hs
    | ok b' => rw [hst, bindR_ok] at hs; cases hs; exact hw
  | recvB =>
    simp only [HcSys.stepP] at hs
    cases hr : receive h.B with
    | error t => rw [hr] at hs; cases hs
    | ok r => rw [hr, bindR_ok] at hs; cases hs; exact hw
  | flushB =>
    simp only [HcSys.stepP] at hs
    cases hfl : flush h.B with
    | error t => rw [hfl] at hs; cases hs
    | ok r => rw [hfl, bindR_ok] at hs; cases hs; exact hw
  | deliverAB k =>
    simp only [HcSys.stepP] at hs
    cases hk : h.wireAB[k]? with
    | none => rw [hk] at hs; cases hs; exact hw
    | some bytes =>
      rw [hk] at hs
      simp only [] at hs
      cases hd : dispatch h.B (bytes.take MAX_FRAME_SIZE) with
      | error t => rw [hd] at hs; cases hs
      | ok b' => rw [hd, bindR_ok] at hs; cases hs; exact hw
  | deliverBA k =>
    simp only [HcSys.stepP] at hs
    cases hk : h.wireBA[k]? with
    | none => rw [hk] at hs; cases hs; exact hw
    | some bytes =>
      rw [hk] at hs
      simp only [] at hs
      cases hd : dispatch h.A (bytes.take MAX_FRAME_SIZE) with
      | error t => rw [hd] at hs; cases hs
      | ok a' =>
        rw [hd, bindR_ok] at hs
        cases hs
        show WinUids a'.ps
        have hv := dispatch_view h.A a' _ hd
        cases hv with
        | skip h1 _ _ _ _ _ => rw [h1]; exact hw
        | data id nonce dgs _ h2 _ _ _ => rw [h2]; exact hw
        | sync nf np _ h2 _ _ _ => rw [h2]; exact hw
        | ack fb pb acks ps1 h1 _ _ _ h5 h6 =>
          have hf := handleAckFrame_frame h.A a' fb pb acks (by
            unfold dispatch at hd; rw [h1] at hd; exact hd)
          exact winUids_ackSteps hf.2 hw

/-- A position of the emission history not before the send window is the identity of a window entry. -/
theorem WinUids.mem {ps : PSend.State} (h : WinUids ps) (i : Nat) (h1 : ps.nextUid - ps.win.length ≤ i)
    (h2 : i < ps.nextUid) : ∃ w ∈ ps.win, w.packet.uid = i := by
  have : i ∈ ps.win.map (·.packet.uid) := by
    rw [h.2, List.mem_range'_1]
    have := h.1
    omega
  obtain ⟨w, hw, hu⟩ := List.mem_map.mp this
  exact ⟨w, hw, hu⟩

end Uflow.HcCov
