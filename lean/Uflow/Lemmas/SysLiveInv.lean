import Uflow.Lemmas.SysLiveBasic

/-!
Liveness of the composed system (C02Live), part 2: the liveness invariant of the receive window —
`window_ready` is live, every received entry lies before `end_id`, a closed assembly entry has its
entry flag — and its preservation by `handle_datagram`.
-/

namespace Uflow.Sys

open Uflow Uflow.Gen Uflow.Codec Uflow.PSend Uflow.PRecv Uflow.Frag

/-! ### the shape of `handle_datagram` -/

theorem tryAdd_wready (s : PRecv.State) (i : Nat) (d : Datagram) (s' : PRecv.State) (o : Option Packet)
    (h : tryAdd s i d = .ok (s', o)) : s'.windowReady = s.windowReady := by
  unfold tryAdd at h
  simp only at h
  cases hasm : (getSlot s i).asm with
  | opened =>
    rw [hasm] at h
    simp only at h
    split at h
    · cases h; rfl
    · split at h
      · cases h; rfl
      · split at h
        · cases h
        · cases h; rfl
  | closed a =>
    rw [hasm] at h
    simp only at h
    cases h; rfl
  | active a chan wpl cpl last buf =>
    rw [hasm] at h
    simp only at h
    split at h
    · cases h; rfl
    · split at h
      · cases h
      · split at h
        · cases h; rfl
        · cases h; rfl

theorem hdPost_wready (s1 : PRecv.State) (i : Nat) (d : Datagram) (p : Packet) (cb base : Nat) :
    (hdPost s1 i d p cb base).windowReady =
      if p.windowParentLead = 0 ∨ p.windowParentLead > pidSub d.sequenceId base then true
      else s1.windowReady := by
  have b : ∀ s : PRecv.State, (stepRdy d p cb s).windowReady = s.windowReady := by
    intro s; unfold stepRdy
    by_cases hc : p.channelParentLead = 0 ∨ p.channelParentLead > pidSub d.sequenceId cb
    · rw [if_pos hc]
    · rw [if_neg hc]
  have e : ∀ s : PRecv.State, (stepEnd d s).windowReady = s.windowReady := by
    intro s; unfold stepEnd
    by_cases hc : pidSub d.sequenceId s.endId < s.windowSize
    · rw [if_pos hc]
    · rw [if_neg hc]
  have c : ∀ s : PRecv.State, (stepCnt d s).windowReady = s.windowReady := fun _ => rfl
  unfold hdPost stepWr
  by_cases hc : p.windowParentLead = 0 ∨ p.windowParentLead > pidSub d.sequenceId base
  · rw [if_pos hc, if_pos hc]
  · rw [if_neg hc, if_neg hc, b, c, e]; rfl

/-- `handle_datagram` returns early without a change (invalid, outside the window, or behind its
channel's base id), or reaches `try_add` on the slot of the datagram. -/
theorem handleDatagram_shape {W M : Nat} {s s' : PRecv.State} (hinv : Inv W M s) (d : Datagram)
    (hd : handleDatagram s d = .ok s') :
    (s' = s ∧ (datagramIsValid d = false ∨ W ≤ pidSub d.sequenceId s.baseId ∨
        pidSub d.sequenceId s.baseId < pidSub (cbO s d.channelId) s.baseId)) ∨
    (datagramIsValid d = true ∧ pidSub d.sequenceId s.baseId < W ∧
      pidSub (cbO s d.channelId) s.baseId ≤ pidSub d.sequenceId s.baseId ∧
      ∃ s1 o, tryAdd s (wi W d.sequenceId) d = .ok (s1, o) ∧
        ((o = none ∧ s' = s1) ∨
         ∃ p, o = some p ∧ s' = hdPost s1 (wi W d.sequenceId) d p (cbO s d.channelId) s.baseId)) := by
  rw [handleDatagram_eq] at hd
  by_cases hv : datagramIsValid d = true
  case neg =>
    rw [if_pos (by simpa using hv)] at hd; cases hd
    exact Or.inl ⟨rfl, Or.inl (by simpa using hv)⟩
  rw [if_neg (by simp [hv])] at hd
  obtain ⟨hchan, -, -⟩ := valid_facts d hv
  obtain ⟨ch0, hch0⟩ := hinv.chan_get d.channelId hchan
  rw [chanBase_of_get hch0] at hd
  simp only at hd
  have hcb : (cbase s d.channelId).getD s.baseId = cbO s d.channelId := rfl
  rw [hcb] at hd
  split at hd
  · rename_i hlead
    cases hd
    rw [hinv.wsz] at hlead
    exact Or.inl ⟨rfl, Or.inr (Or.inl hlead)⟩
  rename_i hlead
  split at hd
  · rename_i hbeh
    cases hd
    exact Or.inl ⟨rfl, Or.inr (Or.inr hbeh)⟩
  rename_i hbeh
  rw [widx_eq hinv] at hd
  rw [hinv.wsz] at hlead
  right
  refine ⟨hv, by omega, by omega, ?_⟩
  cases ht : tryAdd s (wi W d.sequenceId) d with
  | error t => rw [ht] at hd; cases hd
  | ok r =>
    obtain ⟨s1, o⟩ := r
    rw [ht] at hd
    cases o with
    | none => cases hd; exact ⟨_, _, rfl, Or.inl ⟨rfl, rfl⟩⟩
    | some p => simp only at hd; cases hd; exact ⟨_, _, rfl, Or.inr ⟨p, rfl, rfl⟩⟩

/-! ### the receiver part of the liveness invariant -/

/-- A closed assembly entry belongs to a completely received packet: its slot has the entry flag. -/
def CE (st : PRecv.State) : Prop :=
  ∀ k a, (lget st.slots k).asm = .closed a → (lget st.slots k).entryFlag = true

/-- Every received entry of the window lies before `end_id`. -/
def EF (W : Nat) (st : PRecv.State) : Prop :=
  ∀ x, x < 2^20 → pidSub x st.baseId < W → (lget st.slots (wi W x)).entryFlag = true →
    pidSub x st.baseId < pidSub st.endId st.baseId

/-- `window_ready` is live: if some received entry of the window passes the test of the window pass
of `receive` against the current base (`window_parent_lead == 0 || window_parent_lead > sub(x, base)`),
the flag is set. -/
def WR (W : Nat) (st : PRecv.State) : Prop :=
  ∀ x, x < 2^20 → pidSub x st.baseId < W → (lget st.slots (wi W x)).entryFlag = true →
    ((lget st.slots (wi W x)).wpl = 0 ∨ (lget st.slots (wi W x)).wpl > pidSub x st.baseId) →
    st.windowReady = true

structure RL (W : Nat) (st : PRecv.State) : Prop where
  ce : CE st
  ef : EF W st
  wr : WR W st

theorem rl_init (W b m : Nat) : RL W (PRecv.init W b m) where
  ce := by intro k a h; simp [PRecv.init, lget] at h
  ef := by intro x _ _ h; simp [PRecv.init, lget] at h
  wr := by intro x _ _ h; simp [PRecv.init, lget] at h

/-- `handle_datagram` keeps the receiver liveness invariant, never clears an entry flag, and leaves
the window base and the channel base ids alone. -/
theorem handleDatagram_live {W M : Nat} (hW : WOk W) {s s' : PRecv.State} (hinv : Inv W M s) (hord : Ord W s)
    (hl : RL W s) (d : Datagram) (hd : handleDatagram s d = .ok s') :
    RL W s' ∧ (∀ k, (lget s.slots k).entryFlag = true → (lget s'.slots k).entryFlag = true) := by
  rcases handleDatagram_shape hinv d hd with ⟨rfl, -⟩ | ⟨hv, hk, -, s1, o, ht, hcase⟩
  · exact ⟨hl, fun _ h => h⟩
  have hfr := tryAdd_frame s _ d s1 o ht
  have hwr1 := tryAdd_wready s _ d s1 o ht
  obtain ⟨A, hA⟩ := hfr.same
  have hent1 : ∀ j, (lget s1.slots j).entryFlag = (lget s.slots j).entryFlag ∧
      (lget s1.slots j).wpl = (lget s.slots j).wpl := by
    intro j
    by_cases hj : j = wi W d.sequenceId
    · subst hj; rw [hA]; exact ⟨rfl, rfl⟩
    · rw [hfr.other j hj]; exact ⟨rfl, rfl⟩
  rcases hcase with ⟨rfl, rfl⟩ | ⟨p, rfl, rfl⟩
  · -- nothing handed over
    refine ⟨⟨?_, ?_, ?_⟩, fun k h => by rw [(hent1 k).1]; exact h⟩
    · intro k a hcl
      rw [(hent1 k).1]
      by_cases hj : k = wi W d.sequenceId
      · subst hj
        rcases tryAdd_none s _ d s' ht with ⟨rfl, -⟩ | ⟨⟨a', c, w, cp, l, buf, hact, -⟩, -⟩
        · exact hl.ce _ a hcl
        · rw [getSlot_eq, hcl] at hact; cases hact
      · rw [hfr.other k hj] at hcl
        exact hl.ce k a hcl
    · intro x hx hxo hen
      rw [hfr.base] at hxo ⊢
      rw [(hent1 _).1] at hen
      rw [hfr.endId]
      exact hl.ef x hx hxo hen
    · intro x hx hxo hen htest
      rw [hfr.base] at hxo htest
      rw [(hent1 _).1] at hen
      rw [(hent1 _).2] at htest
      rw [hwr1]
      exact hl.wr x hx hxo hen htest
  · -- a packet handed over
    obtain ⟨hpc, hpl, hpw⟩ := hfr.pkt p rfl
    obtain ⟨hb2, he2, -, hs2⟩ := hdPost_facts s1 (wi W d.sequenceId) d p (cbO s d.channelId) s.baseId
    have hwr2 := hdPost_wready s1 (wi W d.sequenceId) d p (cbO s d.channelId) s.baseId
    have hlget2 : ∀ j, lget (hdPost s1 (wi W d.sequenceId) d p (cbO s d.channelId) s.baseId).slots j =
        if j = wi W d.sequenceId then { getSlot s1 (wi W d.sequenceId) with
          chan := p.channelId, cpl := p.channelParentLead, wpl := p.windowParentLead, data := p.data,
          entryFlag := true, dataFlag := true } else lget s1.slots j := by
      intro j; rw [hs2, lget_lset]
    rw [hfr.base] at hb2
    rw [hfr.endId, hfr.wsz, hinv.wsz] at he2
    rw [hwr1] at hwr2
    generalize hdPost s1 (wi W d.sequenceId) d p (cbO s d.channelId) s.baseId = s2 at *
    have hxlt : d.sequenceId % 2^20 < 2^20 := Nat.mod_lt _ (by decide)
    have hwx : wi W (d.sequenceId % 2^20) = wi W d.sequenceId := wi_mod20 hW _
    have hox : ∀ b, pidSub (d.sequenceId % 2^20) b = pidSub d.sequenceId b := fun b => pidSub_mod20 _ b
    have hsame : ∀ x, x < 2^20 → pidSub x s.baseId < W → wi W x = wi W d.sequenceId →
        pidSub x s.baseId = pidSub d.sequenceId s.baseId := by
      intro x hx hxo hwi
      rw [← hox]
      exact off_eq_of_wi hW x _ s.baseId hinv.blt (by rw [hox]; omega) (by rw [hox]; omega)
        (by rw [hwx]; exact hwi)
    obtain ⟨ea1, ea2, ea3⟩ := end_arith d.sequenceId s.baseId s.endId W hinv.blt hinv.elt hW.le hk hord.ewin
    refine ⟨⟨?_, ?_, ?_⟩, ?_⟩
    · intro k a hcl
      rw [hlget2] at hcl ⊢
      by_cases hj : k = wi W d.sequenceId
      · rw [if_pos hj]
      · rw [if_neg hj] at hcl ⊢
        rw [(hent1 k).1]
        rw [hfr.other k hj] at hcl
        exact hl.ce k a hcl
    · intro x hx hxo hen
      rw [hb2] at hxo ⊢
      rw [he2]
      rw [hlget2] at hen
      by_cases hwi : wi W x = wi W d.sequenceId
      · rw [hsame x hx hxo hwi]; exact ea2
      · rw [if_neg hwi, (hent1 _).1] at hen
        have := hl.ef x hx hxo hen
        omega
    · intro x hx hxo hen htest
      rw [hb2] at hxo htest
      rw [hlget2] at hen htest
      rw [hwr2]
      by_cases hwi : wi W x = wi W d.sequenceId
      · rw [if_pos hwi] at htest
        simp only at htest
        rw [hsame x hx hxo hwi] at htest
        rw [if_pos htest]
      · rw [if_neg hwi] at hen htest
        rw [(hent1 _).1] at hen
        rw [(hent1 _).2] at htest
        have := hl.wr x hx hxo hen htest
        split
        · rfl
        · exact this
    · intro k h
      rw [hlget2]
      by_cases hj : k = wi W d.sequenceId
      · rw [if_pos hj]
      · rw [if_neg hj, (hent1 k).1]; exact h

end Uflow.Sys
