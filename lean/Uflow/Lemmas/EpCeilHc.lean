import Uflow.Lemmas.EpCeilCli
import Uflow.Lemmas.CreditBoundWire

/-!
C13 (endpoints), part 3: what the endpoints do to ONE half connection, as an event list.

The endpoints hand their own random number generator to every `flush` of a half connection
(`hcOf.flush h rng = HalfConn.flush { h with rng := rng }`), so the events are those of `Credit.Ev`
plus `rng r` ("the generator is replaced by `r`"): `GEv`. `grun` runs such a list and returns the final
state, the frames handed to the frame sink and the credit granted (as `Credit.run`).

`InvC ops ep PInv a h`: `h` satisfies the half-connection invariant of C03 and is the result of a
`grun` from `HalfConn.init ops (hcConfig ep ln n r al) t0 rng0` for handshake values `(n, r, al)`
satisfying `PInv a`, along events within the API preconditions (`evsOk`). `hcOf_okA`: the
half-connection model satisfies the address-indexed contract `HCOkA` with this invariant — every
operation of an endpoint on a half connection is one or two `GEv` events.
-/

namespace Uflow.EpCeil

open Uflow Uflow.Gen Uflow.Codec Uflow.HalfConn Uflow.Endpoint Uflow.EpNoTrap Uflow.HcInv Uflow.Credit
open Uflow.CreditBound
open Uflow.Rate (FloatOps BisectConverges)

variable {F : Type}

/-- One thing an endpoint does to a half connection. -/
inductive GEv where
  | ev (e : Ev)
  | rng (r : Rng)

def gexec (ops : FloatOps F) (s : State F) : GEv → R (State F × List (List Nat))
  | .ev e => exec ops s e
  | .rng r => .ok ({ s with rng := r }, [])

def gcredit (ops : FloatOps F) (s : State F) : GEv → Int
  | .ev e => evCredit ops s e
  | .rng _ => 0

/-- Runs an event list: final state, frames handed to the frame sink (in order), credit granted. -/
def grun (ops : FloatOps F) : State F → List GEv → R (State F × List (List Nat) × Int)
  | s, [] => .ok (s, [], 0)
  | s, g :: rest =>
    match gexec ops s g with
    | .error t => .error t
    | .ok (s1, out) =>
      match grun ops s1 rest with
      | .error t => .error t
      | .ok (s2, out2, c) => .ok (s2, out ++ out2, gcredit ops s g + c)

/-- The `Credit.Ev` events of a list. -/
def erase : List GEv → List Ev
  | [] => []
  | .ev e :: rest => e :: erase rest
  | .rng _ :: rest => erase rest

theorem erase_append (a b : List GEv) : erase (a ++ b) = erase a ++ erase b := by
  induction a with
  | nil => rfl
  | cons g rest ih =>
    cases g with
    | ev e => simp only [List.cons_append, erase, ih]
    | rng r => simp only [List.cons_append, erase, ih]

theorem grun_cons_inv (ops : FloatOps F) (s s2 : State F) (g : GEv) (rest : List GEv)
    (outT : List (List Nat)) (cT : Int) (h : grun ops s (g :: rest) = .ok (s2, outT, cT)) :
    ∃ s1 out out2 c, gexec ops s g = .ok (s1, out) ∧ grun ops s1 rest = .ok (s2, out2, c) ∧
      outT = out ++ out2 ∧ cT = gcredit ops s g + c := by
  simp only [grun] at h
  generalize hex : gexec ops s g = r1 at h
  cases r1 with
  | error t => cases h
  | ok v1 =>
    obtain ⟨s1, out⟩ := v1
    simp only at h
    generalize hrun : grun ops s1 rest = r2 at h
    cases r2 with
    | error t => cases h
    | ok v2 =>
      obtain ⟨sb, ob, cb⟩ := v2
      simp only [Except.ok.injEq, Prod.mk.injEq] at h
      obtain ⟨rfl, rfl, rfl⟩ := h
      exact ⟨s1, out, ob, cb, rfl, hrun, rfl, rfl⟩

theorem grun_append_ok (ops : FloatOps F) (a b : List GEv) (s s1 s2 : State F) (o1 o2 : List (List Nat))
    (c1 c2 : Int) (h1 : grun ops s a = .ok (s1, o1, c1)) (h2 : grun ops s1 b = .ok (s2, o2, c2)) :
    grun ops s (a ++ b) = .ok (s2, o1 ++ o2, c1 + c2) := by
  induction a generalizing s o1 c1 with
  | nil =>
    simp only [grun, Except.ok.injEq, Prod.mk.injEq] at h1
    obtain ⟨rfl, rfl, rfl⟩ := h1
    simp only [List.nil_append, h2, Int.zero_add]
  | cons g rest ih =>
    obtain ⟨sa, out, out2, c, hex, hrun, rfl, rfl⟩ := grun_cons_inv ops s s1 g rest o1 c1 h1
    have := ih sa out2 c hrun
    simp only [List.cons_append, grun, hex, this, List.append_assoc, Int.add_assoc]

theorem grun_append_split (ops : FloatOps F) (a b : List GEv) (s s2 : State F) (oT : List (List Nat))
    (cT : Int) (h : grun ops s (a ++ b) = .ok (s2, oT, cT)) :
    ∃ s1 o1 c1 o2 c2, grun ops s a = .ok (s1, o1, c1) ∧ grun ops s1 b = .ok (s2, o2, c2) ∧
      oT = o1 ++ o2 ∧ cT = c1 + c2 := by
  induction a generalizing s oT cT with
  | nil => exact ⟨s, [], 0, oT, cT, rfl, h, rfl, by omega⟩
  | cons g rest ih =>
    rw [List.cons_append] at h
    obtain ⟨sa, out, out2, c, hex, hrun, rfl, rfl⟩ := grun_cons_inv ops s s2 g (rest ++ b) oT cT h
    obtain ⟨s1, o1, c1, o2, c2, hr1, hr2, rfl, rfl⟩ := ih sa out2 c hrun
    refine ⟨s1, out ++ o1, gcredit ops s g + c1, o2, c2, ?_, hr2, by rw [List.append_assoc], by omega⟩
    simp only [grun, hex, hr1]

theorem grun_single (ops : FloatOps F) (s s1 : State F) (g : GEv) (out : List (List Nat))
    (h : gexec ops s g = .ok (s1, out)) : grun ops s [g] = .ok (s1, out, gcredit ops s g) := by
  simp only [grun, h, List.append_nil, Int.add_zero]

/-! ### the send-rate ceiling along a run -/

/-- One event keeps `max_send_rate`, and keeps `send_rate ≤ max_send_rate` when the ceiling is at
least `MINIMUM_RATE`. -/
theorem gexec_rate (ops : FloatOps F) (s s1 : State F) (g : GEv) (out : List (List Nat))
    (h : gexec ops s g = .ok (s1, out)) :
    s1.rate.maxSendRate = s.rate.maxSendRate ∧
    (MINIMUM_RATE ≤ s.rate.maxSendRate → s.rate.sendRate ≤ s.rate.maxSendRate →
      s1.rate.sendRate ≤ s1.rate.maxSendRate) := by
  cases g with
  | rng r =>
    simp only [gexec, Except.ok.injEq, Prod.mk.injEq] at h
    obtain ⟨rfl, _⟩ := h
    exact ⟨rfl, fun _ hle => hle⟩
  | ev ev =>
    simp only [gexec] at h
    by_cases hst : ∃ now, ev = .step now
    · obtain ⟨now, rfl⟩ := hst
      have h2 := exec_step_inv ops s s1 now out h
      obtain ⟨_, _, t, fb, r, hrs⟩ := step_core ops s s1 now h2
      have hmx := Rate.step_maxSendRate hrs
      exact ⟨hmx, fun hmin hle => by rw [hmx]; exact Rate.step_ceiling hrs hle hmin⟩
    · have hns : ∀ now, ev ≠ .step now := fun now he => hst ⟨now, he⟩
      obtain ⟨_, _, _, c4, c5, _⟩ := core_eq (core_exec ops s s1 ev out hns h)
      exact ⟨c5, fun _ hle => by rw [c4, c5]; exact hle⟩

theorem grun_rate (ops : FloatOps F) (gevs : List GEv) (s s' : State F) (out : List (List Nat)) (c : Int)
    (h : grun ops s gevs = .ok (s', out, c)) :
    s'.rate.maxSendRate = s.rate.maxSendRate ∧
    (MINIMUM_RATE ≤ s.rate.maxSendRate → s.rate.sendRate ≤ s.rate.maxSendRate →
      s'.rate.sendRate ≤ s'.rate.maxSendRate) := by
  induction gevs generalizing s out c with
  | nil =>
    simp only [grun, Except.ok.injEq, Prod.mk.injEq] at h
    obtain ⟨rfl, _, _⟩ := h
    exact ⟨rfl, fun _ hle => hle⟩
  | cons g rest ih =>
    obtain ⟨s1, o1, o2, c2, hex, hrun, _, _⟩ := grun_cons_inv ops s s' g rest out c h
    obtain ⟨e1, l1⟩ := gexec_rate ops s s1 g o1 hex
    obtain ⟨e2, l2⟩ := ih s1 o2 c2 hrun
    exact ⟨e2.trans e1, fun hmin hle => l2 (by rw [e1]; exact hmin) (l1 hmin hle)⟩

/-! ### the per-connection invariant -/

/-- The generator `HalfConnection::new` starts with in the endpoint model. -/
def rng0 : Rng := { fifo := [], state := 0 }

/-- `h` is what the events `gevs` make of the half connection created at `t0` from the handshake
values `(ln, n, r, al)`; `out` are the frames it handed to the frame sink, `c` the credit granted. -/
structure Proj (ops : FloatOps F) (ep : EpConfig) (h : State F) (ln n r al t0 : Nat) (gevs : List GEv)
    (out : List (List Nat)) (c : Int) : Prop where
  nonce : ln < 2^32
  run : grun ops (init ops (hcConfig ep ln n r al) t0 rng0) gevs = .ok (h, out, c)
  /-- `step` times non-decreasing from `t0`, `send`s within the assertions of the public `send` -/
  ok : evsOk t0 (erase gevs) = true
  time : lastNow h = endTime t0 (erase gevs)

def InvC (ops : FloatOps F) (ep : EpConfig) (PInv : Nat → Nat → Nat → Nat → Prop) (a : Nat) (h : State F) : Prop :=
  HcInv h ∧ ∃ ln n r al t0 gevs out c, PInv a n r al ∧ Proj ops ep h ln n r al t0 gevs out c

theorem evsOk_append (t : Nat) (a b : List Ev) :
    evsOk t (a ++ b) = (evsOk t a && evsOk (endTime t a) b) := by
  induction a generalizing t with
  | nil => simp [evsOk, endTime]
  | cons e rest ih => simp only [List.cons_append, evsOk, endTime, ih, Bool.and_assoc]

/-- Appending events to a projection. -/
theorem Proj.extend {ops : FloatOps F} {ep : EpConfig} {h h' : State F} {ln n r al t0 : Nat}
    {gevs more : List GEv} {out o2 : List (List Nat)} {c c2 : Int}
    (p : Proj ops ep h ln n r al t0 gevs out c) (hr : grun ops h more = .ok (h', o2, c2))
    (hok : evsOk (lastNow h) (erase more) = true) (ht : lastNow h' = endTime (lastNow h) (erase more)) :
    Proj ops ep h' ln n r al t0 (gevs ++ more) (out ++ o2) (c + c2) where
  nonce := p.nonce
  run := grun_append_ok ops gevs more _ h h' out o2 c c2 p.run hr
  ok := by rw [erase_append, evsOk_append, p.ok, ← p.time, hok]; rfl
  time := by rw [erase_append, endTime_append, ← p.time, ht]

theorem exec_map_ok {α : Type} (r : R α) (f : α → State F × List (List Nat)) (x : α) (h : r = .ok x) :
    r.map f = .ok (f x) := by rw [h]; rfl

/-- The half-connection model satisfies the address-indexed contract with `InvC`. -/
theorem hcOf_okA (ops : FloatOps F) (hconv : BisectConverges ops) (hloss : LossOk ops) (ep : EpConfig)
    (PInv : Nat → Nat → Nat → Nat → Prop) : HCOkA (hcOf ops) ep PInv (InvC ops ep PInv) lastNow := by
  have hok := hcOf_ok ops hconv hloss
  -- one `Credit.Ev` event whose execution is known
  have one : ∀ (a : Nat) (h h' : State F) (e : Ev) (o : List (List Nat)), InvC ops ep PInv a h → HcInv h' →
      exec ops h e = .ok (h', o) → evOk (lastNow h) e = true → lastNow h' = evTime (lastNow h) e →
      InvC ops ep PInv a h' := by
    intro a h h' e o hi hi' hex hev ht
    obtain ⟨_, ln, n, r, al, t0, gevs, out, c, hp, p⟩ := hi
    refine ⟨hi', ln, n, r, al, t0, gevs ++ [.ev e], out ++ o, c + gcredit ops h (.ev e), hp, ?_⟩
    exact p.extend (grun_single ops h h' (.ev e) o hex) (by simp only [erase, evsOk, hev, Bool.and_true])
      (by simp only [erase, endTime, ht])
  constructor
  · intro a ln rn rate alloc now hn hp
    refine ⟨⟨hcInv_init ops _ now _ (cfgOk_hcConfig ep ln rn rate alloc hn), ln, rn, rate, alloc, now, [], [], 0,
      hp, hn, rfl, rfl, rfl⟩, rfl⟩
  · intro a h f hi
    obtain ⟨h', he, hi', hl⟩ := hok.dispatch h f hi.1
    refine ⟨h', he, ?_, hl⟩
    cases f with
    | data id nonce dgs =>
      exact one a h h' (.dataFrame id nonce dgs) [] hi hi' (exec_map_ok _ _ _ he) rfl hl
    | ack fb pb acks =>
      exact one a h h' (.ackFrame fb pb acks) [] hi hi' (exec_map_ok _ _ _ he) rfl hl
    | sync nf np =>
      exact one a h h' (.syncFrame nf np) [] hi hi' (exec_map_ok _ _ _ he) rfl hl
    | syn _ _ _ _ _ => cases he; exact hi
    | synAck _ _ _ _ _ => cases he; exact hi
    | hsAck _ => cases he; exact hi
    | hsError _ _ => cases he; exact hi
    | disconnect => cases he; exact hi
    | disconnectAck => cases he; exact hi
  · intro a h now hi hle
    obtain ⟨h', he, hi', hl⟩ := hok.step h now hi.1 hle
    refine ⟨h', he, ?_, hl⟩
    exact one a h h' (.step now) [] hi hi' (exec_map_ok _ _ _ he) (by simpa [evOk] using hle) hl
  · intro a h rng hi
    obtain ⟨h', rng', o, he, hi', hl⟩ := hok.flush h rng hi.1
    refine ⟨h', rng', o, he, ?_, hl⟩
    have hfl : HalfConn.flush { h with rng := rng } = .ok (h', o) := by
      have hx : (hcOf ops).flush h rng =
          (HalfConn.flush { h with rng := rng }).map fun (x : State F × List (List Nat)) => (x.1, x.1.rng, x.2) := rfl
      rw [hx] at he
      generalize HalfConn.flush { h with rng := rng } = r at he
      cases r with
      | error t => cases he
      | ok v =>
        obtain ⟨v1, v2⟩ := v
        simp only [Except.map, Except.ok.injEq, Prod.mk.injEq] at he
        obtain ⟨rfl, _, rfl⟩ := he
        rfl
    obtain ⟨_, ln, n, r, al, t0, gevs, out, c, hp, p⟩ := hi
    refine ⟨hi', ln, n, r, al, t0, gevs ++ [.rng rng, .ev .flush], out ++ o, c + 0, hp, ?_⟩
    refine p.extend (more := [.rng rng, .ev .flush]) ?_ (by simp [erase, evsOk, evOk]) ?_
    · simp only [grun, gexec, exec, hfl, gcredit, evCredit, List.nil_append, List.append_nil, Int.add_zero]
    · simp only [erase, endTime, evTime]; exact hl
  · intro a h hi
    obtain ⟨h', o, he, hi', hl⟩ := hok.receive h hi.1
    refine ⟨h', o, he, ?_, hl⟩
    exact one a h h' .receive [] hi hi' (exec_map_ok (HalfConn.receive h) (fun r : State F × List (List Nat) => (r.1, ([] : List (List Nat)))) (h', o) he) rfl hl
  · intro a h data chan mode hi hlen hch
    obtain ⟨hi', hl⟩ := hok.send h data chan mode hi.1 hlen hch
    refine ⟨?_, hl⟩
    exact one a h _ (.send data chan mode) [] hi hi' rfl (by simp [evOk, hlen, hch]) hl

/-- The ceiling of a projected half connection. -/
theorem Proj.ceiling {ops : FloatOps F} {ep : EpConfig} {h : State F} {ln n r al t0 : Nat}
    {gevs : List GEv} {out : List (List Nat)} {c : Int} (p : Proj ops ep h ln n r al t0 gevs out c) :
    h.rate.maxSendRate = min (ep.maxSendRate % 2^32) r ∧
    (MSS ≤ min (ep.maxSendRate % 2^32) r → h.rate.sendRate ≤ h.rate.maxSendRate) := by
  obtain ⟨e, l⟩ := grun_rate ops gevs _ h out c p.run
  refine ⟨e, fun hm => l ?_ ?_⟩
  · show MINIMUM_RATE ≤ min (ep.maxSendRate % 2^32) r
    simp only [MSS] at hm; simp only [MINIMUM_RATE]; omega
  · exact hm

end Uflow.EpCeil
