import Uflow.Lemmas.EndpointServerSyn

/-!
Every server operation preserves `Server.WF`; every operation except an accepted SYN is `Quiet`.
-/

namespace Uflow.Endpoint

open Uflow.Gen Uflow.Codec Uflow.HalfConn

variable {H : Type}

/-- `WF s'` and `Quiet s s'`. -/
def WQ (s s' : Server H) : Prop := s'.WF ∧ Quiet s s'

theorem WQ.refl {s : Server H} (h : s.WF) : WQ s s := ⟨h, Quiet.refl s⟩

theorem WQ.trans {s1 s2 s3 : Server H} (a : WQ s1 s2) (b : WQ s2 s3) : WQ s1 s3 := ⟨b.1, a.2.trans b.2⟩

/-- Changing only `active`, `rng`, and appending to `eventsOut`. -/
theorem WQ.of_eq {s s1 s2 : Server H} (a : WQ s s1) (h1 : s2.clients = s1.clients)
    (h2 : s2.detached = s1.detached) (h3 : s2.nextCid = s1.nextCid) (h4 : s2.cfg = s1.cfg)
    (h5 : s2.timers = s1.timers) (h6 : s2.timeBase = s1.timeBase) (h7 : EvNC s1.eventsOut s2.eventsOut) : WQ s s2 :=
  ⟨a.1.of_eq h1 h2 h3 h4 h5, a.2.trans (Quiet.of_eq h1 h2 h3 h4 h6 h7 h5)⟩

/-- Replacing the timer heap by one that owes no more SYN-ACK resends to any address. -/
theorem Quiet.set_timers (s : Server H) (tm : Array Timer)
    (h : ∀ a, s.owedSum a tm.toList ≤ s.owedSum a s.timers.toList) : Quiet s ({ s with timers := tm } : Server H) :=
  ⟨rfl, rfl, rfl, fun _ h _ => h, fun _ h _ => h, Nat.le_refl _,
   by rw [Server.activeCount_eq, Server.activeCount_eq]; exact Nat.le_refl _, EvNC.refl _,
   fun c h hp => ⟨c, h, rfl, hp⟩, h⟩

theorem Server.owedSum_tPush (s : Server H) (a : Nat) (T : Array Timer) (t : Timer) :
    s.owedSum a (tPush T t).toList = s.owed a t + s.owedSum a T.toList := by
  unfold Server.owedSum; exact sum_tPush _ _ _

theorem Server.owedSum_tPop (s : Server H) (a : Nat) {T T' : Array Timer} {t : Timer} (h : tPop T = some (t, T')) :
    s.owedSum a T.toList = s.owed a t + s.owedSum a T'.toList := by
  unfold Server.owedSum; exact sum_tPop _ _ _ _ h

/-- Pushing a timer (not a SYN-ACK resend) that refers to an existing object. -/
theorem WQ.push {s s1 : Server H} (a : WQ s s1) (t : Timer) (ht : t.cid < s1.nextCid) (hk : t.kind ≠ .resendSynAck) :
    WQ s ({ s1 with timers := tPush s1.timers t } : Server H) := by
  refine ⟨a.1.set_timers _ ?_, a.2.trans (Quiet.set_timers s1 _ ?_)⟩
  · intro x hx
    rw [mem_tPush] at hx
    rcases hx with hx | hx
    · subst hx; exact ht
    · exact a.1.timersLt x hx
  · intro b
    rw [Server.owedSum_tPush]
    have : s1.owed b t = 0 := by
      unfold Server.owed
      rw [if_neg (fun h => hk h.1)]
    omega

theorem WQ.put {s : Server H} (h : s.WF) {c : RClient H} (hc : c ∈ s.clients) (st : RState H)
    (hnf : st.isFin = false) (hnp : st.isPending = false) (hcnt : st.counts = true → c.state.counts = true)
    (hact : st.wasActive = true → c.state.wasActive = true) :
    WQ s (s.put { c with state := st }) :=
  ⟨h.put hc rfl rfl hnf hnp, h.put_quiet hc rfl rfl hnp hcnt hact⟩

theorem WQ.finish {s : Server H} (h : s.WF) {c : RClient H} (hc : c ∈ s.clients ++ s.detached) :
    WQ s (s.finish c) := ⟨h.finish hc, s.finish_quiet c⟩

theorem WQ.events {s : Server H} (h : s.WF) (evs : List SEvent) (hn : NoConn evs) :
    WQ s ({ s with eventsOut := s.eventsOut ++ evs } : Server H) :=
  (WQ.refl h).of_eq rfl rfl rfl rfl rfl rfl (EvNC.append _ hn)

theorem Server.put_nextCid (s : Server H) (c : RClient H) : (s.put c).nextCid = s.nextCid := by
  unfold Server.put; split <;> rfl

theorem Server.put_timers (s : Server H) (c : RClient H) : (s.put c).timers = s.timers := by
  unfold Server.put; split <;> rfl

theorem Server.put_eventsOut (s : Server H) (c : RClient H) : (s.put c).eventsOut = s.eventsOut := by
  unfold Server.put; split <;> rfl

theorem Server.put_cfg (s : Server H) (c : RClient H) : (s.put c).cfg = s.cfg := by
  unfold Server.put; split <;> rfl

theorem Server.put_active (s : Server H) (c : RClient H) : (s.put c).active = s.active := by
  unfold Server.put; split <;> rfl

theorem Server.put_rng (s : Server H) (c : RClient H) : (s.put c).rng = s.rng := by
  unfold Server.put; split <;> rfl

theorem Server.put_detached_of_mem {s : Server H} {c c' : RClient H} (hc : c ∈ s.clients) (hcid : c'.cid = c.cid) :
    (s.put c').detached = s.detached := by
  rw [Server.put_of_mem hc hcid]

/-! ### frame handlers -/

/-- State after a matching handshake ACK for the pending entry `c`. -/
def Server.activate (hc : HC H) (s : Server H) (c : RClient H) (ln rn rate alloc nowMs nowNs : Nat) : Server H :=
  let s1 := s.put { c with state := .active (hc.new (hcConfig s.cfg.ep ln rn rate alloc) nowNs)
                                            (nowMs + s.cfg.ep.activeTimeoutMs) none }
  { s1 with active := s1.active ++ [c.cid], eventsOut := s1.eventsOut ++ [SEvent.connect c.address] }

/-- The two outcomes of `handleHsAck`: ignored, or the pending entry with exactly that nonce is activated. -/
theorem Server.handleHsAck_cases (hc : HC H) (s : Server H) (addr na nowMs nowNs : Nat) :
    (s.handleHsAck hc addr na nowMs nowNs = s ∧
      ¬ ∃ c rn rate alloc reply, s.find addr = some c ∧ c.state = .pending na rn rate alloc reply)
    ∨ ∃ c rn rate alloc reply, s.find addr = some c ∧ c.state = .pending na rn rate alloc reply ∧
        s.handleHsAck hc addr na nowMs nowNs = s.activate hc c na rn rate alloc nowMs nowNs := by
  unfold Server.handleHsAck
  split
  · rename_i hf
    refine Or.inl ⟨rfl, ?_⟩
    rintro ⟨c, _, _, _, _, h, _⟩
    rw [hf] at h; cases h
  · rename_i c hf
    split
    · rename_i ln rn rate alloc rb hst
      split
      · rename_i hna
        subst hna
        refine Or.inr ⟨c, rn, rate, alloc, rb, hf, hst, ?_⟩
        have := (Server.find_some hf).2
        subst this
        rfl
      · rename_i hna
        refine Or.inl ⟨rfl, ?_⟩
        rintro ⟨c', _, _, _, _, h, h'⟩
        rw [hf] at h
        cases h
        rw [hst] at h'
        cases h'
        exact hna rfl
    · rename_i hnp
      refine Or.inl ⟨rfl, ?_⟩
      rintro ⟨c', _, _, _, _, h, h'⟩
      rw [hf] at h
      cases h
      exact hnp _ _ _ _ _ h'

theorem Server.WF.activate (hc : HC H) {s : Server H} (h : s.WF) {c : RClient H} (hcm : c ∈ s.clients)
    (ln rn rate alloc nowMs nowNs : Nat) : (s.activate hc c ln rn rate alloc nowMs nowNs).WF :=
  (h.put (c' := RClient.mk c.cid c.address (RState.active (hc.new (hcConfig s.cfg.ep ln rn rate alloc) nowNs) (nowMs + s.cfg.ep.activeTimeoutMs) none))
    hcm rfl rfl rfl rfl).of_eq rfl rfl rfl rfl rfl

theorem Server.handleDisconnect_wq (hc : HC H) {s : Server H} (h : s.WF) (addr nowMs : Nat)
    {s' : Server H} {sent : List (Nat × List Nat)}
    (hr : s.handleDisconnect hc addr nowMs = .ok (s', sent)) : WQ s s' := by
  unfold Server.handleDisconnect at hr
  split at hr
  · cases hr; exact WQ.refl h
  · rename_i c hf
    obtain ⟨hcm, _⟩ := Server.find_some hf
    have hlt : c.cid < s.nextCid := h.cidLt c (List.mem_append_left _ hcm)
    have hclose : ∀ evs : List SEvent, NoConn evs → c.state.wasActive = true →
        WQ s ({ (({ s with eventsOut := s.eventsOut ++ evs } : Server H).put { c with state := .closed }) with
          eventsOut := (({ s with eventsOut := s.eventsOut ++ evs } : Server H).put { c with state := .closed }).eventsOut
            ++ [SEvent.disconnect addr],
          timers := tPush (({ s with eventsOut := s.eventsOut ++ evs } : Server H).put { c with state := .closed }).timers
            { cid := c.cid, kind := .closedTimeout, time := nowMs + SERVER_CLOSED_TIMEOUT_MS, count := 0 } } : Server H) := by
      intro evs hn hwa
      have h0 := WQ.events h evs hn
      have h1 := h0.trans (WQ.put h0.1 (c := c) hcm .closed rfl rfl (fun hh => by cases hh) (fun _ => hwa))
      have h2 := h1.of_eq (s2 := { (({ s with eventsOut := s.eventsOut ++ evs } : Server H).put
          { c with state := .closed }) with eventsOut := (({ s with eventsOut := s.eventsOut ++ evs } : Server H).put
          { c with state := .closed }).eventsOut ++ [SEvent.disconnect addr] }) rfl rfl rfl rfl rfl rfl
          (EvNC.append _ (NoConn.disconnect addr))
      exact h2.push _ (by show c.cid < _; rw [Server.put_nextCid]; exact hlt) (by intro hk; cases hk)
    split at hr
    · cases hr; exact WQ.refl h
    · rename_i hst
      split at hr
      · cases hr
      · cases hr
        exact hclose _ (NoConn.receive addr _) (by rw [hst]; rfl)
    · rename_i hst
      cases hr
      have := hclose [] NoConn.nil (by rw [hst]; rfl)
      simpa using this
    · cases hr; exact WQ.refl h
    · cases hr; exact WQ.refl h

theorem Server.handleDisconnectAck_wq {s : Server H} (h : s.WF) (addr : Nat) :
    WQ s (s.handleDisconnectAck addr) := by
  unfold Server.handleDisconnectAck
  split
  · exact WQ.refl h
  · rename_i c hf
    obtain ⟨hcm, _⟩ := Server.find_some hf
    split
    · have h0 := WQ.events h [SEvent.disconnect addr] (NoConn.disconnect addr)
      exact h0.trans (WQ.finish h0.1 (List.mem_append_left _ hcm))
    · exact WQ.refl h

theorem Server.handleTraffic_wq (hc : HC H) {s : Server H} (h : s.WF) (addr : Nat) (f : Frame) (nowMs : Nat)
    {s' : Server H} (hr : s.handleTraffic hc addr f nowMs = .ok s') : WQ s s' := by
  unfold Server.handleTraffic at hr
  split at hr
  · cases hr; exact WQ.refl h
  · rename_i c hf
    obtain ⟨hcm, _⟩ := Server.find_some hf
    split at hr
    · rename_i h0 t0 sig hst
      split at hr
      · cases hr
      · cases hr
        exact WQ.put h hcm _ rfl rfl (fun _ => by rw [hst]; rfl) (fun _ => by rw [hst]; rfl)
    · cases hr; exact WQ.refl h

/-- What one frame does: everything is `Quiet` except an accepted SYN. -/
theorem Server.handleFrame_wq (hc : HC H) {s : Server H} (h : s.WF) (addr : Nat) (f : Frame) (nowMs nowNs : Nat)
    {s' : Server H} {sent : List (Nat × List Nat)}
    (hr : s.handleFrame hc addr f nowMs nowNs = .ok (s', sent)) :
    s'.WF ∧ (Quiet s s' ∨ (∃ v n r p a, f = .syn v n r p a ∧ s.find addr = none ∧ ¬ s.full ∧
      s' = s.accept addr n r a nowMs ∧ sent = [(addr, s.synAckBytes n)]) ∨
      (∃ c na rn rate alloc reply, f = .hsAck na ∧ s.find addr = some c ∧ c.state = .pending na rn rate alloc reply ∧
        s' = s.activate hc c na rn rate alloc nowMs nowNs ∧ sent = [])) := by
  cases f with
  | syn v n r p a =>
    simp only [Server.handleFrame, Except.ok.injEq] at hr
    rcases s.handleSyn_cases addr v n r p a nowMs with ⟨_, he⟩ | ⟨hf, e, ev, he⟩ | ⟨hf, hv, hfull, _, _, he⟩
    · rw [he] at hr; cases hr; exact ⟨h, Or.inl (Quiet.refl s)⟩
    · rw [he] at hr; cases hr; exact ⟨h.refuse addr ev, Or.inl (s.refuse_quiet addr ev)⟩
    · rw [he] at hr; cases hr
      exact ⟨h.accept hf n r a nowMs, Or.inr (Or.inl ⟨v, n, r, p, a, rfl, hf, hfull, rfl, rfl⟩)⟩
  | hsAck na =>
    simp only [Server.handleFrame, Except.ok.injEq] at hr
    cases hr
    rcases Server.handleHsAck_cases hc s addr na nowMs nowNs with ⟨he, _⟩ | ⟨c, rn, rate, alloc, reply, hf, hst, he⟩
    · rw [he]; exact ⟨h, Or.inl (Quiet.refl s)⟩
    · rw [he]
      exact ⟨h.activate hc (Server.find_some hf).1 .., Or.inr (Or.inr ⟨c, na, rn, rate, alloc, reply, rfl, hf, hst, rfl, rfl⟩)⟩
  | synAck _ _ _ _ _ =>
    simp only [Server.handleFrame, Except.ok.injEq] at hr
    cases hr; exact ⟨h, Or.inl (Quiet.refl s)⟩
  | hsError _ _ =>
    simp only [Server.handleFrame, Except.ok.injEq] at hr
    cases hr; exact ⟨h, Or.inl (Quiet.refl s)⟩
  | disconnect =>
    simp only [Server.handleFrame] at hr
    have := Server.handleDisconnect_wq hc h addr nowMs hr
    exact ⟨this.1, Or.inl this.2⟩
  | disconnectAck =>
    simp only [Server.handleFrame, Except.ok.injEq] at hr
    cases hr
    have := Server.handleDisconnectAck_wq h addr
    exact ⟨this.1, Or.inl this.2⟩
  | data a b c =>
    simp only [Server.handleFrame] at hr
    cases ht : s.handleTraffic hc addr (.data a b c) nowMs with
    | error e => rw [ht] at hr; cases hr
    | ok s1 =>
      rw [ht] at hr; cases hr
      have := Server.handleTraffic_wq hc h addr _ nowMs ht
      exact ⟨this.1, Or.inl this.2⟩
  | sync a b =>
    simp only [Server.handleFrame] at hr
    cases ht : s.handleTraffic hc addr (.sync a b) nowMs with
    | error e => rw [ht] at hr; cases hr
    | ok s1 =>
      rw [ht] at hr; cases hr
      have := Server.handleTraffic_wq hc h addr _ nowMs ht
      exact ⟨this.1, Or.inl this.2⟩
  | ack a b c =>
    simp only [Server.handleFrame] at hr
    cases ht : s.handleTraffic hc addr (.ack a b c) nowMs with
    | error e => rw [ht] at hr; cases hr
    | ok s1 =>
      rw [ht] at hr; cases hr
      have := Server.handleTraffic_wq hc h addr _ nowMs ht
      exact ⟨this.1, Or.inl this.2⟩

/-! ### timers -/

/-- The outcomes of `handleTimer`: nothing; a SYN-ACK resend (pending entry, count left); a
disconnect-request resend (closing entry, count left); or the object is finished (handshake timeout,
disconnect timeout, end of the closed period), possibly queueing a `connect`-free event. -/
theorem Server.handleTimer_cases (s : Server H) (t : Timer) (nowMs : Nat) :
    s.handleTimer t nowMs = (s, [])
    ∨ (∃ c ln rn r al reply, s.byCid t.cid = some c ∧ c.state = .pending ln rn r al reply ∧
        t.kind = .resendSynAck ∧ t.count > 0 ∧
        s.handleTimer t nowMs =
          ({ s with timers := tPush s.timers { t with count := t.count - 1, time := nowMs + SERVER_HANDSHAKE_RESEND_INTERVAL_MS } },
           [(c.address, reply)]))
    ∨ (∃ c, s.byCid t.cid = some c ∧ c.state.wasActive = true ∧ t.kind = .resendDisconnect ∧ t.count > 0 ∧
        s.handleTimer t nowMs =
          ({ s with timers := tPush s.timers { t with count := t.count - 1, time := nowMs + SERVER_DISCONNECT_RESEND_INTERVAL_MS } },
           [(c.address, discReq)]))
    ∨ (∃ c evs, s.byCid t.cid = some c ∧ NoConn evs ∧
        s.handleTimer t nowMs = (({ s with eventsOut := s.eventsOut ++ evs } : Server H).finish c, [])) := by
  unfold Server.handleTimer
  split
  · exact Or.inl rfl
  · rename_i c hb
    split
    · rename_i ln rn r al reply hst
      split
      · rename_i hk
        split
        · rename_i hcnt
          exact Or.inr (Or.inl ⟨c, ln, rn, r, al, reply, hb, hst, hk, hcnt, rfl⟩)
        · by_cases he : s.cfg.enableHandshakeErrors
          · simp only [he, if_true]
            exact Or.inr (Or.inr (Or.inr ⟨c, [SEvent.error c.address .timeout], hb, NoConn.error _ _, rfl⟩))
          · simp only [he]
            exact Or.inr (Or.inr (Or.inr ⟨c, [], hb, NoConn.nil, by simp⟩))
      · exact Or.inl rfl
    · rename_i hst
      split
      · rename_i hk
        split
        · rename_i hcnt
          exact Or.inr (Or.inr (Or.inl ⟨c, hb, by rw [hst]; rfl, hk, hcnt, rfl⟩))
        · exact Or.inr (Or.inr (Or.inr ⟨c, [SEvent.error c.address .timeout], hb, NoConn.error _ _, rfl⟩))
      · exact Or.inl rfl
    · split
      · exact Or.inr (Or.inr (Or.inr ⟨c, [], hb, NoConn.nil, by simp⟩))
      · exact Or.inl rfl
    · exact Or.inl rfl

/-- Popping the due timer and handling it. -/
theorem Server.popTimer_wq {s : Server H} (h : s.WF) {t : Timer} {hp : Array Timer} (hpop : tPop s.timers = some (t, hp))
    (nowMs : Nat) : WQ s (({ s with timers := hp } : Server H).handleTimer t nowMs).1 := by
  have hlt : ∀ x, x ∈ s.timers.toList → x.cid < s.nextCid := h.timersLt
  have hw0 : ({ s with timers := hp } : Server H).WF :=
    h.set_timers hp (fun x hx => hlt x ((mem_tPop _ _ _ x hpop).2 (Or.inr hx)))
  have ht : t.cid < s.nextCid := hlt t ((mem_tPop _ _ _ t hpop).2 (Or.inl rfl))
  have h0 : WQ s ({ s with timers := hp } : Server H) := by
    refine ⟨hw0, Quiet.set_timers s hp ?_⟩
    intro a
    rw [Server.owedSum_tPop s a hpop]
    omega
  -- re-pushing the timer with a smaller count
  have hre : ∀ (time : Nat), WQ s ({ s with timers := tPush hp { t with count := t.count - 1, time := time } } : Server H) := by
    intro time
    refine ⟨h.set_timers _ ?_, Quiet.set_timers s _ ?_⟩
    · intro x hx
      rw [mem_tPush] at hx
      rcases hx with hx | hx
      · subst hx; exact ht
      · exact hlt x ((mem_tPop _ _ _ x hpop).2 (Or.inr hx))
    · intro a
      rw [Server.owedSum_tPop s a hpop, Server.owedSum_tPush]
      have : s.owed a { t with count := t.count - 1, time := time } ≤ s.owed a t := by
        unfold Server.owed
        simp only
        split
        · exact Nat.sub_le _ _
        · exact Nat.le_refl _
      omega
  rcases Server.handleTimer_cases ({ s with timers := hp } : Server H) t nowMs with
    he | ⟨c, ln, rn, r, al, reply, _, _, _, _, he⟩ | ⟨c, _, _, _, _, he⟩ | ⟨c, evs, hb, hn, he⟩
  · rw [he]; exact h0
  · rw [he]; exact hre _
  · rw [he]; exact hre _
  · rw [he]
    have h1 := WQ.events hw0 evs hn
    exact h0.trans (h1.trans (WQ.finish h1.1 (Server.byCid_some hb).1))

theorem Server.runTimers_wq (fuel : Nat) : ∀ {s : Server H} (_ : s.WF) (nowMs : Nat) (sent : List (Nat × List Nat)),
    WQ s (Server.runTimers fuel s nowMs sent).1 := by
  induction fuel with
  | zero => intro s h nowMs sent; exact WQ.refl h
  | succ fuel ih =>
    intro s h nowMs sent
    unfold Server.runTimers
    split
    · exact WQ.refl h
    · split
      · exact WQ.refl h
      · split
        · exact WQ.refl h
        · rename_i t hp hpop
          have h2 := Server.popTimer_wq h hpop nowMs
          exact h2.trans (ih h2.1 nowMs _)

/-! ### loops over `active` -/

theorem Server.activeTimeouts_wq (hc : HC H) {s : Server H} (h : s.WF) (nowMs : Nat) {s' : Server H}
    (hr : s.activeTimeouts hc nowMs = .ok s') : WQ s s' := by
  unfold Server.activeTimeouts at hr
  refine foldlM_ok_inv (fun x => WQ s x) _ ?_ s.active s s' (WQ.refl h) hr
  intro b cid b' hb hf
  split at hf
  · cases hf; exact hb
  · rename_i c hbc
    have hcm := (Server.byCid_some hbc).1
    split at hf
    · split at hf
      · split at hf
        · cases hf
        · cases hf
          have h0 := WQ.events hb.1 (List.map (SEvent.receive c.address) ‹_› ++ [SEvent.error c.address .timeout])
            ((NoConn.receive _ _).append (NoConn.error _ _))
          have h1 := h0.trans (WQ.finish h0.1 hcm)
          refine hb.trans ?_
          simpa [List.append_assoc] using h1
      · cases hf; exact hb
    · cases hf; exact hb

/-- `stepActive` is quiet, and sends only to addresses of active objects. -/
theorem Server.stepActive_wqs (hc : HC H) {s : Server H} (h : s.WF) (nowMs nowNs : Nat) {s' : Server H}
    {sent : List (Nat × List Nat)} (hr : s.stepActive hc nowMs nowNs = .ok (s', sent)) :
    WQ s s' ∧ ∀ a, s.NoAct a → bytesOf a sent = 0 := by
  unfold Server.stepActive at hr
  refine foldlM_ok_inv (fun x : Server H × List (Nat × List Nat) => WQ s x.1 ∧ ∀ a, s.NoAct a → bytesOf a x.2 = 0)
    _ ?_ s.active (s, []) (s', sent) ⟨WQ.refl h, fun _ _ => rfl⟩ hr
  intro b cid b' hb hf
  simp only at hf
  split at hf
  · cases hf; exact hb
  · rename_i c hbc
    split at hf
    · rename_i h0 timeout sig hst
      have hcm : c ∈ b.1.clients := hb.1.1.byCid_mem hbc (by rw [hst]; rfl)
      have hlt : c.cid < b.1.nextCid := hb.1.1.cidLt c (List.mem_append_left _ hcm)
      have hS : ∀ a, s.NoAct a → bytesOf a (b.2 ++ [(c.address, discReq)]) = 0 := by
        intro a hna
        rw [bytesOf_append, hb.2 a hna, bytesOf_single_ne]
        exact (hna.quiet hb.1.2).addr_ne (List.mem_append_left _ hcm) (by rw [hst]; rfl)
      have hA : ∀ pkts : List (List Nat), WQ s
          ({ (({ b.1 with eventsOut := b.1.eventsOut ++ pkts.map (SEvent.receive c.address) } : Server H).put
                { c with state := .closing }) with
             timers := tPush (({ b.1 with eventsOut := b.1.eventsOut ++ pkts.map (SEvent.receive c.address) } : Server H).put
                { c with state := .closing }).timers
                { cid := c.cid, kind := .resendDisconnect, time := nowMs + SERVER_DISCONNECT_RESEND_INTERVAL_MS,
                  count := SERVER_DISCONNECT_RESEND_COUNT } } : Server H) := by
        intro pkts
        have h1 := WQ.events hb.1.1 (List.map (SEvent.receive c.address) pkts) (NoConn.receive _ _)
        have h2 := h1.trans (WQ.put h1.1 (c := c) hcm .closing rfl rfl (fun hh => by cases hh) (fun _ => by rw [hst]; rfl))
        exact hb.1.trans (h2.push _ (by show c.cid < _; rw [Server.put_nextCid]; exact hlt) (by intro hk; cases hk))
      have hB : ∀ (h1 : H) (pkts : List (List Nat)), WQ s
          ({ (b.1.put { c with state := .active h1 timeout sig }) with
             eventsOut := (b.1.put { c with state := .active h1 timeout sig }).eventsOut
                ++ pkts.map (SEvent.receive c.address) } : Server H) := by
        intro h1 pkts
        have h1 := WQ.put hb.1.1 (c := c) hcm (.active h1 timeout sig) rfl rfl (fun _ => by rw [hst]; rfl) (fun _ => by rw [hst]; rfl)
        exact hb.1.trans (h1.of_eq rfl rfl rfl rfl rfl rfl (EvNC.append _ (NoConn.receive _ _)))
      repeat' split at hf
      all_goals first
        | (cases hf; exact hb)
        | (cases hf; done)
        | (cases hf; exact ⟨hA _, hS⟩)
        | (cases hf; exact ⟨hB _ _, hb.2⟩)
    · cases hf; exact hb

theorem Server.stepActive_wq (hc : HC H) {s : Server H} (h : s.WF) (nowMs nowNs : Nat) {s' : Server H}
    {sent : List (Nat × List Nat)} (hr : s.stepActive hc nowMs nowNs = .ok (s', sent)) : WQ s s' :=
  (Server.stepActive_wqs hc h nowMs nowNs hr).1

/-- `flushActive` is quiet, and sends only to addresses of active objects. -/
theorem Server.flushActive_wqs (hc : HC H) {s : Server H} (h : s.WF) {s' : Server H}
    {sent : List (Nat × List Nat)} (hr : s.flushActive hc = .ok (s', sent)) :
    WQ s s' ∧ ∀ a, s.NoAct a → bytesOf a sent = 0 := by
  unfold Server.flushActive at hr
  refine foldlM_ok_inv (fun x : Server H × List (Nat × List Nat) => WQ s x.1 ∧ ∀ a, s.NoAct a → bytesOf a x.2 = 0)
    _ ?_ s.active (s, []) (s', sent) ⟨WQ.refl h, fun _ _ => rfl⟩ hr
  intro b cid b' hb hf
  simp only at hf
  split at hf
  · cases hf; exact hb
  · rename_i c hbc
    split at hf
    · rename_i h0 timeout sig hst
      have hcm : c ∈ b.1.clients := hb.1.1.byCid_mem hbc (by rw [hst]; rfl)
      split at hf
      · cases hf
      · cases hf
        rename_i h1 rng frames _
        have h0 : WQ b.1 ({ b.1 with rng := rng } : Server H) :=
          (WQ.refl hb.1.1).of_eq rfl rfl rfl rfl rfl rfl (EvNC.refl _)
        refine ⟨hb.1.trans (h0.trans (WQ.put h0.1 (c := c) hcm _ rfl rfl (fun _ => by rw [hst]; rfl) (fun _ => by rw [hst]; rfl))), ?_⟩
        intro a hna
        rw [bytesOf_append, hb.2 a hna, bytesOf_map_ne]
        exact (hna.quiet hb.1.2).addr_ne (List.mem_append_left _ hcm) (by rw [hst]; rfl)
    · cases hf; exact hb

theorem Server.flushActive_wq (hc : HC H) {s : Server H} (h : s.WF) {s' : Server H}
    {sent : List (Nat × List Nat)} (hr : s.flushActive hc = .ok (s', sent)) : WQ s s' :=
  (Server.flushActive_wqs hc h hr).1

/-! ### frames of a step -/

/-- Invariants of the datagram loop, for any property `P` kept by quiet transitions and by an
accepted SYN. -/
theorem Server.handleFrames_inv (hc : HC H) (P : Server H → Prop)
    (hq : ∀ s s' : Server H, s.WF → P s → Quiet s s' → P s')
    (ha : ∀ (s : Server H) addr n r a nowMs, s.WF → P s → s.find addr = none → ¬ s.full → P (s.accept addr n r a nowMs))
    (hk : ∀ (s : Server H) addr c ln rn rate alloc reply nowMs nowNs, s.WF → P s → s.find addr = some c →
      c.state = .pending ln rn rate alloc reply → P (s.activate hc c ln rn rate alloc nowMs nowNs))
    {s : Server H} (h : s.WF) (hp : P s) (arrivals : List (Nat × List Nat)) (nowMs nowNs : Nat)
    {s' : Server H} {sent : List (Nat × List Nat)}
    (hr : s.handleFrames hc arrivals nowMs nowNs = .ok (s', sent)) : s'.WF ∧ P s' := by
  unfold Server.handleFrames at hr
  refine foldlM_ok_inv (fun x : Server H × List (Nat × List Nat) => x.1.WF ∧ P x.1) _ ?_ arrivals (s, []) (s', sent)
    ⟨h, hp⟩ hr
  intro b a b' hb hf
  simp only at hf
  split at hf
  · cases hf; exact hb
  · rename_i f _
    split at hf
    · cases hf
    · rename_i s1 sent1 hfr
      cases hf
      obtain ⟨hw, hq' | ⟨v, n, r, p, a', _, hfn, hfull, hs1, _⟩ | ⟨c, na, rn, rate, alloc, reply, _, hfn, hst, hs1, _⟩⟩ :=
        Server.handleFrame_wq hc hb.1 a.1 f nowMs nowNs hfr
      · exact ⟨hw, hq _ _ hb.1 hb.2 hq'⟩
      · refine ⟨hw, ?_⟩
        show P s1
        rw [hs1]
        exact ha _ _ _ _ _ _ hb.1 hb.2 hfn hfull
      · refine ⟨hw, ?_⟩
        show P s1
        rw [hs1]
        exact hk _ _ _ _ _ _ _ _ _ _ hb.1 hb.2 hfn hst

end Uflow.Endpoint
