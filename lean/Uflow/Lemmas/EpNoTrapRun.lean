import Uflow.Lemmas.EpNoTrapTimers
import Uflow.Lemmas.EpNoTrapCli

/-!
C03 (endpoints): the full server invariant `SrvInv` (well-formedness `Server.WF`, `SInv` with the
heap order), sequences of API calls on a server / a client, and their trap freedom.
-/

namespace Uflow.EpNoTrap

open Uflow Uflow.Gen Uflow.Codec Uflow.HalfConn Uflow.Endpoint

variable {H : Type}

/-- The server invariant at server time `lastNs` (the `now` of the last `step`; `0` before the
first): `Server.WF` (identities and addresses unique, detached objects `fin`, pending entries carry a
`u32` nonce and their SYN-ACK, timers name existing identities), every half connection owned by the
server satisfies `Inv` with a clock `≤ lastNs`, and the timer heap is a min-heap on `time`. -/
structure SrvInv (Inv : H → Prop) (last : H → Nat) (lastNs : Nat) (s : Server H) : Prop where
  wf : s.WF
  inv : SInv Inv last THeap lastNs s

variable {Inv : H → Prop} {last : H → Nat} {T : Nat} {hc : HC H}

theorem SrvInv.init (cfg : SrvConfig) (now : Nat) (rng : Rng) (T : Nat) :
    SrvInv Inv last T (Server.init cfg now rng : Server H) :=
  ⟨Server.init_WF cfg now rng, SInv.init heapPred_THeap cfg now rng T⟩

/-- `Server.WF` is kept by a successful `step`. -/
theorem step_wf {s s' : Server H} (hw : s.WF) {nowNs : Nat} {arrivals : List (Nat × List Nat)}
    {sent : List (Nat × List Nat)} {evs : List SEvent} (hr : s.step hc nowNs arrivals = .ok (s', sent, evs)) :
    s'.WF :=
  (Server.step_inv hc (fun _ => True) (fun _ _ _ _ _ => trivial) (fun _ _ _ _ _ _ _ _ _ _ => trivial)
    (fun _ _ _ _ _ _ _ _ _ _ _ _ _ _ => trivial) (fun _ _ _ => trivial) hw trivial nowNs arrivals hr).1

theorem srv_step_ok (hok : HCOk hc Inv last) {s : Server H} (hi : SrvInv Inv last T s) (nowNs : Nat)
    (hle : T ≤ nowNs) (arrivals : List (Nat × List Nat)) :
    ∃ s' sent evs, s.step hc nowNs arrivals = .ok (s', sent, evs) ∧ SrvInv Inv last nowNs s' ∧
      Later ((nowNs - s.timeBase) / 1000000) s'.timers := by
  obtain ⟨s', sent, evs, hr, hi', hl⟩ := step_ok_later hok hi.inv nowNs hle arrivals
  exact ⟨s', sent, evs, hr, ⟨step_wf hi.wf hr, hi'⟩, hl⟩

theorem srv_flush_ok (hok : HCOk hc Inv last) {s : Server H} (hi : SrvInv Inv last T s) :
    ∃ s' sent, s.flush hc = .ok (s', sent) ∧ SrvInv Inv last T s' := by
  obtain ⟨⟨s', sent⟩, hr, hi'⟩ := flush_ok hok hi.inv
  exact ⟨s', sent, hr, ⟨(Server.flushActive_wq hc hi.wf hr).1, hi'⟩⟩

theorem srv_send_inv (hok : HCOk hc Inv last) {s : Server H} (hi : SrvInv Inv last T s) (addr : Nat)
    (data : List Nat) (chan : Nat) (mode : SendMode) (hlen : data.length ≤ MAX_PACKET_SIZE)
    (hch : chan < CHANNEL_COUNT) : SrvInv Inv last T (s.send hc addr data chan mode) :=
  ⟨(Server.send_wq hc hi.wf addr data chan mode).1, send_inv hok hi.inv addr data chan mode hlen hch⟩

theorem srv_disconnect_inv {s : Server H} (hi : SrvInv Inv last T s) (addr : Nat) (m : DisconnectMode) :
    SrvInv Inv last T (s.disconnect addr m) :=
  ⟨(Server.disconnect_wq hi.wf addr m).1, disconnect_inv hi.inv addr m⟩

theorem srv_drop_inv {s : Server H} (hi : SrvInv Inv last T s) (addr : Nat) :
    SrvInv Inv last T (s.drop addr) :=
  ⟨(Server.drop_wq hi.wf addr).1, drop_inv hi.inv addr⟩


/-- One decoded frame (ANY frame, ANY address), handled at the time of the current step. -/
theorem srv_handleFrame_ok (hok : HCOk hc Inv last) {s : Server H} (hi : SrvInv Inv last T s) (addr : Nat)
    (f : Frame) (nowMs : Nat) :
    ∃ s' sent, s.handleFrame hc addr f nowMs T = .ok (s', sent) ∧ SrvInv Inv last T s' := by
  obtain ⟨⟨s', sent⟩, hr, hi'⟩ := handleFrame_ok hok heapPred_THeap hi.inv addr f nowMs
  exact ⟨s', sent, hr, ⟨(Server.handleFrame_wq hc hi.wf addr f nowMs T hr).1, hi'⟩⟩

/-! ### the datagram loop, one datagram at a time -/

/-- The body of the datagram loop of `handle_frames`. -/
def frameStep (hc : HC H) (nowMs nowNs : Nat) (acc : Server H × List (Nat × List Nat)) (a : Nat × List Nat) :
    R (Server H × List (Nat × List Nat)) :=
  match decode (a.2.take MAX_FRAME_SIZE) with
  | none => .ok acc
  | some f =>
    match acc.1.handleFrame hc a.1 f nowMs nowNs with
    | .error t => .error t
    | .ok (s', sent) => .ok (s', acc.2 ++ sent)

theorem handleFrames_eq (hc : HC H) (s : Server H) (arrivals : List (Nat × List Nat)) (nowMs nowNs : Nat) :
    s.handleFrames hc arrivals nowMs nowNs = arrivals.foldlM (frameStep hc nowMs nowNs) (s, []) := rfl

theorem frameStep_acc (hc : HC H) (nowMs nowNs : Nat) (s : Server H) (acc : List (Nat × List Nat)) (a : Nat × List Nat) :
    frameStep hc nowMs nowNs (s, acc) a = (frameStep hc nowMs nowNs (s, []) a).map fun r => (r.1, acc ++ r.2) := by
  unfold frameStep
  split
  · simp [Except.map]
  · simp only
    split <;> simp [Except.map]

theorem foldlM_frameStep_acc (hc : HC H) (nowMs nowNs : Nat) (l : List (Nat × List Nat)) :
    ∀ (s : Server H) (acc : List (Nat × List Nat)),
      l.foldlM (frameStep hc nowMs nowNs) (s, acc) =
        (l.foldlM (frameStep hc nowMs nowNs) (s, [])).map fun r => (r.1, acc ++ r.2) := by
  induction l with
  | nil => intro s acc; simp [Except.map, pure, Except.pure]
  | cons a l ih =>
    intro s acc
    rw [List.foldlM_cons, List.foldlM_cons, frameStep_acc]
    cases h : frameStep hc nowMs nowNs (s, []) a with
    | error t => rfl
    | ok r =>
      obtain ⟨s1, acc1⟩ := r
      simp only [Except.map, bind, Except.bind]
      rw [ih s1 (acc ++ acc1), ih s1 acc1]
      cases List.foldlM (frameStep hc nowMs nowNs) (s1, []) l with
      | error t => rfl
      | ok r2 => simp [Except.map, List.append_assoc]

/-- One datagram that decodes to `f`, then the rest. -/
theorem handleFrames_cons_decoded (hc : HC H) (s : Server H) (a : Nat) (bytes : List Nat)
    (rest : List (Nat × List Nat)) (nowMs nowNs : Nat) (f : Frame)
    (hd : decode (bytes.take MAX_FRAME_SIZE) = some f) {s1 : Server H} {sent1 : List (Nat × List Nat)}
    (h1 : s.handleFrame hc a f nowMs nowNs = .ok (s1, sent1)) :
    s.handleFrames hc ((a, bytes) :: rest) nowMs nowNs =
      (s1.handleFrames hc rest nowMs nowNs).map fun r => (r.1, sent1 ++ r.2) := by
  rw [handleFrames_eq, handleFrames_eq, List.foldlM_cons]
  have : frameStep hc nowMs nowNs (s, []) (a, bytes) = .ok (s1, [] ++ sent1) := by
    unfold frameStep
    simp only [hd, h1]
  rw [this]
  simp only [bind, Except.bind, List.nil_append]
  exact foldlM_frameStep_acc hc nowMs nowNs rest s1 sent1
/-- Datagrams that do not decode (bad CRC, unknown type, truncated, wrong length) are discarded:
no state change, nothing sent. -/
theorem handleFrames_junk (hc : HC H) (s : Server H) (arrivals : List (Nat × List Nat)) (nowMs nowNs : Nat)
    (hj : ∀ a ∈ arrivals, decode (a.2.take MAX_FRAME_SIZE) = none) :
    s.handleFrames hc arrivals nowMs nowNs = .ok (s, []) := by
  rw [handleFrames_eq]
  induction arrivals with
  | nil => rfl
  | cons a rest ih =>
    rw [List.foldlM_cons]
    have : frameStep hc nowMs nowNs (s, []) a = .ok (s, []) := by
      unfold frameStep
      rw [hj a List.mem_cons_self]
    rw [this]
    exact ih fun x hx => hj x (List.mem_cons_of_mem _ hx)

/-- A frame other than a SYN from an address without a map entry is discarded: no state change,
nothing sent. -/
theorem handleFrame_unknown (hc : HC H) (s : Server H) (a : Nat) (f : Frame) (nowMs nowNs : Nat)
    (hf : s.find a = none) (hsyn : ∀ v n r p al, f ≠ .syn v n r p al) :
    s.handleFrame hc a f nowMs nowNs = .ok (s, []) := by
  cases f with
  | syn v n r p al => exact absurd rfl (hsyn v n r p al)
  | hsAck na => simp only [Server.handleFrame, Server.handleHsAck, hf]
  | synAck _ _ _ _ _ => rfl
  | hsError _ _ => rfl
  | disconnect => simp only [Server.handleFrame, Server.handleDisconnect, hf]
  | disconnectAck => simp only [Server.handleFrame, Server.handleDisconnectAck, hf]
  | data x y z => simp only [Server.handleFrame, Server.handleTraffic, hf]; rfl
  | sync x y => simp only [Server.handleFrame, Server.handleTraffic, hf]; rfl
  | ack x y z => simp only [Server.handleFrame, Server.handleTraffic, hf]; rfl

/-! ### runs of a server -/

/-- The side condition of one server operation, given the time `t` of the last `step`: the clock
does not run backwards; `send` within the assertions of `RemoteClient::send`. Arrivals, addresses,
`drop`, `disconnect`, `flush` are unconstrained. -/
def sopOk (t : Nat) : SOp → Bool
  | .step now _ => decide (t ≤ now)
  | .send _ data chan _ => decide (data.length ≤ MAX_PACKET_SIZE) && decide (chan < CHANNEL_COUNT)
  | _ => true

/-- The time of the last `step` after the operation. -/
def sopTime (t : Nat) : SOp → Nat
  | .step now _ => now
  | _ => t

def sopsOk (t : Nat) : List SOp → Bool
  | [] => true
  | op :: rest => sopOk t op && sopsOk (sopTime t op) rest

def sopsTime (t : Nat) : List SOp → Nat
  | [] => t
  | op :: rest => sopsTime (sopTime t op) rest

/-- Runs a list of operations: final state, all datagrams sent, all events delivered. -/
def runS (hc : HC H) : Server H → List SOp → R (Server H × List (Nat × List Nat) × List SEvent)
  | s, [] => .ok (s, [], [])
  | s, op :: rest =>
    match s.apply hc op with
    | .error t => .error t
    | .ok (s1, sent1, evs1) =>
      match runS hc s1 rest with
      | .error t => .error t
      | .ok (s2, sent2, evs2) => .ok (s2, sent1 ++ sent2, evs1 ++ evs2)

theorem srv_apply_ok (hok : HCOk hc Inv last) {s : Server H} (hi : SrvInv Inv last T s) (op : SOp)
    (hop : sopOk T op = true) :
    ∃ s' sent evs, s.apply hc op = .ok (s', sent, evs) ∧ SrvInv Inv last (sopTime T op) s' := by
  cases op with
  | step now arr =>
    simp only [sopOk, decide_eq_true_eq] at hop
    obtain ⟨s', sent, evs, hr, hi', _⟩ := srv_step_ok hok hi now hop arr
    exact ⟨s', sent, evs, hr, hi'⟩
  | flush =>
    obtain ⟨s', sent, hr, hi'⟩ := srv_flush_ok hok hi
    exact ⟨s', sent, [], by simp only [Server.apply, hr], hi'⟩
  | drop addr => exact ⟨_, [], [], rfl, srv_drop_inv hi addr⟩
  | disconnect addr m => exact ⟨_, [], [], rfl, srv_disconnect_inv hi addr m⟩
  | send addr data chan mode =>
    simp only [sopOk, Bool.and_eq_true, decide_eq_true_eq] at hop
    exact ⟨_, [], [], rfl, srv_send_inv hok hi addr data chan mode hop.1 hop.2⟩

theorem runS_ok (hok : HCOk hc Inv last) (ops : List SOp) : ∀ {T : Nat} {s : Server H}, SrvInv Inv last T s →
    sopsOk T ops = true →
    ∃ s' sent evs, runS hc s ops = .ok (s', sent, evs) ∧ SrvInv Inv last (sopsTime T ops) s' := by
  induction ops with
  | nil => intro T s hi _; exact ⟨s, [], [], rfl, hi⟩
  | cons op rest ih =>
    intro T s hi hop
    simp only [sopsOk, Bool.and_eq_true] at hop
    obtain ⟨s1, sent1, evs1, h1, i1⟩ := srv_apply_ok hok hi op hop.1
    obtain ⟨s2, sent2, evs2, h2, i2⟩ := ih i1 hop.2
    exact ⟨s2, sent1 ++ sent2, evs1 ++ evs2, by simp only [runS, h1, h2], i2⟩

/-! ### runs of a client -/

/-- The side condition of one client operation, given the time `t` of the last `step`. -/
def copOk (t : Nat) : COp → Bool
  | .step now _ => decide (t ≤ now)
  | .send data chan _ => decide (data.length ≤ MAX_PACKET_SIZE) && decide (chan < CHANNEL_COUNT)
  | _ => true

def copTime (t : Nat) : COp → Nat
  | .step now _ => now
  | _ => t

def copsOk (t : Nat) : List COp → Bool
  | [] => true
  | op :: rest => copOk t op && copsOk (copTime t op) rest

def copsTime (t : Nat) : List COp → Nat
  | [] => t
  | op :: rest => copsTime (copTime t op) rest

theorem cli_apply_ok (hok : HCOk hc Inv last) {c : Client H} (hi : CInv Inv last T c) (op : COp)
    (hop : copOk T op = true) :
    ∃ c' sent evs, c.apply hc op = .ok (c', sent, evs) ∧ CInv Inv last (copTime T op) c' := by
  cases op with
  | step now arr =>
    simp only [copOk, decide_eq_true_eq] at hop
    exact cStep_ok hok hi now hop arr
  | flush =>
    obtain ⟨⟨c', sent⟩, hr, hi'⟩ := cFlush_ok hok hi
    exact ⟨c', sent, [], by simp only [Client.apply, hr], hi'⟩
  | disconnect m => exact ⟨_, [], [], rfl, cDisconnect_inv hi m⟩
  | send data chan mode =>
    simp only [copOk, Bool.and_eq_true, decide_eq_true_eq] at hop
    exact ⟨_, [], [], rfl, cSend_inv hok hi data chan mode hop.1 hop.2⟩

theorem cli_run_ok (hok : HCOk hc Inv last) (ops : List COp) : ∀ {T : Nat} {c : Client H}, CInv Inv last T c →
    copsOk T ops = true →
    ∃ c' sent evs, Client.run hc c ops = .ok (c', sent, evs) ∧ CInv Inv last (copsTime T ops) c' := by
  induction ops with
  | nil => intro T c hi _; exact ⟨c, [], [], rfl, hi⟩
  | cons op rest ih =>
    intro T c hi hop
    simp only [copsOk, Bool.and_eq_true] at hop
    obtain ⟨c1, sent1, evs1, h1, i1⟩ := cli_apply_ok hok hi op hop.1
    obtain ⟨c2, sent2, evs2, h2, i2⟩ := ih i1 hop.2
    exact ⟨c2, sent1 ++ sent2, evs1 ++ evs2, by simp only [Client.run, h1, h2], i2⟩

end Uflow.EpNoTrap
