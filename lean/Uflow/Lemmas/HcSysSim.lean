import Uflow.Lemmas.HcSysInv
import Uflow.Lemmas.SysDefs
import Uflow.Lemmas.SysPassSum

/-!
C01Hc, part 7: the refinement. Every step of `HcPair` whose side condition `OpOk` holds is matched by
a (possibly empty) sequence of steps of the packet-layer system `Sys`, keeping the relation `Rel`:
the `Sys` sender is `A.ps` (up to the fragment acknowledgement flags), the `Sys` receiver is `B.pr`,
and the ghost histories agree.
-/

namespace Uflow.HcSys

open Uflow Uflow.Gen Uflow.Codec Uflow.HalfConn Uflow.PSend Uflow.Sys
open Uflow.PRecv (bindR bindR_ok G LogE stepT receiveT lift)
open Uflow.Rate (FloatOps)

variable {F : Type}

/-- The refinement relation between a state of the pair and a state of `Sys`. -/
structure Rel (h : HcPair F) (s : Sys) : Prop where
  /-- the `Sys` sender is `A`'s packet sender with the fragment acknowledgement flags forgotten -/
  snd : s.snd = erase h.A.ps
  /-- same packets returned by `PSend.emit` -/
  pend : s.pend = h.pend
  /-- the submitted packets of `Sys` are the `A.send` calls -/
  enq : s.hist.enqueued = h.sent
  elen : s.hist.emitted.length = s.pend.length
  /-- the `Sys` receiver is `B`'s packet receiver -/
  rcv : s.rcv.st = h.B.pr
  adv : s.rcv.adv = h.advB
  /-- the payloads `Sys` logged as handed to the sink are those `B.receive` returned -/
  log : s.rcv.log.filterMap LogE.data = h.outs
  /-- every recorded base of `B` can be acknowledged in `Sys` -/
  seen : ∀ x ∈ h.bases, x ∈ s.seen
  /-- every fragment datagram of every emitted packet is in the `Sys` network -/
  net : ∀ i d, IsFrag s.pend i d → (i, d) ∈ s.net
  /-- same emission history, with send modes -/
  em : s.hist.emitted = h.em
  /-- every recorded sync value of the pair can be delivered in `Sys` -/
  syncs : ∀ x ∈ h.syncs, x ∈ s.syncs

theorem runS_append (s : Sys) (a b : List SOp) :
    runS s (a ++ b) = bindR (runS s a) fun s' => runS s' b := by
  induction a generalizing s with
  | nil => rfl
  | cons op rest ih =>
    simp only [List.cons_append, runS]
    cases stepS s op with
    | error t => rfl
    | ok s1 => simp only [bindR_ok]; exact ih s1

theorem runS_single (s s' : Sys) (op : SOp) (h : stepS s op = .ok s') : runS s [op] = .ok s' := by
  simp only [runS, h, bindR_ok]

/-! ### sender steps -/

theorem isFrag_append_cases {pend : List Pending} {p : Pending} {i : Nat} {d : Datagram}
    (h : IsFrag (pend ++ [p]) i d) : IsFrag pend i d ∨ (i = pend.length ∧ (i, d) ∈ dgsOf pend.length p) := by
  obtain ⟨p', fid, hp, hf, hd⟩ := h
  rcases getElem?_append_singleton_cases pend p i p' hp with h1 | ⟨rfl, rfl⟩
  · exact .inl ⟨p', fid, h1, hf, hd⟩
  · refine .inr ⟨rfl, ?_⟩
    simp only [dgsOf, List.mem_filterMap, List.mem_range]
    exact ⟨fid, by omega, by rw [hd]⟩

/-- One `emit` call of `A` is one `emit` step of `Sys`. -/
theorem sim_emit (s : Sys) (ps ps1 : PSend.State) (f : Nat) (r : Option (Pending × Bool))
    (hs : s.snd = erase ps) (hel : s.hist.emitted.length = s.pend.length)
    (hnet : ∀ i d, IsFrag s.pend i d → (i, d) ∈ s.net) (he : emit ps f = .ok (ps1, r)) :
    ∃ s', stepS s (.emit f) = .ok s' ∧ s'.snd = erase ps1 ∧ s'.pend = s.pend ++ (r.map Prod.fst).toList ∧
      s'.hist.enqueued = s.hist.enqueued ∧ s'.hist.emitted.length = s'.pend.length ∧
      s'.rcv = s.rcv ∧ s'.seen = s.seen ∧ (∀ i d, IsFrag s'.pend i d → (i, d) ∈ s'.net) ∧
      s'.hist.emitted = s.hist.emitted ++ (r.map fun v => mkEmitted ps f v.1).toList ∧
      s'.syncs = s.syncs := by
  have he' : emit s.snd f = .ok (erase ps1, r) := by
    rw [hs, emit_erase, he]; rfl
  have hem : emitted? s.snd f = r.map Prod.fst := by
    unfold emitted?
    rw [he']
    cases r with
    | none => rfl
    | some v => obtain ⟨p, b⟩ := v; rfl
  simp only [stepS, stepH, he', hem]
  cases r with
  | none =>
    simp only [bindR_ok, Option.map_none, Option.toList_none, List.append_nil, List.flatMap_nil]
    exact ⟨_, rfl, rfl, rfl, rfl, hel, rfl, rfl, hnet, rfl, rfl⟩
  | some v =>
    obtain ⟨p, b⟩ := v
    simp only [bindR_ok, Option.map_some, Option.toList_some, List.flatMap_cons, List.flatMap_nil,
      List.append_nil]
    refine ⟨_, rfl, rfl, rfl, rfl, ?_, rfl, rfl, ?_, ?_, rfl⟩
    · simp only [List.length_append, List.length_cons, List.length_nil]; omega
    · intro i d hi
      rcases isFrag_append_cases hi with h1 | ⟨_, h2⟩
      · exact List.mem_append_left _ (hnet i d h1)
      · exact List.mem_append_right _ h2
    · show s.hist.emitted ++ [mkEmitted s.snd f p] = s.hist.emitted ++ [mkEmitted ps f p]
      rw [hs]; rfl

/-- A chain of `emit` calls of `A` (one `flush`) is a sequence of `emit` steps of `Sys`. -/
theorem sim_emits {f : Nat} {ps ps' : PSend.State} {l : List Pending} (hem : Emits f ps ps' l) (s : Sys)
    (hs : s.snd = erase ps) (hel : s.hist.emitted.length = s.pend.length)
    (hnet : ∀ i d, IsFrag s.pend i d → (i, d) ∈ s.net) :
    ∃ sops s', runS s sops = .ok s' ∧ s'.snd = erase ps' ∧ s'.pend = s.pend ++ l ∧
      s'.hist.enqueued = s.hist.enqueued ∧ s'.hist.emitted.length = s'.pend.length ∧
      s'.rcv = s.rcv ∧ s'.seen = s.seen ∧ (∀ i d, IsFrag s'.pend i d → (i, d) ∈ s'.net) ∧
      s'.hist.emitted = s.hist.emitted ++ replayEmit l.length ps f ∧ s'.syncs = s.syncs := by
  induction hem generalizing s with
  | nil ps => exact ⟨[], s, rfl, hs, by simp, rfl, hel, rfl, rfl, hnet, by simp [replayEmit], rfl⟩
  | cons he hch ih =>
    rename_i ps0 ps1 ps2 r l
    obtain ⟨s1, h1, a1, a2, a3, a4, a5, a6, a7, a8, a9⟩ := sim_emit s _ _ f _ hs hel hnet he
    obtain ⟨sops, s2, h2, b1, b2, b3, b4, b5, b6, b7, b8, b9⟩ := ih s1 a1 a4 a7
    refine ⟨.emit f :: sops, s2, ?_, b1, ?_, b3.trans a3, b4, b5.trans a5, b6.trans a6, b7, ?_, b9.trans a9⟩
    · simp only [runS, h1, bindR_ok]; exact h2
    · rw [b2, a2, List.append_assoc]
    · rw [b8, a8, List.append_assoc]
      congr 1
      cases r with
      | none =>
        obtain ⟨rfl, _⟩ := hch.of_none (emit_none_again _ _ _ he)
        simp [replayEmit]
      | some v =>
        obtain ⟨p, b⟩ := v
        simp only [Option.map_some, Option.toList_some, List.cons_append, List.nil_append,
          List.length_cons, replayEmit, he]

/-! ### receiver steps -/

theorem foldDg_base {W M : Nat} (dgs : List Datagram) (s s' : PRecv.State) (h : PRecv.Inv W M s)
    (hf : dgs.foldlM PRecv.handleDatagram s = .ok s') : s'.baseId = s.baseId := by
  induction dgs generalizing s with
  | nil =>
    simp only [List.foldlM_nil, pure, Except.pure, Except.ok.injEq] at hf
    subst hf; rfl
  | cons d dgs ih =>
    rw [List.foldlM_cons] at hf
    obtain ⟨s1, h1, hi1⟩ := PRecv.handleDatagram_inv h d
    rw [h1] at hf
    simp only [bind, Except.bind] at hf
    have hb : s1.baseId = s.baseId := by
      rcases handleDatagram_cases h d h1 with rfl | ⟨_, _, hb, _⟩
      · rfl
      · exact hb
    rw [ih s1 hi1 hf, hb]

/-- Handing the datagrams of a data frame to `B`'s packet receiver is a sequence of `deliver` steps
of `Sys`, provided each datagram is `Fresh`. -/
theorem sim_deliver {W M : Nat} (dgs : List Datagram) (s : Sys) (pr' : PRecv.State)
    (hinv : PRecv.Inv W M s.rcv.st)
    (hfresh : ∀ d ∈ dgs, ∃ i, (i, d) ∈ s.net ∧ s.rcv.adv + W ≤ i + 2^20)
    (hf : dgs.foldlM PRecv.handleDatagram s.rcv.st = .ok pr') :
    ∃ sops s', runS s sops = .ok s' ∧ s'.rcv = { s.rcv with st := pr' } ∧ s'.snd = s.snd ∧
      s'.hist = s.hist ∧ s'.pend = s.pend ∧ s'.net = s.net ∧ s'.seen = s.seen ∧ s'.syncs = s.syncs := by
  induction dgs generalizing s with
  | nil =>
    simp only [List.foldlM_nil, pure, Except.pure, Except.ok.injEq] at hf
    subst hf
    exact ⟨[], s, rfl, rfl, rfl, rfl, rfl, rfl, rfl, rfl⟩
  | cons d dgs ih =>
    rw [List.foldlM_cons] at hf
    obtain ⟨s1, h1, hi1⟩ := PRecv.handleDatagram_inv hinv d
    rw [h1] at hf
    simp only [bind, Except.bind] at hf
    obtain ⟨i, hmem, hfr⟩ := hfresh d (List.mem_cons_self ..)
    obtain ⟨k, hk⟩ := List.getElem?_of_mem hmem
    have hF : Fresh s i := by
      unfold Fresh
      rw [hinv.wsz]; exact hfr
    have hstep : stepS s (.deliver k) = .ok { s with rcv := { s.rcv with st := s1 } } := by
      simp only [stepS, hk, if_pos hF, PRecv.stepT, h1, bindR_ok]
    obtain ⟨sops, s2, h2, b1, b2, b3, b4, b5, b6, b7⟩ := ih { s with rcv := { s.rcv with st := s1 } } hi1
      (fun d' hd' => hfresh d' (List.mem_cons_of_mem _ hd')) hf
    refine ⟨.deliver k :: sops, s2, ?_, b1, b2, b3, b4, b5, b6, b7⟩
    simp only [runS, hstep, bindR_ok]; exact h2

theorem filterMap_lift (a b : Nat) (evs : List PRecv.Ev) :
    (evs.map (lift a b)).filterMap LogE.data = PRecv.erase evs := by
  unfold PRecv.erase
  rw [List.filterMap_map]
  rfl

/-- `B.receive` is the `recv` step of `Sys`. -/
theorem sim_recv (s : Sys) (pr' : PRecv.State) (out : List (List Nat))
    (hr : PRecv.receive s.rcv.st = .ok (pr', out)) :
    ∃ s', stepS s .recv = .ok s' ∧ s'.rcv.st = pr' ∧
      s'.rcv.adv = s.rcv.adv + pidSub pr'.baseId s.rcv.st.baseId ∧
      s'.rcv.log.filterMap LogE.data = s.rcv.log.filterMap LogE.data ++ out ∧
      s'.seen = s.seen ++ [(s.rcv.adv + pidSub pr'.baseId s.rcv.st.baseId, pr'.baseId)] ∧
      s'.snd = s.snd ∧ s'.hist = s.hist ∧ s'.pend = s.pend ∧ s'.net = s.net ∧ s'.syncs = s.syncs := by
  have he := PRecv.receiveT_erase s.rcv.st
  rw [hr] at he
  cases hT : receiveT s.rcv.st with
  | error t => rw [hT] at he; cases he
  | ok p =>
    rw [hT] at he
    simp only [Except.map, Except.ok.injEq, PRecv.eraseP, Prod.mk.injEq] at he
    obtain ⟨e1, e2⟩ := he
    simp only [stepS, PRecv.stepT, hT, bindR_ok]
    refine ⟨_, rfl, e1, by rw [e1], ?_, by rw [e1], rfl, rfl, rfl, rfl, rfl⟩
    simp only [List.filterMap_append, filterMap_lift, e2]

/-! ### one step of the pair -/

theorem rel_of_same {h h' : HcPair F} {s : Sys} (hr : Rel h s) (hA : h'.A.ps = h.A.ps)
    (hB : h'.B.pr = h.B.pr) (hp : h'.pend = h.pend) (hs : h'.sent = h.sent) (ha : h'.advB = h.advB)
    (ho : h'.outs = h.outs) (hb : ∀ x ∈ h'.bases, x ∈ h.bases) (he : h'.em = h.em)
    (hy : h'.syncs = h.syncs) : Rel h' s where
  snd := by rw [hA]; exact hr.snd
  pend := by rw [hp]; exact hr.pend
  enq := by rw [hs]; exact hr.enq
  elen := hr.elen
  rcv := by rw [hB]; exact hr.rcv
  adv := by rw [ha]; exact hr.adv
  log := by rw [ho]; exact hr.log
  seen := fun x hx => hr.seen x (hb x hx)
  net := hr.net
  em := by rw [he]; exact hr.em
  syncs := by rw [hy]; exact hr.syncs

/-- **The simulation step.** -/
theorem sim_step (ops : FloatOps F) {h h' : HcPair F} {s : Sys} (hi : PairInv h) (hr : Rel h s)
    (op : POp) (hok : OpOk h op) (hs : stepP ops h op = .ok h') :
    ∃ sops s', runS s sops = .ok s' ∧ Rel h' s' := by
  cases op with
  | sendA d c m =>
    simp only [stepP] at hs
    split at hs
    · rename_i hlen
      cases hs
      refine ⟨[.enq d c m h.A.flushId], _, runS_single _ _ _ (by simp only [stepS, if_pos hlen, stepH, bindR_ok]; rfl), ?_⟩
      exact {
        snd := by show enqueue s.snd d c m h.A.flushId = erase (enqueue h.A.ps d c m h.A.flushId)
                  rw [hr.snd]; rfl
        pend := hr.pend
        enq := by show s.hist.enqueued ++ _ = h.sent ++ _; rw [hr.enq]
        elen := hr.elen
        rcv := hr.rcv
        adv := hr.adv
        log := hr.log
        seen := hr.seen
        net := hr.net
        em := hr.em
        syncs := hr.syncs }
    · cases hs; exact ⟨[], s, rfl, hr⟩
  | flushA =>
    simp only [stepP] at hs
    cases hf : flush h.A with
    | error t => rw [hf] at hs; cases hs
    | ok r =>
      obtain ⟨a', out⟩ := r
      rw [hf, bindR_ok] at hs
      cases hs
      obtain ⟨l, hem, _, _, _⟩ := flush_spec h.A a' out hi.a hf
      have hsy := flush_sync_spec h.A a' out hi.a hf
      have hnp : newPackets h.A.ps a'.ps = l := (hem.newPackets hi.a).2
      have hlen : a'.ps.win.length - h.A.ps.win.length = l.length := by
        obtain ⟨ws, hws⟩ := hem.win_prefix
        have : (a'.ps.win.drop h.A.ps.win.length).length = l.length := by
          rw [← hnp]; unfold newPackets; rw [List.length_map]
        rw [List.length_drop] at this
        exact this
      obtain ⟨sops, s1, h1, b1, b2, b3, b4, b5, b6, b7, b8, b9⟩ := sim_emits hem s hr.snd hr.elen hr.net
      have hem1 : s1.hist.emitted =
          h.em ++ replayEmit (a'.ps.win.length - h.A.ps.win.length) h.A.ps h.A.flushId := by
        rw [b8, hr.em, hlen]
      have hpend1 : s1.pend = h.pend ++ newPackets h.A.ps a'.ps := by rw [b2, hr.pend, hnp]
      -- the relation without the new sync entries
      have base : ∀ sy sy2, (∀ x ∈ sy, x ∈ sy2) →
          Rel { h with A := a', wireAB := h.wireAB ++ out, pend := h.pend ++ newPackets h.A.ps a'.ps,
                       em := h.em ++ replayEmit (a'.ps.win.length - h.A.ps.win.length) h.A.ps h.A.flushId,
                       wireT := h.wireT ++
                         List.replicate out.length (h.pend ++ newPackets h.A.ps a'.ps).length,
                       syncs := sy } { s1 with syncs := sy2 } := by
        intro sy sy2 hsy'
        exact {
          snd := b1
          pend := hpend1
          enq := by rw [b3]; exact hr.enq
          elen := b4
          rcv := by rw [b5]; exact hr.rcv
          adv := by rw [b5]; exact hr.adv
          log := by rw [b5]; exact hr.log
          seen := by rw [b6]; exact hr.seen
          net := b7
          em := hem1
          syncs := hsy' }
      split
      · rename_i hok
        -- `SyncOkP` holds after the flush: take the `sync` step of `Sys`
        have hsok : SyncOk s1 := by
          intro x hx hrel
          rw [hem1] at hx
          have := hok x hx hrel
          unfold RecvdP at this
          unfold Recvd
          rw [b5, hr.adv, hr.rcv]
          exact Or.inr this
        have hstep : stepS s1 .sync =
            .ok { s1 with syncs := s1.syncs ++ [(s1.hist.emitted.length, s1.snd.nextId)] } := by
          simp only [stepS, if_pos hsok]
        refine ⟨sops ++ [.sync], _, by rw [runS_append, h1, bindR_ok]; exact runS_single _ _ _ hstep, ?_⟩
        refine base _ _ ?_
        intro x hx
        rcases List.mem_append.mp hx with hx | hx
        · exact List.mem_append_left _ (by rw [b9]; exact hr.syncs x hx)
        · refine List.mem_append_right _ ?_
          simp only [syncIds, List.mem_filterMap] at hx
          obtain ⟨b, hb, hx⟩ := hx
          split at hx
          · rename_i nf np hdec
            simp only [Option.some.injEq] at hx
            obtain ⟨e1, _, _⟩ := hsy b hb nf np hdec
            rw [← hx, e1, b4, hpend1, b1]
            exact List.mem_singleton.mpr rfl
          · cases hx
      · rw [List.append_nil]
        exact ⟨sops, s1, h1, base h.syncs s1.syncs (by rw [b9]; exact hr.syncs)⟩
  | stepA now =>
    simp only [stepP] at hs
    cases hf : step ops h.A now with
    | error t => rw [hf] at hs; cases hs
    | ok a' =>
      rw [hf, bindR_ok] at hs
      cases hs
      obtain ⟨hps, _⟩ := step_spec ops h.A a' now hf
      exact ⟨[], s, rfl, rel_of_same hr hps rfl rfl rfl rfl rfl (fun x hx => hx) rfl rfl⟩
  | stepB now =>
    simp only [stepP] at hs
    cases hf : step ops h.B now with
    | error t => rw [hf] at hs; cases hs
    | ok b' =>
      rw [hf, bindR_ok] at hs
      cases hs
      obtain ⟨_, hpr⟩ := step_spec ops h.B b' now hf
      exact ⟨[], s, rfl, rel_of_same hr rfl hpr rfl rfl rfl rfl (fun x hx => hx) rfl rfl⟩
  | flushB =>
    simp only [stepP] at hs
    cases hf : flush h.B with
    | error t => rw [hf] at hs; cases hs
    | ok r =>
      obtain ⟨b', out⟩ := r
      rw [hf, bindR_ok] at hs
      cases hs
      obtain ⟨pendB, hpb⟩ := hi.b
      obtain ⟨l, _, _, hpr, _⟩ := flush_spec h.B b' out hpb hf
      exact ⟨[], s, rfl, rel_of_same hr rfl hpr rfl rfl rfl rfl (fun x hx => hx) rfl rfl⟩
  | recvB =>
    simp only [stepP] at hs
    cases hf : receive h.B with
    | error t => rw [hf] at hs; cases hs
    | ok r =>
      obtain ⟨b', out⟩ := r
      rw [hf, bindR_ok] at hs
      cases hs
      obtain ⟨_, hrc⟩ := receive_spec h.B b' out hf
      rw [← hr.rcv] at hrc
      obtain ⟨s', h1, c1, c2, c3, c4, c5, c6, c7, c8, c9⟩ := sim_recv s b'.pr out hrc
      refine ⟨[.recv], s', runS_single _ _ _ h1, ?_⟩
      exact {
        snd := by rw [c5]; exact hr.snd
        pend := by rw [c7]; exact hr.pend
        enq := by rw [c6]; exact hr.enq
        elen := by rw [c6, c7]; exact hr.elen
        rcv := c1
        adv := by show s'.rcv.adv = h.advB + pidSub b'.pr.baseId h.B.pr.baseId
                  rw [c2, hr.adv, hr.rcv]
        log := by show _ = h.outs ++ out; rw [c3, hr.log]
        seen := by
          intro x hx
          rw [c4]
          rcases List.mem_append.mp hx with hx | hx
          · exact List.mem_append_left _ (hr.seen x hx)
          · refine List.mem_append_right _ ?_
            rw [hr.adv, hr.rcv]; exact hx
        net := by rw [c7, c8]; exact hr.net
        em := by rw [c6]; exact hr.em
        syncs := by rw [c9]; exact hr.syncs }
  | deliverAB k =>
    simp only [stepP] at hs
    cases hk : h.wireAB[k]? with
    | none => rw [hk] at hs; cases hs; exact ⟨[], s, rfl, hr⟩
    | some bytes =>
      rw [hk] at hs
      simp only [] at hs
      rw [List.take_of_length_le (hi.lab bytes (List.mem_of_getElem? hk))] at hs
      cases hf : dispatch h.B bytes with
      | error t => rw [hf] at hs; cases hs
      | ok b' =>
        rw [hf, bindR_ok] at hs
        cases hs
        obtain ⟨hokd, hoks⟩ := hok bytes hk
        obtain ⟨W, M, hpr⟩ := hi.pr
        -- a delivery that leaves `B.pr` alone needs no `Sys` step
        have hsame : b'.pr = h.B.pr → ∃ sops s', runS s sops = .ok s' ∧
            Rel { h with B := b', fed := h.fed ++ fedBy h.B bytes,
                         accIds := h.accIds ++ accBy h.B bytes,
                         advB := h.advB + pidSub b'.pr.baseId h.B.pr.baseId,
                         bases := h.bases ++ [(h.advB + pidSub b'.pr.baseId h.B.pr.baseId, b'.pr.baseId)] } s' := by
          intro hpe
          have h0 : h.advB + pidSub b'.pr.baseId h.B.pr.baseId = h.advB := by
            rw [hpe, PRecv.pidSub_self]; rfl
          refine ⟨[], s, rfl, rel_of_same hr rfl hpe rfl rfl h0 rfl ?_ rfl rfl⟩
          intro x hx
          rcases List.mem_append.mp hx with hx | hx
          · exact hx
          · rw [List.mem_singleton.mp hx, h0, hpe]; exact hi.cur
        have hv := dispatch_view h.B b' bytes hf
        cases hv with
        | skip h1 _ _ _ _ _ => exact hsame (by rw [h1])
        | ack fb pb acks ps1 _ h2 _ _ _ _ => exact hsame h2
        | sync nf np h1 _ _ _ h5 =>
          cases np with
          | none =>
            refine hsame ?_
            simp only [resyncTo, Except.ok.injEq] at h5
            exact h5.symm
          | some id =>
            simp only [resyncTo] at h5
            rcases hoks nf id h1 with hno | ⟨n, hmem, hfr⟩
            · refine hsame ?_
              rw [hno] at h5
              simp only [Except.ok.injEq] at h5
              exact h5.symm
            · -- a fresh sync frame emitted under `SyncOkP`: the `resync` step of `Sys`
              obtain ⟨j, hj⟩ := List.getElem?_of_mem (hr.syncs _ hmem)
              have hSF : SyncFresh s n := by
                unfold SyncFresh
                rw [hr.adv, hr.rcv]; exact hfr
              have h5' : PRecv.resynchronize s.rcv.st id = .ok b'.pr := by rw [hr.rcv]; exact h5
              refine ⟨[.resync j], _, runS_single _ _ _ (by
                simp only [stepS, hj, if_pos hSF, PRecv.stepT, h5', bindR_ok]; rfl), ?_⟩
              exact {
                snd := hr.snd
                pend := hr.pend
                enq := hr.enq
                elen := hr.elen
                rcv := rfl
                adv := by
                  show s.rcv.adv + pidSub b'.pr.baseId s.rcv.st.baseId =
                    h.advB + pidSub b'.pr.baseId h.B.pr.baseId
                  rw [hr.adv, hr.rcv]
                log := hr.log
                seen := by
                  intro x hx
                  show x ∈ s.seen ++ [(s.rcv.adv + pidSub b'.pr.baseId s.rcv.st.baseId, b'.pr.baseId)]
                  rcases List.mem_append.mp hx with hx | hx
                  · exact List.mem_append_left _ (hr.seen x hx)
                  · refine List.mem_append_right _ ?_
                    rw [hr.adv, hr.rcv]; exact hx
                net := hr.net
                em := hr.em
                syncs := hr.syncs }
        | data id nonce dgs h1 _ h3 _ h5 =>
          have hbase : b'.pr.baseId = h.B.pr.baseId := foldDg_base _ _ _ hpr h5
          have h0 : h.advB + pidSub b'.pr.baseId h.B.pr.baseId = h.advB := by
            rw [hbase, PRecv.pidSub_self]; rfl
          have hfresh : ∀ d ∈ fedBy h.B bytes, ∃ i, (i, d) ∈ s.net ∧ s.rcv.adv + W ≤ i + 2^20 := by
            intro d hd
            rw [h3] at hd
            split at hd
            · rename_i hc
              obtain ⟨i, hfr, hle⟩ := hokd id nonce dgs h1 hc d hd
              refine ⟨i, hr.net i d (by rw [hr.pend]; exact hfr), ?_⟩
              rw [hr.adv, ← hpr.wsz]; exact hle
            · cases hd
          rw [← hr.rcv] at h5 hpr
          obtain ⟨sops, s', r1, b1, b2, b3, b4, b5, b6, b7⟩ := sim_deliver _ s b'.pr hpr hfresh h5
          refine ⟨sops, s', r1, ?_⟩
          exact {
            snd := by rw [b2]; exact hr.snd
            pend := by rw [b4]; exact hr.pend
            enq := by rw [b3]; exact hr.enq
            elen := by rw [b3, b4]; exact hr.elen
            rcv := by rw [b1]
            adv := by rw [b1]; show s.rcv.adv = _; rw [h0]; exact hr.adv
            log := by rw [b1]; exact hr.log
            seen := by
              intro x hx
              rw [b6]
              rcases List.mem_append.mp hx with hx | hx
              · exact hr.seen x hx
              · rw [List.mem_singleton.mp hx, h0, hbase]; exact hr.seen _ hi.cur
            net := by rw [b4, b5]; exact hr.net
            em := by rw [b3]; exact hr.em
            syncs := by rw [b7]; exact hr.syncs }
  | deliverBA k =>
    simp only [stepP] at hs
    cases hk : h.wireBA[k]? with
    | none => rw [hk] at hs; cases hs; exact ⟨[], s, rfl, hr⟩
    | some bytes =>
      rw [hk] at hs
      simp only [] at hs
      rw [List.take_of_length_le (hi.lba bytes (List.mem_of_getElem? hk))] at hs
      cases hf : dispatch h.A bytes with
      | error t => rw [hf] at hs; cases hs
      | ok a' =>
        rw [hf, bindR_ok] at hs
        cases hs
        have hsame : a'.ps = h.A.ps → ∃ sops s', runS s sops = .ok s' ∧
            Rel { h with A := a', acks := h.acks ++ ackBy bytes } s' :=
          fun hpe => ⟨[], s, rfl, rel_of_same hr hpe rfl rfl rfl rfl rfl (fun x hx => hx) rfl rfl⟩
        have hv := dispatch_view h.A a' bytes hf
        cases hv with
        | skip h1 _ _ _ _ _ => exact hsame (by rw [h1])
        | data id nonce dgs _ h2 _ _ _ => exact hsame h2
        | sync nf np _ h2 _ _ _ => exact hsame h2
        | ack fb pb acks ps1 h1 _ _ _ h5 h6 =>
          obtain ⟨a, hab, hfr⟩ := hok bytes hk fb pb acks h1
          obtain ⟨j, hj⟩ := List.getElem?_of_mem (hr.seen _ hab)
          have hsnd : s.snd = erase ps1 := by rw [hr.snd, h5.erase]
          have hack : acknowledge s.snd pb = .ok (erase a'.ps) := by
            rw [hsnd, acknowledge_erase, h6]; rfl
          have hAF : AckFresh s a := by
            unfold AckFresh
            rw [hr.elen, hr.pend, hr.snd]
            simp only [erase, List.length_map]
            exact hfr
          refine ⟨[.ack j], _, runS_single _ _ _ (by simp only [stepS, hj, if_pos hAF, stepH, hack, bindR_ok]; rfl), ?_⟩
          exact {
            snd := rfl
            pend := hr.pend
            enq := hr.enq
            elen := hr.elen
            rcv := hr.rcv
            adv := hr.adv
            log := hr.log
            seen := hr.seen
            net := hr.net
            em := hr.em
            syncs := hr.syncs }

/-- **The simulation of runs.** -/
theorem sim_run (ops : FloatOps F) (sched : List POp) {h h' : HcPair F} {s : Sys} (hi : PairInv h)
    (hr : Rel h s) (hg : Guarded ops h sched) (hrun : runP ops h sched = .ok h') :
    ∃ sops s', runS s sops = .ok s' ∧ Rel h' s' := by
  induction sched generalizing h s with
  | nil => cases hrun; exact ⟨[], s, rfl, hr⟩
  | cons op rest ih =>
    rw [runP] at hrun
    cases hs : stepP ops h op with
    | error t => rw [hs] at hrun; cases hrun
    | ok h1 =>
      rw [hs, bindR_ok] at hrun
      obtain ⟨hok, hrest⟩ := hg
      obtain ⟨sops1, s1, r1, hr1⟩ := sim_step ops hi hr op hok hs
      obtain ⟨sops2, s2, r2, hr2⟩ := ih (pairInv_step ops hi op hs) hr1 (hrest h1 hs) hrun
      exact ⟨sops1 ++ sops2, s2, by rw [runS_append, r1, bindR_ok]; exact r2, hr2⟩

/-- The initial states are related. -/
theorem rel_init (ops : FloatOps F) (cA cB : Config) (nowA nowB : Nat) (rngA rngB : Rng)
    (hb : cA.txPacketBaseId = cB.rxPacketBaseId) :
    Rel (initP ops cA cB nowA nowB rngA rngB)
      (initS cA.txPacketWindowSize cB.rxPacketWindowSize cA.txPacketBaseId cA.txAllocLimit cB.rxAllocLimit) where
  snd := rfl
  pend := rfl
  enq := rfl
  elen := rfl
  rcv := by simp [initS, PRecv.initG, initP, HalfConn.init, hb]
  adv := rfl
  log := rfl
  seen := by
    intro x hx
    simp only [initP, List.mem_singleton] at hx
    simp [initS, hx, hb]
  net := by
    intro i d hi
    obtain ⟨p, fid, hp, _⟩ := hi
    simp [initS] at hp
  em := rfl
  syncs := by intro x hx; cases hx

end Uflow.HcSys
