import Uflow.Lemmas.HcFrame

namespace Uflow.HcFrame

open Uflow Uflow.Gen Uflow.Codec Uflow.HalfConn
open Uflow.Rate (FloatOps)

variable {F : Type}

/-- The sender state `ps'` is reachable from `ps` by fragment and packet acknowledgements. -/
inductive AckSteps : PSend.State → PSend.State → Prop
  | refl (ps : PSend.State) : AckSteps ps ps
  | frag {ps ps1 : PSend.State} (uid fid : Nat) :
      AckSteps ps ps1 → AckSteps ps (PSend.ackFragment ps1 uid fid)
  | ack {ps ps1 ps2 : PSend.State} (rb : Nat) :
      AckSteps ps ps1 → PSend.acknowledge ps1 rb = .ok ps2 → AckSteps ps ps2

theorem AckSteps.trans {a b c : PSend.State} (h1 : AckSteps a b) (h2 : AckSteps b c) :
    AckSteps a c := by
  induction h2 with
  | refl => exact h1
  | frag uid fid _ ih => exact .frag uid fid ih
  | ack rb _ hack ih => exact .ack rb ih hack

theorem ackSteps_foldl (ps : PSend.State) (frs : List (Nat × Nat)) :
    AckSteps ps (frs.foldl (fun ps (x : Nat × Nat) => PSend.ackFragment ps x.1 x.2) ps) := by
  induction frs generalizing ps with
  | nil => exact .refl _
  | cons x frs ih =>
    simp only [List.foldl_cons]
    exact AckSteps.trans (.frag x.1 x.2 (.refl _)) (ih _)

/-- The body of `handleAckFrame` with the calls into `FrameQ` and `PSend.acknowledge` as parameters
(written with the matchers of the model, so that `handleAckFrame_eq` is syntactic). -/
def ackP (s : State F) (fb pb : Nat) (acks : List AckGroup)
    (ag : FrameQ.State → AckGroup → Option Nat → R (FrameQ.State × List (Nat × Nat)))
    (adv : FrameQ.State → Nat → Option Nat → R FrameQ.State)
    (pack : PSend.State → Nat → R PSend.State) : R (State F) :=
  have rtt := s.rate.rttMs
  have r : R (State F) :=
    List.foldlM
      (fun (s : State F) a =>
        handleAckFrame.match_3 (fun _ => R (State F)) (ag s.fq a rtt)
          (fun t => Except.error t) fun fq frs =>
          Except.ok { s with fq := fq, ps := List.foldl (fun ps x => handleAckFrame.match_1 (fun _ => PSend.State) x fun uid fid => PSend.ackFragment ps uid fid) s.ps frs })
      s acks
  handleAckFrame.match_9 (fun _ => R (State F)) r (fun t => Except.error t) fun s =>
    handleAckFrame.match_7 (fun _ => R (State F)) (adv s.fq fb rtt)
      (fun t => Except.error t) fun fq =>
      handleAckFrame.match_5 (fun _ => R (State F)) (pack s.ps pb) (fun t => Except.error t)
        fun ps => Except.ok { s with fq := fq, ps := ps }

theorem handleAckFrame_eq (s : State F) (fb pb : Nat) (acks : List AckGroup) :
    handleAckFrame s fb pb acks =
      ackP s fb pb acks FrameQ.acknowledgeGroup FrameQ.advanceTransferWindow PSend.acknowledge := rfl

theorem ackP_frame (s s' : State F) (fb pb : Nat) (acks : List AckGroup)
    (ag : FrameQ.State → AckGroup → Option Nat → R (FrameQ.State × List (Nat × Nat)))
    (adv : FrameQ.State → Nat → Option Nat → R FrameQ.State)
    (pack : PSend.State → Nat → R PSend.State)
    (hpack : ∀ ps rb ps', pack ps rb = .ok ps' → PSend.acknowledge ps rb = .ok ps')
    (h : ackP s fb pb acks ag adv pack = .ok s') : QSame s s' ∧ AckSteps s.ps s'.ps := by
  unfold ackP at h
  simp only at h
  generalize hr : (List.foldlM _ s acks : R (State F)) = r at h
  cases r with
  | error t => cases h
  | ok s1 =>
    simp only at h
    have h1 : QSame s s1 ∧ AckSteps s.ps s1.ps := by
      refine foldlM_rel _ (fun a b : State F => QSame a b ∧ AckSteps a.ps b.ps)
        (fun a => ⟨QSame.refl a, .refl _⟩)
        (fun a b c h1 h2 => ⟨h1.1.trans h2.1, h1.2.trans h2.2⟩) ?_ acks s s1 hr
      intro a g a' ha
      generalize ag a.fq g _ = r at ha
      cases r with
      | error t => cases ha
      | ok v =>
        obtain ⟨fq, frs⟩ := v
        simp only [Except.ok.injEq] at ha
        subst ha
        exact ⟨⟨rfl, rfl, rfl, rfl, rfl, rfl⟩, ackSteps_foldl a.ps frs⟩
    generalize adv s1.fq fb _ = r2 at h
    generalize hack : pack s1.ps pb = r3 at h
    cases r2 with
    | error t => cases h
    | ok fq =>
      cases r3 with
      | error t => cases h
      | ok ps2 =>
        simp only [Except.ok.injEq] at h
        subst h
        have h0 : QSame s1 { s1 with fq := fq, ps := ps2 } := ⟨rfl, rfl, rfl, rfl, rfl, rfl⟩
        exact ⟨h1.1.trans h0, .ack pb h1.2 (hpack _ _ _ hack)⟩

theorem handleAckFrame_frame (s s' : State F) (fb pb : Nat) (acks : List AckGroup)
    (h : handleAckFrame s fb pb acks = .ok s') : QSame s s' ∧ AckSteps s.ps s'.ps := by
  rw [handleAckFrame_eq] at h
  exact ackP_frame s s' fb pb acks _ _ _ (fun _ _ _ h => h) h

end Uflow.HcFrame
