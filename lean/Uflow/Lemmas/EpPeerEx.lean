import Uflow.Lemmas.EpPeerConn
import Uflow.Lemmas.EpPeerSrv

/-! Example half connection for the non-vacuity examples of `Uflow/Props/C09Peer.lean`. -/

namespace Uflow.Endpoint

open Uflow.Gen Uflow.Codec Uflow.HalfConn

/-- A half connection (state: queue of packets) that turns every dispatched data frame into one packet
`[sequence id]`, keeps whatever was `send`-queued too, and hands the whole queue over on `receive`. -/
def rxHC : HC (List (List Nat)) :=
  { echoHC with dispatch := fun h f => match f with
      | .data sid _ _ => .ok (h ++ [[sid]])
      | _ => .ok h }

/-- An encoded (empty) data frame with the given sequence id. -/
def exData (sid : Nat) : List Nat := encode (.data sid false [])

end Uflow.Endpoint
