import Uflow.Lemmas.HcInvFq
import Uflow.Lemmas.PSendAck

/-!
C12 (TimeSensitive drop): the two "provenance" predicates behind `refs ⊆ pushed`.

* `RefsIn P fq`  : every fragment reference stored in the frame log of `fq` satisfies `P`;
* `AckedIn P ps` : every fragment marked acknowledged in a window entry of the packet sender
  satisfies `P` (as a pair `(uid, fragment id)`).

`FrameQ.acknowledgeGroup` only hands out references that are in its own log (whatever the contents
of the ack frame), every other operation of the frame queue only removes log entries, and
`FrameQ.push` adds the references it is given.
-/

namespace Uflow.TsDrop

open Uflow Uflow.Gen Uflow.Codec Uflow.FrameQ
open Uflow.Rate (FloatOps)

variable {F : Type}

/-- Every fragment reference in the frame log satisfies `P`. -/
def RefsIn (P : Nat × Nat → Prop) (fq : FrameQ.State) : Prop :=
  ∀ e ∈ fq.frames, ∀ r ∈ e.refs, P r

theorem RefsIn.mono {P Q : Nat × Nat → Prop} {fq : FrameQ.State} (h : RefsIn P fq)
    (hpq : ∀ r, P r → Q r) : RefsIn Q fq := fun e he r hr => hpq r (h e he r hr)

theorem RefsIn.congr {P : Nat × Nat → Prop} {fq fq' : FrameQ.State} (h : RefsIn P fq)
    (hf : fq'.frames = fq.frames) : RefsIn P fq' := by
  intro e he; rw [hf] at he; exact h e he

theorem refsIn_init (P : Nat × Nat → Prop) (size tail base : Nat) :
    RefsIn P (FrameQ.init size tail base) := fun e he => by cases he

theorem refsIn_push (P : Nat × Nat → Prop) (s : FrameQ.State) (size now : Nat)
    (refs : List (Nat × Nat)) (nonce : Bool) (h : RefsIn P s) (hr : ∀ r ∈ refs, P r) :
    RefsIn P (FrameQ.push s size now refs nonce) := by
  unfold FrameQ.push
  split
  · intro e he
    simp only [List.mem_append, List.mem_singleton] at he
    rcases he with he | rfl
    · exact h e he
    · exact hr
  · exact h

theorem AckRel.refsIn {P : Nat × Nat → Prop} {s s' : FrameQ.State} (h : AckRel s s')
    (hf : RefsIn P s) : RefsIn P s' := by
  intro e' he' r hr
  obtain ⟨k, hk, hke⟩ := List.mem_iff_getElem.mp he'
  have hk' : s'.frames[k]? = some e' := by rw [List.getElem?_eq_getElem hk, hke]
  obtain ⟨e, he, hle⟩ := h.frames_back k e' hk'
  rcases hle with rfl | ⟨_, rfl⟩
  · exact hf _ (List.mem_of_getElem? he) r hr
  · cases hr

/-- `acknowledgeGroup`, for ANY ack group: the log keeps only references it had, and the fragments
reported as acknowledged are references from the log. -/
theorem refsIn_ack (P : Nat × Nat → Prop) (s s' : FrameQ.State) (ack : AckGroup) (rtt : Option Nat)
    (frs : List (Nat × Nat)) (h : RefsIn P s) (he : acknowledgeGroup s ack rtt = .ok (s', frs)) :
    RefsIn P s' ∧ ∀ r ∈ frs, P r := by
  rcases acknowledgeGroup_inv he with ⟨rfl, rfl⟩ | ⟨_, _, s2, lst, tot, rl, hl, rfl⟩
  · exact ⟨h, fun r hr => by cases hr⟩
  · obtain ⟨hrel, _, hmem⟩ := ackLoop_spec ack rtt _ _ _ _ _ _ _ _ _ _ _ hl
    refine ⟨?_, ?_⟩
    · obtain ⟨ad, had⟩ := ackFinish_fst s2 lst tot rl frs
      rw [had]
      exact (AckRel.refsIn hrel h).congr rfl
    · intro r hr
      rcases hmem r hr with hr | ⟨i, _, _, e, hk, _, hre⟩
      · cases hr
      · exact h e (List.mem_of_getElem? hk) r hre

theorem refsIn_cull (P : Nat × Nat → Prop) (s s' : FrameQ.State) (nb : Nat) (rtt : Option Nat)
    (h : RefsIn P s) (he : cull s nb rtt = .ok s') : RefsIn P s' := by
  obtain ⟨r, l, rfl⟩ := cull_shape s s' nb rtt he
  exact fun e he => h e (List.mem_of_mem_drop he)

theorem refsIn_atw (P : Nat × Nat → Prop) (s s' : FrameQ.State) (nb : Nat) (rtt : Option Nat)
    (h : RefsIn P s) (he : advanceTransferWindow s nb rtt = .ok s') : RefsIn P s' := by
  rw [atw_eq_G] at he
  by_cases hcan : canAdvanceTransferWindow s nb = true
  case neg => rw [atwG_no _ _ _ s nb rtt hcan] at he; cases he; exact h
  have h1 : RefsIn P { s with winBase := nb } := h
  by_cases hd : wsub32 (wsub32 nb s.tailSize) s.logBase ≠ 0 ∧
      wsub32 (wsub32 nb s.tailSize) s.logBase ≤ s.frames.length % 2^32
  · rw [atwG_cull _ _ _ s nb rtt hcan hd] at he
    exact refsIn_cull P _ _ _ _ h1 he
  · rw [atwG_keep _ _ _ s nb rtt hcan hd] at he
    cases he; exact h1

theorem refsIn_forget (P : Nat × Nat → Prop) (s s' : FrameQ.State) (thresh : Nat) (rtt : Option Nat)
    (h : RefsIn P s) (he : forgetFrames s thresh rtt = .ok s') : RefsIn P s' := by
  rw [ff_eq_G, ffG_eq] at he
  split at he
  · exact refsIn_cull P _ _ _ _ h he
  · cases he; exact h

theorem refsIn_feedback (P : Nat × Nat → Prop) (ops : FloatOps F) (s s' : FrameQ.State) (now : Nat)
    (fb : Option (Rate.Feedback F)) (h : RefsIn P s) (he : getFeedback ops s now = .ok (s', fb)) :
    RefsIn P s' := by
  unfold getFeedback at he
  split at he
  · cases he; exact h
  · split at he
    · cases he
    · split at he
      · cases he
      · cases he; exact h

theorem refsIn_reset (P : Nat × Nat → Prop) (ops : FloatOps F) (s s' : FrameQ.State) (p : F)
    (h : RefsIn P s) (he : resetLossRate ops s p = .ok s') : RefsIn P s' := by
  unfold resetLossRate at he
  split at he
  · cases he
  · cases he; exact h

/-! ### the packet sender -/

open Uflow.PSend in
/-- Every acknowledged fragment of a packet in the window satisfies `P`. -/
def AckedIn (P : Nat × Nat → Prop) (ps : PSend.State) : Prop :=
  ∀ w ∈ ps.win, ∀ fid ∈ w.packet.acked, P (w.packet.uid, fid)

theorem AckedIn.mono {P Q : Nat × Nat → Prop} {ps : PSend.State} (h : AckedIn P ps)
    (hpq : ∀ r, P r → Q r) : AckedIn Q ps := fun w hw fid hf => hpq _ (h w hw fid hf)

theorem AckedIn.congr {P : Nat × Nat → Prop} {ps ps' : PSend.State} (h : AckedIn P ps)
    (hw : ps'.win = ps.win) : AckedIn P ps' := by
  intro w hw'; rw [hw] at hw'; exact h w hw'

theorem ackedIn_init (P : Nat × Nat → Prop) (w b a : Nat) : AckedIn P (PSend.init w b a) :=
  fun e he => by cases he

theorem ackedIn_ackFragment (P : Nat × Nat → Prop) (ps : PSend.State) (u fid : Nat)
    (h : AckedIn P ps) (hp : P (u, fid)) : AckedIn P (PSend.ackFragment ps u fid) := by
  intro w hw f hf
  simp only [PSend.ackFragment, List.mem_map] at hw
  obtain ⟨w0, hw0, rfl⟩ := hw
  by_cases hc : w0.packet.uid = u ∧ ¬ (fid ∈ w0.packet.acked)
  · rw [if_pos hc] at hf ⊢
    simp only [List.mem_cons] at hf
    rcases hf with rfl | hf
    · show P (w0.packet.uid, f)
      rw [hc.1]; exact hp
    · exact h w0 hw0 f hf
  · rw [if_neg hc] at hf ⊢
    exact h w0 hw0 f hf

theorem ackedIn_foldl (P : Nat × Nat → Prop) (frs : List (Nat × Nat)) (ps : PSend.State)
    (h : AckedIn P ps) (hp : ∀ r ∈ frs, P r) :
    AckedIn P (frs.foldl (fun ps (x : Nat × Nat) => PSend.ackFragment ps x.1 x.2) ps) := by
  induction frs generalizing ps with
  | nil => exact h
  | cons x frs ih =>
    simp only [List.foldl_cons]
    exact ih _ (ackedIn_ackFragment P ps x.1 x.2 h (hp x List.mem_cons_self))
      (fun r hr => hp r (List.mem_cons_of_mem _ hr))

theorem ackedIn_acknowledge (P : Nat × Nat → Prop) (ps ps' : PSend.State) (rb : Nat)
    (h : AckedIn P ps) (he : PSend.acknowledge ps rb = .ok ps') : AckedIn P ps' := by
  obtain ⟨⟨d, hw⟩, _, _⟩ := PSend.acknowledge_suffix ps ps' rb he
  intro w hw'
  exact h w (by rw [hw]; exact List.mem_append_right _ hw')

theorem ackedIn_emit (P : Nat × Nat → Prop) (ps ps' : PSend.State) (f : Nat)
    (r : Option (PSend.Pending × Bool)) (h : AckedIn P ps) (he : PSend.emit ps f = .ok (ps', r)) :
    AckedIn P ps' := by
  obtain ⟨_, _, _, _, _, _, hcase⟩ := PSend.emit_cases ps ps' f r he
  rcases hcase with ⟨_, rfl⟩ | ⟨_, _, p, _, w, _, _, _, _, _, _, hpa, _, _, _, hwp, _, hwin, _, _⟩
  · exact h
  · intro w' hw' fid hf
    rw [hwin, List.mem_append, List.mem_singleton] at hw'
    rcases hw' with hw' | rfl
    · exact h w' hw' fid hf
    · rw [hwp, hpa] at hf; cases hf

theorem ackedIn_enqueue (P : Nat × Nat → Prop) (ps : PSend.State) (d : List Nat) (c : Nat)
    (m : SendMode) (f : Nat) (h : AckedIn P ps) : AckedIn P (PSend.enqueue ps d c m f) := h

/-- With unique identities, the acknowledged fragments of the packet found under `u` satisfy `P`. -/
theorem AckedIn.found {P : Nat × Nat → Prop} {ps : PSend.State} (h : AckedIn P ps) (u : Nat)
    (p : PSend.Pending) (hf : PSend.findPacket ps u = some p) : ∀ fid ∈ p.acked, P (u, fid) := by
  obtain ⟨⟨w, hw, rfl⟩, hpu⟩ := PSend.findPacket_some ps u _ hf
  intro fid hfid
  rw [← hpu]
  exact h w hw fid hfid

end Uflow.TsDrop
