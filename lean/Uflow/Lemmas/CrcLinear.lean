import Uflow.Lemmas.Crc

/-!
Algebra of the reflected LFSR `Crc.bitStep` (GF(2)-linearity, injectivity, parity invariance) and
the description of the table driven `Crc.step` as eight LFSR shifts plus a constant.
Used by the bit-flip theorems of C16 (`Uflow/Props/C16Flips.lean`).
-/

namespace Uflow.Crc

open Uflow.Gen

/-! ### `bitStep` is linear -/

theorem bitStep_eq (r : BitVec 32) :
    bitStep r = (r >>> 1) ^^^ (if r.getLsbD 0 then poly else 0#32) := by
  unfold bitStep
  split <;> simp

theorem bitStep_zero : bitStep 0#32 = 0#32 := by decide

theorem xor4_cancel (x y k : BitVec 32) : (x ^^^ k) ^^^ (y ^^^ k) = x ^^^ y := by
  calc (x ^^^ k) ^^^ (y ^^^ k) = (x ^^^ y) ^^^ (k ^^^ k) := by ac_rfl
    _ = x ^^^ y := by simp

theorem bitStep_xor (a b : BitVec 32) : bitStep (a ^^^ b) = bitStep a ^^^ bitStep b := by
  rw [bitStep_eq, bitStep_eq a, bitStep_eq b, BitVec.ushiftRight_xor_distrib, BitVec.getLsbD_xor]
  cases a.getLsbD 0 <;> cases b.getLsbD 0 <;> simp [xor4_cancel] <;> ac_rfl

theorem bitSteps_zero : ∀ n, bitSteps n 0#32 = 0#32
  | 0 => rfl
  | n+1 => by rw [bitSteps, bitStep_zero, bitSteps_zero n]

theorem bitSteps_xor : ∀ n (a b : BitVec 32), bitSteps n (a ^^^ b) = bitSteps n a ^^^ bitSteps n b
  | 0, _, _ => rfl
  | n+1, a, b => by simp only [bitSteps]; rw [bitStep_xor, bitSteps_xor n]

theorem bitSteps_add : ∀ m n (r : BitVec 32), bitSteps (m + n) r = bitSteps n (bitSteps m r)
  | 0, n, r => by simp [bitSteps]
  | m+1, n, r => by
    have : m + 1 + n = (m + n) + 1 := by omega
    rw [this]; simp only [bitSteps]; exact bitSteps_add m n _

/-! ### `bitStep` is injective -/

theorem poly_msb : poly.getLsbD 31 = true := by decide

theorem bitStep_eq_zero (x : BitVec 32) (h : bitStep x = 0#32) : x = 0#32 := by
  rw [bitStep_eq] at h
  cases h0 : x.getLsbD 0
  · rw [h0] at h
    simp only [Bool.false_eq_true, if_false, BitVec.xor_zero] at h
    apply BitVec.eq_of_getLsbD_eq
    intro i hi
    cases i with
    | zero => simpa using h0
    | succ j =>
      have hj : (x >>> 1).getLsbD j = false := by rw [h]; simp
      rw [BitVec.getLsbD_ushiftRight] at hj
      rw [Nat.add_comm j 1, hj]; simp
  · rw [h0] at h
    simp only [if_true] at h
    have h31 : (x >>> 1 ^^^ poly).getLsbD 31 = false := by rw [h]; simp
    rw [BitVec.getLsbD_xor, BitVec.getLsbD_ushiftRight, poly_msb,
      BitVec.getLsbD_of_ge x (1 + 31) (by omega)] at h31
    exact absurd h31 (by decide)

theorem xor_eq_zero_iff (a b : BitVec 32) : a ^^^ b = 0#32 ↔ a = b := by
  constructor
  · intro h
    have : (a ^^^ b) ^^^ b = 0#32 ^^^ b := by rw [h]
    rw [BitVec.xor_assoc, BitVec.xor_self] at this
    simpa using this
  · intro h; subst h; simp

theorem bitStep_inj (a b : BitVec 32) (h : bitStep a = bitStep b) : a = b := by
  rw [← xor_eq_zero_iff] at h ⊢
  rw [← bitStep_xor] at h
  exact bitStep_eq_zero _ h

theorem bitSteps_inj : ∀ n (a b : BitVec 32), bitSteps n a = bitSteps n b → a = b
  | 0, _, _, h => h
  | n+1, a, b, h => bitStep_inj a b (bitSteps_inj n _ _ h)

theorem bitSteps_eq_zero (n : Nat) (a : BitVec 32) (h : bitSteps n a = 0#32) : a = 0#32 :=
  bitSteps_inj n a 0#32 (by rw [h, bitSteps_zero])

/-! ### parity is invariant (the generator has the factor `x + 1`) -/

/-- xor of the bits `0 .. n-1`. -/
def parN : Nat → BitVec 32 → Bool
  | 0, _ => false
  | n+1, x => x.getLsbD n ^^ parN n x

/-- xor of all 32 bits. -/
def par (x : BitVec 32) : Bool := parN 32 x

theorem parN_xor : ∀ n (a b : BitVec 32), parN n (a ^^^ b) = (parN n a ^^ parN n b)
  | 0, _, _ => rfl
  | n+1, a, b => by
    simp only [parN, BitVec.getLsbD_xor, parN_xor n]
    cases a.getLsbD n <;> cases b.getLsbD n <;> cases parN n a <;> cases parN n b <;> rfl

theorem par_xor (a b : BitVec 32) : par (a ^^^ b) = (par a ^^ par b) := parN_xor 32 a b

theorem parN_shift : ∀ n (x : BitVec 32), (parN n (x >>> 1) ^^ x.getLsbD 0) = parN (n+1) x
  | 0, x => by simp [parN]
  | n+1, x => by
    have ih := parN_shift n x
    rw [parN, BitVec.getLsbD_ushiftRight, Bool.xor_assoc, ih, Nat.add_comm 1 n]
    rfl

theorem par_shift (x : BitVec 32) : par (x >>> 1) = (par x ^^ x.getLsbD 0) := by
  have h := parN_shift 32 x
  have h32 : x.getLsbD 32 = false := BitVec.getLsbD_of_ge x 32 (by omega)
  have h33 : parN (32 + 1) x = (x.getLsbD 32 ^^ parN 32 x) := rfl
  unfold par
  rw [h33, h32, Bool.false_xor] at h
  rw [← h, Bool.xor_assoc, Bool.xor_self, Bool.xor_false]

theorem par_poly : par poly = true := by decide

theorem par_zero : par 0#32 = false := by decide

theorem par_bitStep (x : BitVec 32) : par (bitStep x) = par x := by
  rw [bitStep_eq, par_xor, par_shift]
  cases x.getLsbD 0 <;> simp [par_poly, par_zero]

theorem par_bitSteps : ∀ n (x : BitVec 32), par (bitSteps n x) = par x
  | 0, _ => rfl
  | n+1, x => by rw [bitSteps, par_bitSteps n, par_bitStep]

/-! ### shifting out zero bits -/

theorem bitSteps_low_zero : ∀ n (x : BitVec 32), (∀ i, i < n → x.getLsbD i = false) →
    bitSteps n x = x >>> n
  | 0, x, _ => by simp [bitSteps]
  | n+1, x, h => by
    have h0 : x.getLsbD 0 = false := h 0 (by omega)
    have hs : bitStep x = x >>> 1 := by rw [bitStep_eq, h0]; simp
    rw [bitSteps, hs, bitSteps_low_zero n (x >>> 1), ← BitVec.shiftRight_add, Nat.add_comm]
    intro i hi
    rw [BitVec.getLsbD_ushiftRight]
    exact h (1 + i) (by omega)

/-- Splitting off the low byte: eight shifts act on the upper 24 bits as a plain shift. -/
theorem bitSteps8_split (x : BitVec 32) :
    bitSteps 8 x = (x >>> 8) ^^^ bitSteps 8 (BitVec.ofNat 32 (x.toNat % 256)) := by
  have hx : x = ((x >>> 8) <<< 8) ^^^ BitVec.ofNat 32 (x.toNat % 256) := by
    apply BitVec.eq_of_getLsbD_eq
    intro i hi
    have h256 : (256 : Nat) = 2 ^ 8 := rfl
    rw [BitVec.getLsbD_xor, BitVec.getLsbD_shiftLeft, BitVec.getLsbD_ushiftRight,
      BitVec.getLsbD_ofNat, h256, Nat.testBit_mod_two_pow]
    by_cases h8 : i < 8
    · simp [h8, hi, BitVec.getLsbD]
    · have : 8 + (i - 8) = i := by omega
      simp [h8, hi, this]
  have hlow : bitSteps 8 ((x >>> 8) <<< 8) = x >>> 8 := by
    rw [bitSteps_low_zero 8]
    · apply BitVec.eq_of_getLsbD_eq
      intro i hi
      rw [BitVec.getLsbD_ushiftRight, BitVec.getLsbD_shiftLeft, BitVec.getLsbD_ushiftRight]
      have : 8 + i - 8 = i := by omega
      by_cases h : 8 + i < 32
      · simp [h, this]
      · simp [h]
        exact BitVec.getLsbD_of_ge x _ (by omega)
    · intro i hi
      rw [BitVec.getLsbD_shiftLeft]
      simp [hi]
  conv => lhs; rw [hx]
  rw [bitSteps_xor, hlow]

/-! ### the table driven step -/

/-- The constant part of `step` (it is table entry 0). -/
def stepConst : BitVec 32 := ~~~ (bitSteps 8 (~~~ (0 : BitVec 32)))

theorem tableAt_eq (j : Nat) (h : j < 256) :
    tableAt j h = stepConst ^^^ bitSteps 8 (BitVec.ofNat 32 j) := by
  rw [tableAt_eq_slowByte, slowByte, bitSteps_xor, BitVec.not_xor_left, Nat.mod_eq_of_lt h]
  rfl

/-- `step` is: xor the byte into the register, eight LFSR shifts, xor a constant. -/
theorem step_eq (c : BitVec 32) (b : Nat) :
    step c b = stepConst ^^^ bitSteps 8 (c ^^^ BitVec.ofNat 32 (b % 256)) := by
  unfold step
  rw [tableAt_eq]
  have h256 : (256 : Nat) = 2 ^ 8 := rfl
  have hb : b % 256 < 2 ^ 32 := by omega
  rw [bitSteps8_split (c ^^^ BitVec.ofNat 32 (b % 256))]
  have h1 : (c ^^^ BitVec.ofNat 32 (b % 256)) >>> 8 = c >>> 8 := by
    rw [BitVec.ushiftRight_xor_distrib]
    have : BitVec.ofNat 32 (b % 256) >>> 8 = 0#32 := by
      apply BitVec.eq_of_toNat_eq
      rw [BitVec.toNat_ushiftRight, BitVec.toNat_ofNat, Nat.mod_eq_of_lt hb, Nat.shiftRight_eq_div_pow]
      simp <;> omega
    rw [this, BitVec.xor_zero]
  have h2 : (c ^^^ BitVec.ofNat 32 (b % 256)).toNat % 256 = (c.toNat ^^^ b) % 256 := by
    rw [BitVec.toNat_xor, BitVec.toNat_ofNat, Nat.mod_eq_of_lt hb, h256, Nat.xor_mod_two_pow,
      Nat.xor_mod_two_pow (b := b), Nat.mod_mod]
  rw [h1, h2]
  ac_rfl

theorem step_xor_step (c c' : BitVec 32) (b b' : Nat) :
    step c b ^^^ step c' b' =
      bitSteps 8 ((c ^^^ c') ^^^ (BitVec.ofNat 32 (b % 256) ^^^ BitVec.ofNat 32 (b' % 256))) := by
  rw [step_eq, step_eq]
  have : ∀ k x y : BitVec 32, (k ^^^ x) ^^^ (k ^^^ y) = x ^^^ y := by
    intro k x y
    calc (k ^^^ x) ^^^ (k ^^^ y) = (k ^^^ k) ^^^ (x ^^^ y) := by ac_rfl
      _ = x ^^^ y := by simp
  rw [this, ← bitSteps_xor]
  congr 1
  ac_rfl

/-! ### `ext` over a whole list -/

/-- Two runs over the same bytes differ by the shifted difference of the start registers. -/
theorem ext_xor_ext : ∀ (xs : List Nat) (c c' : BitVec 32),
    ext c xs ^^^ ext c' xs = bitSteps (8 * xs.length) (c ^^^ c')
  | [], _, _ => rfl
  | x :: xs, c, c' => by
    show ext (step c x) xs ^^^ ext (step c' x) xs = _
    rw [ext_xor_ext xs, step_xor_step, BitVec.xor_self, BitVec.xor_zero, ← bitSteps_add]
    congr 1
    simp only [List.length_cons]; omega

/-- Flipping bit `k` of byte `i` changes the result by a shifted one-hot register. -/
theorem ext_set_flip : ∀ (l : List Nat) (i : Nat) (hi : i < l.length) (k : Nat) (_hk : k < 8)
    (c : BitVec 32),
    ext c (l.set i (l[i] ^^^ 2 ^ k)) ^^^ ext c l =
      bitSteps (8 * (l.length - i)) (BitVec.twoPow 32 k)
  | x :: xs, 0, _, k, hk, c => by
    show ext (step c (x ^^^ 2 ^ k)) xs ^^^ ext (step c x) xs = _
    rw [ext_xor_ext, step_xor_step, BitVec.xor_self, BitVec.zero_xor, ← bitSteps_add]
    have h256 : (256 : Nat) = 2 ^ 8 := rfl
    have hk2 : 2 ^ k % 2 ^ 8 = 2 ^ k := Nat.mod_eq_of_lt (Nat.pow_lt_pow_right (by omega) hk)
    have : BitVec.ofNat 32 ((x ^^^ 2 ^ k) % 256) ^^^ BitVec.ofNat 32 (x % 256) = BitVec.twoPow 32 k := by
      rw [h256, Nat.xor_mod_two_pow, BitVec.ofNat_xor, hk2]
      calc BitVec.ofNat 32 (x % 2 ^ 8) ^^^ BitVec.ofNat 32 (2 ^ k) ^^^ BitVec.ofNat 32 (x % 2 ^ 8)
          = (BitVec.ofNat 32 (x % 2 ^ 8) ^^^ BitVec.ofNat 32 (x % 2 ^ 8)) ^^^ BitVec.ofNat 32 (2 ^ k) := by ac_rfl
        _ = BitVec.twoPow 32 k := by
          rw [BitVec.xor_self, BitVec.zero_xor]
          apply BitVec.eq_of_toNat_eq
          simp [BitVec.toNat_twoPow]
    rw [this]
    congr 1
    simp only [List.length_cons]; omega
  | x :: xs, i+1, hi, k, hk, c => by
    have hi' : i < xs.length := by simpa using hi
    show ext (step c x) (xs.set i (xs[i] ^^^ 2 ^ k)) ^^^ ext (step c x) xs = _
    rw [ext_set_flip xs i hi' k hk]
    congr 1
    simp only [List.length_cons]; omega

end Uflow.Crc
