import Uflow.Lemmas.HcAgeInv

/-!
C01Age, part 3: the three freshness clauses of `OpOk` from the age hypothesis (`opOk_of_age`), and the
run: in every run that does not reuse frame ids, `AgeOk D` with `D + w + 2^k < 2^20` implies `Guarded`
(`guarded_of_age`), for any number of emitted packets.

The arithmetic. `advB ≤ pend.length` (`SInv.hi`: `B`'s window base never passes a packet that was not
emitted) and `pend.length - A.win.length ≤ advB` (`SInv.lo`).
* `FreshDg`: a datagram of a data frame with stamp `T` has a position `i` with `T ≤ i + w`; the age
  condition gives `pend.length ≤ T + D`; so `advB + 2^k ≤ i + w + D + 2^k ≤ i + 2^20`.
* `FreshSync`: a sync frame with stamp `T` carrying `id` is recorded as `(T, id)`;
  `advB + 2^k ≤ T + D + 2^k < T + 2^20`.
* `FreshAck`: an ack frame with stamp `a` carries a base recorded as `(a, pb)`; the age condition gives
  `advB ≤ a + D`; so `(pend.length - win.length) + w ≤ a + D + w < a + 2^20`.
-/

namespace Uflow.HcAge

open Uflow Uflow.Gen Uflow.Codec Uflow.HalfConn Uflow.PSend Uflow.HcSys Uflow.HcFrm Uflow.HcCov Uflow.Sys
open Uflow.PRecv (bindR bindR_ok)
open Uflow.Rate (FloatOps)

variable {F : Type}

/-- The three freshness clauses from the age condition of the step. -/
theorem opOk_of_age {w k b a m D : Nat} (H : SHyp w k b) (hD : D + w + 2^k < 2^20) {x : Aged F} {s : Sys}
    (hF : Full w k b a m x.h s) (hA : AgeInv w x) (op : POp) (hage : AgeOp D x op) : OpOk x.h op := by
  obtain ⟨hinv, _, _⟩ := reach_invs H hF.reach
  have hi := hF.pi
  have hr := hF.rel
  have h1 : x.h.advB ≤ x.h.pend.length := by
    rw [← hr.adv, ← hr.pend, ← hr.elen]; exact hinv.hi
  have h2 : x.h.B.pr.windowSize = 2^k := by rw [← hr.rcv]; exact hinv.rcv.inv.wsz
  cases op with
  | deliverAB k' =>
    intro bytes hk'
    have hlt : k' < x.h.wireT.length := by
      rw [hF.fi.twl]; exact (List.getElem?_eq_some_iff.mp hk').1
    have hT : x.h.wireT[k']? = some x.h.wireT[k'] := List.getElem?_eq_getElem hlt
    have hage' : x.h.pend.length ≤ x.h.wireT[k'] + D := by
      have := hage
      simp only [AgeOp, hT] at this
      exact this
    refine ⟨?_, ?_⟩
    · intro id nonce dgs hd _ d hm
      obtain ⟨i, hfr, hle⟩ := wire_decode_data (hA.dg k' bytes _ hk' hT)
        (fun d ⟨i, hfr, _⟩ => genuine_ok hi.a d ⟨i, hfr⟩) id nonce dgs hd d hm
      exact ⟨i, hfr, by omega⟩
    · intro nf id hd
      exact Or.inr ⟨_, hA.sy k' bytes _ hk' hT nf id hd, by omega⟩
  | deliverBA k' =>
    intro bytes hk' fb pb acks hd
    have hlt : k' < x.tBA.length := by
      rw [hA.bl]; exact (List.getElem?_eq_some_iff.mp hk').1
    have hT : x.tBA[k']? = some x.tBA[k'] := List.getElem?_eq_getElem hlt
    have hage' : x.h.advB ≤ x.tBA[k'] + D := by
      have := hage
      simp only [AgeOp, hT] at this
      exact this
    obtain ⟨pb', ha, he⟩ := wire_decode_ack (hA.ba k' bytes _ hk' hT) fb pb acks hd
    have hlt' := hi.blt _ ha
    simp only [] at hlt'
    have hpe : pb = pb' := by rw [he, Nat.mod_eq_of_lt (by omega)]
    have h3 : x.h.A.ps.windowSize = w := by
      have := hinv.snd.hinv.wsz
      rw [hr.snd] at this
      exact this
    have h4 : x.h.pend.length - x.h.A.ps.win.length ≤ x.h.advB := by
      have hlo := hinv.lo
      have hwl : s.snd.win.length = x.h.A.ps.win.length := by rw [hr.snd]; simp [erase]
      rw [hwl, hr.elen, hr.pend, hr.adv] at hlo
      exact hlo
    exact ⟨_, by rw [hpe]; exact ha, by omega⟩
  | sendA d c m' => trivial
  | flushA => trivial
  | stepA now => trivial
  | recvB => trivial
  | flushB => trivial
  | stepB now => trivial

/-- **`AgeOk` implies `Guarded`**, along a run of any length that does not reuse frame ids; `Full` and
`AgeInv` hold at the end. -/
theorem guarded_of_age {w k b a m D : Nat} (ops : FloatOps F) (H : SHyp w k b) (hD : D + w + 2^k < 2^20)
    (sched : List POp) {x : Aged F} {h' : HcPair F} {s : Sys} (hF : Full w k b a m x.h s)
    (hA : AgeInv w x) (hage : AgeOk ops D x sched) (hrun : runP ops x.h sched = .ok h')
    (hn : IdsNodup h'.wireAB) :
    Guarded ops x.h sched ∧
      ∃ sops s' x', runS s sops = .ok s' ∧ runG ops x sched = .ok x' ∧ x'.h = h' ∧
        Full w k b a m h' s' ∧ AgeInv w x' := by
  induction sched generalizing x s with
  | nil => cases hrun; exact ⟨trivial, [], s, x, rfl, rfl, rfl, hF, hA⟩
  | cons op rest ih =>
    rw [runP] at hrun
    cases hs : stepP ops x.h op with
    | error t => rw [hs] at hrun; cases hrun
    | ok h1 =>
      rw [hs, bindR_ok] at hrun
      obtain ⟨w2, e2⟩ := runP_wire_prefix ops rest h1 h' hrun
      have hn1 : IdsNodup h1.wireAB := by rw [e2] at hn; exact hn.of_prefix
      obtain ⟨hop, hrest⟩ := hage
      have hok : OpOk x.h op := opOk_of_age H hD hF hA op hop
      obtain ⟨sops1, s1, r1, hF1⟩ := full_step ops H hF op hok hs hn1
      have hsG := stepG_of_stepP ops x op h1 hs
      have hA1 := ageInv_step ops H hF hF1 hA op hsG
      obtain ⟨g2, sops2, s2, x2, r2, rg2, e2', hF2, hA2⟩ := ih hF1 hA1 (hrest _ hsG) hrun
      refine ⟨⟨hok, ?_⟩, sops1 ++ sops2, s2, x2, by rw [HcSys.runS_append, r1, bindR_ok]; exact r2, ?_, e2',
        hF2, hA2⟩
      · intro h1' hs'
        rw [hs] at hs'
        cases hs'
        exact g2
      · rw [runG, hsG, bindR_ok]; exact rg2

end Uflow.HcAge
