import Uflow.Lemmas.SysDefs

namespace Uflow.Sys
open Uflow Uflow.Gen Uflow.Codec Uflow.PRecv

/-!
The composed system (C01Sys): `advance_window` slot by slot. A slot whose index is not the index of a
passed id keeps everything but its marker; the slot of a passed id is emptied.
-/

/-- A successful fold whose body keeps `P`, establishes `Q id` for the id it handles and never
destroys a `Q j`. -/
theorem foldR_ok_ind (body : State → Nat → R State) (P : State → Prop) (Q : Nat → State → Prop)
    (L0 : List Nat)
    (hstep : ∀ t id t', id ∈ L0 → P t → body t id = .ok t' → P t' ∧ Q id t' ∧ ∀ j, Q j t → Q j t') :
    ∀ (L : List Nat) (t t' : State), (∀ id ∈ L, id ∈ L0) → P t → foldR body L t = .ok t' →
      P t' ∧ (∀ id ∈ L, Q id t') ∧ ∀ j, Q j t → Q j t' := by
  intro L
  induction L with
  | nil =>
    intro t t' _ hp hf
    cases hf
    exact ⟨hp, fun _ h => (by cases h), fun _ h => h⟩
  | cons id L ih =>
    intro t t' hsub hp hf
    rw [foldR] at hf
    cases hb : body t id with
    | error e => rw [hb] at hf; cases hf
    | ok t1 =>
      rw [hb] at hf
      obtain ⟨hp1, hq1, hst1⟩ := hstep t id t1 (hsub id List.mem_cons_self) hp hb
      obtain ⟨hp2, hq2, hst2⟩ := ih t1 t' (fun j hj => hsub j (List.mem_cons_of_mem _ hj)) hp1 hf
      refine ⟨hp2, ?_, fun j hj => hst2 j (hst1 j hj)⟩
      intro j hj
      rcases List.mem_cons.mp hj with hj | hj
      · rw [hj]; exact hst2 id hq1
      · exact hq2 j hj

theorem widx_of_wsz {W : Nat} {t : State} (hw : t.windowSize = W) (id : Nat) : widx t id = wi W id := by
  simp only [widx, wi, hw]

/-- A slot update with a cleared entry flag. -/
theorem setSlot_entry (t : State) (i : Nat) (x : Slot) (hx : x.entryFlag = false) :
    (∀ k, k ≠ i → lget (setSlot t i x).slots k = lget t.slots k) ∧
    (lget (setSlot t i x).slots i).entryFlag = false ∧
    (∀ k, (lget t.slots k).entryFlag = false → (lget (setSlot t i x).slots k).entryFlag = false) := by
  refine ⟨?_, ?_, ?_⟩
  · intro k hk; rw [lget_setSlot, if_neg hk]
  · rw [lget_setSlot, if_pos rfl]; exact hx
  · intro k hk; rw [lget_setSlot]; split
    · exact hx
    · exact hk

/-- Pass 1 of `advance_window` on one id: only the slot of that id changes; its entry flag is cleared. -/
theorem awBody1_slot {W : Nat} {t t' : State} (hw : t.windowSize = W) (id : Nat)
    (h : awBody1 t id = .ok t') :
    t'.windowSize = W ∧ (∀ k, k ≠ wi W id → lget t'.slots k = lget t.slots k) ∧
    (lget t'.slots (wi W id)).entryFlag = false ∧
    (∀ k, (lget t.slots k).entryFlag = false → (lget t'.slots k).entryFlag = false) := by
  unfold awBody1 at h
  rw [widx_of_wsz hw] at h
  simp only at h
  split at h
  · split at h
    · cases h
    · split at h
      · cases h
      · cases h
        obtain ⟨a, b, c⟩ := setSlot_entry t (wi W id)
          { getSlot t (wi W id) with entryFlag := false, dataFlag := false, data := none } rfl
        exact ⟨hw, a, b, c⟩
  · cases h
    obtain ⟨a, b, c⟩ := setSlot_entry t (wi W id) { getSlot t (wi W id) with entryFlag := false } rfl
    exact ⟨hw, a, b, c⟩

/-- Pass 2 of `advance_window` on one slot: only that slot changes; its assembly entry is opened. -/
theorem clearAsm_slot {t t' : State} (i : Nat) (h : clearAsm t i = .ok t') :
    t'.windowSize = t.windowSize ∧ (∀ k, k ≠ i → lget t'.slots k = lget t.slots k) ∧
    (∀ k, (lget t'.slots k).entryFlag = (lget t.slots k).entryFlag) ∧
    (lget t'.slots i).asm = .opened ∧
    (∀ k, (lget t.slots k).asm = .opened → (lget t'.slots k).asm = .opened) := by
  have hset : ∀ (a : Nat), let u : State := { setSlot t i { getSlot t i with asm := .opened } with alloc := a }
      u.windowSize = t.windowSize ∧ (∀ k, k ≠ i → lget u.slots k = lget t.slots k) ∧
      (∀ k, (lget u.slots k).entryFlag = (lget t.slots k).entryFlag) ∧
      (lget u.slots i).asm = .opened ∧
      (∀ k, (lget t.slots k).asm = .opened → (lget u.slots k).asm = .opened) := by
    intro a
    refine ⟨rfl, ?_, ?_, ?_, ?_⟩
    · intro k hk
      show lget (setSlot t i _).slots k = _
      rw [lget_setSlot, if_neg hk]
    · intro k
      show (lget (setSlot t i _).slots k).entryFlag = _
      rw [lget_setSlot]; split
      · rename_i hk; rw [hk, getSlot_eq]
      · rfl
    · show (lget (setSlot t i _).slots i).asm = _
      rw [lget_setSlot, if_pos rfl]
    · intro k hk
      show (lget (setSlot t i _).slots k).asm = _
      rw [lget_setSlot]; split
      · rfl
      · exact hk
  unfold clearAsm at h
  simp only at h
  split at h
  · rename_i ho
    cases h
    rw [getSlot_eq] at ho
    exact ⟨rfl, fun _ _ => rfl, fun _ => rfl, ho, fun _ hk => hk⟩
  · split at h
    · cases h
    · cases h; exact hset _
  · split at h
    · cases h
    · cases h; exact hset _

/-- Pass 3 of `advance_window` on one id: slots change in their marker only. -/
theorem tryUnset_core {t t' : State} (x : Nat) (h : tryUnsetChannelBase t x = .ok t') :
    t'.windowSize = t.windowSize ∧ ∀ k, core (lget t'.slots k) = core (lget t.slots k) := by
  unfold tryUnsetChannelBase at h
  simp only at h
  split at h
  · cases h; exact ⟨rfl, fun _ => rfl⟩
  · split at h
    · cases h
    · cases h
      refine ⟨rfl, ?_⟩
      intro k
      show core (lget (setSlot t _ _).slots k) = _
      rw [lget_setSlot, getSlot_eq]; split
      · rename_i hk; rw [hk]; rfl
      · rfl

/-- `advance_window` slot by slot: a slot whose index is not the index of a passed id keeps everything
but its marker; the slot of every passed id ends up with no entry flag, no data flag and an opened
assembly entry. -/
theorem advanceWindow_core {W M : Nat} (hW : WOk W) {s s' : State} (hinv : Inv W M s) (h : Ord W s)
    (nb : Nat) (hnb : nb < 2^20) (hδ : pidSub nb s.baseId ≤ W) (ha : advanceWindow s nb = .ok s') :
    (∀ k, (∀ id, id < 2^20 → pidSub id s.baseId < pidSub nb s.baseId → wi W id ≠ k) →
        core (lget s'.slots k) = core (lget s.slots k)) ∧
    (∀ id, id < 2^20 → pidSub id s.baseId < pidSub nb s.baseId →
        (lget s'.slots (wi W id)).entryFlag = false ∧ (lget s'.slots (wi W id)).dataFlag = false ∧
        (lget s'.slots (wi W id)).asm = .opened) := by
  have F := advanceWindow_facts hW hinv h nb hnb hδ ha
  rw [advanceWindow_eq] at ha
  obtain ⟨w1, w2, -, -⟩ := awStart_facts s nb
  have h0 := awStart_inv hinv nb hnb
  generalize awStart s nb = s0 at *
  have hL : ∀ id, id ∈ idsTo s0.baseId nb ↔ id < 2^20 ∧ pidSub id s.baseId < pidSub nb s.baseId := by
    intro id
    constructor
    · intro hm
      have hlt := idsTo_lt s0.baseId nb h0.blt id hm
      exact ⟨hlt, by rw [← w1]; exact (mem_idsTo id s0.baseId nb hlt h0.blt).mp hm⟩
    · rintro ⟨hlt, ho⟩
      exact (mem_idsTo id s0.baseId nb hlt h0.blt).mpr (by rw [w1]; exact ho)
  rw [awLoops, idLoop_eq _ _ _ _ h0.blt hnb] at ha
  cases hf1 : foldR awBody1 (idsTo s0.baseId nb) s0 with
  | error e => rw [hf1] at ha; cases ha
  | ok s1 =>
  rw [hf1, bindR_ok, idLoop_eq _ _ _ _ h0.blt hnb] at ha
  cases hf2 : foldR awBody2 (idsTo s0.baseId nb) s1 with
  | error e => rw [hf2] at ha; cases ha
  | ok s2 =>
  rw [hf2, bindR_ok, idLoop_eq _ _ _ _ h0.blt hnb] at ha
  cases hf3 : foldR awBody3 (idsTo s0.baseId nb) s2 with
  | error e => rw [hf3] at ha; cases ha
  | ok s3 =>
  rw [hf3, bindR_ok] at ha
  cases ha
  -- pass 1
  obtain ⟨⟨hw1, k1⟩, q1, -⟩ := foldR_ok_ind awBody1
    (fun t => t.windowSize = W ∧
      ∀ k, (∀ id ∈ idsTo s0.baseId nb, wi W id ≠ k) → lget t.slots k = lget s0.slots k)
    (fun id t => (lget t.slots (wi W id)).entryFlag = false) (idsTo s0.baseId nb)
    (by
      intro t id t' hid hp hb
      obtain ⟨hpw, hpk⟩ := hp
      obtain ⟨a1, a2, a3, a4⟩ := awBody1_slot hpw id hb
      refine ⟨⟨a1, ?_⟩, a3, fun j hj => a4 _ hj⟩
      intro k hk
      rw [a2 k (fun hc => hk id hid hc.symm)]
      exact hpk k hk)
    (idsTo s0.baseId nb) s0 s1 (fun _ hj => hj) ⟨h0.wsz, fun _ _ => rfl⟩ hf1
  -- pass 2
  obtain ⟨⟨hw2, k2, e2⟩, q2, -⟩ := foldR_ok_ind awBody2
    (fun t => t.windowSize = W ∧
      (∀ k, (∀ id ∈ idsTo s0.baseId nb, wi W id ≠ k) → lget t.slots k = lget s1.slots k) ∧
      ∀ k, (lget t.slots k).entryFlag = (lget s1.slots k).entryFlag)
    (fun id t => (lget t.slots (wi W id)).asm = .opened) (idsTo s0.baseId nb)
    (by
      intro t id t' hid hp hb
      obtain ⟨hpw, hpk, hpe⟩ := hp
      have hb' : clearAsm t (wi W id) = .ok t' := by rw [← widx_of_wsz hpw]; exact hb
      obtain ⟨a1, a2, a3, a4, a5⟩ := clearAsm_slot _ hb'
      refine ⟨⟨a1.trans hpw, ?_, fun k => (a3 k).trans (hpe k)⟩, a4, fun j hj => a5 _ hj⟩
      intro k hk
      rw [a2 k (fun hc => hk id hid hc.symm)]
      exact hpk k hk)
    (idsTo s0.baseId nb) s1 s2 (fun _ hj => hj) ⟨hw1, fun _ _ => rfl, fun _ => rfl⟩ hf2
  -- pass 3
  obtain ⟨k3, -, -⟩ := foldR_ok_ind awBody3
    (fun t => ∀ k, core (lget t.slots k) = core (lget s2.slots k))
    (fun _ _ => True) (idsTo s0.baseId nb)
    (by
      intro t id t' _ hp hb
      obtain ⟨-, a2⟩ := tryUnset_core _ hb
      exact ⟨fun k => (a2 k).trans (hp k), trivial, fun _ _ => trivial⟩)
    (idsTo s0.baseId nb) s2 s3 (fun _ hj => hj) (fun _ => rfl) hf3
  refine ⟨?_, ?_⟩
  · intro k hk
    have hk' : ∀ id ∈ idsTo s0.baseId nb, wi W id ≠ k :=
      fun id hid => hk id ((hL id).mp hid).1 ((hL id).mp hid).2
    show core (lget s3.slots k) = _
    rw [k3 k, k2 k hk', k1 k hk', w2]
  · intro id hid hido
    have hm := (hL id).mpr ⟨hid, hido⟩
    refine ⟨?_, ?_, ?_⟩
    · show (lget s3.slots (wi W id)).entryFlag = false
      have := congrArg Slot.entryFlag (k3 (wi W id))
      exact this.trans ((e2 _).trans (q1 id hm))
    · cases hfl : (lget ({ s3 with baseId := nb } : State).slots (wi W id)).dataFlag with
      | false => rfl
      | true => exact absurd rfl ((F.flag _ hfl).2 id hid hido)
    · show (lget s3.slots (wi W id)).asm = .opened
      have := congrArg Slot.asm (k3 (wi W id))
      exact this.trans (q2 id hm)

end Uflow.Sys
