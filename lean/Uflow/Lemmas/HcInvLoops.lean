import Uflow.Lemmas.HcInvEmit
import Uflow.Lemmas.ModesFlush

/-!
C03 (half connection): the loops of `emit_data_frames` terminate within their fuel (no
`Trap.hang`), never trap, and preserve the invariant; `emit_ack_frames`, `emit_sync_frame` and
`flush`.
-/

namespace Uflow.HcInv

open Uflow Uflow.Gen Uflow.Codec Uflow.HalfConn Uflow.Frag Uflow.Heap
open Uflow.Rate (FloatOps RateInv)
open Uflow.PSend (PsInv FragOk UidLt)
open Uflow.FrameQ (WInv FqTime)
open Uflow.Credit (PsOk PktOk)

variable {F : Type}

/-! ### updating the transmit queues -/

theorem HcInv.setQueues {s : State F} (h : HcInv s) (pe : List PEntry) (re : Array REntry)
    (hpe : ∀ x ∈ pe, FragOk s.ps x.uid x.fid) (hre : ∀ x ∈ re.toList, FragOk s.ps x.uid x.fid) :
    HcInv ({ s with pending := pe, resend := re } : State F) where
  ps := h.ps
  pok := h.pok
  uid := h.uid
  pend := hpe
  res := hre
  fq := h.fq
  fqt := h.fqt
  pr := h.pr
  rate := h.rate
  sync := h.sync
  clock := h.clock

theorem EInv.setQueues {e : Emit F} (h : EInv e) (pe : List PEntry) (re : Array REntry)
    (hpe : ∀ x ∈ pe, FragOk e.s.ps x.uid x.fid) (hre : ∀ x ∈ re.toList, FragOk e.s.ps x.uid x.fid) :
    EInv ({ e with s := { e.s with pending := pe, resend := re } } : Emit F) :=
  ⟨h.hc.setQueues pe re hpe hre, h.ip⟩

theorem cred_setQueues (e : Emit F) (pe : List PEntry) (re : Array REntry) :
    cred ({ e with s := { e.s with pending := pe, resend := re } } : Emit F) = cred e := rfl

/-! ### the resend loop -/

/-- `resendLoop` returns within its fuel: every iteration either pops an entry for good or consumes
credit. -/
theorem resendLoop_ok (fuel : Nat) (e : Emit F) (h : EInv e)
    (hf : e.s.resend.size + (cred e + 1).toNat < fuel) :
    ∃ e' st, resendLoop fuel e = .ok (e', st) ∧ EInv e' ∧ lastNow e'.s = lastNow e.s := by
  induction fuel generalizing e with
  | zero => omega
  | succ n ih =>
    rw [resendLoop]
    cases h0 : e.s.resend[0]? with
    | none => exact ⟨e, none, rfl, h, rfl⟩
    | some entry =>
      simp only []
      obtain ⟨h', hpop⟩ := heapPop_isSome e.s.resend entry h0
      rw [hpop]
      simp only []
      have hsz := size_heapPop _ _ _ hpop
      have hmem := fun x => mem_heapPop e.s.resend h' entry x hpop
      have hentry : FragOk e.s.ps entry.uid entry.fid := h.hc.res entry ((hmem entry).mpr (.inl rfl))
      -- the popped context
      have hpopI : EInv ({ e with s := { e.s with resend := h' } } : Emit F) :=
        h.setQueues e.s.pending h' h.hc.pend (fun x hx => h.hc.res x ((hmem x).mpr (.inr hx)))
      have hpopF : ({ e with s := { e.s with resend := h' } } : Emit F).s.resend.size +
          (cred ({ e with s := { e.s with resend := h' } } : Emit F) + 1).toNat < n := by
        show h'.size + (cred e + 1).toNat < n
        omega
      have hpopR := ih _ hpopI hpopF
      cases hfp : PSend.findPacket e.s.ps entry.uid with
      | none =>
        simp only []
        obtain ⟨e', st, he', hi', hl'⟩ := hpopR
        exact ⟨e', st, he', hi', hl'⟩
      | some p =>
        simp only []
        by_cases hack : entry.fid ∈ p.acked
        · rw [if_pos hack]
          obtain ⟨e', st, he', hi', hl'⟩ := hpopR
          exact ⟨e', st, he', hi', hl'⟩
        · rw [if_neg hack]
          by_cases hrt : entry.resendTime > e.s.nowMs
          · rw [if_pos hrt]; exact ⟨e, none, rfl, h, rfl⟩
          · rw [if_neg hrt]
            obtain ⟨e1, r, hpush, hi1, hk1, hcr⟩ := dfePush_ok e p entry.uid entry.fid true h hfp hentry
            rw [hpush]
            cases r with
            | some pe =>
              cases pe with
              | sizeLimited => exact ⟨e1, _, rfl, hi1, hk1.lastNow⟩
              | windowLimited => exact ⟨e1, _, rfl, hi1, hk1.lastNow⟩
            | none =>
              simp only []
              rw [hk1.resend, hpop]
              simp only []
              obtain ⟨c0, c1⟩ := hcr rfl
              have hne : ∀ x ∈ (heapPush h' { uid := entry.uid, fid := entry.fid, resendTime := e1.s.nowMs + e1.s.rttMs * 2^entry.sendCount, sendCount := min (entry.sendCount + 1) MAX_SEND_COUNT }).toList,
                  FragOk e1.s.ps x.uid x.fid := by
                intro x hx
                rw [mem_heapPush] at hx
                rw [hk1.ps]
                rcases hx with rfl | hx
                · exact hentry
                · exact h.hc.res x ((hmem x).mpr (.inr hx))
              have hI2 := hi1.setQueues e1.s.pending _ hi1.hc.pend hne
              have hF2 : ({ e1 with s := { e1.s with resend := heapPush h' { uid := entry.uid, fid := entry.fid, resendTime := e1.s.nowMs + e1.s.rttMs * 2^entry.sendCount, sendCount := min (entry.sendCount + 1) MAX_SEND_COUNT } } } : Emit F).s.resend.size +
                  (cred ({ e1 with s := { e1.s with resend := heapPush h' { uid := entry.uid, fid := entry.fid, resendTime := e1.s.nowMs + e1.s.rttMs * 2^entry.sendCount, sendCount := min (entry.sendCount + 1) MAX_SEND_COUNT } } } : Emit F) + 1).toNat < n := by
                show (heapPush h' _).size + (cred e1 + 1).toNat < n
                rw [size_heapPush]
                omega
              obtain ⟨e', st, he', hi', hl'⟩ := ih _ hI2 hF2
              exact ⟨e', st, he', hi', hl'.trans hk1.lastNow⟩

/-! ### the pending loops -/

theorem pendingInner_ok (fuel : Nat) (e : Emit F) (h : EInv e) (hf : e.s.pending.length < fuel) :
    ∃ e' st, pendingInner fuel e = .ok (e', st) ∧ EInv e' ∧ lastNow e'.s = lastNow e.s ∧
      e'.s.ps = e.s.ps ∧ (st = none → e'.s.pending = []) := by
  induction fuel generalizing e with
  | zero => omega
  | succ n ih =>
    rw [pendingInner]
    cases hpe : e.s.pending with
    | nil => exact ⟨e, none, rfl, h, rfl, rfl, fun _ => hpe⟩
    | cons entry rest =>
      simp only []
      have hlen : rest.length < n := by rw [hpe] at hf; simp only [List.length_cons] at hf; omega
      have hsub : ∀ x ∈ rest, FragOk e.s.ps x.uid x.fid :=
        fun x hx => h.hc.pend x (by rw [hpe]; exact List.mem_cons_of_mem _ hx)
      have hentry : FragOk e.s.ps entry.uid entry.fid := h.hc.pend entry (by rw [hpe]; simp)
      have hrestR := ih ({ e with s := { e.s with pending := rest } } : Emit F)
        (h.setQueues rest e.s.resend hsub h.hc.res) hlen
      have hnilR := ih ({ e with s := { e.s with pending := [] } } : Emit F)
        (h.setQueues [] e.s.resend (fun x hx => by cases hx) h.hc.res) (by show 0 < n; omega)
      cases hfp : PSend.findPacket e.s.ps entry.uid with
      | none =>
        simp only []
        obtain ⟨e', st, he', hi', hl', hp', hn'⟩ := hrestR
        exact ⟨e', st, he', hi', hl', hp', hn'⟩
      | some p =>
        simp only []
        by_cases hack : entry.fid ∈ p.acked
        · rw [if_pos hack]
          obtain ⟨e', st, he', hi', hl', hp', hn'⟩ := hrestR
          exact ⟨e', st, he', hi', hl', hp', hn'⟩
        · rw [if_neg hack]
          by_cases hexp : entry.fid = 0 ∧ p.expired e.s.flushId = true
          · rw [if_pos hexp]
            obtain ⟨e', st, he', hi', hl', hp', hn'⟩ := hnilR
            exact ⟨e', st, he', hi', hl', hp', hn'⟩
          · rw [if_neg hexp]
            obtain ⟨e1, r, hpush, hi1, hk1, _⟩ := dfePush_ok e p entry.uid entry.fid entry.resend h hfp hentry
            rw [hpush]
            cases r with
            | some pe =>
              cases pe with
              | sizeLimited => exact ⟨e1, _, rfl, hi1, hk1.lastNow, hk1.ps, fun hc => by cases hc⟩
              | windowLimited => exact ⟨e1, _, rfl, hi1, hk1.lastNow, hk1.ps, fun hc => by cases hc⟩
            | none =>
              simp only []
              have hsub1 : ∀ x ∈ rest, FragOk e1.s.ps x.uid x.fid := by rw [hk1.ps]; exact hsub
              have hres1 : ∀ x ∈ e1.s.resend.toList, FragOk e1.s.ps x.uid x.fid := hi1.hc.res
              cases hr : entry.resend with
              | false =>
                simp only [Bool.false_eq_true, if_false]
                obtain ⟨e', st, he', hi', hl', hp', hn'⟩ :=
                  ih ({ e1 with s := { e1.s with pending := rest } } : Emit F)
                    (hi1.setQueues rest e1.s.resend hsub1 hres1) hlen
                exact ⟨e', st, he', hi', hl'.trans hk1.lastNow, hp'.trans hk1.ps, hn'⟩
              | true =>
                simp only [if_true]
                have hne : ∀ x ∈ (heapPush e1.s.resend { uid := entry.uid, fid := entry.fid, resendTime := e1.s.nowMs + e1.s.rttMs, sendCount := 1 }).toList,
                    FragOk e1.s.ps x.uid x.fid := by
                  intro x hx
                  rw [mem_heapPush] at hx
                  rcases hx with rfl | hx
                  · rw [hk1.ps]; exact hentry
                  · exact hres1 x hx
                obtain ⟨e', st, he', hi', hl', hp', hn'⟩ :=
                  ih ({ e1 with s := { e1.s with pending := rest, resend := heapPush e1.s.resend { uid := entry.uid, fid := entry.fid, resendTime := e1.s.nowMs + e1.s.rttMs, sendCount := 1 } } } : Emit F)
                    (hi1.setQueues rest _ hsub1 hne) hlen
                exact ⟨e', st, he', hi', hl'.trans hk1.lastNow, hp'.trans hk1.ps, hn'⟩

/-- `HcInv` after `PSend.emit` moved a packet into the window and the pending queue was filled. -/
theorem HcInv.setSender {s : State F} (h : HcInv s) (ps : PSend.State) (pe : List PEntry)
    (hps : PsInv ps) (hpok : PsOk ps) (huid : UidLt ps) (hpe : ∀ x ∈ pe, FragOk ps x.uid x.fid)
    (hfrag : ∀ u f, FragOk s.ps u f → FragOk ps u f) :
    HcInv ({ s with ps := ps, pending := pe } : State F) where
  ps := hps
  pok := hpok
  uid := huid
  pend := hpe
  res := fun r hr => hfrag _ _ (h.res r hr)
  fq := h.fq
  fqt := h.fqt
  pr := h.pr
  rate := h.rate
  sync := h.sync
  clock := h.clock

theorem refill_ok (e : Emit F) (h : EInv e) :
    ∃ e1 b, Wire.refill e = .ok (e1, b) ∧ EInv e1 ∧ lastNow e1.s = lastNow e.s ∧
      (b = true → e1.s.ps.queue.length + 1 ≤
        e.s.ps.queue.length + (if e.s.pending = [] then 0 else 1)) := by
  unfold Wire.refill
  cases hpe : e.s.pending with
  | cons x rest =>
    simp only [List.isEmpty_cons, Bool.false_eq_true, if_false]
    refine ⟨e, true, rfl, h, rfl, fun _ => ?_⟩
    simp
  | nil =>
    simp only [List.isEmpty_nil, if_true]
    obtain ⟨ps', r, hem, hps'⟩ := PSend.emit_ok e.s.ps e.s.flushId h.hc.ps
    rw [hem]
    have hpok' := Credit.emit_psOk _ _ _ _ h.hc.pok hem
    have huid' := PSend.uidLt_emit _ _ _ _ hem h.hc.uid
    have hfrag' : ∀ u f, FragOk e.s.ps u f → FragOk ps' u f :=
      fun u f hf => PSend.fragOk_emit _ _ _ _ u f hem hf
    cases r with
    | none =>
      simp only []
      refine ⟨_, false, rfl, ⟨?_, h.ip⟩, rfl, fun hc => by cases hc⟩
      have := h.hc.setSender ps' e.s.pending hps' hpok' huid'
        (fun x hx => hfrag' _ _ (h.hc.pend x hx)) hfrag'
      exact this.congr rfl rfl rfl rfl rfl rfl rfl rfl rfl this.pr
    | some v =>
      obtain ⟨p, resend⟩ := v
      simp only []
      refine ⟨_, true, rfl, ⟨?_, h.ip⟩, rfl, fun _ => ?_⟩
      · refine h.hc.setSender ps' _ hps' hpok' huid' ?_ hfrag'
        intro x hx
        simp only [List.mem_map, List.mem_range] at hx
        obtain ⟨i, hi, rfl⟩ := hx
        exact PSend.fragOk_emit_new _ _ _ p resend i h.hc.uid hem (by omega)
      · simp only []
        obtain ⟨dropped, queue, total, _, hq, _, hcase⟩ := PSend.emit_cases _ _ _ _ hem
        rcases hcase with ⟨hc, _⟩ | ⟨q, rest, _, _, _, hqq, _, _, _, _, _, _, _, _, _, _, hq', _⟩
        · cases hc
        · show ps'.queue.length + 1 ≤ e.s.ps.queue.length + 0
          rw [hq', hq, hqq]
          simp only [List.length_append, List.length_cons]
          omega

theorem pendingOuter_ok (fuel : Nat) (e : Emit F) (h : EInv e)
    (hf : e.s.ps.queue.length + (if e.s.pending = [] then 0 else 1) < fuel) :
    ∃ e' st, pendingOuter fuel e = .ok (e', st) ∧ EInv e' ∧ lastNow e'.s = lastNow e.s := by
  induction fuel generalizing e with
  | zero => omega
  | succ n ih =>
    rw [Wire.pendingOuter_eq]
    obtain ⟨e1, b, hre, hi1, hl1, hq1⟩ := refill_ok e h
    rw [hre]
    cases b with
    | false => exact ⟨e1, none, rfl, hi1, hl1⟩
    | true =>
      simp only []
      obtain ⟨e2, st, hin, hi2, hl2, hp2, hn2⟩ :=
        pendingInner_ok (e1.s.pending.length + 2) e1 hi1 (by omega)
      rw [hin]
      cases st with
      | some st => exact ⟨e2, some st, rfl, hi2, hl2.trans hl1⟩
      | none =>
        simp only []
        have hpe2 := hn2 rfl
        have hF : e2.s.ps.queue.length + (if e2.s.pending = [] then 0 else 1) < n := by
          rw [hpe2, hp2]
          simp only [if_true]
          have := hq1 rfl
          omega
        obtain ⟨e', st', he', hi', hl'⟩ := ih e2 hi2 hF
        exact ⟨e', st', he', hi', hl'.trans (hl2.trans hl1)⟩

/-! ### `emit_data_frames` -/

theorem emitDataFrames_ok (s : State F) (h : HcInv s) :
    ∃ s' out st, emitDataFrames s = .ok (s', out, st) ∧ HcInv s' ∧ lastNow s' = lastNow s := by
  unfold emitDataFrames
  simp only []
  have h0 : EInv ({ s := s, inProg := none, out := [] } : Emit F) :=
    ⟨h, fun ip h' => by cases h'⟩
  have hc0 : cred ({ s := s, inProg := none, out := [] } : Emit F) = s.flushAlloc := cred_none _ rfl
  obtain ⟨e1, st1, hr1, hi1, hl1⟩ := resendLoop_ok (2 * s.resend.size + 16 + s.flushAlloc.toNat)
    _ h0 (by rw [hc0]; show s.resend.size + _ < _; omega)
  rw [hr1]
  cases st1 with
  | some st => exact ⟨_, _, _, rfl, hi1.hc, hl1⟩
  | none =>
    simp only []
    obtain ⟨e2, st2, hr2, hi2, hl2⟩ := pendingOuter_ok
      (e1.s.ps.queue.length + e1.s.pending.length + 4) e1 hi1 (by split <;> omega)
    rw [hr2]
    cases st2 with
    | some st => exact ⟨_, _, _, rfl, hi2.hc, hl2.trans hl1⟩
    | none =>
      simp only []
      obtain ⟨hi3, hk3, _, _⟩ := dfeFinalize_einv e2 hi2
      exact ⟨_, _, _, rfl, hi3.hc, hk3.lastNow.trans (hl2.trans hl1)⟩

/-! ### `emit_ack_frames`, `emit_sync_frame` -/

theorem emitAckFrames_proj {α : Type} (f : State F → α)
    (hfin : ∀ (fb pb : Nat) (s : State F) ip out, f (Credit.ackFin fb pb s ip out).1 = f s)
    (hpop : ∀ (s : State F) rest, f { s with aq := { s.aq with entries := rest } } = f s)
    (s : State F) : f (emitAckFrames s).1 = f s := by
  rw [Credit.emitAckFrames_eq]
  split
  · rfl
  · exact Modes.ackLoop_proj f _ _ (hfin _ _) hpop _ _ _ _

theorem emitAckFrames_ok (s : State F) (h : HcInv s) :
    HcInv (emitAckFrames s).1 ∧ lastNow (emitAckFrames s).1 = lastNow s := by
  have e1 := emitAckFrames_proj (·.ps) (fun fb pb s ip out => by cases ip <;> rfl) (fun s rest => rfl) s
  have e2 := emitAckFrames_proj (·.pending) (fun fb pb s ip out => by cases ip <;> rfl) (fun s rest => rfl) s
  have e3 := emitAckFrames_proj (·.resend) (fun fb pb s ip out => by cases ip <;> rfl) (fun s rest => rfl) s
  have e4 := emitAckFrames_proj (·.fq) (fun fb pb s ip out => by cases ip <;> rfl) (fun s rest => rfl) s
  have e5 := emitAckFrames_proj (·.rate) (fun fb pb s ip out => by cases ip <;> rfl) (fun s rest => rfl) s
  have e6 := emitAckFrames_proj (·.nowMs) (fun fb pb s ip out => by cases ip <;> rfl) (fun s rest => rfl) s
  have e7 := emitAckFrames_proj (·.syncTimeoutBase) (fun fb pb s ip out => by cases ip <;> rfl) (fun s rest => rfl) s
  have e8 := emitAckFrames_proj (·.timeBase) (fun fb pb s ip out => by cases ip <;> rfl) (fun s rest => rfl) s
  have e9 := emitAckFrames_proj (·.timeLastFlushed) (fun fb pb s ip out => by cases ip <;> rfl) (fun s rest => rfl) s
  have e10 := emitAckFrames_proj (·.pr) (fun fb pb s ip out => by cases ip <;> rfl) (fun s rest => rfl) s
  refine ⟨h.congr e1 e2 e3 e4 e5 e6 e7 e8 e9 (by rw [e10]; exact h.pr), ?_⟩
  unfold lastNow
  rw [e8, e9]

theorem emitSyncFrame_ok (s : State F) (h : HcInv s) :
    ∃ s' out st, emitSyncFrame s = .ok (s', out, st) ∧ HcInv s' ∧ lastNow s' = lastNow s := by
  unfold emitSyncFrame
  have hs : ¬ s.nowMs < s.syncTimeoutBase := by have := h.sync; omega
  rw [if_neg hs]
  simp only []
  have hsent : ∀ A : Int, HcInv ({ s with flushAlloc := A, syncTimeoutBase := s.nowMs } : State F) :=
    fun A => h.emitStep ⟨rfl, rfl, rfl, rfl, rfl, rfl, rfl, rfl, rfl⟩ h.fq h.fqt h.rate
      (Nat.le_refl _)
  repeat' split
  all_goals first
    | exact ⟨_, _, _, rfl, h, rfl⟩
    | exact ⟨_, _, _, rfl, hsent _, rfl⟩

/-! ### `flush` -/

/-- `HalfConnection::flush` never traps (no out-of-range slice, no endless loop, no clock
underflow) and preserves the invariant. -/
theorem flush_ok (s : State F) (h : HcInv s) :
    ∃ s' out, flush s = .ok (s', out) ∧ HcInv s' ∧ lastNow s' = lastNow s := by
  unfold flush
  obtain ⟨hi1, hl1⟩ := emitAckFrames_ok s h
  generalize emitAckFrames s = r at hi1 hl1
  obtain ⟨s1, out1, st1⟩ := r
  simp only [] at hi1 hl1 ⊢
  by_cases hst : st1 = .stop
  · rw [if_pos hst]; exact ⟨_, _, rfl, hi1, hl1⟩
  · rw [if_neg hst]
    obtain ⟨s2, out2, st2, hd, hi2, hl2⟩ := emitDataFrames_ok s1 hi1
    rw [hd]
    simp only []
    by_cases hst2 : st2 = .stop
    · rw [if_pos hst2]; exact ⟨_, _, rfl, hi2, hl2.trans hl1⟩
    · rw [if_neg hst2]
      obtain ⟨s3, out3, st3, hsy, hi3, hl3⟩ := emitSyncFrame_ok s2 hi2
      rw [hsy]
      exact ⟨_, _, rfl, hi3, hl3.trans (hl2.trans hl1)⟩

end Uflow.HcInv
