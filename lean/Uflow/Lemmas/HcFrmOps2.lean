import Uflow.Lemmas.HcFrmOps
import Uflow.Lemmas.SyncData

/-!
C01Hc (frame-level acknowledgements), part 6: the three frame handlers, `receive`, and `flush` on the
receiving side.
-/

namespace Uflow.HcFrm

open Uflow Uflow.Gen Uflow.Codec Uflow.HalfConn Uflow.PSend Uflow.FrameQ Uflow.HcSys Uflow.HcFrame
open Uflow.Rate (FloatOps)

variable {F : Type}

/-! ### data and sync frames -/

theorem foldDatagrams_proj {α : Type} (f : State F → α) (hf : ∀ (s : State F) pr, f { s with pr := pr } = f s)
    (dgs : List Datagram) (s s' : State F)
    (h : dgs.foldlM (fun (s : State F) d =>
      (PRecv.handleDatagram s.pr d).map fun pr => { s with pr := pr }) s = .ok s') : f s' = f s := by
  induction dgs generalizing s with
  | nil =>
    simp only [List.foldlM_nil, pure, Except.pure, Except.ok.injEq] at h
    subst h; rfl
  | cons d dgs ih =>
    rw [List.foldlM_cons] at h
    generalize PRecv.handleDatagram s.pr d = r at h
    cases r with
    | error t => simp only [Except.map, bind, Except.bind] at h; cases h
    | ok pr =>
      simp only [Except.map, bind, Except.bind] at h
      rw [ih _ h, hf]

/-- `handle_data_frame`: the frame queue is untouched; the acknowledgement queue marks the frame seen
iff its id passes the window test. -/
theorem handleDataFrame_frm (s s' : State F) (id : Nat) (nonce : Bool) (dgs : List Datagram)
    (h : handleDataFrame s id nonce dgs = .ok s') :
    s'.fq = s.fq ∧ s'.aq = (if s.aq.contains id then s.aq.markSeen id nonce else s.aq) := by
  rw [handleDataFrame_eq] at h
  unfold dataFrameCore at h
  generalize s.aq.markSeen id nonce = aq' at h ⊢
  cases hb : s.aq.contains id with
  | false =>
    rw [hb] at h
    simp only [Bool.false_eq_true, if_false, Except.ok.injEq] at h ⊢
    subst h
    exact ⟨rfl, rfl⟩
  | true =>
    rw [hb] at h
    simp only [if_true] at h ⊢
    have e1 := foldDatagrams_proj (·.fq) (fun _ _ => rfl) dgs _ s' h
    have e2 := foldDatagrams_proj (·.aq) (fun _ _ => rfl) dgs _ s' h
    exact ⟨e1, e2⟩

theorem syncFrameCore_frm (s s' : State F) (g : Nat → FrameQ.AckQ) (nf np : Option Nat)
    (h : syncFrameCore s g nf np = .ok s') :
    s'.fq = s.fq ∧ (∀ id, nf = some id → s'.aq = g id) ∧ (nf = none → s'.aq = s.aq) := by
  simp only [syncFrameCore] at h
  cases nf with
  | none =>
    cases np with
    | none =>
      simp only [Except.map, Except.ok.injEq] at h
      subst h
      exact ⟨rfl, fun id hid => (by cases hid), fun _ => rfl⟩
    | some pid =>
      simp only [Except.map] at h
      generalize PRecv.resynchronize s.pr pid = r at h
      cases r with
      | error t => cases h
      | ok pr =>
        simp only [Except.ok.injEq] at h
        subst h
        exact ⟨rfl, fun id hid => (by cases hid), fun _ => rfl⟩
  | some fid =>
    simp only at h
    generalize hq : g fid = aq' at h
    have key : ∀ (t : State F), t.fq = s.fq → t.aq = aq' →
        t.fq = s.fq ∧ (∀ id, some fid = some id → t.aq = g id) ∧ (some fid = none → t.aq = s.aq) := by
      intro t h1 h2
      refine ⟨h1, ?_, fun hc => (by cases hc)⟩
      intro id hid
      cases hid
      rw [hq]; exact h2
    cases np with
    | none =>
      simp only [Except.map, Except.ok.injEq] at h
      subst h
      exact key _ rfl rfl
    | some pid =>
      simp only [Except.map] at h
      generalize PRecv.resynchronize s.pr pid = r at h
      cases r with
      | error t => cases h
      | ok pr =>
        simp only [Except.ok.injEq] at h
        subst h
        exact key _ rfl rfl

/-- `handle_sync_frame`: the frame queue is untouched; the acknowledgement queue is resynchronized
if the frame carries a frame id. -/
theorem handleSyncFrame_frm (s s' : State F) (nf np : Option Nat)
    (h : handleSyncFrame s nf np = .ok s') :
    s'.fq = s.fq ∧ (∀ id, nf = some id → s'.aq = s.aq.resynchronize id) ∧ (nf = none → s'.aq = s.aq) := by
  rw [handleSyncFrame_eq] at h
  exact syncFrameCore_frm s s' _ nf np h

theorem receive_frm (s s' : State F) (out : List (List Nat)) (h : receive s = .ok (s', out)) :
    s'.fq = s.fq ∧ s'.aq = s.aq ∧ s'.ps = s.ps := by
  simp only [receive] at h
  generalize PRecv.receive s.pr = r at h
  cases r with
  | error t => cases h
  | ok v =>
    obtain ⟨pr, o⟩ := v
    simp only [Except.ok.injEq, Prod.mk.injEq] at h
    obtain ⟨rfl, _⟩ := h
    exact ⟨rfl, rfl, rfl⟩

/-! ### ack frames -/

theorem foldlM_inv {σ α : Type} (f : σ → α → R σ) (J : σ → Prop) (P : α → Prop)
    (hstep : ∀ s a s', J s → P a → f s a = .ok s' → J s') (l : List α) (hl : ∀ a ∈ l, P a) (s s' : σ)
    (hj : J s) (h : l.foldlM f s = .ok s') : J s' := by
  induction l generalizing s with
  | nil =>
    simp only [List.foldlM_nil, pure, Except.pure, Except.ok.injEq] at h
    subst h; exact hj
  | cons a l ih =>
    simp only [List.foldlM_cons, bind, Except.bind] at h
    split at h
    · cases h
    · rename_i s1 h1
      exact ih (fun b hb => hl b (List.mem_cons_of_mem _ hb)) s1
        (hstep s a s1 hj (hl a List.mem_cons_self) h1) h

/-- What `handle_ack_frame` keeps, for the sending side: `J` is an invariant of `(fq, ps)` kept by one
`acknowledge_group` followed by the `acknowledge_fragment` calls for the fragments it reports (for a
group with `P`), by `advance_transfer_window` and by `acknowledge`. -/
theorem ackP_inv (J : FrameQ.State → PSend.State → Prop) (P : AckGroup → Prop)
    (s s' : State F) (fb pb : Nat) (acks : List AckGroup)
    (ag : FrameQ.State → AckGroup → Option Nat → R (FrameQ.State × List (Nat × Nat)))
    (adv : FrameQ.State → Nat → Option Nat → R FrameQ.State)
    (pack : PSend.State → Nat → R PSend.State)
    (hag : ∀ fq ps g rtt fq' frs, J fq ps → P g → ag fq g rtt = .ok (fq', frs) →
      J fq' (frs.foldl (fun ps (x : Nat × Nat) => ackFragment ps x.1 x.2) ps))
    (hadv : ∀ fq ps nb rtt fq', J fq ps → adv fq nb rtt = .ok fq' → J fq' ps)
    (hpack : ∀ fq ps rb ps', J fq ps → pack ps rb = .ok ps' → J fq ps')
    (hP : ∀ g ∈ acks, P g) (hj : J s.fq s.ps)
    (h : ackP s fb pb acks ag adv pack = .ok s') : J s'.fq s'.ps ∧ s'.aq = s.aq := by
  unfold ackP at h
  simp only at h
  generalize hr : (List.foldlM _ s acks : R (State F)) = r at h
  cases r with
  | error t => cases h
  | ok s1 =>
    simp only at h
    have h1 : J s1.fq s1.ps ∧ s1.aq = s.aq := by
      refine foldlM_inv _ (fun a : State F => J a.fq a.ps ∧ a.aq = s.aq) P ?_ acks hP s s1 ⟨hj, rfl⟩ hr
      intro a g a' ha hg hstep
      generalize hagr : ag a.fq g _ = r at hstep
      cases r with
      | error t => cases hstep
      | ok v =>
        obtain ⟨fq, frs⟩ := v
        simp only [Except.ok.injEq] at hstep
        subst hstep
        exact ⟨hag _ _ _ _ _ _ ha.1 hg hagr, ha.2⟩
    generalize hadvr : adv s1.fq fb _ = r2 at h
    generalize hack : pack s1.ps pb = r3 at h
    cases r2 with
    | error t => cases h
    | ok fq =>
      cases r3 with
      | error t => cases h
      | ok ps2 =>
        simp only [Except.ok.injEq] at h
        subst h
        exact ⟨hpack _ _ _ _ (hadv _ _ _ _ _ h1.1 hadvr) hack, h1.2⟩

/-- The invariant of the sending side: window relations of the frame queue, the frame log consistent
with the wire, the packet sender relative to the emission history, fragment flags only for fed
datagrams. -/
structure SndF (wire : List (List Nat)) (wt : List Nat) (pend : List Pending) (fed : List Datagram)
    (fq : FrameQ.State) (ps : PSend.State) : Prop where
  w : WInv fq
  fq : FqW wire wt pend fq
  a : AInv pend ps
  acked : AckedOk fed ps

/-- `X` is the id of a data frame on the wire all of whose datagrams were fed. -/
def Acc (wire : List (List Nat)) (fed : List Datagram) (X : Nat) : Prop :=
  ∃ bytes ∈ wire, ∃ n dgs, decode bytes = some (.data X n dgs) ∧ ∀ d ∈ dgs, d ∈ fed

/-- Frame ids are not reused on the wire (true while fewer than `2^32` data frames have been sent). -/
def IdsNodup (wire : List (List Nat)) : Prop := (wire.filterMap dataId).Nodup

theorem nodup_filterMap_inj {α β : Type} (f : α → Option β) (l : List α) (h : (l.filterMap f).Nodup)
    (a b : α) (ha : a ∈ l) (hb : b ∈ l) (x : β) (hfa : f a = some x) (hfb : f b = some x) : a = b := by
  induction l with
  | nil => cases ha
  | cons c l ih =>
    rw [List.filterMap_cons] at h
    rcases List.mem_cons.mp ha with rfl | ha'
    · rcases List.mem_cons.mp hb with rfl | hb'
      · rfl
      · exfalso
        rw [hfa] at h
        have := (List.nodup_cons.mp h).1
        exact this (List.mem_filterMap.mpr ⟨b, hb', hfb⟩)
    · rcases List.mem_cons.mp hb with rfl | hb'
      · exfalso
        rw [hfb] at h
        have := (List.nodup_cons.mp h).1
        exact this (List.mem_filterMap.mpr ⟨a, ha', hfa⟩)
      · cases hc : f c with
        | none => rw [hc] at h; exact ih h ha' hb'
        | some y => rw [hc] at h; exact ih (List.nodup_cons.mp h).2 ha' hb'

/-- With distinct frame ids, a fragment carried by "the" frame `X` was fed when frame `X` was accepted. -/
theorem refOn_fed {wire : List (List Nat)} {wt : List Nat} {pend : List Pending} {fed : List Datagram}
    (hn : IdsNodup wire)
    (X : Nat) (r : Nat × Nat) (h1 : RefOn wire wt pend X r) (h2 : Acc wire fed X) :
    ∃ d, RefDg pend r d ∧ d ∈ fed := by
  obtain ⟨j1, b1, T1, hj1, -, -, n1, dgs1, hd1, d, hdm, hr⟩ := h1
  have hb1 : b1 ∈ wire := List.mem_of_getElem? hj1
  obtain ⟨b2, hb2, n2, dgs2, hd2, hall⟩ := h2
  have e1 : dataId b1 = some X := by simp only [dataId, hd1]
  have e2 : dataId b2 = some X := by simp only [dataId, hd2]
  have := nodup_filterMap_inj dataId wire hn b1 b2 hb1 hb2 X e1 e2
  subst this
  rw [hd1] at hd2
  simp only [Option.some.injEq, Frame.data.injEq] at hd2
  obtain ⟨-, -, rfl⟩ := hd2
  exact ⟨d, hr, hall d hdm⟩

theorem sndF_frags {wire : List (List Nat)} {wt : List Nat} {pend : List Pending} {fed : List Datagram}
    {fq : FrameQ.State}
    (frs : List (Nat × Nat)) : ∀ (ps : PSend.State), SndF wire wt pend fed fq ps →
      (∀ r ∈ frs, ∃ d, RefDg pend r d ∧ d ∈ fed) →
      SndF wire wt pend fed fq (frs.foldl (fun ps (x : Nat × Nat) => ackFragment ps x.1 x.2) ps) := by
  induction frs with
  | nil => intro ps h _; exact h
  | cons x frs ih =>
    intro ps h hr
    simp only [List.foldl_cons]
    obtain ⟨d, hd1, hd2⟩ := hr x List.mem_cons_self
    refine ih _ ⟨h.w, h.fq, ainv_ackFragment h.a x.1 x.2, ?_⟩ (fun r hr' => hr r (List.mem_cons_of_mem _ hr'))
    exact ackedOk_ackFragment h.a h.acked x.1 x.2 d hd1 hd2

/-- **`handle_ack_frame` on the sending side**: if every group of the frame only names frames whose
datagrams were fed (`GroupP (Acc wire fed)`) and frame ids are not reused, the invariant of the sending
side is kept — in particular a fragment is marked acknowledged only if its datagram was fed. -/
theorem handleAckFrame_frm {wire : List (List Nat)} {wt : List Nat} {pend : List Pending} {fed : List Datagram}
    (s s' : State F) (fb pb : Nat) (acks : List AckGroup) (hn : IdsNodup wire)
    (hg : ∀ g ∈ acks, GroupP (Acc wire fed) g) (hj : SndF wire wt pend fed s.fq s.ps)
    (h : handleAckFrame s fb pb acks = .ok s') : SndF wire wt pend fed s'.fq s'.ps ∧ s'.aq = s.aq := by
  rw [handleAckFrame_eq] at h
  refine ackP_inv (SndF wire wt pend fed) (GroupP (Acc wire fed)) s s' fb pb acks _ _ _ ?_ ?_ ?_ hg hj h
  · intro fq ps g rtt fq' frs hJ hP hag
    obtain ⟨f1, f2⟩ := hJ.fq.ack g rtt frs hag
    obtain ⟨q2, frs2, e2, w2⟩ := WInv_ack fq g rtt hJ.w
    rw [hag] at e2
    simp only [Except.ok.injEq, Prod.mk.injEq] at e2
    obtain ⟨rfl, rfl⟩ := e2
    refine sndF_frags frs ps ⟨w2, f1, hJ.a, hJ.acked⟩ ?_
    intro r hr
    obtain ⟨i, hi, hb, hon⟩ := f2 r hr
    exact refOn_fed hn _ r hon (hP.2.2 i hi hb)
  · intro fq ps nb rtt fq' hJ hadv
    obtain ⟨q2, e2, w2⟩ := WInv_atw fq nb rtt hJ.w
    rw [hadv] at e2
    cases e2
    exact ⟨w2, hJ.fq.atw nb rtt hadv, hJ.a, hJ.acked⟩
  · intro fq ps rb ps' hJ hack
    obtain ⟨⟨dr, hwd⟩, _, _⟩ := acknowledge_suffix ps ps' rb hack
    refine ⟨hJ.w, hJ.fq, ainv_acknowledge hJ.a rb hack, ?_⟩
    intro w hw
    exact hJ.acked w (by rw [hwd]; exact List.mem_append_right _ hw)

/-- `handle_ack_frame` does not change `FrameLog::next_id()`. -/
theorem handleAckFrame_logNext (s s' : State F) (fb pb : Nat) (acks : List AckGroup)
    (h : handleAckFrame s fb pb acks = .ok s') : s'.fq.logNext = s.fq.logNext := by
  rw [handleAckFrame_eq] at h
  refine (ackP_inv (fun fq _ => fq.logNext = s.fq.logNext) (fun _ => True) s s' fb pb acks _ _ _ ?_ ?_ ?_
    (fun _ _ => trivial) rfl h).1
  · intro fq ps g rtt fq' frs hJ _ hag
    exact (ackGroup_logNext g rtt frs hag).trans hJ
  · intro fq ps nb rtt fq' hJ hadv
    exact (atw_logNext nb rtt hadv).trans hJ
  · intro fq ps rb ps' hJ _
    exact hJ

/-! ### the same at the level of fragment identities -/

/-- Every fragment marked acknowledged in the send window satisfies `Q` (identity of the packet in the
emission history, fragment id). -/
def AckedQ (Q : Nat × Nat → Prop) (ps : PSend.State) : Prop :=
  ∀ w ∈ ps.win, ∀ fid ∈ w.packet.acked, Q (w.packet.uid, fid)

theorem AckedQ.mono {Q Q' : Nat × Nat → Prop} {ps : PSend.State} (h : AckedQ Q ps)
    (hq : ∀ w ∈ ps.win, ∀ fid, Q (w.packet.uid, fid) → Q' (w.packet.uid, fid)) : AckedQ Q' ps :=
  fun w hw fid hfid => hq w hw fid (h w hw fid hfid)

theorem AckedQ.of_sub {Q : Nat × Nat → Prop} {ps ps' : PSend.State} (h : AckedQ Q ps)
    (hs : ∀ w ∈ ps'.win, w ∈ ps.win ∨ w.packet.acked = []) : AckedQ Q ps' := by
  intro w hw fid hfid
  rcases hs w hw with h1 | h1
  · exact h w h1 fid hfid
  · rw [h1] at hfid; cases hfid

/-- The sending side, identity level: the frame log consistent with the wire and its emission stamps,
every window entry's identity in `Win`, fragment flags only for fragments satisfying `Q`. -/
structure SndQ (wire : List (List Nat)) (wt : List Nat) (pend : List Pending) (Win : Nat → Prop)
    (Q : Nat × Nat → Prop) (fq : FrameQ.State) (ps : PSend.State) : Prop where
  fq : FqW wire wt pend fq
  inw : ∀ w ∈ ps.win, Win w.packet.uid
  acked : AckedQ Q ps

theorem sndQ_ackFragment {wire : List (List Nat)} {wt : List Nat} {pend : List Pending} {Win : Nat → Prop}
    {Q : Nat × Nat → Prop} {fq : FrameQ.State} {ps : PSend.State} (h : SndQ wire wt pend Win Q fq ps)
    (uid fid : Nat) (hq : Win uid → Q (uid, fid)) : SndQ wire wt pend Win Q fq (ackFragment ps uid fid) := by
  refine ⟨h.fq, ?_, ?_⟩
  · intro w' hw'
    simp only [ackFragment, List.mem_map] at hw'
    obtain ⟨w, hw, rfl⟩ := hw'
    split
    · exact h.inw w hw
    · exact h.inw w hw
  · intro w' hw' f hf
    simp only [ackFragment, List.mem_map] at hw'
    obtain ⟨w, hw, rfl⟩ := hw'
    by_cases hc : w.packet.uid = uid ∧ ¬ fid ∈ w.packet.acked
    · rw [if_pos hc] at hf ⊢
      have hf' : f ∈ fid :: w.packet.acked := hf
      show Q (w.packet.uid, f)
      rcases List.mem_cons.mp hf' with rfl | hf'
      · rw [hc.1]; exact hq (by rw [← hc.1]; exact h.inw w hw)
      · exact h.acked w hw f hf'
    · rw [if_neg hc] at hf ⊢
      exact h.acked w hw f hf

theorem sndQ_frags {wire : List (List Nat)} {wt : List Nat} {pend : List Pending} {Win : Nat → Prop}
    {Q : Nat × Nat → Prop} {fq : FrameQ.State}
    (frs : List (Nat × Nat)) : ∀ (ps : PSend.State), SndQ wire wt pend Win Q fq ps →
      (∀ r ∈ frs, Win r.1 → Q r) →
      SndQ wire wt pend Win Q fq (frs.foldl (fun ps (x : Nat × Nat) => ackFragment ps x.1 x.2) ps) := by
  induction frs with
  | nil => intro ps h _; exact h
  | cons x frs ih =>
    intro ps h hr
    simp only [List.foldl_cons]
    exact ih _ (sndQ_ackFragment h x.1 x.2 (hr x List.mem_cons_self))
      (fun r hr' => hr r (List.mem_cons_of_mem _ hr'))

/-- **`handle_ack_frame` on the sending side, identity level**: if every fragment `r` carried by a data
frame whose id satisfies `Acc`, emitted after the packet of `r`, satisfies `Q` (for packets of the send
window), and every group of the ack frame only names frames satisfying `Acc`, a fragment is marked
acknowledged only if it satisfies `Q`. -/
theorem handleAckFrame_frmQ {wire : List (List Nat)} {wt : List Nat} {pend : List Pending}
    (Acc : Nat → Prop) (Win : Nat → Prop) (Q : Nat × Nat → Prop)
    (s s' : State F) (fb pb : Nat) (acks : List AckGroup)
    (hlink : ∀ X r, RefOn wire wt pend X r → Acc X → Win r.1 → Q r)
    (hg : ∀ g ∈ acks, GroupP Acc g) (hj : SndQ wire wt pend Win Q s.fq s.ps)
    (h : handleAckFrame s fb pb acks = .ok s') : SndQ wire wt pend Win Q s'.fq s'.ps := by
  rw [handleAckFrame_eq] at h
  refine (ackP_inv (SndQ wire wt pend Win Q) (GroupP Acc) s s' fb pb acks _ _ _ ?_ ?_ ?_ hg hj h).1
  · intro fq ps g rtt fq' frs hJ hP hag
    obtain ⟨f1, f2⟩ := hJ.fq.ack g rtt frs hag
    refine sndQ_frags frs ps ⟨f1, hJ.inw, hJ.acked⟩ ?_
    intro r hr hwin
    obtain ⟨i, hi, hb, hon⟩ := f2 r hr
    exact hlink _ r hon (hP.2.2 i hi hb) hwin
  · intro fq ps nb rtt fq' hJ hadv
    exact ⟨hJ.fq.atw nb rtt hadv, hJ.inw, hJ.acked⟩
  · intro fq ps rb ps' hJ hack
    obtain ⟨⟨dr, hwd⟩, _, _⟩ := acknowledge_suffix ps ps' rb hack
    refine ⟨hJ.fq, ?_, ?_⟩
    · intro w hw
      exact hJ.inw w (by rw [hwd]; exact List.mem_append_right _ hw)
    · intro w hw
      exact hJ.acked w (by rw [hwd]; exact List.mem_append_right _ hw)

/-- Frame ids not reused: two wire positions holding data frames with the same id coincide. -/
theorem nodup_filterMap_idx {α β : Type} (f : α → Option β) (l : List α) (h : (l.filterMap f).Nodup) :
    ∀ (i j : Nat) (a b : α) (x : β), l[i]? = some a → l[j]? = some b → f a = some x → f b = some x → i = j := by
  induction l with
  | nil => intro i j a b x ha; cases ha
  | cons c l ih =>
    intro i j a b x ha hb hfa hfb
    rw [List.filterMap_cons] at h
    cases i with
    | zero =>
      cases j with
      | zero => rfl
      | succ j =>
        exfalso
        simp only [List.getElem?_cons_zero, Option.some.injEq] at ha
        subst ha
        simp only [List.getElem?_cons_succ] at hb
        rw [hfa] at h
        exact (List.nodup_cons.mp h).1 (List.mem_filterMap.mpr ⟨b, List.mem_of_getElem? hb, hfb⟩)
    | succ i =>
      simp only [List.getElem?_cons_succ] at ha
      cases j with
      | zero =>
        exfalso
        simp only [List.getElem?_cons_zero, Option.some.injEq] at hb
        subst hb
        rw [hfb] at h
        exact (List.nodup_cons.mp h).1 (List.mem_filterMap.mpr ⟨a, List.mem_of_getElem? ha, hfa⟩)
      | succ j =>
        simp only [List.getElem?_cons_succ] at hb
        have h' : (l.filterMap f).Nodup := by
          cases hc : f c with
          | none => rw [hc] at h; exact h
          | some y => rw [hc] at h; exact (List.nodup_cons.mp h).2
        rw [ih h' i j a b x ha hb hfa hfb]

/-! ### `flush` on the receiving side -/

theorem emitSyncFrame_aq (s s' : State F) (out : List (List Nat)) (st : Stage)
    (h : emitSyncFrame s = .ok (s', out, st)) : s'.aq = s.aq := by
  unfold emitSyncFrame at h
  simp only [] at h
  repeat' split at h
  all_goals first
    | (simp only [reduceCtorEq] at h; done)
    | (simp only [Except.ok.injEq, Prod.mk.injEq] at h
       obtain ⟨rfl, _, _⟩ := h
       rfl)

/-- **`flush` and the acknowledgement queue**: every frame `flush` emits that parses as an ack frame
was built by `emit_ack_frames` from groups pending in the queue (fewer than `2^16` per frame); the
groups left in the queue were pending before. -/
theorem flush_aq (G : AckGroup → Prop) (s s' : State F) (out : List (List Nat))
    (hE : ∀ g ∈ s.aq.entries, G g) (hf : flush s = .ok (s', out)) :
    (∀ g ∈ s'.aq.entries, G g) ∧
    ∀ b ∈ out, ∀ fb pb gs, decode b = some (.ack fb pb gs) → AckW G s.aq.baseId s.pr.baseId b := by
  have notData : ∀ b, (∃ id n dgs, b = encode (.data id n dgs)) → ∀ fb pb gs, decode b ≠ some (.ack fb pb gs) := by
    intro b ⟨i, n, dgs, h1⟩ fb pb gs hdec
    rw [h1] at hdec
    obtain ⟨_, _, _, hg⟩ := Codec.decode_encode_data_kind i n dgs _ hdec
    cases hg
  unfold flush at hf
  obtain ⟨a1, a2, _, _⟩ := emitAckFrames_groups G s hE
  generalize emitAckFrames s = r at hf a1 a2
  obtain ⟨s1, out1, st1⟩ := r
  simp only [] at hf a1 a2
  by_cases hst : st1 = .stop
  · rw [if_pos hst] at hf
    simp only [Except.ok.injEq, Prod.mk.injEq] at hf
    obtain ⟨rfl, rfl⟩ := hf
    exact ⟨a2, fun b hb _ _ _ _ => a1 b hb⟩
  · rw [if_neg hst] at hf
    cases hd : emitDataFrames s1 with
    | error t => rw [hd] at hf; cases hf
    | ok v =>
      obtain ⟨s2, out2, st2⟩ := v
      rw [hd] at hf
      simp only [] at hf
      have hsy := Uflow.SyncCycle.emitDataFrames_sync s1 s2 out2 st2 hd
      have haq2 : s2.aq = s1.aq := hsy.aq
      have hdat2 : ∀ f ∈ out2, ∃ id n dgs, f = encode (.data id n dgs) := hsy.data
      by_cases hst2 : st2 = .stop
      · rw [if_pos hst2] at hf
        simp only [Except.ok.injEq, Prod.mk.injEq] at hf
        obtain ⟨rfl, rfl⟩ := hf
        refine ⟨by rw [haq2]; exact a2, ?_⟩
        intro b hb fb pb gs hdec
        rcases List.mem_append.mp hb with hb | hb
        · exact a1 b hb
        · exact absurd hdec (notData b (hdat2 b hb) fb pb gs)
      · rw [if_neg hst2] at hf
        cases hsyn : emitSyncFrame s2 with
        | error t => rw [hsyn] at hf; cases hf
        | ok v3 =>
          obtain ⟨s3, out3, st3⟩ := v3
          rw [hsyn] at hf
          simp only [Except.ok.injEq, Prod.mk.injEq] at hf
          obtain ⟨rfl, rfl⟩ := hf
          obtain ⟨_, _, y3⟩ := emitSyncFrame_spec s2 _ out3 st3 hsyn
          have y4 := emitSyncFrame_aq s2 _ out3 st3 hsyn
          refine ⟨by rw [y4, haq2]; exact a2, ?_⟩
          intro b hb fb pb gs hdec
          rcases List.mem_append.mp hb with hb | hb
          · rcases List.mem_append.mp hb with hb | hb
            · exact a1 b hb
            · exact absurd hdec (notData b (hdat2 b hb) fb pb gs)
          · obtain ⟨nf, np, rfl⟩ := y3 b hb
            obtain ⟨_, _, hg⟩ := Codec.decode_encode_sync nf np _ hdec
            cases hg

end Uflow.HcFrm
