import Uflow.Lemmas.HcFlushOps
import Uflow.Lemmas.HcFlushBytes

/-!
C09Hc / C20Hc, part 4: what follows for a packet sender reached from `PSend.init` by packet sender
operations (`PsOps`): a ghost history with the C05 history invariant `HInv`, the window / history link
`WData`, and a plain `C20.run`.
-/

namespace Uflow.HcFlush

open Uflow Uflow.Gen Uflow.Codec Uflow.HalfConn Uflow.PSend Uflow.HcSys
open Uflow.Props.C20 (Op)
open Uflow.Rate (FloatOps)

variable {F : Type}

theorem psOps_init (w b a : Nat) (ps' : PSend.State) (newq : List QEntry)
    (h : PsOps (PSend.init w b a) ps' newq) :
    ∃ (sops : List Op) (hist : Hist), runH (PSend.init w b a) {} sops = .ok (ps', hist) ∧
      hist.enqueued = newq ∧ WData ps' hist ∧ Uflow.Props.C20.run (PSend.init w b a) sops = .ok ps' ∧
      (w < 2^20 → b < 2^20 → HInv b w ps' hist) := by
  obtain ⟨sops, hr⟩ := h
  obtain ⟨hist, hrun, hq⟩ := hr {}
  refine ⟨sops, hist, hrun, by simpa using hq, wdata_runH sops _ _ _ _ (wdata_init w b a) hrun, ?_,
    fun hw hb => hinv_run_init w b a hw hb sops ps' hist hrun⟩
  have := runH_state (PSend.init w b a) {} sops
  rw [hrun] at this
  exact this.symm

/-- The packet sender of a fresh half connection. -/
theorem init_ps (ops : FloatOps F) (c : Config) (now : Nat) (rng : Rng) :
    (HalfConn.init ops c now rng).ps = PSend.init c.txPacketWindowSize c.txPacketBaseId c.txAllocLimit := rfl

end Uflow.HcFlush
