import Uflow.Lemmas.EpRefuseInv

/-!
C07 (refusals), part 2: every `connect a` of a run completes a pending entry created by an accepted
SYN from `a`; refused SYNs and unknown addresses.
-/

namespace Uflow.EpRefuse

open Uflow Uflow.Gen Uflow.Codec Uflow.HalfConn Uflow.Endpoint Uflow.EpNoTrap

variable {H : Type}

/-- The operation applied after the run `sops` (from `Server.init`) delivers `connect a`: it is a
`step`, the event was emitted by a handshake ACK `(a, ackBytes)` of its arrivals matching the pending
entry `c` of `a`, and the values `n r al` of that entry are those of a SYN from `a` accepted at an
earlier moment `s1`: during `sops`, or earlier in the same datagram loop. -/
theorem connect_compatible (hc : HC H) (cfg : SrvConfig) (now : Nat) (rng : Rng) (sops : List SOp) (op : SOp)
    {s0 : Server H} {sent0 : List (Nat × List Nat)} {evs0 : List SEvent}
    (h0 : runS hc (Server.init cfg now rng) sops = .ok (s0, sent0, evs0))
    {s' : Server H} {sent : List (Nat × List Nat)} {evs : List SEvent}
    (h1 : s0.apply hc op = .ok (s', sent, evs)) (a : Nat) (hin : SEvent.connect a ∈ evs) :
    ∃ nowNs arrivals sA sentA preA ackBytes postA sK sentK c na n r al,
      op = .step nowNs arrivals ∧ s0.flushActive hc = .ok (sA, sentA) ∧
      arrivals = preA ++ (a, ackBytes) :: postA ∧
      sA.handleFrames hc preA ((nowNs - s0.timeBase) / 1000000) nowNs = .ok (sK, sentK) ∧
      decode (ackBytes.take MAX_FRAME_SIZE) = some (.hsAck na) ∧ sK.find a = some c ∧
      c.state = .pending na n r al (encode (.synAck n na (u32 cfg.ep.maxReceiveRate)
        (u32 cfg.ep.maxPacketSize) (u32 cfg.ep.maxReceiveAlloc))) ∧
      ∃ synBytes s1, SynOkAt cfg s1 a synBytes n r al ∧
        (HandledIn hc (Server.init cfg now rng) sops a synBytes s1 ∨
         ∃ pre1 post1 sent1, preA = pre1 ++ (a, synBytes) :: post1 ∧
           sA.handleFrames hc pre1 ((nowNs - s0.timeBase) / 1000000) nowNs = .ok (s1, sent1)) := by
  obtain ⟨rx, hsr⟩ := runS_SRun hc cfg sops (SRun.init (hc := hc) (cfg := cfg) now rng) h0
  have hw0 := hsr.WF
  have hev0 : NoConn s0.eventsOut := by rw [hsr.eventsOut_nil]; exact NoConn.nil
  obtain ⟨_, hcfg0, hp0⟩ := runS_pendG hc (cfg := cfg) sops (Server.init_WF cfg now rng) rfl
    (PendG.init (fun _ _ _ _ => False) cfg now rng) h0
  cases op with
  | step nowNs arr =>
    obtain ⟨sA, sentA, preA, ackBytes, postA, sK, sentK, c, na, rn, rate, alloc, e1, e2, e3, e4, e5, e6, e7, e8, e9⟩ :=
      Server.step_connect hc hw0 hev0 nowNs arr h1 a hin
    have w1 := Server.flushActive_wq hc hw0 e1
    obtain ⟨_, _, pK⟩ := frames_pendG hc w1.1 (w1.2.cfg.trans hcfg0) (hp0.quiet w1.2) preA _ nowNs e3
    obtain ⟨hcm, haddr⟩ := Server.find_some e7
    have hG := pK c hcm _ _ _ _ _ e8
    rw [haddr] at hG
    rw [hcfg0] at e8
    refine ⟨nowNs, arr, sA, sentA, preA, ackBytes, postA, sK, sentK, c, na, rn, rate, alloc, rfl, e1, e2, e3, e5, e7, e8, ?_⟩
    rcases hG with (hF | ⟨synBytes, s1, hin1, hok⟩) | ⟨pre1, synBytes, post1, s1, sent1, e, hfr, hok⟩
    · exact hF.elim
    · exact ⟨synBytes, s1, hok, Or.inl hin1⟩
    · exact ⟨synBytes, s1, hok, Or.inr ⟨pre1, post1, sent1, e, hfr⟩⟩
  | flush =>
    simp only [Server.apply, Server.flush] at h1
    split at h1
    · cases h1
    · cases h1; cases hin
  | drop addr => simp only [Server.apply, Except.ok.injEq, Prod.mk.injEq] at h1; obtain ⟨_, _, rfl⟩ := h1; cases hin
  | disconnect addr m => simp only [Server.apply, Except.ok.injEq, Prod.mk.injEq] at h1; obtain ⟨_, _, rfl⟩ := h1; cases hin
  | send addr data chan mode =>
    simp only [Server.apply, Except.ok.injEq, Prod.mk.injEq] at h1; obtain ⟨_, _, rfl⟩ := h1; cases hin

/-- Whole runs: a run that delivers `connect a` handled an accepted SYN from `a`. -/
theorem connect_compatible_run (hc : HC H) (cfg : SrvConfig) (now : Nat) (rng : Rng) (sops : List SOp)
    {s' : Server H} {sent : List (Nat × List Nat)} {evs : List SEvent}
    (hr : runS hc (Server.init cfg now rng) sops = .ok (s', sent, evs)) (a : Nat) (hin : SEvent.connect a ∈ evs) :
    ∃ synBytes s1 n r al, HandledIn hc (Server.init cfg now rng) sops a synBytes s1 ∧ SynOkAt cfg s1 a synBytes n r al := by
  obtain ⟨sops1, op, sops2, s0, sent0, evs0, sx, sentx, evsx, e1, e2, e3, e4⟩ := runS_event_split hc sops hr _ hin
  obtain ⟨nowNs, arr, sA, sentA, preA, ackBytes, postA, sK, sentK, c, na, n, r, al, rfl, hfl, harr, _, _, _, _,
    synBytes, s1, hok, hwhere⟩ := connect_compatible hc cfg now rng sops1 op e2 e3 a e4
  refine ⟨synBytes, s1, n, r, al, ?_, hok⟩
  rcases hwhere with h | ⟨pre1, post1, sent1, e, hfr⟩
  · rw [e1]; exact h.append _
  · subst harr e
    exact ⟨sops1, nowNs, pre1, post1 ++ (a, ackBytes) :: postA, sops2, s0, sent0, evs0, sA, sentA, sent1,
      by rw [e1]; simp, e2, hfl, hfr⟩

/-! ### addresses without a pending entry -/

/-- No pending entry for address `a` (no entry at all, or an entry in another state). -/
def NoPend (s : Server H) (a : Nat) : Prop := ∀ c ∈ s.clients, c.address = a → c.state.isPending = false

theorem NoPend.of_find_none {s : Server H} {a : Nat} (h : s.find a = none) : NoPend s a :=
  fun c hc ha => absurd ha (Server.find_none h c hc)

theorem NoPend.of_pendSub {s s' : Server H} {a : Nat} (h : NoPend s a)
    (hsub : ∀ c ∈ s'.clients, c.state.isPending = true → c ∈ s.clients) : NoPend s' a := by
  intro c hc ha
  cases hp : c.state.isPending with
  | false => rfl
  | true => rw [← hp]; exact h c (hsub c hc hp) ha

/-- A handshake ACK (any nonce) from an address without a pending entry does nothing. -/
theorem NoPend.hsAck_noop (hc : HC H) {s : Server H} {a : Nat} (h : NoPend s a) (na nowMs nowNs : Nat) :
    s.handleHsAck hc a na nowMs nowNs = s := by
  rcases Server.handleHsAck_cases hc s a na nowMs nowNs with ⟨he, _⟩ | ⟨c, rn, rate, alloc, reply, hf, hst, _⟩
  · exact he
  · obtain ⟨hcm, haddr⟩ := Server.find_some hf
    have := h c hcm haddr
    rw [hst] at this
    cases this

/-- One frame (from any address `b`) in a state without a pending entry for `a`: no `connect a` is
emitted and there still is no pending entry for `a` — unless the frame is a SYN from `a` itself that
passes every check of `handle_handshake_syn`. -/
theorem NoPend.frame (hc : HC H) {s : Server H} (hw : s.WF) {a : Nat} (h : NoPend s a) (b : Nat) (f : Frame)
    (nowMs nowNs : Nat) {s' : Server H} {sent : List (Nat × List Nat)}
    (hr : s.handleFrame hc b f nowMs nowNs = .ok (s', sent)) :
    (NoPend s' a ∧ (SEvent.connect a ∈ s'.eventsOut → SEvent.connect a ∈ s.eventsOut)) ∨
    (b = a ∧ ∃ n r p al, f = .syn PROTOCOL_VERSION n r p al ∧ s.find a = none ∧ Room s ∧
      s.cfg.ep.maxPacketSize ≤ al ∧ p ≤ s.cfg.ep.maxReceiveAlloc ∧ s' = s.accept a n r al nowMs) := by
  obtain ⟨hw1, hq | ⟨v, n, r, p, al, hfe, hfind, hfull, hs1, hsent⟩ | ⟨c, na, rn, rate, alloc, reply, hfe, hfind, hst, hs1, _⟩⟩ :=
    Server.handleFrame_wq hc hw b f nowMs nowNs hr
  · refine Or.inl ⟨h.of_pendSub hq.pendSub, fun hm => ?_⟩
    obtain ⟨new, hnew, hnc⟩ := hq.ev
    rw [hnew] at hm
    rcases List.mem_append.1 hm with hm | hm
    · exact hm
    · exact absurd hm (hnc a)
  · subst hfe hs1
    simp only [Server.handleFrame, Except.ok.injEq] at hr
    obtain ⟨hv, _, _, h1, h2⟩ := accept_only_if hr
    by_cases hba : b = a
    · subst hba hv
      exact Or.inr ⟨rfl, n, r, p, al, rfl, hfind, (room_iff s).2 hfull, by omega, by omega, rfl⟩
    · refine Or.inl ⟨?_, fun hm => hm⟩
      intro c hc ha
      rcases List.mem_append.1 (show c ∈ s.clients ++ [s.newEntry b n r al] from hc) with hc | hc
      · exact h c hc ha
      · have hce : c = s.newEntry b n r al := by simpa using hc
        subst hce
        exact absurd ha hba
  · subst hs1
    obtain ⟨hcm, haddr⟩ := Server.find_some hfind
    refine Or.inl ⟨h.of_pendSub (Server.activate_pendSub hc hw hcm na rn rate alloc nowMs nowNs), fun hm => ?_⟩
    rw [Server.activate_eventsOut] at hm
    rcases List.mem_append.1 hm with hm | hm
    · exact hm
    · have hca : c.address = a := by
        have := List.mem_singleton.1 hm
        injection this with h'
        exact h'.symm
      have := h c hcm hca
      rw [hst] at this
      cases this

end Uflow.EpRefuse
