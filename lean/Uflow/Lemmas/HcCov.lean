import Uflow.Lemmas.HcSysEmit
import Uflow.Lemmas.Modes

/-!
C01Hc (sync frames), sender side: every fragment of a Reliable packet of the send window is
acknowledged, or waiting in the pending queue, or scheduled in the resend queue (`CV`). So when
`emit_sync_frame` finds both queues empty, every fragment of every Reliable packet still in the send
window has been acknowledged at frame level.

`em` is the emission history with send modes (`PSend.mkEmitted`; position = packet `uid`).
-/

namespace Uflow.HcCov

open Uflow Uflow.Gen Uflow.Codec Uflow.HalfConn Uflow.PSend Uflow.HcSys Uflow.Heap
open Uflow.Modes (InPending InResend)
open Uflow.HcInv (dfePush_eq startNewG dfeFinalize_none dfeFinalize_some)

variable {F : Type}

/-- Coverage invariant of the transmit queues. -/
structure CV (em : List Emitted) (s : State F) : Prop where
  len : em.length = s.ps.nextUid
  uids : UidInv s.ps
  cov : ∀ w ∈ s.ps.win, ∀ x, em[w.packet.uid]? = some x → x.mode = .reliable →
    w.packet.expiry = none ∧ ∀ f, f ≤ w.packet.lastFragmentId →
      f ∈ w.packet.acked ∨ InPending s w.packet.uid f ∨ InResend s w.packet.uid f
  pf : ∀ pe ∈ s.pending, ∀ x, em[pe.uid]? = some x → x.mode = .reliable → pe.resend = true
  pu : ∀ pe ∈ s.pending, ∀ pe' ∈ s.pending, pe.uid = pe'.uid

theorem cv_init (ops : Rate.FloatOps F) (c : Config) (now : Nat) (rng : Rng) :
    CV [] (HalfConn.init ops c now rng) where
  len := rfl
  uids := uidInv_init _ _ _
  cov := by intro w hw; simp [HalfConn.init, PSend.init] at hw
  pf := by intro pe hpe; simp [HalfConn.init] at hpe
  pu := by intro pe hpe; simp [HalfConn.init] at hpe

/-- Only `ps`, `pending`, `resend` matter. -/
theorem CV.congr {em : List Emitted} {s s' : State F} (h : CV em s) (h1 : s'.ps = s.ps)
    (h2 : s'.pending = s.pending) (h3 : s'.resend = s.resend) : CV em s' where
  len := by rw [h1]; exact h.len
  uids := by rw [h1]; exact h.uids
  cov := by
    intro w hw x hx hrel
    rw [h1] at hw
    obtain ⟨c1, c2⟩ := h.cov w hw x hx hrel
    refine ⟨c1, fun f hf => ?_⟩
    rcases c2 f hf with c | c | c
    · exact Or.inl c
    · exact Or.inr (Or.inl (by unfold InPending at c ⊢; rw [h2]; exact c))
    · exact Or.inr (Or.inr (by unfold InResend at c ⊢; rw [h3]; exact c))
  pf := by rw [h2]; exact h.pf
  pu := by rw [h2]; exact h.pu

/-- The skip test of the emitter loops. -/
def Skip (ps : PSend.State) (u fid : Nat) : Prop :=
  findPacket ps u = none ∨ ∃ p, findPacket ps u = some p ∧ fid ∈ p.acked

theorem skip_acked {ps : PSend.State} (hu : UidInv ps) {u fid : Nat} (hs : Skip ps u fid) (w : WEntry)
    (hw : w ∈ ps.win) (hwu : w.packet.uid = u) : fid ∈ w.packet.acked := by
  rcases hs with hs | ⟨p, hp, ha⟩
  · exact absurd hwu (findPacket_none ps u hs w hw)
  · have := findPacket_of_mem ps hu w hw
    rw [hwu, hp] at this
    cases this
    exact ha

/-- Dropping a skipped entry from the resend queue. -/
theorem CV.popResend {em : List Emitted} {s : State F} (h : CV em s) (top : REntry) (h' : Array REntry)
    (hp : heapPop s.resend = some (top, h')) (hs : Skip s.ps top.uid top.fid) :
    CV em { s with resend := h' } where
  len := h.len
  uids := h.uids
  cov := by
    intro w hw x hx hrel
    obtain ⟨c1, c2⟩ := h.cov w hw x hx hrel
    refine ⟨c1, fun f hf => ?_⟩
    rcases c2 f hf with c | c | ⟨r, hr, hru, hrf⟩
    · exact Or.inl c
    · exact Or.inr (Or.inl c)
    · rcases (mem_heapPop s.resend h' top r hp).mp hr with rfl | hr'
      · left
        rw [← hrf]
        exact skip_acked h.uids hs w hw hru.symm
      · exact Or.inr (Or.inr ⟨r, hr', hru, hrf⟩)
  pf := h.pf
  pu := h.pu

/-- Re-scheduling a resent entry. -/
theorem CV.repush {em : List Emitted} {s : State F} (h : CV em s) (ent ne : REntry) (hh : Array REntry)
    (hp : heapPop s.resend = some (ent, hh)) (hu : ne.uid = ent.uid) (hf : ne.fid = ent.fid) :
    CV em { s with resend := heapPush hh ne } where
  len := h.len
  uids := h.uids
  cov := by
    intro w hw x hx hrel
    obtain ⟨c1, c2⟩ := h.cov w hw x hx hrel
    refine ⟨c1, fun f hf' => ?_⟩
    rcases c2 f hf' with c | c | ⟨r, hr, hru, hrf⟩
    · exact Or.inl c
    · exact Or.inr (Or.inl c)
    · right; right
      rcases (mem_heapPop s.resend hh ent r hp).mp hr with rfl | hr'
      · exact ⟨ne, (mem_heapPush hh ne ne).mpr (Or.inl rfl), by rw [hu]; exact hru, by rw [hf]; exact hrf⟩
      · exact ⟨r, (mem_heapPush hh ne r).mpr (Or.inr hr'), hru, hrf⟩
  pf := h.pf
  pu := h.pu

/-- Dropping a skipped entry from the front of the pending queue. -/
theorem CV.popPending {em : List Emitted} {s : State F} (h : CV em s) (entry : PEntry) (rest : List PEntry)
    (hp : s.pending = entry :: rest) (hs : Skip s.ps entry.uid entry.fid) :
    CV em { s with pending := rest } where
  len := h.len
  uids := h.uids
  cov := by
    intro w hw x hx hrel
    obtain ⟨c1, c2⟩ := h.cov w hw x hx hrel
    refine ⟨c1, fun f hf => ?_⟩
    rcases c2 f hf with c | ⟨pe, hpe, hpu, hpf⟩ | c
    · exact Or.inl c
    · rw [hp] at hpe
      rcases List.mem_cons.mp hpe with rfl | hpe'
      · left
        rw [← hpf]
        exact skip_acked h.uids hs w hw hpu.symm
      · exact Or.inr (Or.inl ⟨pe, hpe', hpu, hpf⟩)
    · exact Or.inr (Or.inr c)
  pf := fun pe hpe => h.pf pe (by rw [hp]; exact List.mem_cons_of_mem _ hpe)
  pu := fun pe hpe pe' hpe' => h.pu pe (by rw [hp]; exact List.mem_cons_of_mem _ hpe) pe'
    (by rw [hp]; exact List.mem_cons_of_mem _ hpe')

/-- Clearing the pending queue of an expired (TimeSensitive) packet. -/
theorem CV.clearPending {em : List Emitted} {s : State F} (h : CV em s) (entry : PEntry) (rest : List PEntry)
    (hp : s.pending = entry :: rest) (p : Pending) (hfp : findPacket s.ps entry.uid = some p)
    (f0 : Nat) (hexp : p.expired f0 = true) : CV em { s with pending := [] } where
  len := h.len
  uids := h.uids
  cov := by
    intro w hw x hx hrel
    obtain ⟨c1, c2⟩ := h.cov w hw x hx hrel
    refine ⟨c1, fun f hf => ?_⟩
    rcases c2 f hf with c | ⟨pe, hpe, hpu, hpf⟩ | c
    · exact Or.inl c
    · exfalso
      have huid : pe.uid = entry.uid := h.pu pe hpe entry (by rw [hp]; exact List.mem_cons_self)
      have := findPacket_of_mem s.ps h.uids w hw
      rw [← hpu, huid, hfp] at this
      cases this
      unfold Pending.expired at hexp
      rw [c1] at hexp
      cases hexp
    · exact Or.inr (Or.inr c)
  pf := by intro pe hpe; cases hpe
  pu := by intro pe hpe; cases hpe

/-- Sending the front entry of the pending queue: it moves to the resend queue iff `resend`. -/
theorem CV.sendPending {em : List Emitted} {s : State F} (h : CV em s) (entry : PEntry) (rest : List PEntry)
    (hp : s.pending = entry :: rest) (rt sc : Nat) :
    CV em (if entry.resend then
        { s with pending := rest,
                 resend := heapPush s.resend { uid := entry.uid, fid := entry.fid, resendTime := rt, sendCount := sc } }
      else { s with pending := rest }) := by
  have hpf' : ∀ pe ∈ rest, ∀ x, em[pe.uid]? = some x → x.mode = .reliable → pe.resend = true :=
    fun pe hpe => h.pf pe (by rw [hp]; exact List.mem_cons_of_mem _ hpe)
  have hpu' : ∀ pe ∈ rest, ∀ pe' ∈ rest, pe.uid = pe'.uid :=
    fun pe hpe pe' hpe' => h.pu pe (by rw [hp]; exact List.mem_cons_of_mem _ hpe) pe'
      (by rw [hp]; exact List.mem_cons_of_mem _ hpe')
  by_cases hr : entry.resend = true
  · rw [if_pos hr]
    refine ⟨h.len, h.uids, ?_, hpf', hpu'⟩
    intro w hw x hx hrel
    obtain ⟨c1, c2⟩ := h.cov w hw x hx hrel
    refine ⟨c1, fun f hf => ?_⟩
    rcases c2 f hf with c | ⟨pe, hpe, hpu, hpf⟩ | ⟨r, hr', hru, hrf⟩
    · exact Or.inl c
    · rw [hp] at hpe
      rcases List.mem_cons.mp hpe with rfl | hpe'
      · exact Or.inr (Or.inr ⟨_, (mem_heapPush _ _ _).mpr (Or.inl rfl), hpu, hpf⟩)
      · exact Or.inr (Or.inl ⟨pe, hpe', hpu, hpf⟩)
    · exact Or.inr (Or.inr ⟨r, (mem_heapPush _ _ _).mpr (Or.inr hr'), hru, hrf⟩)
  · rw [if_neg hr]
    refine ⟨h.len, h.uids, ?_, hpf', hpu'⟩
    intro w hw x hx hrel
    obtain ⟨c1, c2⟩ := h.cov w hw x hx hrel
    refine ⟨c1, fun f hf => ?_⟩
    rcases c2 f hf with c | ⟨pe, hpe, hpu, hpf⟩ | c
    · exact Or.inl c
    · rw [hp] at hpe
      rcases List.mem_cons.mp hpe with rfl | hpe'
      · exfalso
        exact hr (h.pf pe (by rw [hp]; exact List.mem_cons_self) x (by rw [hpu]; exact hx) hrel)
      · exact Or.inr (Or.inl ⟨pe, hpe', hpu, hpf⟩)
    · exact Or.inr (Or.inr c)

/-- The history records a call of `emit` appends. -/
def recOf (ps : PSend.State) (f : Nat) (r : Option (Pending × Bool)) : List Emitted :=
  (r.map fun v => mkEmitted ps f v.1).toList

/-- `emit` into an empty pending queue (`refill` of `emit_data_frames`). -/
theorem CV.refill {em : List Emitted} {s : State F} (h : CV em s) (hpe : s.pending = []) (f : Nat)
    (ps' : PSend.State) (r : Option (Pending × Bool)) (he : emit s.ps f = .ok (ps', r)) :
    CV (em ++ recOf s.ps f r)
      (match r with
       | none => { s with ps := ps' }
       | some (p, resend) =>
         { s with ps := ps', pending := (List.range (p.lastFragmentId + 1)).map fun i =>
             ({ uid := p.uid, fid := i, resend := resend } : PEntry) }) := by
  have hu' := uidInv_emit s.ps ps' f r he h.uids
  obtain ⟨dropped, queue, total, hq, hd, hcase⟩ := emit_spec s.ps ps' f r he
  rcases hcase with ⟨rfl, rfl⟩ | ⟨q, rest, p, resend, cp, hqq, rfl, hns, _, _, _, hpu, _, _, _, _, _, hexp, hres, rfl⟩
  · simp only [recOf, Option.map_none, Option.toList_none, List.append_nil]
    exact ⟨h.len, hu', fun w hw x hx hrel => by
      obtain ⟨c1, c2⟩ := h.cov w hw x hx hrel
      exact ⟨c1, c2⟩, h.pf, h.pu⟩
  · have hcons : consumed s.ps f = q := consumed_eq s.ps f dropped q rest (by rw [hq, hqq]) hd hns
    simp only [recOf, Option.map_some, Option.toList_some]
    refine ⟨?_, hu', ?_, ?_, ?_⟩
    · show (em ++ [mkEmitted s.ps f p]).length = s.ps.nextUid + 1
      rw [List.length_append, List.length_singleton, h.len]
    · intro w hw x hx hrel
      have hw' : w ∈ s.ps.win ++ [({ packet := p, allocSize := allocSize q.data.length, channelId := q.channelId } : WEntry)] := hw
      rcases List.mem_append.mp hw' with hw' | hw'
      · have hlt : w.packet.uid < em.length := by rw [h.len]; exact h.uids.2 w hw'
        rw [List.getElem?_append_left hlt] at hx
        obtain ⟨c1, c2⟩ := h.cov w hw' x hx hrel
        refine ⟨c1, fun f' hf' => ?_⟩
        rcases c2 f' hf' with c | ⟨pe, hpe', _, _⟩ | c
        · exact Or.inl c
        · rw [hpe] at hpe'; cases hpe'
        · exact Or.inr (Or.inr c)
      · rw [List.mem_singleton.mp hw'] at hx ⊢
        simp only [] at hx ⊢
        rw [hpu, ← h.len, List.getElem?_append_right (Nat.le_refl _), Nat.sub_self] at hx
        simp only [List.getElem?_cons_zero, Option.some.injEq] at hx
        subst hx
        have hmode : q.mode = .reliable := by
          have : (mkEmitted s.ps f p).mode = (consumed s.ps f).mode := rfl
          rw [this, hcons] at hrel
          exact hrel
        refine ⟨by rw [hexp, hmode]; rfl, fun f' hf' => ?_⟩
        right; left
        exact ⟨{ uid := p.uid, fid := f', resend := resend },
          List.mem_map.mpr ⟨f', List.mem_range.mpr (by omega), rfl⟩, rfl, rfl⟩
    · intro pe hpe' x hx hrel
      obtain ⟨i, _, rfl⟩ := List.mem_map.mp hpe'
      simp only [] at hx ⊢
      rw [hpu, ← h.len, List.getElem?_append_right (Nat.le_refl _), Nat.sub_self] at hx
      simp only [List.getElem?_cons_zero, Option.some.injEq] at hx
      subst hx
      have hmode : q.mode = .reliable := by
        have : (mkEmitted s.ps f p).mode = (consumed s.ps f).mode := rfl
        rw [this, hcons] at hrel
        exact hrel
      exact hres.mpr (Or.inr hmode)
    · intro pe hpe' pe' hpe''
      obtain ⟨i, _, rfl⟩ := List.mem_map.mp hpe'
      obtain ⟨j, _, rfl⟩ := List.mem_map.mp hpe''
      rfl

end Uflow.HcCov
