import Uflow.Lemmas.SysIdealDefs
import Uflow.Lemmas.SysPassAlloc

/-!
The ideal network (C05Sys), part 3: the fragments of one packet arriving in order `0, 1, …, last` on
its slot of the assembly window; genuine datagrams of an honest sender pass `datagram_is_valid`.
-/

namespace Uflow.Sys

open Uflow Uflow.Gen Uflow.Codec Uflow.PSend Uflow.PRecv Uflow.Frag

/-- The first `f` fragments of `p`, in order. -/
def firstFrags (p : Pending) (f : Nat) : List Datagram := (List.range f).map (mkDg p)

theorem firstFrags_succ (p : Pending) (f : Nat) : firstFrags p (f + 1) = firstFrags p f ++ [mkDg p f] := by
  unfold firstFrags
  rw [List.range_succ, List.map_append]; rfl

theorem feed_firstFrags (p : Pending) (hwf : WF p) (f : Nat) (hf : f ≤ cnt p) : Feed p (firstFrags p f) := by
  intro d hd
  obtain ⟨k, hk, rfl⟩ := List.mem_map.mp hd
  rw [List.mem_range] at hk
  exact Or.inl (genuine_mkDg p hwf k (by omega))

theorem complete_firstFrags (p : Pending) (hwf : WF p) (f : Nat) (hf : f ≤ cnt p) :
    Complete p (firstFrags p f) ↔ f = cnt p := by
  constructor
  · intro hc
    obtain ⟨d, hd, hdl⟩ := hc p.lastFragmentId (Nat.le_refl _)
    obtain ⟨k, hk, rfl⟩ := List.mem_map.mp hd
    rw [List.mem_range] at hk
    rw [datagram_mkDg p hwf p.lastFragmentId (by unfold cnt; omega)] at hdl
    have := congrArg Datagram.fragmentId (Except.ok.inj hdl)
    have hk' : p.lastFragmentId = k := this
    unfold cnt at hf ⊢
    omega
  · intro he k hk
    refine ⟨mkDg p k, ?_, datagram_mkDg p hwf k (by unfold cnt; omega)⟩
    exact List.mem_map.mpr ⟨k, by rw [List.mem_range, he]; unfold cnt; omega, rfl⟩

/-- Fragment `f` of `p` arrives on the slot that has seen exactly the fragments `0 … f-1`: `try_add`
hands over the packet iff this was the last fragment, and otherwise the slot has seen `0 … f`. -/
theorem tryAdd_ideal (p : Pending) (hwf : WF p) (s : PRecv.State) (i f : Nat) (hf : f < cnt p)
    (hopen : f = 0 → (getSlot s i).asm = .opened ∧ s.alloc + packetAllocSize (mkDg p 0) ≤ s.maxAlloc)
    (hpart : 0 < f → SlotInv p i (firstFrags p f) s) :
    ∃ s1 o, tryAdd s i (mkDg p f) = .ok (s1, o) ∧
      ((f + 1 = cnt p ∧ ∃ pk, o = some pk) ∨
       (f + 1 < cnt p ∧ o = none ∧ SlotInv p i (firstFrags p (f + 1)) s1)) := by
  rcases Nat.eq_zero_or_pos f with h0 | hpos
  · subst h0
    obtain ⟨hop, hroom⟩ := hopen rfl
    by_cases hlast : p.lastFragmentId = 0
    · obtain ⟨s', h1, -, -⟩ := tryAdd_opened_single s i (mkDg p 0) hop hroom hlast
      exact ⟨s', _, h1, Or.inl ⟨by unfold cnt; omega, _, rfl⟩⟩
    · obtain ⟨s', h1, h2⟩ := tryAdd_first p hwf (by omega) s i (mkDg p 0) hop hroom (genuine_mkDg p hwf 0 hf)
      refine ⟨s', none, h1, Or.inr ⟨by unfold cnt; omega, rfl, ?_⟩⟩
      rw [firstFrags_succ]
      exact h2
  · have hfeed := feed_firstFrags p hwf f (by omega)
    obtain ⟨s', o, h1, h2, h3, h4, -, -⟩ := tryAdd_step p hwf s i (firstFrags p f) hfeed (hpart hpos)
      (mkDg p f) (Or.inl (genuine_mkDg p hwf f hf))
    rw [← firstFrags_succ] at h2 h4
    refine ⟨s', o, h1, ?_⟩
    by_cases hl : f + 1 = cnt p
    · left
      refine ⟨hl, pktOf p, ?_⟩
      rw [h4]
      refine ⟨(complete_firstFrags p hwf (f + 1) (by omega)).mpr hl, ?_⟩
      intro hc
      have := (complete_firstFrags p hwf f (by omega)).mp hc
      omega
    · right
      refine ⟨by omega, ?_, h2⟩
      rcases h3 with h3 | h3
      · have := (h4.mp h3).1
        have := (complete_firstFrags p hwf (f + 1) (by omega)).mp this
        omega
      · exact h3

/-- A fragment of a packet with a valid channel and consistent parent leads passes
`datagram_is_valid`. -/
theorem valid_mkDg (p : Pending) (hwf : WF p) (f : Nat) (hf : f < cnt p) (hc : p.channelId < CHANNEL_COUNT)
    (hl : p.channelParentLead ≠ 0 → p.windowParentLead ≠ 0 ∧ p.windowParentLead ≤ p.channelParentLead) :
    datagramIsValid (mkDg p f) = true := by
  have hwf' : p.lastFragmentId = numFragments p.data.length - 1 := hwf
  unfold cnt at hf
  unfold datagramIsValid
  split
  · rename_i h
    have h' : p.channelId ≥ CHANNEL_COUNT := h
    omega
  split
  · rename_i h
    have h' : p.channelParentLead ≠ 0 ∧ (p.windowParentLead = 0 ∨ p.channelParentLead < p.windowParentLead) := h
    have := hl h'.1
    omega
  split
  · rename_i h
    have h' : f > p.lastFragmentId := h
    omega
  split
  · rename_i h
    have h' : f < p.lastFragmentId ∧ (frag p.data f).length ≠ MAX_FRAGMENT_SIZE := h
    exact absurd (length_frag_full p.data f (by omega)) h'.2
  split
  · rename_i h
    have h' : (frag p.data f).length > MAX_FRAGMENT_SIZE := h
    have := length_frag_le p.data f
    simp only [MAX_FRAGMENT_SIZE] at h'
    omega
  · rfl

end Uflow.Sys
