import Uflow.Model.PSend
import Uflow.Model.PRecv

/-!
Helper lemmas for C04 (fragmentation and reassembly are exact): slicing of a packet into
fragments (`PSend.Pending.datagram`) and the fragment buffer (`PRecv.FragBuf`).
-/

namespace Uflow.Frag

open Uflow Uflow.Gen Uflow.Codec Uflow.PSend Uflow.PRecv

/-- Payload of fragment `i` of `data`. -/
def frag (data : List Nat) (i : Nat) : List Nat := (data.drop (i * 1448)).take 1448

/-! ### arithmetic of `numFragments` -/

theorem numFragments_pos (n : Nat) : 1 ≤ numFragments n := by
  simp only [numFragments, MAX_FRAGMENT_SIZE]
  split <;> omega

theorem numFragments_zero : numFragments 0 = 1 := by
  simp [numFragments, MAX_FRAGMENT_SIZE]

theorem numFragments_le (n : Nat) (h : n ≤ MAX_PACKET_SIZE) : numFragments n ≤ 65536 := by
  simp only [numFragments, MAX_FRAGMENT_SIZE, MAX_PACKET_SIZE] at *
  split <;> omega

/-- All fragments but the last are full. -/
theorem full_below_last (n i : Nat) (h : i < numFragments n - 1) : i * 1448 + 1448 ≤ n := by
  simp only [numFragments, MAX_FRAGMENT_SIZE] at h
  split at h <;> omega

/-- The last fragment starts inside the packet and holds at most 1448 bytes. -/
theorem last_bounds (n : Nat) :
    (numFragments n - 1) * 1448 ≤ n ∧ n ≤ numFragments n * 1448 := by
  simp only [numFragments, MAX_FRAGMENT_SIZE]
  split <;> omega

/-! ### slicing -/

theorem length_frag_full (data : List Nat) (i : Nat) (h : i < numFragments data.length - 1) :
    (frag data i).length = 1448 := by
  have := full_below_last data.length i h
  simp only [frag, List.length_take, List.length_drop]
  omega

theorem length_frag_le (data : List Nat) (i : Nat) : (frag data i).length ≤ 1448 := by
  simp only [frag, List.length_take]
  omega

/-- Concatenating the first `k` slices gives the first `k * 1448` bytes. -/
theorem flatMap_frag_eq_take (data : List Nat) (k : Nat) :
    (List.range k).flatMap (frag data) = data.take (k * 1448) := by
  induction k with
  | zero => simp
  | succ k ih =>
    rw [List.range_succ, List.flatMap_append, ih, Nat.succ_mul, List.take_add]
    simp [frag]

theorem flatMap_frag (data : List Nat) (k : Nat) (h : data.length ≤ k * 1448) :
    (List.range k).flatMap (frag data) = data := by
  rw [flatMap_frag_eq_take, List.take_of_length_le h]

theorem flatMap_frag_numFragments (data : List Nat) :
    (List.range (numFragments data.length)).flatMap (frag data) = data :=
  flatMap_frag data _ (last_bounds data.length).2

/-- The sum of the fragment lengths is the packet length. -/
theorem sum_length_frag (data : List Nat) :
    ((List.range (numFragments data.length)).map (fun i => (frag data i).length)).sum = data.length := by
  have h := congrArg List.length (flatMap_frag_numFragments data)
  rw [List.length_flatMap] at h
  exact h

/-- `Pending.datagram` on a well-formed pending packet. -/
theorem datagram_ok (p : Pending) (hl : p.lastFragmentId = numFragments p.data.length - 1)
    (i : Nat) (hi : i ≤ p.lastFragmentId) :
    p.datagram i = .ok { sequenceId := p.sequenceId, channelId := p.channelId,
                         windowParentLead := p.windowParentLead, channelParentLead := p.channelParentLead,
                         fragmentId := i, fragmentIdLast := p.lastFragmentId, data := frag p.data i } := by
  have hb := last_bounds p.data.length
  simp only [Pending.datagram, MAX_FRAGMENT_SIZE, frag]
  by_cases hil : i = p.lastFragmentId
  · subst hil
    rw [if_pos rfl, if_neg (by omega)]
    congr 2
    rw [List.take_of_length_le]
    simp only [List.length_drop]
    omega
  · have : i < numFragments p.data.length - 1 := by omega
    have := full_below_last _ _ this
    rw [if_neg hil, if_neg (by omega)]

/-- `emit_packet` builds pending packets whose `lastFragmentId` is `numFragments - 1` (the `as u16`
truncation is the identity for packets within `MAX_PACKET_SIZE`). -/
theorem emit_wf (s s' : PSend.State) (f : Nat) (p : Pending) (r : Bool)
    (h : emit s f = .ok (s', some (p, r))) (hsz : p.data.length ≤ MAX_PACKET_SIZE) :
    p.lastFragmentId = numFragments p.data.length - 1 := by
  have key : ∀ n, n ≤ MAX_PACKET_SIZE → (numFragments n - 1) % 2 ^ 16 = numFragments n - 1 := by
    intro n hn
    have := numFragments_le n hn
    have := numFragments_pos n
    omega
  simp only [emit] at h
  split at h
  · cases h
  · split at h
    · cases h
    · split at h
      · cases h
      · split at h
        · cases h
        · split at h
          · cases h
          · simp only [Except.ok.injEq, Prod.mk.injEq, Option.some.injEq] at h
            obtain ⟨-, hp, -⟩ := h
            subst hp
            exact key _ hsz

/-! ### generic counting lemmas over `List.range` -/

theorem sum_map_zero (l : List Nat) : (l.map (fun _ => 0)).sum = 0 := by
  induction l with
  | nil => rfl
  | cons a l ih => simp [ih]

theorem flatMap_congr' {α β : Type} (l : List α) (f g : α → List β) (h : ∀ a ∈ l, f a = g a) :
    l.flatMap f = l.flatMap g := by
  induction l with
  | nil => rfl
  | cons a l ih =>
    simp only [List.flatMap_cons]
    rw [h a (by simp), ih (fun b hb => h b (by simp [hb]))]

theorem sum_map_range_congr (n : Nat) (g g' : Nat → Nat) (h : ∀ j, j < n → g' j = g j) :
    ((List.range n).map g').sum = ((List.range n).map g).sum := by
  rw [List.map_congr_left (fun j hj => h j (List.mem_range.mp hj))]

theorem sum_map_range_update (n i c : Nat) (g g' : Nat → Nat) (hi : i < n)
    (h1 : ∀ j, j ≠ i → g' j = g j) (h2 : g' i = g i + c) :
    ((List.range n).map g').sum = ((List.range n).map g).sum + c := by
  induction n with
  | zero => omega
  | succ n ih =>
    simp only [List.range_succ, List.map_append, List.sum_append_nat, List.map_cons, List.map_nil,
      List.sum_cons, List.sum_nil]
    by_cases hin : i = n
    · subst hin
      rw [sum_map_range_congr i g g' (fun j hj => h1 j (by omega)), h2]
      omega
    · rw [ih (by omega), h1 n (by omega)]
      omega

theorem countP_range_congr (n : Nat) (q q' : Nat → Bool) (h : ∀ j, j < n → q' j = q j) :
    (List.range n).countP q' = (List.range n).countP q :=
  List.countP_congr (fun j hj => by rw [h j (List.mem_range.mp hj)])

theorem countP_range_insert (n i : Nat) (q q' : Nat → Bool) (hi : i < n)
    (h1 : ∀ j, j ≠ i → q' j = q j) (h2 : q i = false) (h3 : q' i = true) :
    (List.range n).countP q' = (List.range n).countP q + 1 := by
  induction n with
  | zero => omega
  | succ n ih =>
    simp only [List.range_succ, List.countP_append, List.countP_singleton]
    by_cases hin : i = n
    · subst hin
      rw [countP_range_congr i q q' (fun j hj => h1 j (by omega)), h2, h3]
      simp
    · rw [ih (by omega), h1 n (by omega)]
      omega

theorem countP_range_lt (n i : Nat) (q : Nat → Bool) (hi : i < n) (h : q i = false) :
    (List.range n).countP q < n := by
  have hle : (List.range n).countP q ≤ (List.range n).length := List.countP_le_length
  rw [List.length_range] at hle
  have hne : (List.range n).countP q ≠ (List.range n).length := by
    intro he
    have := (List.countP_eq_length.mp he) i (List.mem_range.mpr hi)
    rw [h] at this
    exact Bool.noConfusion this
  rw [List.length_range] at hne
  omega

theorem countP_range_all (n : Nat) (q : Nat → Bool) (h : ∀ j, j < n → q j = true) :
    (List.range n).countP q = n := by
  have : (List.range n).countP q = (List.range n).length :=
    List.countP_eq_length.mpr (fun j hj => h j (List.mem_range.mp hj))
  rwa [List.length_range] at this

/-! ### `eraseDups` counts the distinct elements -/

theorem nodup_eraseDups (l : List Nat) : l.eraseDups.Nodup := by
  generalize hn : l.length = n
  induction n using Nat.strongRecOn generalizing l with
  | _ n ih =>
    cases l with
    | nil => simp
    | cons a as =>
      rw [List.eraseDups_cons, List.nodup_cons]
      constructor
      · simp [List.mem_eraseDups]
      · have hlen : (as.filter fun b => !b == a).length ≤ as.length := List.length_filter_le _ _
        simp only [List.length_cons] at hn
        exact ih _ (by omega) _ rfl

/-- The number of `j < n` occurring in `ws` is the number of distinct elements of `ws`
(all of which are `< n`). -/
theorem countP_mem_eq_eraseDups (n : Nat) (ws : List Nat) (h : ∀ i ∈ ws, i < n) :
    (List.range n).countP (fun j => decide (j ∈ ws)) = ws.eraseDups.length := by
  rw [List.countP_eq_length_filter]
  apply List.Perm.length_eq
  rw [List.perm_ext_iff_of_nodup (List.Nodup.sublist List.filter_sublist List.nodup_range)
    (nodup_eraseDups ws)]
  intro a
  simp only [List.mem_filter, List.mem_range, decide_eq_true_eq, List.mem_eraseDups]
  exact ⟨fun h => h.2, fun ha => ⟨h a ha, ha⟩⟩

/-! ### the fragment buffer -/

/-- Folding `FragBuf.write` over the index list `ws`, writing `frag data i` at index `i`. -/
def writes (data : List Nat) (b : FragBuf) : List Nat → R FragBuf
  | [] => .ok b
  | i :: ws =>
    match b.write i (frag data i) with
    | .error t => .error t
    | .ok b' => writes data b' ws

theorem writes_append (data : List Nat) (b : FragBuf) (ws vs : List Nat) :
    writes data b (ws ++ vs) =
      match writes data b ws with
      | .error t => .error t
      | .ok b' => writes data b' vs := by
  induction ws generalizing b with
  | nil => rfl
  | cons i ws ih =>
    simp only [List.cons_append, writes]
    cases b.write i (frag data i) with
    | error t => rfl
    | ok b' => exact ih b'

/-- Invariant of a buffer that receives fragments of `data`. -/
structure FBInv (data : List Nat) (b : FragBuf) : Prop where
  num : b.numFragments = numFragments data.length
  ent : ∀ e ∈ b.frags, e.2 = frag data e.1
  rem : b.remaining + (List.range b.numFragments).countP b.has = b.numFragments
  tot : b.totalSize =
    ((List.range b.numFragments).map (fun j => if b.has j then (frag data j).length else 0)).sum

theorem fbinv_new (data : List Nat) : FBInv data (FragBuf.new (numFragments data.length)) := by
  refine ⟨rfl, ?_, ?_, ?_⟩
  · intro e he
    simp [FragBuf.new] at he
  · have : (FragBuf.new (numFragments data.length)).has = fun _ => false := by
      funext j; simp [FragBuf.has, FragBuf.new]
    rw [this]
    simp [FragBuf.new]
  · have : (FragBuf.new (numFragments data.length)).has = fun _ => false := by
      funext j; simp [FragBuf.has, FragBuf.new]
    rw [this]
    simp [FragBuf.new, sum_map_zero]

theorem new_has (n j : Nat) : (FragBuf.new n).has j = false := by
  simp [FragBuf.has, FragBuf.new]

/-- "First write wins", in general: a write at an index that is already present is the identity. -/
theorem write_of_has (b : FragBuf) (i : Nat) (x : List Nat) (hi : i < b.numFragments)
    (h : b.has i = true) : b.write i x = .ok b := by
  simp only [FragBuf.write]
  rw [if_neg (by omega), if_pos h]

/-- After a successful write at `i`, index `i` is present and in range. -/
theorem write_ok_has (b b' : FragBuf) (i : Nat) (x : List Nat) (h : b.write i x = .ok b') :
    b'.has i = true ∧ b'.numFragments = b.numFragments ∧ i / 64 < (b.numFragments + 63) / 64 := by
  simp only [FragBuf.write] at h
  split at h
  · cases h
  · rename_i h1
    split at h
    · rename_i h2
      cases h
      exact ⟨h2, rfl, by omega⟩
    · split at h
      · cases h
      · split at h
        · cases h
        · cases h
          refine ⟨?_, rfl, by omega⟩
          simp [FragBuf.has]

/-- "First write wins": once index `i` has been written, any later write at `i` (any bytes)
returns the same buffer. -/
theorem write_write_same (b b' : FragBuf) (i : Nat) (x y : List Nat) (h : b.write i x = .ok b') :
    b'.write i y = .ok b' := by
  obtain ⟨h1, h2, h3⟩ := write_ok_has b b' i x h
  simp only [FragBuf.write]
  rw [if_neg (by omega), if_pos h1]

/-- One write of a genuine fragment: never traps, keeps the invariant, adds exactly index `i`. -/
theorem write_step (data : List Nat) (b : FragBuf) (i : Nat) (hinv : FBInv data b)
    (hi : i < numFragments data.length) :
    ∃ b', b.write i (frag data i) = .ok b' ∧ FBInv data b' ∧
      (∀ j, b'.has j = true ↔ (b.has j = true ∨ j = i)) := by
  obtain ⟨hnum, hent, hrem, htot⟩ := hinv
  by_cases hh : b.has i = true
  · refine ⟨b, write_of_has b i _ (by omega) hh, ⟨hnum, hent, hrem, htot⟩, ?_⟩
    intro j
    constructor
    · exact Or.inl
    · rintro (h | rfl)
      · exact h
      · exact hh
  · have hh' : b.has i = false := by simpa using hh
    have hlen := length_frag_le data i
    have hcnt := countP_range_lt b.numFragments i b.has (by omega) hh'
    let b' : FragBuf := { b with frags := b.frags ++ [(i, frag data i)], remaining := b.remaining - 1,
                                 totalSize := b.totalSize + (frag data i).length }
    have hhas : ∀ j, b'.has j = (b.has j || decide (i = j)) := by
      intro j
      simp [b', FragBuf.has, List.any_append]
    refine ⟨b', ?_, ⟨hnum, ?_, ?_, ?_⟩, ?_⟩
    · simp only [FragBuf.write]
      rw [if_neg (by omega), if_neg hh, if_neg (by simp only [MAX_FRAGMENT_SIZE]; omega),
        if_neg (by omega)]
    · intro e he
      simp only [b', List.mem_append, List.mem_singleton] at he
      rcases he with he | rfl
      · exact hent e he
      · rfl
    · show b.remaining - 1 + (List.range b.numFragments).countP b'.has = b.numFragments
      rw [countP_range_insert b.numFragments i b.has b'.has (by omega)
        (fun j hj => by rw [hhas]; simp [Ne.symm hj]) hh' (by rw [hhas]; simp)]
      omega
    · show b.totalSize + (frag data i).length = _
      rw [htot]
      symm
      apply sum_map_range_update b.numFragments i _ _ _ (by omega)
      · intro j hj
        show (if b'.has j = true then _ else _) = _
        rw [hhas]; simp [Ne.symm hj]
      · show (if b'.has i = true then _ else _) = _
        rw [hhas, hh']; simp
    · intro j
      rw [hhas]
      simp only [Bool.or_eq_true, decide_eq_true_eq]
      constructor
      · rintro (h | h)
        · exact Or.inl h
        · exact Or.inr h.symm
      · rintro (h | h)
        · exact Or.inl h
        · exact Or.inr h.symm

/-- Folding writes of genuine fragments (any order, any repetition): never traps, keeps the
invariant, and the indices present afterwards are those present before plus those in `ws`. -/
theorem writes_spec (data : List Nat) (b : FragBuf) (ws : List Nat) (hinv : FBInv data b)
    (hws : ∀ i ∈ ws, i < numFragments data.length) :
    ∃ b', writes data b ws = .ok b' ∧ FBInv data b' ∧
      (∀ j, b'.has j = true ↔ (b.has j = true ∨ j ∈ ws)) := by
  induction ws generalizing b with
  | nil => exact ⟨b, rfl, hinv, by simp⟩
  | cons i ws ih =>
    obtain ⟨b1, h1, hinv1, hhas1⟩ := write_step data b i hinv (hws i (by simp))
    obtain ⟨b2, h2, hinv2, hhas2⟩ := ih b1 hinv1 (fun k hk => hws k (by simp [hk]))
    refine ⟨b2, ?_, hinv2, ?_⟩
    · simp only [writes, h1]; exact h2
    · intro j
      rw [hhas2, hhas1]
      simp only [List.mem_cons]
      constructor
      · rintro ((h | h) | h)
        · exact Or.inl h
        · exact Or.inr (Or.inl h)
        · exact Or.inr (Or.inr h)
      · rintro (h | h | h)
        · exact Or.inl (Or.inl h)
        · exact Or.inl (Or.inr h)
        · exact Or.inr h

/-- `remaining` is the number of indices not yet present. -/
theorem fbinv_remaining (data : List Nat) (b : FragBuf) (hinv : FBInv data b) :
    b.remaining = numFragments data.length - (List.range (numFragments data.length)).countP b.has := by
  have := hinv.rem
  rw [hinv.num] at this
  omega

theorem fbinv_remaining_zero_iff (data : List Nat) (b : FragBuf) (hinv : FBInv data b) :
    b.remaining = 0 ↔ ∀ j, j < numFragments data.length → b.has j = true := by
  have hr := hinv.rem
  rw [hinv.num] at hr
  constructor
  · intro h0 j hj
    by_cases hh : b.has j = true
    · exact hh
    · have := countP_range_lt _ j b.has hj (by simpa using hh)
      omega
  · intro hall
    have := countP_range_all _ b.has hall
    omega

theorem chunk_of_has (data : List Nat) (b : FragBuf) (hinv : FBInv data b) (j : Nat)
    (hj : b.has j = true) :
    b.chunk j = frag data j ++ List.replicate (1448 - (frag data j).length) 0 := by
  simp only [FragBuf.chunk, MAX_FRAGMENT_SIZE]
  cases hf : b.frags.find? (fun e => decide (e.1 = j)) with
  | none =>
    rw [List.find?_eq_none] at hf
    simp only [FragBuf.has, List.any_eq_true] at hj
    obtain ⟨e, he, hej⟩ := hj
    exact absurd hej (hf e he)
  | some e =>
    have h1 := List.find?_some hf
    have h2 := List.mem_of_find?_eq_some hf
    have h3 := hinv.ent e h2
    simp only [decide_eq_true_eq] at h1
    obtain ⟨e1, e2⟩ := e
    simp only at h1 h3
    subst h1 h3
    rfl

/-- A complete buffer finalizes to the packet. -/
theorem finalize_complete (data : List Nat) (b : FragBuf) (hinv : FBInv data b)
    (hall : ∀ j, j < numFragments data.length → b.has j = true) : b.finalize = data := by
  have htot : b.totalSize = data.length := by
    rw [hinv.tot, hinv.num,
      sum_map_range_congr _ (fun j => (frag data j).length) _ (fun j hj => by simp [hall j hj])]
    exact sum_length_frag data
  have hpos := numFragments_pos data.length
  obtain ⟨m, hm⟩ : ∃ m, numFragments data.length = m + 1 := ⟨numFragments data.length - 1, by omega⟩
  have hflat : (List.range b.numFragments).flatMap b.chunk =
      data ++ List.replicate (1448 - (frag data m).length) 0 := by
    rw [hinv.num, hm, List.range_succ, List.flatMap_append]
    have h1 : (List.range m).flatMap b.chunk = (List.range m).flatMap (frag data) := by
      apply flatMap_congr'
      intro j hj
      have hjm := List.mem_range.mp hj
      rw [chunk_of_has data b hinv j (hall j (by omega)),
        length_frag_full data j (by omega)]
      simp
    rw [h1]
    simp only [List.flatMap_cons, List.flatMap_nil, List.append_nil]
    rw [chunk_of_has data b hinv m (hall m (by omega)), ← List.append_assoc]
    congr 1
    have := flatMap_frag_numFragments data
    rw [hm, List.range_succ, List.flatMap_append] at this
    simpa using this
  simp only [FragBuf.finalize]
  rw [hflat, htot, List.take_left]

/-- Theorem 2 in one statement, relative to an arbitrary buffer satisfying the invariant. -/
theorem writes_new (data : List Nat) (ws : List Nat)
    (hws : ∀ i ∈ ws, i < numFragments data.length) :
    ∃ b, writes data (FragBuf.new (numFragments data.length)) ws = .ok b ∧ FBInv data b ∧
      (∀ j, b.has j = true ↔ j ∈ ws) ∧
      b.remaining = numFragments data.length - ws.eraseDups.length := by
  obtain ⟨b, h1, hinv, hhas⟩ := writes_spec data _ ws (fbinv_new data) hws
  have hhas' : ∀ j, b.has j = true ↔ j ∈ ws := by
    intro j
    rw [hhas, new_has]
    simp
  refine ⟨b, h1, hinv, hhas', ?_⟩
  rw [fbinv_remaining data b hinv, ← countP_mem_eq_eraseDups _ ws hws]
  congr 1
  apply List.countP_congr
  intro j _
  rw [hhas']
  simp

end Uflow.Frag
