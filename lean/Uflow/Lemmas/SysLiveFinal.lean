import Uflow.Lemmas.SysLiveRound

/-!
Liveness of the composed system (C02Live), part 6: the `receive` call that ends a redelivery round.
When every emitted packet of the window is completely received or behind its channel's base id, the
delivery pass takes every Reliable packet out of the window and the window pass moves the base past
all emitted packets.
-/

namespace Uflow.Sys

open Uflow Uflow.Gen Uflow.Codec Uflow.PSend Uflow.PRecv Uflow.Frag

theorem pidAdd_eq_mod (b j : Nat) : pidAdd b j = (b + j) % 2^20 := by
  simp only [pidAdd, PACKET_ID_SPAN]; omega

/-- A packet behind its channel's base id: the log has a packet of that channel at or after it; if it
is that packet itself, its slot is closed. -/
theorem behind_log {b0 w W M : Nat} (hW : WOk W) (hw : w < 2^20) (hwW : w ≤ W) {t : Sys}
    (h : SInv b0 w W M t) (i c : Nat) (h1 : t.rcv.adv ≤ i) (h2 : i < t.hist.emitted.length)
    (hb : pidSub (pidAdd b0 i) t.rcv.st.baseId < pidSub (cbO t.rcv.st c) t.rcv.st.baseId) :
    ∃ e ∈ t.rcv.log, e.chan = c ∧ i ≤ e.uid ∧ e.uid < t.hist.emitted.length ∧
      (e.uid = i → ∃ a, (lget t.rcv.st.slots (wi W (pidAdd b0 i))).asm = .closed a) := by
  obtain ⟨q1, q2, q3⟩ := win_pos hw hwW h i h1 h2
  unfold cbO at hb
  cases hcb : cbase t.rcv.st c with
  | none =>
    rw [hcb] at hb
    simp only [Option.getD_none] at hb
    rw [pidSub_self] at hb
    exact absurd hb (Nat.not_lt_zero _)
  | some b =>
    rw [hcb] at hb
    simp only [Option.getD_some] at hb
    obtain ⟨e, he, hc, hu⟩ := h.rcv.gi.gcb c b hcb
    obtain ⟨pe, hpe, -⟩ := h.log e he
    have hlt : e.uid < t.hist.emitted.length := by
      rw [← h.snd.plen]; exact (List.getElem?_eq_some_iff.mp hpe).1
    refine ⟨e, he, hc, by omega, hlt, ?_⟩
    intro heq
    obtain ⟨c1, c2, c3⟩ := h.rcv.ord.cbr c b hcb
    have hsucc : pidAdd (pidAdd b0 i) 1 = b := by
      refine id_eq_of_off _ _ t.rcv.st.baseId (PRecv.pidAdd_lt _ _) c1 ?_
      rw [off_succ _ _ (by have := hW.le; omega)]
      omega
    exact (h.rcv.ord.cbd c b (pidAdd b0 i) hcb q1 hsucc).2

/-- After a round, every Reliable emitted packet of the window has its entry flag. -/
theorem rel_entry {b0 w W M : Nat} (hW : WOk W) (hw : w ≤ 2^16) (hwW : w ≤ W) {t : Sys}
    (h : SInv b0 w W M t) (l : LInv W t)
    (harr : ∀ i pk, t.pend[i]? = some pk → t.rcv.adv ≤ i → Arrived b0 W t i pk)
    (j : Nat) (x : Emitted) (hx : t.hist.emitted[j]? = some x) (hrel : x.mode = .reliable)
    (hj : t.rcv.adv ≤ j) : (lget t.rcv.st.slots (wi W (pidAdd b0 j))).entryFlag = true := by
  have hjlt : j < t.hist.emitted.length := (List.getElem?_eq_some_iff.mp hx).1
  have hplt : j < t.pend.length := by rw [h.snd.plen]; exact hjlt
  have hpk : t.pend[j]? = some t.pend[j] := List.getElem?_eq_getElem hplt
  obtain ⟨-, e, he, -, e2, -⟩ := h.snd.plink j _ hpk
  rw [hx] at he
  cases he
  rcases harr j _ hpk hj with hen | hbeh
  · exact hen
  obtain ⟨e, he, hc, hu1, hu2, hcl⟩ := behind_log hW (by omega) hwW h j _ hj hjlt hbeh
  rcases Nat.eq_or_lt_of_le hu1 with heq | hlt
  · obtain ⟨a, ha⟩ := hcl heq.symm
    exact l.rl.ce _ a ha
  · obtain ⟨l1, l2, hl⟩ := List.append_of_mem he
    rcases no_skip_aux hw h l1.length l1 e l2 rfl hl j x hx hrel (by rw [e2, hc]) hlt with
      ⟨e', he', hu⟩ | hwb
    · have hmem : e' ∈ t.rcv.log := by rw [hl]; exact List.mem_append.mpr (Or.inl he')
      have := l.lg e' hmem (by omega)
      rw [h.rcv.gi.gseq e' hmem, hu, ← pidAdd_eq_mod] at this
      exact this
    · have := (h.rcv.gi.gwin e he).2.2
      omega

/-- After a round, the last emitted packet (if the window has not passed it) has its entry flag. -/
theorem last_entry {b0 w W M : Nat} (hW : WOk W) (hw : w ≤ 2^16) (hwW : w ≤ W) {t : Sys}
    (h : SInv b0 w W M t) (l : LInv W t)
    (harr : ∀ i pk, t.pend[i]? = some pk → t.rcv.adv ≤ i → Arrived b0 W t i pk)
    (hlen : t.rcv.adv < t.hist.emitted.length) :
    (lget t.rcv.st.slots (wi W (pidAdd b0 (t.hist.emitted.length - 1)))).entryFlag = true := by
  generalize hL : t.hist.emitted.length - 1 = L
  have hLlt : L < t.hist.emitted.length := by omega
  have hplt : L < t.pend.length := by rw [h.snd.plen]; exact hLlt
  have hpk : t.pend[L]? = some t.pend[L] := List.getElem?_eq_getElem hplt
  rcases harr L _ hpk (by omega) with hen | hbeh
  · exact hen
  obtain ⟨e, he, hc, hu1, hu2, hcl⟩ := behind_log hW (by omega) hwW h L _ (by omega) hLlt hbeh
  obtain ⟨a, ha⟩ := hcl (by omega)
  exact l.rl.ce _ a ha

/-- After a round, `window_ready` is set unless the window has already passed every emitted packet. -/
theorem round_wready {b0 w W M : Nat} (hW : WOk W) (hw : w ≤ 2^16) (hwW : w ≤ W) {t : Sys}
    (h : SInv b0 w W M t) (l : LInv W t)
    (harr : ∀ i pk, t.pend[i]? = some pk → t.rcv.adv ≤ i → Arrived b0 W t i pk)
    (hlen : t.rcv.adv < t.hist.emitted.length) : t.rcv.st.windowReady = true := by
  cases hwr : t.rcv.st.windowReady with
  | true => rfl
  | false =>
    exfalso
    have key : ∀ u, t.rcv.adv ≤ u → u < t.hist.emitted.length →
        (lget t.rcv.st.slots (wi W (pidAdd b0 u))).entryFlag = true → False := by
      intro u
      induction u using Nat.strongRecOn with
      | _ u ih =>
        intro h1 h2 hen
        obtain ⟨q1, q2, q3⟩ := win_pos (by omega) hwW h u h1 h2
        have hfail : ¬ ((lget t.rcv.st.slots (wi W (pidAdd b0 u))).wpl = 0 ∨
            (lget t.rcv.st.slots (wi W (pidAdd b0 u))).wpl > pidSub (pidAdd b0 u) t.rcv.st.baseId) := by
          intro htest
          have := l.rl.wr _ q1 (by omega) hen htest
          rw [hwr] at this
          cases this
        obtain ⟨-, H2⟩ := hon_wpl hw h _ q1 (by omega) hen
        rw [q2] at hfail H2
        obtain ⟨m1, y, hy, hyrel⟩ := H2 (fun h0 => hfail (Or.inl h0))
        generalize (lget t.rcv.st.slots (wi W (pidAdd b0 u))).wpl = wpl at *
        have hpar : t.rcv.adv + (u - t.rcv.adv) - wpl = u - wpl := by omega
        rw [hpar] at hy
        have hen' := rel_entry hW hw hwW h l harr (u - wpl) y hy hyrel (by omega)
        exact ih (u - wpl) (by omega) (by omega) (by omega) hen'
    exact key (t.hist.emitted.length - 1) (by omega) (by omega) (last_entry hW hw hwW h l harr hlen)

end Uflow.Sys
