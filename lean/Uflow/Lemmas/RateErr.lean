import Uflow.Lemmas.RateEx

/-!
Complete classification of the traps of `step` (for arbitrary states), and a helper to evaluate
the trap of a concrete run.
-/

namespace Uflow.Rate

open Uflow.Gen

variable {F : Type}

theorem handleFeedback_error_cases {ops : FloatOps F} {s : State F} {now : Nat} {fb : Feedback F}
    {t : Trap} (hm : s.mode ≠ .awaitSend) (h : handleFeedback ops s now fb = .error t) :
    (t = .overflow ∧ fb.rateLimited = true ∧ ∃ e ∈ s.recvSet, now < e.ts) ∨
    (t = .overflow ∧ ∃ t0, s.mode = .slowStart (some t0) ∧ lossInc ops s fb = false ∧ now < t0) ∨
    (t = .hang ∧ ∃ ld, s.mode = .slowStart ld ∧ lossInc ops s fb = true ∧
      tcpInv ops (rttOf ops s fb) (ssTarget ops s fb ld) bisectFuel ops.zero ops.one
        = .error .hang) := by
  rw [handleFeedback_eq] at h
  cases hu : updOf ops s now fb with
  | error t' =>
    rw [hu] at h
    cases h
    exact Or.inl (updOf_error hu)
  | ok v =>
    obtain ⟨set, L⟩ := v
    rw [hu] at h
    simp only [] at h
    cases hmode : s.mode with
    | awaitSend => exact absurd hmode hm
    | eqn _ => rw [hmode] at h; cases h
    | slowStart ld =>
      rw [hmode] at h
      simp only [] at h
      cases hl : lossInc ops s fb with
      | true =>
        rw [hl] at h
        simp only [if_true] at h
        cases hp : tcpInv ops (rttOf ops s fb) (ssTarget ops s fb ld) bisectFuel ops.zero ops.one with
        | ok p => rw [hp] at h; cases h
        | error t' =>
          rw [hp] at h
          cases h
          have := tcpInv_error _ _ _ _ _ _ _ hp
          subst this
          exact Or.inr (Or.inr ⟨rfl, ld, rfl, rfl, hp⟩)
      | false =>
        rw [hl] at h
        simp only [Bool.false_eq_true, if_false] at h
        cases ld with
        | none => cases h
        | some t0 =>
          simp only [] at h
          by_cases h1 : now < t0
          · rw [if_pos h1] at h
            cases h
            exact Or.inr (Or.inl ⟨rfl, t0, rfl, rfl, h1⟩)
          · rw [if_neg h1] at h
            by_cases h2 : now - t0 ≥ ops.sToMs (rttOf ops s fb)
            · rw [if_pos h2] at h
              cases h
            · rw [if_neg h2] at h
              cases h

theorem nofeedbackExpired_error_cases {ops : FloatOps F} {s : State F} {now : Nat} {t : Trap}
    (hm : s.mode ≠ .awaitSend) (h : nofeedbackExpired ops s now = .error t) :
    t = .unwrap ∧ ∃ tcp, s.mode = .eqn tcp ∧ (s.rttS = none ∨ s.recvSet = []) := by
  rw [nofeedbackExpired_eq] at h
  cases hc : nfCore ops s now with
  | ok s1 => rw [hc] at h; cases h
  | error t' =>
    rw [hc] at h
    cases h
    unfold nfCore at hc
    cases hmode : s.mode with
    | awaitSend => exact absurd hmode hm
    | slowStart ld =>
      rw [hmode] at hc
      simp only [] at hc
      cases hr : s.rttS with
      | none => rw [hr] at hc; cases hc
      | some rtt =>
        rw [hr] at hc
        simp only [] at hc
        split at hc <;> cases hc
    | eqn tcp =>
      rw [hmode] at hc
      simp only [] at hc
      cases hr : s.rttS with
      | none =>
        rw [hr] at hc
        cases hc
        exact ⟨rfl, tcp, rfl, Or.inl rfl⟩
      | some rtt =>
        rw [hr] at hc
        simp only [] at hc
        cases hs : setMax s.recvSet with
        | error t' =>
          rw [hs] at hc
          cases hc
          have hnil := setMax_error hs
          rw [hnil] at hs
          cases hs
          exact ⟨rfl, tcp, rfl, Or.inr hnil⟩
        | ok recv =>
          rw [hs] at hc
          simp only [] at hc
          split at hc <;> cases hc

/-- **Every trap of `step`, for an arbitrary state.** There is no `panic`, `index` or `assert`
outcome; `overflow` needs time running backwards (the slow-start doubling saturates); `unwrap` needs an
equation-phase state without RTT or with an empty receive-rate set (unreachable, see `RateInv`);
`hang` is the bisection running out of fuel. -/
theorem step_error_cases {ops : FloatOps F} {s : State F} {now : Nat} {fb : Option (Feedback F)}
    {t : Trap} (h : step ops s now fb = .error t) :
    (t = .overflow ∧ ∃ fb', fb = some fb' ∧ fb'.rateLimited = true ∧ ∃ e ∈ s.recvSet, now < e.ts) ∨
    (t = .overflow ∧ ∃ fb' t0, fb = some fb' ∧ s.mode = .slowStart (some t0) ∧
      lossInc ops s fb' = false ∧ now < t0) ∨
    (t = .unwrap ∧ fb = none ∧ (∃ exp, s.nofeedbackExp = some exp ∧ exp ≤ now) ∧
      ∃ tcp, s.mode = .eqn tcp ∧ (s.rttS = none ∨ s.recvSet = [])) ∨
    (t = .hang ∧ ∃ fb' ld, fb = some fb' ∧ s.mode = .slowStart ld ∧ lossInc ops s fb' = true ∧
      tcpInv ops (rttOf ops s fb') (ssTarget ops s fb' ld) bisectFuel ops.zero ops.one
        = .error .hang) := by
  unfold step at h
  split at h
  · cases h
  · rename_i hm
    have hm' : s.mode ≠ .awaitSend := fun h' => hm h'
    cases fb with
    | some fb' =>
      simp only [] at h
      rcases handleFeedback_error_cases hm' h with ⟨h1, h2⟩ | ⟨h1, t0, h2, h3, h4⟩ |
        ⟨h1, ld, h2, h3, h4⟩
      · exact Or.inl ⟨h1, fb', rfl, h2⟩
      · exact Or.inr (Or.inl ⟨h1, fb', t0, rfl, h2, h3, h4⟩)
      · exact Or.inr (Or.inr (Or.inr ⟨h1, fb', ld, rfl, h2, h3, h4⟩))
    | none =>
      simp only [] at h
      cases he : s.nofeedbackExp with
      | none => rw [he] at h; cases h
      | some exp =>
        rw [he] at h
        simp only [] at h
        split at h
        · rename_i hexp
          cases hn : nofeedbackExpired ops s now with
          | ok s' => rw [hn] at h; cases h
          | error t' =>
            rw [hn] at h
            cases h
            obtain ⟨h1, h2⟩ := nofeedbackExpired_error_cases hm' hn
            exact Or.inr (Or.inr (Or.inl ⟨h1, rfl, ⟨exp, rfl, hexp⟩, h2⟩))
        · cases h

/-! ## evaluating concrete runs -/

/-- the trap of a result, if any. -/
def trapOf {α : Type} : R α → Option Trap
  | .ok _ => none
  | .error t => some t

theorem trapOf_eq_some {α : Type} {x : R α} {t : Trap} (h : trapOf x = some t) : x = .error t := by
  cases x with
  | ok _ => cases h
  | error t' => cases h; rfl

end Uflow.Rate
