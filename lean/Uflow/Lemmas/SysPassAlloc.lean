import Uflow.Lemmas.SysPassSum

/-!
The composed system (C01Sys), part 10: the allocation invariant `AInv`. The sender charges
`alloc_size(len)` for every packet of its window and never exceeds its limit; the receive window only
holds assembly entries of packets that are still in the send window, each charged at most the same
amount. So when the sender's limit is not above the receiver's, `try_add` never refuses a packet, and
every packet taken out of the receive window carries its payload.
-/

namespace Uflow.Sys

open Uflow Uflow.Gen Uflow.Codec Uflow.PSend Uflow.PRecv Uflow.Frag

/-- `alloc_size` of an emitted packet. -/
def asz (p : Pending) : Nat := allocSize p.data.length

/-- What the sender charges for the packet at emission position `u` (0 if not emitted yet). -/
def bnd (pend : List Pending) (u : Nat) : Nat :=
  match pend[u]? with
  | some p => asz p
  | none => 0

theorem bnd_mono (pend more : List Pending) (u : Nat) : bnd pend u ≤ bnd (pend ++ more) u := by
  unfold bnd
  cases h : pend[u]? with
  | none => exact Nat.zero_le _
  | some p =>
    rw [List.getElem?_append_left (List.getElem?_eq_some_iff.mp h).1, h]
    exact Nat.le_refl _

/-- Every slot of the window is charged at most what the sender charges for its packet. -/
def AL (W : Nat) (pend : List Pending) (adv : Nat) (st : PRecv.State) : Prop :=
  ∀ x, x < 2^20 → pidSub x st.baseId < W →
    fAlloc (lget st.slots (wi W x)) ≤ bnd pend (adv + pidSub x st.baseId)

/-- The allocation invariant (`A` the sender's allocation ceiling). -/
structure AInv (W A : Nat) (s : Sys) : Prop where
  al : AL W s.pend s.rcv.adv s.rcv.st
  /-- never refused: an undelivered packet has its payload -/
  nr : ∀ k, (lget s.rcv.st.slots k).dataFlag = true → (lget s.rcv.st.slots k).data ≠ none
  ld : ∀ e ∈ s.rcv.log, e.data ≠ none
  sacc : PSend.Inv s.snd
  swin : s.snd.win.map (·.allocSize) = (s.pend.drop (s.pend.length - s.snd.win.length)).map asz
  smax : s.snd.maxAlloc = A

theorem ainv_init (w W b a m : Nat) : AInv W (allocCeil a) (initS w W b a m) where
  al := by intro x _ _; exact Nat.zero_le _
  nr := by intro k hf; exact absurd hf (by simp [initS, initG, PRecv.init, lget])
  ld := by intro e he; cases he
  sacc := PSend.inv_init w b a
  swin := rfl
  smax := rfl

/-- The receiver has room for every packet of the send window that is not in its window yet. -/
theorem alloc_room {b0 w W M A : Nat} (hW : WOk W) {s : Sys} (h : SInv b0 w W M s) (a : AInv W A s)
    (hAM : A ≤ M) (t : Nat) (ht : t < W)
    (hop : (lget s.rcv.st.slots ((s.rcv.st.baseId + t) % W)).asm = .opened) :
    s.rcv.st.alloc + bnd s.pend (s.rcv.adv + t) ≤ s.rcv.st.maxAlloc := by
  have hinv := h.rcv.inv
  have h1 : s.rcv.st.alloc =
      rsum W (fun u => fAlloc (lget s.rcv.st.slots ((s.rcv.st.baseId + u) % W))) := by
    rw [hinv.aeq, lsum_eq_rsum fAlloc fAlloc_default W _ hinv.nodup hinv.klt]
    exact (rsum_rot W s.rcv.st.baseId (fun k => fAlloc (lget s.rcv.st.slots k)) hinv.wpos).symm
  have hpt : ∀ u, u < W → fAlloc (lget s.rcv.st.slots ((s.rcv.st.baseId + u) % W)) ≤
      bnd s.pend (s.rcv.adv + u) := by
    intro u hu
    have hu20 : u < 2^20 := by have := hW.le; omega
    have hx := PRecv.pidAdd_lt s.rcv.st.baseId u
    have hoff := pidSub_pidAdd_base s.rcv.st.baseId u hinv.blt hu20
    have := a.al (pidAdd s.rcv.st.baseId u) hx (by rw [hoff]; exact hu)
    rw [wi_eq_off hW _ s.rcv.st.baseId hinv.blt, hoff] at this
    exact this
  have hz : fAlloc (lget s.rcv.st.slots ((s.rcv.st.baseId + t) % W)) = 0 := by
    show aAlloc _ = 0
    rw [hop]; rfl
  have h2 := rsum_le_slack W (fun u => fAlloc (lget s.rcv.st.slots ((s.rcv.st.baseId + u) % W)))
    (fun u => bnd s.pend (s.rcv.adv + u)) t (bnd s.pend (s.rcv.adv + t)) hpt ht
    (by show fAlloc _ + _ ≤ _; rw [hz]; omega)
  have h3 : rsum W (fun u => bnd s.pend (s.rcv.adv + u)) ≤ ((s.pend.drop s.rcv.adv).map asz).sum := by
    have := rsum_getElem_le asz (s.pend.drop s.rcv.adv) W
    refine Nat.le_trans (Nat.le_of_eq (rsum_congr _ _ _ (fun u _ => ?_))) this
    show bnd s.pend (s.rcv.adv + u) = _
    unfold bnd
    rw [List.getElem?_drop]
    cases s.pend[s.rcv.adv + u]? <;> rfl
  have h4 := sum_drop_mono asz s.pend (s.pend.length - s.snd.win.length) s.rcv.adv
    (by rw [h.snd.plen]; exact h.lo)
  have h5 : s.snd.alloc = ((s.pend.drop (s.pend.length - s.snd.win.length)).map asz).sum := by
    rw [a.sacc.2, ← a.swin]; rfl
  have h6 := h.snd.hinv.alloc
  have h7 := a.smax
  have h8 := hinv.mal
  omega

/-! ### the steps -/

theorem ainv_deliver {b0 w W M A : Nat} (hW : WOk W) (hw : w < 2^20) (hAM : A ≤ M) {s s' : Sys}
    (h : SInv b0 w W M s) (a : AInv W A s) (k : Nat) (hs : stepS s (.deliver k) = .ok s') : AInv W A s' := by
  simp only [stepS] at hs
  split at hs
  · cases hs; exact a
  · rename_i i d hk
    split at hs
    · rename_i hfresh
      rw [stepT_dg] at hs
      cases hd : handleDatagram s.rcv.st d with
      | error t => rw [hd] at hs; cases hs
      | ok st' =>
        rw [hd, bindR_ok, bindR_ok] at hs
        cases hs
        have hinv := h.rcv.inv
        have hblt := hinv.blt
        obtain ⟨p, hp, hgen⟩ := h.snd.net i d (List.mem_of_getElem? hk)
        obtain ⟨hwf, e, he, -, -, hseq, -⟩ := h.snd.plink i p hp
        have hdseq : d.sequenceId = pidAdd b0 i := by
          obtain ⟨k0, hk0, hdk0⟩ := hgen
          rw [genuine_eq p hwf d k0 hk0 hdk0]
          show p.sequenceId = _
          rw [← hseq]; exact (h.snd.hinv.ids i e he).2.1
        obtain ⟨hw1, hw2, -, hw4, -⟩ := hinv_win h.snd.hinv hw
        have hilt : i < s.hist.emitted.length := (List.getElem?_eq_some_iff.mp he).1
        have hlo := h.lo
        have hpos : pidSub d.sequenceId s.rcv.st.baseId < W →
            s.rcv.adv + pidSub d.sequenceId s.rcv.st.baseId = i := by
          intro hlt
          rw [hdseq, h.rcv.gi.gbase] at hlt ⊢
          unfold Fresh at hfresh
          rw [hinv.wsz] at hfresh
          exact pos_arith b0 _ i w W hw (by omega) hfresh hlt
        rcases handleDatagram_cases hinv d hd with heq | ⟨hv, hin, hbase, s1, o, ht, hasm, hother, hnone, hsome⟩
        · subst heq
          exact ⟨a.al, a.nr, a.ld, a.sacc, a.swin, a.smax⟩
        · have hi := hpos hin
          have hbi : bnd s.pend i = packetAllocSize d := by
            unfold bnd
            rw [hp]
            exact (packetAllocSize_genuine p hwf d hgen).symm
          have hox : ∀ b, pidSub (d.sequenceId % 2^20) b = pidSub d.sequenceId b := fun b => pidSub_mod20 _ b
          have hwx : wi W (d.sequenceId % 2^20) = wi W d.sequenceId := wi_mod20 hW _
          have hsame : ∀ x, x < 2^20 → pidSub x s.rcv.st.baseId < W → wi W x = wi W d.sequenceId →
              pidSub x s.rcv.st.baseId = pidSub d.sequenceId s.rcv.st.baseId := by
            intro x hx hxo hwi
            rw [← hox]
            exact off_eq_of_wi hW x _ s.rcv.st.baseId hblt (by rw [hox]; omega) (by rw [hox]; omega)
              (by rw [hwx]; exact hwi)
          have hroom : (getSlot s.rcv.st (wi W d.sequenceId)).asm = .opened →
              s.rcv.st.alloc + packetAllocSize d ≤ s.rcv.st.maxAlloc := by
            intro hop
            rw [getSlot_eq, wi_eq_off hW _ s.rcv.st.baseId hblt] at hop
            have := alloc_room hW h a hAM _ hin hop
            rw [hi, hbi] at this
            exact this
          refine ⟨?_, ?_, a.ld, a.sacc, a.swin, a.smax⟩
          · intro x hx hxo
            have hxo' : pidSub x st'.baseId < W := hxo
            show fAlloc (lget st'.slots (wi W x)) ≤ bnd s.pend (s.rcv.adv + pidSub x st'.baseId)
            rw [hbase] at hxo' ⊢
            by_cases hwi : wi W x = wi W d.sequenceId
            · have hold := a.al x hx hxo'
              rw [hsame x hx hxo' hwi, hi] at hold ⊢
              rw [hwi] at hold ⊢
              have e1 : fAlloc (lget st'.slots (wi W d.sequenceId)) = fAlloc (lget s1.slots (wi W d.sequenceId)) := by
                show aAlloc _ = aAlloc _
                rw [hasm]
              rw [e1]
              rcases tryAdd_fAlloc _ _ _ _ _ ht with h1 | ⟨-, h2⟩
              · rw [h1]; exact hold
              · rw [hbi]; exact h2
            · rw [hother _ hwi]; exact a.al x hx hxo'
          · intro k0 hf
            have hf' : (lget st'.slots k0).dataFlag = true := hf
            show (lget st'.slots k0).data ≠ none
            by_cases hk0 : k0 = wi W d.sequenceId
            · subst hk0
              cases o with
              | none =>
                obtain ⟨n1, n2⟩ := hnone rfl
                rw [n2] at hf'
                rw [n1]
                exact a.nr _ hf'
              | some pk =>
                rw [hsome pk rfl]
                exact tryAdd_some_data _ _ _ _ _ ht hroom
            · rw [hother _ hk0] at hf' ⊢
              exact a.nr _ hf'
    · cases hs; exact a

theorem al_advance {W M : Nat} (hW : WOk W) {pend : List Pending} {adv : Nat} {s s' : PRecv.State}
    (hinv : Inv W M s) (ha : AL W pend adv s) (nb : Nat) (hnb : nb < 2^20)
    (hδ : pidSub nb s.baseId ≤ W) (hbase : s'.baseId = nb)
    (hA : ∀ k, (∀ id, id < 2^20 → pidSub id s.baseId < pidSub nb s.baseId → wi W id ≠ k) →
        core (lget s'.slots k) = core (lget s.slots k))
    (hB : ∀ id, id < 2^20 → pidSub id s.baseId < pidSub nb s.baseId →
        (lget s'.slots (wi W id)).entryFlag = false ∧ (lget s'.slots (wi W id)).dataFlag = false ∧
        (lget s'.slots (wi W id)).asm = .opened) :
    AL W pend (adv + pidSub nb s.baseId) s' := by
  have hle := hW.le
  have hblt := hinv.blt
  intro x hx hxo
  rw [hbase] at hxo ⊢
  have hun := off_unshift x s.baseId nb hblt hnb (by omega)
  rcases Nat.lt_or_ge (pidSub x s.baseId) W with hlt | hge
  · have hcore := hA (wi W x) (by
      intro id hid hido hwi
      have := off_eq_of_wi hW id x s.baseId hblt (by omega) (by omega) hwi
      omega)
    obtain ⟨-, -, -, -, e5, -⟩ := core_fields hcore
    have : fAlloc (lget s'.slots (wi W x)) = fAlloc (lget s.slots (wi W x)) := by
      show aAlloc _ = aAlloc _
      rw [e5]
    rw [this, show adv + pidSub nb s.baseId + pidSub x nb = adv + pidSub x s.baseId by omega]
    exact ha x hx hlt
  · have hidlt : pidSub x W < 2^20 := pidSub_lt _ _
    have hido : pidSub (pidSub x W) s.baseId + W = pidSub x s.baseId := by
      have h1 := pidSub_cases x s.baseId hx hblt
      have h2 := pidSub_cases (pidSub x W) s.baseId hidlt hblt
      have h3 := pidSub_cases x W hx (by omega)
      omega
    have hwi := wi_eq_of_off_add hW x _ s.baseId hblt hido.symm
    obtain ⟨-, -, b3⟩ := hB (pidSub x W) hidlt (by omega)
    have : fAlloc (lget s'.slots (wi W x)) = 0 := by
      show aAlloc _ = 0
      rw [hwi, b3]; rfl
    rw [this]
    exact Nat.zero_le _

theorem ainv_recv {b0 w W M A : Nat} (hW : WOk W) (hw : w ≤ 2^16) {s s' : Sys} (h : SInv b0 w W M s)
    (p : PInv W s) (a : AInv W A s) (hs : stepS s .recv = .ok s') : AInv W A s' := by
  simp only [stepS] at hs
  cases hg : stepT s.rcv .recv with
  | error t => rw [hg] at hs; cases hs
  | ok g =>
    rw [hg, bindR_ok] at hs
    cases hs
    rw [stepT_recv] at hg
    cases hr : receiveT s.rcv.st with
    | error t => rw [hr] at hg; cases hg
    | ok pr =>
      rw [hr, bindR_ok] at hg
      cases hg
      have hr' : receiveT s.rcv.st = .ok (pr.1, pr.2) := hr
      obtain ⟨s1, hinv1, hord1, -, hsh, -, -, hcontent, hcase⟩ :=
        receiveT_parts hW h.rcv.inv h.rcv.ord h.rcv.gi p.rdy (hon_of_sinv hw h) hr'
      have hal1 : AL W s.pend s.rcv.adv s1 := by
        intro x hx hxo
        rw [hsh.base] at hxo ⊢
        have : fAlloc (lget s1.slots (wi W x)) = fAlloc (lget s.rcv.st.slots (wi W x)) := by
          show aAlloc _ = aAlloc _
          rw [hsh.asm]
        rw [this]
        exact a.al x hx hxo
      have hnr1 : ∀ k, (lget s1.slots k).dataFlag = true → (lget s1.slots k).data ≠ none := by
        intro k hf
        obtain ⟨f1, f2⟩ := hsh.flag k hf
        rw [f2]; exact a.nr k f1
      have hld : ∀ e ∈ s.rcv.log ++ pr.2.map (lift s.rcv.adv s.rcv.st.baseId), e.data ≠ none := by
        intro e he
        rcases List.mem_append.mp he with he | he
        · exact a.ld e he
        · obtain ⟨ev, hev, rfl⟩ := List.mem_map.mp he
          obtain ⟨-, -, c3, c4⟩ := hcontent ev hev
          show ev.data ≠ none
          rw [c4]
          exact a.nr _ c3
      rcases hcase with ⟨-, heq⟩ | ⟨nb, hnb, hnbW, hadvw⟩
      · have heq' : pr.1 = s1 := heq
        have hz : pidSub pr.1.baseId s.rcv.st.baseId = 0 := by rw [heq', hsh.base, pidSub_self]
        refine ⟨?_, ?_, hld, a.sacc, a.swin, a.smax⟩
        · show AL W s.pend (s.rcv.adv + pidSub pr.1.baseId s.rcv.st.baseId) pr.1
          rw [hz, Nat.add_zero, heq']
          exact hal1
        · show ∀ k, (lget pr.1.slots k).dataFlag = true → (lget pr.1.slots k).data ≠ none
          rw [heq']
          exact hnr1
      · have hinv1' := hinv1.setWindowReady false
        have hord1' : Ord W { s1 with windowReady := false } := hord1.congr rfl rfl rfl rfl
        have hδ : pidSub nb ({ s1 with windowReady := false } : PRecv.State).baseId ≤ W := by
          show pidSub nb s1.baseId ≤ W; rw [hsh.base]; exact hnbW
        have F := advanceWindow_facts hW hinv1' hord1' nb hnb hδ hadvw
        obtain ⟨hA, hB⟩ := advanceWindow_core hW hinv1' hord1' nb hnb hδ hadvw
        have hbe : pr.1.baseId = nb := F.base
        have hal1' : AL W s.pend s.rcv.adv { s1 with windowReady := false } := hal1
        refine ⟨?_, ?_, hld, a.sacc, a.swin, a.smax⟩
        · show AL W s.pend (s.rcv.adv + pidSub pr.1.baseId s.rcv.st.baseId) pr.1
          have := al_advance hW hinv1' hal1' nb hnb hδ F.base hA hB
          rw [hbe, ← hsh.base]
          exact this
        · show ∀ k, (lget pr.1.slots k).dataFlag = true → (lget pr.1.slots k).data ≠ none
          intro k hf
          obtain ⟨f1, f2⟩ := F.flag k hf
          obtain ⟨-, -, -, -, -, e6⟩ := core_fields (hA k f2)
          rw [e6]
          exact hnr1 k f1

/-- `resynchronize` keeps the allocation invariant (a window advance as in `receive`, the sender
untouched). -/
theorem ainv_resync {b0 w W M A : Nat} (hW : WOk W) (hw : w < 2^20) {s s' : Sys} (h : SInv b0 w W M s)
    (a : AInv W A s) (k : Nat) (hs : stepS s (.resync k) = .ok s') : AInv W A s' := by
  simp only [stepS] at hs
  split at hs
  · cases hs; exact a
  · rename_i n id hk
    split at hs
    · rename_i hfresh
      rw [stepT_resync] at hs
      cases hr : resynchronize s.rcv.st id with
      | error t => rw [hr] at hs; cases hs
      | ok st' =>
        rw [hr, bindR_ok, bindR_ok] at hs
        cases hs
        rcases resync_cases hw h n id (List.mem_of_getElem? hk) hfresh st' hr with rfl | ⟨nb, hnb, -, hδ, hadv, -⟩
        · rw [pidSub_self]
          exact ⟨a.al, a.nr, a.ld, a.sacc, a.swin, a.smax⟩
        · have hinv := h.rcv.inv
          have hord := h.rcv.ord
          have F := advanceWindow_facts hW hinv hord nb hnb hδ hadv
          obtain ⟨hA, hB⟩ := advanceWindow_core hW hinv hord nb hnb hδ hadv
          refine ⟨?_, ?_, a.ld, a.sacc, a.swin, a.smax⟩
          · show AL W s.pend (s.rcv.adv + pidSub st'.baseId s.rcv.st.baseId) st'
            rw [F.base]
            exact al_advance hW hinv a.al nb hnb hδ F.base hA hB
          · show ∀ k, (lget st'.slots k).dataFlag = true → (lget st'.slots k).data ≠ none
            intro k hf
            obtain ⟨f1, f2⟩ := F.flag k hf
            obtain ⟨-, -, -, -, -, e6⟩ := core_fields (hA k f2)
            rw [e6]
            exact a.nr k f1
    · cases hs; exact a

theorem ainv_step {b0 w W M A : Nat} (hW : WOk W) (hw : w ≤ 2^16) (hAM : A ≤ M) {s s' : Sys}
    (h : SInv b0 w W M s) (p : PInv W s) (a : AInv W A s) (op : SOp) (hs : stepS s op = .ok s') :
    AInv W A s' := by
  have hw' : w < 2^20 := by omega
  cases op with
  | recv => exact ainv_recv hW hw h p a hs
  | deliver k => exact ainv_deliver hW hw' hAM h a k hs
  | resync k => exact ainv_resync hW hw' h a k hs
  | sync =>
    simp only [stepS] at hs
    split at hs
    · cases hs; exact ⟨a.al, a.nr, a.ld, a.sacc, a.swin, a.smax⟩
    · cases hs; exact a
  | enq d c m f =>
    simp only [stepS] at hs
    split at hs
    · simp only [stepH, bindR_ok] at hs
      cases hs
      exact ⟨a.al, a.nr, a.ld, PSend.inv_enqueue s.snd d c m f a.sacc, a.swin, a.smax⟩
    · cases hs; exact a
  | emit f =>
    simp only [stepS] at hs
    cases he : emit s.snd f with
    | error t =>
      have : stepH s.snd s.hist (.emit f) = .error t := by simp only [stepH, he]
      rw [this] at hs; cases hs
    | ok r =>
      obtain ⟨s1, o⟩ := r
      have hacc := PSend.inv_emit s.snd f a.sacc s1 o he
      obtain ⟨dropped, queue, total, hq, hd, hcase⟩ := emit_spec s.snd s1 f o he
      cases o with
      | none =>
        obtain ⟨hst, hem, hwin, -⟩ := sndInv_emit_none hw' h.snd f s1 he
        rw [hst, bindR_ok, hem] at hs
        simp only [Option.toList, List.append_nil, List.flatMap_nil] at hs
        cases hs
        rcases hcase with ⟨-, hs1⟩ | ⟨q, rest, p', resend, chanPar, -, hc, -⟩
        · refine ⟨a.al, a.nr, a.ld, hacc, ?_, ?_⟩
          · show s1.win.map (·.allocSize) = (s.pend.drop (s.pend.length - s1.win.length)).map asz
            rw [hwin]; exact a.swin
          · show s1.maxAlloc = A
            rw [hs1]; exact a.smax
        · cases hc
      | some pr =>
        obtain ⟨pk, rs⟩ := pr
        obtain ⟨hst, hem, hwin, -⟩ := sndInv_emit_some hw' h.snd f s1 pk rs he
        rw [hst, bindR_ok, hem] at hs
        simp only [Option.toList, List.flatMap_cons, List.flatMap_nil, List.append_nil] at hs
        cases hs
        rcases hcase with ⟨hc, -⟩ | ⟨q, rest, p', resend, chanPar, hqq, hc, -, -, -, -, -, hpd, -, -, -, -, -, -, hs1⟩
        · cases hc
        · simp only [Option.some.injEq, Prod.mk.injEq] at hc
          obtain ⟨rfl, rfl⟩ := hc
          obtain ⟨hw1, -⟩ := hinv_win h.snd.hinv hw'
          have hpl := h.snd.plen
          refine ⟨?_, a.nr, a.ld, hacc, ?_, ?_⟩
          · intro x hx hxo
            exact Nat.le_trans (a.al x hx hxo) (bnd_mono _ _ _)
          · show s1.win.map (·.allocSize) = ((s.pend ++ [pk]).drop ((s.pend ++ [pk]).length - s1.win.length)).map asz
            rw [hwin, List.length_append, List.length_singleton,
              show s.pend.length + 1 - (s.snd.win.length + 1) = s.pend.length - s.snd.win.length by omega,
              List.drop_append_of_le_length (by omega), List.map_append, ← a.swin, hs1]
            simp only [emitState, List.map_append, List.map_cons, List.map_nil, asz, hpd]
          · show s1.maxAlloc = A
            rw [hs1]; exact a.smax
  | ack k =>
    simp only [stepS] at hs
    split at hs
    · cases hs; exact a
    · rename_i a' rb hk
      split at hs
      · cases hr : stepH s.snd s.hist (.ack rb) with
        | error t => rw [hr] at hs; cases hs
        | ok r =>
          rw [hr, bindR_ok] at hs
          cases hs
          simp only [stepH] at hr
          cases ha : acknowledge s.snd rb with
          | error t => rw [ha] at hr; cases hr
          | ok s1 =>
            rw [ha] at hr
            cases hr
            obtain ⟨⟨dr, hwd⟩, -, -⟩ := acknowledge_suffix s.snd s1 rb ha
            obtain ⟨-, hmax⟩ := acknowledge_alloc s.snd s1 rb ha
            obtain ⟨hw1, -⟩ := hinv_win h.snd.hinv hw'
            have hpl := h.snd.plen
            refine ⟨a.al, a.nr, a.ld, PSend.inv_acknowledge s.snd rb a.sacc s1 ha, ?_, ?_⟩
            · show s1.win.map (·.allocSize) = (s.pend.drop (s.pend.length - s1.win.length)).map asz
              have h1 : (s.snd.win.map (·.allocSize)).drop dr.length = s1.win.map (·.allocSize) := by
                rw [hwd, List.map_append, List.drop_left' (by simp)]
              have hlen : s.snd.win.length = dr.length + s1.win.length := by rw [hwd, List.length_append]
              rw [← h1, a.swin, ← List.map_drop, List.drop_drop]
              congr 2
              omega
            · show s1.maxAlloc = A
              rw [hmax]; exact a.smax
      · cases hs; exact a

theorem ainv_run {b0 w W M A : Nat} (hW : WOk W) (hw : w ≤ 2^16) (hAM : A ≤ M) (ops : List SOp) :
    ∀ {s s' : Sys}, SInv b0 w W M s → PInv W s → AInv W A s → runS s ops = .ok s' → AInv W A s' := by
  induction ops with
  | nil => intro s s' _ _ a hr; cases hr; exact a
  | cons op rest ih =>
    intro s s' h p a hr
    rw [runS] at hr
    cases hs : stepS s op with
    | error t => rw [hs] at hr; cases hr
    | ok s1 =>
      rw [hs, bindR_ok] at hr
      exact ih (sinv_step hW (by omega) h op hs) (pinv_step hW hw h p op hs) (ainv_step hW hw hAM h p a op hs) hr

end Uflow.Sys
