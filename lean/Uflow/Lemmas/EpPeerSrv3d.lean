import Uflow.Lemmas.EpPeerSrv3c

/-!
C09, the peer endpoint's part (server model), per-address call trace: a whole `step`, one API call, whole runs.
-/

namespace Uflow.Endpoint

open Uflow.Gen Uflow.Codec Uflow.HalfConn

variable {H : Type}

/-- The events among the labels of a run. -/
def evsOfLabels (ls : List SLabel) : List SEvent := ls.filterMap fun | .ev e => some e | _ => none

theorem evsOfLabels_map (evs : List SEvent) : evsOfLabels (evs.map SLabel.ev) = evs := by
  induction evs with
  | nil => rfl
  | cons e es ih => simp only [List.map_cons, evsOfLabels, List.filterMap_cons] at ih ⊢; rw [ih]

theorem evsOfLabels_append (x y : List SLabel) : evsOfLabels (x ++ y) = evsOfLabels x ++ evsOfLabels y := by
  unfold evsOfLabels; exact List.filterMap_append ..

/-- The payloads of the `receive a` events delivered by a run, in order. -/
def recvAtL (a : Nat) (ls : List SLabel) : List (List Nat) := recvAt a (evsOfLabels ls)

/-- The traffic frames from `a` handed to the `step`s of a run, in arrival order. -/
def trafficAtOps (a : Nat) : List SOp → List Frame
  | [] => []
  | .step _ arr :: ops => trafficAt a arr ++ trafficAtOps a ops
  | _ :: ops => trafficAtOps a ops

/-- The `send`s to `a` of a run, in order. -/
def sendsAtOps (a : Nat) : List SOp → List SendRec
  | [] => []
  | .send b d ch m :: ops => (if b = a then [(d, ch, m)] else []) ++ sendsAtOps a ops
  | _ :: ops => sendsAtOps a ops

theorem trafficAtOps_cons (a : Nat) (op : SOp) (ops : List SOp) :
    trafficAtOps a (op :: ops) = trafficAtOps a [op] ++ trafficAtOps a ops := by
  cases op <;> simp [trafficAtOps]

theorem sendsAtOps_cons (a : Nat) (op : SOp) (ops : List SOp) :
    sendsAtOps a (op :: ops) = sendsAtOps a [op] ++ sendsAtOps a ops := by
  cases op <;> simp [sendsAtOps]

/-- With empty buffers before and after, `AT` is the bare trace relation with nothing reported. -/
theorem AT.toOT {hc : HC H} {a : Nat} {s s' : Server H} {cs : List HCall} {fr : List Frame} {sd : List SendRec}
    (x : AT hc a s s' cs fr sd) (he : s.eventsOut = []) (he' : s'.eventsOut = []) :
    OT hc (s.hcAt a) (s'.hcAt a) [] cs fr sd := by
  obtain ⟨-, evs, e, c⟩ := x
  rw [he, he'] at e
  have : evs = [] := by simpa using e.symm
  subst this
  rcases c with c | c
  · cases c
  · exact c

/-- A whole `step`, seen from `a`. -/
theorem Server.step_AT (hc : HC H) (a : Nat) (s s' : Server H) (hw : s.WF) (he : s.eventsOut = []) (nowNs : Nat)
    (arr sent : List (Nat × List Nat)) (evs : List SEvent) (h : s.step hc nowNs arr = .ok (s', sent, evs)) :
    s'.WF ∧ s'.eventsOut = [] ∧ ∃ cs, SEvent.connect a ∈ evs ∨
      OT hc (s.hcAt a) (s'.hcAt a) (recvAt a evs) cs (trafficAt a arr) [] := by
  obtain ⟨s1, o1, s2, o2, s4, s6, o6, p1, p2, p4, p6, rfl, rfl, -⟩ := Server.step_phases hc s s' nowNs arr sent evs h
  obtain ⟨cs1, t1⟩ := Server.flushActive_AT hc a s s1 hw o1 p1
  rw [Server.handleFrames_eq] at p2
  obtain ⟨cs2, t2⟩ := Server.frames_AT hc a (s.nowMs nowNs) nowNs arr s1 [] s2 o2 t1.1 p2
  have t3 := Server.runTimers_AT hc a (s.nowMs nowNs) (s2.timers.size * 12 + 16) s2 [] t2.1
  obtain ⟨cs4, t4⟩ := Server.activeTimeouts_AT hc a _ s4 t3.1 (s.nowMs nowNs) p4
  have key := fun (det : List (RClient H)) (hdet : det.Sublist s4.detached) => Server.retain_STr s4 t4.1 det hdet
  obtain ⟨cs6, t6⟩ := Server.stepActive_AT hc a _ s6 (key _ List.filter_sublist).wf _ nowNs o6 p6
  have t6' : AT hc a s4 s6 cs6 [] [] := t6
  obtain ⟨w, evs, e, c⟩ := ((t1.trans t2).trans t3).trans (t4.trans t6')
  rw [he, List.nil_append] at e
  rw [e]
  have hh : ({ s6 with eventsOut := [] } : Server H).hcAt a = s6.hcAt a := rfl
  refine ⟨w.congr rfl rfl rfl (fun _ h => h), rfl, cs1 ++ cs2 ++ [] ++ (cs4 ++ cs6), ?_⟩
  rw [hh]
  simpa using c

/-- One API call, seen from `a`. -/
theorem Server.apply_AT (hc : HC H) (a : Nat) (s s1 : Server H) (hw : s.WF) (he : s.eventsOut = []) (op : SOp)
    (o : List (Nat × List Nat)) (l : List SLabel) (h : s.apply hc op = .ok (s1, o, l)) :
    s1.WF ∧ s1.eventsOut = [] ∧ ∃ cs, SLabel.ev (.connect a) ∈ l ∨
      OT hc (s.hcAt a) (s1.hcAt a) (recvAtL a l) cs (trafficAtOps a [op]) (sendsAtOps a [op]) := by
  cases op with
  | step n arr =>
    simp only [Server.apply] at h
    split at h
    · cases h
    · next s' sent evs hs =>
      cases h
      obtain ⟨w, e, cs, c⟩ := Server.step_AT hc a s s1 hw he n arr o evs hs
      refine ⟨w, e, cs, c.imp (fun hm => List.mem_map_of_mem hm) fun t => ?_⟩
      simpa [recvAtL, evsOfLabels_map, trafficAtOps, sendsAtOps] using t
  | drop b =>
    cases h
    have t := Server.drop_AT hc s hw a b
    have e' : (s.drop b).eventsOut = [] := by rw [(Server.drop_tr s hw b).2.1, he]
    exact ⟨t.1, e', [], Or.inr (by simpa [recvAtL, evsOfLabels, recvAt, evsOf, trafficAtOps, sendsAtOps] using t.toOT he e')⟩
  | disconnect b m =>
    cases h
    have t := Server.disconnect_AT hc s hw a b m
    have e' : (s.disconnect b m).eventsOut = [] := by rw [(Server.disconnect_STr s hw b m).events, he]; rfl
    exact ⟨t.1, e', [], Or.inr (by simpa [recvAtL, evsOfLabels, recvAt, evsOf, trafficAtOps, sendsAtOps] using t.toOT he e')⟩
  | send b d ch m =>
    cases h
    obtain ⟨cs, t⟩ := Server.send_AT hc s hw a b d ch m
    have e' : (s.send hc b d ch m).eventsOut = [] := by rw [(Server.send_STr hc s hw b d ch m).events, he]; rfl
    exact ⟨t.1, e', cs, Or.inr (by simpa [recvAtL, evsOfLabels, recvAt, evsOf, trafficAtOps, sendsAtOps] using t.toOT he e')⟩
  | flush =>
    simp only [Server.apply, Server.flush] at h
    split at h
    · cases h
    · next s' sent hs =>
      cases h
      obtain ⟨cs, t⟩ := Server.flushActive_AT hc a s s1 hw o hs
      have e' : s1.eventsOut = [] := by rw [(Server.flushActive_STr hc s s1 hw o hs).events, he]; rfl
      exact ⟨t.1, e', cs, Or.inr (by simpa [recvAtL, evsOfLabels, recvAt, evsOf, trafficAtOps, sendsAtOps] using t.toOT he e')⟩

/-- Whole runs, seen from `a`, as long as no new `connect a` is delivered. -/
theorem Server.run_AT (hc : HC H) (a : Nat) (ops : List SOp) : ∀ (s s' : Server H) (sent : List (Nat × List Nat))
    (ls : List SLabel), s.WF → s.eventsOut = [] → Server.run hc s ops = .ok (s', sent, ls) →
    SLabel.ev (.connect a) ∉ ls →
    s'.WF ∧ s'.eventsOut = [] ∧ ∃ cs, OT hc (s.hcAt a) (s'.hcAt a) (recvAtL a ls) cs (trafficAtOps a ops) (sendsAtOps a ops) := by
  induction ops with
  | nil =>
    intro s s' sent ls hw he h _
    cases h
    exact ⟨hw, he, [], OT.refl hc _⟩
  | cons op ops ih =>
    intro s s' sent ls hw he h hnc
    simp only [Server.run] at h
    split at h
    · cases h
    · next s1 o1 l1 h1 =>
      split at h
      · cases h
      · next s2 o2 l2 h2 =>
        cases h
        obtain ⟨w1, e1, cs1, c1⟩ := Server.apply_AT hc a s s1 hw he op o1 l1 h1
        obtain ⟨w2, e2, cs2, t2⟩ := ih s1 s' o2 l2 w1 e1 h2 (fun hm => hnc (List.mem_append_right _ hm))
        rcases c1 with c1 | t1
        · exact absurd (List.mem_append_left _ c1) hnc
        · refine ⟨w2, e2, cs1 ++ cs2, ?_⟩
          rw [trafficAtOps_cons, sendsAtOps_cons]
          have := t1.trans t2
          simpa [recvAtL, evsOfLabels_append, recvAt_append] using this

end Uflow.Endpoint
