import Uflow.Props.C01Sys
import Uflow.Lemmas.HcFlushList

/-!
C09Hc, part 3: the packet-layer system `Sys`. A packet that has left the send window has been passed
by the receive window base; a Reliable one has been handed to the application first, byte-exact. With
an empty send queue and an empty send window, the Reliable payloads submitted on a channel, in
submission order, are a subsequence of the payloads delivered on that channel.
-/

namespace Uflow.HcFlush

open Uflow Uflow.Gen Uflow.Codec Uflow.PSend Uflow.PRecv Uflow.Sys
open Uflow.Props.C01Sys

/-- A packet that left the send window (emission position below `emitted.length - win.length`) has
been passed by the receive window base; if it is Reliable, `receive` took it out of the receive window
and handed its payload to the application before. -/
theorem sys_left_window (w k b a m : Nat) (hw : w ≤ 2^16) (hk : k ≤ 19) (hb : b < 2^20)
    (ham : allocCeil a ≤ allocCeil m) (sops : List SOp) (s : Sys)
    (hs : runS (initS w (2^k) b a m) sops = .ok s) (j : Nat)
    (hj : j < s.hist.emitted.length - s.snd.win.length) :
    j < s.rcv.adv ∧ ∀ x, s.hist.emitted[j]? = some x → x.mode = .reliable →
      ∃ e ∈ s.rcv.log, e.uid = j ∧ e.chan = x.channelId ∧ e.data = some x.data := by
  obtain ⟨_, _, _, _, hlo, _⟩ := C01_sys_link w k b a m (by omega) hk hb sops s hs
  have hadv : j < s.rcv.adv := by omega
  refine ⟨hadv, fun x hx hrel => ?_⟩
  obtain ⟨e, he, hu, hc, _⟩ := C02_sys_reliable_taken_before_passed w k b a m hw hk hb sops s hs j x hx hrel hadv
  obtain ⟨em, hem, hd⟩ := C01_sys_delivered_payload w k b a m hw hk hb ham sops s hs e he
  rw [hu, hx] at hem
  cases hem
  exact ⟨e, he, hu, hc, hd⟩

/-- Reliable queue entries of channel `c`. -/
def relChanQ (c : Nat) (q : QEntry) : Bool := decide (q.mode = .reliable ∧ q.channelId = c)

theorem relChanQ_notTS (c : Nat) (q : QEntry) (h : relChanQ c q = true) : notTS q = true := by
  simp only [relChanQ, decide_eq_true_eq] at h
  simp [notTS, h.1]

/-- With nothing queued, the Reliable submissions of a channel are the Reliable emissions of that
channel, in the same order. -/
theorem sys_reliable_emitted (w k b a m : Nat) (hw : w < 2^20) (hk : k ≤ 19) (hb : b < 2^20)
    (sops : List SOp) (s : Sys) (hs : runS (initS w (2^k) b a m) sops = .ok s)
    (hq : s.snd.queue = []) (c : Nat) :
    (s.hist.enqueued.filter (relChanQ c)).map QEntry.data =
      (s.hist.emitted.filter (fun x => relChanQ c x.toQ)).map Emitted.data := by
  have hinv := C01_sys_reach w k b a m hw hk hb sops s hs
  have ho := hinv.snd.hinv.order.2
  rw [hq, List.append_nil] at ho
  rw [← filter_filter_of_imp s.hist.enqueued notTS (relChanQ c) (relChanQ_notTS c), ho,
    filter_filter_of_imp _ notTS (relChanQ c) (relChanQ_notTS c), List.filter_map, List.map_map]
  rfl

/-- **Flush completeness in `Sys`.** If the send queue and the send window are empty, then for every
channel the Reliable payloads submitted on it, in submission order, form a subsequence of the payloads
`receive` handed to the application on that channel, in delivery order. -/
theorem sys_reliable_sublist (w k b a m : Nat) (hw : w ≤ 2^16) (hk : k ≤ 19) (hb : b < 2^20)
    (ham : allocCeil a ≤ allocCeil m) (sops : List SOp) (s : Sys)
    (hs : runS (initS w (2^k) b a m) sops = .ok s)
    (hq : s.snd.queue = []) (hwin : s.snd.win = []) (c : Nat) :
    ((s.hist.enqueued.filter (relChanQ c)).map QEntry.data).Sublist
      ((s.rcv.log.filter (fun e => decide (e.chan = c))).filterMap LogE.data) := by
  have hw' : w < 2^20 := by omega
  have hinv := C01_sys_reach w k b a m hw' hk hb sops s hs
  rw [sys_reliable_emitted w k b a m hw' hk hb sops s hs hq c]
  apply covered_sublist _ LogE.uid LogE.data s.hist.emitted Emitted.uid Emitted.data
  · intro j x hx
    exact (hinv.snd.hinv.ids j x hx).1
  · refine List.Pairwise.imp_of_mem ?_ (hinv.rcv.gi.gord.filter _)
    intro x y hx hy hxy
    have cx := (List.mem_filter.mp hx).2
    have cy := (List.mem_filter.mp hy).2
    simp only [decide_eq_true_eq] at cx cy
    exact hxy (by rw [cx, cy])
  · intro e he
    exact C01_sys_delivered_payload w k b a m hw hk hb ham sops s hs e (List.mem_filter.mp he).1
  · intro j x hx hp
    have hp := of_decide_eq_true (show decide (x.toQ.mode = .reliable ∧ x.toQ.channelId = c) = true from hp)
    simp only [Emitted.toQ] at hp
    have hj : j < s.hist.emitted.length - s.snd.win.length := by
      rw [hwin]; exact (List.getElem?_eq_some_iff.mp hx).1
    obtain ⟨e, he, hu, hc, _⟩ := (sys_left_window w k b a m hw hk hb ham sops s hs j hj).2 x hx hp.1
    exact ⟨e, List.mem_filter.mpr ⟨he, by simp only [decide_eq_true_eq]; rw [hc, hp.2]⟩, hu⟩

end Uflow.HcFlush
