import Uflow.Lemmas.HcSysSim
import Uflow.Lemmas.SysThm

/-!
C01Hc, part 9: in a run in which fewer than `2^19` packets are emitted, the two freshness clauses of
the schedule hypothesis `Guarded` hold automatically (every datagram handed to `B` is a fragment of an
emitted packet and every base id handed to `A` is a recorded base of `B`, by `PairInv`; the 20-bit ids
cannot have wrapped yet). What remains is the clause about packet resynchronization (`GuardedR`).
-/

namespace Uflow.HcSys

open Uflow Uflow.Gen Uflow.Codec Uflow.HalfConn Uflow.PSend Uflow.Sys
open Uflow.PRecv (bindR bindR_ok)
open Uflow.Rate (FloatOps)

variable {F : Type}

/-- The resynchronization clause of `OpOk` without its freshness part: a sync frame handed to `B`
carries no packet id, or one on which `PRecv.resynchronize` does nothing in `B`'s current state, or one
recorded in `syncs` (the frame was emitted while `SyncOkP` held). -/
def OpOkR (h : HcPair F) : POp → Prop
  | .deliverAB k => ∀ bytes, h.wireAB[k]? = some bytes →
      ∀ nf id, decode bytes = some (.sync nf (some id)) →
        PRecv.resynchronize h.B.pr id = .ok h.B.pr ∨ ∃ n, (n, id) ∈ h.syncs
  | _ => True

def GuardedR (fo : FloatOps F) : HcPair F → List POp → Prop
  | _, [] => True
  | h, op :: rest => OpOkR h op ∧ ∀ h', stepP fo h op = .ok h' → GuardedR fo h' rest

theorem guardedR_of_guarded (fo : FloatOps F) (sched : List POp) (h : HcPair F)
    (hg : Guarded fo h sched) : GuardedR fo h sched := by
  induction sched generalizing h with
  | nil => trivial
  | cons op rest ih =>
    obtain ⟨hok, hrest⟩ := hg
    refine ⟨?_, fun h' hs => ih h' (hrest h' hs)⟩
    cases op with
    | deliverAB k =>
      intro bytes hk nf id hd
      rcases (hok bytes hk).2 nf id hd with h1 | ⟨n, h2, _⟩
      · exact Or.inl h1
      · exact Or.inr ⟨n, h2⟩
    | deliverBA k => trivial
    | sendA d c m => trivial
    | flushA => trivial
    | stepA now => trivial
    | recvB => trivial
    | flushB => trivial
    | stepB now => trivial

theorem stepP_pend_mono (ops : FloatOps F) (h h' : HcPair F) (op : POp) (hs : stepP ops h op = .ok h') :
    h.pend.length ≤ h'.pend.length := by
  cases op with
  | sendA d c m =>
    simp only [stepP] at hs
    split at hs <;> (cases hs; exact Nat.le_refl _)
  | flushA =>
    simp only [stepP] at hs
    cases hf : flush h.A with
    | error t => rw [hf] at hs; cases hs
    | ok r => rw [hf, bindR_ok] at hs; cases hs; simp
  | stepA now =>
    simp only [stepP] at hs
    cases hf : step ops h.A now with
    | error t => rw [hf] at hs; cases hs
    | ok r => rw [hf, bindR_ok] at hs; cases hs; exact Nat.le_refl _
  | stepB now =>
    simp only [stepP] at hs
    cases hf : step ops h.B now with
    | error t => rw [hf] at hs; cases hs
    | ok r => rw [hf, bindR_ok] at hs; cases hs; exact Nat.le_refl _
  | flushB =>
    simp only [stepP] at hs
    cases hf : flush h.B with
    | error t => rw [hf] at hs; cases hs
    | ok r => rw [hf, bindR_ok] at hs; cases hs; exact Nat.le_refl _
  | recvB =>
    simp only [stepP] at hs
    cases hf : receive h.B with
    | error t => rw [hf] at hs; cases hs
    | ok r => rw [hf, bindR_ok] at hs; cases hs; exact Nat.le_refl _
  | deliverAB k =>
    simp only [stepP] at hs
    cases hk : h.wireAB[k]? with
    | none => rw [hk] at hs; cases hs; exact Nat.le_refl _
    | some bytes =>
      rw [hk] at hs
      simp only [] at hs
      cases hf : dispatch h.B (bytes.take MAX_FRAME_SIZE) with
      | error t => rw [hf] at hs; cases hs
      | ok r => rw [hf, bindR_ok] at hs; cases hs; exact Nat.le_refl _
  | deliverBA k =>
    simp only [stepP] at hs
    cases hk : h.wireBA[k]? with
    | none => rw [hk] at hs; cases hs; exact Nat.le_refl _
    | some bytes =>
      rw [hk] at hs
      simp only [] at hs
      cases hf : dispatch h.A (bytes.take MAX_FRAME_SIZE) with
      | error t => rw [hf] at hs; cases hs
      | ok r => rw [hf, bindR_ok] at hs; cases hs; exact Nat.le_refl _

theorem runP_pend_mono (ops : FloatOps F) (sched : List POp) (h h' : HcPair F)
    (hr : runP ops h sched = .ok h') : h.pend.length ≤ h'.pend.length := by
  induction sched generalizing h with
  | nil => cases hr; exact Nat.le_refl _
  | cons op rest ih =>
    rw [runP] at hr
    cases hs : stepP ops h op with
    | error t => rw [hs] at hr; cases hr
    | ok h1 =>
      rw [hs, bindR_ok] at hr
      exact Nat.le_trans (stepP_pend_mono ops h h1 op hs) (ih h1 hr)

/-- With fewer than `2^19` emitted packets the freshness clauses of `OpOk` follow from the invariants. -/
theorem opOk_of_few (w k b a m : Nat) (hw : w ≤ 2^19) (hk : k ≤ 19) (hb : b < 2^20) {h : HcPair F}
    {s : Sys} (sops : List SOp) (hreach : runS (initS w (2^k) b a m) sops = .ok s) (hi : PairInv h)
    (hr : Rel h s) (op : POp) (hor : OpOkR h op) (hfew : h.pend.length < 2^19) : OpOk h op := by
  have hinv := sinv_run (PRecv.wOk_pow k hk) (by omega : w < 2^20) sops
    (sinv_init w (2^k) b a m (Nat.two_pow_pos k) hb) hreach
  have hW : 2^k ≤ 2^19 := Nat.pow_le_pow_right (by decide) hk
  cases op with
  | deliverAB k' =>
    intro bytes hk'
    have h1 : h.advB ≤ h.pend.length := by
      rw [← hr.adv, ← hr.pend, ← hr.elen]; exact hinv.hi
    have h2 : h.B.pr.windowSize = 2^k := by rw [← hr.rcv]; exact hinv.rcv.inv.wsz
    refine ⟨?_, ?_⟩
    rotate_left
    · intro nf id hd
      rcases hor bytes hk' nf id hd with h3 | ⟨n, h3⟩
      · exact Or.inl h3
      · exact Or.inr ⟨n, h3, by omega⟩
    intro id nonce dgs hd _ d hm
    have hmem : bytes ∈ h.wireAB := List.mem_of_getElem? hk'
    obtain ⟨i, hfr⟩ := wire_decode_data (hi.wab bytes hmem) (fun d hg => genuine_ok hi.a d hg) id nonce dgs hd d hm
    refine ⟨i, hfr, ?_⟩
    have h1 : h.advB ≤ h.pend.length := by
      rw [← hr.adv, ← hr.pend, ← hr.elen]; exact hinv.hi
    have h2 : h.B.pr.windowSize = 2^k := by rw [← hr.rcv]; exact hinv.rcv.inv.wsz
    omega
  | deliverBA k' =>
    intro bytes hk' fb pb acks hd
    have hmem : bytes ∈ h.wireBA := List.mem_of_getElem? hk'
    obtain ⟨pb', ⟨a', ha⟩, he⟩ := wire_decode_ack (hi.wba bytes hmem) fb pb acks hd
    have hlt := hi.blt _ ha
    simp only [] at hlt
    have hpe : pb = pb' := by rw [he, Nat.mod_eq_of_lt (by omega)]
    have h2 : h.A.ps.windowSize = w := by
      have := hinv.snd.hinv.wsz
      rw [hr.snd] at this
      exact this
    refine ⟨a', by rw [hpe]; exact ha, ?_⟩
    omega
  | sendA d c m => trivial
  | flushA => trivial
  | stepA now => trivial
  | recvB => trivial
  | flushB => trivial
  | stepB now => trivial

theorem guarded_of_few (ops : FloatOps F) (w k b a m : Nat) (hw : w ≤ 2^19) (hk : k ≤ 19) (hb : b < 2^20)
    (sched : List POp) {h h' : HcPair F} {s : Sys} (sops : List SOp)
    (hreach : runS (initS w (2^k) b a m) sops = .ok s) (hi : PairInv h) (hr : Rel h s)
    (hg : GuardedR ops h sched) (hrun : runP ops h sched = .ok h') (hfew : h'.pend.length < 2^19) :
    Guarded ops h sched := by
  induction sched generalizing h s sops with
  | nil => trivial
  | cons op rest ih =>
    obtain ⟨hor, hrest⟩ := hg
    have hmono := runP_pend_mono ops _ h h' hrun
    have hok := opOk_of_few w k b a m hw hk hb sops hreach hi hr op hor (by omega)
    refine ⟨hok, ?_⟩
    intro h1 hs
    rw [runP, hs, bindR_ok] at hrun
    obtain ⟨sops1, s1, r1, hr1⟩ := sim_step ops hi hr op hok hs
    exact ih (sops ++ sops1) (by rw [runS_append, hreach, bindR_ok]; exact r1)
      (pairInv_step ops hi op hs) hr1 (hrest h1 hs) hrun

end Uflow.HcSys
