import Uflow.Lemmas.PSend
import Uflow.Lemmas.PSendAck

/-!
C03 (half connection): the packet-sender invariant `PsInv` under which `PSend.acknowledge`,
`PSend.emit` (and the total `ackFragment`, `enqueue`) cannot trap, for ARBITRARY arguments, and its
preservation. `FragOk ps uid fid`: the transmit-queue entry `(uid, fid)` names a fragment that
exists if its packet is still in the window (so `Pending.datagram` cannot slice out of range).
-/

namespace Uflow.PSend

open Uflow Uflow.Gen

/-- Sender invariant for trap freedom. -/
structure PsInv (ps : State) : Prop where
  acc : Uflow.PSend.Inv ps
  base_lt : ps.baseId < 2^20
  next_eq : ps.nextId = (ps.baseId + ps.win.length) % 2^20
  len_le : ps.win.length ≤ ps.windowSize
  wsz : ps.windowSize < 2^20
  chans : ps.chanParent.length = 64
  wchan : ∀ w ∈ ps.win, w.channelId < 64
  qchan : ∀ q ∈ ps.queue, q.channelId < 64
  slice : ∀ w ∈ ps.win, w.packet.lastFragmentId * 1448 ≤ w.packet.data.length

theorem psInv_init (w b a : Nat) (hw : w < 2^20) (hb : b < 2^20) : PsInv (init w b a) where
  acc := inv_init w b a
  base_lt := hb
  next_eq := by simp only [init, List.length_nil]; omega
  len_le := by simp [init]
  wsz := hw
  chans := by simp [init, CHANNEL_COUNT]
  wchan := by intro x hx; simp [init] at hx
  qchan := by intro x hx; simp [init] at hx
  slice := by intro x hx; simp [init] at hx

theorem psInv_enqueue (ps : State) (d : List Nat) (c : Nat) (m : SendMode) (f : Nat) (h : PsInv ps)
    (hc : c < 64) : PsInv (enqueue ps d c m f) where
  acc := inv_enqueue ps d c m f h.acc
  base_lt := h.base_lt
  next_eq := h.next_eq
  len_le := h.len_le
  wsz := h.wsz
  chans := h.chans
  wchan := h.wchan
  qchan := by
    intro q hq
    simp only [enqueue, List.mem_append, List.mem_singleton] at hq
    rcases hq with hq | rfl
    · exact h.qchan q hq
    · exact hc
  slice := h.slice

theorem psInv_ackFragment (ps : State) (u f : Nat) (h : PsInv ps) : PsInv (ackFragment ps u f) := by
  have hlen : (ackFragment ps u f).win.length = ps.win.length := by simp [ackFragment]
  have hmem : ∀ w ∈ (ackFragment ps u f).win, ∃ w0 ∈ ps.win, w.channelId = w0.channelId ∧
      w.packet.lastFragmentId = w0.packet.lastFragmentId ∧ w.packet.data = w0.packet.data := by
    intro w hw
    simp only [ackFragment, List.mem_map] at hw
    obtain ⟨w0, hw0, rfl⟩ := hw
    refine ⟨w0, hw0, ?_⟩
    split <;> exact ⟨rfl, rfl, rfl⟩
  exact {
    acc := inv_ackFragment ps u f h.acc
    base_lt := h.base_lt
    next_eq := by rw [hlen]; exact h.next_eq
    len_le := by rw [hlen]; exact h.len_le
    wsz := h.wsz
    chans := h.chans
    wchan := by
      intro w hw
      obtain ⟨w0, hw0, h1, _, _⟩ := hmem w hw
      rw [h1]; exact h.wchan w0 hw0
    qchan := h.qchan
    slice := by
      intro w hw
      obtain ⟨w0, hw0, _, h2, h3⟩ := hmem w hw
      rw [h2, h3]; exact h.slice w0 hw0 }

theorem psInv_foldl_ackFragment (frs : List (Nat × Nat)) (ps : State) (h : PsInv ps) :
    PsInv (frs.foldl (fun ps (x : Nat × Nat) => ackFragment ps x.1 x.2) ps) := by
  induction frs generalizing ps with
  | nil => exact h
  | cons x rest ih => exact ih _ (psInv_ackFragment ps x.1 x.2 h)

/-! ### `acknowledge` -/

theorem pid_arith_span (b len : Nat) (hb : b < 2^20) (hl : len < 2^20) :
    pidSub ((b + len) % 2^20) b = len := by
  simp only [pidSub, PACKET_ID_SPAN]; omega

/-- `ackLoop` from a state satisfying `PsInv`, towards a valid target at most `win.length` ahead. -/
theorem ackLoop_ok (fuel : Nat) (ps : State) (rb : Nat) (h : PsInv ps) (hrb : rb < 2^20)
    (hd : pidSub rb ps.baseId ≤ ps.win.length) (hf : pidSub rb ps.baseId < fuel) :
    ∃ ps', ackLoop fuel ps rb = .ok ps' ∧ PsInv ps' := by
  induction fuel generalizing ps with
  | zero => omega
  | succ n ih =>
    rw [ackLoop]
    by_cases hbr : ps.baseId = rb
    · rw [if_pos hbr]; exact ⟨ps, rfl, h⟩
    · rw [if_neg hbr]
      have hb := h.base_lt
      have hlen : ps.win.length < 2^20 := Nat.lt_of_le_of_lt h.len_le h.wsz
      have hdpos : 0 < pidSub rb ps.baseId := by
        simp only [pidSub, PACKET_ID_SPAN]; omega
      cases hw : ps.win with
      | nil => rw [hw] at hd; simp at hd; omega
      | cons e rest =>
        simp only []
        have he : e ∈ ps.win := by rw [hw]; simp
        have hch := h.wchan e he
        have hcl : e.channelId < ps.chanParent.length := by rw [h.chans]; exact hch
        rw [List.getElem?_eq_getElem hcl]
        simp only []
        obtain ⟨h1, h2⟩ := h.acc
        rw [hw] at h1 h2
        simp only [wBytes, wAlloc, List.map_cons, List.sum_cons] at h1 h2
        have ha : ¬ ps.alloc < e.allocSize := by omega
        have ht : ¬ ps.totalSize < e.packet.data.length := by omega
        rw [if_neg ha, if_neg ht]
        have hwl : ps.win.length = rest.length + 1 := by rw [hw]; rfl
        apply ih
        · refine {
            acc := ?_, base_lt := ?_, next_eq := ?_, len_le := ?_, wsz := h.wsz, chans := ?_,
            wchan := ?_, qchan := h.qchan, slice := ?_ }
          · simp only [Inv, wBytes, wAlloc]
            constructor <;> omega
          · simp only [pidAdd, PACKET_ID_SPAN]; omega
          · have := h.next_eq
            simp only [pidAdd, PACKET_ID_SPAN]
            rw [this, hwl]; omega
          · have := h.len_le; simp only []; omega
          · simp only []
            split
            · rw [List.length_set]; exact h.chans
            · exact h.chans
          · intro w hw'; exact h.wchan w (by rw [hw]; exact List.mem_cons_of_mem _ hw')
          · intro w hw'; exact h.slice w (by rw [hw]; exact List.mem_cons_of_mem _ hw')
        · simp only [pidAdd, pidSub, PACKET_ID_SPAN] at hd hdpos ⊢
          rw [hwl] at hd
          omega
        · simp only [pidAdd, pidSub, PACKET_ID_SPAN] at hf hdpos ⊢
          omega

/-- `acknowledge` with an ARBITRARY receiver base id never traps and preserves `PsInv`. -/
theorem acknowledge_ok (ps : State) (rb : Nat) (h : PsInv ps) :
    ∃ ps', acknowledge ps rb = .ok ps' ∧ PsInv ps' := by
  unfold acknowledge
  by_cases hv : rb % 2^32 % PACKET_ID_SPAN ≠ rb
  · rw [if_pos hv]; exact ⟨ps, rfl, h⟩
  · rw [if_neg hv]
    simp only []
    have hlen : ps.win.length < 2^20 := Nat.lt_of_le_of_lt h.len_le h.wsz
    have hspan : pidSub ps.nextId ps.baseId = ps.win.length := by
      rw [h.next_eq]; exact pid_arith_span _ _ h.base_lt hlen
    rw [hspan]
    by_cases hd : pidSub rb ps.baseId > ps.win.length
    · rw [if_pos hd]; exact ⟨ps, rfl, h⟩
    · rw [if_neg hd]
      have hrb : rb < 2^20 := by
        simp only [PACKET_ID_SPAN, Decidable.not_not] at hv; omega
      exact ackLoop_ok _ ps rb h hrb (by omega) (by omega)

/-! ### `emit` -/

theorem dropStale_queue_sub (f : Nat) (q q' : List QEntry) (t t' : Nat)
    (h : dropStale f q t = .ok (q', t')) : ∀ x ∈ q', x ∈ q := by
  obtain ⟨dropped, h1, _⟩ := dropStale_prefix f q q' t t' h
  intro x hx
  rw [h1]; exact List.mem_append_right _ hx

/-- `emit` never traps under `PsInv` and preserves it. -/
theorem emit_ok (ps : State) (f : Nat) (h : PsInv ps) :
    ∃ ps' r, emit ps f = .ok (ps', r) ∧ PsInv ps' := by
  obtain ⟨q', t', hd, ht⟩ := dropStale_spec f ps.queue ps.totalSize (wBytes ps.win) h.acc.1
  have hsub := dropStale_queue_sub f ps.queue q' ps.totalSize t' hd
  have hquiet : PsInv { ps with queue := q', totalSize := t' } :=
    { acc := ⟨ht, h.acc.2⟩, base_lt := h.base_lt, next_eq := h.next_eq, len_le := h.len_le,
      wsz := h.wsz, chans := h.chans, wchan := h.wchan,
      qchan := fun q hq => h.qchan q (hsub q hq), slice := h.slice }
  unfold emit
  rw [hd]
  simp only []
  cases hq : q' with
  | nil => subst hq; exact ⟨_, _, rfl, hquiet⟩
  | cons q rest =>
    subst hq
    simp only []
    have hlen : ps.win.length < 2^20 := Nat.lt_of_le_of_lt h.len_le h.wsz
    have hspan : pidSub ps.nextId ps.baseId = ps.win.length := by
      rw [h.next_eq]; exact pid_arith_span _ _ h.base_lt hlen
    rw [hspan]
    by_cases hwin : ps.win.length ≥ ps.windowSize
    · rw [if_pos hwin]; exact ⟨_, _, rfl, hquiet⟩
    · rw [if_neg hwin]
      by_cases hal : ps.alloc + allocSize q.data.length > ps.maxAlloc
      · rw [if_pos hal]; exact ⟨_, _, rfl, hquiet⟩
      · rw [if_neg hal]
        have hqc : q.channelId < 64 := h.qchan q (hsub q (by simp))
        have hcl : q.channelId < ps.chanParent.length := by rw [h.chans]; exact hqc
        rw [List.getElem?_eq_getElem hcl]
        simp only []
        refine ⟨_, _, rfl, ?_⟩
        have hwz := h.wsz
        have hb := h.base_lt
        refine {
          acc := ?_, base_lt := hb, next_eq := ?_, len_le := ?_, wsz := hwz, chans := ?_,
          wchan := ?_, qchan := ?_, slice := ?_ }
        · simp only [Inv, wBytes_append, wAlloc_append]
          simp only [wBytes, wAlloc, List.map_cons, List.map_nil, List.sum_cons, List.sum_nil]
          simp only [qBytes, List.map_cons, List.sum_cons] at ht
          simp only [wBytes] at ht
          have h2 := h.acc.2
          simp only [wAlloc] at h2
          simp only [qBytes]
          constructor <;> omega
        · simp only [pidAdd, PACKET_ID_SPAN, List.length_append, List.length_cons, List.length_nil]
          rw [h.next_eq]; omega
        · simp only [List.length_append, List.length_cons, List.length_nil]; omega
        · simp only []
          split
          · rw [List.length_set]; exact h.chans
          · exact h.chans
        · intro w hw
          simp only [List.mem_append, List.mem_singleton] at hw
          rcases hw with hw | rfl
          · exact h.wchan w hw
          · exact hqc
        · intro x hx
          exact h.qchan x (hsub x (List.mem_cons_of_mem _ hx))
        · intro w hw
          simp only [List.mem_append, List.mem_singleton] at hw
          rcases hw with hw | rfl
          · exact h.slice w hw
          · simp only []
            have h1 : (numFragments q.data.length - 1) % 2^16 ≤ numFragments q.data.length - 1 :=
              Nat.mod_le _ _
            have h2 : (numFragments q.data.length - 1) * 1448 ≤ q.data.length := by
              simp only [numFragments, MAX_FRAGMENT_SIZE]
              split <;> omega
            calc (numFragments q.data.length - 1) % 2^16 * 1448
                ≤ (numFragments q.data.length - 1) * 1448 := Nat.mul_le_mul_right _ h1
              _ ≤ q.data.length := h2

/-! ### fragments named by the transmit queues -/

/-- The entry `(uid, fid)` of a transmit queue is well formed: the identity has been issued, and if
its packet is still in the window the fragment id is within the packet. -/
def FragOk (ps : State) (uid fid : Nat) : Prop :=
  uid < ps.nextUid ∧ ∀ w ∈ ps.win, w.packet.uid = uid → fid ≤ w.packet.lastFragmentId

/-- Slicing a fragment that is within the packet cannot trap. -/
theorem datagram_ok (p : Pending) (fid : Nat) (hs : p.lastFragmentId * 1448 ≤ p.data.length)
    (hf : fid ≤ p.lastFragmentId) : ∃ dg, p.datagram fid = .ok dg := by
  simp only [Pending.datagram, MAX_FRAGMENT_SIZE]
  by_cases he : fid = p.lastFragmentId
  · rw [if_pos he]
    have : ¬ fid * 1448 > p.data.length := by subst he; omega
    rw [if_neg this]; exact ⟨_, rfl⟩
  · rw [if_neg he]
    have hlt : fid + 1 ≤ p.lastFragmentId := by omega
    have := Nat.mul_le_mul_right 1448 hlt
    have : ¬ fid * 1448 + 1448 > p.data.length := by omega
    rw [if_neg this]; exact ⟨_, rfl⟩

theorem fragOk_datagram (ps : State) (h : PsInv ps) (uid fid : Nat) (p : Pending)
    (hf : FragOk ps uid fid) (hp : findPacket ps uid = some p) : ∃ dg, p.datagram fid = .ok dg := by
  obtain ⟨⟨w, hw, rfl⟩, hu⟩ := findPacket_some ps uid _ hp
  exact datagram_ok _ fid (h.slice w hw) (hf.2 w hw hu)

theorem fragOk_ackFragment (ps : State) (uid fid u f : Nat) (h : FragOk ps uid fid) :
    FragOk (ackFragment ps u f) uid fid := by
  refine ⟨h.1, ?_⟩
  intro w hw he
  simp only [ackFragment, List.mem_map] at hw
  obtain ⟨w0, hw0, rfl⟩ := hw
  have := h.2 w0 hw0
  split at he <;> split <;> exact this he

theorem fragOk_foldl_ackFragment (frs : List (Nat × Nat)) (ps : State) (uid fid : Nat)
    (h : FragOk ps uid fid) :
    FragOk (frs.foldl (fun ps (x : Nat × Nat) => ackFragment ps x.1 x.2) ps) uid fid := by
  induction frs generalizing ps with
  | nil => exact h
  | cons x rest ih => exact ih _ (fragOk_ackFragment ps uid fid x.1 x.2 h)

theorem fragOk_acknowledge (ps ps' : State) (rb uid fid : Nat) (ha : acknowledge ps rb = .ok ps')
    (h : FragOk ps uid fid) : FragOk ps' uid fid := by
  obtain ⟨⟨d, hw⟩, hn, _⟩ := acknowledge_suffix ps ps' rb ha
  refine ⟨by rw [hn]; exact h.1, ?_⟩
  intro w hw' he
  exact h.2 w (by rw [hw]; exact List.mem_append_right _ hw') he

theorem fragOk_emit (ps ps' : State) (f : Nat) (r : Option (Pending × Bool)) (uid fid : Nat)
    (he : emit ps f = .ok (ps', r)) (h : FragOk ps uid fid) : FragOk ps' uid fid := by
  obtain ⟨_, _, _, _, _, _, hcase⟩ := emit_cases ps ps' f r he
  rcases hcase with ⟨_, rfl⟩ | ⟨_, _, p, _, w, _, _, _, hpu, _, _, _, _, _, _, hwp, _, hwin, hn, _⟩
  · exact h
  · refine ⟨by rw [hn]; exact Nat.lt_succ_of_lt h.1, ?_⟩
    intro x hx hxu
    rw [hwin, List.mem_append, List.mem_singleton] at hx
    rcases hx with hx | rfl
    · exact h.2 x hx hxu
    · rw [hwp, hpu] at hxu
      have := h.1
      omega

/-- The fragments of the packet just emitted are well formed. -/
theorem fragOk_emit_new (ps ps' : State) (f : Nat) (p : Pending) (resend : Bool) (i : Nat)
    (hu : ∀ w ∈ ps.win, w.packet.uid < ps.nextUid)
    (he : emit ps f = .ok (ps', some (p, resend))) (hi : i ≤ p.lastFragmentId) :
    FragOk ps' p.uid i := by
  obtain ⟨_, _, _, _, _, _, hcase⟩ := emit_cases ps ps' f _ he
  rcases hcase with ⟨hc, _⟩ | ⟨_, _, p', _, w, _, hr, _, hpu, _, _, _, _, _, _, hwp, _, hwin, hn, _⟩
  · cases hc
  · simp only [Option.some.injEq, Prod.mk.injEq] at hr
    obtain ⟨rfl, _⟩ := hr
    refine ⟨by rw [hn, hpu]; exact Nat.lt_succ_self _, ?_⟩
    intro x hx hxu
    rw [hwin, List.mem_append, List.mem_singleton] at hx
    rcases hx with hx | rfl
    · have := hu x hx
      rw [hxu, hpu] at this
      omega
    · rw [hwp]; exact hi

/-- Issued identities: every packet in the window has an identity below `nextUid`. -/
def UidLt (ps : State) : Prop := ∀ w ∈ ps.win, w.packet.uid < ps.nextUid

theorem uidLt_init (w b a : Nat) : UidLt (init w b a) := by
  intro x hx; simp [init] at hx

theorem uidLt_ackFragment (ps : State) (u f : Nat) (h : UidLt ps) : UidLt (ackFragment ps u f) := by
  intro w hw
  simp only [ackFragment, List.mem_map] at hw
  obtain ⟨w0, hw0, rfl⟩ := hw
  have := h w0 hw0
  split <;> exact this

theorem uidLt_foldl_ackFragment (frs : List (Nat × Nat)) (ps : State) (h : UidLt ps) :
    UidLt (frs.foldl (fun ps (x : Nat × Nat) => ackFragment ps x.1 x.2) ps) := by
  induction frs generalizing ps with
  | nil => exact h
  | cons x rest ih => exact ih _ (uidLt_ackFragment ps x.1 x.2 h)

theorem uidLt_acknowledge (ps ps' : State) (rb : Nat) (ha : acknowledge ps rb = .ok ps')
    (h : UidLt ps) : UidLt ps' := by
  obtain ⟨⟨d, hw⟩, hn, _⟩ := acknowledge_suffix ps ps' rb ha
  intro w hw'
  rw [hn]
  exact h w (by rw [hw]; exact List.mem_append_right _ hw')

theorem uidLt_emit (ps ps' : State) (f : Nat) (r : Option (Pending × Bool))
    (he : emit ps f = .ok (ps', r)) (h : UidLt ps) : UidLt ps' := by
  obtain ⟨_, _, _, _, _, _, hcase⟩ := emit_cases ps ps' f r he
  rcases hcase with ⟨_, rfl⟩ | ⟨_, _, p, _, w, _, _, _, hpu, _, _, _, _, _, _, hwp, _, hwin, hn, _⟩
  · exact h
  · intro x hx
    rw [hwin, List.mem_append, List.mem_singleton] at hx
    rw [hn]
    rcases hx with hx | rfl
    · exact Nat.lt_succ_of_lt (h x hx)
    · rw [hwp, hpu]; exact Nat.lt_succ_self _

end Uflow.PSend
