import Uflow.Lemmas.SysInv

/-!
The ideal network (C05Sys), part 1: definitions and list lemmas.

`idealFrom s n ops` says that the schedule `ops`, run from the system state `s` in which the network
has already handed over the datagrams `net[0], …, net[n-1]`, is the schedule of a FIFO, lossless,
duplication-free network: its `deliver` steps are `deliver n, deliver (n+1), …` in this order, and
each of them happens when the datagram exists. All other steps are unrestricted by `idealFrom`;
`Props.C05.Ideal` additionally excludes `resync` steps (`noResyncB`).
-/

namespace Uflow.Sys

open Uflow Uflow.Gen Uflow.Codec Uflow.PSend Uflow.PRecv Uflow.Frag

/-! ### ideal schedules -/

/-- Number of `deliver` steps of a schedule. -/
def delivers : List SOp → Nat
  | [] => 0
  | .deliver _ :: rest => delivers rest + 1
  | _ :: rest => delivers rest

/-- `settledFrom q ops`: after `ops` there has been a `recv` since the last `deliver` (`q`: this was
so before `ops`). -/
def settledFrom (q : Bool) : List SOp → Bool
  | [] => q
  | .deliver _ :: rest => settledFrom false rest
  | .recv :: rest => settledFrom true rest
  | _ :: rest => settledFrom q rest

/-- The schedule `ops`, started in state `s` after `n` datagrams have been handed over, is that of an
ideal network: the `j`-th `deliver` step of `ops` is `deliver (n + j)` and is taken when
`n + j < net.length`. (If the run traps the remaining schedule is not constrained; the theorems
assume the run does not trap.) -/
def idealFrom (s : Sys) (n : Nat) : List SOp → Bool
  | [] => true
  | .deliver k :: rest =>
    k == n && decide (k < s.net.length) &&
      (match stepS s (.deliver k) with
       | .ok s' => idealFrom s' (n + 1) rest
       | .error _ => true)
  | op :: rest =>
    match stepS s op with
    | .ok s' => idealFrom s' n rest
    | .error _ => true

theorem idealFrom_cons_deliver (s : Sys) (n k : Nat) (rest : List SOp) :
    idealFrom s n (.deliver k :: rest) =
      (k == n && decide (k < s.net.length) &&
        (match stepS s (.deliver k) with
         | .ok s' => idealFrom s' (n + 1) rest
         | .error _ => true)) := rfl

theorem idealFrom_cons_other (s : Sys) (n : Nat) (op : SOp) (rest : List SOp)
    (h : ∀ k, op ≠ .deliver k) :
    idealFrom s n (op :: rest) =
      (match stepS s op with
       | .ok s' => idealFrom s' n rest
       | .error _ => true) := by
  cases op with
  | deliver k => exact absurd rfl (h k)
  | enq d c m f => rfl
  | emit f => rfl
  | recv => rfl
  | ack k => rfl
  | sync => rfl
  | resync k => rfl

/-- Boolean form of "no `resync` step" (`Sys.NoResync`, `SysThm.lean`). -/
def noResyncB (ops : List SOp) : Bool :=
  ops.all fun op => match op with
    | .resync _ => false
    | _ => true

/-! ### the network as a function of the emitted packets -/

/-- Number of datagrams of an emitted packet. -/
def cnt (p : Pending) : Nat := p.lastFragmentId + 1

/-- Fragment `fid` of `p` as `PendingPacket::datagram` builds it. -/
def mkDg (p : Pending) (fid : Nat) : Datagram :=
  { sequenceId := p.sequenceId, channelId := p.channelId, windowParentLead := p.windowParentLead,
    channelParentLead := p.channelParentLead, fragmentId := fid, fragmentIdLast := p.lastFragmentId,
    data := frag p.data fid }

theorem datagram_mkDg (p : Pending) (hwf : WF p) (fid : Nat) (h : fid < cnt p) :
    p.datagram fid = .ok (mkDg p fid) :=
  datagram_ok p hwf fid (by unfold cnt at h; omega)

theorem genuine_mkDg (p : Pending) (hwf : WF p) (fid : Nat) (h : fid < cnt p) : Genuine p (mkDg p fid) :=
  ⟨fid, by unfold cnt at h; omega, datagram_mkDg p hwf fid h⟩

theorem dgsOf_wf (i : Nat) (p : Pending) (hwf : WF p) :
    dgsOf i p = (List.range (cnt p)).map fun fid => (i, mkDg p fid) := by
  unfold dgsOf
  show List.filterMap _ (List.range (cnt p)) = _
  generalize hn : cnt p = n
  have hle : n ≤ cnt p := by omega
  clear hn
  induction n with
  | zero => rfl
  | succ n ih =>
    rw [List.range_succ, List.filterMap_append, List.map_append, ih (by omega)]
    congr 1
    simp only [List.filterMap_cons, List.filterMap_nil, List.map_cons, List.map_nil]
    rw [datagram_mkDg p hwf n (by omega)]

/-- The ghost network of the emitted packets `ps`, the first of which has emission position `i`. -/
def netOf : Nat → List Pending → List (Nat × Datagram)
  | _, [] => []
  | i, p :: ps => dgsOf i p ++ netOf (i + 1) ps

theorem netOf_append (ps : List Pending) (p : Pending) : ∀ i,
    netOf i (ps ++ [p]) = netOf i ps ++ dgsOf (i + ps.length) p := by
  induction ps with
  | nil => intro i; simp [netOf]
  | cons q ps ih =>
    intro i
    simp only [List.cons_append, netOf, ih, List.length_cons, List.append_assoc]
    congr 3
    omega

theorem netOf_length (ps : List Pending) (hwf : ∀ q ∈ ps, WF q) : ∀ i,
    (netOf i ps).length = (ps.map cnt).sum := by
  induction ps with
  | nil => intro i; rfl
  | cons q ps ih =>
    intro i
    simp only [netOf, List.length_append, List.map_cons, List.sum_cons]
    rw [ih (fun x hx => hwf x (List.mem_cons_of_mem _ hx)), dgsOf_wf i q (hwf q List.mem_cons_self)]
    simp

/-- Datagram number `sum (cnt of the first C packets) + f` of the network is fragment `f` of packet `C`. -/
theorem netOf_get (ps : List Pending) (hwf : ∀ q ∈ ps, WF q) : ∀ (i C f : Nat) (p : Pending),
    ps[C]? = some p → f < cnt p →
    (netOf i ps)[((ps.take C).map cnt).sum + f]? = some (i + C, mkDg p f) := by
  induction ps with
  | nil => intro i C f p h; simp at h
  | cons q ps ih =>
    intro i C f p h hf
    have hq := hwf q List.mem_cons_self
    have hlen : (dgsOf i q).length = cnt q := by rw [dgsOf_wf i q hq]; simp
    cases C with
    | zero =>
      simp only [List.getElem?_cons_zero, Option.some.injEq] at h
      subst h
      simp only [List.take_zero, List.map_nil, List.sum_nil, Nat.zero_add, netOf, Nat.add_zero]
      rw [List.getElem?_append_left (by omega), dgsOf_wf i q hq]
      simp [hf]
    | succ C =>
      simp only [List.getElem?_cons_succ] at h
      simp only [List.take_succ_cons, List.map_cons, List.sum_cons, netOf]
      rw [List.getElem?_append_right (by omega)]
      have := ih (fun x hx => hwf x (List.mem_cons_of_mem _ hx)) (i + 1) C f p h hf
      rw [show cnt q + ((ps.take C).map cnt).sum + f - (dgsOf i q).length = ((ps.take C).map cnt).sum + f by omega,
        this]
      congr 2
      omega

theorem sum_take_le (l : List Nat) (C : Nat) : (l.take C).sum ≤ l.sum := by
  induction l generalizing C with
  | nil => simp
  | cons a l ih =>
    cases C with
    | zero => simp
    | succ C => simp only [List.take_succ_cons, List.sum_cons]; have := ih C; omega

theorem sum_take_succ (ps : List Pending) (C : Nat) (p : Pending) (h : ps[C]? = some p) :
    ((ps.take (C + 1)).map cnt).sum = ((ps.take C).map cnt).sum + cnt p := by
  induction ps generalizing C with
  | nil => simp at h
  | cons q ps ih =>
    cases C with
    | zero =>
      simp only [List.getElem?_cons_zero, Option.some.injEq] at h
      subst h; simp
    | succ C =>
      simp only [List.getElem?_cons_succ] at h
      simp only [List.take_succ_cons, List.map_cons, List.sum_cons, ih C h]
      omega

/-! ### sorted lists with known members -/

/-- A strictly increasing list of numbers whose members are exactly the numbers in `[a, b)` is
`[a, a+1, …, b-1]`. -/
theorem eq_range'_of_sorted (l : List Nat) : ∀ (a b : Nat), l.Pairwise (· < ·) →
    (∀ x, x ∈ l ↔ a ≤ x ∧ x < b) → l = List.range' a (b - a) := by
  induction l with
  | nil =>
    intro a b _ hm
    have : b - a = 0 := by
      rcases Nat.lt_or_ge a b with h | h
      · exact absurd ((hm a).mpr ⟨Nat.le_refl _, h⟩) (by simp)
      · omega
    rw [this]; rfl
  | cons y l ih =>
    intro a b hp hm
    rw [List.pairwise_cons] at hp
    obtain ⟨hy, hp'⟩ := hp
    have hya := (hm y).mp List.mem_cons_self
    have hay : y = a := by
      rcases Nat.lt_or_ge a y with h | h
      · have := (hm a).mpr ⟨Nat.le_refl _, by omega⟩
        rcases List.mem_cons.mp this with h1 | h1
        · omega
        · have := hy a h1; omega
      · omega
    subst hay
    have hrec := ih (y + 1) b hp' (by
      intro x
      constructor
      · intro hx
        have h1 := hy x hx
        have h2 := (hm x).mp (List.mem_cons_of_mem _ hx)
        omega
      · rintro ⟨h1, h2⟩
        rcases List.mem_cons.mp ((hm x).mpr ⟨by omega, h2⟩) with h3 | h3
        · omega
        · exact h3)
    rw [hrec, show b - y = (b - (y + 1)) + 1 by omega, List.range'_succ]

theorem range_append_range' (a n : Nat) : List.range a ++ List.range' a n = List.range (a + n) := by
  rw [List.range_eq_range', List.range_eq_range']
  have := List.range'_append (s := 0) (m := a) (n := n) (step := 1)
  simpa using this

end Uflow.Sys
