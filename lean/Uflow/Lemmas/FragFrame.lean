import Uflow.Model.HalfConn
import Uflow.Lemmas.Frag

/-!
Helper lemmas for C04, part 4: encoded sizes of datagrams and data frames, and the size
invariant of the data frame emitter (`HalfConn.dfePush`, `HalfConn.dfeFinalize`).
-/

namespace Uflow.Frag

open Uflow Uflow.Gen Uflow.Codec Uflow.HalfConn

theorem length_encodeDatagram (d : Datagram) (h : d.data.length < 2 ^ 16) :
    (encodeDatagram d).length = encodedSize d := by
  have hm : d.data.length % 2 ^ 16 = d.data.length := Nat.mod_eq_of_lt h
  simp only [encodeDatagram, encodedSize, hm, DATAGRAM_HEADER_SIZE_MICRO,
    DATAGRAM_HEADER_SIZE_SMALL, DATAGRAM_HEADER_SIZE_LARGE]
  split
  · simp only [List.length_append, List.length_cons, List.length_nil]
  · split
    · simp only [List.length_append, List.length_cons, List.length_nil, be16]
    · simp only [List.length_append, List.length_cons, List.length_nil, be16]

theorem encodedSize_le (d : Datagram) : encodedSize d ≤ 14 + d.data.length := by
  simp only [encodedSize, DATAGRAM_HEADER_SIZE_MICRO, DATAGRAM_HEADER_SIZE_SMALL,
    DATAGRAM_HEADER_SIZE_LARGE]
  split
  · omega
  · split <;> omega

theorem length_flatMap_encodeDatagram (dgs : List Datagram)
    (h : ∀ d ∈ dgs, d.data.length < 2 ^ 16) :
    (dgs.flatMap encodeDatagram).length = (dgs.map encodedSize).sum := by
  induction dgs with
  | nil => rfl
  | cons d dgs ih =>
    simp only [List.flatMap_cons, List.length_append, List.map_cons, List.sum_cons]
    rw [length_encodeDatagram d (h d (by simp)), ih (fun x hx => h x (by simp [hx]))]

theorem length_encode_data (sid : Nat) (nonce : Bool) (dgs : List Datagram)
    (h : ∀ d ∈ dgs, d.data.length < 2 ^ 16) :
    (encode (.data sid nonce dgs)).length = DATA_FRAME_OVERHEAD + (dgs.map encodedSize).sum := by
  simp only [encode, withCrc, encodeBody, be32, List.length_append, List.length_cons,
    List.length_nil, DATA_FRAME_OVERHEAD]
  rw [length_flatMap_encodeDatagram dgs h]
  omega

/-- Size invariant of the in-progress data frame. -/
def IpOk (ip : InProg) : Prop :=
  ip.size = DATA_FRAME_OVERHEAD + (ip.dgs.map encodedSize).sum ∧ ip.size ≤ MAX_FRAME_SIZE ∧
  ∀ d ∈ ip.dgs, d.data.length ≤ MAX_FRAGMENT_SIZE

/-- "`inProg` is `none` or satisfies `IpOk`". -/
def EmitOk {F : Type} (e : Emit F) : Prop := ∀ ip, e.inProg = some ip → IpOk ip

/-- Every frame sent so far fits the frame size limit. -/
def OutOk {F : Type} (e : Emit F) : Prop := ∀ f ∈ e.out, f.length ≤ MAX_FRAME_SIZE

theorem ipOk_frame_length (ip : InProg) (h : IpOk ip) :
    (encode (.data ip.frameId ip.nonce ip.dgs)).length = ip.size := by
  obtain ⟨h1, _, h3⟩ := h
  rw [length_encode_data _ _ _ (fun d hd => by
    have := h3 d hd; simp only [MAX_FRAGMENT_SIZE] at this; omega), h1]

theorem dfeFinalize_inProg {F : Type} (e : Emit F) : (dfeFinalize e).inProg = none := by
  simp only [dfeFinalize]
  split
  · assumption
  · rfl

theorem emitOk_of_none {F : Type} (e : Emit F) (h : e.inProg = none) : EmitOk e := by
  intro ip h'
  rw [h] at h'
  cases h'

theorem dfeFinalize_emitOk {F : Type} (e : Emit F) : EmitOk (dfeFinalize e) := by
  intro ip h
  rw [dfeFinalize_inProg] at h
  cases h

theorem dfeFinalize_outOk {F : Type} (e : Emit F) (he : EmitOk e) (ho : OutOk e) :
    OutOk (dfeFinalize e) := by
  simp only [dfeFinalize]
  split
  · exact ho
  · rename_i ip hip
    intro f hf
    simp only [List.mem_append, List.mem_singleton] at hf
    rcases hf with hf | rfl
    · exact ho f hf
    · rw [ipOk_frame_length ip (he ip hip)]
      exact (he ip hip).2.1

/-- The frames appended by `dfeFinalize` are exactly the encoding of the in-progress frame. -/
theorem dfeFinalize_out {F : Type} (e : Emit F) :
    (dfeFinalize e).out = e.out ++
      (match e.inProg with
       | none => []
       | some ip => [encode (.data ip.frameId ip.nonce ip.dgs)]) := by
  cases h : e.inProg <;> simp [dfeFinalize, h]

theorem ipOk_single (dg : Datagram) (frameId : Nat) (nonce : Bool) (refs : List (Nat × Nat))
    (h : dg.data.length ≤ 1448) :
    IpOk { frameId := frameId, nonce := nonce, dgs := [dg],
           size := DATA_FRAME_OVERHEAD + encodedSize dg, refs := refs } := by
  have := encodedSize_le dg
  refine ⟨by simp, ?_, ?_⟩
  · simp only [DATA_FRAME_OVERHEAD, MAX_FRAME_SIZE]; omega
  · intro d hd
    simp only [List.mem_singleton] at hd
    subst hd
    exact h

/-- `dfePush` preserves both invariants. -/
theorem dfePush_ok {F : Type} (e e' : Emit F) (p : PSend.Pending) (fid : Nat) (resend : Bool)
    (r : Option PushErr) (dg : Datagram) (hdg : p.datagram fid = .ok dg)
    (hlen : dg.data.length ≤ 1448) (he : EmitOk e) (ho : OutOk e)
    (h : dfePush e p fid resend = .ok (e', r)) : EmitOk e' ∧ OutOk e' := by
  have hfe := dfeFinalize_emitOk e
  have hfo := dfeFinalize_outOk e he ho
  have hfi := dfeFinalize_inProg e
  simp only [dfePush, hdg] at h
  split at h
  · rename_i ip hip
    split at h
    · cases h
      exact ⟨emitOk_of_none _ hfi, hfo⟩
    · split at h
      · -- start a new frame after finalizing
        split at h
        · cases h
          exact ⟨emitOk_of_none _ hfi, hfo⟩
        · split at h
          · cases h
            exact ⟨hfe, hfo⟩
          · cases h
            refine ⟨?_, hfo⟩
            intro ip' h'
            cases h'
            exact ipOk_single dg _ _ _ hlen
      · -- append to the in-progress frame
        rename_i hfit
        cases h
        refine ⟨?_, ho⟩
        intro ip' h'
        cases h'
        obtain ⟨h1, h2, h3⟩ := he ip hip
        refine ⟨?_, ?_, ?_⟩
        · simp only [List.map_append, List.sum_append_nat, List.map_cons, List.map_nil,
            List.sum_cons, List.sum_nil]
          omega
        · simp only [not_or, Nat.not_lt] at hfit
          exact hfit.1
        · intro d hd
          simp only [List.mem_append, List.mem_singleton] at hd
          rcases hd with hd | rfl
          · exact h3 d hd
          · exact hlen
  · -- no frame in progress
    rename_i hip
    split at h
    · cases h
      exact ⟨emitOk_of_none _ hip, ho⟩
    · split at h
      · cases h
        exact ⟨he, ho⟩
      · cases h
        refine ⟨?_, ho⟩
        intro ip' h'
        cases h'
        exact ipOk_single dg _ _ _ hlen

/-- `dfePush` traps only if slicing the fragment does. -/
theorem dfePush_total {F : Type} (e : Emit F) (p : PSend.Pending) (fid : Nat) (resend : Bool)
    (dg : Datagram) (hdg : p.datagram fid = .ok dg) :
    ∃ e' r, dfePush e p fid resend = .ok (e', r) := by
  simp only [dfePush, hdg]
  split
  · split
    · exact ⟨_, _, rfl⟩
    · split
      · split
        · exact ⟨_, _, rfl⟩
        · split <;> exact ⟨_, _, rfl⟩
      · exact ⟨_, _, rfl⟩
  · split
    · exact ⟨_, _, rfl⟩
    · split <;> exact ⟨_, _, rfl⟩

end Uflow.Frag
