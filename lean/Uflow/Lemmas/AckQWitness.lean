import Uflow.Lemmas.AckQBound

/-!
Two unboundedness constructions for the frame acknowledgement queue:
* before the repair (`markSeenOld`, finding F3): frames whose ids are 32 apart add one group each;
* after the repair, when the 32-bit frame id wraps between two data frames (the window is walked once around
  the id space by `resynchronize`): a frame id that lands *between* pending groups is neither dropped against
  nor merged, and adds a group; repeating it grows the queue by two groups per lap.
-/

namespace Uflow.AckQB

open Uflow Uflow.Codec Uflow.FrameQ

/-! ### appending case of the two `mark_seen`s -/

theorem oG3_append (qc : AckQ → Nat → Bool) (qa : AckQ → Nat → AckQ) (d : Nat → Nat → Nat) (q : AckQ) (id : Nat)
    (nonce : Bool) (h : qc q id = true) (q1 : AckQ) (hq1 : qa q (wadd32 id 1) = q1)
    (hfar : ∀ last, q1.entries.getLast? = some last → ¬ d id last.baseId < 32) :
    oG3 qc qa d q id nonce =
      { q1 with entries := q1.entries ++ [{ baseId := id, bitfield := 1, nonce := nonce }] } := by
  unfold oG3
  rw [if_pos h, hq1]
  simp only
  cases hl : q1.entries.getLast? with
  | none => rfl
  | some last =>
    simp only
    rw [if_neg (hfar last hl)]

theorem qG4_append (qc : AckQ → Nat → Bool) (qd) (qa : AckQ → Nat → AckQ) (d : Nat → Nat → Nat) (q : AckQ) (id : Nat)
    (nonce : Bool) (h : qc q id = true) (q1 : AckQ) (hq1 : qa q (wadd32 id 1) = q1)
    (es : List AckGroup) (hes : qd q1.size id q1.entries = es)
    (hfar : ∀ last, es.getLast? = some last → ¬ d id last.baseId < 32) :
    qG4 qc qd qa d q id nonce =
      { q1 with entries := es ++ [{ baseId := id, bitfield := 1, nonce := nonce }] } := by
  unfold qG4
  rw [if_pos h, hq1]
  simp only [hes]
  cases hl : es.getLast? with
  | none => rfl
  | some last =>
    simp only
    rw [if_neg (hfar last hl)]

theorem markSeenOld_append (q : AckQ) (id : Nat) (nonce : Bool) (h : q.contains id = true)
    (hadv : wsub32 (wadd32 id 1) q.baseId > 0 ∧ wsub32 (wadd32 id 1) q.baseId ≤ q.size)
    (hfar : ∀ last, q.entries.getLast? = some last → ¬ wsub32 id last.baseId < 32) :
    markSeenOld q id nonce =
      { q with baseId := wadd32 id 1, entries := q.entries ++ [{ baseId := id, bitfield := 1, nonce := nonce }] } := by
  rw [markSeenOld_eq_G]
  exact oG3_append _ _ _ q id nonce h _ (qadvance_pos q _ hadv) hfar

theorem markSeen_append (q : AckQ) (id : Nat) (nonce : Bool) (h : q.contains id = true)
    (hadv : wsub32 (wadd32 id 1) q.baseId > 0 ∧ wsub32 (wadd32 id 1) q.baseId ≤ q.size)
    (hdrop : dropOld q.size id q.entries = q.entries)
    (hfar : ∀ last, q.entries.getLast? = some last → ¬ wsub32 id last.baseId < 32) :
    q.markSeen id nonce =
      { q with baseId := wadd32 id 1, entries := q.entries ++ [{ baseId := id, bitfield := 1, nonce := nonce }] } := by
  rw [qmarkSeen_eq_G]
  exact qG4_append _ _ _ _ q id nonce h _ (qadvance_pos q _ hadv) q.entries hdrop hfar

/-! ### before the repair: one group per frame -/

/-- `n` data frames whose ids are 32 apart, starting at the window base. -/
def farFrames (b n : Nat) : List Nat := (List.range n).map (fun i => b + 32 * i)

def runOld (q : AckQ) (ids : List Nat) : AckQ := ids.foldl (fun q id => markSeenOld q id false) q

structure OldInv (S b k : Nat) (q : AckQ) : Prop where
  size : q.size = S
  len : q.entries.length = k
  zero : k = 0 → q.baseId = b ∧ q.entries = []
  pos : 0 < k → q.baseId % 2^32 = (b + 32 * (k - 1) + 1) % 2^32 ∧
    ∃ last, q.entries.getLast? = some last ∧ last.baseId = b + 32 * (k - 1)

theorem OldInv.step {S b k : Nat} {q : AckQ} (hS : 32 ≤ S) (h : OldInv S b k q) :
    OldInv S b (k + 1) (markSeenOld q (b + 32 * k) false) := by
  have hsz := h.size
  have hbase : wsub32 (b + 32 * k) q.baseId < 32 ∧ wsub32 (wadd32 (b + 32 * k) 1) q.baseId > 0 ∧
      wsub32 (wadd32 (b + 32 * k) 1) q.baseId ≤ 32 := by
    rcases Nat.eq_zero_or_pos k with hk | hk
    · have := (h.zero hk).1
      subst hk
      unfold wsub32 wadd32; omega
    · have := (h.pos hk).1
      unfold wsub32 wadd32; omega
  have hc : q.contains (b + 32 * k) = true := by
    simp only [AckQ.contains, decide_eq_true_eq]; omega
  have hfar : ∀ last, q.entries.getLast? = some last → ¬ wsub32 (b + 32 * k) last.baseId < 32 := by
    intro last hl
    rcases Nat.eq_zero_or_pos k with hk | hk
    · rw [(h.zero hk).2] at hl; cases hl
    · obtain ⟨l', hl', hb⟩ := (h.pos hk).2
      rw [hl] at hl'; cases hl'
      rw [hb]; unfold wsub32; omega
  rw [markSeenOld_append q _ false hc ⟨hbase.2.1, by omega⟩ hfar]
  refine ⟨hsz, by simp [h.len], by omega, fun _ => ⟨?_, _, List.getLast?_concat .., ?_⟩⟩
  · show wadd32 (b + 32 * k) 1 % 2^32 = _
    unfold wadd32; simp only [Nat.add_sub_cancel]; omega
  · simp

theorem runOld_append (q : AckQ) (ids : List Nat) (id : Nat) :
    runOld q (ids ++ [id]) = markSeenOld (runOld q ids) id false := by
  unfold runOld
  rw [List.foldl_append, List.foldl_cons, List.foldl_nil]

theorem farFrames_succ (b n : Nat) : farFrames b (n + 1) = farFrames b n ++ [b + 32 * n] := by
  simp [farFrames, List.range_succ]

theorem runOld_farFrames (S b : Nat) (hS : 32 ≤ S) (n : Nat) :
    OldInv S b n (runOld (AckQ.init S b) (farFrames b n)) := by
  induction n with
  | zero => exact ⟨rfl, rfl, fun _ => ⟨rfl, rfl⟩, fun h => absurd h (Nat.lt_irrefl _)⟩
  | succ n ih =>
    rw [farFrames_succ, runOld_append]
    exact ih.step hS

/-! ### after the repair, with 32-bit wrap-around -/

theorem run_cons (q : AckQ) (op : Op) (ops : List Op) : run q (op :: ops) = run (step q op) ops := rfl

theorem run_append (q : AckQ) (ops ops' : List Op) : run q (ops ++ ops') = run (run q ops) ops' := by
  unfold run; rw [List.foldl_append]

/-- `k` sync frames, each moving the window forward by its full size `S`, starting from base `c`. -/
def resyncs (S : Nat) : Nat → Nat → List Op
  | 0, _ => []
  | k + 1, c => .resync (c + S) :: resyncs S k (c + S)

theorem run_resyncs (S : Nat) (hS0 : 0 < S) (hS : S < 2^32) (k c : Nat) (q : AckQ) (hq : q.baseId = c)
    (hsz : q.size = S) : run q (resyncs S k c) = { q with baseId := c + k * S } := by
  induction k generalizing q c with
  | zero =>
    subst hq
    rw [resyncs, Nat.zero_mul, Nat.add_zero]; rfl
  | succ k ih =>
    rw [resyncs, run_cons]
    have hstep : step q (.resync (c + S)) = { q with baseId := c + S } := by
      show q.advance (c + S) = _
      refine qadvance_pos q _ ?_
      rw [hq, hsz]; unfold wsub32; omega
    rw [hstep, ih (c + S) { q with baseId := c + S } rfl hsz]
    have : c + (k + 1) * S = c + S + k * S := by rw [Nat.succ_mul]; omega
    rw [this]

/-- One lap: a data frame 32 ahead, then sync frames walking the window once around the 32-bit id space
until id `0` is in the window again, then a data frame with id `0`. -/
def lap (S : Nat) : List Op :=
  .markSeen 32 false :: (resyncs S ((2^32 - 33) / S) 33 ++ [.markSeen 0 false])

def wrapOps (S : Nat) : Nat → List Op
  | 0 => [.markSeen 0 false]
  | n + 1 => wrapOps S n ++ lap S

structure LapInv (S m : Nat) (q : AckQ) : Prop where
  size : q.size = S
  base : q.baseId = 1
  len : q.entries.length = m
  head : ∃ g rest, q.entries = g :: rest ∧ g.baseId = 0
  last : ∃ last, q.entries.getLast? = some last ∧ last.baseId = 0

theorem LapInv.first (S : Nat) (hS : 33 ≤ S) : LapInv S 1 (run (AckQ.init S 0) (wrapOps S 0)) := by
  have h : (AckQ.init S 0).markSeen 0 false =
      { AckQ.init S 0 with baseId := wadd32 0 1, entries := [] ++ [{ baseId := 0, bitfield := 1, nonce := false }] } := by
    refine markSeen_append (AckQ.init S 0) 0 false ?_ ?_ ?_ ?_
    · have : wsub32 0 0 = 0 := by decide
      simp only [AckQ.contains, AckQ.init, this, decide_eq_true_eq]; omega
    · have : wsub32 (wadd32 0 1) 0 = 1 := by decide
      show wsub32 (wadd32 0 1) 0 > 0 ∧ wsub32 (wadd32 0 1) 0 ≤ S
      rw [this]; omega
    · show dropOld S 0 [] = []
      rw [dropOld]
    · intro last hl; cases hl
  show LapInv S 1 ((AckQ.init S 0).markSeen 0 false)
  rw [h]
  exact ⟨rfl, (by decide : wadd32 0 1 = 1), rfl, ⟨_, _, rfl, rfl⟩, ⟨_, rfl, rfl⟩⟩

theorem LapInv.step {S m : Nat} {q : AckQ} (hS : 33 ≤ S) (hS' : S ≤ 2^31) (h : LapInv S m q) :
    LapInv S (m + 2) (run q (lap S)) := by
  obtain ⟨g, rest, hg, hg0⟩ := h.head
  obtain ⟨l, hl, hl0⟩ := h.last
  have hsz := h.size
  have hb := h.base
  -- the frame 32 ahead
  have hA : q.markSeen 32 false =
      { q with baseId := wadd32 32 1, entries := q.entries ++ [{ baseId := 32, bitfield := 1, nonce := false }] } := by
    refine markSeen_append q 32 false ?_ ?_ ?_ ?_
    · have : wsub32 32 1 = 31 := by decide
      simp only [AckQ.contains, hb, this, decide_eq_true_eq]; omega
    · have : wsub32 (wadd32 32 1) 1 = 32 := by decide
      rw [hb, this]; omega
    · have : wsub32 32 0 = 32 := by decide
      rw [hg, dropOld, hg0, this, if_neg (by omega)]
    · intro last hl'
      rw [hl] at hl'; cases hl'
      have : wsub32 32 0 = 32 := by decide
      rw [hl0, this]; omega
  have h33 : wadd32 32 1 = 33 := by decide
  rw [lap, run_cons]
  show LapInv S (m + 2) (run (q.markSeen 32 false) _)
  rw [hA, h33, run_append, run_resyncs S (by omega) (by omega) _ 33
    { entries := q.entries ++ [{ baseId := 32, bitfield := 1, nonce := false }], baseId := 33, size := q.size } rfl hsz]
  -- the frame with id 0 after the lap
  have hdm := Nat.div_add_mod (2^32 - 33) S
  have hml := Nat.mod_lt (2^32 - 33) (show 0 < S by omega)
  rw [Nat.mul_comm] at hdm
  generalize (2^32 - 33) / S * S = w at hdm ⊢
  generalize (2^32 - 33) % S = r at hdm hml
  rw [run_cons]
  show LapInv S (m + 2) (AckQ.markSeen _ 0 false)
  have hC := markSeen_append
    { entries := q.entries ++ [{ baseId := 32, bitfield := 1, nonce := false }], baseId := 33 + w, size := q.size }
    0 false ?_ ?_ ?_ ?_
  · rw [hC]
    refine ⟨hsz, (by decide : wadd32 0 1 = 1), by simp [h.len], ⟨g, rest ++ [{ baseId := 32, bitfield := 1, nonce := false }] ++ [{ baseId := 0, bitfield := 1, nonce := false }], by simp [hg], hg0⟩, ⟨_, List.getLast?_concat .., rfl⟩⟩
  · simp only [AckQ.contains, decide_eq_true_eq, hsz]; unfold wsub32; omega
  · have h1 : wadd32 0 1 = 1 := by decide
    show wsub32 (wadd32 0 1) (33 + w) > 0 ∧ wsub32 (wadd32 0 1) (33 + w) ≤ q.size
    rw [h1, hsz]; unfold wsub32; omega
  · have : wsub32 0 0 = 0 := by decide
    show dropOld q.size 0 (q.entries ++ [_]) = q.entries ++ [_]
    rw [hg, List.cons_append, dropOld, hg0, this, if_neg (by omega)]
  · intro last hl'
    have : wsub32 0 32 = 2^32 - 32 := by decide
    rw [show (AckQ.entries _).getLast? = _ from List.getLast?_concat ..] at hl'
    cases hl'
    show ¬ wsub32 0 32 < 32
    rw [this]; omega

theorem wrapOps_inv (S : Nat) (hS : 33 ≤ S) (hS' : S ≤ 2^31) (n : Nat) :
    LapInv S (2 * n + 1) (run (AckQ.init S 0) (wrapOps S n)) := by
  induction n with
  | zero => exact LapInv.first S hS
  | succ n ih =>
    rw [wrapOps, run_append]
    have := ih.step hS hS'
    rw [show 2 * (n + 1) + 1 = 2 * n + 1 + 2 by omega]
    exact this

end Uflow.AckQB
