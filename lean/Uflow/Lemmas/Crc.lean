import Uflow.Model.Crc

/-! Helper lemmas for C16 (CRC): the generated table is the table of the bitwise LFSR. -/

namespace Uflow.Crc

open Uflow.Gen

/-- Boolean check over the complete table: entry `i` is `extend_slow(0, &[i])`. -/
def tableCheck : Bool :=
  (List.range 256).all fun i => crcTableList[i]? == some (slowByte i).toNat

theorem tableCheck_true : tableCheck = true := by decide +kernel

theorem table_entry_lt (i : Nat) (h : i < 256) : crcTableList[i]'(by rw [table_length]; exact h) < 2^32 := by
  have hc := tableCheck_true
  unfold tableCheck at hc
  rw [List.all_eq_true] at hc
  have := hc i (List.mem_range.mpr h)
  have hi : crcTableList[i]? = some (crcTableList[i]'(by rw [table_length]; exact h)) :=
    List.getElem?_eq_getElem (by rw [table_length]; exact h)
  rw [hi] at this
  have heq : crcTableList[i]'(by rw [table_length]; exact h) = (slowByte i).toNat := by simpa using this
  rw [heq]; exact BitVec.isLt _

/-- The table the code indexes is exactly the bitwise reference, entry by entry. -/
theorem tableAt_eq_slowByte (i : Nat) (h : i < 256) : tableAt i h = slowByte i := by
  have hc := tableCheck_true
  unfold tableCheck at hc
  rw [List.all_eq_true] at hc
  have := hc i (List.mem_range.mpr h)
  have hi : crcTableList[i]? = some (crcTableList[i]'(by rw [table_length]; exact h)) :=
    List.getElem?_eq_getElem (by rw [table_length]; exact h)
  rw [hi] at this
  have heq : crcTableList[i]'(by rw [table_length]; exact h) = (slowByte i).toNat := by simpa using this
  unfold tableAt
  rw [heq]
  exact BitVec.ofNat_toNat _ _ |>.trans (by simp)

end Uflow.Crc
