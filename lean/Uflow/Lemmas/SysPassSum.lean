import Uflow.Lemmas.SysPassInv

/-!
The composed system (C01Sys), part 9: sums over the receive window (the slot map summed in window
order), and what `try_add` does to the allocation charge and the payload of its slot.
-/

namespace Uflow.Sys

open Uflow Uflow.Gen Uflow.Codec Uflow.PSend Uflow.PRecv Uflow.Frag

/-! ### sums over `0 … n-1` -/

def rsum (n : Nat) (g : Nat → Nat) : Nat := ((List.range n).map g).sum

theorem rsum_zero (g : Nat → Nat) : rsum 0 g = 0 := rfl

theorem rsum_succ (n : Nat) (g : Nat → Nat) : rsum (n+1) g = rsum n g + g n := by
  simp only [rsum, List.range_succ, List.map_append, List.sum_append, List.map_cons, List.map_nil,
    List.sum_cons, List.sum_nil, Nat.add_zero]

theorem rsum_add (a b : Nat) (g : Nat → Nat) : rsum (a + b) g = rsum a g + rsum b (fun t => g (a + t)) := by
  induction b with
  | zero => rw [Nat.add_zero, rsum_zero, Nat.add_zero]
  | succ b ih => rw [← Nat.add_assoc, rsum_succ, rsum_succ, ih]; omega

theorem rsum_congr (n : Nat) (g g' : Nat → Nat) (h : ∀ t, t < n → g t = g' t) : rsum n g = rsum n g' := by
  induction n with
  | zero => rfl
  | succ n ih =>
    rw [rsum_succ, rsum_succ, ih (fun t ht => h t (by omega)), h n (by omega)]

theorem rsum_le (n : Nat) (f g : Nat → Nat) (h : ∀ t, t < n → f t ≤ g t) : rsum n f ≤ rsum n g := by
  induction n with
  | zero => exact Nat.le_refl _
  | succ n ih =>
    rw [rsum_succ, rsum_succ]
    have := ih (fun t ht => h t (by omega))
    have := h n (by omega)
    omega

/-- Pointwise `≤` with slack `c` at one index. -/
theorem rsum_le_slack (n : Nat) (f g : Nat → Nat) (t c : Nat) (h : ∀ t, t < n → f t ≤ g t) (ht : t < n)
    (hs : f t + c ≤ g t) : rsum n f + c ≤ rsum n g := by
  induction n with
  | zero => exact absurd ht (Nat.not_lt_zero _)
  | succ n ih =>
    rw [rsum_succ, rsum_succ]
    by_cases hn : t = n
    · subst hn
      have := rsum_le t f g (fun u hu => h u (by omega))
      omega
    · have := ih (fun u hu => h u (by omega)) (by omega)
      have := h n (by omega)
      omega

/-- A sum over `0 … W-1` may start anywhere (indices mod `W`). -/
theorem rsum_rot (W c : Nat) (g : Nat → Nat) (hW : 0 < W) :
    rsum W (fun t => g ((c + t) % W)) = rsum W g := by
  have hc : c % W < W := Nat.mod_lt _ hW
  have e0 : rsum W (fun t => g ((c + t) % W)) = rsum W (fun t => g ((c % W + t) % W)) :=
    rsum_congr _ _ _ (fun t _ => by rw [Nat.add_mod c t W, Nat.add_mod (c % W) t W, Nat.mod_mod])
  generalize c % W = c' at *
  have e1 : rsum W (fun t => g ((c' + t) % W)) = rsum ((W - c') + c') (fun t => g ((c' + t) % W)) := by
    rw [Nat.sub_add_cancel (Nat.le_of_lt hc)]
  have e2 : rsum W g = rsum (c' + (W - c')) g := by
    rw [Nat.add_sub_cancel' (Nat.le_of_lt hc)]
  rw [e0, e1, e2, rsum_add, rsum_add]
  have a1 : rsum (W - c') (fun t => g ((c' + t) % W)) = rsum (W - c') (fun t => g (c' + t)) :=
    rsum_congr _ _ _ (fun t ht => by rw [Nat.mod_eq_of_lt (by omega)])
  have a2 : rsum c' (fun t => g ((c' + (W - c' + t)) % W)) = rsum c' g :=
    rsum_congr _ _ _ (fun t ht => by
      have : c' + (W - c' + t) = t + W := by omega
      rw [this, Nat.add_mod_right, Nat.mod_eq_of_lt (by omega)])
  rw [a1, a2]
  omega

/-- The slot map summed over the indices `0 … W-1`. -/
theorem lsum_eq_rsum (f : Slot → Nat) (hf : f {} = 0) : ∀ (W : Nat) (l : SlotMap), (keys l).Nodup →
    (∀ k ∈ keys l, k < W) → lsum f l = rsum W (fun k => f (lget l k)) := by
  intro W
  induction W with
  | zero =>
    intro l _ hk
    cases l with
    | nil => rfl
    | cons p t => exact absurd (hk p.1 (by simp [keys])) (Nat.not_lt_zero _)
  | succ W ih =>
    intro l hn hk
    rw [rsum_succ, lsum_split f hf l W hn]
    have := ih (l.filter (·.1 ≠ W)) (nodup_keys_filter l W hn) (by
      intro k hkm
      obtain ⟨h1, h2⟩ := (mem_keys_filter l W k).mp hkm
      have := hk k h1
      omega)
    rw [this, rsum_congr W _ (fun k => f (lget l k)) (fun k hk => by rw [lget_filter_ne l W k (by omega)])]
    omega

theorem sum_map_zero' {α : Type} (l : List α) : (l.map (fun _ => 0)).sum = 0 := by
  induction l with
  | nil => rfl
  | cons a t ih => simp only [List.map_cons, List.sum_cons, ih]

/-- Summing the first `n` entries of a list is at most summing all of them. -/
theorem rsum_getElem_le {α : Type} (A : α → Nat) : ∀ (L : List α) (n : Nat),
    rsum n (fun t => match L[t]? with | some p => A p | none => 0) ≤ (L.map A).sum := by
  intro L
  induction L with
  | nil =>
    intro n
    have : rsum n (fun t => match ([] : List α)[t]? with | some p => A p | none => 0) = rsum n (fun _ => 0) :=
      rsum_congr _ _ _ (fun t _ => by simp)
    rw [this]
    have : rsum n (fun _ => 0) = 0 := sum_map_zero' _
    rw [this]
    exact Nat.zero_le _
  | cons a L ih =>
    intro n
    cases n with
    | zero => exact Nat.zero_le _
    | succ n =>
      have e : n + 1 = 1 + n := by omega
      rw [e, rsum_add]
      have h1 : rsum 1 (fun t => match (a :: L)[t]? with | some p => A p | none => 0) = A a := by
        simp [rsum]
      have h2 : rsum n (fun t => match (a :: L)[1 + t]? with | some p => A p | none => 0) =
          rsum n (fun t => match L[t]? with | some p => A p | none => 0) :=
        rsum_congr _ _ _ (fun t _ => by rw [Nat.add_comm 1 t, List.getElem?_cons_succ])
      rw [h1, h2]
      have := ih n
      simp only [List.map_cons, List.sum_cons]
      omega

theorem sum_drop_mono {α : Type} (A : α → Nat) (l : List α) (i j : Nat) (h : i ≤ j) :
    ((l.drop j).map A).sum ≤ ((l.drop i).map A).sum := by
  have : l.drop i = (l.drop i).take (j - i) ++ l.drop j := by
    have h1 := (List.take_append_drop (j - i) (l.drop i)).symm
    rw [List.drop_drop] at h1
    rw [show i + (j - i) = j by omega] at h1
    exact h1
  rw [this, List.map_append, List.sum_append]
  omega

/-! ### `try_add`: allocation charge and payload -/

theorem fAlloc_set (s : PRecv.State) (i : Nat) (x : Slot) (a : Nat) :
    fAlloc (lget ({ setSlot s i x with alloc := a } : PRecv.State).slots i) = aAlloc x.asm := by
  show fAlloc (lget (lset s.slots i x) i) = _
  rw [lget_lset_same]; rfl

/-- `try_add` leaves the allocation charged to its slot alone, or charges at most the packet's
allocation size to a slot that was `Open`. -/
theorem tryAdd_fAlloc (s : PRecv.State) (i : Nat) (d : Datagram) (s1 : PRecv.State) (o : Option Packet)
    (h : tryAdd s i d = .ok (s1, o)) :
    fAlloc (lget s1.slots i) = fAlloc (lget s.slots i) ∨
    ((lget s.slots i).asm = .opened ∧ fAlloc (lget s1.slots i) ≤ packetAllocSize d) := by
  unfold tryAdd at h
  simp only at h
  cases hasm : (getSlot s i).asm with
  | opened =>
    right
    refine ⟨hasm, ?_⟩
    rw [hasm] at h
    simp only at h
    split at h
    · cases h
      show fAlloc (lget (lset s.slots i _) i) ≤ _
      rw [lget_lset_same]
      exact Nat.zero_le _
    · split at h
      · cases h
        rw [fAlloc_set]
        exact Nat.le_refl _
      · split at h
        · cases h
        · cases h
          rw [fAlloc_set]
          exact Nat.le_refl _
  | closed a =>
    rw [hasm] at h
    simp only at h
    cases h
    exact Or.inl rfl
  | active a chan wpl cpl last buf =>
    left
    have hold : fAlloc (lget s.slots i) = a := by
      show aAlloc (getSlot s i).asm = a
      rw [hasm]; rfl
    rw [hasm] at h
    simp only at h
    split at h
    · cases h; rfl
    · split at h
      · cases h
      · split at h
        · cases h
          show fAlloc (lget (lset s.slots i _) i) = _
          rw [lget_lset_same, hold]; rfl
        · cases h
          show fAlloc (lget (lset s.slots i _) i) = _
          rw [lget_lset_same, hold]; rfl

/-- A packet handed over by `try_add` carries a payload unless it was refused for exceeding the
allocation limit. -/
theorem tryAdd_some_data (s : PRecv.State) (i : Nat) (d : Datagram) (s1 : PRecv.State) (p : Packet)
    (h : tryAdd s i d = .ok (s1, some p))
    (hroom : (getSlot s i).asm = .opened → s.alloc + packetAllocSize d ≤ s.maxAlloc) : p.data ≠ none := by
  unfold tryAdd at h
  simp only at h
  cases hasm : (getSlot s i).asm with
  | opened =>
    have := hroom hasm
    rw [hasm] at h
    simp only at h
    split at h
    · omega
    · split at h
      · simp only [Except.ok.injEq, Prod.mk.injEq, Option.some.injEq] at h
        obtain ⟨-, rfl⟩ := h
        intro hc; cases hc
      · split at h
        · cases h
        · cases h
  | closed a =>
    rw [hasm] at h
    simp only at h
    cases h
  | active a chan wpl cpl last buf =>
    rw [hasm] at h
    simp only at h
    split at h
    · cases h
    · split at h
      · cases h
      · split at h
        · simp only [Except.ok.injEq, Prod.mk.injEq, Option.some.injEq] at h
          obtain ⟨-, rfl⟩ := h
          intro hc; cases hc
        · cases h

/-- The receiver's allocation size of a genuine fragment's packet is the sender's. -/
theorem packetAllocSize_genuine (p : Pending) (hwf : WF p) (d : Datagram) (hd : Genuine p d) :
    packetAllocSize d = allocSize p.data.length := by
  obtain ⟨k, hk, hdk⟩ := hd
  have he := genuine_eq p hwf d k hk hdk
  have hl : d.fragmentIdLast = p.lastFragmentId := by rw [he]
  have hdata : d.data = frag p.data k := by rw [he]
  unfold packetAllocSize
  rw [hl, hdata]
  have hwf' : p.lastFragmentId = numFragments p.data.length - 1 := hwf
  have hpos := numFragments_pos p.data.length
  have hlen : (frag p.data k).length = min 1448 (p.data.length - k * 1448) := by
    simp only [frag, List.length_take, List.length_drop]
  rw [hlen, hwf']
  rw [hwf'] at hk
  generalize p.data.length = n at *
  simp only [numFragments, allocSize, MAX_FRAGMENT_SIZE] at *
  by_cases h0 : n = 0
  · subst h0
    simp only [if_true] at hk ⊢
    have hk0 : k = 0 := by omega
    subst hk0
    decide
  · simp only [if_neg h0] at hk hpos ⊢
    split <;> split <;> omega

/-! ### `handle_datagram`, slot by slot -/

/-- `handle_datagram` changes nothing, or reaches `try_add` on the slot of the datagram. -/
theorem handleDatagram_cases {W M : Nat} {s s' : PRecv.State} (hinv : Inv W M s) (d : Datagram)
    (hd : handleDatagram s d = .ok s') :
    s' = s ∨ (datagramIsValid d = true ∧ pidSub d.sequenceId s.baseId < W ∧ s'.baseId = s.baseId ∧
      ∃ s1 o, tryAdd s (wi W d.sequenceId) d = .ok (s1, o) ∧
        (∀ k, (lget s'.slots k).asm = (lget s1.slots k).asm) ∧
        (∀ k, k ≠ wi W d.sequenceId → lget s'.slots k = lget s.slots k) ∧
        (o = none → (lget s'.slots (wi W d.sequenceId)).data = (lget s.slots (wi W d.sequenceId)).data ∧
          (lget s'.slots (wi W d.sequenceId)).dataFlag = (lget s.slots (wi W d.sequenceId)).dataFlag) ∧
        (∀ p, o = some p → (lget s'.slots (wi W d.sequenceId)).data = p.data)) := by
  rw [handleDatagram_eq] at hd
  by_cases hv : datagramIsValid d = true
  case neg => rw [if_pos (by simpa using hv)] at hd; cases hd; exact Or.inl rfl
  rw [if_neg (by simp [hv])] at hd
  obtain ⟨hchan, -, -⟩ := valid_facts d hv
  obtain ⟨ch0, hch0⟩ := hinv.chan_get d.channelId hchan
  rw [chanBase_of_get hch0] at hd
  simp only at hd
  split at hd
  · cases hd; exact Or.inl rfl
  rename_i hlead
  split at hd
  · cases hd; exact Or.inl rfl
  rw [widx_eq hinv] at hd
  rw [hinv.wsz] at hlead
  right
  cases ht : tryAdd s (wi W d.sequenceId) d with
  | error t => rw [ht] at hd; cases hd
  | ok r =>
    obtain ⟨s1, o⟩ := r
    rw [ht] at hd
    have hfr := tryAdd_frame s _ d s1 o ht
    obtain ⟨A, hA⟩ := hfr.same
    cases o with
    | none =>
      cases hd
      refine ⟨hv, by omega, hfr.base, s', none, rfl, fun _ => rfl, hfr.other, fun _ => ?_, fun p hp => by cases hp⟩
      rw [hA]; exact ⟨rfl, rfl⟩
    | some p =>
      simp only at hd
      cases hd
      obtain ⟨hb2, -, -, hs2⟩ := hdPost_facts s1 (wi W d.sequenceId) d p
        ((cbase s d.channelId).getD s.baseId) s.baseId
      refine ⟨hv, by omega, by rw [hb2, hfr.base], s1, some p, rfl, ?_, ?_, (fun hc => by cases hc), ?_⟩
      · intro k
        rw [hs2, lget_lset]
        split
        · rename_i hk; rw [hk, getSlot_eq]
        · rfl
      · intro k hk
        rw [hs2, lget_lset, if_neg hk, hfr.other k hk]
      · intro p' hp'
        cases hp'
        rw [hs2, lget_lset, if_pos rfl]

end Uflow.Sys
