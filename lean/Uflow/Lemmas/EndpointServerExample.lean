import Uflow.Lemmas.EndpointServerProv

/-!
A concrete two-step run of the server model (evaluated by the kernel), used for the non-vacuity
examples of C07 / C17 / C18: a SYN from address 7 together with a junk datagram from address 9,
then the matching handshake ACK from address 7.
-/

namespace Uflow.Endpoint.Ex

open Uflow.Endpoint Uflow.Codec Uflow.Gen

/-- a dummy half connection over `Unit` -/
def hc0 : HC Unit :=
  { new := fun _ _ => (), send := fun _ _ _ _ => (), dispatch := fun _ _ => .ok (), step := fun _ _ => .ok (),
    flush := fun _ r => .ok ((), r, []), receive := fun _ => .ok ((), []), isSendPending := fun _ => false,
    sendBufferSize := fun _ => 0 }

def ep0 : EpConfig :=
  { maxSendRate := 1000000, maxReceiveRate := 1000000, maxPacketSize := 1000, maxReceiveAlloc := 100000,
    keepalive := true, keepaliveIntervalMs := 1000, activeTimeoutMs := 15000 }

def cfg0 : SrvConfig := { maxTotalConnections := 4, maxActiveConnections := 2, enableHandshakeErrors := true, ep := ep0 }

/-- initial state; the first nonce the server draws is 77 -/
def s0 : Server Unit := Server.init cfg0 0 ⟨[77], 1⟩

def synBytes : List Nat := encode (.syn PROTOCOL_VERSION 5 1000000 1000 100000)
def ackBytes : List Nat := encode (.hsAck 77)

def op1 : SOp := .step 1000000 [(7, synBytes), (9, [1, 2, 3])]
def op2 : SOp := .step 2000000 [(7, ackBytes)]

def chk : Bool :=
  match s0.apply hc0 op1 with
  | .ok (s1, sent1, evs1) =>
    match s1.apply hc0 op2 with
    | .ok (s2, sent2, evs2) =>
      (bytesOf 7 sent1 == 25) && (bytesOf 9 sent1 == 0) && (evs1 == []) && (s1.clients.length == 1) &&
      (s1.activeCount == 1) && (evs2 == [SEvent.connect 7]) && (s2.activeCount == 1) && (bytesOf 7 sent2 == 0)
    | .error _ => false
  | .error _ => false

set_option maxRecDepth 100000 in
theorem chk_true : chk = true := by decide +kernel

/-- The concrete run. -/
theorem run :
    ∃ (s1 s2 : Server Unit) (sent1 sent2 : List (Nat × List Nat)),
      s0.apply hc0 op1 = .ok (s1, sent1, []) ∧ s1.apply hc0 op2 = .ok (s2, sent2, [SEvent.connect 7]) ∧
      bytesOf 7 sent1 = 25 ∧ bytesOf 9 sent1 = 0 ∧ s1.clients.length = 1 ∧ s1.activeCount = 1 ∧
      s2.activeCount = 1 ∧ bytesOf 7 sent2 = 0 := by
  have h := chk_true
  unfold chk at h
  split at h
  · rename_i s1 sent1 evs1 h1
    split at h
    · rename_i s2 sent2 evs2 h2
      simp only [Bool.and_eq_true, beq_iff_eq] at h
      obtain ⟨⟨⟨⟨⟨⟨⟨e1, e2⟩, e3⟩, e4⟩, e5⟩, e6⟩, e7⟩, e8⟩ := h
      subst e3 e6
      exact ⟨s1, s2, sent1, sent2, h1, h2, e1, e2, e4, e5, e7, e8⟩
    · cases h
  · cases h

theorem rx1_bytes : bytesOf 7 ([] ++ op1.arrivals) = 1472 ∧ bytesOf 9 ([] ++ op1.arrivals) = 3 := by
  simp [op1, SOp.arrivals, bytesOf, synBytes, encode_syn_length]

end Uflow.Endpoint.Ex
