import Uflow.Lemmas.EpCeilSrv

/-!
C13 (endpoints), part 2: the client invariant of `EpNoTrapCli.lean` for the refined contract
`HCOkA` (peer address index `0`; `PInv 0 n r a` = "a SYN-ACK carrying the server nonce `n`, the rate
`r` and the allocation `a` was received"). `CInvA ep …` also records that the client's endpoint
configuration is `ep` (it never changes).
-/

namespace Uflow.EpCeil

open Uflow Uflow.Gen Uflow.Codec Uflow.HalfConn Uflow.Endpoint Uflow.EpNoTrap

variable {H : Type}

def CStOkA (Inv : Nat → H → Prop) (last : H → Nat) (T : Nat) : CState H → Prop
  | .pending ln _ _ _ sends => ln < 2^32 ∧ ∀ e ∈ sends, SendOk e
  | .active _ h _ _ => Inv 0 h ∧ last h ≤ T
  | _ => True

/-- The client invariant. -/
def CInvA (ep : EpConfig) (Inv : Nat → H → Prop) (last : H → Nat) (T : Nat) (c : Client H) : Prop :=
  c.ep = ep ∧ CStOkA Inv last T c.state

variable {ep : EpConfig} {PInv : Nat → Nat → Nat → Nat → Prop} {Inv : Nat → H → Prop} {last : H → Nat}
  {T : Nat} {hc : HC H}

theorem CInvA.mono {T T' : Nat} {c : Client H} (hi : CInvA ep Inv last T c) (h : T ≤ T') :
    CInvA ep Inv last T' c := by
  refine ⟨hi.1, ?_⟩
  have hi := hi.2
  cases hs : c.state with
  | pending _ _ _ _ _ => rw [hs] at hi; exact hi
  | active _ h' _ _ => rw [hs] at hi; exact ⟨hi.1, Nat.le_trans hi.2 h⟩
  | closing _ _ _ => trivial
  | closed _ => trivial
  | fin => trivial

/-- `Client::connect`. -/
theorem connect_inv (ep : EpConfig) (now : Nat) (rng : Rng) (T : Nat) :
    CInvA ep Inv last T (Client.connect ep now rng : Client H × List (List Nat)).1 := by
  unfold Client.connect CInvA
  exact ⟨rfl, Nat.mod_lt _ (by decide), fun e he => by cases he⟩

theorem foldl_send_inv (hok : HCOkA hc ep PInv Inv last) (sends : List (List Nat × Nat × SendMode))
    (hs : ∀ e ∈ sends, SendOk e) : ∀ (h : H), Inv 0 h → last h = T →
    Inv 0 (sends.foldl (fun h (e : List Nat × Nat × SendMode) => hc.send h e.1 e.2.1 e.2.2) h) ∧
    last (sends.foldl (fun h (e : List Nat × Nat × SendMode) => hc.send h e.1 e.2.1 e.2.2) h) = T := by
  induction sends with
  | nil => intro h hi hl; exact ⟨hi, hl⟩
  | cons e rest ih =>
    intro h hi hl
    obtain ⟨h1, h2⟩ := hok.send 0 h e.1 e.2.1 e.2.2 hi (hs e List.mem_cons_self).1 (hs e List.mem_cons_self).2
    exact ih (fun x hx => hs x (List.mem_cons_of_mem _ hx)) _ h1 (h2.trans hl)

/-- `handle_frame` of the client: ANY decoded frame; a SYN-ACK must satisfy `PInv 0`. -/
theorem cHandleFrame_ok (hok : HCOkA hc ep PInv Inv last) {c : Client H} (hi : CInvA ep Inv last T c) (f : Frame)
    (nowMs : Nat) (hP : ∀ na n r p a, f = .synAck na n r p a → PInv 0 n r a) :
    ∃ r, c.handleFrame hc f nowMs T = .ok r ∧ CInvA ep Inv last T r.1 := by
  have htraffic : ∀ f : Frame, ∃ r, cTraffic hc c f nowMs = .ok r ∧ CInvA ep Inv last T r.1 := by
    intro f
    unfold cTraffic
    split
    · rename_i ln h t sig hst
      have hs : CStOkA Inv last T c.state := hi.2
      rw [hst] at hs
      obtain ⟨h', hr, h1, h2⟩ := hok.dispatch 0 h f hs.1
      rw [hr]
      exact ⟨_, rfl, hi.1, ⟨h1, by rw [h2]; exact hs.2⟩⟩
    · exact ⟨_, rfl, hi⟩
  cases f with
  | syn _ _ _ _ _ => exact ⟨_, rfl, hi⟩
  | hsAck _ => exact ⟨_, rfl, hi⟩
  | synAck na n r p a =>
    unfold Client.handleFrame
    simp only
    split
    · rename_i ln req rt rc sends hst
      split
      · have hs : CStOkA Inv last T c.state := hi.2
        rw [hst] at hs
        rw [hi.1]
        obtain ⟨h1, h2⟩ := hok.new 0 ln n r a T hs.1 (hP na n r p a rfl)
        obtain ⟨h3, h4⟩ := foldl_send_inv hok sends hs.2 _ h1 h2
        exact ⟨_, rfl, rfl, ⟨h3, Nat.le_of_eq h4⟩⟩
      · exact ⟨_, rfl, hi⟩
    · split
      · exact ⟨_, rfl, hi⟩
      · exact ⟨_, rfl, hi⟩
    · exact ⟨_, rfl, hi⟩
  | hsError na e =>
    unfold Client.handleFrame
    simp only
    split
    · split
      · exact ⟨_, rfl, hi.1, trivial⟩
      · exact ⟨_, rfl, hi⟩
    · exact ⟨_, rfl, hi⟩
  | disconnect =>
    unfold Client.handleFrame
    simp only
    split
    · exact ⟨_, rfl, hi⟩
    · rename_i ln h t sig hst
      have hs : CStOkA Inv last T c.state := hi.2
      rw [hst] at hs
      obtain ⟨h', out, hr, _, _⟩ := hok.receive 0 h hs.1
      rw [hr]
      exact ⟨_, rfl, hi.1, trivial⟩
    · exact ⟨_, rfl, hi.1, trivial⟩
    · exact ⟨_, rfl, hi⟩
    · exact ⟨_, rfl, hi⟩
  | disconnectAck =>
    unfold Client.handleFrame
    simp only
    split
    · exact ⟨_, rfl, hi.1, trivial⟩
    · exact ⟨_, rfl, hi⟩
  | data x y z => exact htraffic (.data x y z)
  | sync x y => exact htraffic (.sync x y)
  | ack x y z => exact htraffic (.ack x y z)

/-- `handle_events` of the client. -/
theorem cHandleEvents_inv {c : Client H} (hi : CInvA ep Inv last T c) (nowMs : Nat) :
    CInvA ep Inv last T (c.handleEvents nowMs).1 := by
  unfold Client.handleEvents
  split
  · rename_i ln req rt rc sends hst
    have hs : CStOkA Inv last T c.state := hi.2
    rw [hst] at hs
    split
    · split
      · exact ⟨hi.1, hs⟩
      · exact ⟨hi.1, trivial⟩
    · exact hi
  · split
    · exact ⟨hi.1, trivial⟩
    · exact hi
  · split
    · split
      · exact ⟨hi.1, trivial⟩
      · exact ⟨hi.1, trivial⟩
    · exact hi
  · split
    · exact ⟨hi.1, trivial⟩
    · exact hi
  · exact hi

/-- `Client::flush`. -/
theorem cFlush_ok (hok : HCOkA hc ep PInv Inv last) {c : Client H} (hi : CInvA ep Inv last T c) :
    ∃ r, c.flush hc = .ok r ∧ CInvA ep Inv last T r.1 := by
  unfold Client.flush
  split
  · rename_i ln h t sig hst
    have hs : CStOkA Inv last T c.state := hi.2
    rw [hst] at hs
    obtain ⟨h1, rng1, out, hr, i1, l1⟩ := hok.flush 0 h c.rng hs.1
    rw [hr]
    exact ⟨_, rfl, hi.1, ⟨i1, by rw [l1]; exact hs.2⟩⟩
  · exact ⟨_, rfl, hi⟩

/-- Every SYN-ACK among the datagrams satisfies `PInv 0`. -/
def CArrOk (PInv : Nat → Nat → Nat → Nat → Prop) (arrivals : List (List Nat)) : Prop :=
  ∀ x ∈ arrivals, ∀ na n r p a, decode (x.take MAX_FRAME_SIZE) = some (.synAck na n r p a) → PInv 0 n r a

/-- The body of the datagram loop of `Client::step`. -/
def cFrameStep (hc : HC H) (nowMs nowNs : Nat) (acc : Client H × List (List Nat)) (bytes : List Nat) :
    R (Client H × List (List Nat)) :=
  match decode (bytes.take MAX_FRAME_SIZE) with
  | none => .ok acc
  | some f =>
    match acc.1.handleFrame hc f nowMs nowNs with
    | .error e => .error e
    | .ok (c', out) => .ok (c', acc.2 ++ out)

theorem cFrames_eq (hc : HC H) (c : Client H) (arrivals : List (List Nat)) (nowMs nowNs : Nat) :
    cFrames hc c arrivals nowMs nowNs = arrivals.foldlM (cFrameStep hc nowMs nowNs) (c, []) := rfl

theorem cFrames_ok (hok : HCOkA hc ep PInv Inv last) {c : Client H} (hi : CInvA ep Inv last T c)
    (arrivals : List (List Nat)) (nowMs : Nat) (harr : CArrOk PInv arrivals) :
    ∃ r, cFrames hc c arrivals nowMs T = .ok r ∧ CInvA ep Inv last T r.1 := by
  rw [cFrames_eq]
  suffices h : ∀ (acc : Client H × List (List Nat)), CInvA ep Inv last T acc.1 →
      ∃ r, arrivals.foldlM (cFrameStep hc nowMs T) acc = .ok r ∧ CInvA ep Inv last T r.1 from h (c, []) hi
  induction arrivals with
  | nil => intro acc ha; exact ⟨acc, rfl, ha⟩
  | cons a rest ih =>
    intro acc ha
    rw [List.foldlM_cons]
    have h1 : ∃ r, cFrameStep hc nowMs T acc a = .ok r ∧ CInvA ep Inv last T r.1 := by
      unfold cFrameStep
      split
      · exact ⟨acc, rfl, ha⟩
      · rename_i f hd
        obtain ⟨r, hr, h'⟩ := cHandleFrame_ok hok ha f nowMs
          (fun na n r p al hf => harr a List.mem_cons_self na n r p al (by rw [hd, hf]))
        rw [hr]
        exact ⟨_, rfl, h'⟩
    obtain ⟨r1, hr1, i1⟩ := h1
    rw [hr1]
    exact ih (fun x hx => harr x (List.mem_cons_of_mem _ hx)) r1 i1

theorem cStepIf_ok (hok : HCOkA hc ep PInv Inv last) {c : Client H} (hi : CInvA ep Inv last T c) (nowMs : Nat) :
    ∃ r, cStepIf hc c nowMs T = .ok r ∧ CInvA ep Inv last T r.1 := by
  unfold cStepIf
  split
  · rename_i ln h t sig hst
    have hs : CStOkA Inv last T c.state := hi.2
    rw [hst] at hs
    simp only
    split <;> split <;> first
      | (obtain ⟨h', out, hr, _, _⟩ := hok.receive 0 h hs.1
         rw [hr]
         exact ⟨_, rfl, hi.1, trivial⟩)
      | (obtain ⟨h1, hr1, i1, l1⟩ := hok.step 0 h T hs.1 hs.2
         rw [hr1]
         obtain ⟨h2, out, hr2, i2, l2⟩ := hok.receive 0 h1 i1
         simp only [hr2]
         exact ⟨_, rfl, hi.1, ⟨i2, by rw [l2, l1]; exact Nat.le_refl _⟩⟩)
      | (rename_i hne; exact absurd rfl hne)
      | (rename_i hne; cases hne)
  · exact ⟨_, rfl, hi⟩

/-- `Client::step`. -/
theorem cStep_ok (hok : HCOkA hc ep PInv Inv last) {c : Client H} (hi : CInvA ep Inv last T c) (nowNs : Nat)
    (hle : T ≤ nowNs) (arrivals : List (List Nat)) (harr : CArrOk PInv arrivals) :
    ∃ c' sent evs, c.step hc nowNs arrivals = .ok (c', sent, evs) ∧ CInvA ep Inv last nowNs c' := by
  have hi0 := hi.mono hle
  obtain ⟨r1, h1, i1⟩ := cFlush_ok hok hi0
  obtain ⟨r2, h2, i2⟩ := cFrames_ok hok i1 arrivals ((nowNs - c.timeBase) / 1000000) harr
  have i3 := cHandleEvents_inv i2 ((nowNs - c.timeBase) / 1000000)
  obtain ⟨r4, h4, i4⟩ := cStepIf_ok hok i3 ((nowNs - c.timeBase) / 1000000)
  refine ⟨{ r4.1 with eventsOut := [] },
    r1.2 ++ r2.2 ++ (r2.1.handleEvents ((nowNs - c.timeBase) / 1000000)).2 ++ r4.2, r4.1.eventsOut, ?_, i4⟩
  unfold Client.step
  simp only
  split
  · rename_i e he
    cases he.symm.trans h1
  · rename_i c1 sent1 he
    cases he.symm.trans h1
    split
    · rename_i e he2
      cases he2.symm.trans h2
    · rename_i c2 sent2 he2
      cases he2.symm.trans h2
      split
      · rename_i e he4
        cases he4.symm.trans h4
      · rename_i c4 sent4 he4
        cases he4.symm.trans h4
        rfl

theorem cSend_inv (hok : HCOkA hc ep PInv Inv last) {c : Client H} (hi : CInvA ep Inv last T c) (data : List Nat)
    (chan : Nat) (mode : SendMode) (hlen : data.length ≤ MAX_PACKET_SIZE) (hch : chan < CHANNEL_COUNT) :
    CInvA ep Inv last T (c.send hc data chan mode) := by
  unfold Client.send
  split
  · rename_i ln req rt rc sends hst
    have hs : CStOkA Inv last T c.state := hi.2
    rw [hst] at hs
    refine ⟨hi.1, hs.1, ?_⟩
    intro e he
    rcases List.mem_append.1 he with he | he
    · exact hs.2 e he
    · simp only [List.mem_singleton] at he
      subst he
      exact ⟨hlen, hch⟩
  · rename_i ln h t sig hst
    have hs : CStOkA Inv last T c.state := hi.2
    rw [hst] at hs
    obtain ⟨h1, h2⟩ := hok.send 0 h data chan mode hs.1 hlen hch
    exact ⟨hi.1, h1, by rw [h2]; exact hs.2⟩
  · exact hi

theorem cDisconnect_inv {c : Client H} (hi : CInvA ep Inv last T c) (m : DisconnectMode) :
    CInvA ep Inv last T (c.disconnect m) := by
  unfold Client.disconnect
  split
  · exact ⟨hi.1, trivial⟩
  · rename_i ln h t sig hst
    have hs : CStOkA Inv last T c.state := hi.2
    rw [hst] at hs
    exact ⟨hi.1, hs⟩
  · exact hi

/-- The datagrams an operation hands to the client. -/
def copArrivals : COp → List (List Nat)
  | .step _ arr => arr
  | _ => []

theorem cApply_ok (hok : HCOkA hc ep PInv Inv last) {c : Client H} (hi : CInvA ep Inv last T c) (op : COp)
    (hop : copOk T op = true) (harr : CArrOk PInv (copArrivals op)) :
    ∃ c' sent evs, c.apply hc op = .ok (c', sent, evs) ∧ CInvA ep Inv last (copTime T op) c' := by
  cases op with
  | step now arr =>
    simp only [copOk, decide_eq_true_eq] at hop
    exact cStep_ok hok hi now hop arr harr
  | flush =>
    obtain ⟨⟨c', sent⟩, hr, hi'⟩ := cFlush_ok hok hi
    exact ⟨c', sent, [], by simp only [Client.apply, hr], hi'⟩
  | disconnect m => exact ⟨_, [], [], rfl, cDisconnect_inv hi m⟩
  | send data chan mode =>
    simp only [copOk, Bool.and_eq_true, decide_eq_true_eq] at hop
    exact ⟨_, [], [], rfl, cSend_inv hok hi data chan mode hop.1 hop.2⟩

theorem cRun_ok (hok : HCOkA hc ep PInv Inv last) (ops : List COp) : ∀ {T : Nat} {c : Client H},
    CInvA ep Inv last T c → copsOk T ops = true → (∀ op ∈ ops, CArrOk PInv (copArrivals op)) →
    ∃ c' sent evs, Client.run hc c ops = .ok (c', sent, evs) ∧ CInvA ep Inv last (copsTime T ops) c' := by
  induction ops with
  | nil => intro T c hi _ _; exact ⟨c, [], [], rfl, hi⟩
  | cons op rest ih =>
    intro T c hi hop harr
    simp only [copsOk, Bool.and_eq_true] at hop
    obtain ⟨c1, sent1, evs1, h1, i1⟩ := cApply_ok hok hi op hop.1 (harr op List.mem_cons_self)
    obtain ⟨c2, sent2, evs2, h2, i2⟩ := ih i1 hop.2 (fun o ho => harr o (List.mem_cons_of_mem _ ho))
    exact ⟨c2, sent1 ++ sent2, evs1 ++ evs2, by simp only [Client.run, h1, h2], i2⟩

end Uflow.EpCeil
