import Uflow.Lemmas.TsDropMain
import Uflow.Lemmas.CreditEx
import Uflow.Lemmas.FrameQAckGroup

/-!
C12 (TimeSensitive drop): the flush id is a wrapping `u32`. `step` does not read it, so a state that
is a fixed point of `step` up to the flush id can be stepped any number of times in closed form —
in particular 2^32 − 1 times, after which a stale TimeSensitive packet is "fresh" again.
-/

namespace Uflow.TsDrop

open Uflow Uflow.Gen Uflow.Codec Uflow.HalfConn Uflow.Wire Uflow.Modes Uflow.Heap Uflow.Credit
open Uflow.HcFrame Uflow.CreditEx
open Uflow.Rate (FloatOps)

deriving instance DecidableEq for Uflow.Rate.State
deriving instance DecidableEq for Uflow.HalfConn.State

variable {F : Type}

theorem fill_setFlushId (ops : FloatOps F) (s : State F) (now g : Nat) :
    fillFlushAlloc ops ({ s with flushId := g } : State F) now =
      { fillFlushAlloc ops s now with flushId := g } := by
  cases h : s.timeLastFlushed <;> simp [fillFlushAlloc, h]

theorem fill_flushId (ops : FloatOps F) (s : State F) (now : Nat) :
    (fillFlushAlloc ops s now).flushId = s.flushId := (fill_frame ops s now).2.2.2.1

/-- `stepP` (the body of `step`) never reads the flush id. -/
theorem stepP_setFlushId (ops : FloatOps F) (s : State F) (now nowMs g : Nat) (w : Nat → Nat → Nat)
    (ff : FrameQ.State → Nat → Option Nat → R FrameQ.State)
    (gf : FrameQ.State → Nat → R (FrameQ.State × Option (Rate.Feedback F)))
    (rs : Rate.State F → Nat → Option (Rate.Feedback F) → R (Rate.State F × Option F))
    (rl : FrameQ.State → F → R FrameQ.State) :
    stepP ops ({ s with flushId := g } : State F) now nowMs w ff gf rs rl =
      (stepP ops s now nowMs w ff gf rs rl).map fun s' => { s' with flushId := w g 1 } := by
  unfold stepP
  simp only
  generalize ff s.fq _ _ = r1
  cases r1 with
  | error t => rfl
  | ok fq =>
    simp only
    have hfill := fill_setFlushId ops
      ({ s with nowMs := nowMs, rttMs := s.rate.rttMs.getD INITIAL_RTT_ESTIMATE_MS,
                rtoMs := s.rate.rtoMs.getD INITIAL_RTO_ESTIMATE_MS, fq := fq } : State F) now g
    simp only at hfill
    rw [hfill]
    simp only
    generalize gf _ _ = r2
    cases r2 with
    | error t => rfl
    | ok v =>
      obtain ⟨fq2, fbk⟩ := v
      simp only
      generalize rs _ _ _ = r3
      cases r3 with
      | error t => rfl
      | ok v3 =>
        obtain ⟨rate, reset⟩ := v3
        cases reset with
        | none => rfl
        | some p =>
          simp only
          generalize rl fq2 p = r4
          cases r4 with
          | error t => rfl
          | ok fq3 => rfl

/-- `step` never reads the flush id. -/
theorem step_setFlushId (ops : FloatOps F) (s : State F) (now g : Nat) :
    step ops ({ s with flushId := g } : State F) now =
      (step ops s now).map fun s' => { s' with flushId := wadd32 g 1 } := by
  rw [step_eq, step_eq]
  exact stepP_setFlushId ops s now _ g wadd32 _ _ _ _

/-- Closed form of `n` steps (at the same time `t`) from a state that `step` maps to itself up to
the flush id. -/
theorem runT_steps (ops : FloatOps F) (s0 : State F) (t c : Nat)
    (hB : step ops s0 t = .ok ({ s0 with flushId := c } : State F)) (n g : Nat) (hg : g < 2 ^ 32) :
    runT ops ({ s0 with flushId := g } : State F) (List.replicate n (.step t)) =
      .ok (({ s0 with flushId := (g + n) % 2 ^ 32 } : State F), []) := by
  induction n generalizing g with
  | zero =>
    simp only [List.replicate_zero, runT, Nat.add_zero]
    rw [Nat.mod_eq_of_lt hg]
  | succ n ih =>
    have h1 : execT ops ({ s0 with flushId := g } : State F) (.step t) =
        .ok (({ s0 with flushId := wadd32 g 1 } : State F), []) := by
      simp only [execT, exec]
      rw [step_setFlushId, hB]
      rfl
    have hlt : wadd32 g 1 < 2 ^ 32 := by simp only [wadd32]; omega
    have h2 := ih (wadd32 g 1) hlt
    have he : (wadd32 g 1 + n) % 2 ^ 32 = (g + (n + 1)) % 2 ^ 32 := by
      simp only [wadd32]; omega
    rw [he] at h2
    simp only [List.replicate_succ, runT, h1, h2, List.append_nil]

/-- The same from `s0` itself. -/
theorem runT_steps_from (ops : FloatOps F) (s0 : State F) (t c : Nat)
    (hB : step ops s0 t = .ok ({ s0 with flushId := c } : State F)) (g : Nat)
    (hg : s0.flushId = g) (hlt : g < 2 ^ 32) (n : Nat) :
    runT ops s0 (List.replicate n (.step t)) =
      .ok (({ s0 with flushId := (g + n) % 2 ^ 32 } : State F), []) := by
  have := runT_steps ops s0 t c hB n g hlt
  have e : ({ s0 with flushId := g } : State F) = s0 := by subst hg; rfl
  rwa [e] at this

theorem stepCount_replicate (t n : Nat) (l : List Ev) :
    stepCount (List.replicate n (.step t) ++ l) = n + stepCount l := by
  induction n with
  | zero => simp
  | succ n ih =>
    simp only [List.replicate_succ, List.cons_append, stepCount, ih]
    omega

/-- Two runs compose. -/
theorem runT_append_ok (ops : FloatOps F) (evs1 evs2 : List Ev) (s s1 s2 : State F)
    (tr1 tr2 : List Push) (h1 : runT ops s evs1 = .ok (s1, tr1))
    (h2 : runT ops s1 evs2 = .ok (s2, tr2)) :
    runT ops s (evs1 ++ evs2) = .ok (s2, tr1 ++ tr2) := by
  induction evs1 generalizing s tr1 with
  | nil =>
    simp only [runT, Except.ok.injEq, Prod.mk.injEq] at h1
    obtain ⟨rfl, rfl⟩ := h1
    simpa using h2
  | cons ev rest ih =>
    simp only [List.cons_append, runT] at h1 ⊢
    generalize execT ops s ev = r1 at h1 ⊢
    cases r1 with
    | error t => cases h1
    | ok v =>
      obtain ⟨sa, tra⟩ := v
      simp only at h1 ⊢
      generalize hr : runT ops sa rest = r2 at h1
      cases r2 with
      | error t => cases h1
      | ok v2 =>
        obtain ⟨sb, trb⟩ := v2
        simp only [Except.ok.injEq, Prod.mk.injEq] at h1
        obtain ⟨rfl, rfl⟩ := h1
        rw [ih sa trb hr]
        simp only [List.append_assoc]

/-- `exState exEvsTs` is a fixed point of `step` (at the time of its last step) up to the flush id. -/
theorem exTs_step_fix :
    step exOps (exState exEvsTs) 1000000000 =
      .ok ({ exState exEvsTs with flushId := 3 } : State Nat) := by decide +kernel

end Uflow.TsDrop
