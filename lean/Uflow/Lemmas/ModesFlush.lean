import Uflow.Lemmas.ModesLoops
import Uflow.Lemmas.Credit

/-!
C12: `Spec` for `emitDataFramesT` and `flushT`.
-/

namespace Uflow.Modes

open Uflow Uflow.Gen Uflow.Codec Uflow.HalfConn Uflow.Wire Uflow.Heap Uflow.Credit
open Uflow.PSend (Dead)

variable {F : Type}

theorem emitDataFramesT_spec (s s' : State F) (out : List (List Nat)) (st : Stage)
    (tr : List Push) (hq : QInv s) (h : emitDataFramesT s = .ok (s', out, st, tr)) :
    Spec s tr s' := by
  unfold emitDataFramesT at h
  simp only at h
  cases hr : resendLoopT (2 * s.resend.size + 16 + s.flushAlloc.toNat)
      ({ s := s, inProg := none, out := [] } : Emit F) [] with
  | error t => rw [hr] at h; cases h
  | ok v =>
    obtain ⟨e1, st1, tr1⟩ := v
    rw [hr] at h
    obtain ⟨add1, hadd1, hs1⟩ := resendLoopT_spec _ _ e1 [] tr1 st1 hq hr
    rw [List.nil_append] at hadd1
    subst hadd1
    cases st1 with
    | some st1 =>
      simp only [Except.ok.injEq, Prod.mk.injEq] at h
      obtain ⟨rfl, _, _, rfl⟩ := h
      exact hs1
    | none =>
      simp only at h
      cases hp : pendingOuterT (e1.s.ps.queue.length + e1.s.pending.length + 4) e1 tr1 with
      | error t => rw [hp] at h; cases h
      | ok v2 =>
        obtain ⟨e2, st2, tr2⟩ := v2
        rw [hp] at h
        obtain ⟨add2, hadd2, hs2⟩ := pendingOuterT_spec _ e1 e2 tr1 tr2 st2 hs1.inv hp
        subst hadd2
        have hs12 := hs1.trans hs2
        cases st2 with
        | some st2 =>
          simp only [Except.ok.injEq, Prod.mk.injEq] at h
          obtain ⟨rfl, _, _, rfl⟩ := h
          exact hs12
        | none =>
          simp only [Except.ok.injEq, Prod.mk.injEq] at h
          obtain ⟨rfl, _, _, rfl⟩ := h
          have := hs12.trans (spec_txSame _ _ hs12.inv (dfeFinalize_tx e2))
          rw [List.append_nil] at this
          exact this

/-- A projection of the state that the ack frame emitter does not change. -/
theorem ackLoop_proj {α : Type} (f : State F → α) (fb pb : Nat)
    (hfin : ∀ (s : State F) ip out, f (ackFin fb pb s ip out).1 = f s)
    (hpop : ∀ (s : State F) rest, f { s with aq := { s.aq with entries := rest } } = f s)
    (fuel : Nat) (s : State F) (ip : Option AckProg) (out : List (List Nat)) :
    f (emitAckFrames.loop (ackFin fb pb) fuel s ip out).1 = f s := by
  induction fuel generalizing s ip out with
  | zero => rfl
  | succ n ih =>
    simp only [emitAckFrames.loop]
    repeat' split
    all_goals first
      | rfl
      | exact hfin _ _ _
      | (rw [ih, hpop]; try exact hfin _ _ _)

theorem emitAckFrames_tx (s : State F) : TxSame s (emitAckFrames s).1 := by
  have key : ∀ {α : Type} (f : State F → α),
      (∀ (fb pb : Nat) (s : State F) ip out, f (ackFin fb pb s ip out).1 = f s) →
      (∀ (s : State F) rest, f { s with aq := { s.aq with entries := rest } } = f s) →
      f (emitAckFrames s).1 = f s := by
    intro α f hfin hpop
    rw [emitAckFrames_eq]
    split
    · rfl
    · exact ackLoop_proj f _ _ (hfin _ _) hpop _ _ _ _
  refine ⟨key (·.ps) ?_ ?_, key (·.pending) ?_ ?_, key (·.resend) ?_ ?_, key (·.nowMs) ?_ ?_,
    key (·.rttMs) ?_ ?_, key (·.flushId) ?_ ?_⟩
  all_goals first
    | (intro fb pb s ip out; cases ip <;> rfl)
    | (intro s rest; rfl)

theorem emitSyncFrame_tx (s s' : State F) (out : List (List Nat)) (st : Stage)
    (h : emitSyncFrame s = .ok (s', out, st)) : TxSame s s' := by
  simp only [emitSyncFrame] at h
  repeat' split at h
  all_goals first
    | (cases h; exact ⟨rfl, rfl, rfl, rfl, rfl, rfl⟩)
    | cases h

/-- Everything in `Spec` holds for one `flush` with its wire trace. -/
theorem flushT_spec (s s' : State F) (out : List (List Nat)) (tr : List Push) (hq : QInv s)
    (h : flushT s = .ok (s', out, tr)) : Spec s tr s' := by
  unfold flushT at h
  have hack := emitAckFrames_tx s
  generalize emitAckFrames s = a at h hack
  obtain ⟨s1, out1, st1⟩ := a
  simp only at h hack
  have hs1 := spec_txSame s s1 hq hack
  split at h
  · simp only [Except.ok.injEq, Prod.mk.injEq] at h
    obtain ⟨rfl, _, rfl⟩ := h
    exact hs1
  · cases hd : emitDataFramesT s1 with
    | error t => rw [hd] at h; cases h
    | ok v =>
      obtain ⟨s2, out2, st2, tr2⟩ := v
      rw [hd] at h
      have hs2 := emitDataFramesT_spec s1 s2 out2 st2 tr2 hs1.inv hd
      have hs12 := hs1.trans hs2
      rw [List.nil_append] at hs12
      simp only at h
      split at h
      · simp only [Except.ok.injEq, Prod.mk.injEq] at h
        obtain ⟨rfl, _, rfl⟩ := h
        exact hs12
      · cases hy : emitSyncFrame s2 with
        | error t => rw [hy] at h; cases h
        | ok v3 =>
          obtain ⟨s3, out3, st3⟩ := v3
          rw [hy] at h
          simp only [Except.ok.injEq, Prod.mk.injEq] at h
          obtain ⟨rfl, _, rfl⟩ := h
          have := hs12.trans (spec_txSame _ _ hs12.inv (emitSyncFrame_tx _ _ _ _ hy))
          rw [List.append_nil] at this
          exact this

end Uflow.Modes
