import Uflow.Lemmas.HcMemEpCli
import Uflow.Lemmas.EpNoTrapEx

/-!
C06 (endpoints), examples: the connected example server `exSrv2` of `EpNoTrapEx.lean` (two active
connections, reached from a fresh server by the handshake datagrams) satisfies the strengthened server
invariant `SrvInv (InvA 100000)`.
-/

namespace Uflow.EpMem.Ex

open Uflow Uflow.Gen Uflow.Codec Uflow.HalfConn Uflow.Endpoint Uflow.EpNoTrap Uflow.EpMem
open Uflow.EpNoTrap.Ex Uflow.CreditEx
open Uflow.HcInv (lastNow)

theorem hcN_newAgrees (A : Nat) : NewAgrees hcN (fun c now => hcN.new (pin A c) now) A := by
  intro ep ln rn rate alloc now hA
  subst hA
  rfl

/-- One decoded frame, handled by the example server under the invariant `InvA`. -/
theorem feed_invA {s : Server HN} (hi : SrvInv (InvA (F := Nat) s.cfg.ep.maxReceiveAlloc) lastNow 1000000 s)
    (a : Nat) (f : Frame) :
    SrvInv (InvA (F := Nat) s.cfg.ep.maxReceiveAlloc) lastNow 1000000 (feed s a f) ∧ (feed s a f).cfg = s.cfg := by
  obtain ⟨s1, sent1, h1, i1⟩ := srv_handleFrame_ok
    (hcA_ok exOps exOps_converges exOps_lossOk s.cfg.ep.maxReceiveAlloc) hi a f 1
  have hc := handleFrame_congr (hcN_newAgrees s.cfg.ep.maxReceiveAlloc) s rfl a f 1 1000000
  have h1' : s.handleFrame hcN a f 1 1000000 = .ok (s1, sent1) := hc.symm.trans h1
  rw [feed_eq h1']
  exact ⟨i1, (handleFrame_cfg hcN hi.wf a f 1 1000000 h1').2⟩

theorem exSrv2_invA : SrvInv (InvA (F := Nat) 100000) lastNow 1000000 exSrv2 ∧ exSrv2.cfg = cfg0 := by
  have i0 : SrvInv (InvA (F := Nat) exSrv0.cfg.ep.maxReceiveAlloc) lastNow 1000000 exSrv0 :=
    SrvInv.init _ _ _ _
  obtain ⟨i1, c1⟩ := feed_invA i0 7 (synF 5)
  rw [← c1] at i1
  obtain ⟨i2, c2⟩ := feed_invA i1 8 (synF 6)
  rw [← c2] at i2
  obtain ⟨i3, c3⟩ := feed_invA i2 7 (.hsAck 77)
  rw [← c3] at i3
  obtain ⟨i4, c4⟩ := feed_invA i3 8 (.hsAck 88)
  have hc : exSrv2.cfg = cfg0 := by
    unfold exSrv2
    rw [c4, c3, c2, c1]; rfl
  refine ⟨?_, hc⟩
  have : (feed (feed (feed exSrv0 7 (synF 5)) 8 (synF 6)) 7 (.hsAck 77)).cfg.ep.maxReceiveAlloc = 100000 := by
    rw [c3, c2, c1]; rfl
  rw [this] at i4
  exact i4

end Uflow.EpMem.Ex
