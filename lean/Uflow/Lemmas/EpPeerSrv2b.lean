import Uflow.Lemmas.EpPeerSrv2

/-!
C09, the peer endpoint's part (server model), per address: the phases of `Server.step` seen from one address.
-/

namespace Uflow.Endpoint

open Uflow.Gen Uflow.Codec Uflow.HalfConn

variable {H : Type}

theorem flushAll_snoc (hc : HC H) (h h1 h' : H) (rs : List Rng) (r r' : Rng) (fr : List (List Nat))
    (h0 : flushAll hc h rs = .ok h1) (hf : hc.flush h1 r = .ok (h', r', fr)) : flushAll hc h (rs ++ [r]) = .ok h' := by
  unfold flushAll at h0 ⊢
  rw [List.foldlM_append, h0]
  simp only [bind, Except.bind, List.foldlM_cons, List.foldlM_nil, pure, Except.pure, hf]

theorem dispatchAll_append_ok (hc : HC H) (h h1 : H) (l1 l2 : List Frame) (h0 : dispatchAll hc h l1 = .ok h1) :
    dispatchAll hc h (l1 ++ l2) = dispatchAll hc h1 l2 := by
  unfold dispatchAll at h0 ⊢
  rw [List.foldlM_append, h0]; rfl

theorem trafficAt_cons (a : Nat) (y : Nat × List Nat) (ys : List (Nat × List Nat)) :
    trafficAt a (y :: ys) = (if y.1 = a then trafficOf [y.2] else []) ++ trafficAt a ys := by
  unfold trafficAt
  by_cases h : y.1 = a
  · rw [fromAddr_cons_eq ys h, if_pos h]; exact trafficOf_append [y.2] _
  · rw [fromAddr_cons_ne ys h, if_neg h]; rfl

theorem hasDiscAt_cons (a : Nat) (y : Nat × List Nat) (ys : List (Nat × List Nat)) :
    hasDiscAt a (y :: ys) = ((decide (y.1 = a) && hasDisc [y.2]) || hasDiscAt a ys) := by
  unfold hasDiscAt
  by_cases h : y.1 = a
  · rw [fromAddr_cons_eq ys h]; simp [hasDisc, h]
  · rw [fromAddr_cons_ne ys h]; simp [h]

/-- `flush_active_clients` seen from `a`: no event; the entry of `a` stays `active` (same deadline, same
signal), its half connection having been flushed (with the shared generator, as it was at each call). -/
theorem Server.flushActive_at (hc : HC H) (s s1 : Server H) (hw : s.WF) (o1 : List (Nat × List Nat)) (a : Nat)
    (c : RClient H) (hh : H) (t : Nat) (sig : Option DisconnectMode) (hf : s.find a = some c)
    (hst : c.state = .active hh t sig) (h : s.flushActive hc = .ok (s1, o1)) :
    s1.WF ∧ s1.eventsOut = s.eventsOut ∧ ∃ rngs h1 c1, flushAll hc hh rngs = .ok h1 ∧ s1.find a = some c1 ∧
      c1.state = .active h1 t sig := by
  rw [Server.flushActive_eq] at h
  refine foldlM_induct (Server.flushActiveStep hc)
    (fun x => x.1.WF ∧ x.1.eventsOut = s.eventsOut ∧ ∃ rngs h1 c1, flushAll hc hh rngs = .ok h1 ∧ x.1.find a = some c1 ∧
      c1.state = .active h1 t sig) ?_ s.active (s, []) (s1, o1) ⟨hw, rfl, [], hh, c, rfl, hf, hst⟩ h
  intro acc cid acc' ⟨hwx, hex, rngs, h1, c1, hfl, hfx, hsx⟩ hstep
  have tr := Server.flushActiveStep_STr hc acc acc' hwx cid hstep
  refine ⟨tr.wf, by rw [tr.events, List.append_nil, hex], ?_⟩
  obtain ⟨x, o⟩ := acc
  unfold Server.flushActiveStep at hstep
  simp only at hstep hwx hfx
  split at hstep
  · cases hstep; exact ⟨rngs, h1, c1, hfl, hfx, hsx⟩
  · next c2 hb =>
    split at hstep
    · next h2 t2 sig2 hst2 =>
      split at hstep
      · cases hstep
      · next h' rng' frames hflush =>
        cases hstep
        obtain ⟨hcm, -⟩ := Server.byCid_clients hwx hb (by rw [hst2]; intro e; cases e)
        have hwr : ({ x with rng := rng' } : Server H).WF := hwx.congr rfl rfl rfl (fun _ h => h)
        have hcm' : c2 ∈ ({ x with rng := rng' } : Server H).clients := hcm
        have hfp := Server.find_put (c' := { c2 with state := .active h' t2 sig2 }) hwr hcm' rfl rfl a
        have hfr : ({ x with rng := rng' } : Server H).find a = x.find a := rfl
        by_cases hca : a = c2.address
        · rw [if_pos hca] at hfp
          have := Server.find_of_mem hwx hcm
          rw [← hca, hfx] at this; cases this
          rw [hsx] at hst2; cases hst2
          exact ⟨rngs ++ [x.rng], h', _, flushAll_snoc hc hh h1 h' rngs x.rng rng' frames hfl hflush, hfp, rfl⟩
        · rw [if_neg hca, hfr] at hfp
          exact ⟨rngs, h1, c1, hfl, hfp.trans hfx, hsx⟩
    · cases hstep; exact ⟨rngs, h1, c1, hfl, hfx, hsx⟩

/-- The datagram loop over arrivals without a Disconnect frame from `a`, whose entry is `active`. -/
theorem Server.frames_pre_at (hc : HC H) (a : Nat) (sig : Option DisconnectMode) (nowMs nowNs : Nat) :
    ∀ (pre : List (Nat × List Nat)) (x : Server H) (o : List (Nat × List Nat)) (x' : Server H) (o' : List (Nat × List Nat))
      (c : RClient H) (hh : H) (t : Nat), x.WF → x.find a = some c → c.state = .active hh t sig →
      hasDiscAt a pre = false → pre.foldlM (Server.frameStep hc nowMs nowNs) (x, o) = .ok (x', o') →
      x'.WF ∧ QuietAt a x x' ∧ ∃ c' h' t', x'.find a = some c' ∧ c'.state = .active h' t' sig ∧
        dispatchAll hc hh (trafficAt a pre) = .ok h' := by
  intro pre
  induction pre with
  | nil =>
    intro x o x' o' c hh t hw hf hst _ h
    simp only [List.foldlM_nil, pure, Except.pure] at h; cases h
    exact ⟨hw, QuietAt.refl a x, c, hh, t, hf, hst, rfl⟩
  | cons y ys ih =>
    intro x o x' o' c hh t hw hf hst hnd h
    rw [hasDiscAt_cons, Bool.or_eq_false_iff] at hnd
    simp only [List.foldlM_cons, bind, Except.bind] at h
    split at h
    · cases h
    · next acc hacc =>
      obtain ⟨x1, o1⟩ := acc
      rw [trafficAt_cons]
      unfold Server.frameStep at hacc
      split at hacc
      · next hd =>
        cases hacc
        obtain ⟨w, q, c', h', t', r1, r2, r3⟩ := ih x o x' o' c hh t hw hf hst hnd.2 h
        refine ⟨w, q, c', h', t', r1, r2, ?_⟩
        have : (if y.1 = a then trafficOf [y.2] else []) = [] := by
          split
          · exact trafficOf_single_none y.2 hd
          · rfl
        rw [this]; exact r3
      · next f hd =>
        split at hacc
        · cases hacc
        · next x2 out hfr =>
          cases hacc
          by_cases hya : y.1 = a
          · have hnd1 : f ≠ .disconnect := by
              have := hnd.1
              rw [hya] at this
              simp only [decide_true, Bool.true_and] at this
              have h2 := hasDisc_snoc_some [] y.2 f hd
              simp only [List.nil_append] at h2
              rw [h2] at this
              simpa [hasDisc] using this
            rw [hya] at hfr
            obtain ⟨w1, e1, c1, h1, t1, f1, s1, d1⟩ :=
              Server.handleFrame_active_nodisc hc x x1 hw a f nowMs nowNs out c hh t sig hf hst hnd1 hfr
            obtain ⟨w, q, c', h', t', r1, r2, r3⟩ := ih x1 _ x' o' c1 h1 t1 w1 f1 s1 hnd.2 h
            refine ⟨w, QuietAt.trans (⟨[], by simp [e1], rfl⟩ : QuietAt a x x1) q, c', h', t', r1, r2, ?_⟩
            rw [if_pos hya, trafficOf_single_some y.2 f hd, dispatchAll_append_ok hc hh h1 _ _ d1]
            exact r3
          · obtain ⟨w1, f1, q1⟩ := Server.handleFrame_other hc x x1 hw a y.1 hya f nowMs nowNs out hfr
            obtain ⟨w, q, c', h', t', r1, r2, r3⟩ := ih x1 _ x' o' c hh t w1 (f1.trans hf) hst hnd.2 h
            refine ⟨w, q1.trans q, c', h', t', r1, r2, ?_⟩
            rw [if_neg hya]; exact r3

/-- The datagram loop while the entry of `a` is `closed`: nothing about `a`, the entry stays as it is. -/
theorem Server.frames_post_at (hc : HC H) (a : Nat) (nowMs nowNs : Nat) :
    ∀ (post : List (Nat × List Nat)) (x : Server H) (o : List (Nat × List Nat)) (x' : Server H) (o' : List (Nat × List Nat))
      (c : RClient H), x.WF → x.find a = some c → c.state = .closed →
      post.foldlM (Server.frameStep hc nowMs nowNs) (x, o) = .ok (x', o') →
      x'.WF ∧ QuietAt a x x' ∧ x'.find a = some c := by
  intro post
  induction post with
  | nil =>
    intro x o x' o' c hw hf hst h
    simp only [List.foldlM_nil, pure, Except.pure] at h; cases h
    exact ⟨hw, QuietAt.refl a x, hf⟩
  | cons y ys ih =>
    intro x o x' o' c hw hf hst h
    simp only [List.foldlM_cons, bind, Except.bind] at h
    split at h
    · cases h
    · next acc hacc =>
      obtain ⟨x1, o1⟩ := acc
      unfold Server.frameStep at hacc
      split at hacc
      · cases hacc; exact ih x o x' o' c hw hf hst h
      · next f hd =>
        split at hacc
        · cases hacc
        · next x2 out hfr =>
          cases hacc
          by_cases hya : y.1 = a
          · rw [hya] at hfr
            have := Server.handleFrame_closed hc x x1 a f nowMs nowNs out c hf hst hfr
            subst this
            exact ih x1 _ x' o' c hw hf hst h
          · obtain ⟨w1, f1, q1⟩ := Server.handleFrame_other hc x x1 hw a y.1 hya f nowMs nowNs out hfr
            obtain ⟨w, q, r⟩ := ih x1 _ x' o' c w1 (f1.trans hf) hst h
            exact ⟨w, q1.trans q, r⟩

/-- The entry of `a`, if any, is `closed`. -/
def GoneAt (a : Nat) (s : Server H) : Prop := ∀ c, s.find a = some c → c.state = .closed

theorem GoneAt.idle {a : Nat} {s : Server H} (h : GoneAt a s) : s.phaseOf a = .idle := by
  unfold Server.phaseOf
  cases hf : s.find a with
  | none => rfl
  | some c => simp only; rw [h c hf]; rfl

theorem ne_of_idle {a : Nat} {x : Server H} (hw : x.WF) (hi : x.phaseOf a = .idle) {c : RClient H}
    (hcm : c ∈ x.clients) (hst : c.state.connected = true) : a ≠ c.address := by
  intro e
  have := Server.find_of_mem hw hcm
  unfold Server.phaseOf at hi
  rw [e, this] at hi
  simp only [RState.phase, hst] at hi
  cases hi

theorem idle_step {a b : Nat} {x x' : Server H} {evs : List SEvent} (t : STr x evs x') (hi : x.phaseOf a = .idle)
    (hall : ∀ e ∈ evs, e.addr = b) (hb : a ≠ b) : x'.phaseOf a = .idle ∧ QuietAt a x x' := by
  have := t.mon a
  rw [evsOf_none hall hb, hi] at this
  simp only [SPhase.run, Option.some.injEq] at this
  exact ⟨this.symm, QuietAt.of_STr t hall hb⟩

/-- The timer loop while the entry of `a` is `closed` or gone: nothing about `a`. -/
theorem Server.runTimers_gone (a : Nat) (nowMs : Nat) (fuel : Nat) : ∀ (s : Server H) (sent : List (Nat × List Nat)),
    s.WF → GoneAt a s →
    (Server.runTimers fuel s nowMs sent).1.WF ∧ GoneAt a (Server.runTimers fuel s nowMs sent).1 ∧
      QuietAt a s (Server.runTimers fuel s nowMs sent).1 := by
  induction fuel with
  | zero => intro s sent hw hg; exact ⟨hw, hg, QuietAt.refl a s⟩
  | succ k ih =>
    intro s sent hw hg
    unfold Server.runTimers
    split
    · exact ⟨hw, hg, QuietAt.refl a s⟩
    · split
      · exact ⟨hw, hg, QuietAt.refl a s⟩
      · split
        · exact ⟨hw, hg, QuietAt.refl a s⟩
        · next t h hp =>
          have h0 : STr s [] ({ s with timers := h } : Server H) :=
            STr.of_same hw rfl rfl rfl (fun _ h => h) rfl rfl rfl
          have hg0 : GoneAt a ({ s with timers := h } : Server H) := hg
          obtain ⟨e1, h1, hsh⟩ := Server.handleTimer_STr _ h0.wf t nowMs
          have hloc := Server.handleTimer_LocalAt _ h0.wf t nowMs
          have hun : ∀ c, ({ s with timers := h } : Server H).byCid t.cid = some c → c.state = .closed →
              (({ s with timers := h } : Server H).handleTimer t nowMs).1 = ({ s with timers := h } : Server H) ∨
              (({ s with timers := h } : Server H).handleTimer t nowMs).1 = ({ s with timers := h } : Server H).finish c := by
            intro c hb hst
            unfold Server.handleTimer
            rw [hb]; simp only [hst]
            split
            · exact Or.inr rfl
            · exact Or.inl rfl
          rcases hx : ({ s with timers := h } : Server H).handleTimer t nowMs with ⟨s1, o1⟩
          rw [hx] at h1 hloc hun
          simp only at hun
          have key : GoneAt a s1 ∧ evsOf a e1 = [] := by
            rcases hloc with hl | ⟨c, hb, hcm, -, hl, -⟩
            · cases hl
              refine ⟨hg0, ?_⟩
              have := h1.events
              have : e1 = [] := by simpa using this.symm
              rw [this]; rfl
            · by_cases hca : a = c.address
              · have hfc := Server.find_of_mem h0.wf hcm
                rw [← hca] at hfc
                have hcl := hg0 c hfc
                constructor
                · rcases hun c hb hcl with e | e
                  · rw [e]; exact hg0
                  · rw [e]; intro c' hf'
                    rw [Server.find_finish, if_pos hca] at hf'; cases hf'
                · rcases hsh with rfl | ⟨c', hb', _, _, _, hk⟩
                  · rfl
                  · rw [hb] at hb'; cases hb'
                    rcases hk with ⟨⟨_, _, _, _, _, hp⟩, _⟩ | ⟨hp, _⟩ <;> rw [hcl] at hp <;> cases hp
              · refine ⟨fun c' hf' => hg0 c' (by rw [← hl.find a hca]; exact hf'), ?_⟩
                rcases hsh with rfl | ⟨c', hb', _, rfl, _⟩
                · rfl
                · rw [hb] at hb'; cases hb'
                  exact evsOf_none (b := c.address) (by simp [SEvent.addr]) hca
          obtain ⟨w2, g2, q2⟩ := ih s1 (sent ++ o1) h1.wf key.1
          refine ⟨w2, g2, QuietAt.trans ?_ q2⟩
          exact ⟨e1, by rw [h1.events], key.2⟩

/-- The active-timeout loop while `a` is `idle`: nothing about `a`. -/
theorem Server.activeTimeouts_idle (hc : HC H) (a : Nat) (s s' : Server H) (hw : s.WF) (hi : s.phaseOf a = .idle)
    (nowMs : Nat) (h : s.activeTimeouts hc nowMs = .ok s') : s'.WF ∧ s'.phaseOf a = .idle ∧ QuietAt a s s' := by
  rw [Server.activeTimeouts_eq] at h
  refine foldlM_induct (Server.activeTimeoutStep hc nowMs)
    (fun x => x.WF ∧ x.phaseOf a = .idle ∧ QuietAt a s x) ?_ s.active s s' ⟨hw, hi, QuietAt.refl a s⟩ h
  intro x cid x' ⟨hwx, hix, qx⟩ hstep
  obtain ⟨evs, tr, hcase⟩ := Server.activeTimeoutStep_STr hc nowMs x x' hwx cid hstep
  rcases hcase with ⟨rfl, rfl⟩ | ⟨c, hh, t, sig, h', pkts, _, hcm, hst, _, _, rfl, _⟩
  · exact ⟨hwx, hix, qx⟩
  · have hne := ne_of_idle hwx hix hcm (by rw [hst]; rfl)
    obtain ⟨i, q⟩ := idle_step (b := c.address) tr hix (by
      intro e he
      simp only [List.mem_append, List.mem_map, List.mem_singleton] at he
      rcases he with ⟨_, _, rfl⟩ | rfl <;> rfl) hne
    exact ⟨tr.wf, i, qx.trans q⟩

/-- `step_active_clients` while `a` is `idle`: nothing about `a`. -/
theorem Server.stepActive_idle (hc : HC H) (a : Nat) (s s' : Server H) (hw : s.WF) (hi : s.phaseOf a = .idle)
    (nowMs nowNs : Nat) (o : List (Nat × List Nat)) (h : s.stepActive hc nowMs nowNs = .ok (s', o)) :
    s'.WF ∧ s'.phaseOf a = .idle ∧ QuietAt a s s' := by
  rw [Server.stepActive_eq] at h
  refine foldlM_induct (Server.stepActiveStep hc nowMs nowNs)
    (fun x => x.1.WF ∧ x.1.phaseOf a = .idle ∧ QuietAt a s x.1) ?_ s.active (s, []) (s', o) ⟨hw, hi, QuietAt.refl a s⟩ h
  intro x cid x' ⟨hwx, hix, qx⟩ hstep
  obtain ⟨evs, tr, hcase⟩ := Server.stepActiveStep_STr hc nowMs nowNs x x' hwx cid hstep
  rcases hcase with ⟨rfl, rfl⟩ | ⟨c, hh, t, sig, _, hcm, hst, hc2⟩
  · exact ⟨hwx, hix, qx⟩
  · have hne := ne_of_idle hwx hix hcm (by rw [hst]; rfl)
    have hall : ∀ e ∈ evs, e.addr = c.address := by
      rcases hc2 with ⟨_, _, pkts, _, rfl, _⟩ | ⟨_, _, _, pkts, _, _, rfl, _⟩ <;>
      · intro e he
        simp only [List.mem_map] at he
        obtain ⟨_, _, rfl⟩ := he; rfl
    obtain ⟨i, q⟩ := idle_step (b := c.address) tr hix hall hne
    exact ⟨tr.wf, i, qx.trans q⟩

end Uflow.Endpoint
