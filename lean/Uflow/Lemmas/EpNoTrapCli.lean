import Uflow.Lemmas.EpNoTrapSrv
import Uflow.Lemmas.EndpointClient

/-!
C03 (client): the invariant `CInv` (the half connection of an active client satisfies the
half-connection invariant and its clock is not ahead of the client's; a pending client has a `u32`
nonce and its queued initial sends satisfy the assertions of `Client::send`) is established by
`Client::connect` and preserved, WITHOUT TRAP, by `step` (arbitrary arrivals), `flush`, `send`,
`disconnect`.
-/

namespace Uflow.EpNoTrap

open Uflow Uflow.Gen Uflow.Codec Uflow.HalfConn Uflow.Endpoint

variable {H : Type}

/-- The assertions of `Client::send` / `RemoteClient::send` on one queued packet
(`data.len() <= max_packet_size <= MAX_PACKET_SIZE`, `channel_id < CHANNEL_COUNT`). -/
def SendOk (e : List Nat × Nat × SendMode) : Prop := e.1.length ≤ MAX_PACKET_SIZE ∧ e.2.1 < CHANNEL_COUNT

/-- The condition on the client state at client time `T`. -/
def CStOk (Inv : H → Prop) (last : H → Nat) (T : Nat) : CState H → Prop
  | .pending ln _ _ _ sends => ln < 2^32 ∧ ∀ e ∈ sends, SendOk e
  | .active _ h _ _ => Inv h ∧ last h ≤ T
  | _ => True

/-- The client invariant. -/
def CInv (Inv : H → Prop) (last : H → Nat) (T : Nat) (c : Client H) : Prop := CStOk Inv last T c.state

variable {Inv : H → Prop} {last : H → Nat} {T : Nat} {hc : HC H}

theorem CInv.mono {T T' : Nat} {c : Client H} (hi : CInv Inv last T c) (h : T ≤ T') : CInv Inv last T' c := by
  unfold CInv at hi ⊢
  cases hs : c.state with
  | pending _ _ _ _ _ => rw [hs] at hi; exact hi
  | active _ h' _ _ => rw [hs] at hi; exact ⟨hi.1, Nat.le_trans hi.2 h⟩
  | closing _ _ _ => trivial
  | closed _ => trivial
  | fin => trivial

/-- `Client::connect`. -/
theorem connect_inv (ep : EpConfig) (now : Nat) (rng : Rng) (T : Nat) :
    CInv Inv last T (Client.connect ep now rng : Client H × List (List Nat)).1 := by
  unfold Client.connect CInv
  exact ⟨Nat.mod_lt _ (by decide), fun e he => by cases he⟩

/-- The initial sends queued while pending, replayed on the fresh half connection. -/
theorem foldl_send_inv (hok : HCOk hc Inv last) (sends : List (List Nat × Nat × SendMode))
    (hs : ∀ e ∈ sends, SendOk e) : ∀ (h : H), Inv h → last h = T →
    Inv (sends.foldl (fun h (e : List Nat × Nat × SendMode) => hc.send h e.1 e.2.1 e.2.2) h) ∧
    last (sends.foldl (fun h (e : List Nat × Nat × SendMode) => hc.send h e.1 e.2.1 e.2.2) h) = T := by
  induction sends with
  | nil => intro h hi hl; exact ⟨hi, hl⟩
  | cons e rest ih =>
    intro h hi hl
    obtain ⟨h1, h2⟩ := hok.send h e.1 e.2.1 e.2.2 hi (hs e List.mem_cons_self).1 (hs e List.mem_cons_self).2
    exact ih (fun x hx => hs x (List.mem_cons_of_mem _ hx)) _ h1 (h2.trans hl)

/-! ### the phases of `Client::step` as separate functions (definitionally the model) -/

/-- `handle_data` / `handle_ack` / `handle_sync` of the client. -/
def cTraffic (hc : HC H) (c : Client H) (f : Frame) (nowMs : Nat) : R (Client H × List (List Nat)) :=
  match c.state with
  | .active ln h _ sig =>
    match hc.dispatch h f with
    | .error t => .error t
    | .ok h' => .ok ({ c with state := .active ln h' (nowMs + c.ep.activeTimeoutMs) sig }, [])
  | _ => .ok (c, [])

/-- The datagram loop of `Client::step`. -/
def cFrames (hc : HC H) (c : Client H) (arrivals : List (List Nat)) (nowMs nowNs : Nat) :
    R (Client H × List (List Nat)) :=
  arrivals.foldlM (fun (acc : Client H × List (List Nat)) bytes =>
    match decode (bytes.take MAX_FRAME_SIZE) with
    | none => .ok acc
    | some f =>
      match acc.1.handleFrame hc f nowMs nowNs with
      | .error e => .error e
      | .ok (c', out) => .ok (c', acc.2 ++ out)) (c, [])

/-- `step_if_active`. -/
def cStepIf (hc : HC H) (c : Client H) (nowMs nowNs : Nat) : R (Client H × List (List Nat)) :=
  match c.state with
  | .active ln h t sig =>
    let disconnectNow := match sig with
      | some .now => true
      | some .flush => !hc.isSendPending h
      | none => false
    if disconnectNow then
      match hc.receive h with
      | .error e => .error e
      | .ok (_, pkts) =>
        .ok ({ c with eventsOut := c.eventsOut ++ pkts.map CEvent.receive,
                      state := .closing discReq (nowMs + CLIENT_DISCONNECT_RESEND_INTERVAL_MS) CLIENT_DISCONNECT_RESEND_COUNT }, [discReq])
    else
      match hc.step h nowNs with
      | .error e => .error e
      | .ok h =>
        match hc.receive h with
        | .error e => .error e
        | .ok (h, pkts) => .ok ({ c with eventsOut := c.eventsOut ++ pkts.map CEvent.receive, state := .active ln h t sig }, [])
  | _ => .ok (c, [])

/-- `handle_frame` of the client: ANY decoded frame. -/
theorem cHandleFrame_ok (hok : HCOk hc Inv last) {c : Client H} (hi : CInv Inv last T c) (f : Frame)
    (nowMs : Nat) : ∃ r, c.handleFrame hc f nowMs T = .ok r ∧ CInv Inv last T r.1 := by
  have htraffic : ∀ f : Frame, ∃ r, cTraffic hc c f nowMs = .ok r ∧ CInv Inv last T r.1 := by
    intro f
    unfold cTraffic
    split
    · rename_i ln h t sig hst
      have hs : CStOk Inv last T c.state := hi
      rw [hst] at hs
      obtain ⟨h', hr, h1, h2⟩ := hok.dispatch h f hs.1
      rw [hr]
      exact ⟨_, rfl, ⟨h1, by rw [h2]; exact hs.2⟩⟩
    · exact ⟨_, rfl, hi⟩
  cases f with
  | syn _ _ _ _ _ => exact ⟨_, rfl, hi⟩
  | hsAck _ => exact ⟨_, rfl, hi⟩
  | synAck na n r p a =>
    unfold Client.handleFrame
    simp only
    split
    · rename_i ln req rt rc sends hst
      split
      · have hs : CStOk Inv last T c.state := hi
        rw [hst] at hs
        obtain ⟨h1, h2⟩ := hok.new c.ep ln n r a T hs.1
        obtain ⟨h3, h4⟩ := foldl_send_inv hok sends hs.2 _ h1 h2
        exact ⟨_, rfl, ⟨h3, Nat.le_of_eq h4⟩⟩
      · exact ⟨_, rfl, hi⟩
    · split
      · exact ⟨_, rfl, hi⟩
      · exact ⟨_, rfl, hi⟩
    · exact ⟨_, rfl, hi⟩
  | hsError na e =>
    unfold Client.handleFrame
    simp only
    split
    · split
      · exact ⟨_, rfl, trivial⟩
      · exact ⟨_, rfl, hi⟩
    · exact ⟨_, rfl, hi⟩
  | disconnect =>
    unfold Client.handleFrame
    simp only
    split
    · exact ⟨_, rfl, hi⟩
    · rename_i ln h t sig hst
      have hs : CStOk Inv last T c.state := hi
      rw [hst] at hs
      obtain ⟨h', out, hr, _, _⟩ := hok.receive h hs.1
      rw [hr]
      exact ⟨_, rfl, trivial⟩
    · exact ⟨_, rfl, trivial⟩
    · exact ⟨_, rfl, hi⟩
    · exact ⟨_, rfl, hi⟩
  | disconnectAck =>
    unfold Client.handleFrame
    simp only
    split
    · exact ⟨_, rfl, trivial⟩
    · exact ⟨_, rfl, hi⟩
  | data x y z => exact htraffic (.data x y z)
  | sync x y => exact htraffic (.sync x y)
  | ack x y z => exact htraffic (.ack x y z)

/-- `handle_events` of the client. -/
theorem cHandleEvents_inv {c : Client H} (hi : CInv Inv last T c) (nowMs : Nat) :
    CInv Inv last T (c.handleEvents nowMs).1 := by
  unfold Client.handleEvents
  split
  · rename_i ln req rt rc sends hst
    have hs : CStOk Inv last T c.state := hi
    rw [hst] at hs
    split
    · split
      · exact hs
      · trivial
    · exact hi
  · split
    · trivial
    · exact hi
  · split
    · split
      · trivial
      · trivial
    · exact hi
  · split
    · trivial
    · exact hi
  · exact hi

/-- `Client::flush`. -/
theorem cFlush_ok (hok : HCOk hc Inv last) {c : Client H} (hi : CInv Inv last T c) :
    ∃ r, c.flush hc = .ok r ∧ CInv Inv last T r.1 := by
  unfold Client.flush
  split
  · rename_i ln h t sig hst
    have hs : CStOk Inv last T c.state := hi
    rw [hst] at hs
    obtain ⟨h1, rng1, out, hr, i1, l1⟩ := hok.flush h c.rng hs.1
    rw [hr]
    exact ⟨_, rfl, ⟨i1, by rw [l1]; exact hs.2⟩⟩
  · exact ⟨_, rfl, hi⟩

/-- The datagram loop of `Client::step`: ANY list of byte strings. -/
theorem cFrames_ok (hok : HCOk hc Inv last) {c : Client H} (hi : CInv Inv last T c) (arrivals : List (List Nat))
    (nowMs : Nat) : ∃ r, cFrames hc c arrivals nowMs T = .ok r ∧ CInv Inv last T r.1 := by
  unfold cFrames
  refine foldlM_ok_of_inv (fun x : Client H × List (List Nat) => CInv Inv last T x.1) _ ?_ arrivals (c, []) hi
  intro b a hb
  split
  · exact ⟨b, rfl, hb⟩
  · rename_i f _
    obtain ⟨r, hr, h'⟩ := cHandleFrame_ok hok hb f nowMs
    rw [hr]
    exact ⟨_, rfl, h'⟩

theorem cStepIf_ok (hok : HCOk hc Inv last) {c : Client H} (hi : CInv Inv last T c) (nowMs : Nat) :
    ∃ r, cStepIf hc c nowMs T = .ok r ∧ CInv Inv last T r.1 := by
  unfold cStepIf
  split
  · rename_i ln h t sig hst
    have hs : CStOk Inv last T c.state := hi
    rw [hst] at hs
    simp only
    split <;> split <;> first
      | (obtain ⟨h', out, hr, _, _⟩ := hok.receive h hs.1
         rw [hr]
         exact ⟨_, rfl, trivial⟩)
      | (obtain ⟨h1, hr1, i1, l1⟩ := hok.step h T hs.1 hs.2
         rw [hr1]
         obtain ⟨h2, out, hr2, i2, l2⟩ := hok.receive h1 i1
         simp only [hr2]
         exact ⟨_, rfl, ⟨i2, by rw [l2, l1]; exact Nat.le_refl _⟩⟩)
      | (rename_i hne; exact absurd rfl hne)
      | (rename_i hne; cases hne)
  · exact ⟨_, rfl, hi⟩

/-- `Client::step` at a time `nowNs ≥` the time of the previous step, for ANY arrivals. -/
theorem cStep_ok (hok : HCOk hc Inv last) {c : Client H} (hi : CInv Inv last T c) (nowNs : Nat) (hle : T ≤ nowNs)
    (arrivals : List (List Nat)) :
    ∃ c' sent evs, c.step hc nowNs arrivals = .ok (c', sent, evs) ∧ CInv Inv last nowNs c' := by
  have hi0 := hi.mono hle
  obtain ⟨r1, h1, i1⟩ := cFlush_ok hok hi0
  obtain ⟨r2, h2, i2⟩ := cFrames_ok hok i1 arrivals ((nowNs - c.timeBase) / 1000000)
  have i3 := cHandleEvents_inv i2 ((nowNs - c.timeBase) / 1000000)
  obtain ⟨r4, h4, i4⟩ := cStepIf_ok hok i3 ((nowNs - c.timeBase) / 1000000)
  refine ⟨{ r4.1 with eventsOut := [] },
    r1.2 ++ r2.2 ++ (r2.1.handleEvents ((nowNs - c.timeBase) / 1000000)).2 ++ r4.2, r4.1.eventsOut, ?_, i4⟩
  unfold Client.step
  simp only
  split
  · rename_i e he
    cases he.symm.trans h1
  · rename_i c1 sent1 he
    cases he.symm.trans h1
    split
    · rename_i e he2
      cases he2.symm.trans h2
    · rename_i c2 sent2 he2
      cases he2.symm.trans h2
      split
      · rename_i e he4
        cases he4.symm.trans h4
      · rename_i c4 sent4 he4
        cases he4.symm.trans h4
        rfl

/-- `Client::send` under its assertions. -/
theorem cSend_inv (hok : HCOk hc Inv last) {c : Client H} (hi : CInv Inv last T c) (data : List Nat) (chan : Nat)
    (mode : SendMode) (hlen : data.length ≤ MAX_PACKET_SIZE) (hch : chan < CHANNEL_COUNT) :
    CInv Inv last T (c.send hc data chan mode) := by
  unfold Client.send
  split
  · rename_i ln req rt rc sends hst
    have hs : CStOk Inv last T c.state := hi
    rw [hst] at hs
    refine ⟨hs.1, ?_⟩
    intro e he
    rcases List.mem_append.1 he with he | he
    · exact hs.2 e he
    · simp only [List.mem_singleton] at he
      subst he
      exact ⟨hlen, hch⟩
  · rename_i ln h t sig hst
    have hs : CStOk Inv last T c.state := hi
    rw [hst] at hs
    obtain ⟨h1, h2⟩ := hok.send h data chan mode hs.1 hlen hch
    exact ⟨h1, by rw [h2]; exact hs.2⟩
  · exact hi

/-- `Client::disconnect` / `disconnect_now`. -/
theorem cDisconnect_inv {c : Client H} (hi : CInv Inv last T c) (m : DisconnectMode) :
    CInv Inv last T (c.disconnect m) := by
  unfold Client.disconnect
  split
  · trivial
  · rename_i ln h t sig hst
    have hs : CStOk Inv last T c.state := hi
    rw [hst] at hs
    exact hs
  · exact hi

end Uflow.EpNoTrap
