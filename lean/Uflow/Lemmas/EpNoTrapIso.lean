import Uflow.Lemmas.EndpointServerRun

/-!
C03 (server), "keeps serving its other connections": handling a datagram from address `a` leaves
the map entry of every other address untouched and sends nothing to it.
-/

namespace Uflow.EpNoTrap

open Uflow Uflow.Gen Uflow.Codec Uflow.HalfConn Uflow.Endpoint

variable {H : Type}

theorem find?_skip {α : Type} (p : α → Bool) (l1 l2 : List α) (c c' : α) (hc : p c = false) (hc' : p c' = false) :
    (l1 ++ c' :: l2).find? p = (l1 ++ c :: l2).find? p := by
  rw [List.find?_append, List.find?_append, List.find?_cons_of_neg (by simp [hc']),
    List.find?_cons_of_neg (by simp [hc])]

/-- Rewriting the object of address `a` does not change the entry of `b ≠ a`. -/
theorem find_put_ne {s : Server H} (hn : (s.clients.map (·.cid)).Nodup) {c c' : RClient H} (hc : c ∈ s.clients)
    (hcid : c'.cid = c.cid) (haddr : c'.address = c.address) {b : Nat} (hb : c.address ≠ b) :
    (s.put c').find b = s.find b := by
  obtain ⟨l1, l2, h1, h2⟩ := replace_split hn hc hcid
  rw [Server.put_of_mem hc hcid]
  unfold Server.find
  show (s.clients.map _).find? _ = s.clients.find? _
  rw [h2, h1]
  exact find?_skip _ l1 l2 c c' (by simpa using hb) (by simpa [haddr] using hb)

theorem WF.cliCidNodup {s : Server H} (hw : s.WF) : (s.clients.map (·.cid)).Nodup := by
  have := hw.cidNodup
  rw [List.map_append, List.nodup_append] at this
  exact this.1

/-- Removing the object of address `a` from the map does not change the entry of `b ≠ a`. -/
theorem find_finish_ne (s : Server H) (c : RClient H) {b : Nat} (hb : c.address ≠ b) :
    (s.finish c).find b = s.find b := by
  have key : (s.clients.filter (·.address ≠ c.address)).find? (·.address = b) = s.clients.find? (·.address = b) := by
    induction s.clients with
    | nil => rfl
    | cons x l ih =>
      by_cases hx : x.address = c.address
      · rw [List.filter_cons_of_neg (by simpa using hx), ih, List.find?_cons_of_neg]
        simp only [decide_eq_true_eq]
        intro hxb
        exact hb (hx.symm.trans hxb)
      · rw [List.filter_cons_of_pos (by simpa using hx)]
        by_cases hxb : x.address = b
        · rw [List.find?_cons_of_pos (by simpa using hxb), List.find?_cons_of_pos (by simpa using hxb)]
        · rw [List.find?_cons_of_neg (by simpa using hxb), List.find?_cons_of_neg (by simpa using hxb), ih]
  unfold Server.finish Server.find
  split <;> exact key

/-- `handle_frame` for a frame from address `a`: the entry of every other address `b` is untouched,
and every datagram sent in response goes to `a`. -/
theorem handleFrame_isolated (hc : HC H) {s : Server H} (hw : s.WF) (a : Nat) (f : Frame) (nowMs nowNs : Nat)
    {s' : Server H} {sent : List (Nat × List Nat)} (hr : s.handleFrame hc a f nowMs nowNs = .ok (s', sent))
    (b : Nat) (hb : b ≠ a) : s'.find b = s.find b ∧ ∀ x ∈ sent, x.1 = a := by
  have hn := WF.cliCidNodup hw
  -- `put` of a new state for the object found at `a`, on a state with the same map
  have hput : ∀ (s1 s0 : Server H) (c : RClient H) (st : RState H),
      s1.clients = (s0.put { c with state := st }).clients → s0.clients = s.clients → s.find a = some c →
      s1.find b = s.find b := by
    intro s1 s0 c st h2 h1 hf
    obtain ⟨hcm, hca⟩ := Server.find_some hf
    have := find_put_ne (s := s0) (by rw [h1]; exact hn) (c := c) (c' := { c with state := st })
      (by rw [h1]; exact hcm) rfl rfl (b := b) (by rw [hca]; exact fun h => hb h.symm)
    unfold Server.find at this ⊢
    rw [h2, this, h1]
  have hfin : ∀ (s1 s0 : Server H) (c : RClient H), s1.clients = (s0.finish c).clients → s0.clients = s.clients →
      s.find a = some c → s1.find b = s.find b := by
    intro s1 s0 c h2 h1 hf
    obtain ⟨hcm, hca⟩ := Server.find_some hf
    have := find_finish_ne s0 c (b := b) (by rw [hca]; exact fun h => hb h.symm)
    unfold Server.find at this ⊢
    rw [h2, this, h1]
  cases f with
  | syn v n r p al =>
    simp only [Server.handleFrame, Except.ok.injEq] at hr
    unfold Server.handleSyn at hr
    split at hr
    · cases hr; exact ⟨rfl, fun _ h => by cases h⟩
    · simp only at hr
      split at hr
      · cases hr; exact ⟨rfl, fun x h => by simp only [List.mem_singleton] at h; rw [h]⟩
      · split at hr
        · cases hr; exact ⟨rfl, fun x h => by simp only [List.mem_singleton] at h; rw [h]⟩
        · split at hr
          · cases hr; exact ⟨rfl, fun x h => by simp only [List.mem_singleton] at h; rw [h]⟩
          · split at hr
            · cases hr; exact ⟨rfl, fun x h => by simp only [List.mem_singleton] at h; rw [h]⟩
            · cases hr
              refine ⟨?_, fun x h => by simp only [List.mem_singleton] at h; rw [h]⟩
              unfold Server.find
              show (s.clients ++ [_]).find? _ = _
              rw [List.find?_append, List.find?_cons_of_neg (by simpa using fun h => hb h.symm)]
              simp
  | hsAck na =>
    simp only [Server.handleFrame, Except.ok.injEq, Prod.mk.injEq] at hr
    obtain ⟨rfl, rfl⟩ := hr
    refine ⟨?_, fun _ h => by cases h⟩
    unfold Server.handleHsAck
    split
    · rfl
    · rename_i c hf
      split
      · split
        · exact hput _ _ _ _ rfl rfl hf
        · rfl
      · rfl
  | synAck _ _ _ _ _ => cases hr; exact ⟨rfl, fun _ h => by cases h⟩
  | hsError _ _ => cases hr; exact ⟨rfl, fun _ h => by cases h⟩
  | disconnect =>
    simp only [Server.handleFrame] at hr
    unfold Server.handleDisconnect at hr
    split at hr
    · cases hr; exact ⟨rfl, fun _ h => by cases h⟩
    · rename_i c hf
      simp only at hr
      split at hr
      · cases hr; exact ⟨rfl, fun _ h => by cases h⟩
      · split at hr
        · cases hr
        · cases hr
          exact ⟨hput _ _ _ _ rfl rfl hf, fun x h => by simp only [List.mem_singleton] at h; rw [h]⟩
      · cases hr
        exact ⟨hput _ _ _ _ rfl rfl hf, fun x h => by simp only [List.mem_singleton] at h; rw [h]⟩
      · cases hr; exact ⟨rfl, fun x h => by simp only [List.mem_singleton] at h; rw [h]⟩
      · cases hr; exact ⟨rfl, fun _ h => by cases h⟩
  | disconnectAck =>
    simp only [Server.handleFrame, Except.ok.injEq, Prod.mk.injEq] at hr
    obtain ⟨rfl, rfl⟩ := hr
    refine ⟨?_, fun _ h => by cases h⟩
    unfold Server.handleDisconnectAck
    split
    · rfl
    · rename_i c hf
      split
      · exact hfin _ _ _ rfl rfl hf
      · rfl
  | data x y z =>
    simp only [Server.handleFrame] at hr
    cases ht : s.handleTraffic hc a (.data x y z) nowMs with
    | error e => rw [ht] at hr; cases hr
    | ok s1 =>
      rw [ht] at hr; cases hr
      refine ⟨?_, fun _ h => by cases h⟩
      unfold Server.handleTraffic at ht
      split at ht
      · cases ht; rfl
      · rename_i c hf
        split at ht
        · split at ht
          · cases ht
          · cases ht; exact hput _ _ _ _ rfl rfl hf
        · cases ht; rfl
  | sync x y =>
    simp only [Server.handleFrame] at hr
    cases ht : s.handleTraffic hc a (.sync x y) nowMs with
    | error e => rw [ht] at hr; cases hr
    | ok s1 =>
      rw [ht] at hr; cases hr
      refine ⟨?_, fun _ h => by cases h⟩
      unfold Server.handleTraffic at ht
      split at ht
      · cases ht; rfl
      · rename_i c hf
        split at ht
        · split at ht
          · cases ht
          · cases ht; exact hput _ _ _ _ rfl rfl hf
        · cases ht; rfl
  | ack x y z =>
    simp only [Server.handleFrame] at hr
    cases ht : s.handleTraffic hc a (.ack x y z) nowMs with
    | error e => rw [ht] at hr; cases hr
    | ok s1 =>
      rw [ht] at hr; cases hr
      refine ⟨?_, fun _ h => by cases h⟩
      unfold Server.handleTraffic at ht
      split at ht
      · cases ht; rfl
      · rename_i c hf
        split at ht
        · split at ht
          · cases ht
          · cases ht; exact hput _ _ _ _ rfl rfl hf
        · cases ht; rfl

/-- `handle_frames`: whatever arrives (arbitrary bytes) from addresses other than `b` leaves the entry
of `b` untouched, and nothing is sent to `b`. -/
theorem handleFrames_isolated (hc : HC H) {s : Server H} (hw : s.WF) (arrivals : List (Nat × List Nat))
    (nowMs nowNs : Nat) {s' : Server H} {sent : List (Nat × List Nat)}
    (hr : s.handleFrames hc arrivals nowMs nowNs = .ok (s', sent)) (b : Nat) (hb : ∀ x ∈ arrivals, x.1 ≠ b) :
    s'.find b = s.find b ∧ ∀ x ∈ sent, x.1 ≠ b := by
  unfold Server.handleFrames at hr
  have := foldlM_ok_inv_mem (fun x : Server H × List (Nat × List Nat) =>
      x.1.WF ∧ x.1.find b = s.find b ∧ ∀ y ∈ x.2, y.1 ≠ b) _ arrivals ?_ (s, []) (s', sent)
    ⟨hw, rfl, fun _ h => by cases h⟩ hr
  · exact this.2
  · intro acc a acc' ha hacc hf
    simp only at hf
    split at hf
    · cases hf; exact hacc
    · rename_i f _
      split at hf
      · cases hf
      · rename_i s1 sent1 hfr
        cases hf
        obtain ⟨hw1, _⟩ := Server.handleFrame_wq hc hacc.1 a.1 f nowMs nowNs hfr
        obtain ⟨h1, h2⟩ := handleFrame_isolated hc hacc.1 a.1 f nowMs nowNs hfr b (fun h => hb a ha h.symm)
        refine ⟨hw1, h1.trans hacc.2.1, ?_⟩
        intro y hy
        rcases List.mem_append.1 hy with hy | hy
        · exact hacc.2.2 y hy
        · rw [h2 y hy]; exact hb a ha

end Uflow.EpNoTrap
