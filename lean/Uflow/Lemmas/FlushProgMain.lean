import Uflow.Lemmas.FlushProg

/-!
C02 (per-flush progress), part 2: the first iteration of the resend loop / the pending loops puts
the head fragment into a data frame; composition through `emit_data_frames` and `flush`.
-/

namespace Uflow.FlushProg

open Uflow Uflow.Gen Uflow.Codec Uflow.HalfConn Uflow.Wire Uflow.Modes Uflow.Credit

variable {F : Type}

/-! ### the ack stage -/

/-- The ack stage of `flush` (`emit_ack_frames`) does not end the flush and leaves a non-negative
credit for the data stage. -/
def AckPassed (s : State F) : Prop :=
  (emitAckFrames s).2.2 = .cont ∧ 0 ≤ (emitAckFrames s).1.flushAlloc

/-- Nothing owed to the peer (no ack group queued, no sync reply): the ack stage does nothing. -/
theorem emitAckFrames_idle (s : State F) (hr : s.syncReply = false) (he : s.aq.entries = []) :
    emitAckFrames s = (s, [], .cont) := by
  rw [emitAckFrames_eq]
  simp only [hr, he, Bool.false_eq_true, false_and, if_false, List.length_nil, Nat.zero_add]
  simp only [emitAckFrames.loop, he, ackFin]

theorem ackPassed_idle (s : State F) (hr : s.syncReply = false) (he : s.aq.entries = [])
    (hA : 0 ≤ s.flushAlloc) : AckPassed s := by
  unfold AckPassed
  rw [emitAckFrames_idle s hr he]
  exact ⟨rfl, hA⟩

/-- A projection of the state that the ack stage does not change. -/
theorem emitAckFrames_proj {α : Type} (f : State F → α)
    (hfin : ∀ (fb pb : Nat) (s : State F) ip out, f (ackFin fb pb s ip out).1 = f s)
    (hpop : ∀ (s : State F) rest, f { s with aq := { s.aq with entries := rest } } = f s)
    (s : State F) : f (emitAckFrames s).1 = f s := by
  rw [emitAckFrames_eq]
  split
  · rfl
  · exact ackLoop_proj f _ _ (hfin _ _) hpop _ _ _ _

theorem emitAckFrames_fq (s : State F) : (emitAckFrames s).1.fq = s.fq :=
  emitAckFrames_proj (·.fq) (fun fb pb s ip out => by cases ip <;> rfl) (fun _ _ => rfl) s

/-! ### the resend loop -/

/-- The resend queue has nothing to do: it is empty, or its head is a live entry that is not due. -/
def ResendIdle (s : State F) : Prop :=
  s.resend[0]? = none ∨
  ∃ entry p, s.resend[0]? = some entry ∧ PSend.findPacket s.ps entry.uid = some p ∧
    entry.fid ∉ p.acked ∧ s.nowMs < entry.resendTime

theorem resendLoop_idle (n : Nat) (e : Emit F) (h : ResendIdle e.s) :
    resendLoop (n + 1) e = .ok (e, none) := by
  rw [resendLoop]
  rcases h with h | ⟨entry, p, h0, h1, h2, h3⟩
  · simp only [h]
  · have h3' : entry.resendTime > e.s.nowMs := h3
    simp only [h0, h1, h2, h3', if_false, if_true]

/-- First iteration of the resend loop on a live, due head entry with credit and an open frame
window: the fragment is pushed, and it is carried to the end of the loop. -/
theorem resend_first (n : Nat) (e e' : Emit F) (st : Option Stage) (entry : REntry)
    (p : PSend.Pending) (hip : e.inProg = none) (hA : 0 ≤ e.s.flushAlloc)
    (hcp : FrameQ.canPush e.s.fq = true) (h0 : e.s.resend[0]? = some entry)
    (h1 : PSend.findPacket e.s.ps entry.uid = some p) (h2 : entry.fid ∉ p.acked)
    (h3 : entry.resendTime ≤ e.s.nowMs) (h : resendLoop (n + 1) e = .ok (e', st)) :
    ∃ dg, p.datagram entry.fid = .ok dg ∧ Post dg e' st := by
  have h3' : ¬ entry.resendTime > e.s.nowMs := by omega
  cases hdg : p.datagram entry.fid with
  | error t =>
    have hpe : dfePush e p entry.fid true = .error t := by simp only [dfePush, hdg]
    rw [resendLoop] at h
    simp only [h0, h1, h2, h3', if_false, hpe] at h
    cases h
  | ok dg =>
    obtain ⟨ip, hpush, hdgs⟩ := dfePush_start e p entry.fid true dg hip hA hcp hdg
    obtain ⟨hh, _, heq, _⟩ := resendLoop_push n e _ entry p h0 h1 h2 h3' hpush rfl
    rw [heq] at h
    exact ⟨dg, rfl, resendLoop_car dg n _ e' st (.inr ⟨ip, rfl, by simp [hdgs]⟩) h⟩

/-! ### the pending loops -/

/-- First iteration of the inner pending loop on a live head entry. -/
theorem pending_first (n : Nat) (e e' : Emit F) (st : Option Stage) (entry : PEntry)
    (rest : List PEntry) (p : PSend.Pending) (hip : e.inProg = none) (hA : 0 ≤ e.s.flushAlloc)
    (hcp : FrameQ.canPush e.s.fq = true) (h0 : e.s.pending = entry :: rest)
    (h1 : PSend.findPacket e.s.ps entry.uid = some p) (h2 : entry.fid ∉ p.acked)
    (h3 : ¬ (entry.fid = 0 ∧ p.expired e.s.flushId = true))
    (h : pendingInner (n + 1) e = .ok (e', st)) :
    ∃ dg, p.datagram entry.fid = .ok dg ∧ Post dg e' st := by
  cases hdg : p.datagram entry.fid with
  | error t =>
    have hpe : dfePush e p entry.fid entry.resend = .error t := by simp only [dfePush, hdg]
    rw [pendingInner] at h
    simp only [h0, h1, h2, h3, if_false, hpe] at h
    cases h
  | ok dg =>
    obtain ⟨ip, hpush, hdgs⟩ := dfePush_start e p entry.fid entry.resend dg hip hA hcp hdg
    rw [pendingInner_push n e _ entry rest p h0 h1 h2 h3 hpush] at h
    refine ⟨dg, rfl, pendingInner_car dg n _ e' st ?_ h⟩
    exact .inr ⟨ip, rfl, by simp [hdgs]⟩

/-- The outer pending loop whose refill step yields `e1` with a live head entry. -/
theorem outer_first (m : Nat) (e e1 e' : Emit F) (st : Option Stage) (entry : PEntry)
    (rest : List PEntry) (p : PSend.Pending) (href : refill e = .ok (e1, true))
    (hip : e1.inProg = none) (hA : 0 ≤ e1.s.flushAlloc)
    (hcp : FrameQ.canPush e1.s.fq = true) (h0 : e1.s.pending = entry :: rest)
    (h1 : PSend.findPacket e1.s.ps entry.uid = some p) (h2 : entry.fid ∉ p.acked)
    (h3 : ¬ (entry.fid = 0 ∧ p.expired e1.s.flushId = true))
    (h : pendingOuter (m + 1) e = .ok (e', st)) :
    ∃ dg, p.datagram entry.fid = .ok dg ∧ Post dg e' st := by
  rw [pendingOuter_eq, href] at h
  simp only at h
  generalize hin : pendingInner (e1.s.pending.length + 2) e1 = r at h
  rcases r with t | ⟨e2, _ | st2⟩
  · cases h
  · simp only at h
    obtain ⟨dg, hd, hp⟩ := pending_first _ e1 e2 none entry rest p hip hA hcp h0 h1 h2 h3 hin
    exact ⟨dg, hd, pendingOuter_car dg m e2 e' st hp.1 h⟩
  · simp only [Except.ok.injEq, Prod.mk.injEq] at h
    obtain ⟨rfl, rfl⟩ := h
    exact pending_first _ e1 e2 _ entry rest p hip hA hcp h0 h1 h2 h3 hin

/-! ### `emit_data_frames` -/

theorem result_car (dg : Datagram) (r : R (Emit F × Option Stage)) (e2 : Emit F)
    (st2 : Option Stage) (s' : State F) (out : List (List Nat)) (st : Stage)
    (hr : r = .ok (e2, st2)) (hp : Post dg e2 st2)
    (h : (match r with
      | .error t => (.error t : R (State F × List (List Nat) × Stage))
      | .ok (e, some st) => .ok (e.s, e.out, st)
      | .ok (e, none) =>
        let e := dfeFinalize e
        .ok (e.s, e.out, .cont)) = .ok (s', out, st)) : DataIn dg out := by
  subst hr
  cases st2 with
  | none =>
    simp only [Except.ok.injEq, Prod.mk.injEq] at h
    obtain ⟨_, rfl, _⟩ := h
    exact (dfeFinalize_car dg e2 hp.1).1
  | some st0 =>
    simp only [Except.ok.injEq, Prod.mk.injEq] at h
    obtain ⟨_, rfl, _⟩ := h
    rcases hp.1 with hc | ⟨ip, h1, _⟩
    · exact hc
    · rw [hp.2 (by simp)] at h1; cases h1

/-- The data stage with a live, due head of the resend queue. -/
theorem data_resend (s s' : State F) (out : List (List Nat)) (st : Stage) (entry : REntry)
    (p : PSend.Pending) (hA : 0 ≤ s.flushAlloc) (hcp : FrameQ.canPush s.fq = true)
    (h0 : s.resend[0]? = some entry) (h1 : PSend.findPacket s.ps entry.uid = some p)
    (h2 : entry.fid ∉ p.acked) (h3 : entry.resendTime ≤ s.nowMs)
    (h : emitDataFrames s = .ok (s', out, st)) :
    ∃ dg, p.datagram entry.fid = .ok dg ∧ DataIn dg out := by
  rw [emitDataFrames_eq] at h
  obtain ⟨n, hn⟩ : ∃ n, 2 * s.resend.size + 16 + s.flushAlloc.toNat = n + 1 :=
    ⟨2 * s.resend.size + 15 + s.flushAlloc.toNat, by omega⟩
  rw [hn] at h
  generalize hr : resendLoop (n + 1) ({ s := s, inProg := none, out := [] } : Emit F) = r at h
  rcases r with t | ⟨e1, st1⟩
  · cases h
  · obtain ⟨dg, hd, hp⟩ := resend_first n _ e1 st1 entry p rfl hA hcp h0 h1 h2 h3 hr
    exact ⟨dg, hd, dataTail_car dg e1 st1 s' out st hp h⟩

/-- The data stage with an idle resend queue whose outer pending loop starts on `e1` with a live
head entry. -/
theorem data_outer (s s' : State F) (out : List (List Nat)) (st : Stage) (e1 : Emit F)
    (entry : PEntry) (rest : List PEntry) (p : PSend.Pending) (hidle : ResendIdle s)
    (href : refill ({ s := s, inProg := none, out := [] } : Emit F) = .ok (e1, true))
    (hip : e1.inProg = none) (hA : 0 ≤ e1.s.flushAlloc)
    (hcp : FrameQ.canPush e1.s.fq = true) (h0 : e1.s.pending = entry :: rest)
    (h1 : PSend.findPacket e1.s.ps entry.uid = some p) (h2 : entry.fid ∉ p.acked)
    (h3 : ¬ (entry.fid = 0 ∧ p.expired e1.s.flushId = true))
    (h : emitDataFrames s = .ok (s', out, st)) :
    ∃ dg, p.datagram entry.fid = .ok dg ∧ DataIn dg out := by
  rw [emitDataFrames_eq] at h
  obtain ⟨n, hn⟩ : ∃ n, 2 * s.resend.size + 16 + s.flushAlloc.toNat = n + 1 :=
    ⟨2 * s.resend.size + 15 + s.flushAlloc.toNat, by omega⟩
  rw [hn, resendLoop_idle n _ hidle] at h
  simp only at h
  obtain ⟨m, hm⟩ : ∃ m, s.ps.queue.length + s.pending.length + 4 = m + 1 :=
    ⟨s.ps.queue.length + s.pending.length + 3, by omega⟩
  rw [hm] at h
  generalize hr : pendingOuter (m + 1) ({ s := s, inProg := none, out := [] } : Emit F) = r at h
  rcases r with t | ⟨e2, st2⟩
  · cases h
  · obtain ⟨dg, hd, hp⟩ := outer_first m _ e1 e2 st2 entry rest p href hip hA hcp h0 h1 h2 h3 hr
    exact ⟨dg, hd, result_car dg _ e2 st2 s' out st rfl hp h⟩

/-! ### `flush` -/

/-- What the data stage emits is part of what `flush` emits, provided the ack stage passes. -/
theorem flush_data (s s' : State F) (out : List (List Nat)) (dg : Datagram) (hack : AckPassed s)
    (hd : ∀ s2 out2 st, emitDataFrames (emitAckFrames s).1 = .ok (s2, out2, st) → DataIn dg out2)
    (h : flush s = .ok (s', out)) : DataIn dg out := by
  unfold flush at h
  obtain ⟨hst, _⟩ := hack
  generalize emitAckFrames s = a at h hst hd
  obtain ⟨s1, out1, st1⟩ := a
  simp only at h hst hd
  subst hst
  simp only [reduceCtorEq, if_false] at h
  cases hdf : emitDataFrames s1 with
  | error t => rw [hdf] at h; cases h
  | ok v =>
    obtain ⟨s2, out2, st2⟩ := v
    have hin := hd s2 out2 st2 hdf
    rw [hdf] at h
    simp only at h
    split at h
    · cases h
      exact DataIn.append_right _ hin
    · split at h
      · cases h
      · cases h
        exact DataIn.append_left _ (DataIn.append_right _ hin)

/-- A successful `flush` whose ack stage passes ran the data stage successfully, and every data
frame of the data stage is part of the output. -/
theorem flush_stage (s s' : State F) (out : List (List Nat)) (hack : AckPassed s)
    (h : flush s = .ok (s', out)) :
    ∃ s2 out2 st, emitDataFrames (emitAckFrames s).1 = .ok (s2, out2, st) ∧
      ∀ dg, DataIn dg out2 → DataIn dg out := by
  cases hdf : emitDataFrames (emitAckFrames s).1 with
  | error t =>
    exfalso
    unfold flush at h
    obtain ⟨hst, _⟩ := hack
    generalize emitAckFrames s = a at h hst hdf
    obtain ⟨s1, out1, st1⟩ := a
    simp only at h hst hdf
    subst hst
    simp only [reduceCtorEq, if_false, hdf] at h
  | ok v =>
    obtain ⟨s2, out2, st2⟩ := v
    exact ⟨s2, out2, st2, rfl, fun dg hin =>
      flush_data s s' out dg hack (fun s2' out2' st' hd => by
        rw [hdf] at hd
        simp only [Except.ok.injEq, Prod.mk.injEq] at hd
        obtain ⟨_, rfl, _⟩ := hd
        exact hin) h⟩

/-- A flush whose credit is negative sends nothing (C13). -/
theorem flush_neg (s s' : State F) (out : List (List Nat)) (hA : s.flushAlloc < 0)
    (h : flush s = .ok (s', out)) : out = [] :=
  ((flush_debit False s s' out (fun h => h.elim) h).1.neg hA).1

end Uflow.FlushProg
