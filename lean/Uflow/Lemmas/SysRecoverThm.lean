import Uflow.Lemmas.SysRecoverRound

/-!
Recovery of the composed system after a blackout (C11Sys), part 4: the new submissions, the rounds
that drain the send queue, and the whole continuation schedule.
-/

namespace Uflow.Props.C11

open Uflow Uflow.Gen Uflow.Codec Uflow.PSend Uflow.PRecv Uflow.Frag Uflow.Sys
open Uflow.Props.C01Sys Uflow.Props.C02

/-- The "not stale for flush `f`" filter on queue entries. -/
def live (f : Nat) (q : QEntry) : Bool := decide (¬ Stale f q)

theorem live_newQ (f : Nat) (n : NewPkt) : live f (newQ f n) = true := by
  simp [live, Stale, newQ]

/-- The application's submissions: appended to the send queue, nothing else changes. -/
theorem enq_run (f : Nat) (news : List NewPkt) : ∀ (s : Sys),
    (∀ n ∈ news, n.1.length ≤ MAX_PACKET_SIZE) →
    ∃ s1, runS s (enqOps f news) = .ok s1 ∧ s1.snd.queue = s.snd.queue ++ news.map (newQ f) ∧
      s1.snd.totalSize = s.snd.totalSize + qBytes (news.map (newQ f)) ∧ s1.snd.win = s.snd.win ∧
      s1.snd.alloc = s.snd.alloc ∧ s1.snd.baseId = s.snd.baseId ∧ s1.snd.nextId = s.snd.nextId ∧
      s1.hist.emitted = s.hist.emitted ∧ s1.hist.enqueued = s.hist.enqueued ++ news.map (newQ f) ∧
      s1.rcv = s.rcv := by
  induction news with
  | nil =>
    intro s _
    exact ⟨s, rfl, by simp, by simp [qBytes], rfl, rfl, rfl, rfl, rfl, by simp, rfl⟩
  | cons n rest ih =>
    intro s hn
    have hstep : ∃ s0, stepS s (.enq n.1 n.2.1 n.2.2 f) = .ok s0 ∧
        s0.snd = enqueue s.snd n.1 n.2.1 n.2.2 f ∧ s0.hist.emitted = s.hist.emitted ∧
        s0.hist.enqueued = s.hist.enqueued ++ [newQ f n] ∧ s0.rcv = s.rcv := by
      refine ⟨{ s with snd := enqueue s.snd n.1 n.2.1 n.2.2 f,
                       hist := { s.hist with enqueued := s.hist.enqueued ++ [newQ f n] } }, ?_, rfl, rfl, rfl, rfl⟩
      simp only [stepS]
      rw [if_pos (hn n List.mem_cons_self)]
      rfl
    obtain ⟨s0, hstep, b1, b2, b3, b4⟩ := hstep
    obtain ⟨s1, h1, a1, a2, a3, a4, a5, a6, a7, a8, a9⟩ :=
      ih s0 (fun x hx => hn x (List.mem_cons_of_mem _ hx))
    rw [b1] at a1 a2 a3 a4 a5 a6
    refine ⟨s1, ?_, ?_, ?_, a3, a4, a5, a6, by rw [a7, b2], ?_, by rw [a9, b4]⟩
    · show runS s (SOp.enq n.1 n.2.1 n.2.2 f :: enqOps f rest) = _
      rw [runS, hstep, bindR_ok]; exact h1
    · rw [a1]; simp [enqueue, newQ]
    · rw [a2]
      simp only [enqueue, List.map_cons, qBytes, List.sum_cons, newQ]
      omega
    · rw [a8, b3]; simp

/-- **The rounds that drain the send queue.** From a recovered reachable state, `n ≥ queue length`
rounds `emitRound`: every queued packet that is not a stale TimeSensitive one is emitted and
delivered, one per round, in queue order; the log grows by exactly their entries. -/
theorem emit_rounds {w k b a m : Nat} (H : Hyp w k b a m) (hw0 : 0 < w) (f : Nat) :
    ∀ (n : Nat) (s : Sys), Reach w k b a m s → Recovered s → s.snd.queue.length ≤ n →
    (∀ q ∈ s.snd.queue, ¬ Stale f q → allocSize q.data.length ≤ allocCeil a ∧ q.channelId < CHANNEL_COUNT) →
    ∃ s' es new, runS s (emitRounds n s f) = .ok s' ∧ Reach w k b a m s' ∧ Recovered s' ∧
      s'.snd.queue = [] ∧ s'.hist.emitted = s.hist.emitted ++ es ∧
      es.map Emitted.toQ = s.snd.queue.filter (live f) ∧ s'.hist.enqueued = s.hist.enqueued ∧
      s'.rcv.log = s.rcv.log ++ new ∧
      new.map LogE.uid = List.range' s.hist.emitted.length es.length ∧
      new.map (fun e => (e.chan, e.data)) = es.map (fun x => (x.channelId, some x.data)) ∧
      recvCount (emitRounds n s f) = n := by
  intro n
  induction n with
  | zero =>
    intro s hr rc hlen _
    have hq : s.snd.queue = [] := List.eq_nil_of_length_eq_zero (by omega)
    exact ⟨s, [], [], rfl, hr, rc, hq, by simp, by rw [hq]; rfl, rfl, by simp, rfl, rfl, rfl⟩
  | succ n ih =>
    intro s hr rc hlen hgood
    rcases stale_split f s.snd.queue with hall | ⟨dropped, q, rest, hq, hd, hn⟩
    · obtain ⟨s2, hrun, hr2, rc2, g1, g2, g3, g4⟩ := emit_round_none H hr rc f hall
      obtain ⟨s', es, new, i1, i2, i3, i4, i5, i6, i7, i8, i9, i10, i11⟩ :=
        ih s2 hr2 rc2 (by rw [g1]; exact Nat.zero_le _) (by rw [g1]; intro q hq; cases hq)
      have hes : es = [] := by
        rw [g1] at i6
        exact List.map_eq_nil_iff.mp i6
      have hunf : emitRounds (n+1) s f = emitRound s f ++ emitRounds n s2 f := by
        rw [emitRounds, hrun]
      refine ⟨s', es, new, ?_, i2, i3, i4, by rw [i5, g2], ?_, by rw [i7, g2], by rw [i8, g3],
        by rw [i9, g2], i10, ?_⟩
      · rw [hunf, runS_append _ _ s s2 hrun]; exact i1
      · rw [hes]
        symm
        rw [List.map_nil, List.filter_eq_nil_iff]
        intro x hx
        simp [live, hall x hx]
      · rw [hunf, recvCount_append, g4, i11]; omega
    · have hqm : q ∈ s.snd.queue := by rw [hq]; simp
      obtain ⟨hal, hch⟩ := hgood q hqm hn
      obtain ⟨s2, x, le, hrun, hr2, rc2, g1, g2, g3, g4, g5, g6, g7, g8, g9⟩ :=
        emit_round_some H hw0 hr rc f dropped q rest hq hd hn hal hch
      have hlen2 : s2.snd.queue.length ≤ n := by
        rw [g1]
        rw [hq, List.length_append, List.length_cons] at hlen
        omega
      obtain ⟨s', es, new, i1, i2, i3, i4, i5, i6, i7, i8, i9, i10, i11⟩ :=
        ih s2 hr2 rc2 hlen2 (by
          rw [g1]; intro y hy
          exact hgood y (by rw [hq]; exact List.mem_append.mpr (Or.inr (List.mem_cons_of_mem _ hy))))
      have hunf : emitRounds (n+1) s f = emitRound s f ++ emitRounds n s2 f := by
        rw [emitRounds, hrun]
      refine ⟨s', x :: es, le :: new, ?_, i2, i3, i4, by rw [i5, g2]; simp, ?_, by rw [i7, g4],
        by rw [i8, g5]; simp, ?_, ?_, ?_⟩
      · rw [hunf, runS_append _ _ s s2 hrun]; exact i1
      · rw [hq, List.filter_append, List.map_cons, i6, g1, g3]
        have h1 : dropped.filter (live f) = [] := by
          rw [List.filter_eq_nil_iff]
          intro y hy
          simp [live, hd y hy]
        have h2 : live f q = true := by simp [live, hn]
        rw [h1, List.nil_append, List.filter_cons, if_pos h2]
      · rw [List.map_cons, i9, g6, g2, List.length_cons, List.range'_succ, List.length_append,
          List.length_singleton]
      · rw [List.map_cons, List.map_cons, i10, g7, g8]
        have : x.channelId = q.channelId ∧ x.data = q.data := by rw [← g3]; exact ⟨rfl, rfl⟩
        rw [this.1, this.2]
      · rw [hunf, recvCount_append, g9, i11]; omega

/-- **The whole continuation schedule** from any reachable state. -/
theorem recover_schedule {w k b a m : Nat} (H : Hyp w k b a m) (hw0 : 0 < w) {s : Sys}
    (hr : Reach w k b a m s) (f : Nat) (news : List NewPkt)
    (hnews : ∀ n ∈ news, n.1.length ≤ MAX_PACKET_SIZE ∧ allocSize n.1.length ≤ allocCeil a ∧
      n.2.1 < CHANNEL_COUNT)
    (hqueue : ∀ q ∈ s.snd.queue, ¬ Stale f q →
      allocSize q.data.length ≤ allocCeil a ∧ q.channelId < CHANNEL_COUNT) :
    ∃ s1 s' es new, runS s (recoverRound s) = .ok s1 ∧ runS s (recoverSchedule s f news) = .ok s' ∧
      Reach w k b a m s' ∧ Recovered s' ∧ s'.snd.queue = [] ∧
      s'.hist.emitted = s.hist.emitted ++ es ∧
      es.map Emitted.toQ = s.snd.queue.filter (live f) ++ news.map (newQ f) ∧
      s'.hist.enqueued = s.hist.enqueued ++ news.map (newQ f) ∧
      s'.rcv.log = s1.rcv.log ++ new ∧
      new.map LogE.uid = List.range' s.hist.emitted.length es.length ∧
      new.map (fun e => (e.chan, e.data)) = es.map (fun x => (x.channelId, some x.data)) ∧
      recvCount (recoverSchedule s f news) = s.snd.queue.length + news.length + 1 := by
  obtain ⟨s1, hrun1, hr1, rc1, q1, q2, -, -, -⟩ := recover_round H hr
  obtain ⟨t, hrunt, t1, t2, t3, t4, t5, t6, t7, t8, t9⟩ := enq_run f news s1 (fun n hn => (hnews n hn).1)
  have hrt : Reach w k b a m t := hr1.run _ hrunt
  have rct : Recovered t := by
    refine ⟨by rw [t3]; exact rc1.win, by rw [t4]; exact rc1.alloc, by rw [t5, t6]; exact rc1.base, ?_,
      by rw [t9, t7]; exact rc1.adv⟩
    rw [t2, t1, qBytes_append, rc1.total]
  have hpre : runS s (recoverRound s ++ enqOps f news) = .ok t := by
    rw [runS_append _ _ s s1 hrun1]; exact hrunt
  have hunf : recoverSchedule s f news =
      (recoverRound s ++ enqOps f news) ++ emitRounds (s.snd.queue.length + news.length) t f := by
    unfold recoverSchedule; rw [hpre]
  obtain ⟨s', es, new, i1, i2, i3, i4, i5, i6, i7, i8, i9, i10, i11⟩ :=
    emit_rounds H hw0 f (s.snd.queue.length + news.length) t hrt rct
      (by rw [t1, q1, List.length_append, List.length_map]; exact Nat.le_refl _)
      (by
        intro y hy hns
        rw [t1, q1] at hy
        rcases List.mem_append.mp hy with hy | hy
        · exact hqueue y hy hns
        · obtain ⟨n, hn, rfl⟩ := List.mem_map.mp hy
          exact ⟨(hnews n hn).2.1, (hnews n hn).2.2⟩)
  refine ⟨s1, s', es, new, hrun1, ?_, i2, i3, i4, by rw [i5, t7, q2], ?_, by rw [i7, t8, q2],
    by rw [i8, t9], by rw [i9, t7, q2], i10, ?_⟩
  · rw [hunf, runS_append _ _ s t hpre]; exact i1
  · rw [i6, t1, q1, List.filter_append]
    congr 1
    rw [List.filter_eq_self]
    intro y hy
    obtain ⟨n, -, rfl⟩ := List.mem_map.mp hy
    exact live_newQ f n
  · rw [hunf, recvCount_append, recvCount_append, recvCount_recoverRound, recvCount_enqOps, i11]
    omega

end Uflow.Props.C11
