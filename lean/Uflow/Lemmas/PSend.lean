import Uflow.Model.PSend

/-! Helper lemmas for C20 / C06 (sender accounting). -/

namespace Uflow.PSend

open Uflow.Gen

def qBytes (q : List QEntry) : Nat := (q.map (·.data.length)).sum
def wBytes (w : List WEntry) : Nat := (w.map (·.packet.data.length)).sum
def wAlloc (w : List WEntry) : Nat := (w.map (·.allocSize)).sum

/-- The accounting invariant: the two counters equal the sums they stand for. -/
def Inv (s : State) : Prop :=
  s.totalSize = qBytes s.queue + wBytes s.win ∧ s.alloc = wAlloc s.win

theorem inv_init (w b a : Nat) : Inv (init w b a) := by
  simp [Inv, init, qBytes, wBytes, wAlloc]

theorem qBytes_append (a b : List QEntry) : qBytes (a ++ b) = qBytes a + qBytes b := by
  simp [qBytes, List.map_append, List.sum_append]

theorem wBytes_append (a b : List WEntry) : wBytes (a ++ b) = wBytes a + wBytes b := by
  simp [wBytes, List.map_append, List.sum_append]

theorem wAlloc_append (a b : List WEntry) : wAlloc (a ++ b) = wAlloc a + wAlloc b := by
  simp [wAlloc, List.map_append, List.sum_append]

theorem inv_enqueue (s : State) (d : List Nat) (c : Nat) (m : SendMode) (f : Nat) (h : Inv s) :
    Inv (enqueue s d c m f) := by
  obtain ⟨h1, h2⟩ := h
  refine ⟨?_, h2⟩
  simp only [enqueue, qBytes_append]
  simp only [qBytes, List.map_cons, List.map_nil, List.sum_cons, List.sum_nil]
  simp only [qBytes] at h1
  omega

/-- `dropStale` keeps `total - qBytes queue` and never underflows when `total ≥ qBytes queue`. -/
theorem dropStale_spec (f : Nat) (q : List QEntry) (t w : Nat) (h : t = qBytes q + w) :
    ∃ q' t', dropStale f q t = .ok (q', t') ∧ t' = qBytes q' + w := by
  induction q generalizing t with
  | nil => exact ⟨[], t, rfl, h⟩
  | cons e rest ih =>
    unfold dropStale
    split
    · have hq : qBytes (e :: rest) = e.data.length + qBytes rest := by simp [qBytes]
      have hlt : ¬ t < e.data.length := by omega
      rw [if_neg hlt]
      exact ih (t - e.data.length) (by omega)
    · exact ⟨e :: rest, t, rfl, h⟩

theorem inv_emit (s : State) (f : Nat) (h : Inv s) :
    ∀ s' r, emit s f = .ok (s', r) → Inv s' := by
  intro s' r he
  obtain ⟨h1, h2⟩ := h
  obtain ⟨q', t', hd, ht⟩ := dropStale_spec f s.queue s.totalSize (wBytes s.win) h1
  unfold emit at he
  rw [hd] at he
  simp only at he
  cases q' with
  | nil =>
    simp only [Except.ok.injEq, Prod.mk.injEq] at he
    obtain ⟨hs, _⟩ := he
    subst hs
    exact ⟨by simpa using ht, h2⟩
  | cons q rest =>
    simp only at he
    split at he
    · simp only [Except.ok.injEq, Prod.mk.injEq] at he
      obtain ⟨hs, _⟩ := he; subst hs
      exact ⟨by simpa using ht, h2⟩
    · split at he
      · simp only [Except.ok.injEq, Prod.mk.injEq] at he
        obtain ⟨hs, _⟩ := he; subst hs
        exact ⟨by simpa using ht, h2⟩
      · split at he
        · exact absurd he (by simp)
        · simp only [Except.ok.injEq, Prod.mk.injEq] at he
          obtain ⟨hs, _⟩ := he; subst hs
          simp only [Inv, wBytes_append, wAlloc_append]
          simp only [wBytes, wAlloc, List.map_cons, List.map_nil, List.sum_cons, List.sum_nil]
          simp only [qBytes, List.map_cons, List.sum_cons] at ht
          simp only [wBytes] at ht
          simp only [wAlloc] at h2
          simp only [qBytes]
          constructor <;> omega

/-- `emit` never traps on arithmetic in a state satisfying the invariant. -/
theorem emit_no_overflow (s : State) (f : Nat) (h : Inv s) : emit s f ≠ .error .overflow := by
  obtain ⟨h1, _⟩ := h
  obtain ⟨q', t', hd, _⟩ := dropStale_spec f s.queue s.totalSize (wBytes s.win) h1
  unfold emit
  rw [hd]
  simp only
  split
  · simp
  · split
    · simp
    · split
      · simp
      · split <;> simp

theorem inv_ackLoop (fuel : Nat) (s : State) (rb : Nat) (h : Inv s) :
    ∀ s', ackLoop fuel s rb = .ok s' → Inv s' := by
  induction fuel generalizing s with
  | zero => intro s' he; simp [ackLoop] at he
  | succ n ih =>
    intro s' he
    unfold ackLoop at he
    split at he
    · simp only [Except.ok.injEq] at he; subst he; exact h
    · split at he
      · exact absurd he (by simp)
      · rename_i e rest hw
        split at he
        · exact absurd he (by simp)
        · split at he
          · exact absurd he (by simp)
          · split at he
            · exact absurd he (by simp)
            · rename_i ha ht
              refine ih _ ?_ s' he
              obtain ⟨h1, h2⟩ := h
              simp only [Inv]
              rw [hw] at h1 h2
              simp only [wBytes, wAlloc, List.map_cons, List.sum_cons] at h1 h2 ⊢
              constructor <;> omega

theorem ackLoop_no_overflow (fuel : Nat) (s : State) (rb : Nat) (h : Inv s) :
    ackLoop fuel s rb ≠ .error .overflow := by
  induction fuel generalizing s with
  | zero => simp [ackLoop]
  | succ n ih =>
    unfold ackLoop
    split
    · simp
    · split
      · simp
      · rename_i e rest hw
        split
        · simp
        · obtain ⟨h1, h2⟩ := h
          rw [hw] at h1 h2
          simp only [wBytes, wAlloc, List.map_cons, List.sum_cons] at h1 h2
          have ha : ¬ s.alloc < e.allocSize := by omega
          have ht : ¬ s.totalSize < e.packet.data.length := by omega
          rw [if_neg ha, if_neg ht]
          apply ih
          simp only [Inv, wBytes, wAlloc]
          constructor <;> omega

theorem inv_acknowledge (s : State) (rb : Nat) (h : Inv s) : ∀ s', acknowledge s rb = .ok s' → Inv s' := by
  intro s' he
  unfold acknowledge at he
  simp only at he
  split at he
  · simp only [Except.ok.injEq] at he; subst he; exact h
  · split at he
    · simp only [Except.ok.injEq] at he; subst he; exact h
    · exact inv_ackLoop _ s rb h s' he

theorem acknowledge_no_overflow (s : State) (rb : Nat) (h : Inv s) : acknowledge s rb ≠ .error .overflow := by
  unfold acknowledge
  simp only
  split
  · simp
  · split
    · simp
    · exact ackLoop_no_overflow _ s rb h

theorem inv_ackFragment (s : State) (u f : Nat) (h : Inv s) : Inv (ackFragment s u f) := by
  obtain ⟨h1, h2⟩ := h
  have hb : wBytes (ackFragment s u f).win = wBytes s.win := by
    simp only [ackFragment, wBytes, List.map_map]
    congr 1
    apply List.map_congr_left
    intro e _
    simp only [Function.comp]
    split <;> rfl
  have ha : wAlloc (ackFragment s u f).win = wAlloc s.win := by
    simp only [ackFragment, wAlloc, List.map_map]
    congr 1
    apply List.map_congr_left
    intro e _
    simp only [Function.comp]
    split <;> rfl
  exact ⟨by rw [hb]; exact h1, by rw [ha]; exact h2⟩

end Uflow.PSend
