import Uflow.Lemmas.FrameQReorder

/-!
Trap-freedom of `notifyAck`, `ackLoop`, `acknowledgeGroup` under the invariant `AckInv`
(optional part of C15), and establishment / preservation of `AckInv` by `init`, `push`,
`acknowledgeGroup`.
-/

namespace Uflow.FrameQ

open Uflow Uflow.Codec

/-- Invariant under which `acknowledgeGroup` cannot trap: the reorder buffer is consistent with
the frame log (`RInv`), and every frame held in the reorder buffer is marked acked in the log. -/
structure AckInv (s : State) : Prop where
  rinv : RInv s.logBase s.frames.length s.reorder
  bufAcked : ∀ x, Buffered s.reorder x → ∃ e, getFrame s x = some e ∧ e.acked = true

theorem notifyAck_spec (s : State) (id : Nat) (rtt : Option Nat)
    (hr : RInv s.logBase s.frames.length s.reorder) (hid : id < 2^32)
    (hpos : wsub32 id s.logBase < s.frames.length) (hnb : ¬ Buffered s.reorder id) :
    ∃ s', notifyAck s id rtt = .ok s' ∧ s'.frames = s.frames ∧ s'.logBase = s.logBase ∧
      RInv s.logBase s.frames.length s'.reorder ∧
      (∀ x, Buffered s'.reorder x → Buffered s.reorder x ∨ x = id) := by
  unfold notifyAck
  by_cases hcan : s.reorder.canPut id = true
  · rw [if_pos hcan]
    obtain ⟨r', cb, hput, hok⟩ :=
      put_spec s.logBase s.frames.length s.reorder id hr hid hpos hcan hnb
    rw [hput]
    simp only []
    obtain ⟨l', hl⟩ := applyCb_ok s rtt cb s.intervals hok.cb_in
    rw [hl]
    exact ⟨_, rfl, rfl, rfl, hok.inv, hok.buf⟩
  · rw [if_neg hcan]
    exact ⟨s, rfl, rfl, rfl, hr, fun x hx => Or.inl hx⟩

/-- One "newly acked" step of the second loop of `acknowledgeGroup`. -/
theorem ack_step (s : State) (id : Nat) (e : Entry) (rtt : Option Nat) (hinv : AckInv s)
    (hid : id < 2^32) (hk : s.frames[wsub32 id s.logBase]? = some e) (ha : e.acked = false) :
    ∃ s2, notifyAck { s with frames := s.frames.set (wsub32 id s.logBase)
                                { e with acked := true, refs := [] } } id rtt = .ok s2 ∧
      AckInv s2 ∧ s2.logBase = s.logBase ∧ s2.frames.length = s.frames.length := by
  have hlt : wsub32 id s.logBase < s.frames.length := (List.getElem?_eq_some_iff.mp hk).1
  have hlen : (s.frames.set (wsub32 id s.logBase) { e with acked := true, refs := [] }).length =
      s.frames.length := List.length_set
  have hnb : ¬ Buffered s.reorder id := by
    intro hb
    obtain ⟨e', he', ha'⟩ := hinv.bufAcked id hb
    unfold getFrame at he'
    rw [hk] at he'; cases he'
    rw [ha] at ha'; cases ha'
  obtain ⟨s2, hn, hfr, hlb, hr2, hbuf⟩ := notifyAck_spec
    { s with frames := s.frames.set (wsub32 id s.logBase) { e with acked := true, refs := [] } }
    id rtt (by simp only []; rw [hlen]; exact hinv.rinv) hid (by simp only []; rw [hlen]; exact hlt)
    hnb
  simp only [] at hfr hlb hr2 hbuf
  rw [hlen] at hr2
  refine ⟨s2, hn, ⟨?_, ?_⟩, hlb, by rw [hfr]; exact hlen⟩
  · rw [hlb, hfr, hlen]; exact hr2
  · intro x hx
    unfold getFrame
    rw [hlb, hfr]
    by_cases hxk : wsub32 id s.logBase = wsub32 x s.logBase
    · rw [← hxk, List.getElem?_set_self hlt]
      exact ⟨_, rfl, rfl⟩
    · rw [List.getElem?_set_ne hxk]
      rcases hbuf x hx with hb | rfl
      · exact hinv.bufAcked x hb
      · exact absurd rfl hxk

theorem ackLoop_no_trap (ack : AckGroup) (rtt : Option Nat) (l : List Nat) :
    ∀ (s : State) (lst tot : Nat) (rl : Bool) (fr : List (Nat × Nat)),
      (∀ i ∈ l, wsub32 (wadd32 ack.baseId i) s.logBase < s.frames.length) → AckInv s →
      ∃ s' lst' tot' rl' fr', ackLoop ack rtt l s lst tot rl fr = .ok (s', lst', tot', rl', fr') ∧
        AckInv s' := by
  induction l with
  | nil => intro s lst tot rl fr _ hinv; exact ⟨s, lst, tot, rl, fr, rfl, hinv⟩
  | cons i l ih =>
    intro s lst tot rl fr hin hinv
    have hk := hin i List.mem_cons_self
    have hget : s.frames[wsub32 (wadd32 ack.baseId i) s.logBase]? =
        some s.frames[wsub32 (wadd32 ack.baseId i) s.logBase] := List.getElem?_eq_getElem hk
    rw [ackLoop_cons, hget]
    simp only []
    by_cases hc : ack.bitfield / 2^i % 2 = 1 ∧
        ¬ (s.frames[wsub32 (wadd32 ack.baseId i) s.logBase]).acked = true
    · rw [if_pos hc]
      have hacked : (s.frames[wsub32 (wadd32 ack.baseId i) s.logBase]).acked = false := by
        cases hx : (s.frames[wsub32 (wadd32 ack.baseId i) s.logBase]).acked with
        | false => rfl
        | true => exact absurd hx hc.2
      obtain ⟨s2, hn, hinv2, hlb, hlen⟩ := ack_step s (wadd32 ack.baseId i) _ rtt hinv
        (wadd32_lt _ _) hget hacked
      rw [hn]
      simp only []
      exact ih s2 _ _ _ _ (fun j hj => by
        rw [hlb, hlen]; exact hin j (List.mem_cons_of_mem _ hj)) hinv2
    · rw [if_neg hc]
      exact ih s _ _ _ _ (fun j hj => hin j (List.mem_cons_of_mem _ hj)) hinv

theorem acknowledgeGroup_no_trap (s : State) (ack : AckGroup) (rtt : Option Nat)
    (hinv : AckInv s) :
    ∃ s' frs, acknowledgeGroup s ack rtt = .ok (s', frs) ∧ AckInv s' := by
  by_cases hall : ∀ i, i < bitfieldSize ack.bitfield → getFrame s (wadd32 ack.baseId i) ≠ none
  · by_cases hn : ack.nonce = claimedNonce s ack
    · rw [acknowledgeGroup_accept s ack rtt hall hn]
      obtain ⟨s', lst', tot', rl', fr', hl, hinv'⟩ := ackLoop_no_trap ack rtt
        (List.range (bitfieldSize ack.bitfield)) s 0 0 false []
        (fun i hi => by
          have h := hall i (List.mem_range.mp hi)
          unfold getFrame at h
          rw [Ne, List.getElem?_eq_none_iff] at h
          omega) hinv
      rw [hl, ackAfterLoop_ok]
      obtain ⟨ad, had⟩ := ackFinish_fst s' lst' tot' rl' fr'
      refine ⟨(ackFinish s' lst' tot' rl' fr').1, (ackFinish s' lst' tot' rl' fr').2, rfl, ?_⟩
      rw [had]
      exact ⟨hinv'.rinv, hinv'.bufAcked⟩
    · exact ⟨s, [], acknowledgeGroup_bad_nonce s ack rtt hall hn, hinv⟩
  · have : ∃ i, i < bitfieldSize ack.bitfield ∧ getFrame s (wadd32 ack.baseId i) = none := by
      apply Classical.byContradiction
      intro hne
      apply hall
      intro i hi hnone
      exact hne ⟨i, hi, hnone⟩
    obtain ⟨i, hi, hnone⟩ := this
    exact ⟨s, [], acknowledgeGroup_unknown s ack rtt i hi hnone, hinv⟩

/-! ### establishing the invariant -/

theorem AckInv_init (size tail base : Nat) (hb : base < 2^32) : AckInv (init size tail base) := by
  have hc : (init size tail base).reorder.count = 0 := rfl
  refine ⟨⟨?_, hb, ?_, ?_, ?_, ?_, ?_, ?_, ?_, ?_⟩, ?_⟩
  · show 0 + (size + tail) % 2^32 ≤ 2^32; omega
  · show wsub32 base base ≤ 0; unfold wsub32; omega
  · rw [hc]; omega
  all_goals first
    | (intro h; rw [hc] at h; omega)
    | (intro x hx; rcases hx with ⟨h, _⟩ | ⟨h, _⟩ <;> (rw [hc] at h; omega))

theorem AckInv_push (s : State) (size now : Nat) (refs : List (Nat × Nat)) (nonce : Bool)
    (hinv : AckInv s) (hlen : s.frames.length + 1 + s.reorder.maxSpan ≤ 2^32) :
    AckInv (push s size now refs nonce) := by
  unfold push
  split
  · obtain ⟨⟨_, h2, h3, h4, h5, h6, h7, h8, h9, h10⟩, hb⟩ := hinv
    refine ⟨⟨?_, h2, ?_, h4, h5, h6, ?_, h8, h9, ?_⟩, ?_⟩
    · show (s.frames ++ [_]).length + s.reorder.maxSpan ≤ 2^32
      rw [List.length_append]; exact hlen
    · show wsub32 s.reorder.baseId s.logBase ≤ (s.frames ++ [_]).length
      rw [List.length_append]; exact Nat.le_trans h3 (Nat.le_add_right _ _)
    · intro h
      show wsub32 s.reorder.f0 s.logBase < (s.frames ++ [_]).length
      rw [List.length_append]; exact Nat.lt_of_lt_of_le (h7 h) (Nat.le_add_right _ _)
    · intro h
      show wsub32 s.reorder.f1 s.logBase < (s.frames ++ [_]).length
      rw [List.length_append]; exact Nat.lt_of_lt_of_le (h10 h) (Nat.le_add_right _ _)
    · intro x hx
      obtain ⟨e, he, ha⟩ := hb x hx
      refine ⟨e, ?_, ha⟩
      unfold getFrame at he ⊢
      show (s.frames ++ [_])[wsub32 x s.logBase]? = some e
      rw [List.getElem?_append_left (List.getElem?_eq_some_iff.mp he).1]
      exact he
  · exact hinv

end Uflow.FrameQ
