import Uflow.Lemmas.Credit
import Uflow.Lemmas.HcFrameAck
import Uflow.Lemmas.HcFrameStep

/-!
C13, part 4: the credit recurrence over an arbitrary interleaving of the operations of a
`HalfConnection` (`step`, `flush`, `send`, `receive`, `handle_*_frame`), as an event list.
-/

namespace Uflow.Credit

open Uflow Uflow.Gen Uflow.Codec Uflow.HalfConn Uflow.HcFrame
open Uflow.Rate (FloatOps)

variable {F : Type}

/-- One call of the public interface of `HalfConnection`. -/
inductive Ev where
  | step (now : Nat)
  | flush
  | send (data : List Nat) (chan : Nat) (mode : SendMode)
  | receive
  | dataFrame (id : Nat) (nonce : Bool) (dgs : List Datagram)
  | syncFrame (nextFrame nextPacket : Option Nat)
  | ackFrame (frameBase packetBase : Nat) (acks : List AckGroup)
  deriving Repr, DecidableEq, Inhabited

/-- The precondition of `Endpoint::send` (checked before `HalfConnection::send` is reached):
the packet is at most `MAX_PACKET_SIZE` bytes. -/
def Ev.Ok : Ev → Prop
  | .send data _ _ => data.length ≤ MAX_PACKET_SIZE
  | _ => True

instance (ev : Ev) : Decidable ev.Ok := by cases ev <;> unfold Ev.Ok <;> infer_instance

/-- Executes one event; returns the new state and the frames handed to the frame sink. -/
def exec (ops : FloatOps F) (s : State F) : Ev → R (State F × List (List Nat))
  | .step now => (HalfConn.step ops s now).map fun s' => (s', [])
  | .flush => HalfConn.flush s
  | .send d c m => .ok (HalfConn.send s d c m, [])
  | .receive => (HalfConn.receive s).map fun r => (r.1, [])
  | .dataFrame id nonce dgs => (handleDataFrame s id nonce dgs).map fun s' => (s', [])
  | .syncFrame nf np => (handleSyncFrame s nf np).map fun s' => (s', [])
  | .ackFrame fb pb acks => (handleAckFrame s fb pb acks).map fun s' => (s', [])

/-- The bytes credited by an event executed in state `s`: the non-negative part of the
`new_bytes` of the fill performed by `step`, nothing for any other event. -/
def evCredit (ops : FloatOps F) (s : State F) : Ev → Int
  | .step now => max (stepCredit ops s now) 0
  | _ => 0

/-- Runs an event list; returns the final state, the total number of bytes handed to the frame
sink and the total credit granted by the fills. -/
def run (ops : FloatOps F) : State F → List Ev → R (State F × Nat × Int)
  | s, [] => .ok (s, 0, 0)
  | s, ev :: rest =>
    match exec ops s ev with
    | .error t => .error t
    | .ok (s1, out) =>
      match run ops s1 rest with
      | .error t => .error t
      | .ok (s2, b, c) => .ok (s2, bytes out + b, evCredit ops s ev + c)

theorem ackSteps_psOk {ps ps' : PSend.State} (h : AckSteps ps ps') (hps : PsOk ps) : PsOk ps' := by
  induction h with
  | refl => exact hps
  | frag uid fid _ ih =>
    refine ⟨?_, ih.2⟩
    intro w hw
    simp only [PSend.ackFragment, List.mem_map] at hw
    obtain ⟨w0, hw0, rfl⟩ := hw
    have := ih.1 w0 hw0
    split
    · exact this
    · exact this
  | ack rb _ hack ih =>
    rename_i ps1 ps2 _
    have hloop : ∀ (fuel : Nat) (a b : PSend.State), PsOk a → PSend.ackLoop fuel a rb = .ok b → PsOk b := by
      intro fuel
      induction fuel with
      | zero => intro a b _ h; simp [PSend.ackLoop] at h
      | succ n ihn =>
        intro a b ha h
        unfold PSend.ackLoop at h
        split at h
        · cases h; exact ha
        · split at h
          · cases h
          · rename_i e rest hw
            split at h
            · cases h
            · split at h
              · cases h
              · split at h
                · cases h
                · refine ihn _ b ?_ h
                  exact ⟨fun w hw' => ha.1 w (by rw [hw]; exact List.mem_cons_of_mem _ hw'), ha.2⟩
    unfold PSend.acknowledge at hack
    simp only at hack
    split at hack
    · cases hack; exact ih
    · split at hack
      · cases hack; exact ih
      · exact hloop _ _ _ ih hack

/-- What one event does to the credit, the bytes sent and sender well-formedness. -/
theorem exec_credit (ops : FloatOps F) (s s1 : State F) (ev : Ev) (out : List (List Nat))
    (hok : ev.Ok) (hps : PsOk s.ps) (h : exec ops s ev = .ok (s1, out)) :
    PsOk s1.ps ∧
    (bytes out : Int) + max s1.flushAlloc (-(MAX_FRAME_SIZE : Int)) ≤
      max s.flushAlloc (-(MAX_FRAME_SIZE : Int)) + evCredit ops s ev := by
  cases ev with
  | step now =>
    simp only [exec] at h
    generalize hs : HalfConn.step ops s now = r at h
    cases r with
    | error t => cases h
    | ok s2 =>
      simp only [Except.map, Except.ok.injEq, Prod.mk.injEq] at h
      obtain ⟨rfl, rfl⟩ := h
      obtain ⟨hA, hp, _⟩ := step_frame ops s s2 now hs
      refine ⟨by rw [hp]; exact hps, ?_⟩
      have := fill_le ops s now
      simp only [evCredit, bytes_nil, hA, isizeMin, MAX_FRAME_SIZE] at this ⊢
      omega
  | flush =>
    simp only [exec] at h
    obtain ⟨hd, hp⟩ := flush_debit True s s1 out (fun _ => hps) h
    refine ⟨hp trivial, ?_⟩
    obtain ⟨h1, h2, h3, _⟩ := hd
    simp only [evCredit]
    by_cases hA : s.flushAlloc < 0
    · have := h2 hA
      subst this
      simp only [bytes_nil] at h1 ⊢
      omega
    · have := h3 trivial (by omega)
      omega
  | send d c m =>
    simp only [exec, Except.ok.injEq, Prod.mk.injEq] at h
    obtain ⟨rfl, rfl⟩ := h
    refine ⟨?_, by simp [evCredit, HalfConn.send]⟩
    refine ⟨hps.1, ?_⟩
    intro q hq
    simp only [HalfConn.send, PSend.enqueue, List.mem_append, List.mem_singleton] at hq
    rcases hq with hq | rfl
    · exact hps.2 q hq
    · exact hok
  | receive =>
    simp only [exec] at h
    generalize hs : HalfConn.receive s = r at h
    cases r with
    | error t => cases h
    | ok v =>
      simp only [Except.map, Except.ok.injEq, Prod.mk.injEq] at h
      obtain ⟨rfl, rfl⟩ := h
      obtain ⟨hq, hp⟩ := receive_frame s v.1 v.2 hs
      refine ⟨by rw [hp]; exact hps, ?_⟩
      simp only [evCredit, bytes_nil, hq.2.2.1]
      omega
  | dataFrame id nonce dgs =>
    simp only [exec] at h
    generalize hs : handleDataFrame s id nonce dgs = r at h
    cases r with
    | error t => cases h
    | ok s2 =>
      simp only [Except.map, Except.ok.injEq, Prod.mk.injEq] at h
      obtain ⟨rfl, rfl⟩ := h
      obtain ⟨hq, hp⟩ := handleDataFrame_frame s s2 id nonce dgs hs
      refine ⟨by rw [hp]; exact hps, ?_⟩
      simp only [evCredit, bytes_nil, hq.2.2.1]
      omega
  | syncFrame nf np =>
    simp only [exec] at h
    generalize hs : handleSyncFrame s nf np = r at h
    cases r with
    | error t => cases h
    | ok s2 =>
      simp only [Except.map, Except.ok.injEq, Prod.mk.injEq] at h
      obtain ⟨rfl, rfl⟩ := h
      obtain ⟨hq, hp⟩ := handleSyncFrame_frame s s2 nf np hs
      refine ⟨by rw [hp]; exact hps, ?_⟩
      simp only [evCredit, bytes_nil, hq.2.2.1]
      omega
  | ackFrame fb pb acks =>
    simp only [exec] at h
    generalize hs : handleAckFrame s fb pb acks = r at h
    cases r with
    | error t => cases h
    | ok s2 =>
      simp only [Except.map, Except.ok.injEq, Prod.mk.injEq] at h
      obtain ⟨rfl, rfl⟩ := h
      obtain ⟨hq, hp⟩ := handleAckFrame_frame s s2 fb pb acks hs
      refine ⟨ackSteps_psOk hp hps, ?_⟩
      simp only [evCredit, bytes_nil, hq.2.2.1]
      omega

/-- The credit recurrence over an event list: bytes sent plus the credit left never exceed the
initial credit (or minus one frame, if it is lower) plus the credit granted by the fills. -/
theorem run_credit (ops : FloatOps F) (evs : List Ev) (s s' : State F) (b : Nat) (c : Int)
    (hok : ∀ ev ∈ evs, ev.Ok) (hps : PsOk s.ps) (h : run ops s evs = .ok (s', b, c)) :
    PsOk s'.ps ∧
    (b : Int) + max s'.flushAlloc (-(MAX_FRAME_SIZE : Int)) ≤
      max s.flushAlloc (-(MAX_FRAME_SIZE : Int)) + c := by
  induction evs generalizing s b c with
  | nil =>
    simp only [run, Except.ok.injEq, Prod.mk.injEq] at h
    obtain ⟨rfl, rfl, rfl⟩ := h
    exact ⟨hps, by omega⟩
  | cons ev rest ih =>
    simp only [run] at h
    generalize hex : exec ops s ev = r1 at h
    cases r1 with
    | error t => cases h
    | ok v1 =>
      obtain ⟨s1, out⟩ := v1
      simp only at h
      generalize hrun : run ops s1 rest = r2 at h
      cases r2 with
      | error t => cases h
      | ok v2 =>
        obtain ⟨s2, b2, c2⟩ := v2
        simp only [Except.ok.injEq, Prod.mk.injEq] at h
        obtain ⟨rfl, rfl, rfl⟩ := h
        obtain ⟨hp1, h1⟩ := exec_credit ops s s1 ev out (hok ev (by simp)) hps hex
        obtain ⟨hp2, h2⟩ := ih s1 b2 c2 (fun e he => hok e (by simp [he])) hp1 hrun
        refine ⟨hp2, ?_⟩
        rw [Int.natCast_add]
        omega

/-- The credit granted by an event list without `step` is zero. -/
theorem run_noStep_credit (ops : FloatOps F) (evs : List Ev) (s s' : State F) (b : Nat) (c : Int)
    (hns : ∀ ev ∈ evs, ∀ now, ev ≠ .step now) (h : run ops s evs = .ok (s', b, c)) : c = 0 := by
  induction evs generalizing s b c with
  | nil =>
    simp only [run, Except.ok.injEq, Prod.mk.injEq] at h
    exact h.2.2.symm
  | cons ev rest ih =>
    simp only [run] at h
    generalize hex : exec ops s ev = r1 at h
    cases r1 with
    | error t => cases h
    | ok v1 =>
      obtain ⟨s1, out⟩ := v1
      simp only at h
      generalize hrun : run ops s1 rest = r2 at h
      cases r2 with
      | error t => cases h
      | ok v2 =>
        obtain ⟨s2, b2, c2⟩ := v2
        simp only [Except.ok.injEq, Prod.mk.injEq] at h
        obtain ⟨rfl, _, rfl⟩ := h
        have h2 := ih s1 b2 c2 (fun e he => hns e (by simp [he])) hrun
        have h1 : evCredit ops s ev = 0 := by
          cases ev with
          | step now => exact absurd rfl (hns _ (by simp) now)
          | _ => rfl
        omega

end Uflow.Credit
