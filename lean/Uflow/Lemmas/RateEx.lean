import Uflow.Lemmas.RateInv

/-!
Small concrete `FloatOps Nat` instances used by the non-vacuity examples and the witnesses of
`Props/C14` and `Props/C03Rate`. "Seconds" are represented by milliseconds and loss rates by
per-mille (`one = 1000`), so that everything is decidable integer arithmetic.
-/

namespace Uflow.Rate.Ex

open Uflow.Gen Uflow.Rate

/-- integer toy instance, parametrised by the throughput equation and the two initial rates. -/
def mkOps (tcp : Nat → Nat → Nat) (init initLoss : Nat → Nat) : FloatOps Nat where
  zero := 0
  one := 1000
  mid := fun a b => (a + b) / 2
  msToS := fun ms => ms
  sToMs := fun s => s
  gt := fun a b => decide (a > b)
  feq := fun a b => a == b
  ewma := fun r x => (9 * r + x) / 10
  rto := fun rtt rate => max (4 * rtt) (2 * MSS * 1000 / (rate + 1))
  tcpRate := tcp
  initRate := init
  initLossRate := initLoss
  mul085 := fun x => x * 85 / 100
  mul005 := fun x => x * 5 / 100
  recvRate := fun total dt => total * 1000 / (dt + 1)
  lossRate := fun _ => 0
  lossResetLen := fun p => 1000 / (p + 1)
  fillBytes := fun _ _ f => (0, f)
  fillMax := fun _ _ => 0

/-- a well-behaved instance: `tcpRate rtt p = 100000 / (p+1)`, `initRate = 4380`. -/
def okOps : FloatOps Nat := mkOps (fun _ p => 100000 / (p + 1)) (fun _ => 4380) (fun _ => 736)

/-- an instance whose throughput equation and initial rates are tiny (a very long RTT). -/
def lowOps : FloatOps Nat := mkOps (fun _ _ => 0) (fun _ => 4) (fun _ => 0)

/-- healthy throughput equation and loss target, but a tiny initial rate (a very long first RTT
sample: `(4380.0 / rtt) as u32 = 4`). -/
def smallInitOps : FloatOps Nat := mkOps (fun _ p => 100000 / (p + 1)) (fun _ => 4) (fun _ => 736)

/-- an instance whose initial rate saturates (`(4380.0 / 0.0) as u32 = u32::MAX`, RTT sample 0). -/
def satOps : FloatOps Nat := mkOps (fun _ p => 100000 / (p + 1)) (fun _ => u32max) (fun _ => 736)

/-- an instance whose bisection never finds the target and whose midpoint never equals an end
(`feq` constantly false): `tcpInv` runs out of fuel. -/
def hangOps : FloatOps Nat :=
  { mkOps (fun _ _ => 0) (fun _ => 4380) (fun _ => 736) with feq := fun _ _ => false }

def fb (rttMs recv loss : Nat) (limited : Bool := false) : Feedback Nat :=
  { rttMs := rttMs, receiveRate := recv, lossRate := loss, rateLimited := limited }

/-- a generic state of the toy instances. -/
def st (mode : Mode) (rate maxRate : Nat) (set : List RecvEntry) (rtt : Option Nat)
    (exp : Option Nat := some 0) (idle : Bool := false) : State Nat :=
  { prevLossRate := 0, nofeedbackExp := exp, nofeedbackIdle := idle, mode := mode,
    sendRate := rate, maxSendRate := maxRate, recvSet := set, rttS := rtt, rttMs := rtt,
    rtoMs := none }

/-- integer bisection on `[a,b]` gets stuck once `b - a ≤ 1`. -/
theorem mkOps_within (tcp : Nat → Nat → Nat) (init initLoss : Nat → Nat) (n a b : Nat)
    (hab : a ≤ b) (hn : b - a ≤ 2 ^ n) : BisectWithin (mkOps tcp init initLoss) (n + 1) a b := by
  induction n generalizing a b with
  | zero =>
    apply BisectWithin.stop
    show ((b + a) / 2 == a || (b + a) / 2 == b) = true
    simp only [Bool.or_eq_true, beq_iff_eq]
    simp only [Nat.pow_zero] at hn
    omega
  | succ n ih =>
    by_cases hs : b - a ≤ 1
    · apply BisectWithin.stop
      show ((b + a) / 2 == a || (b + a) / 2 == b) = true
      simp only [Bool.or_eq_true, beq_iff_eq]
      omega
    · rw [Nat.pow_succ] at hn
      apply BisectWithin.narrow
      · show BisectWithin _ (n + 1) ((b + a) / 2) b
        exact ih _ _ (by omega) (by omega)
      · show BisectWithin _ (n + 1) a ((b + a) / 2)
        exact ih _ _ (by omega) (by omega)

theorem mkOps_converges (tcp : Nat → Nat → Nat) (init initLoss : Nat → Nat) :
    BisectConverges (mkOps tcp init initLoss) := by
  have h := mkOps_within tcp init initLoss 10 0 1000 (by omega) (by decide)
  exact h.mono (by decide)

end Uflow.Rate.Ex
