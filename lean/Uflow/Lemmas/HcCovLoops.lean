import Uflow.Lemmas.HcCov
import Uflow.Lemmas.HcSysHandlers

/-!
C01Hc (sync frames), sender side, part 2: the coverage invariant `CV` through the loops of
`emit_data_frames`, `flush`, and the other operations of a half connection.
-/

namespace Uflow.HcCov

open Uflow Uflow.Gen Uflow.Codec Uflow.HalfConn Uflow.PSend Uflow.HcSys Uflow.Heap
open Uflow.Rate (FloatOps)

variable {F : Type}

/-- `ps'` is reached from `ps` by consecutive calls `PSend.emit · f`; `es` lists the history records
(`PSend.mkEmitted`) of the packets they returned. -/
inductive EmRecs (f : Nat) : PSend.State → PSend.State → List Emitted → Prop
  | nil (ps : PSend.State) : EmRecs f ps ps []
  | cons {ps ps1 ps2 : PSend.State} {r : Option (Pending × Bool)} {es : List Emitted} :
      emit ps f = .ok (ps1, r) → EmRecs f ps1 ps2 es → EmRecs f ps ps2 (recOf ps f r ++ es)

theorem EmRecs.trans {f : Nat} {a b c : PSend.State} {e1 e2 : List Emitted} (h1 : EmRecs f a b e1)
    (h2 : EmRecs f b c e2) : EmRecs f a c (e1 ++ e2) := by
  induction h1 with
  | nil => exact h2
  | cons he _ ih => rw [List.append_assoc]; exact .cons he (ih h2)

theorem EmRecs.single {f : Nat} {ps ps1 : PSend.State} {r : Option (Pending × Bool)}
    (he : emit ps f = .ok (ps1, r)) : EmRecs f ps ps1 (recOf ps f r) := by
  have := EmRecs.cons he (.nil ps1)
  rwa [List.append_nil] at this

/-- The records of a chain are the ghost replay (`HcSys.replayEmit`) of as many packets as the chain
appended to the send window. -/
theorem EmRecs.replay {f : Nat} {ps ps' : PSend.State} {es : List Emitted} (h : EmRecs f ps ps' es) :
    ∃ l, Emits f ps ps' l ∧ es = replayEmit l.length ps f := by
  induction h with
  | nil ps => exact ⟨[], .nil ps, rfl⟩
  | @cons ps0 ps1 ps2 r es he _ ih =>
    obtain ⟨l, hem, hes⟩ := ih
    refine ⟨(r.map Prod.fst).toList ++ l, .cons he hem, ?_⟩
    cases r with
    | none =>
      obtain ⟨rfl, _⟩ := hem.of_none (emit_none_again _ _ _ he)
      rw [hes]
      simp [recOf, replayEmit]
    | some v =>
      obtain ⟨p, b⟩ := v
      rw [hes]
      simp only [recOf, Option.map_some, Option.toList_some, List.cons_append, List.nil_append,
        List.length_cons, replayEmit, he]

/-! ### the loops -/

theorem resendLoop_cv {pend : List Pending} {em : List Emitted} (fuel : Nat) (e e' : Emit F)
    (st : Option Stage) (hg : GE pend e) (h : CV em e.s) (hr : resendLoop fuel e = .ok (e', st)) :
    CV em e'.s := by
  induction fuel generalizing e with
  | zero => simp [resendLoop] at hr
  | succ n ih =>
    rw [resendLoop] at hr
    cases h0 : e.s.resend[0]? with
    | none =>
      rw [h0] at hr
      simp only [Except.ok.injEq, Prod.mk.injEq] at hr
      obtain ⟨rfl, _⟩ := hr
      exact h
    | some entry =>
      rw [h0] at hr
      simp only [] at hr
      have hpopped : Skip e.s.ps entry.uid entry.fid → resendLoop n ((match heapPop e.s.resend with
            | some (_, hh) => ({ e with s := { e.s with resend := hh } } : Emit F)
            | none => e) : Emit F) = .ok (e', st) → CV em e'.s := by
        intro hskip hr'
        cases hpop : heapPop e.s.resend with
        | none => rw [hpop] at hr'; exact ih e hg h hr'
        | some v =>
          obtain ⟨top, hh⟩ := v
          rw [hpop] at hr'
          have htop := (heapPop_perm e.s.resend hh top hpop).1
          rw [h0] at htop
          cases htop
          refine ih _ ?_ ?_ hr'
          · exact hg.setS _ rfl
          · exact h.popResend entry hh hpop hskip
      cases hfp : findPacket e.s.ps entry.uid with
      | none =>
        rw [hfp] at hr
        simp only [] at hr
        exact hpopped (Or.inl hfp) hr
      | some p =>
        rw [hfp] at hr
        simp only [] at hr
        split at hr
        · rename_i hack
          exact hpopped (Or.inr ⟨p, hfp, hack⟩) hr
        · split at hr
          · simp only [Except.ok.injEq, Prod.mk.injEq] at hr
            obtain ⟨rfl, _⟩ := hr
            exact h
          · cases hpush : dfePush e p entry.fid true with
            | error t => rw [hpush] at hr; cases hr
            | ok v =>
              obtain ⟨e1, res⟩ := v
              rw [hpush] at hr
              obtain ⟨g1, _, p1, p2, p3⟩ := dfePush_ge e e1 p entry.fid true res hg
                (fun d hd => ainv_genuine hg.a entry.uid entry.fid p d hfp hd) hpush
              have c1 : CV em e1.s := h.congr p1 p2 p3
              cases res with
              | some pe =>
                cases pe with
                | sizeLimited =>
                  simp only [Except.ok.injEq, Prod.mk.injEq] at hr
                  obtain ⟨rfl, _⟩ := hr
                  exact c1
                | windowLimited =>
                  simp only [Except.ok.injEq, Prod.mk.injEq] at hr
                  obtain ⟨rfl, _⟩ := hr
                  exact c1
              | none =>
                simp only [] at hr
                cases hpop2 : heapPop e1.s.resend with
                | none => rw [hpop2] at hr; cases hr
                | some w =>
                  obtain ⟨ent, hh⟩ := w
                  rw [hpop2] at hr
                  simp only [] at hr
                  refine ih _ ?_ ?_ hr
                  · exact g1.setS _ rfl
                  · exact c1.repush ent _ hh hpop2 rfl rfl

theorem pendingInner_cv {pend : List Pending} {em : List Emitted} (fuel : Nat) (e e' : Emit F)
    (st : Option Stage) (hg : GE pend e) (h : CV em e.s) (hr : pendingInner fuel e = .ok (e', st)) :
    CV em e'.s := by
  induction fuel generalizing e with
  | zero => simp [pendingInner] at hr
  | succ n ih =>
    rw [pendingInner] at hr
    cases hpe : e.s.pending with
    | nil =>
      rw [hpe] at hr
      simp only [Except.ok.injEq, Prod.mk.injEq] at hr
      obtain ⟨rfl, _⟩ := hr
      exact h
    | cons entry rest =>
      rw [hpe] at hr
      simp only [] at hr
      have hset : ∀ (pe : List PEntry), CV em ({ e.s with pending := pe } : State F) →
          pendingInner n ({ e with s := { e.s with pending := pe } } : Emit F) = .ok (e', st) → CV em e'.s :=
        fun pe hc hr' => by
          refine ih _ ?_ hc hr'
          exact hg.setS _ rfl
      cases hfp : findPacket e.s.ps entry.uid with
      | none =>
        rw [hfp] at hr
        exact hset _ (h.popPending entry rest hpe (Or.inl hfp)) hr
      | some p =>
        rw [hfp] at hr
        simp only [] at hr
        split at hr
        · rename_i hack
          exact hset _ (h.popPending entry rest hpe (Or.inr ⟨p, hfp, hack⟩)) hr
        · split at hr
          · rename_i hexp
            exact hset _ (h.clearPending entry rest hpe p hfp e.s.flushId hexp.2) hr
          · cases hpush : dfePush e p entry.fid entry.resend with
            | error t => rw [hpush] at hr; cases hr
            | ok v =>
              obtain ⟨e1, res⟩ := v
              rw [hpush] at hr
              obtain ⟨g1, _, p1, p2, p3⟩ := dfePush_ge e e1 p entry.fid entry.resend res hg
                (fun d hd => ainv_genuine hg.a entry.uid entry.fid p d hfp hd) hpush
              have c1 : CV em e1.s := h.congr p1 p2 p3
              cases res with
              | some pe =>
                cases pe with
                | sizeLimited =>
                  simp only [Except.ok.injEq, Prod.mk.injEq] at hr
                  obtain ⟨rfl, _⟩ := hr
                  exact c1
                | windowLimited =>
                  simp only [Except.ok.injEq, Prod.mk.injEq] at hr
                  obtain ⟨rfl, _⟩ := hr
                  exact c1
              | none =>
                simp only [] at hr
                have hsend := c1.sendPending entry rest (by rw [p2]; exact hpe) (e1.s.nowMs + e1.s.rttMs) 1
                have hps : ∀ (s2 : State F), s2.ps = e1.s.ps → CV em s2 →
                    pendingInner n ({ e1 with s := s2 } : Emit F) = .ok (e', st) → CV em e'.s :=
                  fun s2 a1 hc hr' => ih _ (g1.setS s2 a1) hc hr'
                split at hr
                · rename_i hres
                  rw [if_pos hres] at hsend
                  exact hps _ (by exact rfl) hsend hr
                · rename_i hres
                  rw [if_neg hres] at hsend
                  exact hps _ (by exact rfl) hsend hr

theorem refill_cv {em : List Emitted} (e e1 : Emit F) (b : Bool) (h : CV em e.s)
    (hr : Wire.refill e = .ok (e1, b)) :
    ∃ es, EmRecs e.s.flushId e.s.ps e1.s.ps es ∧ CV (em ++ es) e1.s := by
  unfold Wire.refill at hr
  split at hr
  · rename_i hemp
    have hpe : e.s.pending = [] := by simpa using hemp
    cases hem : emit e.s.ps e.s.flushId with
    | error t => rw [hem] at hr; cases hr
    | ok v =>
      obtain ⟨ps', r⟩ := v
      rw [hem] at hr
      have hc := h.refill hpe e.s.flushId ps' r hem
      cases r with
      | none =>
        simp only [Except.ok.injEq, Prod.mk.injEq] at hr
        obtain ⟨rfl, _⟩ := hr
        exact ⟨_, EmRecs.single hem, hc⟩
      | some v =>
        obtain ⟨p, resend⟩ := v
        simp only [Except.ok.injEq, Prod.mk.injEq] at hr
        obtain ⟨rfl, _⟩ := hr
        exact ⟨_, EmRecs.single hem, hc⟩
  · simp only [Except.ok.injEq, Prod.mk.injEq] at hr
    obtain ⟨rfl, _⟩ := hr
    exact ⟨[], .nil _, by rw [List.append_nil]; exact h⟩

theorem pendingOuter_cv {pend : List Pending} {em : List Emitted} (fuel : Nat) (e e' : Emit F)
    (st : Option Stage) (hg : GE pend e) (h : CV em e.s) (hr : pendingOuter fuel e = .ok (e', st)) :
    ∃ es, EmRecs e.s.flushId e.s.ps e'.s.ps es ∧ CV (em ++ es) e'.s := by
  induction fuel generalizing e pend em with
  | zero => simp [pendingOuter] at hr
  | succ n ih =>
    rw [Wire.pendingOuter_eq] at hr
    cases hre : Wire.refill e with
    | error t => rw [hre] at hr; cases hr
    | ok v =>
      obtain ⟨e1, b⟩ := v
      rw [hre] at hr
      obtain ⟨l1, _, hg1, hk1⟩ := refill_ge e e1 b hg hre
      obtain ⟨es1, hem1, hc1⟩ := refill_cv e e1 b h hre
      cases b with
      | false =>
        simp only [Except.ok.injEq, Prod.mk.injEq] at hr
        obtain ⟨rfl, _⟩ := hr
        exact ⟨es1, hem1, hc1⟩
      | true =>
        simp only [] at hr
        cases hin : pendingInner (e1.s.pending.length + 2) e1 with
        | error t => rw [hin] at hr; cases hr
        | ok v2 =>
          obtain ⟨e2, st2⟩ := v2
          rw [hin] at hr
          obtain ⟨hg2, hk2, hp2⟩ := pendingInner_ge _ e1 e2 st2 hg1 hin
          have hc2 := pendingInner_cv _ e1 e2 st2 hg1 hc1 hin
          cases st2 with
          | some s2 =>
            simp only [Except.ok.injEq, Prod.mk.injEq] at hr
            obtain ⟨rfl, _⟩ := hr
            exact ⟨es1, by rw [hp2]; exact hem1, hc2⟩
          | none =>
            simp only [] at hr
            obtain ⟨es3, hem3, hc3⟩ := ih e2 hg2 hc2 hr
            refine ⟨es1 ++ es3, ?_, by rw [← List.append_assoc]; exact hc3⟩
            rw [hp2, hk2.fid, hk1.fid] at hem3
            exact hem1.trans hem3

theorem emitDataFrames_cv {pend : List Pending} {em : List Emitted} (s s' : State F) (out : List (List Nat))
    (st : Stage) (ha : AInv pend s.ps) (h : CV em s) (hr : emitDataFrames s = .ok (s', out, st)) :
    ∃ es, EmRecs s.flushId s.ps s'.ps es ∧ CV (em ++ es) s' := by
  unfold emitDataFrames at hr
  simp only [] at hr
  have h0 : GE pend ({ s := s, inProg := none, out := [] } : Emit F) :=
    ⟨ha, fun b hb => (by cases hb), fun ip h' => (by cases h')⟩
  cases hr1 : resendLoop (2 * s.resend.size + 16 + s.flushAlloc.toNat)
      ({ s := s, inProg := none, out := [] } : Emit F) with
  | error t => rw [hr1] at hr; cases hr
  | ok v =>
    obtain ⟨e1, st1⟩ := v
    rw [hr1] at hr
    obtain ⟨g1, k1, p1⟩ := resendLoop_ge _ _ e1 st1 h0 hr1
    have c1 := resendLoop_cv _ _ e1 st1 h0 h hr1
    cases st1 with
    | some s1 =>
      simp only [Except.ok.injEq, Prod.mk.injEq] at hr
      obtain ⟨rfl, rfl, _⟩ := hr
      exact ⟨[], by rw [p1]; exact .nil _, by rw [List.append_nil]; exact c1⟩
    | none =>
      simp only [] at hr
      cases hr2 : pendingOuter (e1.s.ps.queue.length + e1.s.pending.length + 4) e1 with
      | error t => rw [hr2] at hr; cases hr
      | ok v2 =>
        obtain ⟨e2, st2⟩ := v2
        rw [hr2] at hr
        obtain ⟨es, hem, c2⟩ := pendingOuter_cv _ e1 e2 st2 g1 c1 hr2
        have hem' : EmRecs s.flushId s.ps e2.s.ps es := by
          have := hem
          rw [p1, k1.fid] at this
          exact this
        cases st2 with
        | some s2 =>
          simp only [Except.ok.injEq, Prod.mk.injEq] at hr
          obtain ⟨rfl, rfl, _⟩ := hr
          exact ⟨es, hem', c2⟩
        | none =>
          simp only [Except.ok.injEq, Prod.mk.injEq] at hr
          obtain ⟨rfl, rfl, _⟩ := hr
          have hfin : (dfeFinalize e2).s.ps = e2.s.ps ∧ (dfeFinalize e2).s.pending = e2.s.pending ∧
              (dfeFinalize e2).s.resend = e2.s.resend := by
            cases hip : e2.inProg with
            | none => rw [HcInv.dfeFinalize_none e2 hip]; exact ⟨rfl, rfl, rfl⟩
            | some ip =>
              obtain ⟨fq, rate, _, _, heq⟩ := HcInv.dfeFinalize_some e2 ip hip
              rw [heq]; exact ⟨rfl, rfl, rfl⟩
          exact ⟨es, by rw [hfin.1]; exact hem', c2.congr hfin.1 hfin.2.1 hfin.2.2⟩

theorem emitSyncFrame_q (s s' : State F) (out : List (List Nat)) (st : Stage)
    (h : emitSyncFrame s = .ok (s', out, st)) :
    s'.ps = s.ps ∧ s'.pending = s.pending ∧ s'.resend = s.resend := by
  unfold emitSyncFrame at h
  simp only [] at h
  repeat' split at h
  all_goals first
    | (simp only [reduceCtorEq] at h; done)
    | (simp only [Except.ok.injEq, Prod.mk.injEq] at h
       obtain ⟨rfl, _, _⟩ := h
       exact ⟨rfl, rfl, rfl⟩)

/-- **`flush` keeps the coverage invariant**, relative to the history extended by the ghost replay of
the packets this `flush` moved into the send window. -/
theorem flush_cv {pend : List Pending} {em : List Emitted} (s s' : State F) (out : List (List Nat))
    (ha : AInv pend s.ps) (h : CV em s) (hf : flush s = .ok (s', out)) :
    CV (em ++ replayEmit (s'.ps.win.length - s.ps.win.length) s.ps s.flushId) s' := by
  have key : ∀ es, EmRecs s.flushId s.ps s'.ps es → CV (em ++ es) s' →
      CV (em ++ replayEmit (s'.ps.win.length - s.ps.win.length) s.ps s.flushId) s' := by
    intro es hem hc
    obtain ⟨l, hl, hes⟩ := hem.replay
    have hnp : newPackets s.ps s'.ps = l := (hl.newPackets ha).2
    have hlen : s'.ps.win.length - s.ps.win.length = l.length := by
      have : (s'.ps.win.drop s.ps.win.length).length = l.length := by
        rw [← hnp]; unfold newPackets; rw [List.length_map]
      rw [List.length_drop] at this
      exact this
    rw [hlen, ← hes]; exact hc
  unfold flush at hf
  obtain ⟨k1, _, k3⟩ := emitAckFrames_keep s
  have k4 := HcInv.emitAckFrames_proj (·.pending) (fun fb pb s ip out => by cases ip <;> rfl) (fun s rest => rfl) s
  have k5 := HcInv.emitAckFrames_proj (·.resend) (fun fb pb s ip out => by cases ip <;> rfl) (fun s rest => rfl) s
  generalize emitAckFrames s = r at hf k1 k3 k4 k5
  obtain ⟨s1, out1, st1⟩ := r
  simp only [] at hf k1 k3 k4 k5
  have c1 : CV em s1 := h.congr k1 k4 k5
  by_cases hst : st1 = .stop
  · rw [if_pos hst] at hf
    simp only [Except.ok.injEq, Prod.mk.injEq] at hf
    obtain ⟨rfl, rfl⟩ := hf
    exact key [] (by rw [k1]; exact .nil _) (by rw [List.append_nil]; exact c1)
  · rw [if_neg hst] at hf
    cases hd : emitDataFrames s1 with
    | error t => rw [hd] at hf; cases hf
    | ok v =>
      obtain ⟨s2, out2, st2⟩ := v
      rw [hd] at hf
      simp only [] at hf
      obtain ⟨es, hem, c2⟩ := emitDataFrames_cv s1 s2 out2 st2 (by rw [k1]; exact ha) c1 hd
      rw [k1, k3] at hem
      by_cases hst2 : st2 = .stop
      · rw [if_pos hst2] at hf
        simp only [Except.ok.injEq, Prod.mk.injEq] at hf
        obtain ⟨rfl, rfl⟩ := hf
        exact key es hem c2
      · rw [if_neg hst2] at hf
        cases hsy : emitSyncFrame s2 with
        | error t => rw [hsy] at hf; cases hf
        | ok v3 =>
          obtain ⟨s3, out3, st3⟩ := v3
          rw [hsy] at hf
          simp only [Except.ok.injEq, Prod.mk.injEq] at hf
          obtain ⟨rfl, rfl⟩ := hf
          obtain ⟨y1, y2, y3⟩ := emitSyncFrame_q s2 _ out3 st3 hsy
          exact key es (by rw [y1]; exact hem) (c2.congr y1 y2 y3)

end Uflow.HcCov
