import Uflow.Lemmas.EndpointEventsTimeout
import Uflow.Lemmas.EndpointClient

/-!
Server endpoint: the activity deadline as a function of the run. Ghost: per address, the clock of the
step that last processed a data/sync/ack frame of, or established, the connection of that address;
invariant `DInv`: the deadline of every `active` entry is `ghost address + activeTimeoutMs`.
-/

namespace Uflow.Endpoint

open Uflow.Gen Uflow.Codec Uflow.HalfConn

variable {H : Type}

/-! ## Transitions that only inherit deadlines -/

/-- Every `active` entry of `s'` has the deadline that the `active` entry at the same address had in `s`
(no entry becomes `active`, no deadline is written). -/
def DSub (s s' : Server H) : Prop :=
  s'.cfg = s.cfg ∧ ∀ a c' hh' t' sig', s'.find a = some c' → c'.state = .active hh' t' sig' →
    ∃ c hh sig, s.find a = some c ∧ c.state = .active hh t' sig

theorem DSub.refl (s : Server H) : DSub s s := ⟨rfl, fun _ c' hh' _ sig' h1 h2 => ⟨c', hh', sig', h1, h2⟩⟩

theorem DSub.trans {s s1 s2 : Server H} (h1 : DSub s s1) (h2 : DSub s1 s2) : DSub s s2 := by
  refine ⟨h2.1.trans h1.1, fun a c' hh' t' sig' hf hs => ?_⟩
  obtain ⟨c1, hh1, sig1, hf1, hs1⟩ := h2.2 a c' hh' t' sig' hf hs
  exact h1.2 a c1 hh1 t' sig1 hf1 hs1

theorem DSub.of_same {s s' : Server H} (h1 : s'.clients = s.clients) (h5 : s'.cfg = s.cfg) : DSub s s' := by
  refine ⟨h5, fun a c' hh' t' sig' hf hs => ⟨c', hh', sig', ?_, hs⟩⟩
  rw [Server.find_eq] at hf ⊢; rw [← h1]; exact hf

theorem DSub.of_put {s s' : Server H} (hw : s.WF) {c c' : RClient H} (hc : c ∈ s.clients)
    (hcid : c'.cid = c.cid) (hadr : c'.address = c.address)
    (hdl : ∀ hh' t' sig', c'.state = .active hh' t' sig' → ∃ hh sig, c.state = .active hh t' sig)
    (h1 : s'.clients = updCid s.clients c') (h5 : s'.cfg = s.cfg) : DSub s s' := by
  refine ⟨h5, fun a c0 hh' t' sig' hf hs => ?_⟩
  rw [Server.find_of_clients h1, findA_updCid hw.addr hw.cidClients hc hcid hadr] at hf
  split at hf
  · next ha =>
    cases hf
    obtain ⟨hh, sig, hst⟩ := hdl hh' t' sig' hs
    exact ⟨c, hh, sig, by rw [ha]; exact Server.find_of_mem hw hc, hst⟩
  · exact ⟨c0, hh', sig', hf, hs⟩

theorem DSub.of_finish {s s' : Server H} {b : Nat} (h1 : s'.clients = s.clients.filter (·.address ≠ b))
    (h5 : s'.cfg = s.cfg) : DSub s s' := by
  refine ⟨h5, fun a c0 hh' t' sig' hf hs => ?_⟩
  rw [Server.find_filter_of s s' b h1] at hf
  split at hf
  · cases hf
  · exact ⟨c0, hh', sig', hf, hs⟩

theorem DSub.of_append {s s' : Server H} {c : RClient H} (hna : c.state.isActive = false)
    (h1 : s'.clients = s.clients ++ [c]) (h5 : s'.cfg = s.cfg) : DSub s s' := by
  refine ⟨h5, fun a c0 hh' t' sig' hf hs => ?_⟩
  rw [Server.find_of_clients h1, findA_append] at hf
  cases hfa : findA s.clients a with
  | some x =>
    rw [hfa] at hf
    have : x = c0 := by simpa using hf
    subst this
    exact ⟨x, hh', sig', hfa, hs⟩
  | none =>
    rw [hfa] at hf
    exfalso
    have h2 : (if c.address = a then some c else none) = some c0 := by simpa using hf
    split at h2
    · cases h2; rw [hs] at hna; cases hna
    · cases h2

/-! ### the handlers that only inherit -/

theorem Server.handleSyn_DSub (s : Server H) (addr v n r p a nowMs : Nat) :
    DSub s (s.handleSyn addr v n r p a nowMs).1 := by
  unfold Server.handleSyn
  split
  · exact DSub.refl s
  · simp only
    split
    · exact DSub.of_same rfl rfl
    · split
      · exact DSub.of_same rfl rfl
      · split
        · exact DSub.of_same rfl rfl
        · split
          · exact DSub.of_same rfl rfl
          · rcases hr : s.rng.next with ⟨vv, rng⟩
            simp only
            exact DSub.of_append (c := { cid := s.nextCid, address := addr, state := .pending (vv % 2^32) n r a _ }) rfl rfl rfl

theorem Server.handleDisconnect_DSub (hc : HC H) (s s' : Server H) (hw : s.WF) (addr nowMs : Nat)
    (out : List (Nat × List Nat)) (h : s.handleDisconnect hc addr nowMs = .ok (s', out)) : DSub s s' := by
  unfold Server.handleDisconnect at h
  split at h
  · cases h; exact DSub.refl s
  · next c hf =>
    obtain ⟨hcm, hca⟩ := Server.find_some hf
    simp only at h
    split at h
    · cases h; exact DSub.refl s
    · next hh t sig hst =>
      split at h
      · cases h
      · next h' pkts hr =>
        cases h
        have hcm' : c ∈ ({ s with eventsOut := s.eventsOut ++ pkts.map (SEvent.receive addr) } : Server H).clients := hcm
        rw [Server.put_state_eq hcm']
        exact DSub.of_put (c' := { c with state := .closed }) hw hcm rfl rfl (by intro _ _ _ h; cases h) rfl rfl
    · next hst =>
      cases h
      rw [Server.put_state_eq hcm]
      exact DSub.of_put (c' := { c with state := .closed }) hw hcm rfl rfl (by intro _ _ _ h; cases h) rfl rfl
    · cases h; exact DSub.refl s
    · cases h; exact DSub.refl s

theorem Server.finish_DSub (s : Server H) (c : RClient H) : DSub s (s.finish c) := by
  have h1 : (s.finish c).clients = s.clients.filter (·.address ≠ c.address) := by
    unfold Server.finish; simp only; split <;> rfl
  have h5 : (s.finish c).cfg = s.cfg := by
    unfold Server.finish; simp only; split <;> rfl
  exact DSub.of_finish h1 h5

theorem Server.handleDisconnectAck_DSub (s : Server H) (addr : Nat) : DSub s (s.handleDisconnectAck addr) := by
  unfold Server.handleDisconnectAck
  split
  · exact DSub.refl s
  · split
    · exact (DSub.of_same (s' := { s with eventsOut := s.eventsOut ++ [SEvent.disconnect addr] }) rfl rfl).trans
        (Server.finish_DSub _ _)
    · exact DSub.refl s

theorem Server.handleTimer_DSub (s : Server H) (t : Timer) (nowMs : Nat) : DSub s (s.handleTimer t nowMs).1 := by
  unfold Server.handleTimer
  split
  · exact DSub.refl s
  · next c hb =>
    split
    · split
      · split
        · exact DSub.of_same rfl rfl
        · simp only
          exact (DSub.of_same (s' := { s with eventsOut := if s.cfg.enableHandshakeErrors then s.eventsOut ++ [SEvent.error c.address .timeout] else s.eventsOut }) rfl rfl).trans
            (Server.finish_DSub _ _)
      · exact DSub.refl s
    · split
      · split
        · exact DSub.of_same rfl rfl
        · simp only
          exact (DSub.of_same (s' := { s with eventsOut := s.eventsOut ++ [SEvent.error c.address .timeout] }) rfl rfl).trans
            (Server.finish_DSub _ _)
      · exact DSub.refl s
    · split
      · exact Server.finish_DSub _ _
      · exact DSub.refl s
    · exact DSub.refl s

theorem Server.runTimers_DSub (fuel : Nat) (s : Server H) (nowMs : Nat) (sent : List (Nat × List Nat)) :
    DSub s (Server.runTimers fuel s nowMs sent).1 := by
  induction fuel generalizing s sent with
  | zero => exact DSub.refl s
  | succ k ih =>
    unfold Server.runTimers
    split
    · exact DSub.refl s
    · split
      · exact DSub.refl s
      · split
        · exact DSub.refl s
        · next t h hp =>
          have h0 : DSub s ({ s with timers := h } : Server H) := DSub.of_same rfl rfl
          have h1 := Server.handleTimer_DSub ({ s with timers := h } : Server H) t nowMs
          rcases hx : ({ s with timers := h } : Server H).handleTimer t nowMs with ⟨s1, o1⟩
          rw [hx] at h1
          exact (h0.trans h1).trans (ih s1 (sent ++ o1))

theorem Server.activeTimeouts_DSub (hc : HC H) (s s' : Server H) (nowMs : Nat)
    (h : s.activeTimeouts hc nowMs = .ok s') : DSub s s' := by
  rw [Server.activeTimeouts_eq] at h
  refine foldlM_induct (Server.activeTimeoutStep hc nowMs) (fun x => DSub s x) ?_ s.active s s' (DSub.refl s) h
  intro x cid x' h1 hx
  refine h1.trans ?_
  unfold Server.activeTimeoutStep at hx
  split at hx
  · cases hx; exact DSub.refl x
  · next c hb =>
    split at hx
    · split at hx
      · split at hx
        · cases hx
        · next h' pkts hr =>
          cases hx
          exact (DSub.of_same (s' := { x with eventsOut := x.eventsOut ++ pkts.map (SEvent.receive c.address) ++ [SEvent.error c.address .timeout] }) rfl rfl).trans
            (Server.finish_DSub _ _)
      · cases hx; exact DSub.refl x
    · cases hx; exact DSub.refl x

theorem Server.stepActive_DSub (hc : HC H) (s s' : Server H) (hw : s.WF) (nowMs nowNs : Nat)
    (out : List (Nat × List Nat)) (h : s.stepActive hc nowMs nowNs = .ok (s', out)) : DSub s s' := by
  rw [Server.stepActive_eq] at h
  have key := foldlM_induct (Server.stepActiveStep hc nowMs nowNs) (fun x => (∃ evs, STr s evs x.1) ∧ DSub s x.1)
    ?_ s.active (s, []) (s', out) ⟨⟨[], STr.refl hw⟩, DSub.refl s⟩ h
  · exact key.2
  · intro acc cid acc' ⟨⟨e1, t1⟩, d1⟩ hx
    obtain ⟨e2, t2, -⟩ := Server.stepActiveStep_STr hc nowMs nowNs acc acc' t1.wf cid hx
    refine ⟨⟨e1 ++ e2, t1.trans t2⟩, d1.trans ?_⟩
    have hwx := t1.wf
    obtain ⟨x, o⟩ := acc
    unfold Server.stepActiveStep at hx
    simp only at hx hwx ⊢
    split at hx
    · cases hx; exact DSub.refl x
    · next c hb =>
      split at hx
      · next hh t sig hst =>
        obtain ⟨hcm, -⟩ := Server.byCid_clients hwx hb (by rw [hst]; intro h; cases h)
        split at hx
        · split at hx
          · cases hx
          · next h' pkts hr =>
            cases hx
            have hcm' : c ∈ ({ x with eventsOut := x.eventsOut ++ pkts.map (SEvent.receive c.address) } : Server H).clients := hcm
            rw [Server.put_state_eq hcm']
            exact DSub.of_put (c' := { c with state := .closing }) hwx hcm rfl rfl (by intro _ _ _ h; cases h) rfl rfl
        · split at hx
          · cases hx
          · split at hx
            · cases hx
            · next h2 pkts hr =>
              cases hx
              rw [Server.put_state_eq hcm]
              exact DSub.of_put (c' := { c with state := .active h2 t sig }) hwx hcm rfl rfl
                (by intro _ _ _ h; cases h; exact ⟨hh, sig, hst⟩) rfl rfl
      · cases hx; exact DSub.refl x

theorem Server.flushActive_DSub (hc : HC H) (s s' : Server H) (hw : s.WF)
    (out : List (Nat × List Nat)) (h : s.flushActive hc = .ok (s', out)) : DSub s s' := by
  rw [Server.flushActive_eq] at h
  have key := foldlM_induct (Server.flushActiveStep hc) (fun x => STr s [] x.1 ∧ DSub s x.1)
    ?_ s.active (s, []) (s', out) ⟨STr.refl hw, DSub.refl s⟩ h
  · exact key.2
  · intro acc cid acc' ⟨t1, d1⟩ hx
    have t2 := Server.flushActiveStep_STr hc acc acc' t1.wf cid hx
    refine ⟨by simpa using t1.trans t2, d1.trans ?_⟩
    have hwx := t1.wf
    obtain ⟨x, o⟩ := acc
    unfold Server.flushActiveStep at hx
    simp only at hx hwx ⊢
    split at hx
    · cases hx; exact DSub.refl x
    · next c hb =>
      split at hx
      · next hh t sig hst =>
        obtain ⟨hcm, -⟩ := Server.byCid_clients hwx hb (by rw [hst]; intro h; cases h)
        split at hx
        · cases hx
        · next h' rng frames hfl =>
          cases hx
          have hcm' : c ∈ ({ x with rng := rng } : Server H).clients := hcm
          rw [Server.put_state_eq hcm']
          exact DSub.of_put (c' := { c with state := .active h' t sig }) hwx hcm rfl rfl
            (by intro _ _ _ h; cases h; exact ⟨hh, sig, hst⟩) rfl rfl
      · cases hx; exact DSub.refl x

theorem Server.drop_DSub (s : Server H) (addr : Nat) : DSub s (s.drop addr) := by
  unfold Server.drop
  split
  · exact Server.finish_DSub _ _
  · exact DSub.refl s

theorem Server.disconnect_DSub (s : Server H) (hw : s.WF) (addr : Nat) (m : DisconnectMode) :
    DSub s (s.disconnect addr m) := by
  unfold Server.disconnect
  split
  · next c hf =>
    obtain ⟨hcm, hca⟩ := Server.find_some hf
    split
    · next hh t sig hst =>
      rw [Server.put_state_eq hcm]
      exact DSub.of_put (c' := { c with state := .active hh t (some m) }) hw hcm rfl rfl
        (by intro _ _ _ h; cases h; exact ⟨hh, sig, hst⟩) rfl rfl
    · exact DSub.refl s
  · exact DSub.refl s

theorem Server.send_DSub (hc : HC H) (s : Server H) (hw : s.WF) (addr : Nat) (d : List Nat) (ch : Nat) (m : SendMode) :
    DSub s (s.send hc addr d ch m) := by
  unfold Server.send
  split
  · next c hf =>
    obtain ⟨hcm, hca⟩ := Server.find_some hf
    split
    · next hh t sig hst =>
      rw [Server.put_state_eq hcm]
      exact DSub.of_put (c' := { c with state := .active (hc.send hh d ch m) t sig }) hw hcm rfl rfl
        (by intro _ _ _ h; cases h; exact ⟨hh, sig, hst⟩) rfl rfl
    · exact DSub.refl s
  · exact DSub.refl s

/-! ## The ghost and the invariant -/

/-- Ghost update for one frame from `addr` handled at clock `nowMs` in state `s`: the clock is recorded
for `addr` iff the frame is a data/sync/ack frame and the entry of `addr` is `active`, or it is the ACK
that completes the handshake of a `pending` entry. -/
def Server.touchFrame (s : Server H) (addr : Nat) (f : Frame) (nowMs : Nat) (g : Nat → Nat) : Nat → Nat :=
  match s.find addr with
  | some c =>
    match c.state with
    | .active .. => if isTraffic f then (fun a => if a = addr then nowMs else g a) else g
    | .pending ln .. =>
      (match f with
       | .hsAck na => if na = ln then (fun a => if a = addr then nowMs else g a) else g
       | _ => g)
    | _ => g
  | none => g

/-- The deadline of every `active` entry is `ghost of its address + activeTimeoutMs`. -/
def Server.DInv (s : Server H) (g : Nat → Nat) : Prop :=
  ∀ a c hh t sig, s.find a = some c → c.state = .active hh t sig → t = g a + s.cfg.ep.activeTimeoutMs

theorem Server.DInv.of_DSub {s s' : Server H} {g : Nat → Nat} (hi : s.DInv g) (hd : DSub s s') : s'.DInv g := by
  intro a c' hh' t' sig' hf hs
  obtain ⟨c, hh, sig, hf0, hs0⟩ := hd.2 a c' hh' t' sig' hf hs
  rw [hd.1]; exact hi a c hh t' sig hf0 hs0

theorem Server.touchFrame_other (s : Server H) (addr : Nat) (f : Frame) (nowMs : Nat) (g : Nat → Nat)
    (hnt : isTraffic f = false) (hna : ∀ na, f ≠ .hsAck na) : s.touchFrame addr f nowMs g = g := by
  unfold Server.touchFrame
  cases hf : s.find addr with
  | none => rfl
  | some c =>
    simp only
    cases hst : c.state with
    | active hh t sig => simp [hnt]
    | pending ln rn r al rb =>
      cases f with
      | hsAck na => exact absurd rfl (hna na)
      | _ => rfl
    | _ => rfl

/-- One frame: the invariant is preserved with the ghost updated by `touchFrame`. -/
theorem Server.handleFrame_DInv (hc : HC H) (s s' : Server H) (hw : s.WF) (addr : Nat) (f : Frame) (nowMs nowNs : Nat)
    (out : List (Nat × List Nat)) (h : s.handleFrame hc addr f nowMs nowNs = .ok (s', out))
    (g : Nat → Nat) (hi : s.DInv g) : s'.DInv (s.touchFrame addr f nowMs g) := by
  have hcfg : s'.cfg = s.cfg := by
    obtain ⟨_, t, _⟩ := Server.handleFrame_STr hc s s' hw addr f nowMs nowNs out h
    exact t.cfg
  unfold Server.handleFrame at h
  have traffic : isTraffic f = true → (s.handleTraffic hc addr f nowMs).map (·, ([] : List (Nat × List Nat))) = .ok (s', out) →
      s'.DInv (s.touchFrame addr f nowMs g) := by
    intro hft h
    cases ht : s.handleTraffic hc addr f nowMs with
    | error e => rw [ht] at h; cases h
    | ok s1 =>
      rw [ht] at h; cases h
      rcases Server.handleTraffic_deadline hc s s' hw addr f nowMs ht with ⟨rfl, hna⟩ | ⟨c, hh, t, sig, h', hf, hst, hd, hf', hoth⟩
      · have : s'.touchFrame addr f nowMs g = g := by
          unfold Server.touchFrame
          split
          · next c hf =>
            split
            · next hst => exact absurd hst (hna c _ _ _ hf)
            · cases f <;> simp [isTraffic] at hft <;> rfl
            · rfl
          · rfl
        rw [this]; exact hi
      · have htouch : s.touchFrame addr f nowMs g = fun a => if a = addr then nowMs else g a := by
          unfold Server.touchFrame
          rw [hf]; simp only [hst, hft, if_true]
        rw [htouch]
        intro a c0 hh0 t0 sig0 hf0 hs0
        by_cases ha : a = addr
        · subst ha
          rw [hf'] at hf0; cases hf0; cases hs0
          simp [hcfg]
        · rw [hoth a ha] at hf0
          simp only [ha, if_false]
          rw [hcfg]; exact hi a c0 hh0 t0 sig0 hf0 hs0
  cases f with
  | syn v n r p a =>
    have e := Except.ok.inj h
    have hd := Server.handleSyn_DSub s addr v n r p a nowMs
    rw [e] at hd
    rw [Server.touchFrame_other s addr _ nowMs g rfl (by intro na h; cases h)]
    exact hi.of_DSub hd
  | hsAck na =>
    cases h
    cases hf : s.find addr with
    | none =>
      have e1 : s.handleHsAck hc addr na nowMs nowNs = s := by unfold Server.handleHsAck; rw [hf]
      have e2 : s.touchFrame addr (.hsAck na) nowMs g = g := by unfold Server.touchFrame; rw [hf]
      rw [e1, e2]; exact hi
    | some c =>
      cases hst : c.state with
      | pending ln rn r al rb =>
        by_cases hna : na = ln
        · obtain ⟨hf', -, hoth⟩ := Server.handleHsAck_deadline hc s hw addr na nowMs nowNs c ln rn r al rb hf hst hna
          have htouch : s.touchFrame addr (.hsAck na) nowMs g = fun a => if a = addr then nowMs else g a := by
            unfold Server.touchFrame
            rw [hf]; simp only [hst, hna, if_true]
          rw [htouch]
          intro a c0 hh0 t0 sig0 hf0 hs0
          by_cases ha : a = addr
          · subst ha
            rw [hf'] at hf0; cases hf0; cases hs0
            simp [hcfg]
          · rw [hoth a ha] at hf0
            simp only [ha, if_false]
            rw [hcfg]; exact hi a c0 hh0 t0 sig0 hf0 hs0
        · have e1 : s.handleHsAck hc addr na nowMs nowNs = s := by
            unfold Server.handleHsAck; rw [hf]; simp only [hst, hna, if_false]
          have e2 : s.touchFrame addr (.hsAck na) nowMs g = g := by
            unfold Server.touchFrame; rw [hf]; simp only [hst, hna, if_false]
          rw [e1, e2]; exact hi
      | active hh t sig =>
        have e1 : s.handleHsAck hc addr na nowMs nowNs = s := by unfold Server.handleHsAck; rw [hf]; simp only [hst]
        have e2 : s.touchFrame addr (.hsAck na) nowMs g = g := by
          unfold Server.touchFrame; rw [hf]; simp [hst, isTraffic]
        rw [e1, e2]; exact hi
      | closing =>
        have e1 : s.handleHsAck hc addr na nowMs nowNs = s := by unfold Server.handleHsAck; rw [hf]; simp only [hst]
        have e2 : s.touchFrame addr (.hsAck na) nowMs g = g := by unfold Server.touchFrame; rw [hf]; simp only [hst]
        rw [e1, e2]; exact hi
      | closed =>
        have e1 : s.handleHsAck hc addr na nowMs nowNs = s := by unfold Server.handleHsAck; rw [hf]; simp only [hst]
        have e2 : s.touchFrame addr (.hsAck na) nowMs g = g := by unfold Server.touchFrame; rw [hf]; simp only [hst]
        rw [e1, e2]; exact hi
      | fin =>
        have e1 : s.handleHsAck hc addr na nowMs nowNs = s := by unfold Server.handleHsAck; rw [hf]; simp only [hst]
        have e2 : s.touchFrame addr (.hsAck na) nowMs g = g := by unfold Server.touchFrame; rw [hf]; simp only [hst]
        rw [e1, e2]; exact hi
  | synAck =>
    cases h
    rw [Server.touchFrame_other s addr _ nowMs g rfl (by intro na h; cases h)]; exact hi
  | hsError =>
    cases h
    rw [Server.touchFrame_other s addr _ nowMs g rfl (by intro na h; cases h)]; exact hi
  | disconnect =>
    rw [Server.touchFrame_other s addr _ nowMs g rfl (by intro na h; cases h)]
    exact hi.of_DSub (Server.handleDisconnect_DSub hc s s' hw addr nowMs out h)
  | disconnectAck =>
    cases h
    rw [Server.touchFrame_other s addr _ nowMs g rfl (by intro na h; cases h)]
    exact hi.of_DSub (Server.handleDisconnectAck_DSub s addr)
  | data => exact traffic rfl h
  | sync => exact traffic rfl h
  | ack => exact traffic rfl h

/-- The ghost after the arrivals of a step. -/
def Server.framesGhost (hc : HC H) (nowMs nowNs : Nat) : Server H → (Nat → Nat) → List (Nat × List Nat) → (Nat → Nat)
  | _, g, [] => g
  | s, g, a :: rest =>
    match decode (a.2.take MAX_FRAME_SIZE) with
    | none => Server.framesGhost hc nowMs nowNs s g rest
    | some f =>
      match s.handleFrame hc a.1 f nowMs nowNs with
      | .error _ => g
      | .ok (s', _) => Server.framesGhost hc nowMs nowNs s' (s.touchFrame a.1 f nowMs g) rest

theorem Server.handleFrames_DInv (hc : HC H) (nowMs nowNs : Nat) (arrivals : List (Nat × List Nat))
    (s : Server H) (o : List (Nat × List Nat)) (s' : Server H) (o' : List (Nat × List Nat)) (hw : s.WF)
    (g : Nat → Nat) (hi : s.DInv g)
    (h : arrivals.foldlM (Server.frameStep hc nowMs nowNs) (s, o) = .ok (s', o')) :
    s'.DInv (Server.framesGhost hc nowMs nowNs s g arrivals) := by
  induction arrivals generalizing s o g with
  | nil => simp only [List.foldlM_nil, pure, Except.pure] at h; cases h; exact hi
  | cons b bs ih =>
    simp only [List.foldlM_cons, bind, Except.bind] at h
    split at h
    · cases h
    · next acc hacc =>
      obtain ⟨s1, o1⟩ := acc
      unfold Server.frameStep at hacc
      unfold Server.framesGhost
      split at hacc
      · next hd =>
        cases hacc
        rw [hd]
        exact ih s o hw g hi h
      · next f hd =>
        rw [hd]
        split at hacc
        · cases hacc
        · next s2 o2 hf =>
          cases hacc
          simp only at hf
          simp only [hf]
          obtain ⟨_, t, _⟩ := Server.handleFrame_STr hc s s1 hw b.1 f nowMs nowNs o2 hf
          exact ih s1 _ t.wf _ (Server.handleFrame_DInv hc s s1 hw b.1 f nowMs nowNs o2 hf g hi) h

/-- The ghost after a whole step. -/
def Server.stepGhost (hc : HC H) (s : Server H) (nowNs : Nat) (arrivals : List (Nat × List Nat)) (g : Nat → Nat) :
    Nat → Nat :=
  match s.flushActive hc with
  | .ok (s1, _) => Server.framesGhost hc (s.nowMs nowNs) nowNs s1 g arrivals
  | .error _ => g

theorem Server.step_DInv (hc : HC H) (s s' : Server H) (hw : s.WF) (nowNs : Nat)
    (arrivals sent : List (Nat × List Nat)) (evs : List SEvent)
    (h : s.step hc nowNs arrivals = .ok (s', sent, evs)) (g : Nat → Nat) (hi : s.DInv g) :
    s'.DInv (s.stepGhost hc nowNs arrivals g) := by
  obtain ⟨s1, o1, s2, o2, s4, s6, o6, h1, h2, h4, h6, rfl, rfl, -⟩ := Server.step_phases hc s s' nowNs arrivals sent evs h
  have t1 := Server.flushActive_STr hc s s1 hw o1 h1
  have d1 := Server.flushActive_DSub hc s s1 hw o1 h1
  obtain ⟨e2, t2, -⟩ := Server.handleFrames_STr hc s1 s2 t1.wf arrivals _ nowNs o2 h2
  obtain ⟨e3, t3, -⟩ := Server.runTimers_STr (s2.timers.size * 12 + 16) s2 t2.wf (s.nowMs nowNs) []
  obtain ⟨e4, t4⟩ := Server.activeTimeouts_STr hc _ s4 t3.wf _ h4
  have t5 := Server.retain_STr s4 t4.wf _ (List.filter_sublist (l := s4.detached)
    (p := fun c => (s4.active.filter fun cid => match s4.byCid cid with
              | some c => c.state.isActive
              | none => false).contains c.cid || s4.timers.any (·.cid = c.cid)))
  have i2 : s2.DInv (s.stepGhost hc nowNs arrivals g) := by
    unfold Server.stepGhost
    rw [h1]
    rw [Server.handleFrames_eq] at h2
    exact Server.handleFrames_DInv hc _ nowNs arrivals s1 [] s2 o2 t1.wf g (hi.of_DSub d1) h2
  have i3 := i2.of_DSub (Server.runTimers_DSub (s2.timers.size * 12 + 16) s2 (s.nowMs nowNs) [])
  have i4 := i3.of_DSub (Server.activeTimeouts_DSub hc _ s4 _ h4)
  have i5 := i4.of_DSub (DSub.of_same (s' := { s4 with
      active := s4.active.filter fun cid => match s4.byCid cid with
        | some c => c.state.isActive
        | none => false,
      detached := s4.detached.filter fun c =>
        (s4.active.filter fun cid => match s4.byCid cid with
          | some c => c.state.isActive
          | none => false).contains c.cid || s4.timers.any (·.cid = c.cid) }) rfl rfl)
  have i6 := i5.of_DSub (Server.stepActive_DSub hc _ s6 t5.wf _ nowNs o6 h6)
  exact i6.of_DSub (DSub.of_same rfl rfl)

/-- Ghost update of one API call. -/
def Server.touch (hc : HC H) (s : Server H) (g : Nat → Nat) : SOp → (Nat → Nat)
  | .step n a => s.stepGhost hc n a g
  | _ => g

theorem Server.apply_DInv (hc : HC H) (s s' : Server H) (hw : s.WF) (op : SOp)
    (sent : List (Nat × List Nat)) (ls : List SLabel) (h : s.apply hc op = .ok (s', sent, ls))
    (g : Nat → Nat) (hi : s.DInv g) : s'.DInv (s.touch hc g op) := by
  cases op with
  | step n arr =>
    simp only [Server.apply] at h
    split at h
    · cases h
    · next s1 o1 e1 hs =>
      cases h
      exact Server.step_DInv hc s s' hw n arr sent e1 hs g hi
  | drop addr => cases h; exact hi.of_DSub (Server.drop_DSub s addr)
  | disconnect addr m => cases h; exact hi.of_DSub (Server.disconnect_DSub s hw addr m)
  | send addr d ch m => cases h; exact hi.of_DSub (Server.send_DSub hc s hw addr d ch m)
  | flush =>
    simp only [Server.apply] at h
    split at h
    · cases h
    · next s1 o1 hf =>
      cases h
      exact hi.of_DSub (Server.flushActive_DSub hc s s' hw sent hf)

/-- A run, together with the ghost. -/
def Server.runG (hc : HC H) : Server H → (Nat → Nat) → List SOp → R (Server H × (Nat → Nat))
  | s, g, [] => .ok (s, g)
  | s, g, op :: ops =>
    match s.apply hc op with
    | .error e => .error e
    | .ok (s1, _, _) => Server.runG hc s1 (s.touch hc g op) ops

theorem Server.runG_DInv (hc : HC H) (ops : List SOp) (s s' : Server H) (g g' : Nat → Nat)
    (h : Server.runG hc s g ops = .ok (s', g')) (hw : s.WF) (he : s.eventsOut = []) (hi : s.DInv g) :
    s'.DInv g' ∧ s'.WF ∧ s'.eventsOut = [] := by
  induction ops generalizing s g with
  | nil => cases h; exact ⟨hi, hw, he⟩
  | cons op ops ih =>
    simp only [Server.runG] at h
    split at h
    · cases h
    · next s1 o1 l1 h1 =>
      obtain ⟨a1, a2, -⟩ := Server.apply_monitor hc s s1 hw he op o1 l1 h1
      exact ih s1 _ h a1 a2 (Server.apply_DInv hc s s1 hw op o1 l1 h1 g hi)

theorem Server.runG_of_run (hc : HC H) (ops : List SOp) (s s' : Server H) (g : Nat → Nat)
    (sent : List (Nat × List Nat)) (ls : List SLabel) (h : Server.run hc s ops = .ok (s', sent, ls)) :
    ∃ g', Server.runG hc s g ops = .ok (s', g') := by
  induction ops generalizing s g sent ls with
  | nil => cases h; exact ⟨g, rfl⟩
  | cons op ops ih =>
    simp only [Server.run] at h
    split at h
    · cases h
    · next s1 o1 l1 h1 =>
      split at h
      · cases h
      · next s2 o2 l2 h2 =>
        cases h
        simp only [Server.runG, h1]
        exact ih s1 _ o2 l2 h2


/-- The invariant in the state in which the active-timeout loop of a step starts. -/
theorem Server.afterTimers_DInv (hc : HC H) (s : Server H) (hw : s.WF) (nowNs : Nat)
    (arrivals : List (Nat × List Nat)) (s1 : Server H) (o1 : List (Nat × List Nat)) (s2 : Server H)
    (o2 : List (Nat × List Nat)) (h1 : s.flushActive hc = .ok (s1, o1))
    (h2 : s1.handleFrames hc arrivals (s.nowMs nowNs) nowNs = .ok (s2, o2)) (g : Nat → Nat) (hi : s.DInv g) :
    (s2.afterTimers (s.nowMs nowNs)).DInv (s.stepGhost hc nowNs arrivals g) ∧
    (s2.afterTimers (s.nowMs nowNs)).cfg = s.cfg := by
  have t1 := Server.flushActive_STr hc s s1 hw o1 h1
  have d1 := Server.flushActive_DSub hc s s1 hw o1 h1
  obtain ⟨e2, t2, -⟩ := Server.handleFrames_STr hc s1 s2 t1.wf arrivals _ nowNs o2 h2
  obtain ⟨e3, t3, -⟩ := Server.runTimers_STr (s2.timers.size * 12 + 16) s2 t2.wf (s.nowMs nowNs) []
  have i2 : s2.DInv (s.stepGhost hc nowNs arrivals g) := by
    unfold Server.stepGhost
    rw [h1]
    rw [Server.handleFrames_eq] at h2
    exact Server.handleFrames_DInv hc _ nowNs arrivals s1 [] s2 o2 t1.wf g (hi.of_DSub d1) h2
  unfold Server.afterTimers
  exact ⟨i2.of_DSub (Server.runTimers_DSub (s2.timers.size * 12 + 16) s2 (s.nowMs nowNs) []),
    by rw [t3.cfg, t2.cfg, t1.cfg]⟩

end Uflow.Endpoint
