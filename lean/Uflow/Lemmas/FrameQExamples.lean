import Uflow.Lemmas.FrameQAckGroup

/-! Concrete frame-queue states and ack groups used by the non-vacuity examples of C15. -/

namespace Uflow.FrameQ

open Uflow Uflow.Codec

/-- A log of 5 frames, ids 100 … 104, nonces T F T T F, built with `push`
(window size 16, tail 4, base id 100). -/
def exS5 : State :=
  push (push (push (push (push (init 16 4 100) 100 1 [(1, 0)] true) 200 2 [(2, 0), (2, 1)] false)
    300 3 [] true) 400 4 [(3, 0)] true) 500 5 [(4, 0)] false

/-- Claims frames 100, 102, 104 (nonces T, T, F: XOR = false) — a correct group. -/
def exGood : AckGroup := { baseId := 100, bitfield := 21, nonce := false }

/-- Same claims with the wrong nonce parity. -/
def exBadNonce : AckGroup := { baseId := 100, bitfield := 21, nonce := true }

/-- Covers 103, 104, 105: straddles the end of the log (105 was never sent). -/
def exStraddle : AckGroup := { baseId := 103, bitfield := 7, nonce := true }

/-- State after the correct group was accepted. -/
def exS5acked : State :=
  match acknowledgeGroup exS5 exGood none with
  | .ok (s, _) => s
  | .error _ => exS5

end Uflow.FrameQ
