import Uflow.Lemmas.HcGateLaterPair

/-!
C09GateLater, part 3: stability on the pair ("completely received" survives any `Guarded`
continuation), the run-level form of `gate_then_later_receive`, and the vocabulary for composing it
with the flush gate of the endpoints.
-/

namespace Uflow.HcGate

open Uflow Uflow.Gen Uflow.Codec Uflow.HalfConn Uflow.PSend Uflow.HcSys Uflow.HcFlush
open Uflow.PRecv (LogE bindR bindR_ok)
open Uflow.Sys (Sys SOp runS stepS initS SyncOk Recvd)
open Uflow.Props.C01Sys
open Uflow.Rate (FloatOps)
open Uflow.Props.C01 (SyncCfg)
open Uflow.Props.C09 (SameTx)
open Uflow.HcFrm (IdsNodup)

variable {F : Type}

/-- For every reachable `Sys` state: every Reliable packet emitted before a recorded `sync` step is
completely received (`Sys.Recvd`: in the log, passed by the window base, or entry flag). `PInv.sync` in
terms of the model's own window index function. -/
theorem sys_recorded_sync_recvd (w k b a m : Nat) (hw : w ≤ 2^16) (hk : k ≤ 19) (hb : b < 2^20)
    (sops : List SOp) (s : Sys) (hs : runS (initS w (2^k) b a m) sops = .ok s) (n id : Nat)
    (hmem : (n, id) ∈ s.syncs) (j : Nat) (x : Emitted) (hx : s.hist.emitted[j]? = some x)
    (hrel : x.mode = .reliable) (hj : j < n) : Recvd s x := by
  have hinv := C01_sys_reach w k b a m (by omega) hk hb sops s hs
  have hp := C02_sys_reach_delivery w k b a m hw hk hb sops s hs
  exact Sys.recvd_of_recvdW hinv j x hx (hp.sync n id hmem j x hx hrel hj)

/-- **Stability.** Gate open at `h1`; after ANY `Guarded` continuation `sched2` (state `hm`), every
Reliable packet emitted in `h1` is still completely received by `B`: it has an entry in the attribution
`log` of the payloads `B.receive` returned so far, or `RecvdP hm x` (`B`'s window base passed it, or its
slot in `B`'s receive window has the entry flag). -/
theorem gate_stable (ops : FloatOps F) (cA cB : Config) (nowA nowB : Nat) (rngA rngB : Rng)
    (k : Nat) (hc : SyncCfg cA cB k) (ham : allocCeil cA.txAllocLimit ≤ allocCeil cB.rxAllocLimit)
    (sched1 sched2 : List POp) (h1 hm : HcPair F)
    (hg1 : Guarded ops (initP ops cA cB nowA nowB rngA rngB) sched1)
    (hrun1 : runP ops (initP ops cA cB nowA nowB rngA rngB) sched1 = .ok h1)
    (hn : IdsNodup h1.wireAB) (hidle : isSendPending h1.A = false)
    (hg2 : Guarded ops h1 sched2) (hrun2 : runP ops h1 sched2 = .ok hm) :
    ∃ (log : List LogE) (em : List Emitted), Attributed hm log em ∧ h1.em <+: em ∧
      ∀ j x, h1.em[j]? = some x → x.mode = .reliable → (∃ e ∈ log, e.uid = j) ∨ RecvdP hm x := by
  obtain ⟨hq, hp, hres⟩ := (not_pending_iff h1.A).mp hidle
  have hok : SyncOkP h1 :=
    (Uflow.Props.C01.C01_hc_sync_ok ops cA cB nowA nowB rngA rngB k hc sched1 h1 hg1 hrun1 hn).1
      (by rw [hres]; rfl) (by rw [hp]; rfl)
  obtain ⟨sops1, s1, hs1, hr1⟩ :=
    Uflow.Props.C01.C01_hc_refines_sys ops cA cB nowA nowB rngA rngB hc.pc hc.base sched1 h1 hg1 hrun1
  rw [hc.hW] at hs1
  have hi1 := Uflow.Props.C01.C01_hc_reach ops cA cB nowA nowB rngA rngB hc.pc sched1 h1 hrun1
  have hsync := Sys.stepS_sync_ok (syncOk_of_rel hr1 hok)
  generalize hs1' : ({ s1 with syncs := s1.syncs ++ [(s1.hist.emitted.length, s1.snd.nextId)] } : Sys) = s1'
    at hsync
  have hr1' : Rel h1 s1' := by
    subst hs1'
    exact {
      snd := hr1.snd, pend := hr1.pend, enq := hr1.enq, elen := hr1.elen, rcv := hr1.rcv, adv := hr1.adv,
      log := hr1.log, seen := hr1.seen, net := hr1.net, em := hr1.em,
      syncs := fun x hx => List.mem_append_left _ (hr1.syncs x hx) }
  have hmem1 : (s1.hist.emitted.length, s1.snd.nextId) ∈ s1'.syncs := by
    subst hs1'
    exact List.mem_append_right _ (List.mem_singleton.mpr rfl)
  obtain ⟨sops2, sm, hsm, hrm⟩ := sim_run ops sched2 hi1 hr1' hg2 hrun2
  have hfullm : runS (initS cA.txPacketWindowSize (2^k) cA.txPacketBaseId cA.txAllocLimit cB.rxAllocLimit)
      (sops1 ++ [.sync] ++ sops2) = .ok sm := by
    rw [HcSys.runS_append, HcSys.runS_append, hs1, bindR_ok, runS_single _ _ _ hsync, bindR_ok]
    exact hsm
  have hmemm := Sys.runS_syncs_mono sops2 hsm _ hmem1
  obtain ⟨pem, -⟩ := runP_ghost_prefix ops sched2 h1 hm hrun2
  have hinvm := C01_sys_reach _ k _ _ _ (by have := hc.hw; omega) hc.hk hc.pc.txA _ sm hfullm
  refine ⟨sm.rcv.log, sm.hist.emitted,
    attributed_of_rel _ k _ _ _ hc.hw hc.hk hc.pc.txA ham _ sm hfullm hm hrm, by rw [hrm.em]; exact pem, ?_⟩
  intro j x hx hrel
  have hj : j < s1.hist.emitted.length := by rw [hr1.em]; exact (List.getElem?_eq_some_iff.mp hx).1
  obtain ⟨tl, htl⟩ := pem
  have hxm : sm.hist.emitted[j]? = some x := by
    rw [hrm.em, ← htl, List.getElem?_append_left (by rw [← hr1.em]; exact hj)]; exact hx
  have hrec := sys_recorded_sync_recvd _ k _ _ _ hc.hw hc.hk hc.pc.txA _ sm hfullm _ _ hmemm j x hxm hrel hj
  have huid : x.uid = j := (hinvm.snd.hinv.ids j x hxm).1
  unfold Recvd at hrec
  rw [hrm.adv, hrm.rcv, huid] at hrec
  rcases hrec with h0 | h0
  · exact Or.inl h0
  · right
    unfold RecvdP
    rw [huid]
    exact h0

/-- The run-level form: the whole schedule `sched1 ++ sched2 ++ [.recvB]` is `Guarded` and runs to `h2`;
the gate is open at the end of `sched1`; no frame id has been reused up to `h2` (only the part up to
`h1` is used). -/
theorem gate_then_later_receive_run (ops : FloatOps F) (cA cB : Config) (nowA nowB : Nat) (rngA rngB : Rng)
    (k : Nat) (hc : SyncCfg cA cB k) (ham : allocCeil cA.txAllocLimit ≤ allocCeil cB.rxAllocLimit)
    (sched1 sched2 : List POp) (h1 h2 : HcPair F)
    (hg : Guarded ops (initP ops cA cB nowA nowB rngA rngB) (sched1 ++ sched2 ++ [.recvB]))
    (hrun1 : runP ops (initP ops cA cB nowA nowB rngA rngB) sched1 = .ok h1)
    (hidle : isSendPending h1.A = false)
    (hrun2 : runP ops (initP ops cA cB nowA nowB rngA rngB) (sched1 ++ sched2 ++ [.recvB]) = .ok h2)
    (hn : IdsNodup h2.wireAB) : LaterComplete h1 h2 := by
  rw [List.append_assoc] at hg hrun2
  obtain ⟨h1', e1, hrest⟩ := runP_split ops _ _ _ _ hrun2
  rw [hrun1] at e1
  cases e1
  obtain ⟨hm, hrunm, hlast⟩ := runP_split ops _ _ _ _ hrest
  have hstep := runP_single ops _ _ _ hlast
  have hg1 := guarded_prefix ops _ _ _ hg
  have hg2 := guarded_prefix ops _ _ _ (guarded_suffix ops _ _ _ _ hg hrun1)
  obtain ⟨w2, hw2⟩ := Uflow.HcFrm.runP_wire_prefix ops _ _ _ hrest
  have hn1 : IdsNodup h1.wireAB := by rw [hw2] at hn; exact hn.of_prefix
  exact gate_then_later_receive ops cA cB nowA nowB rngA rngB k hc ham sched1 sched2 h1 hm h2 hg1 hrun1 hn1
    hidle hg2 hrunm hstep

/-- What an open flush gate gives for a half connection `hh`, for a `receive` the peer performs at any
LATER point: `is_send_pending() = false`, and for every `SyncReach` pair state `hp` whose `A` has the
transmit side of `hh`, every `Guarded` continuation `sched2` of the run from `hp` and the `receive` of
`B` after it (which never traps) leave `LaterComplete hp h2`. -/
def GateReceivesLater (ops : FloatOps F) (hh : HalfConn.State F) : Prop :=
  isSendPending hh = false ∧
  ∀ hp : HcPair F, SyncReach ops hp → SameTx hp.A hh →
    ∀ (sched2 : List POp) (hm : HcPair F), Guarded ops hp sched2 → runP ops hp sched2 = .ok hm →
      ∃ h2, stepP ops hm .recvB = .ok h2 ∧ LaterComplete hp h2

theorem gateReceivesLater_of_not_pending (ops : FloatOps F) (hh : HalfConn.State F)
    (h : isSendPending hh = false) : GateReceivesLater ops hh := by
  refine ⟨h, ?_⟩
  rintro hp ⟨cA, cB, nowA, nowB, rngA, rngB, k, sched, hc, ham, hg, hrun, hn⟩ hs sched2 hm hg2 hrun2
  have hfull : runP ops (initP ops cA cB nowA nowB rngA rngB) (sched ++ sched2) = .ok hm := by
    rw [runP_append, hrun, bindR_ok]; exact hrun2
  have him := Uflow.Props.C01.C01_hc_reach ops cA cB nowA nowB rngA rngB hc.pc _ hm hfull
  obtain ⟨h2, hstep⟩ := recvB_ok ops him
  exact ⟨h2, hstep, gate_then_later_receive ops cA cB nowA nowB rngA rngB k hc ham sched sched2 hp hm h2 hg hrun
    hn (by rw [hs.isSendPending]; exact h) hg2 hrun2 hstep⟩

end Uflow.HcGate
