import Uflow.Lemmas.Codec

/-! Helper lemmas for C16: the parser consumes exactly one frame (no trailing / missing bytes). -/

set_option linter.unusedSimpArgs false

namespace Uflow.Codec

open Uflow.Gen

theorem take_append_le {α} (a b : List α) (n : Nat) (h : n ≤ a.length) : (a ++ b).take n = a.take n := by
  rw [List.take_append_of_le_length h]

theorem drop_append_le {α} (a b : List α) (n : Nat) (h : n ≤ a.length) : (a ++ b).drop n = a.drop n ++ b := by
  rw [List.drop_append_of_le_length h]

/-- Parsing a datagram from a prefix that suffices is stable under extension of the input. -/
theorem readDatagram_append (a b : List Nat) (d : Datagram) (r : List Nat)
    (h : readDatagram a = some (d, r)) : readDatagram (a ++ b) = some (d, r ++ b) := by
  unfold readDatagram at h ⊢
  simp only [DATAGRAM_HEADER_SIZE_MIN, DATAGRAM_HEADER_SIZE_MICRO] at h ⊢
  split at h
  · exact absurd h (by simp)
  · rename_i hlen
    have hlen' : ¬ (a ++ b).length < 6 := by simp only [List.length_append]; omega
    rw [if_neg hlen']
    match a, hlen with
    | b0 :: b1 :: b2 :: b3 :: b4 :: b5 :: r6, _ =>
      simp only [List.cons_append] at h ⊢
      split at h
      · rename_i hm
        rw [if_pos hm]
        split at h
        · exact absurd h (by simp)
        · rename_i hl
          have hl' : ¬ (r6 ++ b).length < b0 % 64 := by simp only [List.length_append]; omega
          rw [if_neg hl']
          simp only [Option.some.injEq, Prod.mk.injEq] at h
          obtain ⟨hd, hr⟩ := h
          rw [take_append_le _ _ _ (by omega), drop_append_le _ _ _ (by omega), ← hd, ← hr]
      · rename_i hm
        rw [if_neg hm]
        split at h
        · rename_i hs
          rw [if_pos hs]
          match r6, h with
          | b6 :: b7 :: b8 :: r9, h =>
            simp only [List.cons_append] at h ⊢
            split at h
            · exact absurd h (by simp)
            · rename_i hl
              have hl' : ¬ (r9 ++ b).length < b1 := by simp only [List.length_append]; omega
              rw [if_neg hl']
              simp only [Option.some.injEq, Prod.mk.injEq] at h
              obtain ⟨hd, hr⟩ := h
              rw [take_append_le _ _ _ (by omega), drop_append_le _ _ _ (by omega), ← hd, ← hr]
        · rename_i hs
          rw [if_neg hs]
          match r6, h with
          | b6 :: b7 :: b8 :: b9 :: b10 :: b11 :: b12 :: b13 :: r14, h =>
            simp only [List.cons_append] at h ⊢
            split at h
            · exact absurd h (by simp)
            · rename_i hl
              have hl' : ¬ (r14 ++ b).length < rd16 b1 b2 := by simp only [List.length_append]; omega
              rw [if_neg hl']
              simp only [Option.some.injEq, Prod.mk.injEq] at h
              obtain ⟨hd, hr⟩ := h
              rw [take_append_le _ _ _ (by omega), drop_append_le _ _ _ (by omega), ← hd, ← hr]

theorem readDatagrams_append (n : Nat) (a b : List Nat) (ds : List Datagram) (r : List Nat)
    (h : readDatagrams n a = some (ds, r)) : readDatagrams n (a ++ b) = some (ds, r ++ b) := by
  induction n generalizing a ds r with
  | zero =>
    simp only [readDatagrams, Option.some.injEq, Prod.mk.injEq] at h ⊢
    obtain ⟨h1, h2⟩ := h
    subst h1; subst h2; simp
  | succ n ih =>
    simp only [readDatagrams] at h ⊢
    cases hd : readDatagram a with
    | none => rw [hd] at h; exact absurd h (by simp)
    | some p =>
      obtain ⟨d, rest⟩ := p
      rw [hd] at h
      rw [readDatagram_append a b d rest hd]
      simp only at h ⊢
      cases hds : readDatagrams n rest with
      | none => rw [hds] at h; exact absurd h (by simp)
      | some q =>
        obtain ⟨ds', rest'⟩ := q
        rw [hds] at h
        rw [ih rest ds' rest' hds]
        simp only [Option.some.injEq, Prod.mk.injEq] at h ⊢
        obtain ⟨h1, h2⟩ := h
        subst h1; subst h2; simp

theorem readAckGroup_append (a b : List Nat) (g : AckGroup) (r : List Nat)
    (h : readAckGroup a = some (g, r)) : readAckGroup (a ++ b) = some (g, r ++ b) := by
  unfold readAckGroup at h ⊢
  match a, h with
  | b0 :: b1 :: b2 :: b3 :: b4 :: b5 :: b6 :: b7 :: b8 :: r', h =>
    simp only [List.cons_append, Option.some.injEq, Prod.mk.injEq] at h ⊢
    obtain ⟨h1, h2⟩ := h
    subst h1; subst h2; simp

theorem readAckGroups_append (n : Nat) (a b : List Nat) (gs : List AckGroup) (r : List Nat)
    (h : readAckGroups n a = some (gs, r)) : readAckGroups n (a ++ b) = some (gs, r ++ b) := by
  induction n generalizing a gs r with
  | zero =>
    simp only [readAckGroups, Option.some.injEq, Prod.mk.injEq] at h ⊢
    obtain ⟨h1, h2⟩ := h
    subst h1; subst h2; simp
  | succ n ih =>
    simp only [readAckGroups] at h ⊢
    cases hd : readAckGroup a with
    | none => rw [hd] at h; exact absurd h (by simp)
    | some p =>
      obtain ⟨d, rest⟩ := p
      rw [hd] at h
      rw [readAckGroup_append a b d rest hd]
      simp only at h ⊢
      cases hds : readAckGroups n rest with
      | none => rw [hds] at h; exact absurd h (by simp)
      | some q =>
        obtain ⟨ds', rest'⟩ := q
        rw [hds] at h
        rw [ih rest ds' rest' hds]
        simp only [Option.some.injEq, Prod.mk.injEq] at h ⊢
        obtain ⟨h1, h2⟩ := h
        subst h1; subst h2; simp


theorem readPayload_append_none (ty : Nat) (p z : List Nat) (f : Frame)
    (h : readPayload ty p = some f) (hz : z ≠ []) : readPayload ty (p ++ z) = none := by
  have hzl : 0 < z.length := List.length_pos_iff.mpr hz
  unfold readPayload at h ⊢
  split at h
  · -- syn
    rename_i hty
    rw [if_pos hty]
    split at h
    · exact absurd h (by simp)
    · rename_i hl
      have : (p ++ z).length ≠ HANDSHAKE_SYN_FRAME_PAYLOAD_SIZE := by
        simp only [List.length_append]; omega
      rw [if_pos this]
  · rename_i h0; rw [if_neg h0]
    split at h
    · rename_i hty; rw [if_pos hty]
      match p, h with
      | [k0, k1, k2, k3, n0, n1, n2, n3, r0, r1, r2, r3, p0, p1, p2, p3, a0, a1, a2, a3], _ =>
        match z, hz with
        | z0 :: zs, _ => simp
    · rename_i h1; rw [if_neg h1]
      split at h
      · rename_i hty; rw [if_pos hty]
        match p, h with
        | [k0, k1, k2, k3], _ =>
          match z, hz with
          | z0 :: zs, _ => simp
      · rename_i h2; rw [if_neg h2]
        split at h
        · rename_i hty; rw [if_pos hty]
          match p, h with
          | [k0, k1, k2, k3, e], _ =>
            match z, hz with
            | z0 :: zs, _ => simp
        · rename_i h3; rw [if_neg h3]
          split at h
          · rename_i hty; rw [if_pos hty]
            match p, h with
            | [], _ =>
              match z, hz with
              | z0 :: zs, _ => simp
          · rename_i h4; rw [if_neg h4]
            split at h
            · rename_i hty; rw [if_pos hty]
              match p, h with
              | [], _ =>
                match z, hz with
                | z0 :: zs, _ => simp
            · rename_i h5; rw [if_neg h5]
              split at h
              · rename_i hty; rw [if_pos hty]
                match p, h with
                | s0 :: s1 :: s2 :: s3 :: c :: rest, h =>
                  simp only [List.cons_append] at h ⊢
                  cases hrd : readDatagrams (c % 128) rest with
                  | none => rw [hrd] at h; exact absurd h (by simp)
                  | some q =>
                    obtain ⟨dgs, r⟩ := q
                    rw [hrd] at h
                    match r, h, hrd with
                    | [], _, hrd =>
                      rw [readDatagrams_append _ _ z _ _ hrd]
                      match z, hz with
                      | z0 :: zs, _ => simp
              · rename_i h6; rw [if_neg h6]
                split at h
                · rename_i hty; rw [if_pos hty]
                  match p, h with
                  | [m, f0, f1, f2, f3, q0, q1, q2, q3], _ =>
                    match z, hz with
                    | z0 :: zs, _ => simp
                · rename_i h7; rw [if_neg h7]
                  split at h
                  · rename_i hty; rw [if_pos hty]
                    match p, h with
                    | f0 :: f1 :: f2 :: f3 :: q0 :: q1 :: q2 :: q3 :: c0 :: c1 :: rest, h =>
                      simp only [List.cons_append] at h ⊢
                      cases hrd : readAckGroups (rd16 c0 c1) rest with
                      | none => rw [hrd] at h; exact absurd h (by simp)
                      | some q =>
                        obtain ⟨gs, r⟩ := q
                        rw [hrd] at h
                        match r, h, hrd with
                        | [], _, hrd =>
                          rw [readAckGroups_append _ _ z _ _ hrd]
                          match z, hz with
                          | z0 :: zs, _ => simp
                  · exact absurd h (by simp)

/-- Shape of an accepted byte string: body, its CRC, and the parsed payload. -/
theorem decode_some_shape (bs : List Nat) (f : Frame) (h : decode bs = some f) :
    ∃ ty payload c0 c1 c2 c3, bs = (ty :: payload) ++ [c0, c1, c2, c3] ∧
      Crc.compute (ty :: payload) = rd32 c0 c1 c2 c3 ∧ readPayload ty payload = some f := by
  unfold decode at h
  split at h
  · exact absurd h (by simp)
  · rename_i hlen
    have hsplit : bs = bs.take (bs.length - 4) ++ bs.drop (bs.length - 4) := (List.take_append_drop _ _).symm
    generalize hb : bs.take (bs.length - 4) = body at h hsplit
    generalize hc : bs.drop (bs.length - 4) = crc at h hsplit
    match crc, h with
    | [c0, c1, c2, c3], h =>
      simp only at h
      split at h
      · exact absurd h (by simp)
      · rename_i hcrc
        match body, h with
        | ty :: payload, h =>
          refine ⟨ty, payload, c0, c1, c2, c3, hsplit, ?_, h⟩
          simpa using hcrc

/-- Trailing bytes are never accepted. -/
theorem decode_append_none (bs x : List Nat) (f : Frame) (h : decode bs = some f) (hx : x ≠ []) :
    decode (bs ++ x) = none := by
  obtain ⟨ty, payload, c0, c1, c2, c3, hbs, _, hp⟩ := decode_some_shape bs f h
  have hxl : 0 < x.length := List.length_pos_iff.mpr hx
  subst hbs
  unfold decode
  have hlen : ((ty :: payload ++ [c0, c1, c2, c3]) ++ x).length = payload.length + 5 + x.length := by
    simp only [List.length_append, List.length_cons, List.length_nil]
  rw [if_neg (by rw [hlen]; omega)]
  -- the new body is the old body followed by `x.length` further bytes
  have hbody : ((ty :: payload ++ [c0, c1, c2, c3]) ++ x).take (((ty :: payload ++ [c0, c1, c2, c3]) ++ x).length - 4)
      = ty :: (payload ++ ([c0, c1, c2, c3] ++ x).take x.length) := by
    rw [hlen]
    have : payload.length + 5 + x.length - 4 = (ty :: payload).length + x.length := by
      simp only [List.length_cons]; omega
    rw [this, List.append_assoc, List.take_append, List.take_of_length_le (by omega)]
    simp
  rw [hbody]
  have hz : ([c0, c1, c2, c3] ++ x).take x.length ≠ [] := by
    intro hnil
    have := congrArg List.length hnil
    simp only [List.length_take, List.length_append, List.length_cons, List.length_nil] at this
    omega
  split
  · simp only
    split
    · rfl
    · exact readPayload_append_none ty payload _ f hp hz
  · rfl

/-- Truncated input is never accepted. -/
theorem decode_take_none (bs : List Nat) (n : Nat) (f : Frame) (h : decode bs = some f) (hn : n < bs.length) :
    decode (bs.take n) = none := by
  cases hd : decode (bs.take n) with
  | none => rfl
  | some g =>
    have hx : bs.drop n ≠ [] := by
      intro hnil
      have := congrArg List.length hnil
      simp only [List.length_drop, List.length_nil] at this
      omega
    have := decode_append_none (bs.take n) (bs.drop n) g hd hx
    rw [List.take_append_drop] at this
    rw [this] at h
    exact absurd h (by simp)

end Uflow.Codec
