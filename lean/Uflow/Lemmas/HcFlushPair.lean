import Uflow.Lemmas.HcSysSim
import Uflow.Lemmas.HcFlushDeliver
import Uflow.Lemmas.HcFlushInit

/-!
C09Hc, part 5: transfer of the `Sys` facts to the pair of half connections through the refinement
relation `HcSys.Rel`.

* `Attributed h log em`: `log` is an attribution of the payloads `B.receive` returned (`h.outs`) to the
  emitted packets `em` (parallel to `h.pend`), with the conclusions of `C01_hc_delivery`.
* `FlushComplete h`: the conclusion of the flush completeness theorem.
-/

namespace Uflow.HcFlush

open Uflow Uflow.Gen Uflow.Codec Uflow.HalfConn Uflow.PSend Uflow.HcSys
open Uflow.PRecv (LogE)
open Uflow.Props.C01Sys
open Uflow.Rate (FloatOps)

variable {F : Type}

/-- `log` attributes the payloads returned by `B.receive` to the emitted packets `em`:
* every log entry handed its payload to the application, and these payloads, in order, are `h.outs`;
* `em` runs parallel to the emission history `h.pend` and its queue entries (data, channel, mode,
  flush id) form a subsequence of the `A.send` calls;
* no emitted packet is logged twice (`uid` = emission position);
* a log entry carries channel and payload of the emitted packet at its position;
* per channel, the delivered payloads are a subsequence of the submitted ones. -/
structure Attributed (h : HcPair F) (log : List LogE) (em : List Emitted) : Prop where
  outs : log.map LogE.data = h.outs.map some
  len : em.length = h.pend.length
  sub : (em.map Emitted.toQ).Sublist h.sent
  once : log.Pairwise (fun x y => x.uid ≠ y.uid)
  attr : ∀ e ∈ log, ∃ x, em[e.uid]? = some x ∧ e.chan = x.channelId ∧ e.data = some x.data
  order : ∀ c, ((log.filter (fun e => decide (e.chan = c))).filterMap LogE.data).Sublist
    ((h.sent.filter (fun q => decide (q.channelId = c))).map QEntry.data)

/-- **Flush complete**: there are an attribution `log` of the payloads returned by `B.receive` and the
list `em` of emitted packets such that
* every packet `A.send` accepted that is not TimeSensitive has been emitted (`sent` and `em` agree on
  everything not TimeSensitive, in order);
* `B`'s packet receive window base has passed every emitted packet (`advB` = number emitted);
* EVERY Reliable emitted packet has a log entry with its payload: it was returned by one of `B`'s
  `receive` calls, byte-exact, and (by `Attributed.once`) exactly once;
* for every channel, the Reliable payloads submitted on it, in submission order, are a subsequence of
  the payloads delivered on it, which (by `Attributed.order`) are a subsequence of all payloads
  submitted on it. -/
def FlushComplete (h : HcPair F) : Prop :=
  ∃ (log : List LogE) (em : List Emitted), Attributed h log em ∧
    h.sent.filter notTS = (em.map Emitted.toQ).filter notTS ∧
    h.advB = em.length ∧
    (∀ j x, em[j]? = some x → x.mode = .reliable → ∃ e ∈ log, e.uid = j ∧ e.data = some x.data) ∧
    ∀ c, ((h.sent.filter (fun q => decide (q.mode = .reliable ∧ q.channelId = c))).map QEntry.data).Sublist
      ((log.filter (fun e => decide (e.chan = c))).filterMap LogE.data)

theorem map_data_of_all_some (l : List LogE) (hl : ∀ e ∈ l, ∃ x, e.data = some x) :
    l.map LogE.data = (l.filterMap LogE.data).map some := by
  induction l with
  | nil => rfl
  | cons e l ih =>
    obtain ⟨x, hx⟩ := hl e (List.mem_cons_self ..)
    rw [List.map_cons, List.filterMap_cons, hx, List.map_cons,
      ih (fun e' he' => hl e' (List.mem_cons_of_mem _ he'))]

/-- The attribution given by a related `Sys` state. -/
theorem attributed_of_rel (w k b a m : Nat) (hw : w ≤ 2^16) (hk : k ≤ 19) (hb : b < 2^20)
    (ham : allocCeil a ≤ allocCeil m) (sops : List Sys.SOp) (s : Sys.Sys)
    (hs : Sys.runS (Sys.initS w (2^k) b a m) sops = .ok s) (h : HcPair F) (hr : Rel h s) :
    Attributed h s.rcv.log s.hist.emitted := by
  have hw' : w < 2^20 := by omega
  have hinv := C01_sys_reach w k b a m hw' hk hb sops s hs
  have hall : ∀ e ∈ s.rcv.log, ∃ x, s.hist.emitted[e.uid]? = some x ∧ e.chan = x.channelId ∧
      e.data = some x.data := by
    intro e he
    obtain ⟨em, hem, hd⟩ := C01_sys_delivered_payload w k b a m hw hk hb ham sops s hs e he
    obtain ⟨em', hem', _, _, _, hch, _⟩ := C01_sys_delivered_is_emitted w k b a m hw' hk hb sops s hs e he
    rw [hem] at hem'
    cases hem'
    exact ⟨em, hem, hch, hd⟩
  refine ⟨?_, by rw [hr.elen, hr.pend], ?_, C01_sys_at_most_once w k b a m hw' hk hb sops s hs, hall, ?_⟩
  · rw [← hr.log]
    exact map_data_of_all_some _ (fun e he => by obtain ⟨x, _, _, hd⟩ := hall e he; exact ⟨_, hd⟩)
  · rw [← hr.enq]
    exact (List.sublist_append_left _ _).trans hinv.snd.hinv.order.1
  · intro c
    have := C01_sys_in_order w k b a m hw' hk hb sops s hs c
    rw [hr.enq] at this
    exact this

theorem rel_win_length {h : HcPair F} {s : Sys.Sys} (hr : Rel h s) : s.snd.win.length = h.A.ps.win.length := by
  rw [hr.snd]; simp [erase]

theorem rel_queue {h : HcPair F} {s : Sys.Sys} (hr : Rel h s) : s.snd.queue = h.A.ps.queue := by
  rw [hr.snd]; rfl

/-- Packets that have left `A`'s send window, in a state related to a `Sys` state. -/
theorem left_window_of_rel (w k b a m : Nat) (hw : w ≤ 2^16) (hk : k ≤ 19) (hb : b < 2^20)
    (ham : allocCeil a ≤ allocCeil m) (sops : List Sys.SOp) (s : Sys.Sys)
    (hs : Sys.runS (Sys.initS w (2^k) b a m) sops = .ok s) (h : HcPair F) (hr : Rel h s) (j : Nat)
    (hj : j < h.pend.length - h.A.ps.win.length) :
    j < h.advB ∧ ∀ x, s.hist.emitted[j]? = some x → x.mode = .reliable →
      ∃ e ∈ s.rcv.log, e.uid = j ∧ e.chan = x.channelId ∧ e.data = some x.data := by
  have hj' : j < s.hist.emitted.length - s.snd.win.length := by
    rw [rel_win_length hr, hr.elen, hr.pend]; exact hj
  have := sys_left_window w k b a m hw hk hb ham sops s hs j hj'
  rw [hr.adv] at this
  exact this

/-- Flush completeness in a state related to a `Sys` state, when `A`'s send queue and send window are
empty. -/
theorem flushComplete_of_rel (w k b a m : Nat) (hw : w ≤ 2^16) (hk : k ≤ 19) (hb : b < 2^20)
    (ham : allocCeil a ≤ allocCeil m) (sops : List Sys.SOp) (s : Sys.Sys)
    (hs : Sys.runS (Sys.initS w (2^k) b a m) sops = .ok s) (h : HcPair F) (hr : Rel h s)
    (hq : h.A.ps.queue = []) (hwin : h.A.ps.win = []) : FlushComplete h := by
  have hw' : w < 2^20 := by omega
  have hinv := C01_sys_reach w k b a m hw' hk hb sops s hs
  have hq' : s.snd.queue = [] := by rw [rel_queue hr, hq]
  have hwin' : s.snd.win = [] := by
    apply List.eq_nil_of_length_eq_zero
    rw [rel_win_length hr, hwin]; rfl
  obtain ⟨_, _, _, hhi, hlo, _⟩ := C01_sys_link w k b a m hw' hk hb sops s hs
  refine ⟨s.rcv.log, s.hist.emitted, attributed_of_rel w k b a m hw hk hb ham sops s hs h hr, ?_, ?_, ?_, ?_⟩
  · have ho := hinv.snd.hinv.order.2
    rw [hq', List.append_nil, hr.enq] at ho
    exact ho
  · rw [← hr.adv]
    rw [hwin'] at hlo
    simp only [List.length_nil, Nat.sub_zero] at hlo
    omega
  · intro j x hx hrel
    have hj : j < s.hist.emitted.length - s.snd.win.length := by
      rw [hwin']; exact (List.getElem?_eq_some_iff.mp hx).1
    obtain ⟨e, he, hu, _, hd⟩ := (sys_left_window w k b a m hw hk hb ham sops s hs j hj).2 x hx hrel
    exact ⟨e, he, hu, hd⟩
  · intro c
    have := sys_reliable_sublist w k b a m hw hk hb ham sops s hs hq' hwin' c
    rw [hr.enq] at this
    exact this

end Uflow.HcFlush
