import Uflow.Lemmas.TsDropFq
import Uflow.Lemmas.ModesTs
import Uflow.Lemmas.HcInvEmit

/-!
C12 (TimeSensitive drop): `refs ⊆ pushed` through the data frame emitter.

`Pushed T (u, fid)` : the wire trace `T` contains a push of `(u, fid)` with `resend = true`.
`EInv T e` : in the emitter context `e`, every reference in the frame log, every reference in the
in-progress data frame, and every acknowledged fragment of a window entry is `Pushed T`.
-/

namespace Uflow.TsDrop

open Uflow Uflow.Gen Uflow.Codec Uflow.HalfConn Uflow.Wire Uflow.Modes Uflow.Heap

variable {F : Type}

/-- `(u, fid)` was put on the wire with `resend = true` in the trace `T`. -/
def Pushed (T : List Push) (r : Nat × Nat) : Prop :=
  ∃ x ∈ T, x.uid = r.1 ∧ x.fid = r.2 ∧ x.resend = true

theorem Pushed.append_right {T : List Push} {r : Nat × Nat} (add : List Push) (h : Pushed T r) :
    Pushed (T ++ add) r := by
  obtain ⟨x, hx, h1⟩ := h
  exact ⟨x, List.mem_append_left _ hx, h1⟩

theorem Pushed.append_left {T : List Push} {r : Nat × Nat} (pre : List Push) (h : Pushed T r) :
    Pushed (pre ++ T) r := by
  obtain ⟨x, hx, h1⟩ := h
  exact ⟨x, List.mem_append_right _ hx, h1⟩

/-- The invariant `refs ⊆ pushed` of an emitter context. -/
structure EInv (T : List Push) (e : Emit F) : Prop where
  refs : RefsIn (Pushed T) e.s.fq
  acked : AckedIn (Pushed T) e.s.ps
  prog : ∀ ip, e.inProg = some ip → ∀ r ∈ ip.refs, Pushed T r

theorem EInv.mono {T : List Push} {e : Emit F} (h : EInv T e) (add : List Push) :
    EInv (T ++ add) e :=
  ⟨h.refs.mono fun _ hr => hr.append_right add, h.acked.mono fun _ hr => hr.append_right add,
   fun ip hip r hr => (h.prog ip hip r hr).append_right add⟩

/-- `EInv` only looks at the frame log, the window and the in-progress frame. -/
theorem EInv.congr {T : List Push} {e e' : Emit F} (h : EInv T e)
    (hf : e'.s.fq.frames = e.s.fq.frames) (hw : e'.s.ps.win = e.s.ps.win)
    (hp : e'.inProg = e.inProg) : EInv T e' :=
  ⟨h.refs.congr hf, h.acked.congr hw, by rw [hp]; exact h.prog⟩

theorem dfeFinalize_einv (T : List Push) (e : Emit F) (h : EInv T e) : EInv T (dfeFinalize e) := by
  cases hip : e.inProg with
  | none => rw [HcInv.dfeFinalize_none e hip]; exact h
  | some ip =>
    obtain ⟨fq, rate, hfq, _, heq⟩ := HcInv.dfeFinalize_some e ip hip
    rw [heq]
    refine ⟨?_, h.acked, fun ip' h' => by cases h'⟩
    show RefsIn (Pushed T) fq
    rw [hfq]
    exact refsIn_push _ _ _ _ _ _ h.refs (h.prog ip hip)

theorem startNewG_einv (T : List Push) (dg : Datagram) (p : PSend.Pending) (fid : Nat)
    (resend : Bool) (e e' : Emit F) (err : Option PushErr) (hE : EInv T e)
    (h : HcInv.startNewG dg p fid resend e = .ok (e', err)) :
    RefsIn (Pushed T) e'.s.fq ∧ AckedIn (Pushed T) e'.s.ps ∧
    ∀ ip, e'.inProg = some ip → ∀ r ∈ ip.refs,
      Pushed T r ∨ (err = none ∧ resend = true ∧ r = (p.uid, fid)) := by
  unfold HcInv.startNewG at h
  split at h
  · cases h
    exact ⟨hE.refs, hE.acked, fun ip' h' r hr => .inl (hE.prog ip' h' r hr)⟩
  · split at h
    · cases h
      exact ⟨hE.refs, hE.acked, fun ip' h' r hr => .inl (hE.prog ip' h' r hr)⟩
    · simp only [Except.ok.injEq, Prod.mk.injEq] at h
      obtain ⟨rfl, rfl⟩ := h
      refine ⟨hE.refs, hE.acked, ?_⟩
      intro ip' h' r hr
      simp only [Option.some.injEq] at h'
      subst h'
      simp only at hr
      cases resend with
      | false => simp at hr
      | true =>
        simp only [if_true, List.mem_singleton] at hr
        exact .inr ⟨rfl, rfl, hr⟩

/-- `dfePush`: the log and the window keep the invariant; the in-progress frame gains at most the
reference of the fragment being pushed, and only when the push succeeds with `resend = true`. -/
theorem dfePush_einv (T : List Push) (e e' : Emit F) (p : PSend.Pending) (fid : Nat) (resend : Bool)
    (err : Option PushErr) (hE : EInv T e) (h : dfePush e p fid resend = .ok (e', err)) :
    RefsIn (Pushed T) e'.s.fq ∧ AckedIn (Pushed T) e'.s.ps ∧
    ∀ ip, e'.inProg = some ip → ∀ r ∈ ip.refs,
      Pushed T r ∨ (err = none ∧ resend = true ∧ r = (p.uid, fid)) := by
  have hfin := dfeFinalize_einv T e hE
  rw [HcInv.dfePush_eq] at h
  split at h
  · cases h
  · rename_i dg hdg
    split at h
    · rename_i ip hip
      split at h
      · cases h
        exact ⟨hfin.refs, hfin.acked, fun ip' h' r hr => .inl (hfin.prog ip' h' r hr)⟩
      · split at h
        · exact startNewG_einv T dg p fid resend _ e' err hfin h
        · simp only [Except.ok.injEq, Prod.mk.injEq] at h
          obtain ⟨rfl, rfl⟩ := h
          refine ⟨hE.refs, hE.acked, ?_⟩
          intro ip' h' r hr
          simp only [Option.some.injEq] at h'
          subst h'
          simp only at hr
          cases resend with
          | false => exact .inl (hE.prog ip hip r (by simpa using hr))
          | true =>
            simp only [if_true, List.mem_append, List.mem_singleton] at hr
            rcases hr with hr | hr
            · exact .inl (hE.prog ip hip r hr)
            · exact .inr ⟨rfl, rfl, hr⟩
    · exact startNewG_einv T dg p fid resend e e' err hE h

end Uflow.TsDrop
