import Uflow.Lemmas.EndpointEvents

/-!
Server endpoint: the per-address event-stream monitor, the transition relation `STr` ("well-formedness
is preserved, and for every address the emitted events lead the monitor from the phase of the old
state to the phase of the new state"), and generic constructors of `STr` for the primitive mutations.
-/

namespace Uflow.Endpoint

open Uflow.Gen Uflow.Codec Uflow.HalfConn

variable {H : Type}

/-- Per-address monitor phase: `conn` between `connect` and the terminal event, else `idle`. -/
inductive SPhase where
  | idle | conn
  deriving DecidableEq, Repr

def SEvent.addr : SEvent → Nat
  | .connect a => a
  | .disconnect a => a
  | .receive a _ => a
  | .error a _ => a

/-- `idle --connect--> conn --receive--> conn --disconnect | error timeout--> idle`;
`idle --error _--> idle` (a refused or timed-out handshake attempt); everything else is rejected. -/
def SPhase.next : SPhase → SEvent → Option SPhase
  | .idle, .connect _ => some .conn
  | .idle, .error _ _ => some .idle
  | .conn, .receive _ _ => some .conn
  | .conn, .disconnect _ => some .idle
  | .conn, .error _ .timeout => some .idle
  | _, _ => none

def SPhase.run (p : SPhase) : List SEvent → Option SPhase
  | [] => some p
  | e :: es =>
    match p.next e with
    | none => none
    | some p' => p'.run es

theorem SPhase.run_append (p : SPhase) (a b : List SEvent) :
    p.run (a ++ b) = (p.run a).bind (fun p' => p'.run b) := by
  induction a generalizing p with
  | nil => rfl
  | cons e es ih =>
    simp only [List.cons_append, SPhase.run]
    cases p.next e with
    | none => rfl
    | some p' => exact ih p'

theorem SPhase.run_conn_recv (a : Nat) (pkts : List (List Nat)) (tail : List SEvent) :
    SPhase.run .conn (pkts.map (SEvent.receive a) ++ tail) = SPhase.run .conn tail := by
  induction pkts with
  | nil => rfl
  | cons x xs ih => simpa [SPhase.run, SPhase.next] using ih

theorem SPhase.run_conn_recv' (a : Nat) (pkts : List (List Nat)) :
    SPhase.run .conn (pkts.map (SEvent.receive a)) = some .conn := by
  have := SPhase.run_conn_recv a pkts []
  simpa [SPhase.run] using this

/-- Entries that are between `connect` and their terminal event. -/
def RState.connected : RState H → Bool
  | .active .. => true
  | .closing => true
  | _ => false

def RState.phase (st : RState H) : SPhase := if st.connected then .conn else .idle

/-- The monitor phase of an address, read off the server state. -/
def Server.phaseOf (s : Server H) (a : Nat) : SPhase :=
  match s.find a with
  | some c => c.state.phase
  | none => .idle

/-- The events that concern address `a`. -/
def evsOf (a : Nat) (evs : List SEvent) : List SEvent := evs.filter (·.addr = a)

theorem evsOf_append (a : Nat) (e1 e2 : List SEvent) : evsOf a (e1 ++ e2) = evsOf a e1 ++ evsOf a e2 := by
  unfold evsOf; exact List.filter_append ..

theorem evsOf_all {a : Nat} {evs : List SEvent} (h : ∀ e ∈ evs, e.addr = a) : evsOf a evs = evs := by
  unfold evsOf
  rw [List.filter_eq_self]
  intro e he; simpa using h e he

theorem evsOf_none {a b : Nat} {evs : List SEvent} (h : ∀ e ∈ evs, e.addr = b) (hab : a ≠ b) : evsOf a evs = [] := by
  unfold evsOf
  rw [List.filter_eq_nil_iff]
  intro e he
  have := h e he
  simp only [decide_eq_true_eq]
  exact fun e' => hab (e'.symm.trans this)

theorem Server.phaseOf_some {s : Server H} {a : Nat} {c : RClient H} (h : s.find a = some c) :
    s.phaseOf a = c.state.phase := by
  unfold Server.phaseOf; rw [h]

theorem Server.phaseOf_none {s : Server H} {a : Nat} (h : s.find a = none) : s.phaseOf a = .idle := by
  unfold Server.phaseOf; rw [h]

theorem Server.phaseOf_congr {s s' : Server H} (h : s'.clients = s.clients) (a : Nat) :
    s'.phaseOf a = s.phaseOf a := by
  unfold Server.phaseOf Server.find; rw [h]

/-- Transition relation: from `s`, emitting `evs`, to `s'`. -/
structure STr (s : Server H) (evs : List SEvent) (s' : Server H) : Prop where
  wf : s'.WF
  cfg : s'.cfg = s.cfg
  timeBase : s'.timeBase = s.timeBase
  events : s'.eventsOut = s.eventsOut ++ evs
  mon : ∀ a, (s.phaseOf a).run (evsOf a evs) = some (s'.phaseOf a)

theorem STr.refl {s : Server H} (hw : s.WF) : STr s [] s :=
  ⟨hw, rfl, rfl, by simp, fun _ => rfl⟩

theorem STr.trans {s s1 s2 : Server H} {e1 e2 : List SEvent} (h1 : STr s e1 s1) (h2 : STr s1 e2 s2) :
    STr s (e1 ++ e2) s2 :=
  ⟨h2.wf, h2.cfg.trans h1.cfg, h2.timeBase.trans h1.timeBase,
   by rw [h2.events, h1.events, List.append_assoc],
   fun a => by rw [evsOf_append, SPhase.run_append, h1.mon a]; exact h2.mon a⟩

/-- Events that all concern one address, phases of the other addresses unchanged. -/
theorem STr.local {s s' : Server H} {evs : List SEvent} (addr : Nat) (hw' : s'.WF)
    (hcfg : s'.cfg = s.cfg) (htb : s'.timeBase = s.timeBase) (hev : s'.eventsOut = s.eventsOut ++ evs)
    (hall : ∀ e ∈ evs, e.addr = addr) (hother : ∀ a, a ≠ addr → s'.phaseOf a = s.phaseOf a)
    (hrun : (s.phaseOf addr).run evs = some (s'.phaseOf addr)) : STr s evs s' := by
  refine ⟨hw', hcfg, htb, hev, fun a => ?_⟩
  by_cases ha : a = addr
  · subst ha; rw [evsOf_all hall]; exact hrun
  · rw [evsOf_none hall ha, hother a ha]; rfl

/-- Nothing that matters changed (timers, rng, the `active` list growing, …), no event. -/
theorem STr.of_same {s s' : Server H} (hw : s.WF) (h1 : s'.clients = s.clients) (h2 : s'.detached = s.detached)
    (h3 : s'.nextCid = s.nextCid) (h4 : ∀ x ∈ s.active, x ∈ s'.active)
    (h5 : s'.cfg = s.cfg) (h6 : s'.timeBase = s.timeBase) (h7 : s'.eventsOut = s.eventsOut) : STr s [] s' :=
  ⟨hw.congr h1 h2 h3 h4, h5, h6, by simp [h7], fun a => by rw [Server.phaseOf_congr h1]; rfl⟩

/-- An `error` event for an address that is `idle`, nothing else changed (a refused SYN). -/
theorem STr.of_error_idle {s s' : Server H} (hw : s.WF) (addr : Nat) (ev : ErrorType)
    (hph : s.phaseOf addr = .idle)
    (h1 : s'.clients = s.clients) (h2 : s'.detached = s.detached)
    (h3 : s'.nextCid = s.nextCid) (h4 : ∀ x ∈ s.active, x ∈ s'.active)
    (h5 : s'.cfg = s.cfg) (h6 : s'.timeBase = s.timeBase)
    (h7 : s'.eventsOut = s.eventsOut ++ [SEvent.error addr ev]) : STr s [SEvent.error addr ev] s' := by
  refine STr.local addr (hw.congr h1 h2 h3 h4) h5 h6 h7 (by simp [SEvent.addr])
    (fun a _ => Server.phaseOf_congr h1 a) ?_
  rw [Server.phaseOf_congr h1, hph]; rfl

/-- The entry `c` is replaced by `c'` (same identity and address) while `evs`, all about that address,
are emitted; the monitor accepts them from the phase of `c` to the phase of `c'`. -/
theorem STr.of_put {s s' : Server H} (hw : s.WF) {c c' : RClient H} (hc : c ∈ s.clients)
    (hcid : c'.cid = c.cid) (hadr : c'.address = c.address)
    (evs : List SEvent) (hall : ∀ e ∈ evs, e.addr = c.address)
    (hrun : c.state.phase.run evs = some c'.state.phase)
    (h1 : s'.clients = updCid s.clients c') (h2 : s'.detached = s.detached) (h3 : s'.nextCid = s.nextCid)
    (h4 : ∀ x ∈ s.active, x ∈ s'.active) (hact : c'.state.isActive = true → c'.cid ∈ s'.active)
    (h5 : s'.cfg = s.cfg) (h6 : s'.timeBase = s.timeBase) (h7 : s'.eventsOut = s.eventsOut ++ evs) :
    STr s evs s' := by
  have hfind : ∀ a, s'.find a = if a = c.address then some c' else s.find a := fun a => by
    rw [Server.find_of_clients h1]
    exact findA_updCid hw.addr hw.cidClients hc hcid hadr a
  refine STr.local c.address (hw.of_updCid hc hcid hadr h1 h2 h3 h4 hact) h5 h6 h7 hall ?_ ?_
  · intro a ha
    unfold Server.phaseOf
    rw [hfind a, if_neg ha]
  · rw [Server.phaseOf_some (Server.find_of_mem hw hc),
      Server.phaseOf_some (c := c') (by rw [hfind, if_pos rfl])]
    exact hrun

/-- The entry `c` is removed from the map (becoming a detached `fin` object) while `evs`, all about its
address, are emitted; the monitor accepts them from the phase of `c` to `idle`. -/
theorem STr.of_finish {s s' : Server H} (hw : s.WF) {c : RClient H} (hc : c ∈ s.clients)
    (evs : List SEvent) (hall : ∀ e ∈ evs, e.addr = c.address)
    (hrun : c.state.phase.run evs = some .idle)
    (h1 : s'.clients = s.clients.filter (·.address ≠ c.address))
    (h2 : s'.detached = { c with state := .fin } :: s.detached) (h3 : s'.nextCid = s.nextCid)
    (h4 : ∀ x ∈ s.active, x ∈ s'.active)
    (h5 : s'.cfg = s.cfg) (h6 : s'.timeBase = s.timeBase) (h7 : s'.eventsOut = s.eventsOut ++ evs) :
    STr s evs s' := by
  have hfind : ∀ a, s'.find a = if a = c.address then none else s.find a := fun a => by
    rw [Server.find_of_clients h1]
    exact findA_filter s.clients c.address a
  refine STr.local c.address (hw.of_filter hc h1 h2 h3 h4) h5 h6 h7 hall ?_ ?_
  · intro a ha
    unfold Server.phaseOf
    rw [hfind a, if_neg ha]
  · rw [Server.phaseOf_some (Server.find_of_mem hw hc),
      Server.phaseOf_none (by rw [hfind, if_pos rfl])]
    exact hrun

/-- A new non-connected entry is inserted at a free address, no event. -/
theorem STr.of_append {s s' : Server H} (hw : s.WF) {c : RClient H} (hfree : s.find c.address = none)
    (hcc : c.cid = s.nextCid) (hna : c.state.isActive = false) (hph : c.state.phase = .idle)
    (h1 : s'.clients = s.clients ++ [c]) (h2 : s'.detached = s.detached) (h3 : s'.nextCid = s.nextCid + 1)
    (h4 : ∀ x ∈ s.active, x ∈ s'.active)
    (h5 : s'.cfg = s.cfg) (h6 : s'.timeBase = s.timeBase) (h7 : s'.eventsOut = s.eventsOut) :
    STr s [] s' := by
  have hfind : ∀ a, s'.find a = (s.find a).or (if c.address = a then some c else none) := fun a => by
    rw [Server.find_of_clients h1]
    exact findA_append s.clients c a
  refine STr.local c.address (hw.of_append hfree hcc hna h1 h2 h3 h4) h5 h6 (by simp [h7]) (by simp) ?_ ?_
  · intro a ha
    unfold Server.phaseOf
    rw [hfind a, if_neg (fun e => ha e.symm)]
    simp
  · rw [Server.phaseOf_none hfree, Server.phaseOf_some (c := c) (by rw [hfind, hfree, if_pos rfl]; rfl), hph]
    rfl

end Uflow.Endpoint
