import Uflow.Lemmas.EpPeerConn2b

/-!
C01 / C09 (client model): runs that start `pending` — the accepted SYN-ACK, the half connection it creates
from the queued sends, and the exact call trace from there.
-/

namespace Uflow.Endpoint

open Uflow.Gen Uflow.Codec Uflow.HalfConn

variable {H : Type}

/-- The client right after accepting the SYN-ACK `(ln, n, r, _, a)` at step time `nowNs` with queued sends `sq`. -/
def Client.activated (hc : HC H) (c : Client H) (ln n r a nowNs : Nat) (sq : List SendRec) : Client H :=
  { c with eventsOut := c.eventsOut ++ [CEvent.connect],
           state := .active ln (hcStart hc (hcConfig c.ep ln n r a) nowNs sq) c.ep.activeTimeoutMs none }

/-- A SYN-ACK handled while `pending`: accepted iff the nonce matches. -/
theorem Client.handleFrame_synAck_pending (hc : HC H) (c c' : Client H) (ln : Nat) (req : List Nat) (rt rc : Nat)
    (sq : List SendRec) (na n r p a nowMs nowNs : Nat) (out : List (List Nat))
    (hs : c.state = .pending ln req rt rc sq)
    (h : c.handleFrame hc (.synAck na n r p a) nowMs nowNs = .ok (c', out)) :
    (na = ln ∧ c' = c.activated hc ln n r a nowNs sq ∧ out = [encode (.hsAck n)]) ∨ (na ≠ ln ∧ c' = c ∧ out = []) := by
  rw [Client.handleFrame_pending hc c _ nowMs nowNs ln req rt rc sq hs] at h
  simp only at h
  split at h
  · next e => cases h; exact Or.inl ⟨e, rfl, rfl⟩
  · next e => cases h; exact Or.inr ⟨e, rfl, rfl⟩

/-- The datagram loop from `pending`: nothing happens, or the handshake is refused, or a SYN-ACK is accepted. -/
theorem Client.frames_pending (hc : HC H) (nowMs nowNs : Nat) : ∀ (arr : List (List Nat)) (c : Client H)
    (s : List (List Nat)) (c' : Client H) (s' : List (List Nat)) (ln : Nat) (req : List Nat) (rt rc : Nat) (sq : List SendRec),
    c.state = .pending ln req rt rc sq → arr.foldlM (Client.frameStep hc nowMs nowNs) (c, s) = .ok (c', s') →
    c' = c ∨ (c'.state = .fin ∧ ∃ e, c'.eventsOut = c.eventsOut ++ [CEvent.error e]) ∨
    ∃ pre b post n r p a cs, arr = pre ++ b :: post ∧ decodesTo b (.synAck ln n r p a) ∧
      CP2 hc (c.activated hc ln n r a nowNs sq) c' cs (trafficOf post) [] := by
  intro arr
  induction arr with
  | nil =>
    intro c s c' s' ln req rt rc sq hs h
    simp only [List.foldlM_nil, pure, Except.pure] at h; cases h
    exact Or.inl rfl
  | cons b bs ih =>
    intro c s c' s' ln req rt rc sq hs h
    simp only [List.foldlM_cons, bind, Except.bind] at h
    split at h
    · cases h
    · next acc hacc =>
      obtain ⟨c1, s1⟩ := acc
      have lift : ∀ s1, bs.foldlM (Client.frameStep hc nowMs nowNs) (c, s1) = .ok (c', s') →
          c' = c ∨ (c'.state = .fin ∧ ∃ e, c'.eventsOut = c.eventsOut ++ [CEvent.error e]) ∨
          ∃ pre b' post n r p a cs, b :: bs = pre ++ b' :: post ∧ decodesTo b' (.synAck ln n r p a) ∧
            CP2 hc (c.activated hc ln n r a nowNs sq) c' cs (trafficOf post) [] := by
        intro s1 h
        rcases ih c s1 c' s' ln req rt rc sq hs h with h | h | ⟨pre, b', post, n, r, p, a, cs, e, hd, t⟩
        · exact Or.inl h
        · exact Or.inr (Or.inl h)
        · exact Or.inr (Or.inr ⟨b :: pre, b', post, n, r, p, a, cs, by rw [e]; rfl, hd, t⟩)
      unfold Client.frameStep at hacc
      split at hacc
      · cases hacc; exact lift _ h
      · next f hd =>
        split at hacc
        · cases hacc
        · next c2 o2 hf =>
          cases hacc
          cases f with
          | synAck na n r p a =>
            rcases Client.handleFrame_synAck_pending hc c c1 ln req rt rc sq na n r p a nowMs nowNs o2 hs hf with
              ⟨rfl, rfl, -⟩ | ⟨-, rfl, rfl⟩
            · obtain ⟨cs, t⟩ := Client.frames_CP2 hc nowMs nowNs bs _ _ c' s' rfl h
              exact Or.inr (Or.inr ⟨[], b, bs, n, r, p, a, cs, rfl, hd, t⟩)
            · exact lift _ h
          | hsError na e =>
            rw [Client.handleFrame_pending hc c _ nowMs nowNs ln req rt rc sq hs] at hf
            simp only at hf
            split at hf
            · cases hf
              have := Client.frames_terminal hc _ c' nowMs nowNs bs _ s' (Or.inl rfl) h
              subst this
              exact Or.inr (Or.inl ⟨rfl, _, rfl⟩)
            · cases hf; exact lift _ h
          | _ =>
            rw [Client.handleFrame_pending hc c _ nowMs nowNs ln req rt rc sq hs] at hf
            cases hf; exact lift _ h

/-- One `step` from `pending` (empty buffer). -/
theorem Client.step_pending_trace (hc : HC H) (c c' : Client H) (nowNs : Nat) (arr sent : List (List Nat))
    (evs : List CEvent) (ln : Nat) (req : List Nat) (rt rc : Nat) (sq : List SendRec)
    (hs : c.state = .pending ln req rt rc sq) (he : c.eventsOut = [])
    (h : c.step hc nowNs arr = .ok (c', sent, evs)) :
    c'.eventsOut = [] ∧ c'.ep = c.ep ∧
    ((∃ rt' rc', c'.state = .pending ln req rt' rc' sq ∧ evs = []) ∨
     (c'.state = .fin ∧ ∃ e, evs = [CEvent.error e]) ∨
     ∃ pre b post n r p a cs new t0, arr = pre ++ b :: post ∧ decodesTo b (.synAck ln n r p a) ∧
       evs = CEvent.connect :: new ∧
       PT2 hc (.active ln (hcStart hc (hcConfig c.ep ln n r a) nowNs sq) t0 none) c'.state new cs (trafficOf post) []) := by
  obtain ⟨c1, s1, c2, s2, c4, s4, h1, h2, h4, rfl, -, rfl⟩ := Client.step_phases hc c c' nowNs arr sent evs h
  have hna : ∀ ln hh t sig, c.state ≠ .active ln hh t sig := by intro _ _ _ _ e; rw [hs] at e; cases e
  rw [Client.flush_not_active hc c hna] at h1
  cases h1
  have hep : c4.ep = c.ep := by
    have := Client.step_CTr hc c _ nowNs arr sent _ h
    obtain ⟨c4', t, -, e⟩ := this
    have e2 := congrArg Client.ep e
    exact Eq.trans e2 t.1
  refine ⟨rfl, hep, ?_⟩
  rcases Client.frames_pending hc _ nowNs arr c [] c2 s2 ln req rt rc sq hs h2 with rfl | ⟨hf, e, hev⟩ |
      ⟨pre, b, post, n, r, p, a, cs, harr, hd, t⟩
  · rw [Client.handleEvents_pending c2 _ ln req rt rc sq hs] at h4
    split at h4
    · split at h4
      · rw [Client.stepPhase_not_active hc _ _ nowNs (by intro _ _ _ _ e; cases e)] at h4
        cases h4; exact Or.inl ⟨_, _, rfl, he⟩
      · rw [Client.stepPhase_not_active hc _ _ nowNs (by intro _ _ _ _ e; cases e)] at h4
        cases h4; exact Or.inr (Or.inl ⟨rfl, .timeout, by simp [he]⟩)
    · rw [Client.stepPhase_not_active hc _ _ nowNs hna] at h4
      cases h4; exact Or.inl ⟨_, _, hs, he⟩
  · rw [Client.handleEvents_fin c2 _ hf,
      Client.stepPhase_not_active hc _ _ nowNs (by intro _ _ _ _ e; rw [hf] at e; cases e)] at h4
    cases h4
    exact Or.inr (Or.inl ⟨hf, e, by rw [hev, he]; rfl⟩)
  · obtain ⟨cs3, t3⟩ := Client.tail_CP2 hc c2 c4 _ nowNs s4 t.np h4
    obtain ⟨new, e, tt⟩ := t.trans t3
    refine Or.inr (Or.inr ⟨pre, b, post, n, r, p, a, cs ++ cs3, new, c.ep.activeTimeoutMs, harr, hd, ?_, by simpa [Client.activated] using tt⟩)
    rw [e]; simp [Client.activated, he]

/-- Whole runs from `pending` (empty buffer). -/
theorem Client.run_pending_trace (hc : HC H) (ops : List COp) : ∀ (c c' : Client H) (sent : List (List Nat))
    (evs : List CEvent) (ln : Nat) (req : List Nat) (rt rc : Nat) (sq : List SendRec),
    c.state = .pending ln req rt rc sq → c.eventsOut = [] → Client.run hc c ops = .ok (c', sent, evs) →
    c'.eventsOut = [] ∧
    ((∃ rt' rc', c'.state = .pending ln req rt' rc' (sq ++ sendsOfOps ops) ∧ evs = []) ∨
     (c'.state = .fin ∧ CEvent.connect ∉ evs ∧ recvOf evs = []) ∨
     ∃ ops1 nowNs pre b post ops2 n r p a cs new t0,
       ops = ops1 ++ COp.step nowNs (pre ++ b :: post) :: ops2 ∧ decodesTo b (.synAck ln n r p a) ∧
       evs = CEvent.connect :: new ∧
       PT2 hc (.active ln (hcStart hc (hcConfig c.ep ln n r a) nowNs (sq ++ sendsOfOps ops1)) t0 none) c'.state new cs
         (trafficOf post ++ trafficOfOps ops2) (sendsOfOps ops2)) := by
  induction ops with
  | nil =>
    intro c c' sent evs ln req rt rc sq hs he h
    cases h
    exact ⟨he, Or.inl ⟨rt, rc, by simpa [sendsOfOps] using hs, rfl⟩⟩
  | cons op ops ih =>
    intro c c' sent evs ln req rt rc sq hs he h
    simp only [Client.run] at h
    split at h
    · cases h
    · next c1 s1 e1 h1 =>
      split at h
      · cases h
      · next c2 s2 e2 h2 =>
        cases h
        -- the three outcomes of the first call
        have first : c1.eventsOut = [] ∧ c1.ep = c.ep ∧
            ((∃ rt' rc', c1.state = .pending ln req rt' rc' (sq ++ sendsOfOps [op]) ∧ e1 = []) ∨
             (c1.state = .fin ∧ (e1 = [] ∨ ∃ e, e1 = [CEvent.error e])) ∨
             ∃ nowNs pre b post n r p a cs new t0, op = COp.step nowNs (pre ++ b :: post) ∧
               decodesTo b (.synAck ln n r p a) ∧ e1 = CEvent.connect :: new ∧
               PT2 hc (.active ln (hcStart hc (hcConfig c.ep ln n r a) nowNs sq) t0 none) c1.state new cs (trafficOf post) []) := by
          cases op with
          | step n arr =>
            obtain ⟨x1, x2, hcase⟩ := Client.step_pending_trace hc c c1 n arr s1 e1 ln req rt rc sq hs he h1
            refine ⟨x1, x2, ?_⟩
            rcases hcase with ⟨rt', rc', y1, y2⟩ | ⟨y1, e, y2⟩ | ⟨pre, b, post, nn, r, p, a, cs, new, t0, y1, y2, y3, y4⟩
            · exact Or.inl ⟨rt', rc', by simpa [sendsOfOps] using y1, y2⟩
            · exact Or.inr (Or.inl ⟨y1, Or.inr ⟨e, y2⟩⟩)
            · exact Or.inr (Or.inr ⟨n, pre, b, post, nn, r, p, a, cs, new, t0, by rw [y1], y2, y3, y4⟩)
          | send d ch m =>
            cases h1
            refine ⟨by simp [Client.send, hs, he], by simp [Client.send, hs], Or.inl ⟨rt, rc, ?_, rfl⟩⟩
            simp [Client.send, hs, sendsOfOps]
          | disconnect m =>
            cases h1
            exact ⟨by simp [Client.disconnect, hs, he], by simp [Client.disconnect, hs],
              Or.inr (Or.inl ⟨by simp [Client.disconnect, hs], Or.inl rfl⟩)⟩
          | flush =>
            simp only [Client.apply] at h1
            rw [Client.flush_not_active hc c (by intro _ _ _ _ e; rw [hs] at e; cases e)] at h1
            cases h1
            exact ⟨he, rfl, Or.inl ⟨rt, rc, by simpa [sendsOfOps] using hs, rfl⟩⟩
        obtain ⟨he1, hep1, hcase⟩ := first
        rcases hcase with ⟨rt', rc', hs1, rfl⟩ | ⟨hf1, hev1⟩ |
            ⟨nowNs, pre, b, post, n, r, p, a, cs, new, t0, rfl, hd, rfl, t⟩
        · obtain ⟨he2, hcase2⟩ := ih c1 c' s2 e2 ln req rt' rc' _ hs1 he1 h2
          refine ⟨he2, ?_⟩
          rcases hcase2 with ⟨rt2, rc2, z1, z2⟩ | z | ⟨ops1, nowNs, pre, b, post, ops2, n, r, p, a, cs, new, t0, z1, z2, z3, z4⟩
          · refine Or.inl ⟨rt2, rc2, ?_, by simpa using z2⟩
            rw [sendsOfOps_cons op ops, ← List.append_assoc]; exact z1
          · exact Or.inr (Or.inl (by simpa using z))
          · refine Or.inr (Or.inr ⟨op :: ops1, nowNs, pre, b, post, ops2, n, r, p, a, cs, new, t0, by rw [z1]; rfl, z2,
              by simpa using z3, ?_⟩)
            rw [sendsOfOps_cons op ops1, ← List.append_assoc, ← hep1]; exact z4
        · obtain ⟨-, he2, hev2, -, hfin⟩ := Client.run_terminal hc ops c1 c' s2 e2 (Or.inl hf1) he1 h2
          refine ⟨he2, Or.inr (Or.inl ⟨(hfin hf1).1, ?_, ?_⟩)⟩ <;> rw [hev2] <;>
            rcases hev1 with rfl | ⟨e, rfl⟩ <;> simp [recvOf]
        · obtain ⟨he2, cs2, t2⟩ := Client.run_PT2 hc ops c1 c' s2 e2 t.tr.np he1 h2
          refine ⟨he2, Or.inr (Or.inr ⟨[], nowNs, pre, b, post, ops, n, r, p, a, cs ++ cs2, new ++ e2, t0, rfl, hd, rfl, ?_⟩)⟩
          simpa [sendsOfOps] using t.trans t2

end Uflow.Endpoint
