import Uflow.Lemmas.ModesFlush
import Uflow.Lemmas.CreditRun

/-!
C12 over an arbitrary interleaving of the operations of a half connection: the wire trace of an
event list and what holds for it (`GSpec`).
-/

namespace Uflow.Modes

open Uflow Uflow.Gen Uflow.Codec Uflow.HalfConn Uflow.Wire Uflow.Heap Uflow.Credit Uflow.HcFrame
open Uflow.PSend (Dead UidInv NoExp)
open Uflow.Rate (FloatOps)

variable {F : Type}

/-- The global invariant of the transmit side. -/
def GInv (s : State F) : Prop := QInv s ∧ TInv s

theorem ginv_init (ops : FloatOps F) (c : Config) (now : Nat) (rng : Rng) :
    GInv (HalfConn.init ops c now rng) := by
  refine ⟨⟨?_, ?_, ?_, ?_⟩, ⟨PSend.uidInv_init _ _ _, ?_, ?_⟩⟩
  · intro pe hpe; cases hpe
  · intro r hr; simp [HalfConn.init] at hr
  · simp [HalfConn.init]
  · rintro u fid ⟨pe, hpe, _⟩; cases hpe
  · intro pe hpe; cases hpe
  · intro r hr; simp [HalfConn.init] at hr

/-- One event with the fragments it put on the wire (only `flush` transmits). -/
def execT (ops : FloatOps F) (s : State F) (ev : Ev) : R (State F × List Push) :=
  match ev with
  | .flush => (flushT s).map fun r => (r.1, r.2.2)
  | ev => (exec ops s ev).map fun r => (r.1, [])

/-- The state component of `execT` is that of `exec`. -/
theorem execT_erase (ops : FloatOps F) (s : State F) (ev : Ev) :
    (execT ops s ev).map (·.1) = (exec ops s ev).map (·.1) := by
  cases ev with
  | flush =>
    simp only [execT, exec]
    rw [← flushT_erase]
    generalize flushT s = r
    cases r <;> rfl
  | _ => simp only [execT]; generalize exec ops s _ = r; cases r <;> rfl

/-- An event list with its wire trace. -/
def runT (ops : FloatOps F) : State F → List Ev → R (State F × List Push)
  | s, [] => .ok (s, [])
  | s, ev :: rest =>
    match execT ops s ev with
    | .error t => .error t
    | .ok (s1, tr1) =>
      match runT ops s1 rest with
      | .error t => .error t
      | .ok (s2, tr2) => .ok (s2, tr1 ++ tr2)

/-- What holds for the wire trace `add` of an arbitrary event list from `s` to `s'`. -/
structure GSpec (s : State F) (add : List Push) (s' : State F) : Prop where
  inv : GInv s'
  mono : s.ps.nextUid ≤ s'.ps.nextUid
  absent : ∀ u fid, u < s.ps.nextUid → Absent s u fid →
    Absent s' u fid ∧ ∀ x ∈ add, ¬ (x.uid = u ∧ x.fid = fid)
  once : ∀ x ∈ add, x.resend = false → Absent s' x.uid x.fid ∧ x.uid < s'.ps.nextUid
  count : ∀ u fid, countOnce add u fid ≤ 1
  dead : ∀ u fid, Dead s.ps u fid → Dead s'.ps u fid
  notDead : ∀ x ∈ add, ¬ Dead s.ps x.uid x.fid
  keep : ∀ u fid, InResend s u fid → InResend s' u fid ∨ Dead s'.ps u fid
  sched : ∀ x ∈ add, x.resend = true → InResend s' x.uid x.fid ∨ Dead s'.ps x.uid x.fid
  flag : ∀ x ∈ add, x.fromResend = true → x.resend = true
  /-- fragment 0 of a TimeSensitive packet is only pushed in the flush it was queued for -/
  ts0 : ∀ x ∈ add, x.fromResend = false → x.fid = 0 → x.expiry = none ∨ x.expiry = some x.flushId
  /-- a fragment pushed with `resend = true` does not belong to a TimeSensitive packet -/
  tsflag : ∀ x ∈ add, x.resend = true → x.expiry = none

theorem GSpec.refl (s : State F) (h : GInv s) : GSpec s [] s where
  inv := h
  mono := Nat.le_refl _
  absent := fun _ _ _ ha => ⟨ha, fun _ hx => by cases hx⟩
  once := fun _ hx => by cases hx
  count := fun _ _ => by simp [countOnce]
  dead := fun _ _ hd => hd
  notDead := fun _ hx => by cases hx
  keep := fun _ _ h1 => .inl h1
  sched := fun _ hx => by cases hx
  flag := fun _ hx => by cases hx
  ts0 := fun _ hx => by cases hx
  tsflag := fun _ hx => by cases hx

theorem GSpec.trans {s s1 s2 : State F} {a1 a2 : List Push} (h1 : GSpec s a1 s1)
    (h2 : GSpec s1 a2 s2) : GSpec s (a1 ++ a2) s2 where
  inv := h2.inv
  mono := Nat.le_trans h1.mono h2.mono
  absent := by
    intro u fid hu ha
    obtain ⟨ha1, hn1⟩ := h1.absent u fid hu ha
    obtain ⟨ha2, hn2⟩ := h2.absent u fid (Nat.lt_of_lt_of_le hu h1.mono) ha1
    refine ⟨ha2, ?_⟩
    intro x hx
    rcases List.mem_append.mp hx with hx | hx
    · exact hn1 x hx
    · exact hn2 x hx
  once := by
    intro x hx hr
    rcases List.mem_append.mp hx with hx | hx
    · obtain ⟨ha1, hu1⟩ := h1.once x hx hr
      exact ⟨(h2.absent _ _ hu1 ha1).1, Nat.lt_of_lt_of_le hu1 h2.mono⟩
    · exact h2.once x hx hr
  count := by
    intro u fid
    rw [countOnce_append]
    have c1 := h1.count u fid
    have c2 := h2.count u fid
    by_cases hz : countOnce a1 u fid = 0
    · omega
    · obtain ⟨x, hx, rfl, rfl, hr⟩ := countOnce_pos (Nat.pos_of_ne_zero hz)
      obtain ⟨ha1, hu1⟩ := h1.once x hx hr
      have := countOnce_zero (h2.absent _ _ hu1 ha1).2
      omega
  dead := fun u fid hd => h2.dead u fid (h1.dead u fid hd)
  notDead := by
    intro x hx hd
    rcases List.mem_append.mp hx with hx | hx
    · exact h1.notDead x hx hd
    · exact h2.notDead x hx (h1.dead _ _ hd)
  keep := by
    intro u fid hr
    rcases h1.keep u fid hr with hr1 | hd1
    · exact h2.keep u fid hr1
    · exact .inr (h2.dead u fid hd1)
  sched := by
    intro x hx hr
    rcases List.mem_append.mp hx with hx | hx
    · rcases h1.sched x hx hr with hr1 | hd1
      · exact h2.keep _ _ hr1
      · exact .inr (h2.dead _ _ hd1)
    · exact h2.sched x hx hr
  flag := by
    intro x hx
    rcases List.mem_append.mp hx with hx | hx
    · exact h1.flag x hx
    · exact h2.flag x hx
  ts0 := by
    intro x hx
    rcases List.mem_append.mp hx with hx | hx
    · exact h1.ts0 x hx
    · exact h2.ts0 x hx
  tsflag := by
    intro x hx
    rcases List.mem_append.mp hx with hx | hx
    · exact h1.tsflag x hx
    · exact h2.tsflag x hx

/-- With unique identities, a skipped fragment of an issued packet is dead. -/
theorem dead_of_skipped (ps : PSend.State) (hu : UidInv ps) (u fid : Nat) (hlt : u < ps.nextUid)
    (hs : Skipped ps u fid) : Dead ps u fid := by
  rcases hs with hn | ⟨p, hp, ha⟩
  · exact PSend.dead_of_findPacket_none ps u fid hlt hn
  · exact PSend.dead_of_acked ps hu u fid p hp ha

theorem Spec.toGSpec {s s' : State F} {add : List Push} (hg : GInv s) (h : Spec s add s') :
    GSpec s add s' where
  inv := ⟨h.inv, h.tinv hg.2⟩
  mono := h.mono
  absent := h.absent
  once := h.once
  count := h.count
  dead := h.dead
  notDead := by
    intro x hx hd
    rcases h.live x hx with hl | hl
    · exact hl (skipped_of_dead _ _ _ hd)
    · have := hd.1; omega
  keep := by
    intro u fid hr
    by_cases hs : Skipped s.ps u fid
    · obtain ⟨r, hr', he, _⟩ := hr
      have hlt : u < s.ps.nextUid := by rw [← he]; exact hg.1.res_lt r hr'
      exact .inr (h.dead u fid (dead_of_skipped _ hg.2.uids u fid hlt hs))
    · exact .inl (h.keep u fid hr hs).1
  sched := fun x hx hr => .inl (h.sched x hx hr).1
  flag := h.flag
  ts0 := by
    intro x hx hf h0
    rw [h.fidc x hx]
    exact h.ts0 x hx hf h0
  tsflag := h.tsflag hg.2

theorem ackSteps_facts {ps ps' : PSend.State} (h : AckSteps ps ps') :
    ps'.nextUid = ps.nextUid ∧ (UidInv ps → UidInv ps') ∧
    (∀ u fid, Dead ps u fid → Dead ps' u fid) ∧
    (UidInv ps → ∀ u, NoExp ps u → NoExp ps' u) := by
  induction h with
  | refl => exact ⟨rfl, fun h => h, fun _ _ h => h, fun _ _ h => h⟩
  | frag uid fid _ ih =>
    exact ⟨ih.1, fun h => PSend.uidInv_ackFragment _ _ _ (ih.2.1 h),
      fun u f hd => PSend.dead_ackFragment _ _ _ _ _ (ih.2.2.1 u f hd),
      fun hu u hn => PSend.noExp_ackFragment _ _ _ _ (ih.2.2.2 hu u hn)⟩
  | ack rb _ hack ih =>
    exact ⟨(PSend.acknowledge_suffix _ _ _ hack).2.1.trans ih.1,
      fun h => PSend.uidInv_acknowledge _ _ _ hack (ih.2.1 h),
      fun u f hd => PSend.dead_acknowledge _ _ _ _ _ hack (ih.2.2.1 u f hd),
      fun hu u hn => PSend.noExp_acknowledge _ _ _ _ (ih.2.1 hu) hack (ih.2.2.2 hu u hn)⟩

/-- An acknowledgement frame: the queues are untouched, fragments may die. -/
theorem gspec_ack (s s' : State F) (hg : GInv s) (hq : QSame s s') (ha : AckSteps s.ps s'.ps) :
    GSpec s [] s' := by
  obtain ⟨hn, hu, hd, hne⟩ := ackSteps_facts ha
  have hpend := inPending_congr hq.1
  have hres := inResend_congr hq.2.1
  have hT : TInv s' := by
    refine ⟨hu hg.2.uids, ?_, ?_⟩
    · intro pe hpe hr
      rw [hq.1] at hpe
      exact hne hg.2.uids _ (hg.2.pend_flag pe hpe hr)
    · intro r hr
      rw [hq.2.1] at hr
      exact hne hg.2.uids _ (hg.2.res_noexp r hr)
  refine ⟨⟨⟨?_, ?_, ?_, ?_⟩, hT⟩, Nat.le_of_eq hn.symm, ?_, ?_, ?_, hd, ?_, ?_, ?_, ?_, ?_, ?_⟩
  · intro pe hpe; rw [hn]; rw [hq.1] at hpe; exact hg.1.pend_lt pe hpe
  · intro r hr; rw [hn]; rw [hq.2.1] at hr; exact hg.1.res_lt r hr
  · rw [hq.1]; exact hg.1.pend_nodup
  · intro u fid hp hr
    exact hg.1.disj u fid ((hpend u fid).mp hp) ((hres u fid).mp hr)
  · intro u fid _ ha'
    exact ⟨⟨fun hp => ha'.1 ((hpend u fid).mp hp), fun hr => ha'.2 ((hres u fid).mp hr)⟩,
      fun _ hx => by cases hx⟩
  · intro x hx; cases hx
  · intro u fid; simp [countOnce]
  · intro x hx; cases hx
  · intro u fid hr; exact .inl ((hres u fid).mpr hr)
  · intro x hx; cases hx
  · intro x hx; cases hx
  · intro x hx; cases hx
  · intro x hx; cases hx

/-- `GSpec` only looks at the sender and the two queues of the final state. -/
theorem GSpec.congr_right {s s1 s2 : State F} {add : List Push} (h : GSpec s add s1)
    (hps : s2.ps = s1.ps) (hpe : s2.pending = s1.pending) (hre : s2.resend = s1.resend) :
    GSpec s add s2 := by
  have hpend := inPending_congr (s := s1) (s' := s2) hpe
  have hres := inResend_congr (s := s1) (s' := s2) hre
  have habs : ∀ u fid, Absent s1 u fid → Absent s2 u fid := fun u fid ha =>
    ⟨fun hp => ha.1 ((hpend u fid).mp hp), fun hr => ha.2 ((hres u fid).mp hr)⟩
  refine ⟨⟨⟨?_, ?_, ?_, ?_⟩, ⟨?_, ?_, ?_⟩⟩, by rw [hps]; exact h.mono, ?_, ?_, h.count, ?_, h.notDead,
    ?_, ?_, h.flag, h.ts0, h.tsflag⟩
  · intro pe hpe'; rw [hps]; rw [hpe] at hpe'; exact h.inv.1.pend_lt pe hpe'
  · intro r hr; rw [hps]; rw [hre] at hr; exact h.inv.1.res_lt r hr
  · rw [hpe]; exact h.inv.1.pend_nodup
  · intro u fid hp hr
    exact h.inv.1.disj u fid ((hpend u fid).mp hp) ((hres u fid).mp hr)
  · rw [hps]; exact h.inv.2.uids
  · intro pe hpe' hr; rw [hps]; rw [hpe] at hpe'; exact h.inv.2.pend_flag pe hpe' hr
  · intro r hr; rw [hps]; rw [hre] at hr; exact h.inv.2.res_noexp r hr
  · intro u fid hu ha
    obtain ⟨h1, h2⟩ := h.absent u fid hu ha
    exact ⟨habs u fid h1, h2⟩
  · intro x hx hr
    obtain ⟨h1, h2⟩ := h.once x hx hr
    exact ⟨habs _ _ h1, by rw [hps]; exact h2⟩
  · intro u fid hd; rw [hps]; exact h.dead u fid hd
  · intro u fid hr
    rcases h.keep u fid hr with h1 | h1
    · exact .inl ((hres u fid).mpr h1)
    · exact .inr (by rw [hps]; exact h1)
  · intro x hx hr
    rcases h.sched x hx hr with h1 | h1
    · exact .inl ((hres _ _).mpr h1)
    · exact .inr (by rw [hps]; exact h1)

/-- Any event other than `flush` and an ack frame leaves the window, the identity counter and
both queues alone. -/
theorem gspec_quiet (s s' : State F) (hg : GInv s) (hpe : s'.pending = s.pending)
    (hre : s'.resend = s.resend) (hwin : s'.ps.win = s.ps.win)
    (hn : s'.ps.nextUid = s.ps.nextUid) : GSpec s [] s' := by
  -- the flush id may change (`step`): go through a copy of `s'` with the flush id of `s`
  have h1 := (spec_quiet s ({ s' with flushId := s.flushId }) hg.1 hwin hn hre rfl
    ⟨[], hpe.symm⟩).toGSpec hg
  exact h1.congr_right rfl rfl rfl

theorem execT_gspec (ops : FloatOps F) (s s' : State F) (ev : Ev) (tr : List Push) (hg : GInv s)
    (h : execT ops s ev = .ok (s', tr)) : GSpec s tr s' := by
  cases ev with
  | flush =>
    simp only [execT] at h
    generalize hv : flushT s = r at h
    cases r with
    | error t => cases h
    | ok v =>
      obtain ⟨a, b, c⟩ := v
      simp only [Except.map, Except.ok.injEq, Prod.mk.injEq] at h
      obtain ⟨rfl, rfl⟩ := h
      exact (flushT_spec s a b c hg.1 hv).toGSpec hg
  | step now =>
    simp only [execT, exec] at h
    generalize hs : HalfConn.step ops s now = r at h
    cases r with
    | error t => cases h
    | ok s1 =>
      simp only [Except.map, Except.ok.injEq, Prod.mk.injEq] at h
      obtain ⟨rfl, rfl⟩ := h
      obtain ⟨_, hp, hpe, hre, _⟩ := step_frame ops s s1 now hs
      exact gspec_quiet s s1 hg hpe hre (by rw [hp]) (by rw [hp])
  | send d c m =>
    simp only [execT, exec, Except.map, Except.ok.injEq, Prod.mk.injEq] at h
    obtain ⟨rfl, rfl⟩ := h
    exact gspec_quiet s _ hg rfl rfl rfl rfl
  | receive =>
    simp only [execT, exec] at h
    generalize hs : HalfConn.receive s = r at h
    cases r with
    | error t => cases h
    | ok v =>
      simp only [Except.map, Except.ok.injEq, Prod.mk.injEq] at h
      obtain ⟨rfl, rfl⟩ := h
      obtain ⟨hq, hp⟩ := receive_frame s v.1 v.2 hs
      exact gspec_quiet s _ hg hq.1 hq.2.1 (by rw [hp]) (by rw [hp])
  | dataFrame id nonce dgs =>
    simp only [execT, exec] at h
    generalize hs : handleDataFrame s id nonce dgs = r at h
    cases r with
    | error t => cases h
    | ok s1 =>
      simp only [Except.map, Except.ok.injEq, Prod.mk.injEq] at h
      obtain ⟨rfl, rfl⟩ := h
      obtain ⟨hq, hp⟩ := handleDataFrame_frame s s1 id nonce dgs hs
      exact gspec_quiet s _ hg hq.1 hq.2.1 (by rw [hp]) (by rw [hp])
  | syncFrame nf np =>
    simp only [execT, exec] at h
    generalize hs : handleSyncFrame s nf np = r at h
    cases r with
    | error t => cases h
    | ok s1 =>
      simp only [Except.map, Except.ok.injEq, Prod.mk.injEq] at h
      obtain ⟨rfl, rfl⟩ := h
      obtain ⟨hq, hp⟩ := handleSyncFrame_frame s s1 nf np hs
      exact gspec_quiet s _ hg hq.1 hq.2.1 (by rw [hp]) (by rw [hp])
  | ackFrame fb pb acks =>
    simp only [execT, exec] at h
    generalize hs : handleAckFrame s fb pb acks = r at h
    cases r with
    | error t => cases h
    | ok s1 =>
      simp only [Except.map, Except.ok.injEq, Prod.mk.injEq] at h
      obtain ⟨rfl, rfl⟩ := h
      obtain ⟨hq, ha⟩ := handleAckFrame_frame s s1 fb pb acks hs
      exact gspec_ack s s1 hg hq ha

theorem runT_gspec (ops : FloatOps F) (evs : List Ev) (s s' : State F) (tr : List Push)
    (hg : GInv s) (h : runT ops s evs = .ok (s', tr)) : GSpec s tr s' := by
  induction evs generalizing s tr with
  | nil =>
    simp only [runT, Except.ok.injEq, Prod.mk.injEq] at h
    obtain ⟨rfl, rfl⟩ := h
    exact GSpec.refl _ hg
  | cons ev rest ih =>
    simp only [runT] at h
    generalize h1 : execT ops s ev = r1 at h
    cases r1 with
    | error t => cases h
    | ok v =>
      obtain ⟨s1, tr1⟩ := v
      simp only at h
      have g1 := execT_gspec ops s s1 ev tr1 hg h1
      generalize h2 : runT ops s1 rest = r2 at h
      cases r2 with
      | error t => cases h
      | ok v2 =>
        obtain ⟨s2, tr2⟩ := v2
        simp only [Except.ok.injEq, Prod.mk.injEq] at h
        obtain ⟨rfl, rfl⟩ := h
        exact g1.trans (ih s1 tr2 g1.inv h2)

end Uflow.Modes
