import Uflow.Lemmas.EndpointClientStream

/-!
Client endpoint: what one API call does, by start state (terminal, closing, pending, active).
-/

namespace Uflow.Endpoint

open Uflow.Gen Uflow.Codec Uflow.HalfConn

variable {H : Type}

/-- Induction principle for the arrivals loop that remembers the datagrams consumed so far. -/
theorem Client.arrivalsPhase_induct' (hc : HC H) (nowMs nowNs : Nat)
    (P : List (List Nat) → Client H → List (List Nat) → Prop)
    (skip : ∀ pre b c s, P pre c s → decode (b.take MAX_FRAME_SIZE) = none → P (pre ++ [b]) c s)
    (step : ∀ pre b c s f c' out, P pre c s → decode (b.take MAX_FRAME_SIZE) = some f →
      c.handleFrame hc f nowMs nowNs = .ok (c', out) → P (pre ++ [b]) c' (s ++ out))
    (arrivals : List (List Nat)) (c c' : Client H) (s' : List (List Nat))
    (h0 : P [] c [])
    (h : c.arrivalsPhase hc nowMs nowNs arrivals = .ok (c', s')) : P arrivals c' s' := by
  have gen : ∀ (rest pre : List (List Nat)) (c : Client H) (s : List (List Nat)), P pre c s →
      rest.foldlM (Client.frameStep hc nowMs nowNs) (c, s) = .ok (c', s') → P (pre ++ rest) c' s' := by
    intro rest
    induction rest with
    | nil =>
      intro pre c s hp h
      simp only [List.foldlM_nil, pure, Except.pure] at h; cases h
      simpa using hp
    | cons b bs ih =>
      intro pre c s hp h
      simp only [List.foldlM_cons, bind, Except.bind] at h
      split at h
      · cases h
      · next acc hacc =>
        obtain ⟨c1, s1⟩ := acc
        have : P (pre ++ [b]) c1 s1 := by
          unfold Client.frameStep at hacc
          split at hacc
          · next hd => cases hacc; exact skip _ _ _ _ hp hd
          · next f hd =>
            split at hacc
            · cases hacc
            · next c2 o2 hf => cases hacc; exact step _ _ _ _ _ _ _ hp hd hf
        have := ih (pre ++ [b]) c1 s1 this h
        simpa using this
  simpa using gen arrivals [] c [] h0 h

/-! ## Terminal states: `closed`, `fin` -/

def CState.terminal (s : CState H) : Prop := s = .fin ∨ ∃ t, s = .closed t

theorem CState.terminal_not_active {s : CState H} (h : s.terminal) : ∀ ln hh t sig, s ≠ .active ln hh t sig := by
  intro ln hh t sig he
  rcases h with h | ⟨t', h⟩ <;> rw [h] at he <;> cases he

theorem Client.handleFrame_terminal (hc : HC H) (c c' : Client H) (f : Frame) (nowMs nowNs : Nat)
    (out : List (List Nat)) (ht : c.state.terminal) (h : c.handleFrame hc f nowMs nowNs = .ok (c', out)) :
    c' = c ∧ (∀ b ∈ out, b = discAck) ∧ (c.state = .fin → out = []) := by
  rcases ht with hs | ⟨t, hs⟩
  · rw [Client.handleFrame_fin hc c f nowMs nowNs hs] at h
    cases h; simp
  · rw [Client.handleFrame_closed hc c f nowMs nowNs t hs] at h
    cases h
    refine ⟨rfl, ?_, fun hf => by rw [hs] at hf; cases hf⟩
    intro b hb; split at hb <;> simp_all

theorem Client.arrivalsPhase_terminal (hc : HC H) (c c' : Client H) (nowMs nowNs : Nat)
    (arrivals sent : List (List Nat)) (ht : c.state.terminal)
    (h : c.arrivalsPhase hc nowMs nowNs arrivals = .ok (c', sent)) :
    c' = c ∧ (∀ b ∈ sent, b = discAck) ∧ (c.state = .fin → sent = []) := by
  refine Client.arrivalsPhase_induct hc nowMs nowNs
    (fun x s => x = c ∧ (∀ b ∈ s, b = discAck) ∧ (c.state = .fin → s = [])) ?_ arrivals c [] c' sent
    ⟨rfl, by simp, fun _ => rfl⟩ h
  intro x s f x' out ⟨hx, hs, hfin⟩ hf
  subst hx
  obtain ⟨h1, h2, h3⟩ := Client.handleFrame_terminal hc x x' f nowMs nowNs out ht hf
  refine ⟨h1, ?_, fun hfi => by rw [hfin hfi, h3 hfi]; rfl⟩
  intro b hb
  rcases List.mem_append.mp hb with hb | hb
  · exact hs b hb
  · exact h2 b hb

theorem Client.handleEvents_terminal (c : Client H) (nowMs : Nat) (ht : c.state.terminal) :
    (c.handleEvents nowMs).1.state.terminal ∧ (c.handleEvents nowMs).1.eventsOut = c.eventsOut ∧
    (c.handleEvents nowMs).2 = [] ∧ (c.state = .fin → (c.handleEvents nowMs).1 = c) := by
  rcases ht with hs | ⟨t, hs⟩
  · rw [Client.handleEvents_fin c nowMs hs]
    exact ⟨Or.inl hs, rfl, rfl, fun _ => rfl⟩
  · rw [Client.handleEvents_closed c nowMs t hs]
    refine ⟨?_, ?_, rfl, fun hf => by rw [hs] at hf; cases hf⟩
    · simp only; split
      · exact Or.inl rfl
      · exact Or.inr ⟨t, hs⟩
    · simp only; split <;> rfl

/-- A step from a terminal state: no event, only `disconnectAck` replies (none from `fin`). -/
theorem Client.step_terminal (hc : HC H) (c c' : Client H) (nowNs : Nat) (arrivals sent : List (List Nat))
    (evs : List CEvent) (ht : c.state.terminal) (h : c.step hc nowNs arrivals = .ok (c', sent, evs)) :
    c'.state.terminal ∧ c'.eventsOut = [] ∧ evs = c.eventsOut ∧ (∀ b ∈ sent, b = discAck) ∧
    (c.state = .fin → c'.state = .fin ∧ sent = []) := by
  obtain ⟨c1, s1, c2, s2, c4, s4, h1, h2, h4, rfl, rfl, rfl⟩ := Client.step_phases hc c c' nowNs arrivals sent evs h
  rw [Client.flush_not_active hc c (CState.terminal_not_active ht)] at h1
  cases h1
  obtain ⟨rfl, hs2, hfin2⟩ := Client.arrivalsPhase_terminal hc c c2 _ nowNs arrivals s2 ht h2
  obtain ⟨ht3, he3, hs3, hfin3⟩ := Client.handleEvents_terminal c2 (c2.nowMs nowNs) ht
  rw [Client.stepPhase_not_active hc _ _ nowNs (CState.terminal_not_active ht3)] at h4
  cases h4
  refine ⟨ht3, rfl, he3, ?_, ?_⟩
  · intro b hb
    simp only [hs3, List.nil_append, List.append_nil] at hb
    exact hs2 b hb
  · intro hf
    rw [hfin3 hf, hfin2 hf, hs3]
    exact ⟨hf, rfl⟩

theorem Client.apply_terminal (hc : HC H) (c c' : Client H) (op : COp) (sent : List (List Nat)) (evs : List CEvent)
    (ht : c.state.terminal) (he : c.eventsOut = []) (h : c.apply hc op = .ok (c', sent, evs)) :
    c'.state.terminal ∧ c'.eventsOut = [] ∧ evs = [] ∧ (∀ b ∈ sent, b = discAck) ∧
    (c.state = .fin → c'.state = .fin ∧ sent = []) := by
  cases op with
  | step n a =>
    obtain ⟨h1, h2, h3, h4, h5⟩ := Client.step_terminal hc c c' n a sent evs ht h
    exact ⟨h1, h2, h3.trans he, h4, h5⟩
  | send d ch m =>
    cases h
    have : c.send hc d ch m = c := by
      unfold Client.send
      rcases ht with hs | ⟨t, hs⟩ <;> simp [hs]
    rw [this]; exact ⟨ht, he, rfl, by simp, fun hf => ⟨hf, rfl⟩⟩
  | disconnect m =>
    cases h
    have : c.disconnect m = c := by
      unfold Client.disconnect
      rcases ht with hs | ⟨t, hs⟩ <;> simp [hs]
    rw [this]; exact ⟨ht, he, rfl, by simp, fun hf => ⟨hf, rfl⟩⟩
  | flush =>
    simp only [Client.apply, Client.flush_not_active hc c (CState.terminal_not_active ht)] at h
    cases h
    exact ⟨ht, he, rfl, by simp, fun hf => ⟨hf, rfl⟩⟩

/-- After `closed`/`fin`: no event is ever delivered again; the only datagrams are
`disconnectAck` replies (none at all after `fin`). -/
theorem Client.run_terminal (hc : HC H) (ops : List COp) (c c' : Client H) (sent : List (List Nat)) (evs : List CEvent)
    (ht : c.state.terminal) (he : c.eventsOut = []) (h : Client.run hc c ops = .ok (c', sent, evs)) :
    c'.state.terminal ∧ c'.eventsOut = [] ∧ evs = [] ∧ (∀ b ∈ sent, b = discAck) ∧
    (c.state = .fin → c'.state = .fin ∧ sent = []) := by
  induction ops generalizing c sent evs with
  | nil => cases h; exact ⟨ht, he, rfl, by simp, fun hf => ⟨hf, rfl⟩⟩
  | cons op ops ih =>
    simp only [Client.run] at h
    split at h
    · cases h
    · next c1 s1 e1 h1 =>
      split at h
      · cases h
      · next c2 s2 e2 h2 =>
        cases h
        obtain ⟨a1, a2, a3, a4, a5⟩ := Client.apply_terminal hc c c1 op s1 e1 ht he h1
        obtain ⟨b1, b2, b3, b4, b5⟩ := ih c1 s2 e2 a1 a2 h2
        refine ⟨b1, b2, by rw [a3, b3]; rfl, ?_, ?_⟩
        · intro b hb
          rcases List.mem_append.mp hb with hb | hb
          · exact a4 b hb
          · exact b4 b hb
        · intro hf
          obtain ⟨x1, x2⟩ := a5 hf
          obtain ⟨y1, y2⟩ := b5 x1
          exact ⟨y1, by rw [x2, y2]; rfl⟩


/-! ## From `closing` -/

/-- The arrivals of one step, started in `closing`: nothing happens, or the first `disconnect` /
`disconnectAck` frame ends the connection with one `disconnect` event. -/
theorem Client.arrivalsPhase_closing (hc : HC H) (c c' : Client H) (nowMs nowNs : Nat)
    (arrivals sent : List (List Nat)) (req : List Nat) (rt rc : Nat) (hs : c.state = .closing req rt rc)
    (h : c.arrivalsPhase hc nowMs nowNs arrivals = .ok (c', sent)) :
    (c' = c ∧ sent = []) ∨
    (c'.state.terminal ∧ c'.eventsOut = c.eventsOut ++ [CEvent.disconnect] ∧ (∀ b ∈ sent, b = discAck) ∧
      c'.ep = c.ep ∧ c'.timeBase = c.timeBase) := by
  refine Client.arrivalsPhase_induct hc nowMs nowNs
    (fun x s => (x = c ∧ s = []) ∨
      (x.state.terminal ∧ x.eventsOut = c.eventsOut ++ [CEvent.disconnect] ∧ (∀ b ∈ s, b = discAck) ∧
        x.ep = c.ep ∧ x.timeBase = c.timeBase)) ?_ arrivals c [] c' sent (Or.inl ⟨rfl, rfl⟩) h
  intro x s f x' out hp hf
  rcases hp with ⟨rfl, rfl⟩ | ⟨ht, he, hsd, hep, htb⟩
  · rw [Client.handleFrame_closing hc x f nowMs nowNs req rt rc hs] at hf
    cases f <;> cases hf <;> first
      | exact Or.inl ⟨rfl, rfl⟩
      | exact Or.inr ⟨Or.inr ⟨_, rfl⟩, rfl, by simp, rfl, rfl⟩
      | exact Or.inr ⟨Or.inl rfl, rfl, by simp, rfl, rfl⟩
  · obtain ⟨rfl, h2, -⟩ := Client.handleFrame_terminal hc x x' f nowMs nowNs out ht hf
    refine Or.inr ⟨ht, he, ?_, hep, htb⟩
    intro b hb
    rcases List.mem_append.mp hb with hb | hb
    · exact hsd b hb
    · exact h2 b hb

/-- One step from `closing req rt rc` (event buffer empty). -/
theorem Client.step_closing (hc : HC H) (c c' : Client H) (nowNs : Nat) (arrivals sent : List (List Nat))
    (evs : List CEvent) (req : List Nat) (rt rc : Nat) (hs : c.state = .closing req rt rc) (he : c.eventsOut = [])
    (h : c.step hc nowNs arrivals = .ok (c', sent, evs)) :
    c'.eventsOut = [] ∧
    ((c.nowMs nowNs < rt ∧ c'.state = .closing req rt rc ∧ sent = [] ∧ evs = []) ∨
     (c.nowMs nowNs ≥ rt ∧ rc > 0 ∧ c'.state = .closing req (c.nowMs nowNs + CLIENT_DISCONNECT_RESEND_INTERVAL_MS) (rc - 1) ∧
        sent = [req] ∧ evs = []) ∨
     (c.nowMs nowNs ≥ rt ∧ rc = 0 ∧ c'.state = .fin ∧ sent = [] ∧ evs = [CEvent.error .timeout]) ∨
     (c'.state.terminal ∧ evs = [CEvent.disconnect] ∧ ∀ b ∈ sent, b = discAck)) := by
  obtain ⟨c1, s1, c2, s2, c4, s4, h1, h2, h4, rfl, rfl, rfl⟩ := Client.step_phases hc c c' nowNs arrivals sent evs h
  have hna : ∀ ln hh t sig, c.state ≠ .active ln hh t sig := by intro _ _ _ _ h; rw [hs] at h; cases h
  rw [Client.flush_not_active hc c hna] at h1
  cases h1
  refine ⟨rfl, ?_⟩
  rcases Client.arrivalsPhase_closing hc c c2 _ nowNs arrivals s2 req rt rc hs h2 with ⟨rfl, rfl⟩ | ⟨ht, hev, hsd, -, -⟩
  · rw [Client.handleEvents_closing c2 _ req rt rc hs] at h4 ⊢
    by_cases hge : c2.nowMs nowNs ≥ rt
    · rw [if_pos hge] at h4 ⊢
      by_cases hrc : rc > 0
      · rw [if_pos hrc] at h4 ⊢
        rw [Client.stepPhase_not_active hc _ _ nowNs (by intro _ _ _ _ h; cases h)] at h4
        cases h4
        exact Or.inr (Or.inl ⟨hge, hrc, rfl, rfl, he⟩)
      · rw [if_neg hrc] at h4 ⊢
        rw [Client.stepPhase_not_active hc _ _ nowNs (by intro _ _ _ _ h; cases h)] at h4
        cases h4
        exact Or.inr (Or.inr (Or.inl ⟨hge, by omega, rfl, rfl, by simp [he]⟩))
    · rw [if_neg hge] at h4 ⊢
      rw [Client.stepPhase_not_active hc _ _ nowNs hna] at h4
      cases h4
      exact Or.inl ⟨by omega, hs, rfl, he⟩
  · obtain ⟨ht3, he3, hs3, -⟩ := Client.handleEvents_terminal c2 (c.nowMs nowNs) ht
    rw [Client.stepPhase_not_active hc _ _ nowNs (CState.terminal_not_active ht3)] at h4
    cases h4
    refine Or.inr (Or.inr (Or.inr ⟨ht3, by rw [he3, hev, he]; rfl, ?_⟩))
    intro b hb
    simp only [hs3, List.nil_append, List.append_nil] at hb
    exact hsd b hb

/-- One API call from `closing req rt rc` (event buffer empty). -/
theorem Client.apply_closing (hc : HC H) (c c' : Client H) (op : COp) (sent : List (List Nat))
    (evs : List CEvent) (req : List Nat) (rt rc : Nat) (hs : c.state = .closing req rt rc) (he : c.eventsOut = [])
    (h : c.apply hc op = .ok (c', sent, evs)) :
    c'.eventsOut = [] ∧
    ((c'.state = .closing req rt rc ∧ sent = [] ∧ evs = []) ∨
     (∃ n a, op = .step n a ∧ c.nowMs n ≥ rt ∧ rc > 0 ∧
        c'.state = .closing req (c.nowMs n + CLIENT_DISCONNECT_RESEND_INTERVAL_MS) (rc - 1) ∧ sent = [req] ∧ evs = []) ∨
     (∃ n a, op = .step n a ∧ c.nowMs n ≥ rt ∧ rc = 0 ∧ c'.state = .fin ∧ sent = [] ∧ evs = [CEvent.error .timeout]) ∨
     (c'.state.terminal ∧ evs = [CEvent.disconnect] ∧ ∀ b ∈ sent, b = discAck)) := by
  have hna : ∀ ln hh t sig, c.state ≠ .active ln hh t sig := by intro _ _ _ _ h; rw [hs] at h; cases h
  cases op with
  | step n a =>
    obtain ⟨h0, hc⟩ := Client.step_closing hc c c' n a sent evs req rt rc hs he h
    refine ⟨h0, ?_⟩
    rcases hc with ⟨_, h1, h2, h3⟩ | ⟨h1, h2, h3, h4, h5⟩ | ⟨h1, h2, h3, h4, h5⟩ | h1
    · exact Or.inl ⟨h1, h2, h3⟩
    · exact Or.inr (Or.inl ⟨n, a, rfl, h1, h2, h3, h4, h5⟩)
    · exact Or.inr (Or.inr (Or.inl ⟨n, a, rfl, h1, h2, h3, h4, h5⟩))
    · exact Or.inr (Or.inr (Or.inr h1))
  | send d ch m =>
    cases h
    have : c.send hc d ch m = c := by unfold Client.send; simp [hs]
    rw [this]; exact ⟨he, Or.inl ⟨hs, rfl, rfl⟩⟩
  | disconnect m =>
    cases h
    have : c.disconnect m = c := by unfold Client.disconnect; simp [hs]
    rw [this]; exact ⟨he, Or.inl ⟨hs, rfl, rfl⟩⟩
  | flush =>
    simp only [Client.apply, Client.flush_not_active hc c hna] at h
    cases h
    exact ⟨he, Or.inl ⟨hs, rfl, rfl⟩⟩


theorem Client.nowMs_congr {c c' : Client H} (h : c'.timeBase = c.timeBase) (n : Nat) : c'.nowMs n = c.nowMs n := by
  unfold Client.nowMs; rw [h]

/-- Any run from `closing req rt rc`: the request is re-sent at most `rc` times, then (if no
`disconnect`/`disconnectAck` arrives) exactly one `error timeout` ends it, not before
`rt + rc * interval`; a `disconnect` event is the only other possible event; nothing follows. -/
theorem Client.run_closing (hc : HC H) (ops : List COp) (c c' : Client H) (sent : List (List Nat))
    (evs : List CEvent) (req : List Nat) (rt rc : Nat) (hs : c.state = .closing req rt rc) (he : c.eventsOut = [])
    (h : Client.run hc c ops = .ok (c', sent, evs)) :
    ∃ k acks, sent = List.replicate k req ++ acks ∧ k ≤ rc ∧ (∀ b ∈ acks, b = discAck) ∧
      ((evs = [] ∧ acks = [] ∧ ∃ rt', c'.state = .closing req rt' (rc - k) ∧
          rt' ≥ rt + CLIENT_DISCONNECT_RESEND_INTERVAL_MS * k) ∨
       (evs = [CEvent.disconnect] ∧ c'.state.terminal) ∨
       (evs = [CEvent.error .timeout] ∧ k = rc ∧ acks = [] ∧ c'.state = .fin ∧
          ∃ n a, COp.step n a ∈ ops ∧ c.nowMs n ≥ rt + CLIENT_DISCONNECT_RESEND_INTERVAL_MS * rc)) := by
  induction ops generalizing c sent evs rt rc with
  | nil =>
    cases h
    exact ⟨0, [], rfl, Nat.zero_le _, by simp, Or.inl ⟨rfl, rfl, rt, by simpa using hs, by simp⟩⟩
  | cons op ops ih =>
    simp only [Client.run] at h
    split at h
    · cases h
    · next c1 s1 e1 h1 =>
      split at h
      · cases h
      · next c2 s2 e2 h2 =>
        cases h
        obtain ⟨-, htb⟩ := Client.apply_same hc c c1 op s1 e1 h1
        obtain ⟨he1, hcase⟩ := Client.apply_closing hc c c1 op s1 e1 req rt rc hs he h1
        rcases hcase with ⟨hs1, rfl, rfl⟩ | ⟨n, a, rfl, hge, hrc, hs1, rfl, rfl⟩ | ⟨n, a, rfl, hge, hrc, hs1, rfl, rfl⟩ | ⟨ht1, rfl, hacks⟩
        · obtain ⟨k, acks, hsent, hk, hacks, hcs⟩ := ih c1 s2 e2 rt rc hs1 he1 h2
          refine ⟨k, acks, by simpa using hsent, hk, hacks, ?_⟩
          rcases hcs with h | h | ⟨x1, x2, x3, x4, n, a, hm, hn⟩
          · exact Or.inl (by simpa using h)
          · exact Or.inr (Or.inl (by simpa using h))
          · refine Or.inr (Or.inr ⟨by simpa using x1, x2, x3, x4, n, a, List.mem_cons_of_mem _ hm, ?_⟩)
            rw [← Client.nowMs_congr htb]; exact hn
        · obtain ⟨k, acks, hsent, hk, hacks, hcs⟩ := ih c1 s2 e2 _ _ hs1 he1 h2
          refine ⟨k + 1, acks, by rw [hsent, List.replicate_succ]; simp, by omega, hacks, ?_⟩
          rcases hcs with ⟨x1, x2, rt', x3, x4⟩ | h | ⟨x1, x2, x3, x4, n', a', hm, hn⟩
          · refine Or.inl ⟨by simpa using x1, x2, rt', ?_, ?_⟩
            · rw [x3]; congr 1; omega
            · simp only [CLIENT_DISCONNECT_RESEND_INTERVAL_MS] at x4 hge ⊢; omega
          · exact Or.inr (Or.inl (by simpa using h))
          · refine Or.inr (Or.inr ⟨by simpa using x1, by omega, x3, x4, n', a', List.mem_cons_of_mem _ hm, ?_⟩)
            rw [Client.nowMs_congr htb] at hn
            simp only [CLIENT_DISCONNECT_RESEND_INTERVAL_MS] at hn hge ⊢; omega
        · obtain ⟨-, -, x3, -, x5⟩ := Client.run_terminal hc ops c1 c' s2 e2 (Or.inl hs1) he1 h2
          obtain ⟨y1, y2⟩ := x5 hs1
          subst x3 y2 hrc
          exact ⟨0, [], rfl, Nat.le_refl _, by simp,
            Or.inr (Or.inr ⟨rfl, rfl, rfl, y1, n, a, List.mem_cons_self, by simpa using hge⟩)⟩
        · obtain ⟨x1, -, x3, x4, -⟩ := Client.run_terminal hc ops c1 c' s2 e2 ht1 he1 h2
          subst x3
          refine ⟨0, s1 ++ s2, rfl, Nat.zero_le _, ?_, Or.inr (Or.inl ⟨rfl, x1⟩)⟩
          intro b hb
          rcases List.mem_append.mp hb with hb | hb
          · exact hacks b hb
          · exact x4 b hb


/-! ## From `pending` -/

theorem CTr.events_mono {c c' : Client H} (h : CTr c c') (e : CEvent) (he : e ∈ c.eventsOut) : e ∈ c'.eventsOut := by
  obtain ⟨-, -, evs, hx, -⟩ := h
  rw [hx]; exact List.mem_append_left _ he

/-- No transition leads back to `pending`: a frame handler that ends in `pending` did nothing. -/
theorem Client.handleFrame_pending_back (hc : HC H) (c c' : Client H) (f : Frame) (nowMs nowNs : Nat)
    (out : List (List Nat)) (h : c.handleFrame hc f nowMs nowNs = .ok (c', out))
    (ln : Nat) (req : List Nat) (rt rc : Nat) (sends : List (List Nat × Nat × SendMode))
    (hs' : c'.state = .pending ln req rt rc sends) : c' = c ∧ out = [] := by
  cases hs : c.state with
  | fin =>
    rw [Client.handleFrame_fin hc c f nowMs nowNs hs] at h
    cases h; exact ⟨rfl, rfl⟩
  | closed t =>
    rw [Client.handleFrame_closed hc c f nowMs nowNs t hs] at h
    cases h; rw [hs] at hs'; cases hs'
  | closing req' rt' rc' =>
    rw [Client.handleFrame_closing hc c f nowMs nowNs req' rt' rc' hs] at h
    cases f <;> cases h <;> first | exact ⟨rfl, rfl⟩ | cases hs'
  | pending ln' req' rt' rc' sends' =>
    rw [Client.handleFrame_pending hc c f nowMs nowNs ln' req' rt' rc' sends' hs] at h
    cases f with
    | synAck na n r p a =>
      simp only at h
      split at h <;> cases h
      · cases hs'
      · exact ⟨rfl, rfl⟩
    | hsError na e =>
      simp only at h
      split at h <;> cases h
      · cases hs'
      · exact ⟨rfl, rfl⟩
    | _ => cases h; exact ⟨rfl, rfl⟩
  | active ln' hh t sig =>
    rw [Client.handleFrame_active hc c f nowMs nowNs ln' hh t sig hs] at h
    have traffic : ∀ f', ((match hc.dispatch hh f' with
        | .error e => .error e
        | .ok h' => .ok ({ c with state := .active ln' h' (nowMs + c.ep.activeTimeoutMs) sig }, [])) : R (Client H × List (List Nat)))
          = .ok (c', out) → c' = c ∧ out = [] := by
      intro f' h
      split at h <;> cases h
      cases hs'
    cases f with
    | synAck na n r p a => cases h; rw [hs] at hs'; cases hs'
    | disconnect =>
      simp only at h
      split at h <;> cases h
      cases hs'
    | data sid nn dgs => exact traffic _ h
    | sync a b => exact traffic _ h
    | ack a b c => exact traffic _ h
    | _ => cases h; exact ⟨rfl, rfl⟩

/-- The arrivals of one step, started in `pending`. -/
theorem Client.arrivalsPhase_pending (hc : HC H) (c c' : Client H) (nowMs nowNs : Nat)
    (arrivals sent : List (List Nat)) (ln : Nat) (req : List Nat) (rt rc : Nat)
    (sends : List (List Nat × Nat × SendMode)) (hs : c.state = .pending ln req rt rc sends)
    (h : c.arrivalsPhase hc nowMs nowNs arrivals = .ok (c', sent)) :
    (c' = c ∧ sent = []) ∨ CEvent.connect ∈ c'.eventsOut ∨
    (c'.state = .fin ∧ (∃ e, c'.eventsOut = c.eventsOut ++ [CEvent.error (errOfHs e)]) ∧ sent = []) := by
  refine Client.arrivalsPhase_induct hc nowMs nowNs
    (fun x s => (x = c ∧ s = []) ∨ CEvent.connect ∈ x.eventsOut ∨
      (x.state = .fin ∧ (∃ e, x.eventsOut = c.eventsOut ++ [CEvent.error (errOfHs e)]) ∧ s = []))
    ?_ arrivals c [] c' sent (Or.inl ⟨rfl, rfl⟩) h
  intro x s f x' out hp hf
  rcases hp with ⟨rfl, rfl⟩ | hconn | ⟨hfin, hev, rfl⟩
  · rw [Client.handleFrame_pending hc x f nowMs nowNs ln req rt rc sends hs] at hf
    cases f with
    | synAck na n r p a =>
      simp only at hf
      split at hf <;> cases hf
      · exact Or.inr (Or.inl (by simp))
      · exact Or.inl ⟨rfl, rfl⟩
    | hsError na e =>
      simp only at hf
      split at hf <;> cases hf
      · exact Or.inr (Or.inr ⟨rfl, ⟨e, rfl⟩, rfl⟩)
      · exact Or.inl ⟨rfl, rfl⟩
    | _ => cases hf; exact Or.inl ⟨rfl, rfl⟩
  · exact Or.inr (Or.inl ((Client.handleFrame_CTr hc x x' f nowMs nowNs out hf).events_mono _ hconn))
  · obtain ⟨rfl, -, h3⟩ := Client.handleFrame_terminal hc x x' f nowMs nowNs out (Or.inl hfin) hf
    exact Or.inr (Or.inr ⟨hfin, hev, by rw [h3 hfin]; rfl⟩)

theorem errOfHs_ne_timeout (e : HsError) : errOfHs e ≠ .timeout := by cases e <;> simp [errOfHs]

/-- One step from `pending` (event buffer empty). -/
theorem Client.step_pending (hc : HC H) (c c' : Client H) (nowNs : Nat) (arrivals sent : List (List Nat))
    (evs : List CEvent) (ln : Nat) (req : List Nat) (rt rc : Nat) (sends : List (List Nat × Nat × SendMode))
    (hs : c.state = .pending ln req rt rc sends) (he : c.eventsOut = [])
    (h : c.step hc nowNs arrivals = .ok (c', sent, evs)) :
    c'.eventsOut = [] ∧
    ((c.nowMs nowNs < rt ∧ c'.state = .pending ln req rt rc sends ∧ sent = [] ∧ evs = []) ∨
     (c.nowMs nowNs ≥ rt ∧ rc > 0 ∧
        c'.state = .pending ln req (c.nowMs nowNs + CLIENT_HANDSHAKE_RESEND_INTERVAL_MS) (rc - 1) sends ∧
        sent = [req] ∧ evs = []) ∨
     (c.nowMs nowNs ≥ rt ∧ rc = 0 ∧ c'.state = .fin ∧ sent = [] ∧ evs = [CEvent.error .timeout]) ∨
     CEvent.connect ∈ evs ∨
     (c'.state = .fin ∧ (∃ e, evs = [CEvent.error (errOfHs e)]) ∧ sent = [])) := by
  obtain ⟨c1, s1, c2, s2, c4, s4, h1, h2, h4, rfl, rfl, rfl⟩ := Client.step_phases hc c c' nowNs arrivals sent evs h
  have hna : ∀ ln hh t sig, c.state ≠ .active ln hh t sig := by intro _ _ _ _ h; rw [hs] at h; cases h
  rw [Client.flush_not_active hc c hna] at h1
  cases h1
  refine ⟨rfl, ?_⟩
  rcases Client.arrivalsPhase_pending hc c c2 _ nowNs arrivals s2 ln req rt rc sends hs h2 with
    ⟨rfl, rfl⟩ | hconn | ⟨hfin, ⟨e, hev⟩, rfl⟩
  · rw [Client.handleEvents_pending c2 _ ln req rt rc sends hs] at h4 ⊢
    by_cases hge : c2.nowMs nowNs ≥ rt
    · rw [if_pos hge] at h4 ⊢
      by_cases hrc : rc > 0
      · rw [if_pos hrc] at h4 ⊢
        rw [Client.stepPhase_not_active hc _ _ nowNs (by intro _ _ _ _ h; cases h)] at h4
        cases h4
        exact Or.inr (Or.inl ⟨hge, hrc, rfl, rfl, he⟩)
      · rw [if_neg hrc] at h4 ⊢
        rw [Client.stepPhase_not_active hc _ _ nowNs (by intro _ _ _ _ h; cases h)] at h4
        cases h4
        exact Or.inr (Or.inr (Or.inl ⟨hge, by omega, rfl, rfl, by simp [he]⟩))
    · rw [if_neg hge] at h4 ⊢
      rw [Client.stepPhase_not_active hc _ _ nowNs hna] at h4
      cases h4
      exact Or.inl ⟨by omega, hs, rfl, he⟩
  · exact Or.inr (Or.inr (Or.inr (Or.inl
      ((Client.stepPhase_CTr hc _ c4 _ nowNs s4 h4).events_mono _
        ((Client.handleEvents_CTr c2 _).events_mono _ hconn)))))
  · obtain ⟨ht3, he3, hs3, hfin3⟩ := Client.handleEvents_terminal c2 (c.nowMs nowNs) (Or.inl hfin)
    rw [Client.stepPhase_not_active hc _ _ nowNs (CState.terminal_not_active ht3)] at h4
    cases h4
    rw [hfin3 hfin]
    exact Or.inr (Or.inr (Or.inr (Or.inr ⟨hfin, ⟨e, by rw [hev, he]; rfl⟩, by simp [hs3]⟩)))

/-- One API call from `pending` (event buffer empty). -/
theorem Client.apply_pending (hc : HC H) (c c' : Client H) (op : COp) (sent : List (List Nat))
    (evs : List CEvent) (ln : Nat) (req : List Nat) (rt rc : Nat) (sends : List (List Nat × Nat × SendMode))
    (hs : c.state = .pending ln req rt rc sends) (he : c.eventsOut = [])
    (h : c.apply hc op = .ok (c', sent, evs)) :
    c'.eventsOut = [] ∧
    ((∃ sends', c'.state = .pending ln req rt rc sends' ∧ sent = [] ∧ evs = []) ∨
     (∃ n a, op = .step n a ∧ c.nowMs n ≥ rt ∧ rc > 0 ∧
        c'.state = .pending ln req (c.nowMs n + CLIENT_HANDSHAKE_RESEND_INTERVAL_MS) (rc - 1) sends ∧
        sent = [req] ∧ evs = []) ∨
     (∃ n a, op = .step n a ∧ c.nowMs n ≥ rt ∧ rc = 0 ∧ c'.state = .fin ∧ sent = [] ∧ evs = [CEvent.error .timeout]) ∨
     CEvent.connect ∈ evs ∨
     (c'.state = .fin ∧ (evs = [] ∨ ∃ e, evs = [CEvent.error (errOfHs e)]) ∧ sent = [])) := by
  have hna : ∀ ln hh t sig, c.state ≠ .active ln hh t sig := by intro _ _ _ _ h; rw [hs] at h; cases h
  cases op with
  | step n a =>
    obtain ⟨h0, hc⟩ := Client.step_pending hc c c' n a sent evs ln req rt rc sends hs he h
    refine ⟨h0, ?_⟩
    rcases hc with ⟨_, h1, h2, h3⟩ | ⟨h1, h2, h3, h4, h5⟩ | ⟨h1, h2, h3, h4, h5⟩ | h1 | ⟨h1, h2, h3⟩
    · exact Or.inl ⟨sends, h1, h2, h3⟩
    · exact Or.inr (Or.inl ⟨n, a, rfl, h1, h2, h3, h4, h5⟩)
    · exact Or.inr (Or.inr (Or.inl ⟨n, a, rfl, h1, h2, h3, h4, h5⟩))
    · exact Or.inr (Or.inr (Or.inr (Or.inl h1)))
    · exact Or.inr (Or.inr (Or.inr (Or.inr ⟨h1, Or.inr h2, h3⟩)))
  | send d ch m =>
    cases h
    refine ⟨by unfold Client.send; simp [hs, he], Or.inl ⟨sends ++ [(d, ch, m)], ?_, rfl, rfl⟩⟩
    unfold Client.send; simp [hs]
  | disconnect m =>
    cases h
    refine ⟨by unfold Client.disconnect; simp [hs, he], Or.inr (Or.inr (Or.inr (Or.inr ⟨?_, Or.inl rfl, rfl⟩)))⟩
    unfold Client.disconnect; simp [hs]
  | flush =>
    simp only [Client.apply, Client.flush_not_active hc c hna] at h
    cases h
    exact ⟨he, Or.inl ⟨sends, hs, rfl, rfl⟩⟩

/-- Any run from `pending … rt rc` in which no `connect` is delivered: the SYN is re-sent at most `rc`
times and nothing else is sent; `error timeout` is delivered only after exactly `rc` re-sends and
not before `rt + rc * interval`. -/
theorem Client.run_pending (hc : HC H) (ops : List COp) (c c' : Client H) (sent : List (List Nat))
    (evs : List CEvent) (ln : Nat) (req : List Nat) (rt rc : Nat) (sends : List (List Nat × Nat × SendMode))
    (hs : c.state = .pending ln req rt rc sends) (he : c.eventsOut = [])
    (h : Client.run hc c ops = .ok (c', sent, evs)) (hnc : CEvent.connect ∉ evs) :
    ∃ k, sent = List.replicate k req ∧ k ≤ rc ∧
      ((evs = [] ∧ ((∃ rt' sends', c'.state = .pending ln req rt' (rc - k) sends' ∧
          rt' ≥ rt + CLIENT_HANDSHAKE_RESEND_INTERVAL_MS * k) ∨ c'.state = .fin)) ∨
       ((∃ e, evs = [CEvent.error (errOfHs e)]) ∧ c'.state = .fin) ∨
       (evs = [CEvent.error .timeout] ∧ k = rc ∧ c'.state = .fin ∧
          ∃ n a, COp.step n a ∈ ops ∧ c.nowMs n ≥ rt + CLIENT_HANDSHAKE_RESEND_INTERVAL_MS * rc)) := by
  induction ops generalizing c sent evs rt rc sends with
  | nil =>
    cases h
    exact ⟨0, rfl, Nat.zero_le _, Or.inl ⟨rfl, Or.inl ⟨rt, sends, by simpa using hs, by simp⟩⟩⟩
  | cons op ops ih =>
    simp only [Client.run] at h
    split at h
    · cases h
    · next c1 s1 e1 h1 =>
      split at h
      · cases h
      · next c2 s2 e2 h2 =>
        cases h
        obtain ⟨-, htb⟩ := Client.apply_same hc c c1 op s1 e1 h1
        obtain ⟨he1, hcase⟩ := Client.apply_pending hc c c1 op s1 e1 ln req rt rc sends hs he h1
        have hnc2 : CEvent.connect ∉ e2 := fun hm => hnc (List.mem_append_right _ hm)
        rcases hcase with ⟨sends', hs1, rfl, rfl⟩ | ⟨n, a, rfl, hge, hrc, hs1, rfl, rfl⟩ |
          ⟨n, a, rfl, hge, hrc, hs1, rfl, rfl⟩ | hconn | ⟨hfin, hev, rfl⟩
        · obtain ⟨k, hsent, hk, hcs⟩ := ih c1 s2 e2 rt rc sends' hs1 he1 h2 hnc2
          refine ⟨k, by simpa using hsent, hk, ?_⟩
          rcases hcs with h | h | ⟨x1, x2, x4, n, a, hm, hn⟩
          · exact Or.inl (by simpa using h)
          · exact Or.inr (Or.inl (by simpa using h))
          · refine Or.inr (Or.inr ⟨by simpa using x1, x2, x4, n, a, List.mem_cons_of_mem _ hm, ?_⟩)
            rw [← Client.nowMs_congr htb]; exact hn
        · obtain ⟨k, hsent, hk, hcs⟩ := ih c1 s2 e2 _ _ sends hs1 he1 h2 hnc2
          refine ⟨k + 1, by rw [hsent, List.replicate_succ]; simp, by omega, ?_⟩
          rcases hcs with ⟨x1, x2⟩ | h | ⟨x1, x2, x4, n', a', hm, hn⟩
          · refine Or.inl ⟨by simpa using x1, ?_⟩
            rcases x2 with ⟨rt', sends', x3, x4⟩ | x2
            · refine Or.inl ⟨rt', sends', ?_, ?_⟩
              · rw [x3]; congr 1; omega
              · simp only [CLIENT_HANDSHAKE_RESEND_INTERVAL_MS] at x4 hge ⊢; omega
            · exact Or.inr x2
          · exact Or.inr (Or.inl (by simpa using h))
          · refine Or.inr (Or.inr ⟨by simpa using x1, by omega, x4, n', a', List.mem_cons_of_mem _ hm, ?_⟩)
            rw [Client.nowMs_congr htb] at hn
            simp only [CLIENT_HANDSHAKE_RESEND_INTERVAL_MS] at hn hge ⊢; omega
        · obtain ⟨-, -, x3, -, x5⟩ := Client.run_terminal hc ops c1 c' s2 e2 (Or.inl hs1) he1 h2
          obtain ⟨y1, y2⟩ := x5 hs1
          subst x3 y2 hrc
          exact ⟨0, rfl, Nat.le_refl _,
            Or.inr (Or.inr ⟨rfl, rfl, y1, n, a, List.mem_cons_self, by simpa using hge⟩)⟩
        · exact absurd (List.mem_append_left _ hconn) hnc
        · obtain ⟨-, -, x3, -, x5⟩ := Client.run_terminal hc ops c1 c' s2 e2 (Or.inl hfin) he1 h2
          obtain ⟨y1, y2⟩ := x5 hfin
          subst x3 y2
          refine ⟨0, rfl, Nat.zero_le _, ?_⟩
          rcases hev with rfl | ⟨e, rfl⟩
          · exact Or.inl ⟨rfl, Or.inr y1⟩
          · exact Or.inr (Or.inl ⟨⟨e, rfl⟩, y1⟩)


/-! ## From `active` -/

/-- The datagram (as read into the receive buffer) decodes to the given frame. -/
def decodesTo (b : List Nat) (f : Frame) : Prop := decode (b.take MAX_FRAME_SIZE) = some f

/-- Some datagram of the list is a data / sync / ack frame. -/
def hasTraffic (arrivals : List (List Nat)) : Bool :=
  arrivals.any fun b => match decode (b.take MAX_FRAME_SIZE) with
    | some f => isTraffic f
    | none => false

/-- Some datagram of the list is a disconnect request. -/
def hasDisc (arrivals : List (List Nat)) : Bool :=
  arrivals.any fun b => match decode (b.take MAX_FRAME_SIZE) with
    | some .disconnect => true
    | _ => false

theorem hasTraffic_snoc_none (pre : List (List Nat)) (b : List Nat) (h : decode (b.take MAX_FRAME_SIZE) = none) :
    hasTraffic (pre ++ [b]) = hasTraffic pre := by
  simp [hasTraffic, h]

theorem hasTraffic_snoc_some (pre : List (List Nat)) (b : List Nat) (f : Frame)
    (h : decode (b.take MAX_FRAME_SIZE) = some f) :
    hasTraffic (pre ++ [b]) = (hasTraffic pre || isTraffic f) := by
  simp [hasTraffic, h]

theorem hasDisc_snoc_none (pre : List (List Nat)) (b : List Nat) (h : decode (b.take MAX_FRAME_SIZE) = none) :
    hasDisc (pre ++ [b]) = hasDisc pre := by
  simp [hasDisc, h]

theorem hasDisc_snoc_some (pre : List (List Nat)) (b : List Nat) (f : Frame)
    (h : decode (b.take MAX_FRAME_SIZE) = some f) :
    hasDisc (pre ++ [b]) = (hasDisc pre || decide (f = .disconnect)) := by
  cases f <;> simp [hasDisc, h]

/-- The arrivals of one step, started in `active`: either the connection is still `active`, its
timeout refreshed iff a data/sync/ack frame arrived, no event; or a `disconnect` frame closed it. -/
theorem Client.arrivalsPhase_active (hc : HC H) (c c' : Client H) (nowMs nowNs : Nat)
    (arrivals sent : List (List Nat)) (ln : Nat) (hh : H) (t : Nat) (sig : Option DisconnectMode)
    (hs : c.state = .active ln hh t sig)
    (h : c.arrivalsPhase hc nowMs nowNs arrivals = .ok (c', sent)) :
    (hasDisc arrivals = false ∧ c'.eventsOut = c.eventsOut ∧ c'.ep = c.ep ∧ c'.timeBase = c.timeBase ∧
      ∃ h', c'.state = .active ln h' (if hasTraffic arrivals then nowMs + c.ep.activeTimeoutMs else t) sig) ∨
    (hasDisc arrivals = true ∧ c'.state.terminal ∧
      ∃ pkts : List (List Nat), c'.eventsOut = c.eventsOut ++ pkts.map CEvent.receive ++ [CEvent.disconnect]) := by
  refine Client.arrivalsPhase_induct' hc nowMs nowNs
    (fun pre x _ =>
      (hasDisc pre = false ∧ x.eventsOut = c.eventsOut ∧ x.ep = c.ep ∧ x.timeBase = c.timeBase ∧
        ∃ h', x.state = .active ln h' (if hasTraffic pre then nowMs + c.ep.activeTimeoutMs else t) sig) ∨
      (hasDisc pre = true ∧ x.state.terminal ∧
        ∃ pkts : List (List Nat), x.eventsOut = c.eventsOut ++ pkts.map CEvent.receive ++ [CEvent.disconnect]))
    ?_ ?_ arrivals c c' sent (Or.inl ⟨rfl, rfl, rfl, rfl, hh, by simpa [hasTraffic] using hs⟩) h
  · intro pre b x s hp hd
    rw [hasDisc_snoc_none pre b hd, hasTraffic_snoc_none pre b hd]
    exact hp
  · intro pre b x s f x' out hp hd hf
    rw [hasDisc_snoc_some pre b f hd, hasTraffic_snoc_some pre b f hd]
    rcases hp with ⟨hnd, hev, hep, htb, h', hsx⟩ | ⟨hdisc, ht, pkts, hev⟩
    · rw [Client.handleFrame_active hc x f nowMs nowNs ln h' _ sig hsx] at hf
      have traffic : ∀ f', isTraffic f' = true → ((match hc.dispatch h' f' with
          | .error e => .error e
          | .ok h'' => .ok ({ x with state := .active ln h'' (nowMs + x.ep.activeTimeoutMs) sig }, [])) : R (Client H × List (List Nat)))
            = .ok (x', out) → f' ≠ .disconnect →
          (((hasDisc pre || decide (f' = .disconnect)) = false ∧ x'.eventsOut = c.eventsOut ∧ x'.ep = c.ep ∧ x'.timeBase = c.timeBase ∧
            ∃ h', x'.state = .active ln h' (if (hasTraffic pre || isTraffic f') = true then nowMs + c.ep.activeTimeoutMs else t) sig) ∨
          ((hasDisc pre || decide (f' = .disconnect)) = true ∧ x'.state.terminal ∧
            ∃ pkts : List (List Nat), x'.eventsOut = c.eventsOut ++ pkts.map CEvent.receive ++ [CEvent.disconnect])) := by
        intro f' hf' h hne
        split at h <;> cases h
        next h'' _ =>
        exact Or.inl ⟨by simp [hnd, hne], hev, hep, htb, h'', by simp [hf', hep]⟩
      cases f with
      | disconnect =>
        simp only at hf
        split at hf <;> cases hf
        next pk _ =>
        exact Or.inr ⟨by simp, Or.inr ⟨_, rfl⟩, pk, by simp [hev]⟩
      | data sid nn dgs => exact traffic _ rfl hf (by simp)
      | sync a b => exact traffic _ rfl hf (by simp)
      | ack a b c => exact traffic _ rfl hf (by simp)
      | _ =>
        cases hf
        exact Or.inl ⟨by simp [hnd], hev, hep, htb, h', by simpa [isTraffic] using hsx⟩
    · obtain ⟨rfl, -, -⟩ := Client.handleFrame_terminal hc x x' f nowMs nowNs out ht hf
      exact Or.inr ⟨by simp [hdisc], ht, pkts, hev⟩


/-- The activity deadline after the arrivals of a step at `nowMs`, for a connection that was
`active` with deadline `t` before. -/
def Client.deadlineAfter (c : Client H) (nowMs t : Nat) (arrivals : List (List Nat)) : Nat :=
  if hasTraffic arrivals then nowMs + c.ep.activeTimeoutMs else t

/-- One step from `active` (event buffer empty): the four possible outcomes. -/
theorem Client.step_active (hc : HC H) (c c' : Client H) (nowNs : Nat) (arrivals sent : List (List Nat))
    (evs : List CEvent) (ln : Nat) (hh : H) (t : Nat) (sig : Option DisconnectMode)
    (hs : c.state = .active ln hh t sig) (he : c.eventsOut = [])
    (h : c.step hc nowNs arrivals = .ok (c', sent, evs)) :
    c'.eventsOut = [] ∧
    (-- timeout
     (hasDisc arrivals = false ∧ c.nowMs nowNs ≥ c.deadlineAfter (c.nowMs nowNs) t arrivals ∧
        c'.state = .fin ∧ evs = [CEvent.error .timeout]) ∨
     -- disconnect request sent
     (hasDisc arrivals = false ∧ c.nowMs nowNs < c.deadlineAfter (c.nowMs nowNs) t arrivals ∧
        ∃ h2 h3 pkts pre, discGate hc sig h2 = true ∧ hc.receive h2 = .ok (h3, pkts) ∧
          c'.state = .closing discReq (c.nowMs nowNs + CLIENT_DISCONNECT_RESEND_INTERVAL_MS) CLIENT_DISCONNECT_RESEND_COUNT ∧
          evs = pkts.map CEvent.receive ∧ sent = pre ++ [discReq]) ∨
     -- still active
     (hasDisc arrivals = false ∧ c.nowMs nowNs < c.deadlineAfter (c.nowMs nowNs) t arrivals ∧
        ∃ h2 h3 h4 pkts, discGate hc sig h2 = false ∧ hc.step h2 nowNs = .ok h3 ∧ hc.receive h3 = .ok (h4, pkts) ∧
          c'.state = .active ln h4 (c.deadlineAfter (c.nowMs nowNs) t arrivals) sig ∧
          evs = pkts.map CEvent.receive) ∨
     -- closed by the peer
     (hasDisc arrivals = true ∧ c'.state.terminal ∧
        ∃ pkts : List (List Nat), evs = pkts.map CEvent.receive ++ [CEvent.disconnect])) := by
  obtain ⟨c1, s1, c2, s2, c4, s4, h1, h2, h4, rfl, rfl, rfl⟩ := Client.step_phases hc c c' nowNs arrivals sent evs h
  rw [Client.flush_active hc c ln hh t sig hs] at h1
  split at h1
  · cases h1
  next h1' rng1 fr hfl =>
  cases h1
  refine ⟨rfl, ?_⟩
  rcases Client.arrivalsPhase_active hc _ c2 _ nowNs arrivals s2 ln h1' t sig rfl h2 with
    ⟨hnd, hev, hep, htb, h2', hs2⟩ | ⟨hd, ht, pkts, hev⟩
  · simp only at hev hep htb hs2
    rw [Client.handleEvents_active c2 _ ln h2' _ sig hs2] at h4 ⊢
    unfold Client.deadlineAfter
    by_cases hge : c.nowMs nowNs ≥ (if hasTraffic arrivals = true then c.nowMs nowNs + c.ep.activeTimeoutMs else t)
    · rw [if_pos hge] at h4 ⊢
      rw [Client.stepPhase_not_active hc _ _ nowNs (by intro _ _ _ _ h; cases h)] at h4
      cases h4
      exact Or.inl ⟨hnd, hge, rfl, by simp [hev, he]⟩
    · rw [if_neg hge] at h4 ⊢
      rw [Client.stepPhase_active hc c2 _ nowNs ln h2' _ sig hs2] at h4
      split at h4
      · next hg =>
        split at h4
        · cases h4
        next h3 pk hr =>
        cases h4
        exact Or.inr (Or.inl ⟨hnd, by omega, h2', h3, pk, _, hg, hr, rfl, by simp [hev, he], rfl⟩)
      · next hg =>
        split at h4
        · cases h4
        next h3 hst =>
        split at h4
        · cases h4
        next h4' pk hr =>
        cases h4
        exact Or.inr (Or.inr (Or.inl ⟨hnd, by omega, h2', h3, h4', pk, by simpa using hg, hst, hr, rfl, by simp [hev, he]⟩))
  · obtain ⟨ht3, he3, hs3, -⟩ := Client.handleEvents_terminal c2 (c.nowMs nowNs) ht
    rw [Client.stepPhase_not_active hc _ _ nowNs (CState.terminal_not_active ht3)] at h4
    cases h4
    exact Or.inr (Or.inr (Or.inr ⟨hd, ht3, pkts, by rw [he3, hev]; simp [he]⟩))


/-! ## All transitions of `handleFrame` -/

/-- Every successful `handleFrame` is one of these nine transitions. -/
theorem Client.handleFrame_cases (hc : HC H) (c c' : Client H) (f : Frame) (nowMs nowNs : Nat)
    (out : List (List Nat)) (h : c.handleFrame hc f nowMs nowNs = .ok (c', out)) :
    -- ignored
    (c' = c ∧ out = []) ∨
    -- handshake completed
    (∃ ln req rt rc sends n r p a, c.state = .pending ln req rt rc sends ∧ f = .synAck ln n r p a ∧
      c' = { c with eventsOut := c.eventsOut ++ [CEvent.connect],
                    state := .active ln
                      (sends.foldl (fun h (e : List Nat × Nat × SendMode) => hc.send h e.1 e.2.1 e.2.2)
                        (hc.new (hcConfig c.ep ln n r a) nowNs))
                      c.ep.activeTimeoutMs none } ∧
      out = [encode (.hsAck n)]) ∨
    -- duplicate SYN-ACK: the ack is sent again
    (∃ ln hh t sig n r p a, c.state = .active ln hh t sig ∧ f = .synAck ln n r p a ∧ c' = c ∧
      out = [encode (.hsAck n)]) ∨
    -- handshake refused
    (∃ ln req rt rc sends e, c.state = .pending ln req rt rc sends ∧ f = .hsError ln e ∧
      c' = { c with eventsOut := c.eventsOut ++ [CEvent.error (errOfHs e)], state := .fin } ∧ out = []) ∨
    -- disconnect request while active
    (∃ ln hh t sig h' pkts, c.state = .active ln hh t sig ∧ f = .disconnect ∧ hc.receive hh = .ok (h', pkts) ∧
      c' = { c with eventsOut := c.eventsOut ++ pkts.map CEvent.receive ++ [CEvent.disconnect],
                    state := .closed (nowMs + CLIENT_CLOSED_TIMEOUT_MS) } ∧ out = [discAck]) ∨
    -- crossing disconnect requests
    (∃ req rt rc, c.state = .closing req rt rc ∧ f = .disconnect ∧
      c' = { c with eventsOut := c.eventsOut ++ [CEvent.disconnect], state := .closed (nowMs + CLIENT_CLOSED_TIMEOUT_MS) } ∧
      out = [discAck]) ∨
    -- repeated disconnect request while closed: acknowledged again
    (∃ t, c.state = .closed t ∧ f = .disconnect ∧ c' = c ∧ out = [discAck]) ∨
    -- our disconnect request acknowledged
    (∃ req rt rc, c.state = .closing req rt rc ∧ f = .disconnectAck ∧
      c' = { c with eventsOut := c.eventsOut ++ [CEvent.disconnect], state := .fin } ∧ out = []) ∨
    -- data / sync / ack while active
    (∃ ln hh t sig h', c.state = .active ln hh t sig ∧ isTraffic f = true ∧ hc.dispatch hh f = .ok h' ∧
      c' = { c with state := .active ln h' (nowMs + c.ep.activeTimeoutMs) sig } ∧ out = []) := by
  cases hs : c.state with
  | fin =>
    rw [Client.handleFrame_fin hc c f nowMs nowNs hs] at h
    cases h; exact Or.inl ⟨rfl, rfl⟩
  | closed t =>
    rw [Client.handleFrame_closed hc c f nowMs nowNs t hs] at h
    cases h
    by_cases hf : f = .disconnect
    · subst hf
      exact Or.inr (Or.inr (Or.inr (Or.inr (Or.inr (Or.inr (Or.inl ⟨t, rfl, rfl, rfl, rfl⟩))))))
    · exact Or.inl ⟨rfl, by simp [hf]⟩
  | closing req rt rc =>
    rw [Client.handleFrame_closing hc c f nowMs nowNs req rt rc hs] at h
    cases f <;> cases h <;> first
      | exact Or.inl ⟨rfl, rfl⟩
      | exact Or.inr (Or.inr (Or.inr (Or.inr (Or.inr (Or.inl ⟨req, rt, rc, rfl, rfl, rfl, rfl⟩)))))
      | exact Or.inr (Or.inr (Or.inr (Or.inr (Or.inr (Or.inr (Or.inr (Or.inl ⟨req, rt, rc, rfl, rfl, rfl, rfl⟩)))))))
  | pending ln req rt rc sends =>
    rw [Client.handleFrame_pending hc c f nowMs nowNs ln req rt rc sends hs] at h
    cases f with
    | synAck na n r p a =>
      simp only at h
      split at h <;> cases h
      · next hna => subst hna; exact Or.inr (Or.inl ⟨_, req, rt, rc, sends, n, r, p, a, rfl, rfl, rfl, rfl⟩)
      · exact Or.inl ⟨rfl, rfl⟩
    | hsError na e =>
      simp only at h
      split at h <;> cases h
      · next hna => subst hna; exact Or.inr (Or.inr (Or.inr (Or.inl ⟨_, req, rt, rc, sends, e, rfl, rfl, rfl, rfl⟩)))
      · exact Or.inl ⟨rfl, rfl⟩
    | _ => cases h; exact Or.inl ⟨rfl, rfl⟩
  | active ln hh t sig =>
    rw [Client.handleFrame_active hc c f nowMs nowNs ln hh t sig hs] at h
    have traffic : ∀ f', isTraffic f' = true → ((match hc.dispatch hh f' with
        | .error e => .error e
        | .ok h' => .ok ({ c with state := .active ln h' (nowMs + c.ep.activeTimeoutMs) sig }, [])) : R (Client H × List (List Nat)))
          = .ok (c', out) →
        ∃ ln' hh' t' sig' h', CState.active ln hh t sig = CState.active ln' hh' t' sig' ∧ isTraffic f' = true ∧ hc.dispatch hh' f' = .ok h' ∧
          c' = { c with state := .active ln' h' (nowMs + c.ep.activeTimeoutMs) sig' } ∧ out = [] := by
      intro f' hf' h
      split at h <;> cases h
      next h'' hd => exact ⟨ln, hh, t, sig, h'', rfl, hf', hd, rfl, rfl⟩
    cases f with
    | synAck na n r p a =>
      cases h
      by_cases hna : na = ln
      · subst hna
        exact Or.inr (Or.inr (Or.inl ⟨_, hh, t, sig, n, r, p, a, rfl, rfl, rfl, by simp⟩))
      · exact Or.inl ⟨rfl, by simp [hna]⟩
    | disconnect =>
      simp only at h
      split at h <;> cases h
      next h' pk hr =>
      exact Or.inr (Or.inr (Or.inr (Or.inr (Or.inl ⟨ln, hh, t, sig, h', pk, rfl, rfl, hr, rfl, rfl⟩))))
    | data sid nn dgs => exact Or.inr (Or.inr (Or.inr (Or.inr (Or.inr (Or.inr (Or.inr (Or.inr (traffic _ rfl h))))))))
    | sync a b => exact Or.inr (Or.inr (Or.inr (Or.inr (Or.inr (Or.inr (Or.inr (Or.inr (traffic _ rfl h))))))))
    | ack a b c => exact Or.inr (Or.inr (Or.inr (Or.inr (Or.inr (Or.inr (Or.inr (Or.inr (traffic _ rfl h))))))))
    | _ => cases h; exact Or.inl ⟨rfl, rfl⟩

end Uflow.Endpoint
