import Uflow.Lemmas.EndpointClient

/-!
Client endpoint: every transition is accepted by the event-stream monitor (`CTr`), lifted to steps
and runs.
-/

namespace Uflow.Endpoint

open Uflow.Gen Uflow.Codec Uflow.HalfConn

variable {H : Type}

theorem Client.handleFrame_CTr (hc : HC H) (c c' : Client H) (f : Frame) (nowMs nowNs : Nat)
    (out : List (List Nat)) (h : c.handleFrame hc f nowMs nowNs = .ok (c', out)) : CTr c c' := by
  cases hs : c.state with
  | fin =>
    rw [Client.handleFrame_fin hc c f nowMs nowNs hs] at h
    cases h; exact CTr.refl c
  | closed t =>
    rw [Client.handleFrame_closed hc c f nowMs nowNs t hs] at h
    cases h; exact CTr.refl c
  | closing req rt rc =>
    rw [Client.handleFrame_closing hc c f nowMs nowNs req rt rc hs] at h
    cases f <;> cases h <;> first
      | exact CTr.refl c
      | (refine ⟨rfl, rfl, [CEvent.disconnect], rfl, fun p hp => ?_⟩
         simp only [Compat, hs] at hp; subst hp
         exact ⟨.done, rfl, by simp [Compat]⟩)
  | pending ln req rt rc sends =>
    rw [Client.handleFrame_pending hc c f nowMs nowNs ln req rt rc sends hs] at h
    cases f with
    | synAck na n r p a =>
      simp only at h
      split at h
      · cases h
        refine ⟨rfl, rfl, [CEvent.connect], rfl, fun p hp => ?_⟩
        simp only [Compat, hs] at hp; subst hp
        exact ⟨.conn, rfl, by simp [Compat]⟩
      · cases h; exact CTr.refl c
    | hsError na e =>
      simp only at h
      split at h
      · cases h
        refine ⟨rfl, rfl, [CEvent.error (errOfHs e)], rfl, fun p hp => ?_⟩
        simp only [Compat, hs] at hp; subst hp
        exact ⟨.done, rfl, by simp [Compat]⟩
      · cases h; exact CTr.refl c
    | _ => cases h; exact CTr.refl c
  | active ln hh t sig =>
    rw [Client.handleFrame_active hc c f nowMs nowNs ln hh t sig hs] at h
    have traffic : ∀ f', ((match hc.dispatch hh f' with
        | .error e => .error e
        | .ok h' => .ok ({ c with state := .active ln h' (nowMs + c.ep.activeTimeoutMs) sig }, [])) : R (Client H × List (List Nat)))
          = .ok (c', out) → CTr c c' := by
      intro f' h
      split at h
      · cases h
      · cases h
        exact CTr.silent rfl rfl rfl (fun p hp => by simpa [Compat, hs] using hp)
    cases f with
    | synAck na n r p a => cases h; exact CTr.refl c
    | disconnect =>
      simp only at h
      split at h
      · cases h
      · cases h
        refine ⟨rfl, rfl, _, List.append_assoc _ _ _, fun p hp => ?_⟩
        simp only [Compat, hs] at hp; subst hp
        exact ⟨.done, by rw [CPhase.run_conn_recv]; rfl, by simp [Compat]⟩
    | data sid nn dgs => exact traffic _ h
    | sync a b => exact traffic _ h
    | ack a b c => exact traffic _ h
    | _ => cases h; exact CTr.refl c


theorem Client.handleEvents_CTr (c : Client H) (nowMs : Nat) : CTr c (c.handleEvents nowMs).1 := by
  cases hs : c.state with
  | fin => rw [Client.handleEvents_fin c nowMs hs]; exact CTr.refl c
  | closed t =>
    rw [Client.handleEvents_closed c nowMs t hs]
    simp only
    split
    · exact CTr.silent rfl rfl rfl (fun p hp => by simp only [Compat, hs] at hp; subst hp; simp [Compat])
    · exact CTr.refl c
  | closing req rt rc =>
    rw [Client.handleEvents_closing c nowMs req rt rc hs]
    split
    · split
      · exact CTr.silent rfl rfl rfl (fun p hp => by simpa [Compat, hs] using hp)
      · refine ⟨rfl, rfl, [CEvent.error .timeout], rfl, fun p hp => ?_⟩
        simp only [Compat, hs] at hp; subst hp
        exact ⟨.done, rfl, by simp [Compat]⟩
    · exact CTr.refl c
  | pending ln req rt rc sends =>
    rw [Client.handleEvents_pending c nowMs ln req rt rc sends hs]
    split
    · split
      · exact CTr.silent rfl rfl rfl (fun p hp => by simpa [Compat, hs] using hp)
      · refine ⟨rfl, rfl, [CEvent.error .timeout], rfl, fun p hp => ?_⟩
        simp only [Compat, hs] at hp; subst hp
        exact ⟨.done, rfl, by simp [Compat]⟩
    · exact CTr.refl c
  | active ln h t sig =>
    rw [Client.handleEvents_active c nowMs ln h t sig hs]
    split
    · refine ⟨rfl, rfl, [CEvent.error .timeout], rfl, fun p hp => ?_⟩
      simp only [Compat, hs] at hp; subst hp
      exact ⟨.done, rfl, by simp [Compat]⟩
    · exact CTr.refl c

theorem CState.active_or_not (s : CState H) :
    (∃ ln h t sig, s = .active ln h t sig) ∨ (∀ ln h t sig, s ≠ .active ln h t sig) := by
  cases s <;> simp

theorem Client.stepPhase_CTr (hc : HC H) (c c' : Client H) (nowMs nowNs : Nat) (out : List (List Nat))
    (h : c.stepPhase hc nowMs nowNs = .ok (c', out)) : CTr c c' := by
  rcases CState.active_or_not c.state with ⟨ln, hh, t, sig, hs⟩ | hna
  · rw [Client.stepPhase_active hc c nowMs nowNs ln hh t sig hs] at h
    split at h
    · split at h
      · cases h
      · cases h
        refine ⟨rfl, rfl, _, rfl, fun p hp => ?_⟩
        simp only [Compat, hs] at hp; subst hp
        exact ⟨.conn, CPhase.run_conn_recv' _, by simp [Compat]⟩
    · split at h
      · cases h
      · split at h
        · cases h
        · cases h
          refine ⟨rfl, rfl, _, rfl, fun p hp => ?_⟩
          simp only [Compat, hs] at hp; subst hp
          exact ⟨.conn, CPhase.run_conn_recv' _, by simp [Compat]⟩
  · rw [Client.stepPhase_not_active hc c nowMs nowNs hna] at h
    cases h; exact CTr.refl c

theorem Client.flush_CTr (hc : HC H) (c c' : Client H) (out : List (List Nat))
    (h : c.flush hc = .ok (c', out)) : CTr c c' := by
  rcases CState.active_or_not c.state with ⟨ln, hh, t, sig, hs⟩ | hna
  · rw [Client.flush_active hc c ln hh t sig hs] at h
    split at h
    · cases h
    · cases h
      exact CTr.silent rfl rfl rfl (fun p hp => by simpa [Compat, hs] using hp)
  · rw [Client.flush_not_active hc c hna] at h
    cases h; exact CTr.refl c

theorem Client.send_CTr (hc : HC H) (c : Client H) (d : List Nat) (ch : Nat) (m : SendMode) :
    CTr c (c.send hc d ch m) := by
  unfold Client.send
  split
  · next hs => exact CTr.silent rfl rfl rfl (fun p hp => by simpa [Compat, hs] using hp)
  · next hs => exact CTr.silent rfl rfl rfl (fun p hp => by simpa [Compat, hs] using hp)
  · exact CTr.refl c

theorem Client.disconnect_CTr (c : Client H) (m : DisconnectMode) : CTr c (c.disconnect m) := by
  unfold Client.disconnect
  split
  · next hs => exact CTr.silent rfl rfl rfl (fun p hp => by simp only [Compat, hs] at hp; subst hp; simp [Compat])
  · next hs => exact CTr.silent rfl rfl rfl (fun p hp => by simpa [Compat, hs] using hp)
  · exact CTr.refl c

/-- Induction principle for the arrivals loop. -/
theorem Client.arrivalsPhase_induct (hc : HC H) (nowMs nowNs : Nat)
    (P : Client H → List (List Nat) → Prop)
    (step : ∀ c s f c' out, P c s → c.handleFrame hc f nowMs nowNs = .ok (c', out) → P c' (s ++ out))
    (arrivals : List (List Nat)) (c : Client H) (s : List (List Nat)) (c' : Client H) (s' : List (List Nat))
    (h0 : P c s)
    (h : arrivals.foldlM (Client.frameStep hc nowMs nowNs) (c, s) = .ok (c', s')) : P c' s' := by
  induction arrivals generalizing c s with
  | nil => simp only [List.foldlM_nil, pure, Except.pure] at h; cases h; exact h0
  | cons b bs ih =>
    simp only [List.foldlM_cons, bind, Except.bind] at h
    split at h
    · cases h
    · next acc hacc =>
      obtain ⟨c1, s1⟩ := acc
      refine ih c1 s1 ?_ h
      unfold Client.frameStep at hacc
      split at hacc
      · cases hacc; exact h0
      · split at hacc
        · cases hacc
        · next c2 o2 hf => cases hacc; exact step _ _ _ _ _ h0 hf

theorem Client.arrivalsPhase_CTr (hc : HC H) (c c' : Client H) (nowMs nowNs : Nat)
    (arrivals sent : List (List Nat)) (h : c.arrivalsPhase hc nowMs nowNs arrivals = .ok (c', sent)) :
    CTr c c' :=
  Client.arrivalsPhase_induct hc nowMs nowNs (fun x _ => CTr c x)
    (fun _ _ _ _ _ hp hf => CTr.trans hp (Client.handleFrame_CTr hc _ _ _ _ _ _ hf))
    arrivals c [] c' sent (CTr.refl c) h

/-- Shape of a successful `Client.step`: the four phases, with the intermediate states. -/
theorem Client.step_phases (hc : HC H) (c c' : Client H) (nowNs : Nat) (arrivals sent : List (List Nat))
    (evs : List CEvent) (h : c.step hc nowNs arrivals = .ok (c', sent, evs)) :
    ∃ c1 s1 c2 s2 c4 s4,
      c.flush hc = .ok (c1, s1) ∧
      c1.arrivalsPhase hc (c.nowMs nowNs) nowNs arrivals = .ok (c2, s2) ∧
      (c2.handleEvents (c.nowMs nowNs)).1.stepPhase hc (c.nowMs nowNs) nowNs = .ok (c4, s4) ∧
      c' = { c4 with eventsOut := [] } ∧
      sent = s1 ++ s2 ++ (c2.handleEvents (c.nowMs nowNs)).2 ++ s4 ∧
      evs = c4.eventsOut := by
  rw [Client.step_eq] at h
  split at h
  · cases h
  · next c1 s1 h1 =>
    split at h
    · cases h
    · next c2 s2 h2 =>
      split at h
      · cases h
      · next c4 s4 h4 =>
        cases h
        exact ⟨c1, s1, c2, s2, c4, s4, h1, h2, h4, rfl, rfl, rfl⟩

theorem Client.step_CTr (hc : HC H) (c c' : Client H) (nowNs : Nat) (arrivals sent : List (List Nat))
    (evs : List CEvent) (h : c.step hc nowNs arrivals = .ok (c', sent, evs)) :
    ∃ c4, CTr c c4 ∧ evs = c4.eventsOut ∧ c' = { c4 with eventsOut := [] } := by
  obtain ⟨c1, s1, c2, s2, c4, s4, h1, h2, h4, hc', -, he⟩ := Client.step_phases hc c c' nowNs arrivals sent evs h
  exact ⟨c4, CTr.trans (Client.flush_CTr hc _ _ _ h1) (CTr.trans (Client.arrivalsPhase_CTr hc _ _ _ _ _ _ h2)
    (CTr.trans (Client.handleEvents_CTr c2 _) (Client.stepPhase_CTr hc _ _ _ _ _ h4))), he, hc'⟩

/-- One API call from a state with an empty event buffer: the delivered events are accepted by the
monitor and the event buffer is empty again. -/
theorem Client.apply_monitor (hc : HC H) (c c' : Client H) (op : COp) (sent : List (List Nat)) (evs : List CEvent)
    (h : c.apply hc op = .ok (c', sent, evs)) (he : c.eventsOut = []) (p : CPhase) (hp : Compat c.state p) :
    c'.eventsOut = [] ∧ ∃ p', p.run evs = some p' ∧ Compat c'.state p' := by
  have key : ∀ x : Client H, CTr c x → x.eventsOut = [] → Compat x.state p := by
    intro x ⟨_, _, e, hx, hm⟩ hx0
    rw [he, hx0] at hx
    have : e = [] := by simpa using hx.symm
    subst this
    obtain ⟨p', hr, hc'⟩ := hm p hp
    cases hr; exact hc'
  cases op with
  | step n a =>
    obtain ⟨c4, ⟨_, _, e, hx, hm⟩, hev, hc'⟩ := Client.step_CTr hc c c' n a sent evs h
    subst hc'
    refine ⟨rfl, ?_⟩
    rw [he, List.nil_append] at hx
    rw [hev, hx]
    exact hm p hp
  | send d ch m =>
    cases h
    have h1 := Client.send_CTr hc c d ch m
    have h0 : (c.send hc d ch m).eventsOut = [] := by
      unfold Client.send; split <;> exact he
    exact ⟨h0, p, rfl, key _ h1 h0⟩
  | disconnect m =>
    cases h
    have h1 := Client.disconnect_CTr c m
    have h0 : (c.disconnect m).eventsOut = [] := by
      unfold Client.disconnect; split <;> exact he
    exact ⟨h0, p, rfl, key _ h1 h0⟩
  | flush =>
    simp only [Client.apply] at h
    split at h
    · cases h
    · next c1 s1 hf =>
      cases h
      have h1 := Client.flush_CTr hc c c' sent hf
      have h0 : c'.eventsOut = [] := by
        rcases CState.active_or_not c.state with ⟨ln, hh, t, sig, hs⟩ | hna
        · rw [Client.flush_active hc c ln hh t sig hs] at hf
          split at hf
          · cases hf
          · cases hf; exact he
        · rw [Client.flush_not_active hc c hna] at hf
          cases hf; exact he
      exact ⟨h0, p, rfl, key _ h1 h0⟩

/-- Runs: the delivered event stream is accepted by the monitor, started in any phase compatible
with the initial state. -/
theorem Client.run_monitor (hc : HC H) (ops : List COp) (c c' : Client H) (sent : List (List Nat)) (evs : List CEvent)
    (h : Client.run hc c ops = .ok (c', sent, evs)) (he : c.eventsOut = []) (p : CPhase) (hp : Compat c.state p) :
    c'.eventsOut = [] ∧ ∃ p', p.run evs = some p' ∧ Compat c'.state p' := by
  induction ops generalizing c p sent evs with
  | nil => cases h; exact ⟨he, p, rfl, hp⟩
  | cons op ops ih =>
    simp only [Client.run] at h
    split at h
    · cases h
    · next c1 s1 e1 h1 =>
      split at h
      · cases h
      · next c2 s2 e2 h2 =>
        cases h
        obtain ⟨he1, p1, hr1, hc1⟩ := Client.apply_monitor hc c c1 op s1 e1 h1 he p hp
        obtain ⟨he2, p2, hr2, hc2⟩ := ih c1 s2 e2 h2 he1 p1 hc1
        exact ⟨he2, p2, by rw [CPhase.run_append, hr1]; exact hr2, hc2⟩


theorem Client.apply_same (hc : HC H) (c c' : Client H) (op : COp) (sent : List (List Nat)) (evs : List CEvent)
    (h : c.apply hc op = .ok (c', sent, evs)) : c'.ep = c.ep ∧ c'.timeBase = c.timeBase := by
  cases op with
  | step n a =>
    obtain ⟨c4, ⟨h1, h2, -⟩, -, hc'⟩ := Client.step_CTr hc c c' n a sent evs h
    subst hc'; exact ⟨h1, h2⟩
  | send d ch m => cases h; exact ⟨(Client.send_CTr hc c d ch m).1, (Client.send_CTr hc c d ch m).2.1⟩
  | disconnect m => cases h; exact ⟨(Client.disconnect_CTr c m).1, (Client.disconnect_CTr c m).2.1⟩
  | flush =>
    simp only [Client.apply] at h
    split at h
    · cases h
    · next c1 s1 hf =>
      cases h
      exact ⟨(Client.flush_CTr hc c c' sent hf).1, (Client.flush_CTr hc c c' sent hf).2.1⟩

/-! ## Shape of accepted streams -/

theorem CPhase.run_done (evs : List CEvent) (p : CPhase) (h : CPhase.run .done evs = some p) :
    evs = [] ∧ p = .done := by
  cases evs with
  | nil => cases h; exact ⟨rfl, rfl⟩
  | cons e es => cases e <;> simp [CPhase.run, CPhase.next] at h

theorem CPhase.run_conn (evs : List CEvent) (p : CPhase) (h : CPhase.run .conn evs = some p) :
    ∃ (pkts : List (List Nat)) (tail : List CEvent), evs = pkts.map CEvent.receive ++ tail ∧
      ((tail = [] ∧ p = .conn) ∨
       ((tail = [CEvent.disconnect] ∨ tail = [CEvent.error .timeout]) ∧ p = .done)) := by
  induction evs with
  | nil => cases h; exact ⟨[], [], rfl, Or.inl ⟨rfl, rfl⟩⟩
  | cons e es ih =>
    cases e with
    | connect => simp [CPhase.run, CPhase.next] at h
    | disconnect =>
      simp only [CPhase.run, CPhase.next] at h
      obtain ⟨rfl, rfl⟩ := CPhase.run_done es p h
      exact ⟨[], _, rfl, Or.inr ⟨Or.inl rfl, rfl⟩⟩
    | receive d =>
      simp only [CPhase.run, CPhase.next] at h
      obtain ⟨pkts, tail, rfl, ht⟩ := ih h
      exact ⟨d :: pkts, tail, rfl, ht⟩
    | error e =>
      cases e <;> simp only [CPhase.run, CPhase.next] at h <;> try cases h
      obtain ⟨rfl, rfl⟩ := CPhase.run_done es p h
      exact ⟨[], _, rfl, Or.inr ⟨Or.inr rfl, rfl⟩⟩

theorem CPhase.run_idle (evs : List CEvent) (p : CPhase) (h : CPhase.run .idle evs = some p) :
    (evs = [] ∧ p = .idle) ∨ (∃ e, evs = [CEvent.error e] ∧ p = .done) ∨
    ∃ (pkts : List (List Nat)) (tail : List CEvent), evs = CEvent.connect :: (pkts.map CEvent.receive ++ tail) ∧
      ((tail = [] ∧ p = .conn) ∨
       ((tail = [CEvent.disconnect] ∨ tail = [CEvent.error .timeout]) ∧ p = .done)) := by
  cases evs with
  | nil => cases h; exact Or.inl ⟨rfl, rfl⟩
  | cons e es =>
    cases e with
    | connect =>
      simp only [CPhase.run, CPhase.next] at h
      obtain ⟨pkts, tail, rfl, ht⟩ := CPhase.run_conn es p h
      exact Or.inr (Or.inr ⟨pkts, tail, rfl, ht⟩)
    | disconnect => simp [CPhase.run, CPhase.next] at h
    | receive d => simp [CPhase.run, CPhase.next] at h
    | error e =>
      simp only [CPhase.run, CPhase.next] at h
      obtain ⟨rfl, rfl⟩ := CPhase.run_done es p h
      exact Or.inr (Or.inl ⟨e, rfl, rfl⟩)

/-- `Connect? Receive* (Disconnect|Error)?` -/
def ClientStreamRegex (evs : List CEvent) : Prop :=
  ∃ pre mid post, evs = pre ++ mid ++ post ∧
    (pre = [] ∨ pre = [CEvent.connect]) ∧
    (∀ e ∈ mid, ∃ d, e = CEvent.receive d) ∧
    (post = [] ∨ post = [CEvent.disconnect] ∨ ∃ e, post = [CEvent.error e])


end Uflow.Endpoint
