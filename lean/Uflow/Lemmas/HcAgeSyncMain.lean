import Uflow.Lemmas.HcAgeSyncStep

/-!
C01AgeSync, part 4: the frame-count hypothesis `FramesOk` — a frame of `wireAB` is handed to `B` only
while at most `Dfr` frames (of ANY kind: data, sync, ack) were appended to `wireAB` after it — implies the
packet-stamp hypothesis step by step (`ageOp_of_framesAll`: `pend.length ≤ advB + w ≤ topT wireT + w ≤
wireT[k] + w·Dfr + w`), hence `Guarded` (`guarded_of_framesAll`).
-/

namespace Uflow.HcAge

open Uflow Uflow.Gen Uflow.Codec Uflow.HalfConn Uflow.PSend Uflow.HcSys Uflow.HcFrm Uflow.HcCov Uflow.Sys
open Uflow.PRecv (bindR bindR_ok)
open Uflow.Rate (FloatOps)

variable {F : Type}

/-- Frame-count age: the `k`-th frame of `wireAB` is handed to `B` only while at most `Dfr` frames were
appended to `wireAB` after it; for `wireBA` as `AgeOp D` (`B`'s base moved at most `D` ids since). -/
def FramesOp (Dfr D : Nat) (x : Aged F) : POp → Prop
  | .deliverAB k => x.h.wireAB.length ≤ k + 1 + Dfr
  | op => AgeOp D x op

instance (Dfr D : Nat) (x : Aged F) (op : POp) : Decidable (FramesOp Dfr D x op) := by
  cases op <;> simp only [FramesOp] <;> infer_instance

def FramesOk (ops : FloatOps F) (Dfr D : Nat) : Aged F → List POp → Prop
  | _, [] => True
  | x, op :: rest => FramesOp Dfr D x op ∧ ∀ x', stepG ops x op = .ok x' → FramesOk ops Dfr D x' rest

def framesOkB (ops : FloatOps F) (Dfr D : Nat) : Aged F → List POp → Bool
  | _, [] => true
  | x, op :: rest =>
    decide (FramesOp Dfr D x op) &&
    match stepG ops x op with
    | .ok x' => framesOkB ops Dfr D x' rest
    | .error _ => true

theorem framesOkB_sound (ops : FloatOps F) (Dfr D : Nat) (sched : List POp) (x : Aged F)
    (h : framesOkB ops Dfr D x sched = true) : FramesOk ops Dfr D x sched := by
  induction sched generalizing x with
  | nil => trivial
  | cons op rest ih =>
    simp only [framesOkB, Bool.and_eq_true, decide_eq_true_eq] at h
    refine ⟨h.1, fun x' hs => ?_⟩
    have h2 := h.2
    rw [hs] at h2
    exact ih x' h2

/-- The frame-count condition implies the packet-stamp condition, in a state satisfying the invariants. -/
theorem ageOp_of_framesAll {w k b a m Dfr D : Nat} (H : SHyp w k b) (hDfr : w * (Dfr + 1) ≤ D) {x : Aged F}
    {s : Sys} (hF : Full w k b a m x.h s) (hS : SyncInv w x) (op : POp) (h : FramesOp Dfr D x op) :
    AgeOp D x op := by
  cases op with
  | deliverAB kk =>
    simp only [FramesOp] at h
    simp only [AgeOp]
    split
    · rename_i T hT
      have pf := pfacts_of_full H hF
      have h1 := pf.win
      have h2 := hS.en
      have h3 := hS.st kk T hT
      rw [hF.fi.twl] at h3
      have hmul := Nat.mul_le_mul_left w (show x.h.wireAB.length - (kk + 1) ≤ Dfr by omega)
      rw [Nat.mul_add, Nat.mul_one] at hDfr
      omega
    · trivial
  | deliverBA kk => exact h
  | sendA d c mm => trivial
  | flushA => trivial
  | stepA now => trivial
  | recvB => trivial
  | flushB => trivial
  | stepB now => trivial

/-- **`FramesOk` implies `AgeOk` and `Guarded`**, along a run of any length that does not reuse frame
ids. -/
theorem guarded_of_framesAll {w k b a m Dfr D : Nat} (ops : FloatOps F) (H : SHyp w k b)
    (hDfr : w * (Dfr + 1) ≤ D) (hD : D + w + 2^k < 2^20)
    (sched : List POp) {x : Aged F} {h' : HcPair F} {s : Sys} (hF : Full w k b a m x.h s)
    (hA : AgeInv w x) (hS : SyncInv w x) (hfr : FramesOk ops Dfr D x sched)
    (hrun : runP ops x.h sched = .ok h') (hn : IdsNodup h'.wireAB) :
    Guarded ops x.h sched ∧ AgeOk ops D x sched ∧
      ∃ sops s' x', runS s sops = .ok s' ∧ runG ops x sched = .ok x' ∧ x'.h = h' ∧
        Full w k b a m h' s' ∧ AgeInv w x' ∧ SyncInv w x' := by
  induction sched generalizing x s with
  | nil => cases hrun; exact ⟨trivial, trivial, [], s, x, rfl, rfl, rfl, hF, hA, hS⟩
  | cons op rest ih =>
    rw [runP] at hrun
    cases hs : stepP ops x.h op with
    | error t => rw [hs] at hrun; cases hrun
    | ok h1 =>
      rw [hs, bindR_ok] at hrun
      obtain ⟨w2, e2⟩ := runP_wire_prefix ops rest h1 h' hrun
      have hn1 : IdsNodup h1.wireAB := by rw [e2] at hn; exact hn.of_prefix
      obtain ⟨hop, hrest⟩ := hfr
      have hage : AgeOp D x op := ageOp_of_framesAll H hDfr hF hS op hop
      have hok : OpOk x.h op := opOk_of_age H hD hF hA op hage
      obtain ⟨sops1, s1, r1, hF1⟩ := full_step ops H hF op hok hs hn1
      have hsG := stepG_of_stepP ops x op h1 hs
      have hA1 := ageInv_step ops H hF hF1 hA op hsG
      have hS1 := syncInv_step ops H hD hF hF1 hA hS op hage hsG
      obtain ⟨g2, a2, sops2, s2, x2, r2, rg2, e2', hF2, hA2, hS2⟩ := ih hF1 hA1 hS1 (hrest _ hsG) hrun
      refine ⟨⟨hok, ?_⟩, ⟨hage, ?_⟩, sops1 ++ sops2, s2, x2,
        by rw [HcSys.runS_append, r1, bindR_ok]; exact r2, ?_, e2', hF2, hA2, hS2⟩
      · intro h1' hs'
        rw [hs] at hs'
        cases hs'
        exact g2
      · intro x1' hs'
        rw [hsG] at hs'
        cases hs'
        exact a2
      · rw [runG, hsG, bindR_ok]; exact rg2

end Uflow.HcAge
