import Uflow.Lemmas.Codec

set_option linter.unusedSimpArgs false

/-!
C01Hc, part 3: what the parser returns on the three kinds of frames a half connection emits. Only the
fields that matter for the packet layer are pinned down; in particular nothing is assumed about frame
ids and ack groups (they need not be representable for these lemmas).
-/

namespace Uflow.Codec

open Uflow.Gen

theorem be32_mod (x : Nat) : be32 (x % 2^32) = be32 x := by
  unfold be32
  congr 1
  · omega
  · congr 1
    · omega
    · congr 1
      · omega
      · congr 1
        omega

theorem encode_data_mod (sid : Nat) (nonce : Bool) (dgs : List Datagram) :
    encode (.data (sid % 2^32) nonce dgs) = encode (.data sid nonce dgs) := by
  unfold encode
  simp only [encodeBody]
  rw [be32_mod]

/-- A data frame whose datagrams are representable (and at most 127) parses to the same nonce and the
same datagram list; the frame id is reduced modulo `2^32` (it is written as a `u32`). -/
theorem decode_encode_data (sid : Nat) (nonce : Bool) (dgs : List Datagram) (hl : dgs.length ≤ 127)
    (hd : ∀ d ∈ dgs, DatagramOk d) :
    decode (encode (.data sid nonce dgs)) = some (.data (sid % 2^32) nonce dgs) := by
  rw [← encode_data_mod]
  exact decode_encode _ ⟨Nat.mod_lt _ (by decide), hl, hd⟩

/-- Whatever an emitted ack frame parses to, it is an ack frame carrying the emitted packet window
base id (modulo `2^32`). -/
theorem decode_encode_ack (fb pb : Nat) (acks : List AckGroup) (g : Frame)
    (h : decode (encode (.ack fb pb acks)) = some g) :
    ∃ fb' acks', g = .ack fb' (pb % 2^32) acks' := by
  unfold encode at h
  simp only [encodeBody, be32, be16, List.cons_append, List.nil_append, List.append_assoc] at h
  rw [decode_withCrc] at h
  simp only [readPayload, HANDSHAKE_SYN_FRAME_ID, HANDSHAKE_SYN_ACK_FRAME_ID, HANDSHAKE_ACK_FRAME_ID,
    HANDSHAKE_ERROR_FRAME_ID, DISCONNECT_FRAME_ID, DISCONNECT_ACK_FRAME_ID, DATA_FRAME_ID, SYNC_FRAME_ID,
    ACK_FRAME_ID,
    show (12:Nat) = 0 ↔ False by decide, show (12:Nat) = 1 ↔ False by decide, show (12:Nat) = 2 ↔ False by decide,
    show (12:Nat) = 3 ↔ False by decide, show (12:Nat) = 4 ↔ False by decide, show (12:Nat) = 5 ↔ False by decide,
    show (12:Nat) = 10 ↔ False by decide, show (12:Nat) = 11 ↔ False by decide, if_false, if_true] at h
  split at h
  · simp only [Option.some.injEq] at h
    rename_i acks' _
    refine ⟨rd32 (fb / 2 ^ 24 % 256) (fb / 2 ^ 16 % 256) (fb / 2 ^ 8 % 256) (fb % 256), acks', ?_⟩
    rw [← h]
    congr 1
    unfold rd32
    omega
  · cases h

/-- Whatever an emitted sync frame parses to, it is a sync frame. -/
theorem decode_encode_sync (nf np : Option Nat) (g : Frame)
    (h : decode (encode (.sync nf np)) = some g) : ∃ nf' np', g = .sync nf' np' := by
  unfold encode at h
  simp only [encodeBody, be32, List.cons_append, List.nil_append, List.append_assoc] at h
  rw [decode_withCrc] at h
  simp only [readPayload, HANDSHAKE_SYN_FRAME_ID, HANDSHAKE_SYN_ACK_FRAME_ID, HANDSHAKE_ACK_FRAME_ID,
    HANDSHAKE_ERROR_FRAME_ID, DISCONNECT_FRAME_ID, DISCONNECT_ACK_FRAME_ID, DATA_FRAME_ID, SYNC_FRAME_ID,
    show (11:Nat) = 0 ↔ False by decide, show (11:Nat) = 1 ↔ False by decide, show (11:Nat) = 2 ↔ False by decide,
    show (11:Nat) = 3 ↔ False by decide, show (11:Nat) = 4 ↔ False by decide, show (11:Nat) = 5 ↔ False by decide,
    show (11:Nat) = 10 ↔ False by decide, if_false, if_true, Option.some.injEq] at h
  exact ⟨_, _, h.symm⟩

/-- Whatever an emitted sync frame parses to, it is a sync frame carrying the emitted packet id
(modulo `2^32`), if any. -/
theorem decode_encode_sync_pid (nf np : Option Nat) (g : Frame)
    (h : decode (encode (.sync nf np)) = some g) : ∃ nf', g = .sync nf' (np.map (· % 2^32)) := by
  unfold encode at h
  simp only [encodeBody, be32, List.cons_append, List.nil_append, List.append_assoc] at h
  rw [decode_withCrc] at h
  simp only [readPayload, HANDSHAKE_SYN_FRAME_ID, HANDSHAKE_SYN_ACK_FRAME_ID, HANDSHAKE_ACK_FRAME_ID,
    HANDSHAKE_ERROR_FRAME_ID, DISCONNECT_FRAME_ID, DISCONNECT_ACK_FRAME_ID, DATA_FRAME_ID, SYNC_FRAME_ID,
    show (11:Nat) = 0 ↔ False by decide, show (11:Nat) = 1 ↔ False by decide, show (11:Nat) = 2 ↔ False by decide,
    show (11:Nat) = 3 ↔ False by decide, show (11:Nat) = 4 ↔ False by decide, show (11:Nat) = 5 ↔ False by decide,
    show (11:Nat) = 10 ↔ False by decide, if_false, if_true, Option.some.injEq] at h
  subst h
  refine ⟨(if ((if nf.isSome = true then 1 else 0) + if np.isSome = true then 2 else 0) % 2 = 1 then
      some (rd32 (nf.getD 0 / 2 ^ 24 % 256) (nf.getD 0 / 2 ^ 16 % 256) (nf.getD 0 / 2 ^ 8 % 256) (nf.getD 0 % 256))
    else none), ?_⟩
  congr 1
  cases np with
  | none => cases nf <;> simp
  | some x =>
    have : rd32 (x / 2 ^ 24 % 256) (x / 2 ^ 16 % 256) (x / 2 ^ 8 % 256) (x % 256) = x % 2^32 := by
      unfold rd32; omega
    cases nf <;> simp [this]

/-- Whatever an emitted data frame parses to, it is a data frame. -/
theorem decode_encode_data_kind (sid : Nat) (nonce : Bool) (dgs : List Datagram) (g : Frame)
    (h : decode (encode (.data sid nonce dgs)) = some g) : ∃ sid' nonce' dgs', g = .data sid' nonce' dgs' := by
  unfold encode at h
  simp only [encodeBody, be32, List.cons_append, List.nil_append, List.append_assoc] at h
  rw [decode_withCrc] at h
  simp only [readPayload, HANDSHAKE_SYN_FRAME_ID, HANDSHAKE_SYN_ACK_FRAME_ID, HANDSHAKE_ACK_FRAME_ID,
    HANDSHAKE_ERROR_FRAME_ID, DISCONNECT_FRAME_ID, DISCONNECT_ACK_FRAME_ID, DATA_FRAME_ID,
    show (10:Nat) = 0 ↔ False by decide, show (10:Nat) = 1 ↔ False by decide, show (10:Nat) = 2 ↔ False by decide,
    show (10:Nat) = 3 ↔ False by decide, show (10:Nat) = 4 ↔ False by decide, show (10:Nat) = 5 ↔ False by decide,
    if_false, if_true] at h
  split at h
  · simp only [Option.some.injEq] at h
    exact ⟨_, _, _, h.symm⟩
  · cases h

end Uflow.Codec
