import Uflow.Lemmas.FrameQNoTrap

/-!
`Reorder.advance` (`ReorderBuffer::advance`, called by `notify_advancement` when log entries are culled):
it does not trap, keeps the reorder-buffer invariant `RInv`, only calls back on logged frames, and leaves the
buffer base at or after the new log base.
-/

namespace Uflow.FrameQ

open Uflow Uflow.Codec

abstract_const Uflow.wsub32 in Uflow.FrameQ.Reorder.advance as advanceG

theorem advance_eq_G (r : Reorder) (nb : Nat) : r.advance nb = advanceG wsub32 r nb := rfl

/-- First loop body of `advance`: release `f0` if it lies before the new base. -/
def step1G (d : Nat → Nat → Nat) (nb : Nat) (r : Reorder) (cb : Cb) : R (Reorder × Cb) :=
  if r.count > 0 ∧ d r.f0 r.baseId < d nb r.baseId then
    match nackRun (r.maxSpan + 2) r.baseId r.f0 cb with
    | .error t => .error t
    | .ok (_, cb) =>
      .ok ({ r with baseId := wadd32 r.f0 1, f0 := if r.count = 2 then r.f1 else r.f0, count := r.count - 1 },
        cb ++ [(r.f0, true)])
  else .ok (r, cb)

/-- Last part of `advance`: frames that have become contiguous with the new base are released. -/
def finishA (r : Reorder) (cb : Cb) : R (Reorder × Cb) :=
  match r.count with
  | 1 =>
    if r.f0 = r.baseId then .ok ({ r with baseId := wadd32 r.baseId 1, count := 0 }, cb ++ [(r.f0, true)])
    else .ok (r, cb)
  | 2 =>
    if r.f0 = r.baseId then
      let b := wadd32 r.baseId 1
      if r.f1 = b then .ok ({ r with baseId := wadd32 b 1, count := 0 }, cb ++ [(r.f0, true), (r.f1, true)])
      else .ok ({ r with baseId := b, f0 := r.f1, count := 1 }, cb ++ [(r.f0, true)])
    else .ok (r, cb)
  | _ => .ok (r, cb)

def advA (d : Nat → Nat → Nat) (r : Reorder) (nb : Nat) : R (Reorder × Cb) :=
  match step1G d nb r [] with
  | .error t => .error t
  | .ok (r, cb) =>
    match step1G d nb r cb with
    | .error t => .error t
    | .ok (r, cb) =>
      match nackRun (r.maxSpan + 2) r.baseId nb cb with
      | .error t => .error t
      | .ok (b, cb) => finishA { r with baseId := b } cb

theorem advanceG_eq (d : Nat → Nat → Nat) (r : Reorder) (nb : Nat) : advanceG d r nb = advA d r nb := by
  unfold advanceG advA
  simp only []
  rfl

theorem advance_eq (r : Reorder) (nb : Nat) : r.advance nb = advA wsub32 r nb := by
  rw [advance_eq_G, advanceG_eq]

/-- `RInv` with the first buffered frame allowed to sit *at* the buffer base (intermediate states of
`advance`, between the release of `f0` and the release of an adjacent `f1`). -/
structure RInvW (lb len : Nat) (r : Reorder) : Prop where
  span : len + r.maxSpan ≤ 2^32
  base_lt : r.baseId < 2^32
  base_pos : wsub32 r.baseId lb ≤ len
  cnt : r.count ≤ 2
  f0_lt : 1 ≤ r.count → r.f0 < 2^32
  f0_lo : 1 ≤ r.count → wsub32 r.baseId lb ≤ wsub32 r.f0 lb
  f0_hi : 1 ≤ r.count → wsub32 r.f0 lb < len
  f1_lt : r.count = 2 → r.f1 < 2^32
  f1_lo : r.count = 2 → wsub32 r.f0 lb < wsub32 r.f1 lb
  f1_hi : r.count = 2 → wsub32 r.f1 lb < len

theorem RInv.weak {lb len : Nat} {r : Reorder} (h : RInv lb len r) : RInvW lb len r :=
  ⟨h.span, h.base_lt, h.base_pos, h.cnt, h.f0_lt, fun c => Nat.le_of_lt (h.f0_lo c), h.f0_hi, h.f1_lt,
    h.f1_lo, h.f1_hi⟩

/-- No buffered frame lies before the new base `nb`. -/
def DoneA (lb nb : Nat) (r : Reorder) : Prop := r.count = 0 ∨ wsub32 nb lb ≤ wsub32 r.f0 lb

theorem step1_spec (lb len nb : Nat) (r : Reorder) (cb : Cb) (hr : RInvW lb len r) (hnb : nb < 2^32)
    (hnl : wsub32 nb lb ≤ len) (hbn : wsub32 r.baseId lb ≤ wsub32 nb lb)
    (hsp : wsub32 nb lb - wsub32 r.baseId lb ≤ r.maxSpan) (hcb : ∀ x ∈ cb, wsub32 x.1 lb < len) :
    ∃ r' cb', step1G wsub32 nb r cb = .ok (r', cb') ∧ RInvW lb len r' ∧
      wsub32 r.baseId lb ≤ wsub32 r'.baseId lb ∧ wsub32 r'.baseId lb ≤ wsub32 nb lb ∧
      r'.maxSpan = r.maxSpan ∧ (∀ x ∈ cb', wsub32 x.1 lb < len) ∧ (∀ x, Buffered r' x → Buffered r x) ∧
      (DoneA lb nb r → r' = r ∧ cb' = cb) ∧ (DoneA lb nb r' ∨ r'.count + 1 = r.count) := by
  have hspan := hr.span
  have hbl := wsub32_lt r.baseId lb
  have hnbl := wsub32_lt nb lb
  have hdn : wsub32 nb r.baseId = wsub32 nb lb - wsub32 r.baseId lb := by
    rw [wsub32_via lb nb r.baseId hnb hr.base_lt]; omega
  by_cases hd : DoneA lb nb r
  · have hno : ¬ (r.count > 0 ∧ wsub32 r.f0 r.baseId < wsub32 nb r.baseId) := by
      rintro ⟨hc, hlt⟩
      rcases hd with hd | hd
      · omega
      · have h0lt := hr.f0_lt hc
        have h0lo := hr.f0_lo hc
        have := wsub32_lt r.f0 lb
        rw [wsub32_via lb r.f0 r.baseId h0lt hr.base_lt, hdn] at hlt
        omega
    rw [step1G, if_neg hno]
    exact ⟨r, cb, rfl, hr, Nat.le_refl _, hbn, rfl, hcb, fun _ h => h, fun _ => ⟨rfl, rfl⟩, Or.inl hd⟩
  · have hc : 1 ≤ r.count := by
      rcases Nat.eq_zero_or_pos r.count with h | h
      · exact absurd (Or.inl h) hd
      · exact h
    have hlt : wsub32 r.f0 lb < wsub32 nb lb := by
      apply Nat.lt_of_not_le; intro h; exact hd (Or.inr h)
    have h0lt := hr.f0_lt hc
    have h0lo := hr.f0_lo hc
    have h0hi := hr.f0_hi hc
    have h0l := wsub32_lt r.f0 lb
    have hd0 : wsub32 r.f0 r.baseId = wsub32 r.f0 lb - wsub32 r.baseId lb := by
      rw [wsub32_via lb r.f0 r.baseId h0lt hr.base_lt]; omega
    have hfire : r.count > 0 ∧ wsub32 r.f0 r.baseId < wsub32 nb r.baseId := ⟨hc, by omega⟩
    obtain ⟨cbn, hrun, hcbn⟩ := nackRun_spec (r.maxSpan + 2) r.baseId r.f0 cb hr.base_lt h0lt (by omega)
    have hcb_in : ∀ x ∈ cbn, wsub32 x.1 lb < wsub32 r.f0 lb := by
      intro x hx
      obtain ⟨h1, h2⟩ := hcbn x hx
      rw [hd0, wsub32_via lb x.1 r.baseId h1 hr.base_lt] at h2
      have := wsub32_lt x.1 lb; omega
    have hpb := pos_succ lb r.f0 h0lt
    have hb1 := wadd32_lt r.f0 1
    rw [step1G, if_pos hfire, hrun]
    simp only []
    have hcnt := hr.cnt
    refine ⟨_, _, rfl, ?_, ?_, ?_, rfl, ?_, ?_, fun h => absurd h hd, ?_⟩
    · rcases (by omega : r.count = 1 ∨ r.count = 2) with hc1 | hc2
      · refine ⟨hspan, hb1, ?_, by cnt, ?_, ?_, ?_, ?_, ?_, ?_⟩
        · show wsub32 (wadd32 r.f0 1) lb ≤ len; omega
        all_goals (intro h; exact absurd h (by cnt))
      · have h1lt := hr.f1_lt hc2
        have h1lo := hr.f1_lo hc2
        have h1hi := hr.f1_hi hc2
        refine ⟨hspan, hb1, ?_, by cnt, ?_, ?_, ?_, ?_, ?_, ?_⟩
        · show wsub32 (wadd32 r.f0 1) lb ≤ len; omega
        · intro _; show (if r.count = 2 then r.f1 else r.f0) < 2^32; rw [if_pos hc2]; exact h1lt
        · intro _
          show wsub32 (wadd32 r.f0 1) lb ≤ wsub32 (if r.count = 2 then r.f1 else r.f0) lb
          rw [if_pos hc2]; omega
        · intro _
          show wsub32 (if r.count = 2 then r.f1 else r.f0) lb < len
          rw [if_pos hc2]; exact h1hi
        all_goals (intro h; exact absurd h (by cnt))
    · show wsub32 r.baseId lb ≤ wsub32 (wadd32 r.f0 1) lb; omega
    · show wsub32 (wadd32 r.f0 1) lb ≤ wsub32 nb lb; omega
    · intro x hx
      simp only [List.mem_append, List.mem_cons, List.mem_nil_iff, or_false] at hx
      rcases hx with (hx | hx) | rfl
      · exact hcb x hx
      · have := hcb_in x hx; omega
      · exact h0hi
    · intro x hx
      rcases hx with ⟨h1, h2⟩ | ⟨h1, _⟩
      · have hc2 : r.count = 2 := by
          have : 1 ≤ r.count - 1 := h1
          omega
        right
        refine ⟨hc2, ?_⟩
        rw [h2]; show (if r.count = 2 then r.f1 else r.f0) = r.f1; rw [if_pos hc2]
      · exact absurd h1 (by cnt)
    · right; show r.count - 1 + 1 = r.count; omega

theorem finish_spec (lb len : Nat) (r : Reorder) (cb : Cb) (hr : RInvW lb len r) (hlen : len < 2^32)
    (hcb : ∀ x ∈ cb, wsub32 x.1 lb < len) :
    ∃ r' cb', finishA r cb = .ok (r', cb') ∧ RInv lb len r' ∧ wsub32 r.baseId lb ≤ wsub32 r'.baseId lb ∧
      r'.maxSpan = r.maxSpan ∧ (∀ x ∈ cb', wsub32 x.1 lb < len) ∧ (∀ x, Buffered r' x → Buffered r x) := by
  have hspan := hr.span
  have hcnt := hr.cnt
  have hbl := wsub32_lt r.baseId lb
  have hpb := pos_succ lb r.baseId hr.base_lt
  have hb1 := wadd32_lt r.baseId 1
  have hpb2 := pos_succ lb (wadd32 r.baseId 1) hb1
  have hb2 := wadd32_lt (wadd32 r.baseId 1) 1
  rcases (by omega : r.count = 0 ∨ r.count = 1 ∨ r.count = 2) with hc | hc | hc
  · have : finishA r cb = .ok (r, cb) := by unfold finishA; rw [hc]; rfl
    rw [this]
    refine ⟨r, cb, rfl, ⟨hspan, hr.base_lt, hr.base_pos, hcnt, ?_, ?_, ?_, ?_, ?_, ?_⟩, Nat.le_refl _, rfl, hcb,
      fun _ h => h⟩
    all_goals (intro h; exact absurd h (by omega))
  · have h0lt := hr.f0_lt (by omega)
    have h0lo := hr.f0_lo (by omega)
    have h0hi := hr.f0_hi (by omega)
    by_cases e : r.f0 = r.baseId
    · have : finishA r cb = .ok ({ r with baseId := wadd32 r.baseId 1, count := 0 }, cb ++ [(r.f0, true)]) := by
        unfold finishA; rw [hc]; simp only [if_pos e]
      rw [this]
      refine ⟨_, _, rfl, ⟨hspan, hb1, ?_, by cnt, ?_, ?_, ?_, ?_, ?_, ?_⟩, ?_, rfl, ?_, ?_⟩
      · show wsub32 (wadd32 r.baseId 1) lb ≤ len; rw [e] at h0hi; omega
      iterate 6 (intro h; exact absurd h (by cnt))
      · show wsub32 r.baseId lb ≤ wsub32 (wadd32 r.baseId 1) lb; rw [e] at h0hi; omega
      · intro x hx
        simp only [List.mem_append, List.mem_cons, List.mem_nil_iff, or_false] at hx
        rcases hx with hx | rfl
        · exact hcb x hx
        · exact h0hi
      · intro x hx
        rcases hx with ⟨h, _⟩ | ⟨h, _⟩ <;> exact absurd h (by cnt)
    · have : finishA r cb = .ok (r, cb) := by
        unfold finishA; rw [hc]; simp only [if_neg e]
      rw [this]
      have hne : wsub32 r.f0 lb ≠ wsub32 r.baseId lb := fun h => e (pos_inj lb _ _ h0lt hr.base_lt h)
      refine ⟨r, cb, rfl, ⟨hspan, hr.base_lt, hr.base_pos, hcnt, fun _ => h0lt, fun _ => by omega, fun _ => h0hi,
        ?_, ?_, ?_⟩, Nat.le_refl _, rfl, hcb, fun _ h => h⟩
      all_goals (intro h; exact absurd h (by omega))
  · have h0lt := hr.f0_lt (by omega)
    have h0lo := hr.f0_lo (by omega)
    have h0hi := hr.f0_hi (by omega)
    have h1lt := hr.f1_lt hc
    have h1lo := hr.f1_lo hc
    have h1hi := hr.f1_hi hc
    by_cases e : r.f0 = r.baseId
    · by_cases e1 : r.f1 = wadd32 r.baseId 1
      · have : finishA r cb = .ok ({ r with baseId := wadd32 (wadd32 r.baseId 1) 1, count := 0 },
            cb ++ [(r.f0, true), (r.f1, true)]) := by
          unfold finishA; rw [hc]; simp only [if_pos e, if_pos e1]
        rw [this]
        refine ⟨_, _, rfl, ⟨hspan, hb2, ?_, by cnt, ?_, ?_, ?_, ?_, ?_, ?_⟩, ?_, rfl, ?_, ?_⟩
        · show wsub32 (wadd32 (wadd32 r.baseId 1) 1) lb ≤ len; rw [e1] at h1hi; omega
        iterate 6 (intro h; exact absurd h (by cnt))
        · show wsub32 r.baseId lb ≤ wsub32 (wadd32 (wadd32 r.baseId 1) 1) lb; rw [e1] at h1hi; omega
        · intro x hx
          simp only [List.mem_append, List.mem_cons, List.mem_nil_iff, or_false] at hx
          rcases hx with hx | rfl | rfl
          · exact hcb x hx
          · exact h0hi
          · exact h1hi
        · intro x hx
          rcases hx with ⟨h, _⟩ | ⟨h, _⟩ <;> exact absurd h (by cnt)
      · have : finishA r cb = .ok ({ r with baseId := wadd32 r.baseId 1, f0 := r.f1, count := 1 },
            cb ++ [(r.f0, true)]) := by
          unfold finishA; rw [hc]; simp only [if_pos e, if_neg e1]
        rw [this]
        have hne : wsub32 r.f1 lb ≠ wsub32 (wadd32 r.baseId 1) lb := fun h => e1 (pos_inj lb _ _ h1lt hb1 h)
        rw [e] at h1lo
        refine ⟨_, _, rfl, ⟨hspan, hb1, ?_, by cnt, fun _ => h1lt, ?_, fun _ => h1hi, ?_, ?_, ?_⟩, ?_, rfl, ?_, ?_⟩
        · show wsub32 (wadd32 r.baseId 1) lb ≤ len; omega
        · intro _; show wsub32 (wadd32 r.baseId 1) lb < wsub32 r.f1 lb; omega
        iterate 3 (intro h; exact absurd h (by cnt))
        · show wsub32 r.baseId lb ≤ wsub32 (wadd32 r.baseId 1) lb; omega
        · intro x hx
          simp only [List.mem_append, List.mem_cons, List.mem_nil_iff, or_false] at hx
          rcases hx with hx | rfl
          · exact hcb x hx
          · exact h0hi
        · intro x hx
          rcases hx with ⟨_, h⟩ | ⟨h, _⟩
          · exact Or.inr ⟨hc, h⟩
          · exact absurd h (by cnt)
    · have : finishA r cb = .ok (r, cb) := by
        unfold finishA; rw [hc]; simp only [if_neg e]
      rw [this]
      have hne : wsub32 r.f0 lb ≠ wsub32 r.baseId lb := fun h => e (pos_inj lb _ _ h0lt hr.base_lt h)
      exact ⟨r, cb, rfl, ⟨hspan, hr.base_lt, hr.base_pos, hcnt, fun _ => h0lt, fun _ => by omega, fun _ => h0hi,
        fun _ => h1lt, fun _ => h1lo, fun _ => h1hi⟩, Nat.le_refl _, rfl, hcb, fun _ h => h⟩

/-- `ReorderBuffer::advance` to a base `nb` inside the log (or at its end), not before the buffer base and at
most `maxSpan` after it. -/
theorem advance_spec (lb len nb : Nat) (r : Reorder) (hr : RInv lb len r) (hlen : len < 2^32) (hnb : nb < 2^32)
    (hnl : wsub32 nb lb ≤ len) (hbn : wsub32 r.baseId lb ≤ wsub32 nb lb)
    (hsp : wsub32 nb lb - wsub32 r.baseId lb ≤ r.maxSpan) :
    ∃ r' cb, r.advance nb = .ok (r', cb) ∧ RInv lb len r' ∧ wsub32 nb lb ≤ wsub32 r'.baseId lb ∧
      r'.maxSpan = r.maxSpan ∧ (∀ x ∈ cb, wsub32 x.1 lb < len) ∧ (∀ x, Buffered r' x → Buffered r x) := by
  obtain ⟨r1, cb1, hA, hr1, hb01, hb1n, hm1, hcb1, hbuf1, hdone1, hcnt1⟩ :=
    step1_spec lb len nb r [] hr.weak hnb hnl hbn hsp (by intro x hx; cases hx)
  obtain ⟨r2, cb2, hB, hr2, hb12, hb2n, hm2, hcb2, hbuf2, hdone2, hcnt2⟩ :=
    step1_spec lb len nb r1 cb1 hr1 hnb hnl hb1n (by rw [hm1]; omega) hcb1
  have hdone : DoneA lb nb r2 := by
    rcases hcnt2 with h | h
    · exact h
    · rcases hcnt1 with h1 | h1
      · obtain ⟨rfl, -⟩ := hdone2 h1; exact h1
      · have := hr.cnt; left; omega
  have hnbl := wsub32_lt nb lb
  have hbl := wsub32_lt r2.baseId lb
  have hdn : wsub32 nb r2.baseId = wsub32 nb lb - wsub32 r2.baseId lb := by
    rw [wsub32_via lb nb r2.baseId hnb hr2.base_lt]; omega
  obtain ⟨cbn, hrun, hcbn⟩ := nackRun_spec (r2.maxSpan + 2) r2.baseId nb cb2 hr2.base_lt hnb
    (by rw [hdn, hm2, hm1]; omega)
  have hcb_in : ∀ x ∈ cbn, wsub32 x.1 lb < wsub32 nb lb := by
    intro x hx
    obtain ⟨h1, h2⟩ := hcbn x hx
    rw [hdn, wsub32_via lb x.1 r2.baseId h1 hr2.base_lt] at h2
    have := wsub32_lt x.1 lb; omega
  have hr3 : RInvW lb len { r2 with baseId := nb } := by
    refine ⟨hr2.span, hnb, hnl, hr2.cnt, hr2.f0_lt, ?_, hr2.f0_hi, hr2.f1_lt, hr2.f1_lo, hr2.f1_hi⟩
    intro hc
    show wsub32 nb lb ≤ wsub32 r2.f0 lb
    rcases hdone with h | h
    · have : 1 ≤ r2.count := hc
      omega
    · exact h
  obtain ⟨r4, cb4, hF, hr4, hb4, hm4, hcb4, hbuf4⟩ := finish_spec lb len { r2 with baseId := nb } (cb2 ++ cbn) hr3 hlen
    (by
      intro x hx
      rcases List.mem_append.1 hx with hx | hx
      · exact hcb2 x hx
      · have := hcb_in x hx; omega)
  rw [advance_eq, advA, hA]
  simp only []
  rw [hB]
  simp only []
  rw [hrun]
  simp only []
  rw [hF]
  refine ⟨r4, cb4, rfl, hr4, hb4, by rw [hm4]; show r2.maxSpan = r.maxSpan; rw [hm2, hm1], hcb4, ?_⟩
  intro x hx
  apply hbuf1; apply hbuf2
  rcases hbuf4 x hx with ⟨h1, h2⟩ | ⟨h1, h2⟩
  · exact Or.inl ⟨h1, h2⟩
  · exact Or.inr ⟨h1, h2⟩

end Uflow.FrameQ
