import Uflow.Lemmas.HcInvRun
import Uflow.Model.Endpoint

/-!
C03 (endpoints): the contract `HCOk` the endpoint proofs need from a half connection, and the
instance `hcOf ops` (the driver's `hcInst` for arbitrary float operations) satisfying it.
-/

namespace Uflow.EpNoTrap

open Uflow Uflow.Gen Uflow.Codec Uflow.HalfConn Uflow.Endpoint Uflow.HcInv
open Uflow.Rate (FloatOps BisectConverges)

variable {H F : Type}

/-- What the endpoints need from a half connection: an invariant `Inv` and a clock `last` (time of
the last `step`, of creation before the first) such that no operation the endpoints perform traps. -/
structure HCOk (hc : HC H) (Inv : H → Prop) (last : H → Nat) : Prop where
  /-- `HalfConnection::new` with the configuration both endpoints derive from the handshake, for a
  local nonce that is a `u32` -/
  new : ∀ (ep : EpConfig) (ln rn rate alloc now : Nat), ln < 2^32 →
    Inv (hc.new (hcConfig ep ln rn rate alloc) now) ∧ last (hc.new (hcConfig ep ln rn rate alloc) now) = now
  /-- a frame with ARBITRARY contents -/
  dispatch : ∀ (h : H) (f : Frame), Inv h → ∃ h', hc.dispatch h f = .ok h' ∧ Inv h' ∧ last h' = last h
  /-- `step` with a clock that has not run backwards -/
  step : ∀ (h : H) (now : Nat), Inv h → last h ≤ now → ∃ h', hc.step h now = .ok h' ∧ Inv h' ∧ last h' = now
  flush : ∀ (h : H) (rng : Rng), Inv h →
    ∃ h' rng' out, hc.flush h rng = .ok (h', rng', out) ∧ Inv h' ∧ last h' = last h
  receive : ∀ (h : H), Inv h → ∃ h' out, hc.receive h = .ok (h', out) ∧ Inv h' ∧ last h' = last h
  /-- `send` within the preconditions asserted by `RemoteClient::send` / `Client::send` -/
  send : ∀ (h : H) (data : List Nat) (chan : Nat) (mode : SendMode), Inv h →
    data.length ≤ MAX_PACKET_SIZE → chan < CHANNEL_COUNT →
    Inv (hc.send h data chan mode) ∧ last (hc.send h data chan mode) = last h

/-- The half connection of the executable driver (`Uflow.Driver.hcInst`), for arbitrary float
operations. -/
def hcOf (ops : FloatOps F) : HC (HalfConn.State F) where
  new c now := HalfConn.init ops c now { fifo := [], state := 0 }
  send := HalfConn.send
  dispatch h f := match f with
    | .data id nonce dgs => handleDataFrame h id nonce dgs
    | .ack fb pb acks => handleAckFrame h fb pb acks
    | .sync nf np => handleSyncFrame h nf np
    | _ => .ok h
  step h now := HalfConn.step ops h now
  flush h rng := (HalfConn.flush { h with rng := rng }).map fun (h', frames) => (h', h'.rng, frames)
  receive := HalfConn.receive
  isSendPending := HalfConn.isSendPending
  sendBufferSize := HalfConn.sendBufferSize

/-- `Endpoint.hcConfig` is a valid half-connection configuration when the local nonce is a `u32`. -/
theorem cfgOk_hcConfig (ep : EpConfig) (localNonce remoteNonce rate alloc : Nat) (hn : localNonce < 2^32) :
    CfgOk (hcConfig ep localNonce remoteNonce rate alloc) where
  txFrameBase := hn
  txFrameWin := by show MAX_FRAME_WINDOW_SIZE + MAX_FRAME_WINDOW_SIZE < 2^31; decide
  txPacketBase := by show localNonce % PACKET_ID_SPAN < 2^20; exact Nat.mod_lt _ (by decide)
  txPacketWin := by show MAX_PACKET_WINDOW_SIZE < 2^20; decide
  rxPacketBase := by show remoteNonce % PACKET_ID_SPAN < 2^20; exact Nat.mod_lt _ (by decide)
  rxPacketWin := by show 0 < MAX_PACKET_WINDOW_SIZE; decide

/-- Replacing the random number generator does not affect `HcInv`. -/
theorem hcInv_set_rng (s : State F) (rng : Rng) (h : HcInv s) :
    HcInv { s with rng := rng } ∧ lastNow { s with rng := rng } = lastNow s :=
  ⟨h.congr rfl rfl rfl rfl rfl rfl rfl rfl rfl h.pr, rfl⟩

theorem hcOf_ok (ops : FloatOps F) (hconv : BisectConverges ops) (hloss : LossOk ops) :
    HCOk (hcOf ops) HcInv lastNow where
  new ep ln rn rate alloc now hn :=
    ⟨hcInv_init ops _ now _ (cfgOk_hcConfig ep ln rn rate alloc hn), rfl⟩
  dispatch h f hi := by
    cases f with
    | data id nonce dgs => exact handleDataFrame_ok h id nonce dgs hi
    | ack fb pb acks => exact handleAckFrame_ok h fb pb acks hi
    | sync nf np => exact handleSyncFrame_ok h nf np hi
    | syn _ _ _ _ _ => exact ⟨h, rfl, hi, rfl⟩
    | synAck _ _ _ _ _ => exact ⟨h, rfl, hi, rfl⟩
    | hsAck _ => exact ⟨h, rfl, hi, rfl⟩
    | hsError _ _ => exact ⟨h, rfl, hi, rfl⟩
    | disconnect => exact ⟨h, rfl, hi, rfl⟩
    | disconnectAck => exact ⟨h, rfl, hi, rfl⟩
  step h now hi hl := step_ok ops hconv hloss h now hi hl
  flush h rng hi := by
    obtain ⟨hi0, hl0⟩ := hcInv_set_rng h rng hi
    obtain ⟨s', out, he, hi', hl'⟩ := flush_ok _ hi0
    refine ⟨s', s'.rng, out, ?_, hi', hl'.trans hl0⟩
    show (HalfConn.flush { h with rng := rng }).map _ = _
    rw [he]; rfl
  receive h hi := receive_ok h hi
  send h data chan mode hi hlen hch := send_ok h data chan mode hi hlen hch

end Uflow.EpNoTrap
