import Uflow.Lemmas.EpCeilBound
import Uflow.Lemmas.EndpointServerFrames
import Uflow.Lemmas.EndpointClientSound
import Uflow.Lemmas.HcSysCodec

/-!
C13 (endpoints), part 5: the invariants `SInvA` / `CInvA` with the per-connection invariant `InvC`
along every run of a `Server` / a `Client` over the half-connection model `hcOf ops`, with
`PInv` = "a SYN (a SYN-ACK) carrying these values is among the datagrams handed to the endpoint during
the run"; and what the handshake frames built by the endpoints advertise.
-/

namespace Uflow.EpCeil

open Uflow Uflow.Gen Uflow.Codec Uflow.HalfConn Uflow.Endpoint Uflow.EpNoTrap Uflow.HcInv Uflow.Credit
open Uflow.CreditBound
open Uflow.Rate (FloatOps BisectConverges)

variable {F H : Type}

/-! ### servers -/

/-- Among the datagrams `rx` there is one from address `a` that parses (after the truncation to the
receive buffer) to a SYN with nonce `n`, `max_receive_rate = r` and `max_receive_alloc = al`. -/
def SynFrom (rx : List (Nat × List Nat)) (a n r al : Nat) : Prop :=
  ∃ bytes v p, (a, bytes) ∈ rx ∧ decode (bytes.take MAX_FRAME_SIZE) = some (.syn v n r p al)

/-- All datagrams handed to the server by a list of operations. -/
def sopsArrivals : List SOp → List (Nat × List Nat)
  | [] => []
  | op :: rest => op.arrivals ++ sopsArrivals rest

theorem mem_sopsArrivals {sops : List SOp} {op : SOp} (ho : op ∈ sops) {x : Nat × List Nat}
    (hx : x ∈ op.arrivals) : x ∈ sopsArrivals sops := by
  induction sops with
  | nil => cases ho
  | cons o rest ih =>
    rcases List.mem_cons.1 ho with rfl | ho
    · exact List.mem_append_left _ hx
    · exact List.mem_append_right _ (ih ho)

theorem arrOk_sops (sops : List SOp) : ∀ op ∈ sops, ArrOk (SynFrom (sopsArrivals sops)) op.arrivals := by
  intro op ho x hx v n r p a hd
  exact ⟨x.2, v, p, mem_sopsArrivals ho hx, hd⟩

/-- Every run of a server within the API preconditions is trap free and ends in a state in which
every active half connection satisfies `InvC` for a SYN received from its address during the run. -/
theorem srv_run_invC (ops : FloatOps F) (hconv : BisectConverges ops) (hloss : LossOk ops) (cfg : SrvConfig)
    (now : Nat) (rng : Rng) (sops : List SOp) (hops : sopsOk 0 sops = true) :
    ∃ s' sent evs, runS (hcOf ops) (Server.init cfg now rng) sops = .ok (s', sent, evs) ∧
      SInvA cfg.ep (SynFrom (sopsArrivals sops)) (InvC ops cfg.ep (SynFrom (sopsArrivals sops))) lastNow
        (sopsTime 0 sops) s' :=
  runS_ok (hcOf_okA ops hconv hloss cfg.ep _) sops (SInvA.init cfg now rng 0) hops (arrOk_sops sops)

/-- Reading the invariant off an active connection object. -/
theorem SInvA.active {ops : FloatOps F} {ep : EpConfig} {PInv : Nat → Nat → Nat → Nat → Prop} {T : Nat}
    {s : Server (State F)} (hi : SInvA ep PInv (InvC ops ep PInv) lastNow T s) {c : RClient (State F)}
    (hc : c ∈ s.clients ++ s.detached) {h : State F} {t : Nat} {sig : Option DisconnectMode}
    (hst : c.state = .active h t sig) :
    ∃ ln n r al t0 gevs out cr, PInv c.address n r al ∧ Proj ops ep h ln n r al t0 gevs out cr := by
  have := hi.core c hc
  rw [hst] at this
  exact this.1.2

/-! ### clients -/

/-- Among the datagrams `rx` there is one that parses to a SYN-ACK with server nonce `n`,
`max_receive_rate = r` and `max_receive_alloc = al`. The address index is not used. -/
def SynAckIn (rx : List (List Nat)) (_a n r al : Nat) : Prop :=
  ∃ bytes na p, bytes ∈ rx ∧ decode (bytes.take MAX_FRAME_SIZE) = some (.synAck na n r p al)

def copsArrivals : List COp → List (List Nat)
  | [] => []
  | op :: rest => copArrivals op ++ copsArrivals rest

theorem mem_copsArrivals {cops : List COp} {op : COp} (ho : op ∈ cops) {x : List Nat}
    (hx : x ∈ copArrivals op) : x ∈ copsArrivals cops := by
  induction cops with
  | nil => cases ho
  | cons o rest ih =>
    rcases List.mem_cons.1 ho with rfl | ho
    · exact List.mem_append_left _ hx
    · exact List.mem_append_right _ (ih ho)

theorem cArrOk_cops (cops : List COp) : ∀ op ∈ cops, CArrOk (SynAckIn (copsArrivals cops)) (copArrivals op) := by
  intro op ho x hx na n r p a hd
  exact ⟨x, na, p, mem_copsArrivals ho hx, hd⟩

theorem cli_run_invC (ops : FloatOps F) (hconv : BisectConverges ops) (hloss : LossOk ops) (ep : EpConfig)
    (now : Nat) (rng : Rng) (cops : List COp) (hops : copsOk 0 cops = true) :
    ∃ c' sent evs, Client.run (hcOf ops) (Client.connect ep now rng).1 cops = .ok (c', sent, evs) ∧
      CInvA ep (InvC ops ep (SynAckIn (copsArrivals cops))) lastNow (copsTime 0 cops) c' :=
  cRun_ok (hcOf_okA ops hconv hloss ep _) cops (connect_inv ep now rng 0) hops (cArrOk_cops cops)

theorem CInvA.active {ops : FloatOps F} {ep : EpConfig} {PInv : Nat → Nat → Nat → Nat → Prop} {T : Nat}
    {c : Client (State F)} (hi : CInvA ep (InvC ops ep PInv) lastNow T c) {ln0 : Nat} {h : State F} {t : Nat}
    {sig : Option DisconnectMode} (hst : c.state = .active ln0 h t sig) :
    ∃ ln n r al t0 gevs out cr, PInv 0 n r al ∧ Proj ops ep h ln n r al t0 gevs out cr := by
  have := hi.2
  rw [hst] at this
  exact this.1.2

/-! ### what the handshake frames advertise -/

/-- The SYN `Client::connect` builds for the nonce it drew. -/
def synOf (ep : EpConfig) (nonce : Nat) : List Nat :=
  encode (.syn PROTOCOL_VERSION nonce (u32 ep.maxReceiveRate) (u32 ep.maxPacketSize) (u32 ep.maxReceiveAlloc))

/-- The nonce `Client::connect` draws. -/
def connectNonce (rng : Rng) : Nat := rng.next.1 % 2^32

theorem connect_emits (ep : EpConfig) (now : Nat) (rng : Rng) :
    (Client.connect ep now rng : Client H × List (List Nat)).2 = [synOf ep (connectNonce rng)] ∧
    (Client.connect ep now rng : Client H × List (List Nat)).1.state.pendingWith (connectNonce rng)
      (synOf ep (connectNonce rng)) :=
  ⟨rfl, _, _, _, rfl⟩

theorem decode_synOf (ep : EpConfig) (nonce : Nat) (hn : nonce < 2^32) :
    decode ((synOf ep nonce).take MAX_FRAME_SIZE) =
      some (.syn PROTOCOL_VERSION nonce (u32 ep.maxReceiveRate) (u32 ep.maxPacketSize) (u32 ep.maxReceiveAlloc)) :=
  decode_syn _ _ _ _ _ (by decide) hn (u32_lt _) (u32_lt _) (u32_lt _)

/-- While a client is pending, the request it stores is the SYN `connect` built. -/
theorem run_request (hc : HC H) (ep : EpConfig) (now : Nat) (rng : Rng) (cops : List COp) (c' : Client H)
    (sent : List (List Nat)) (evs : List CEvent)
    (h : Client.run hc (Client.connect ep now rng).1 cops = .ok (c', sent, evs))
    (ln : Nat) (req : List Nat) (hp : c'.state.pendingWith ln req) :
    ln = connectNonce rng ∧ req = synOf ep (connectNonce rng) := by
  obtain ⟨rt, rc, sends, hs⟩ := Client.run_pending_back hc cops _ c' sent evs h ln req hp
  obtain ⟨rt', rc', sends', hs'⟩ := (connect_emits (H := H) ep now rng).2
  rw [hs'] at hs
  simp only [CState.pending.injEq] at hs
  exact ⟨hs.1.symm, hs.2.1.symm⟩

/-- The handshake resend timer of a pending client sends the stored request and nothing else. -/
theorem resend_is_request (c : Client H) (nowMs ln : Nat) (req : List Nat) (hp : c.state.pendingWith ln req) :
    ∀ x ∈ (c.handleEvents nowMs).2, x = req := by
  obtain ⟨rt, rc, sends, hs⟩ := hp
  intro x hx
  unfold Client.handleEvents at hx
  rw [hs] at hx
  simp only at hx
  split at hx
  · split at hx
    · simpa using hx
    · cases hx
  · cases hx

theorem encode_synAck_mod (na n r p a : Nat) :
    encode (.synAck (na % 2^32) n r p a) = encode (.synAck na n r p a) := by
  unfold encode
  simp only [encodeBody]
  rw [be32_mod]

/-- The SYN-ACK stored in a pending entry of a well-formed server (sent by `handle_handshake_syn`,
resent by `handle_event`) parses to a SYN-ACK carrying the server's `max_receive_rate`. -/
theorem reply_decodes {s : Server H} (hw : s.WF) {c : RClient H} (hc : c ∈ s.clients) {ln rn r al : Nat}
    {reply : List Nat} (hst : c.state = .pending ln rn r al reply) :
    decode (reply.take MAX_FRAME_SIZE) =
      some (.synAck (rn % 2^32) ln (u32 s.cfg.ep.maxReceiveRate) (u32 s.cfg.ep.maxPacketSize)
        (u32 s.cfg.ep.maxReceiveAlloc)) := by
  obtain ⟨hln, hr⟩ := hw.replyOk c hc ln rn r al reply hst
  rw [hr, ← encode_synAck_mod]
  exact decode_synAck _ _ _ _ _ (Nat.mod_lt _ (by decide)) hln (u32_lt _) (u32_lt _) (u32_lt _)

/-- The SYN-ACK a server in state `s` builds for a SYN carrying `nonce`. -/
theorem synAckBytes_decodes (s : Server H) (nonce : Nat) :
    decode ((s.synAckBytes nonce).take MAX_FRAME_SIZE) =
      some (.synAck (nonce % 2^32) s.drawNonce (u32 s.cfg.ep.maxReceiveRate) (u32 s.cfg.ep.maxPacketSize)
        (u32 s.cfg.ep.maxReceiveAlloc)) := by
  unfold Server.synAckBytes
  rw [← encode_synAck_mod]
  exact decode_synAck _ _ _ _ _ (Nat.mod_lt _ (by decide)) s.drawNonce_lt (u32_lt _) (u32_lt _) (u32_lt _)

/-- An accepted SYN is answered by `synAckBytes`, which is also what the new pending entry stores
together with the SYN's `max_receive_rate`. -/
theorem handleSyn_accept_emits {s : Server H} {addr : Nat} (hf : s.find addr = none) (n r p a nowMs : Nat)
    (hfull : ¬ s.full) (h1 : ¬ a < s.cfg.ep.maxPacketSize) (h2 : ¬ p > s.cfg.ep.maxReceiveAlloc) :
    s.handleSyn addr PROTOCOL_VERSION n r p a nowMs = (s.accept addr n r a nowMs, [(addr, s.synAckBytes n)]) ∧
    (s.newEntry addr n r a).state = .pending s.drawNonce n r a (s.synAckBytes n) :=
  ⟨Server.handleSyn_accept hf n r p a nowMs hfull h1 h2, rfl⟩

end Uflow.EpCeil
