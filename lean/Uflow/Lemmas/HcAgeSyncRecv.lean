import Uflow.Lemmas.SysLiveRecv
import Uflow.Lemmas.SysResync

/-!
C01AgeSync, part 1 (packet receiver): how far `end_id` — hence the window base, which never passes
`end_id` — can move. `endOff s = pidSub end_id base_id`.
* `handle_datagram` leaves the base alone and raises `end_id` at most to one past the datagram's id;
* `receive` moves the base by `δ ≤ endOff` and leaves `end_id` alone: `δ + endOff' = endOff`;
* `resynchronize id` moves the base by `δ` with `δ + endOff' ≤ max endOff (pidSub id base_id)`.
-/

namespace Uflow.Sys

open Uflow Uflow.Gen Uflow.Codec Uflow.PRecv

/-- Offset of `end_id` in the receive window. -/
def endOff (s : PRecv.State) : Nat := pidSub s.endId s.baseId

theorem handleDatagram_end {W M : Nat} (hW : WOk W) {s s' : PRecv.State} (hinv : Inv W M s) (hord : Ord W s)
    (d : Datagram) (hd : handleDatagram s d = .ok s') :
    s'.baseId = s.baseId ∧
    (endOff s' = endOff s ∨ (pidSub d.sequenceId s.baseId < W ∧ endOff s' = pidSub d.sequenceId s.baseId + 1)) := by
  rcases handleDatagram_shape hinv d hd with ⟨rfl, -⟩ | ⟨-, hk, -, s1, o, ht, hcase⟩
  · exact ⟨rfl, Or.inl rfl⟩
  have hfr := tryAdd_frame s _ d s1 o ht
  rcases hcase with ⟨-, rfl⟩ | ⟨p, -, rfl⟩
  · refine ⟨hfr.base, Or.inl ?_⟩
    unfold endOff; rw [hfr.base, hfr.endId]
  · obtain ⟨hb2, he2, -, -⟩ := hdPost_facts s1 (wi W d.sequenceId) d p (cbO s d.channelId) s.baseId
    rw [hfr.base] at hb2
    rw [hfr.endId] at he2
    refine ⟨hb2, ?_⟩
    unfold endOff
    rw [hb2, he2]
    split
    · right
      refine ⟨hk, off_succ _ _ ?_⟩
      have := hW.le
      omega
    · left; rfl

/-- A fold of `handle_datagram`: the base stays, `end_id` stays below any bound that holds for the
datagrams that lie in the window. -/
theorem foldDg_end {W M : Nat} (hW : WOk W) (dgs : List Datagram) : ∀ (s s' : PRecv.State), Inv W M s → Ord W s →
    dgs.foldlM handleDatagram s = .ok s' → ∀ c, endOff s ≤ c →
    (∀ d ∈ dgs, pidSub d.sequenceId s.baseId < W → pidSub d.sequenceId s.baseId + 1 ≤ c) →
    s'.baseId = s.baseId ∧ endOff s' ≤ c := by
  induction dgs with
  | nil =>
    intro s s' _ _ hf c hc _
    simp only [List.foldlM_nil, pure, Except.pure, Except.ok.injEq] at hf
    subst hf; exact ⟨rfl, hc⟩
  | cons d dgs ih =>
    intro s s' hinv hord hf c hc hall
    rw [List.foldlM_cons] at hf
    obtain ⟨s1, h1, hi1⟩ := handleDatagram_inv hinv d
    rw [h1] at hf
    simp only [bind, Except.bind] at hf
    obtain ⟨hord1, -, -⟩ := handleDatagram_ord hW hinv hord d h1
    obtain ⟨hb1, he1⟩ := handleDatagram_end hW hinv hord d h1
    have hc1 : endOff s1 ≤ c := by
      rcases he1 with he1 | ⟨hk, he1⟩
      · rw [he1]; exact hc
      · rw [he1]; exact hall d (List.mem_cons_self ..) hk
    obtain ⟨r1, r2⟩ := ih s1 s' hi1 hord1 hf c hc1 (by
      intro d' hd' hk'
      rw [hb1] at hk' ⊢
      exact hall d' (List.mem_cons_of_mem _ hd') hk')
    exact ⟨r1.trans hb1, r2⟩

/-- `receive`: the base moves by `δ ≤ endOff`, `end_id` stays. -/
theorem receiveT_end {W M : Nat} (hW : WOk W) {b0 adv : Nat} {log : List LogE} {s s' : PRecv.State}
    {evs : List Ev} (hinv : Inv W M s) (hord : Ord W s) (g : GI W b0 adv log s)
    (hr : receiveT s = .ok (s', evs)) : pidSub s'.baseId s.baseId + endOff s' = endOff s := by
  obtain ⟨s1, hinv1, hord1, -, hsh, -, -, hcase⟩ := receiveT_split hW hinv hord g hr
  rcases hcase with ⟨-, rfl⟩ | ⟨-, nb, hwl, hnb, hδ, hadv⟩
  · unfold endOff
    rw [hsh.base, hsh.endId]
    have h0 : pidSub s.baseId s.baseId = 0 := pidSub_self _
    omega
  have hinv1' := hinv1.setWindowReady false
  have hord1' : Ord W { s1 with windowReady := false } := hord1.congr rfl rfl rfl rfl
  have hδ' : pidSub nb ({ s1 with windowReady := false } : PRecv.State).baseId ≤ W := by
    show pidSub nb s1.baseId ≤ W; rw [hsh.base]; exact hδ
  have F := advanceWindow_facts hW hinv1' hord1' nb hnb hδ' hadv
  obtain ⟨-, hnle⟩ := windowLoop_le _ s.baseId s.endId hinv.blt hinv.elt loopFuel s.baseId s.baseId nb
    hinv.blt hinv.blt (by rw [pidSub_self]; exact Nat.zero_le _) (Nat.le_refl _) hwl
  have hbe : s'.baseId = nb := F.base
  have hend : s'.endId = if pidSub s1.endId s1.baseId < pidSub nb s1.baseId then nb else s1.endId := F.endId
  rw [hsh.base, hsh.endId] at hend
  rw [if_neg (by omega)] at hend
  unfold endOff
  rw [hbe, hend, off_shift s.endId s.baseId nb hinv.blt hnb hnle]
  omega

/-- `resynchronize id`: the base moves by `δ`, and `δ + endOff' ≤ max endOff (pidSub id base_id)`; if
anything changes, `pidSub id base_id ≤ W`. -/
theorem resynchronize_end {W M : Nat} (hW : WOk W) {s s' : PRecv.State} (hinv : Inv W M s) (hord : Ord W s)
    (id : Nat) (hr : resynchronize s id = .ok s') :
    s' = s ∨ (pidSub id s.baseId ≤ W ∧
      (pidSub s'.baseId s.baseId + endOff s' = endOff s ∨
       pidSub s'.baseId s.baseId + endOff s' ≤ pidSub id s.baseId)) := by
  rcases resynchronize_shape hinv id hr with h0 | ⟨-, hidW, nb, hnb, hle, hadv, -, -⟩
  · exact Or.inl h0
  right
  refine ⟨hidW, ?_⟩
  have hδ : pidSub nb s.baseId ≤ W := Nat.le_trans hle hidW
  have F := advanceWindow_facts hW hinv hord nb hnb hδ hadv
  have hb : s'.baseId = nb := F.base
  have he : s'.endId = if pidSub s.endId s.baseId < pidSub nb s.baseId then nb else s.endId := F.endId
  clear F hadv hr
  unfold endOff
  rw [hb, he]
  by_cases hc : pidSub s.endId s.baseId < pidSub nb s.baseId
  · right
    rw [if_pos hc]
    have h0 : pidSub nb nb = 0 := pidSub_self nb
    omega
  · left
    rw [if_neg hc, off_shift s.endId s.baseId nb hinv.blt hnb (by omega)]
    omega

end Uflow.Sys
