import Uflow.Lemmas.HcInvDef

/-!
C03 (half connection): trap freedom + preservation of `HcInv` for the three network handlers
(`handleDataFrame`, `handleAckFrame`, `handleSyncFrame` with ARBITRARY arguments).
-/

namespace Uflow.HcInv

open Uflow Uflow.Gen Uflow.Codec Uflow.HalfConn Uflow.HcFrame
open Uflow.Rate (FloatOps RateInv)
open Uflow.PSend (PsInv FragOk UidLt)
open Uflow.FrameQ (WInv FqTime)
open Uflow.Credit (PsOk)

variable {F : Type}

/-! ### `handleDataFrame` -/

/-- `dataFrameCore` with the datagram handler as a parameter (so that the kernel never has to look
into `PRecv.handleDatagram`). -/
def dataCoreG (hd : PRecv.State → Datagram → R PRecv.State) (s : State F) (b : Bool)
    (aq' : FrameQ.AckQ) (dgs : List Datagram) : R (State F) :=
  if b then
    let s := { s with aq := aq' }
    dgs.foldlM (fun (s : State F) d => (hd s.pr d).map fun pr => { s with pr := pr }) s
  else .ok s

theorem dataFrameCore_eq_G (s : State F) (b : Bool) (aq' : FrameQ.AckQ) (dgs : List Datagram) :
    dataFrameCore s b aq' dgs = dataCoreG PRecv.handleDatagram s b aq' dgs := rfl

theorem foldDatagrams_ok (hd : PRecv.State → Datagram → R PRecv.State)
    (hspec : ∀ W M pr d, PRecv.Inv W M pr → ∃ pr', hd pr d = .ok pr' ∧ PRecv.Inv W M pr')
    (dgs : List Datagram) (s : State F) (h : HcInv s) :
    ∃ s', dgs.foldlM (fun (s : State F) d =>
        (hd s.pr d).map fun pr => { s with pr := pr }) s = .ok s' ∧
      HcInv s' ∧ lastNow s' = lastNow s := by
  induction dgs generalizing s with
  | nil => exact ⟨s, rfl, h, rfl⟩
  | cons d dgs ih =>
    rw [List.foldlM_cons]
    obtain ⟨W, M, hpr⟩ := h.pr
    obtain ⟨pr', he, hinv⟩ := hspec W M s.pr d hpr
    rw [he]
    simp only [Except.map, bind, Except.bind]
    have h1 : HcInv ({ s with pr := pr' } : State F) :=
      h.congr rfl rfl rfl rfl rfl rfl rfl rfl rfl ⟨W, M, hinv⟩
    obtain ⟨s', hs', hi', hl'⟩ := ih _ h1
    exact ⟨s', hs', hi', hl'⟩

theorem dataCoreG_ok (hd : PRecv.State → Datagram → R PRecv.State)
    (hspec : ∀ W M pr d, PRecv.Inv W M pr → ∃ pr', hd pr d = .ok pr' ∧ PRecv.Inv W M pr')
    (s : State F) (b : Bool) (aq' : FrameQ.AckQ) (dgs : List Datagram) (h : HcInv s) :
    ∃ s', dataCoreG hd s b aq' dgs = .ok s' ∧ HcInv s' ∧ lastNow s' = lastNow s := by
  unfold dataCoreG
  cases b with
  | false => exact ⟨s, by simp, h, rfl⟩
  | true =>
    simp only [if_true]
    have h1 : HcInv ({ s with aq := aq' } : State F) :=
      h.congr rfl rfl rfl rfl rfl rfl rfl rfl rfl h.pr
    obtain ⟨s', hs', hi', hl'⟩ := foldDatagrams_ok hd hspec dgs _ h1
    exact ⟨s', hs', hi', hl'⟩

/-- A data frame with ANY id, nonce and datagram list: no trap, invariant kept. -/
theorem handleDataFrame_ok (s : State F) (id : Nat) (nonce : Bool) (dgs : List Datagram)
    (h : HcInv s) :
    ∃ s', handleDataFrame s id nonce dgs = .ok s' ∧ HcInv s' ∧ lastNow s' = lastNow s := by
  rw [handleDataFrame_eq, dataFrameCore_eq_G]
  exact dataCoreG_ok _ (fun W M pr d hpr => PRecv.handleDatagram_inv hpr d) s _ _ dgs h

/-! ### `handleSyncFrame` -/

/-- `syncFrameCore` with the receiver's `resynchronize` as a parameter. -/
def syncCoreG (rs : PRecv.State → Nat → R PRecv.State) (s : State F) (g : Nat → FrameQ.AckQ)
    (nf np : Option Nat) : R (State F) :=
  let s := match nf with
    | some id => { s with aq := g id }
    | none => s
  let r : R (State F) := match np with
    | some id => (rs s.pr id).map fun pr => { s with pr := pr }
    | none => .ok s
  r.map fun s => { s with syncReply := true }

theorem syncFrameCore_eq_G (s : State F) (g : Nat → FrameQ.AckQ) (nf np : Option Nat) :
    syncFrameCore s g nf np = syncCoreG PRecv.resynchronize s g nf np := rfl

theorem syncCoreG_ok (rs : PRecv.State → Nat → R PRecv.State)
    (hspec : ∀ W M pr id, PRecv.Inv W M pr → ∃ pr', rs pr id = .ok pr' ∧ PRecv.Inv W M pr')
    (s : State F) (g : Nat → FrameQ.AckQ) (nf np : Option Nat) (h : HcInv s) :
    ∃ s', syncCoreG rs s g nf np = .ok s' ∧ HcInv s' ∧ lastNow s' = lastNow s := by
  simp only [syncCoreG]
  have key : ∀ s0 : State F, HcInv s0 → lastNow s0 = lastNow s →
      ∃ s', ((match np with
        | some id => (rs s0.pr id).map fun pr => { s0 with pr := pr }
        | none => Except.ok s0 : R (State F)).map fun s => { s with syncReply := true }) = .ok s' ∧
        HcInv s' ∧ lastNow s' = lastNow s := by
    intro s0 h0 hl0
    cases np with
    | none =>
      refine ⟨{ s0 with syncReply := true }, rfl, ?_, hl0⟩
      exact h0.congr rfl rfl rfl rfl rfl rfl rfl rfl rfl h0.pr
    | some pid =>
      obtain ⟨W, M, hpr⟩ := h0.pr
      obtain ⟨pr', he, hinv⟩ := hspec W M s0.pr pid hpr
      simp only [he, Except.map]
      refine ⟨_, rfl, ?_, hl0⟩
      exact h0.congr rfl rfl rfl rfl rfl rfl rfl rfl rfl ⟨W, M, hinv⟩
  cases nf with
  | none => exact key s h rfl
  | some fid =>
    exact key { s with aq := g fid } (h.congr rfl rfl rfl rfl rfl rfl rfl rfl rfl h.pr) rfl

/-- A sync frame with ANY ids: no trap, invariant kept. -/
theorem handleSyncFrame_ok (s : State F) (nf np : Option Nat) (h : HcInv s) :
    ∃ s', handleSyncFrame s nf np = .ok s' ∧ HcInv s' ∧ lastNow s' = lastNow s := by
  rw [handleSyncFrame_eq, syncFrameCore_eq_G]
  exact syncCoreG_ok _ (fun W M pr id hpr => PRecv.resynchronize_inv hpr id) s _ nf np h

/-! ### `handleAckFrame` -/

/-- `HcInv` after the sender has processed acknowledgements and the frame queue has been replaced
by one satisfying its invariants. -/
theorem HcInv.ackStep {s : State F} (h : HcInv s) (fq : FrameQ.State) (ps : PSend.State)
    (hfq : WInv fq) (hfqt : FqTime fq s.nowMs) (hps : PsInv ps) (hpok : PsOk ps) (huid : UidLt ps)
    (hfrag : ∀ u f, FragOk s.ps u f → FragOk ps u f) :
    HcInv ({ s with fq := fq, ps := ps } : State F) where
  ps := hps
  pok := hpok
  uid := huid
  pend := fun pe hpe => hfrag _ _ (h.pend pe hpe)
  res := fun r hr => hfrag _ _ (h.res r hr)
  fq := hfq
  fqt := hfqt
  pr := h.pr
  rate := h.rate
  sync := h.sync
  clock := h.clock

/-- What the generic proof needs to know about the three functions called by `handleAckFrame`. -/
structure AckFns (ag : FrameQ.State → AckGroup → Option Nat → R (FrameQ.State × List (Nat × Nat)))
    (adv : FrameQ.State → Nat → Option Nat → R FrameQ.State)
    (pack : PSend.State → Nat → R PSend.State) : Prop where
  ag_ok : ∀ fq a rtt t, WInv fq → FqTime fq t →
    ∃ fq' frs, ag fq a rtt = .ok (fq', frs) ∧ WInv fq' ∧ FqTime fq' t
  adv_ok : ∀ fq nb rtt t, WInv fq → FqTime fq t → ∃ fq', adv fq nb rtt = .ok fq' ∧ WInv fq' ∧ FqTime fq' t
  pack_ok : ∀ ps rb, PsInv ps → ∃ ps', pack ps rb = .ok ps' ∧ PSend.acknowledge ps rb = .ok ps' ∧ PsInv ps'

theorem ackFns_model : AckFns FrameQ.acknowledgeGroup FrameQ.advanceTransferWindow PSend.acknowledge where
  ag_ok := by
    intro fq a rtt t hw ht
    obtain ⟨fq', frs, he, hw'⟩ := FrameQ.WInv_ack fq a rtt hw
    exact ⟨fq', frs, he, hw', FrameQ.FqTime_ack _ _ _ _ _ _ ht he⟩
  adv_ok := by
    intro fq nb rtt t hw ht
    obtain ⟨fq', he, hw'⟩ := FrameQ.WInv_atw fq nb rtt hw
    exact ⟨fq', he, hw', FrameQ.FqTime_atw _ _ _ _ _ ht he⟩
  pack_ok := by
    intro ps rb hp
    obtain ⟨ps', he, hp'⟩ := PSend.acknowledge_ok ps rb hp
    exact ⟨ps', he, he, hp'⟩

theorem ackFold_ok {ag : FrameQ.State → AckGroup → Option Nat → R (FrameQ.State × List (Nat × Nat))}
    {adv : FrameQ.State → Nat → Option Nat → R FrameQ.State}
    {pack : PSend.State → Nat → R PSend.State} (hf : AckFns ag adv pack)
    (rtt : Option Nat) (acks : List AckGroup) (s : State F) (h : HcInv s) :
    ∃ s', List.foldlM
      (fun (s : State F) a =>
        handleAckFrame.match_3 (fun _ => R (State F)) (ag s.fq a rtt)
          (fun t => Except.error t) fun fq frs =>
          Except.ok { s with fq := fq, ps := List.foldl (fun ps x => handleAckFrame.match_1 (fun _ => PSend.State) x fun uid fid => PSend.ackFragment ps uid fid) s.ps frs })
      s acks = .ok s' ∧ HcInv s' ∧ lastNow s' = lastNow s := by
  induction acks generalizing s with
  | nil => exact ⟨s, rfl, h, rfl⟩
  | cons a acks ih =>
    rw [List.foldlM_cons]
    obtain ⟨fq', frs, he, hw, ht⟩ := hf.ag_ok s.fq a rtt s.nowMs h.fq h.fqt
    rw [he]
    simp only [bind, Except.bind]
    have hfold : (List.foldl (fun ps (x : Nat × Nat) => handleAckFrame.match_1 (fun _ => PSend.State) x fun uid fid => PSend.ackFragment ps uid fid) s.ps frs)
        = frs.foldl (fun ps (x : Nat × Nat) => PSend.ackFragment ps x.1 x.2) s.ps := rfl
    rw [hfold]
    have h1 : HcInv ({ s with fq := fq', ps := frs.foldl (fun ps (x : Nat × Nat) => PSend.ackFragment ps x.1 x.2) s.ps } : State F) :=
      h.ackStep _ _ hw ht (PSend.psInv_foldl_ackFragment frs _ h.ps)
        (Credit.ackSteps_psOk (ackSteps_foldl s.ps frs) h.pok)
        (PSend.uidLt_foldl_ackFragment frs _ h.uid)
        (fun u f hf => PSend.fragOk_foldl_ackFragment frs _ u f hf)
    obtain ⟨s', hs', hi', hl'⟩ := ih _ h1
    exact ⟨s', hs', hi', hl'⟩

theorem ackP_ok {ag : FrameQ.State → AckGroup → Option Nat → R (FrameQ.State × List (Nat × Nat))}
    {adv : FrameQ.State → Nat → Option Nat → R FrameQ.State}
    {pack : PSend.State → Nat → R PSend.State} (hf : AckFns ag adv pack)
    (s : State F) (fb pb : Nat) (acks : List AckGroup) (h : HcInv s) :
    ∃ s', ackP s fb pb acks ag adv pack = .ok s' ∧ HcInv s' ∧ lastNow s' = lastNow s := by
  unfold ackP
  simp only []
  obtain ⟨s1, hs1, h1, hl1⟩ := ackFold_ok hf s.rate.rttMs acks s h
  rw [hs1]
  simp only []
  obtain ⟨fq2, he2, hw2, ht2⟩ := hf.adv_ok s1.fq fb s.rate.rttMs s1.nowMs h1.fq h1.fqt
  rw [he2]
  simp only []
  obtain ⟨ps2, he3, he3', hp3⟩ := hf.pack_ok s1.ps pb h1.ps
  rw [he3]
  simp only []
  refine ⟨_, rfl, ?_, hl1⟩
  exact h1.ackStep _ _ hw2 ht2 hp3
    (Credit.ackSteps_psOk (.ack pb (.refl _) he3') h1.pok)
    (PSend.uidLt_acknowledge _ _ _ he3' h1.uid)
    (fun u f hf => PSend.fragOk_acknowledge _ _ _ _ _ he3' hf)

/-- An ack frame with ANY frame base id, packet base id (e.g. `≥ 2^20`, or outside the window) and
ANY list of ack groups (e.g. naming frames that were never sent): no trap, invariant kept. -/
theorem handleAckFrame_ok (s : State F) (fb pb : Nat) (acks : List AckGroup) (h : HcInv s) :
    ∃ s', handleAckFrame s fb pb acks = .ok s' ∧ HcInv s' ∧ lastNow s' = lastNow s := by
  rw [handleAckFrame_eq]
  exact ackP_ok ackFns_model s fb pb acks h

end Uflow.HcInv
